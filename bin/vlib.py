#!/usr/bin/env python3
"""Shared machinery for /verif/bin/check: builds, Gen regeneration, Lean build + audit,
running cases through the real code (harness) and the model (driver), comparison, evidence."""
import json, os, re, subprocess, sys, time, hashlib, shutil
from concurrent.futures import ThreadPoolExecutor

VERIF = os.path.dirname(os.path.dirname(os.path.abspath(__file__)))
REPO = os.environ.get("VERIF_REPO", "/repo")
HARNESS = os.path.join(VERIF, "harness")
LEAN = os.path.join(VERIF, "lean")
WORK = os.path.join(VERIF, "work")
DRIVER = os.path.join(LEAN, ".lake", "build", "bin", "driver")
NCPU = os.cpu_count() or 8

ALL_CFGS = ["std", "std+compact", "std+alloc", "std+compact+alloc", "compact", "none", "alloc", "compact+alloc"]
QUICK_CFGS = ["std", "std+compact", "std+alloc", "std+compact+alloc", "compact"]
ENV = dict(os.environ, CARGO_NET_OFFLINE="true")

def log(*a):
    print(*a, flush=True)

def sh(cmd, cwd=None, timeout=None, env=None):
    p = subprocess.run(cmd, cwd=cwd, shell=isinstance(cmd, str), stdout=subprocess.PIPE, stderr=subprocess.STDOUT,
                       timeout=timeout, env=env or ENV)
    return p.returncode, p.stdout.decode("utf-8", "replace")

def hx_path(cfg, profile):
    return os.path.join(HARNESS, "target", cfg, "release" if profile == "release" else "dbg", "hx")

# ------------------------------------------------------------------ builds
def build_one(cfg, profile):
    feats = "" if cfg == "none" else cfg.replace("+", ",")
    cmd = ["cargo", "build", "--offline", "--quiet", "--target-dir", os.path.join("target", cfg)]
    cmd += ["--release"] if profile == "release" else ["--profile", "dbg"]
    if feats:
        cmd += ["--features", feats]
    env = dict(ENV, HX_REPO=REPO)
    if REPO != "/repo":
        # testing against a scratch copy of the repository: cargo "paths" override
        cmd += ["--config", 'paths=["%s"]' % REPO]
    rc, out = sh(cmd, cwd=HARNESS, env=env, timeout=1200)
    return cfg, profile, rc, out

def build_harness(cfgs, profiles):
    """(re)build the harness against /repo's current working tree; returns list of failures"""
    t0 = time.time()
    jobs = [(c, p) for c in cfgs for p in profiles]
    fails = []
    with ThreadPoolExecutor(max_workers=min(len(jobs), 8)) as ex:
        for cfg, profile, rc, out in ex.map(lambda j: build_one(*j), jobs):
            if rc != 0:
                fails.append((cfg, profile, out[-3000:]))
    log("[build] harness %d builds in %.1fs, %d failed" % (len(jobs), time.time() - t0, len(fails)))
    return fails

TABLE32_FOUND = False

def regen(cfgs):
    """dump every table/constant from the compiled crate and translate to MinLex/Gen/*.lean"""
    os.makedirs(WORK, exist_ok=True)
    args = []
    need = [c for c in ("std", "std+compact", "compact") if c in cfgs] + [c for c in cfgs if c not in ("std", "std+compact", "compact")]
    for c in need:
        p = os.path.join(WORK, "dump.%s.txt" % c)
        rc, out = sh([hx_path(c, "release"), "dump"])
        if rc != 0:
            return ["dump failed for %s" % c]
        tmp = "%s.%d" % (p, os.getpid())
        open(tmp, "w").write(out)
        os.replace(tmp, p)          # atomic: checks may run concurrently
        args.append("%s=%s" % (c, p))
    rc, out = sh([sys.executable, os.path.join(VERIF, "gen", "gen_lean.py"), os.path.join(LEAN, "MinLex", "Gen")] + args,
                 env=dict(ENV, HX_REPO=REPO))
    notes = [l for l in out.splitlines() if l.startswith("CONFIG-DEPENDENT")]
    global TABLE32_FOUND
    TABLE32_FOUND = "TABLE32 found" in out
    log("[gen] " + out.strip().splitlines()[-1])
    if rc != 0:
        notes.append("gen_lean failed: " + out[-500:])
    return notes

# ------------------------------------------------------------------ source fingerprints
FP_FILES = ["src/%s" % f for f in ("parse.rs", "number.rs", "lemire.rs", "bellerophon.rs", "slow.rs", "rounding.rs", "mask.rs",
                                    "extended_float.rs", "num.rs", "bigint.rs", "stackvec.rs", "heapvec.rs", "table.rs",
                                    "table_lemire.rs", "table_small.rs", "table_bellerophon.rs", "libm.rs", "lib.rs", "fpu.rs")] + \
           ["examples/simple.rs", "fuzz/fuzz_targets/parse.rs", "tests/integration_tests.rs", "etc/correctness/test-parse-golang/main.rs",
            "etc/correctness/test-parse-random/_common.rs", "etc/correctness/test-parse-unittests/main.rs", "Cargo.toml"]

def _strip_rust(text):
    """drop comments and all whitespace (a re-formatting or a comment edit is not a code change)"""
    text = re.sub(r"/\*.*?\*/", "", text, flags=re.S)
    text = re.sub(r"//[^\n]*", "", text)
    return re.sub(r"\s+", "", text)

def source_fingerprints():
    out = {}
    for f in FP_FILES:
        p = os.path.join(REPO, f)
        if os.path.exists(p):
            out[f] = hashlib.sha256(_strip_rust(open(p, encoding="utf-8", errors="replace").read()).encode()).hexdigest()[:16]
    return out

def changed_sources():
    """files whose code differs from the tree the model was last validated against (bin/source_fingerprints.json).
    Used ONLY to deepen the search (more rounds), never as a verdict."""
    p = os.path.join(VERIF, "bin", "source_fingerprints.json")
    if not os.path.exists(p):
        return []
    ref = json.load(open(p))
    cur = source_fingerprints()
    return sorted(f for f in set(ref) | set(cur) if ref.get(f) != cur.get(f))

# ------------------------------------------------------------------ lean
ALLOWED_AXIOMS = {"propext", "Classical.choice", "Quot.sound"}

def lake_build(targets, timeout=3600):
    t0 = time.time()
    rc, out = sh(["lake", "build"] + targets, cwd=LEAN, timeout=timeout)
    log("[lake] build %s rc=%d in %.1fs" % (" ".join(targets), rc, time.time() - t0))
    return rc, out

def failing_decls(out):
    """names of modules / declarations the kernel or elaborator rejected"""
    bad = []
    for m in re.finditer(r"error: ([^\n]*)", out):
        bad.append(m.group(1)[:300])
    mods = re.findall(r"✖ \[\d+/\d+\] Building (\S+)", out)
    return mods, bad[:20]

def source_audit(mods_dir=None):
    """grep the Lean sources for constructs that would weaken the trusted base"""
    bad = []
    pat = re.compile(r"\b(sorry|admit|native_decide|bv_decide|implemented_by|maxHeartbeats 0)\b|^\s*axiom\s|^\s*unsafe\s")
    for root, _, files in os.walk(os.path.join(LEAN, "MinLex")):
        for fn in files:
            if not fn.endswith(".lean"):
                continue
            p = os.path.join(root, fn)
            in_block = 0
            for i, line in enumerate(open(p, encoding="utf-8"), 1):
                s = line
                # strip comments (line comments and simple block comments)
                if in_block:
                    if "-/" in s:
                        in_block = 0
                        s = s.split("-/", 1)[1]
                    else:
                        continue
                if "/-" in s:
                    pre, rest = s.split("/-", 1)
                    if "-/" in rest:
                        s = pre + rest.split("-/", 1)[1]
                    else:
                        in_block = 1
                        s = pre
                s = s.split("--", 1)[0]
                if pat.search(s):
                    bad.append("%s:%d: %s" % (os.path.relpath(p, LEAN), i, line.strip()[:120]))
    return bad

def axiom_audit(prop_id, names=None):
    """run `#print axioms` for every theorem listed in the Audit files of the property"""
    names = names or [prop_id]
    thms_all, bad_all, out_all = {}, [], ""
    for nm in names:
        t, b, o = axiom_audit_one(nm)
        if t:
            thms_all.update(t)
        bad_all += b
        out_all += o
    return thms_all, bad_all, out_all

def axiom_audit_one(prop_id):
    audit = os.path.join(LEAN, "MinLex", "Audit", "%s.lean" % prop_id)
    if not os.path.exists(audit):
        return None, [], "no audit file"
    rc, out = sh(["lake", "env", "lean", audit], cwd=LEAN, timeout=1800)
    thms = {}
    cur = None
    for line in out.splitlines():
        m = re.match(r"'([^']+)' depends on axioms: \[(.*)\]", line)
        m2 = re.match(r"'([^']+)' does not depend on any axioms", line)
        if m:
            thms[m.group(1)] = [a.strip() for a in m.group(2).split(",") if a.strip()]
        elif m2:
            thms[m2.group(1)] = []
    # multi-line axiom lists
    for m in re.finditer(r"'([^']+)' depends on axioms: \[([^\]]*)\]", out, re.S):
        thms[m.group(1)] = [a.strip() for a in m.group(2).replace("\n", " ").split(",") if a.strip()]
    bad = []
    for t, ax in thms.items():
        for a in ax:
            if a not in ALLOWED_AXIOMS:
                bad.append("%s uses axiom %s" % (t, a))
    if rc != 0:
        bad.append("audit file failed: " + out[-400:])
    return thms, bad, out

# ------------------------------------------------------------------ running cases
def run_stream(cmd, lines, flush=False, timeout=None):
    """feed lines to a process; handle aborts AND hangs by locating the dying case.
    returns list of output lines (same length), with 'abort <why>' for cases that killed / hung the process"""
    results = []
    pos = 0
    n = len(lines)
    data_all = lines
    timeout = timeout or int(os.environ.get("VERIF_RUN_TIMEOUT", "900"))
    hangs = 0
    while pos < n:
        if hangs >= 2:
            results.extend(["abort skipped-after-two-timeouts"] * (n - pos))
            break
        chunk = data_all[pos:]
        inp = ("\n".join(chunk) + "\n").encode("latin-1")
        try:
            p = subprocess.run(cmd, input=inp, stdout=subprocess.PIPE, stderr=subprocess.PIPE, timeout=timeout)
            out = p.stdout.decode("latin-1").split("\n")
            if out and out[-1] == "":
                out.pop()
            if p.returncode == 0 and len(out) == len(chunk):
                results.extend(out)
                pos = n
                continue
        except subprocess.TimeoutExpired:
            pass
        # died or hung: rerun flushed to find the exact case
        hung = False
        try:
            p2 = subprocess.run(cmd + ["--flush"], input=inp, stdout=subprocess.PIPE, stderr=subprocess.PIPE, timeout=timeout)
            raw, err, rc = p2.stdout, p2.stderr.decode("latin-1", "replace"), p2.returncode
        except subprocess.TimeoutExpired as e:
            raw, err, rc, hung = (e.stdout or b""), "", -1, True
        out2 = raw.decode("latin-1").split("\n")
        if out2 and out2[-1] == "":
            out2.pop()
        elif out2 and hung:
            out2.pop()          # incomplete last line
        if rc == 0 and len(out2) == len(chunk):
            results.extend(out2)
            pos = n
            continue
        k = min(len(out2), len(chunk) - 1)
        results.extend(out2[:k])
        kind = "abort timeout (no answer within %ds)" % timeout if hung else "abort rc=%d" % rc
        if "unsafe precondition" in err:
            kind += " unsafe-precondition"
        elif "overflow" in err and "stack" in err:
            kind += " stack-overflow"
        elif "memory allocation" in err:
            kind += " alloc-failure"
        results.append(kind)
        if hung:
            hangs += 1
        pos += k + 1
    return results

def run_impl(cfg, profile, lines):
    d = os.environ.get("VERIF_DUMP_CASES")
    if d and profile == "release":
        # coverage measurement (bin/coverage): remember every line sent to the real code
        os.makedirs(d, exist_ok=True)
        with open(os.path.join(d, "%s.txt" % cfg), "a", encoding="latin-1") as fh:
            fh.write("\n".join(lines) + "\n")
    return run_stream([hx_path(cfg, profile), "run"], lines)

def run_model(cfg, profile, lines, jobs=None, heavy=False):
    """run the Lean driver, chunked over cores (heavy: every line is expensive, split maximally)"""
    jobs = jobs or NCPU
    n = len(lines)
    if n == 0:
        return []
    k = max(1, min(jobs, n // 200 + 1)) if not heavy else max(1, min(jobs, n))
    size = (n + k - 1) // k
    chunks = [lines[i:i + size] for i in range(0, n, size)]
    def one(ch):
        try:
            p = subprocess.run([DRIVER, cfg, profile], input=("\n".join(ch) + "\n").encode("latin-1"), stdout=subprocess.PIPE,
                               stderr=subprocess.PIPE, timeout=int(os.environ.get("VERIF_DRIVER_TIMEOUT", "2400")))
        except subprocess.TimeoutExpired:
            raise RuntimeError("driver timed out on a chunk of %d lines (first: %s)" % (len(ch), ch[0][:200]))
        out = p.stdout.decode("latin-1").split("\n")
        if out and out[-1] == "":
            out.pop()
        if p.returncode != 0 or len(out) != len(ch):
            raise RuntimeError("driver failed rc=%d lines %d/%d: %s" % (p.returncode, len(out), len(ch), p.stderr.decode()[-300:]))
        return out
    res = []
    with ThreadPoolExecutor(max_workers=k) as ex:
        for o in ex.map(one, chunks):
            res.extend(o)
    return res

def run_miri(cfg, lines, timeout=3000, target=None):
    """run cases through the harness under Miri (default Stacked Borrows aliasing model, debug profile).
    returns (outputs, ub) where ub is None or dict(index, case, message).  Supporting check only."""
    feats = "" if cfg == "none" else cfg.replace("+", ",")
    cmd = ["cargo", "+nightly", "miri", "run", "--offline", "--quiet", "--target-dir",
           os.path.join("target", "miri-" + cfg + ("-" + target if target else ""))]
    if target:
        # cross-interpretation: e.g. i686 (32-bit limbs) or s390x (big-endian); Miri builds its sysroot offline
        cmd += ["--target", target]
    if feats:
        cmd += ["--features", feats]
    if REPO != "/repo":
        cmd += ["--config", 'paths=["%s"]' % REPO]
    cmd += ["--", "run", "--flush"]
    env = dict(ENV, HX_REPO=REPO, MIRIFLAGS="-Zmiri-disable-isolation -Zmiri-deterministic-floats")
    try:
        p = subprocess.run(cmd, cwd=HARNESS, input=("\n".join(lines) + "\n").encode("latin-1"), stdout=subprocess.PIPE,
                           stderr=subprocess.PIPE, env=env, timeout=timeout)
    except subprocess.TimeoutExpired:
        return [], dict(index=-1, case="", message="miri timeout")
    out = p.stdout.decode("latin-1").split("\n")
    if out and out[-1] == "":
        out.pop()
    if p.returncode != 0:
        err = p.stderr.decode("latin-1", "replace")
        m = re.search(r"error: (Undefined Behavior[^\n]*|[^\n]*)", err)
        k = len(out)
        return out, dict(index=k, case=lines[k] if k < len(lines) else "", message=(m.group(1) if m else err[-300:]),
                         is_ub="Undefined Behavior" in err)
    return out, None

def run_logmodel(cfg, lines):
    """model side of the site-log correspondence (C08): SitesAll.parseFloatLog through `lean --run`
    (the module imports Mathlib tactics, so it cannot be linked into the driver executable)"""
    n = len(lines)
    if n == 0:
        return []
    k = max(1, min(NCPU, n // 150 + 1))
    size = (n + k - 1) // k
    chunks = [lines[i:i + size] for i in range(0, n, size)]
    def one(ch):
        p = subprocess.run(["lake", "env", "lean", "--run", "LogDriver.lean", cfg], cwd=LEAN,
                           input=("\n".join(ch) + "\n").encode("latin-1"), stdout=subprocess.PIPE, stderr=subprocess.PIPE, env=ENV)
        out = p.stdout.decode("latin-1").split("\n")
        if out and out[-1] == "":
            out.pop()
        if p.returncode != 0 or len(out) != len(ch):
            raise RuntimeError("LogDriver failed rc=%d lines %d/%d: %s" % (p.returncode, len(out), len(ch), (p.stdout.decode()[-300:] + p.stderr.decode()[-300:])))
        return out
    res = []
    with ThreadPoolExecutor(max_workers=k) as ex:
        for o in ex.map(one, chunks):
            res.extend(o)
    return res

def split_ms(mline):
    """driver line -> (model part, spec part or None)"""
    if " | S " in mline:
        a, b = mline.split(" | S ", 1)
        return a, b
    return mline, None

# ------------------------------------------------------------------ known findings
def load_known():
    p = os.path.join(VERIF, "known-findings.json")
    if not os.path.exists(p):
        return []
    return json.load(open(p))

# ------------------------------------------------------------------ evidence / verdict
class Verdict:
    def __init__(self, prop, tier, seed):
        self.prop = prop
        self.tier = tier
        self.seed = seed
        self.violations = []     # dicts with replay info
        self.drift = []
        self.faults = []
        self.known_hits = {}
        self.t0 = time.time()
        self.cover = {}
        self.samples = []
        self.families = {}
        self.evaluations = 0
        self.nontrivial = set()

    def add_family(self, fam, n=1):
        self.families[fam] = self.families.get(fam, 0) + n

def write_replay(prop, name, obj):
    d = os.path.join(WORK, "replay")
    os.makedirs(d, exist_ok=True)
    p = os.path.join(d, "%s-%s.json" % (prop, name))
    json.dump(obj, open(p, "w"), indent=1)
    return p

def write_evidence(prop, tier, seed, level, coverage, assumptions, wall, nviol):
    os.makedirs(os.path.join(VERIF, "evidence"), exist_ok=True)
    ev = dict(property_id=prop, tier=tier, seed=seed, level=level, coverage=coverage, assumptions=assumptions,
              wall_s=round(wall, 2), violations=nviol)
    json.dump(ev, open(os.path.join(VERIF, "evidence", "%s.json" % prop), "w"), indent=1)
    return ev
