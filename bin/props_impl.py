#!/usr/bin/env python3
"""Per-property correspondence / predicate checks (the `Tie` and `Search` parts of DESIGN section 7)."""
import os, sys, json, random
from vlib import *
import vlib
import gens
import importlib
chk = sys.modules["__main__"]

def _mod():
    return sys.modules["__main__"]

# ------------------------------------------------------------------ internal-stage drift detectors
def stage_drift(ctx, res, lines, cfgs, label):
    """pub-but-hidden stages (parse_number via the hook, try_fast_path, compute_float, compute_error,
    Bellerophon mul/normalize, parse_mantissa, positive/negative_digit_comp, rounding steps):
    implementation == model on the same lines.  NEVER a verdict by itself (a behaviour-preserving refactor
    may legitimately change an internal stage): differences are recorded in the evidence, localise a
    disagreement found elsewhere, and make the check search deeper (extra rounds).  Only an abort
    (undefined-behaviour precondition check, crash) is reported directly."""
    n = 0
    diffs = res.extra.setdefault("stage_differences", [])
    for c in cfgs:
        if c not in ctx.cfgs:
            continue
        model = run_model(c, "release", lines)
        for p in ctx.profiles:
            impl = run_impl(c, p, lines)
            for line, I, Mx in zip(lines, impl, model):
                m, trap, sp = _mod().parse_model(Mx)
                n += 1
                bad = False
                if I.startswith("abort"):
                    res.viol.append(("abort", dict(case=line[:500], cfg=c, profile=p, impl=I)))
                elif I.startswith("unknown-command"):
                    continue
                elif I.startswith("panic"):
                    bad = not (p == "dbg" and trap) and not m.startswith("panic")
                else:
                    bad = I != m
                if bad:
                    if line.startswith("sci "):
                        # remember the significand: the search is then aimed at inputs that reach the big-integer
                        # stage with exactly these first 19 digits (focus_prefix_pass)
                        w = line.split()[1]
                        if w.isdigit() and int(w) > 0 and len(w) <= 19:
                            fp = res.extra.setdefault("focus_prefix", [])
                            w19 = int(w) * 10 ** (19 - len(w))
                            if w19 not in fp and len(fp) < 24:
                                fp.append(w19)
                    res.extra["stage_difference_count"] = res.extra.get("stage_difference_count", 0) + 1
                    if len(diffs) < 10:
                        diffs.append(dict(stage=label, case=line[:300], cfg=c, profile=p, impl=I[:160], model=m[:160]))
    res.extra["stage_" + label] = res.extra.get("stage_" + label, 0) + n
    res.evals += n

def focus_prefix_pass(prop, ctx, rng, res, known, f):
    """when `scientific_exponent` (an internal stage, never a verdict) differs from the model for some
    significands, construct valid inputs that reach the big-integer stage with exactly those first 19 digits
    (exact search for midpoints in [w 10^n, (w+1) 10^n)) and judge them end to end"""
    ws = res.extra.get("focus_prefix") or []
    if not ws or res.viol:
        return
    cases = gens.gen_prefix_near_mid(rng, f, ws, "T-focus")
    res.extra["focus_prefix_cases"] = res.extra.get("focus_prefix_cases", 0) + len(cases)
    if cases:
        _mod().check_pf(prop, cases, ctx.cfgs, ctx.profiles, res, known)

def pf_to_stage_lines(cases, rng, limit):
    """pn / fp / sci lines derived from pf cases"""
    out = []
    sel = cases if len(cases) <= limit else rng.sample(cases, limit)
    for line, fam in sel:
        t = line.split(" ## ")[0].split()
        if t[0] != "pf":
            continue
        out.append("pn %s %s %s" % (t[2], t[3], t[4]))
    for _ in range(200):
        v = rng.choice([0, 1, 1844674407370955161, 1844674407370955162, 2 ** 64 - 1, rng.getrandbits(64), rng.getrandbits(60)])
        out.append("adddigit %d %d" % (v, rng.choice([0, 5, 6, 9, 255])))
    return out

def sci_probe_lines(rng):
    """structured significands for `scientific_exponent`: decade and binade boundaries and their neighbours,
    plus random ones of every length"""
    probes = set()
    for k in range(0, 20):
        for d in (-1, 0, 1):
            probes.add(10 ** k + d)
    for k in range(0, 65):
        for d in (-1, 0, 1):
            probes.add(2 ** k + d)
    for k in range(1, 20):
        probes.add(rng.randrange(10 ** (k - 1), 10 ** k))
    return ["sci %d %d" % (v, rng.choice([0, -300, 300, 17, -1])) for v in sorted(x for x in probes if 0 < x < 2 ** 64)]

def mp_to_stage_lines(cases, rng, limit, compact):
    out = []
    sel = cases if len(cases) <= limit else rng.sample(cases, limit)
    for line, fam in sel:
        t = line.split()
        if t[0] != "mp":
            continue
        f, w, q, tr = t[1], int(t[2]), int(t[3]), t[4]
        out.append("fp %s %d %d %s" % (f, w, q, tr))
        if not compact:
            out.append("cf %s %d %d" % (f, q, w))
            if w != 0 and -342 <= q <= 308:
                out.append("ce %s %d %d" % (f, q, w))
        else:
            out.append("belnorm %d %d" % (w, q % 100))
            out.append("belmul %d %d %d %d" % (w | (1 << 63), q % 50, (w * 2654435761 % 2 ** 64) | (1 << 63), -(q % 70)))
        out.append("sci %d %d" % (w, max(-2 ** 31 + 50, min(2 ** 31 - 50, q))))
        out.append("u2f %s %d" % (f, w))
    out += sci_probe_lines(rng)
    return out

def slow_stage_lines(rng, f, n):
    """positive/negative_digit_comp and slow on synthetic but well-formed arguments"""
    out = []
    F = gens.FMT[f]
    for _ in range(n):
        k = rng.choice([1, 1, 2, 3, 5, 12, 30, 40])
        limbs = gens.rand_big(rng, k)
        e = rng.choice([0, 1, 5, 27, 28, 100, 135, 136, 270, 300])
        if k * 64 + e * 3.33 < 3800:
            out.append("pdc %s %s %d" % (f, gens.ltok(limbs), e))
        mant = rng.getrandbits(64) | (1 << 63)
        bexp = rng.randint(-60, 2 ** F["ebits"] + F["mbits"] - 80)
        ne = -rng.choice([1, 5, 20, 27, 28, 60, 135, 136, 300, 340, 760])
        kk = rng.choice([1, 2, 5, 12, 30, 40])
        out.append("ndc %s %s %d %d %d" % (f, gens.ltok(gens.rand_big(rng, kk)), mant, bexp, ne))
    return out

# ------------------------------------------------------------------ C01 / C02
def run_C01(ctx, rng, tier, res, known):
    cases = _mod().cases_C01(rng, tier, "f64")
    _mod().check_pf("C01", cases, ctx.cfgs, ctx.profiles, res, known)
    core_crosscheck(cases, "f64", res)
    mp_monitor(ctx, rng, tier, "f64", res)
    q = tier == "quick"
    stage_drift(ctx, res, pf_to_stage_lines(cases, rng, 3000 if q else 40000), ("std", "std+compact"), "parse_number")
    stage_drift(ctx, res, slow_stage_lines(rng, "f64", 300 if q else 5000), ("std", "std+alloc", "std+compact"), "digit_comp")
    stage_drift(ctx, res, sci_probe_lines(rng), ("std", "std+compact"), "scientific_exponent")
    focus_prefix_pass("C01", ctx, rng, res, known, "f64")
    if not q:
        cross_target_pass(ctx, rng, res, gens.gen_boundary(rng, "f64", 200) + gens.gen_bigint_ties(rng, "f64", 60) + _mod().cases_long(rng, "quick", "f64")[::40])
    return {}

def run_C02(ctx, rng, tier, res, known):
    cases = _mod().cases_C01(rng, tier, "f32")
    # single rounding: decimals where rounding via f64 first gives a different f32
    cases += double_rounding_cases(rng, 300 if tier == "quick" else 5000)
    _mod().check_pf("C02", cases, ctx.cfgs, ctx.profiles, res, known)
    core_crosscheck(cases, "f32", res)
    mp_monitor(ctx, rng, tier, "f32", res)
    q = tier == "quick"
    stage_drift(ctx, res, pf_to_stage_lines(cases, rng, 3000 if q else 40000), ("std", "std+compact"), "parse_number")
    stage_drift(ctx, res, slow_stage_lines(rng, "f32", 300 if q else 5000), ("std", "std+alloc", "std+compact"), "digit_comp")
    stage_drift(ctx, res, sci_probe_lines(rng), ("std", "std+compact"), "scientific_exponent")
    focus_prefix_pass("C02", ctx, rng, res, known, "f32")
    if not q:
        cross_target_pass(ctx, rng, res, gens.gen_boundary(rng, "f32", 200) + gens.gen_bigint_ties(rng, "f32", 60) + _mod().cases_long(rng, "quick", "f32")[::40])
    return {}

def double_rounding_cases(rng, n):
    """values just above an f32 midpoint by less than half an f64 ulp: f64-then-f32 rounds to even (wrong)"""
    out = []
    for _ in range(n):
        E = rng.randint(1, 253)
        s = rng.getrandbits(23) & ~1  # even significand: tie would go down
        bits = (E << 23) | s
        m, k = gens.midpoint_above("f32", bits)
        # add 2^-60 relative
        mm = (m << 40) + rng.choice([1, 3, 1 << 5])
        d, e = gens.dyadic_to_dec(mm, k - 40)
        out.append((gens.pf("f32", str(d), "", e), "B-double-rounding"))
    return out

def core_crosscheck(cases, f, res):
    """independent oracle: Rust core's parser must agree with the Lean spec on the same decimals"""
    lines, idx = [], []
    for i, (line, fam) in enumerate(cases):
        t = line.split(" ## ")[0].split()
        if t[0] != "pf" or any(not x.startswith("d") and x != "-" for x in (t[2], t[3])):
            continue
        if "+" in t[2] or "+" in t[3]:
            continue
        a = t[2][1:] if t[2] != "-" else ""
        b = t[3][1:] if t[3] != "-" else ""
        if len(a) + len(b) > 3000:
            continue
        lines.append("core %s %s.%se%s" % (f, a or "0", b or "0", t[4]))
        idx.append(i)
    if not lines:
        return
    out = run_impl("std", "release", lines)
    spec = run_model("std", "release", [cases[i][0].split(" ## ")[0] for i in idx])
    bad = 0
    for o, s, i in zip(out, spec, idx):
        m, trap, sp = _mod().parse_model(s)
        if sp is not None and o != sp:
            bad += 1
            if bad <= 3:
                res.fault.append(dict(why="oracles disagree: Lean rne vs core::str::parse", case=cases[i][0][:300], core=o, spec=sp))
    res.extra["core_crosschecked"] = len(lines)

def mp_monitor(ctx, rng, tier, f, res):
    """hypothesis monitor: EstOK on the implementation's declined estimates, definite => correct"""
    q = tier == "quick"
    tbl = gens.read_lemire_table(os.path.join(WORK, "dump.std.txt"))
    cases = gens.gen_mp_near_halfway(rng, f, 600 if q else 10000) + gens.gen_mp_allones(f, tbl) + gens.gen_mp_uniform(rng, f, 1500 if q else 50000)
    cases = [c for c in cases if not (c[0].split()[4] == "1" and int(c[0].split()[2]) in (0, 2 ** 64 - 1))]
    check_mp(ctx, cases, f, res, prop_for_est=True)

def check_mp(ctx, cases, f, res, prop_for_est=False, known=None):
    lines = [c[0] for c in cases]
    cfgs = [c for c in ctx.cfgs if c in ("std", "std+compact")] or ["std"]
    F = gens.FMT[f]
    est_queries = []
    for c in cfgs:
        impl = {p: run_impl(c, p, lines) for p in ctx.profiles}
        # a definite answer is judged as its consumer sees it: packed by the implementation's own extended_to_float
        # (a producer and the packer may disagree about the hidden bit: seed C11-f), not by a formula of the check
        packed = {}
        for p in ctx.profiles:
            idx, q2 = [], []
            for i, I in enumerate(impl[p]):
                tt = I.split()
                if len(tt) == 2 and not I.startswith(("panic", "abort")) and tt[1].lstrip("-").isdigit() and int(tt[1]) >= 0:
                    idx.append(i); q2.append("e2f %s %s %s" % (f, tt[0], tt[1]))
            outs = run_impl(c, p, q2) if q2 else []
            packed[p] = dict(zip(idx, outs))
        model = run_model(c, "release", lines)
        for i, line in enumerate(lines):
            m, trap, s = _mod().parse_model(model[i])
            lo, hi = s.split()
            t = line.split()
            trunc = t[4] == "1"
            for p in ctx.profiles:
                I = impl[p][i]
                res.evals += 1
                fam = cases[i][1]
                if I.startswith(("panic", "abort")):
                    if p == "dbg" and trap and I.startswith("panic"):
                        # the model predicts this trap; outside "declines or definite" => C11 finding
                        res.viol.append(("trap", dict(case=line, cfg=c, profile=p, impl=I, family=fam)))
                    else:
                        res.viol.append(("panic", dict(case=line, cfg=c, profile=p, impl=I, family=fam)))
                    continue
                mant, exp = I.split()
                mant, exp = int(mant), int(exp)
                if exp >= 0:
                    bits = "%x" % (mant | (exp << F["mbits"]))
                    pk = packed[p].get(i)
                    if pk is not None and not pk.startswith(("panic", "abort")):
                        bits = pk.strip().lower()
                    if bits != lo or (trunc and bits != hi):
                        res.viol.append(("confidently-wrong", dict(case=line, cfg=c, profile=p, impl=I, bits=bits, rne_at_w=lo, rne_left_at_w1=hi, family=fam)))
                    if m.startswith("panic"):
                        res.drift.append(dict(case=line, cfg=c, impl=I, model=m))
                    else:
                        mm, me = m.split()
                        if int(me) >= 0 and (mm, me) != (str(mant), str(exp)):
                            res.drift.append(dict(case=line, cfg=c, impl=I, model=m))
                        # model declines where impl is definite and right: implementation more aggressive than model
                        if int(me) < 0:
                            res.drift.append(dict(case=line, cfg=c, impl=I, model=m, note="impl definite where model declines"))
                else:
                    res.nontrivial.add(line)
                    if p == "release" and (not trunc or int(t[2]) >= 10 ** 18):
                        # many_digits implies w >= 10^18 on every input parse_number produces
                        est_queries.append((c, "est %s %s %s %s %d %d" % (f, t[2], t[3], t[4], mant, exp), line))
                    if not m.startswith("panic"):
                        mm, me = m.split()
                        if int(me) < 0 and (mm, me) != (str(mant), str(exp)):
                            res.drift.append(dict(case=line, cfg=c, impl=I, model=m, note="declined estimates differ"))
            if i % max(1, len(lines) // 4) == 0 and len(res.samples) < 8:
                res.samples.append(dict(case=line, cfg=c, impl=impl[ctx.profiles[0]][i], rne=lo))
    # EstOK monitor on the implementation's declined estimates
    bycfg = {}
    for c, qline, line in est_queries:
        bycfg.setdefault(c, []).append((qline, line))
    nest = 0
    for c, lst in bycfg.items():
        outs = run_model(c, "release", [x[0] for x in lst])
        for (qline, line), o in zip(lst, outs):
            nest += 1
            if o == "0":
                res.drift.append(dict(case=line, cfg=c, note="EstOK violated by the implementation's declined estimate", est=qline))
    res.extra["estok_monitored"] = res.extra.get("estok_monitored", 0) + nest

# ------------------------------------------------------------------ C03
def run_C03(ctx, rng, tier, res, known):
    q = tier == "quick"
    from vlib import NCPU
    for f in ("f32", "f64"):
        cases = gens.gen_renderings(rng, f, 5 if q else 64)
        if q:
            rng.shuffle(cases)
            cases = cases[:6000]
        # floats next to a boundary that is a short decimal (shortest rendering = an exact tie)
        cases += gens.gen_renderings(rng, f, 0, extra_bits=gens.tie_neighbour_bits(rng, f))
        # floats m x 10^q of the disguised fast path whose integer product wraps / sits next to its two limits (seed C03-e)
        cases += gens.gen_renderings(rng, f, 0, extra_bits=[gens.py_rne(f, m * 10 ** qq, 1) for m, qq in gens.gen_disguised_wq(rng, f)])
        _mod().check_pf("C03", cases, ctx.cfgs, ctx.profiles, res, known, expect_bits=True)
    # Rust's own formatter as the rendering source (implementation side only: a test, not the proof; any
    # failure is a concrete replay): shortest / 9- resp. 17-digit / Display renderings parsed back through the
    # shipped front-end. quick: strided sample; thorough: ALL finite non-negative f32 patterns (exhaustive).
    from concurrent.futures import ThreadPoolExecutor
    jobs = []
    if q:
        jobs += ["rt f32 %d 20000 %d" % (rng.randrange(0, 1 << 16), 104729), "rt f64 %d 20000 %d" % (rng.getrandbits(40), 450359962737049)]
    else:
        step = 1 << 22
        jobs += ["rt f32 %d %d 1" % (s0, step) for s0 in range(0, 0x7f800000, step)]
        jobs += ["rt f64 %d 200000 %d" % (rng.getrandbits(40), 45035996273705 + 2 * k) for k in range(64)]
    n_rt = 0
    for c in [x for x in ctx.cfgs if x in ("std", "std+compact")]:
        with ThreadPoolExecutor(max_workers=NCPU) as ex:
            outs = list(ex.map(lambda j: run_impl(c, "release", [j])[0], jobs))
        for j, o in zip(jobs, outs):
            t = j.split()
            n_rt += int(t[3])
            if not o.startswith("bad 0"):
                res.viol.append(("round-trip", dict(case=j, cfg=c, impl=o, why="a Rust-formatted float did not parse back to itself (first failing pattern:string after the count)")))
    res.evals += n_rt
    res.extra["formatter_round_trips"] = n_rt
    res.extra["exhaustive_f32_formatter_round_trip"] = (not q)
    return {}

# ------------------------------------------------------------------ C04
def run_C04(ctx, rng, tier, res, known):
    q = tier == "quick"
    cases = []
    for f in ("f32", "f64"):
        cases += gens.gen_random_valid(rng, f, 2500 if q else 200000)
        cases += gens.gen_thresholds(rng, f)
        cases += gens.gen_boundary(rng, f, 1500 if q else 30000)
        cases += gens.gen_seams(rng, f)[:: (3 if q else 1)]
        cases += gens.gen_table_index_sweep(f)
        # every big-integer code path end to end: long carry chains and zero-limb runs in the multiplication
        # by 5^135, integer ties across limb boundaries, digit cuts
        cases += gens.gen_near_tie_posexp(rng, f, 600 if q else 20000)
        cases += gens.gen_sparse_posexp(rng, f, 300 if q else 5000)
        cases += gens.gen_bigint_ties(rng, f, 600 if q else 20000)
        cases += _mod().cases_long(rng, "quick", f)[:: (10 if q else 1)]
        # lengths 0 .. 10^6
        for n in ([0, 1, 19, 20, 768, 769, 770, 5000, 100000] + ([1000000] if True else [])):
            for e in (gens.I32MIN, -n, 0, gens.I32MAX):
                cases.append((gens.pf(f, "9" * n, "", gens.clamp_e(e)), "V-length"))
                cases.append((gens.pf(f, "", "0" * (n // 2) + "1" * (n - n // 2), gens.clamp_e(-e)), "V-length"))
        tbl = gens.read_lemire_table(os.path.join(WORK, "dump.std.txt"))
        for line, fam in gens.gen_mp_allones(f, tbl):
            t = line.split()
            if int(t[2]) < 10 ** 19:
                cases.append((gens.pf(f, t[2], "" if t[4] == "0" else "5", int(t[3])), fam + ">pf"))
    _mod().check_pf("C04", cases, ctx.cfgs, ctx.profiles, res, known)
    return {}

# ------------------------------------------------------------------ C05
def run_C05(ctx, rng, tier, res, known):
    q = tier == "quick"
    cases = []
    for f in ("f32", "f64"):
        cases += gens.gen_boundary(rng, f, 2500 if q else 60000)
        cases += gens.gen_random_valid(rng, f, 2000 if q else 100000)
        cases += truncated_compact_cases(rng, f, 400 if q else 20000)
        cases += gens.gen_seams(rng, f)[::2]
        cases += gens.gen_bigint_ties(rng, f, 1200 if q else 30000)
        cases += gens.gen_near_tie_posexp(rng, f, 1000 if q else 30000)
        cases += gens.gen_pow10_prefix(rng, f)
        # operands of the final big-integer comparison that differ in limb count (stack vs heap ordering, seed C05-e)
        cases += gens.gen_limb_boundary(f)
        # the (w, q) pairs whose 128-bit product has an all-ones low word (the fall-back inside Eisel-Lemire
        # that only the non-compact builds have), as parser inputs
        tbl = gens.read_lemire_table(os.path.join(WORK, "dump.std.txt"))
        for line, fam in gens.gen_mp_allones(f, tbl) + gens.gen_mp_exact_guard(rng, f):
            t = line.split()
            if int(t[2]) < 10 ** 19:
                cases.append((gens.pf(f, t[2], "" if t[4] == "0" else str(rng.randint(1, 99999)), int(t[3])), fam + ">pf"))
        cases += _mod().cases_long(rng, "quick", f)[:: (6 if q else 1)]
        fq = _mod().focus_q_from_tables()
        if fq:
            for line, fam in gens.gen_mp_near_halfway(rng, f, 40000, focus_q=fq):
                t = line.split()
                if int(t[2]) < 10 ** 19 and t[4] == "0":
                    cases.append((gens.pf(f, t[2], "", int(t[3])), fam + ">pf"))
    impl, model = _mod().check_pf("C05", cases, ctx.cfgs, ctx.profiles, res, known)
    # cross-configuration equality (even where a spec mismatch was already reported)
    lines = [c[0].split(" ## ")[0] for c in cases]
    for i, line in enumerate(lines):
        vals = {}
        for k, v in impl.items():
            vals.setdefault(v[i], []).append("%s/%s" % k)
        if len(vals) > 1:
            res.viol.append(("configurations-differ", dict(case=line, outcomes={k: v for k, v in vals.items()})))
    return {}

def truncated_compact_cases(rng, f, n):
    """the shape that exposed the Bellerophon defect: w just below a midpoint, dropped digits push it over"""
    out = []
    strata = gens.float_strata(rng, f, 3)
    rng.shuffle(strata)
    for bits in strata:
        if len(out) >= n:
            break
        m, k = gens.midpoint_above(f, bits)
        d, e = gens.dyadic_to_dec(m, k)
        digs = str(d)
        if len(digs) < 26:
            continue
        w19 = digs[:19]
        tail = str(int(digs[19:26]) + 1).rjust(7, "0")[-7:]
        out.append((gens.pf(f, w19[:1], w19[1:] + tail, e + len(digs) - 1), "B-trunc19+tail"))
        out.append((gens.pf(f, w19[:1], w19[1:] + digs[19:26], e + len(digs) - 1), "B-trunc19+tail-"))
    return out

# ------------------------------------------------------------------ C06
def run_C06(ctx, rng, tier, res, known):
    cases = []
    for f in ("f32", "f64"):
        cases += _mod().cases_long(rng, tier, f)
        cases += gens.gen_bigint_ties(rng, f, 1200 if tier == "quick" else 30000)
        cases += gens.gen_near_tie_posexp(rng, f, 1200 if tier == "quick" else 30000)
        cases += gens.gen_pow10_prefix(rng, f)
        cases += gens.gen_limb_boundary(f)[:: (3 if tier == "quick" else 1)]
    _mod().check_pf("C06", cases, ctx.cfgs, ctx.profiles, res, known)
    # internal-stage detector for parse_mantissa (digit bookkeeping); never a verdict by itself
    pm = []
    for line, fam in cases[:: (10 if tier == "quick" else 3)]:
        t = line.split()
        pm.append("pm %s %s %d" % (t[2], t[3], gens.FMT[t[1]]["maxdig"]))
    stage_drift(ctx, res, pm, ("std", "std+alloc"), "parse_mantissa")
    stage_drift(ctx, res, sci_probe_lines(rng), ("std", "std+compact"), "scientific_exponent")
    focus_prefix_pass("C06", ctx, rng, res, known, "f64")
    if tier != "quick":
        # 32-bit limbs chunk the digits in steps of 9 instead of 19: run long inputs under Miri for i686 / s390x
        cross_target_pass(ctx, rng, res, [c for c in cases if len(c[0]) < 900], n=90)
    return {}

# ------------------------------------------------------------------ C07
def run_C07(ctx, rng, tier, res, known):
    cases = []
    for f in ("f32", "f64"):
        cases += gens.gen_thresholds(rng, f)
        # subnormal binades, correctly rounded
        F = gens.FMT[f]
        sub = []
        for _ in range(800 if tier == "quick" else 20000):
            bits = rng.getrandbits(F["mbits"]) >> rng.randint(0, F["mbits"] - 1)
            m, k = gens.midpoint_above(f, bits)
            d, e = gens.dyadic_to_dec(m, k)
            digs = str(d)
            n = rng.choice([17, 19, 20, 25, 40, len(digs)])
            if n < len(digs):
                sub.append((gens.pf(f, digs[:n], "", e + len(digs) - n), "T-subnormal-trunc"))
                sub.append((gens.pf(f, str(int(digs[:n]) + 1), "", e + len(digs) - n), "T-subnormal-trunc+1"))
            else:
                sub.append((gens.pf(f, digs, "", e), "T-subnormal-tie"))
        cases += sub
    _mod().check_pf("C07", cases, ctx.cfgs, ctx.profiles, res, known)
    return {}

# ------------------------------------------------------------------ C08
def run_C08(ctx, rng, tier, res, known):
    q = tier == "quick"
    cases = []
    for f in ("f32", "f64"):
        cases += gens.gen_garbage(rng, f, 4000 if q else 150000)
        cases += gens.gen_table_index_sweep(f)
    lines = [c[0] for c in cases]
    impl, model = _mod().run_all(lines, ctx.cfgs, ctx.profiles)
    nval = npanic = 0
    for i, line in enumerate(lines):
        _mod().fam_count(res, cases[i][1])
        for c in ctx.cfgs:
            m, trap, s = _mod().parse_model(model[c][i])
            for p in ctx.profiles:
                I = impl[(c, p)][i]
                res.evals += 1
                if I.startswith("abort"):
                    res.viol.append(("abort", dict(case=line, cfg=c, profile=p, impl=I)))
                    continue
                exp = m
                if p == "dbg" and trap:
                    exp = "panic"
                got = "panic" if I.startswith("panic") else I
                if got == "panic":
                    npanic += 1
                    res.nontrivial.add(line)
                else:
                    nval += 1
                if got != exp:
                    if exp == "panic" and got != "panic" and not (p == "dbg" and trap and m != "panic"):
                        # model says the capacity is exceeded but the implementation returned a value
                        res.viol.append(("missing-panic", dict(case=line, cfg=c, profile=p, impl=I, model=m, trap=trap)))
                    else:
                        res.drift.append(dict(case=line[:400], cfg=c, profile=p, impl=I, model=m, trap=trap))
        if i % max(1, len(lines) // 5) == 0:
            res.samples.append(dict(case=line[:200], impl_release=impl[(ctx.cfgs[0], "release")][i], impl_dbg=impl[(ctx.cfgs[0], ctx.profiles[-1])][i]))
    res.extra["outcomes"] = dict(value=nval, panic=npanic)
    site_log_correspondence(ctx, rng, res, lines, 1500 if q else 20000)
    if tier == "thorough":
        miri_pass(ctx, res, [l for l in lines if len(l) < 2500][:120] + miri_valid_slow_cases(rng), ("std", "std+alloc"))
    return {}

def site_log_correspondence(ctx, rng, res, garbage_lines, n):
    """the real code's log of unchecked table reads (verif hook: table id, index, table length) must equal the
    model's log (SitesAll.parseFloatLog, about which C08_final is proved) on the same inputs; an index >= length
    in the real log is an out-of-bounds read: violation with the input as replay"""
    base = [l for l in garbage_lines if len(l) < 3000]
    sel = base if len(base) <= n // 2 else rng.sample(base, n // 2)
    lines = ["pfl" + l[2:] for l in sel]
    for f in ("f32", "f64"):
        for line, fam in gens.gen_boundary(rng, f, n // 8) + gens.gen_random_valid(rng, f, n // 8) + gens.gen_bigint_ties(rng, f, n // 16) + gens.gen_table_index_sweep(f):
            lines.append("pfl" + line.split(" ## ")[0][2:])
        # inputs whose digit cut ends a 19-digit chunk (f32: 114 = 6 x 19), i.e. the table's last entry is consumed
        lng = [x for x in _mod().cases_long(rng, "quick", f) if len(x[0]) < 3000]
        for line, fam in rng.sample(lng, min(len(lng), max(20, n // 10))):
            lines.append("pfl" + line.split(" ## ")[0][2:])
    hist = {}
    total = 0
    for c in ("std", "std+alloc", "std+compact"):
        if c not in ctx.cfgs:
            continue
        try:
            M = run_logmodel(c, lines)
        except Exception as ex:
            # the model side needs the theorem modules; when they no longer build the real log is still judged
            # on its own (index < length) and the missing comparison is recorded
            M = ["- log -"] * len(lines)
            res.extra["site_log_model"] = "unavailable: %s" % (str(ex)[:200],)
        model_ok = "site_log_model" not in res.extra
        for p in ctx.profiles:
            I = run_impl(c, p, lines)
            for line, a, b in zip(lines, I, M):
                total += 1
                if a.startswith("abort"):
                    res.viol.append(("abort", dict(case=line[:500], cfg=c, profile=p, impl=a)))
                    continue
                if " log " not in a or " log " not in b:
                    continue
                ao, al = a.split(" log ")
                bo, bl = b.split(" log ")
                for ent in ([] if al == "-" else al.split(",")):
                    sid, idx, bnd = (int(x) for x in ent.split(":"))
                    hist["%d" % sid] = hist.get("%d" % sid, 0) + 1
                    if idx >= bnd:
                        res.viol.append(("out-of-bounds-table-read", dict(case=line[:500], cfg=c, profile=p, table=sid, index=idx, length=bnd)))
                if not model_ok:
                    continue
                if ao.startswith("panic") or bo.startswith("panic") or p == "dbg":
                    # a panicking run stops early (and a checked build may trap earlier): its log is a prefix
                    if not bl.startswith(al if al != "-" else "") and al != "-":
                        res.drift.append(dict(case=line[:300], cfg=c, profile=p, impl=a[:200], model=b[:200], note="site log not a prefix of the model's"))
                elif al != bl:
                    res.drift.append(dict(case=line[:300], cfg=c, profile=p, impl=a[:200], model=b[:200], note="site log differs from the model's"))
    res.evals += total
    res.extra["site_log_lines"] = total
    res.extra["site_log_reads_by_table"] = hist

def cross_target_pass(ctx, rng, res, cases, n=140):
    """supporting check (thorough): the same valid inputs through the real code interpreted by Miri for a
    32-bit target (i686: 32-bit limbs, 125-limb vectors, 9-digit chunks, 32-bit LARGE_POW5 table) and a
    big-endian 64-bit target (s390x); the result must equal the exact spec (rne), which is independent of
    the limb size. Not covered by the model (64-bit limbs, little-endian), hence a test, not a proof."""
    pool = [c[0].split(" ## ")[0] for c in cases if len(c[0]) < 1800]
    sel = pool if len(pool) <= n else rng.sample(pool, n)
    spec = [_mod().parse_model(x)[2] for x in run_model("std", "release", sel)]
    tot = 0
    from concurrent.futures import ThreadPoolExecutor
    combos = [("i686-unknown-linux-gnu", c) for c in ("std", "std+compact", "std+alloc")] + [("s390x-unknown-linux-gnu", "std")]
    # split the sample so that several Miri processes work in parallel (each is single-threaded)
    parts = [sel[i::3] for i in range(3)]
    jobs = [(t, c, k) for (t, c) in combos for k in range(3) if parts[k]]
    with ThreadPoolExecutor(max_workers=min(len(jobs), 12)) as ex:
        results = list(ex.map(lambda j: run_miri(j[1], parts[j[2]], target=j[0]), jobs))
    specparts = [spec[i::3] for i in range(3)]
    m32 = {}
    if vlib.TABLE32_FOUND:
        # the 32-bit-limb instance of the model (Model/BigintW.lean, Props/Limb32.lean) on the same inputs
        for c in set(c for (t, c) in combos if t.startswith("i686")):
            mo = [_mod().parse_model(x)[0] for x in run_model(c + "@32", "release", sel)]
            m32[c] = [mo[i::3] for i in range(3)]
    for (target, c, k), (out, ub) in zip(jobs, results):
        tot += len(out)
        for line, o, sp in zip(parts[k], out, specparts[k]):
            if sp is not None and o != sp:
                res.viol.append(("wrong-result-cross-target", dict(case=line, cfg=c, target=target, impl=o, spec=sp)))
        if target.startswith("i686") and c in m32:
            for line, o, mo in zip(parts[k], out, m32[c][k]):
                res.extra["limb32_model_cases"] = res.extra.get("limb32_model_cases", 0) + 1
                if o != mo:
                    res.drift.append(dict(case=line[:300], cfg=c, target=target, impl=o, model=mo, note="32-bit-limb model differs from the i686 run"))
        if ub is not None:
            if ub.get("is_ub"):
                res.viol.append(("miri-undefined-behaviour", dict(case=ub["case"], cfg=c, target=target, message=ub["message"])))
            else:
                res.fault.append(dict(why="cross-target miri run failed", cfg=c, target=target, message=ub["message"][:300]))
    res.evals += tot
    res.extra["cross_target_cases"] = res.extra.get("cross_target_cases", 0) + tot

def limb32_bigint_pass(ctx, rng, res, n=160):
    """supporting check (thorough): the big-integer operations of the 32-bit-limb build (u32 limbs, 125-limb
    stack vectors, three-limb hi64, 5^13 steps, 10-limb 5^135) interpreted by Miri for i686, against the
    32-bit instance of the model (Model/BigintW.lean; theorems Props/Limb32.lean) and the natural-number spec."""
    if not vlib.TABLE32_FOUND:
        res.extra["limb32"] = "skipped: the source has no 32-bit LARGE_POW5 table any more"
        return
    cases = [c[0] for c in gens.gen_bigint(rng, 40 * n, W=32) if len(c[0]) < 2500]
    from concurrent.futures import ThreadPoolExecutor
    cfgs = [c for c in ("std", "std+alloc", "std+compact") if c in ctx.cfgs]
    jobs = []
    for c in cfgs:
        sel = rng.sample(cases, min(len(cases), 4 * n))
        for k in range(4):
            jobs.append((c, sel[k::4]))
    with ThreadPoolExecutor(max_workers=min(len(jobs), 12)) as ex:
        results = list(ex.map(lambda j: run_miri(j[0], j[1], target="i686-unknown-linux-gnu"), jobs))
    tot = 0
    for (c, lines), (out, ub) in zip(jobs, results):
        cap = None if "alloc" in c else 125
        model = run_model(c + "@32", "release", lines[:len(out)])
        for line, I, M in zip(lines, out, model):
            tot += 1
            m, s = split_ms(M)
            op = line.split()[1]
            if I.startswith("panic"):
                if op == "mulassign" and m == "panic":
                    continue
                if cap is None and "assert" in I and m not in ("none", "ctor-none") and \
                        max(len(parse_l(m.split()[0])), len(parse_l(line.split()[2]))) > 125:
                    continue        # HeapVec::set_len debug-asserts len <= BIGINT_LIMBS (known finding, DESIGN 9.6); Miri runs a debug build
                res.viol.append(("panic-32bit-limbs", dict(case=line, cfg=c, target="i686", impl=I, model=m[:200])))
                continue
            if I != m:
                if cap is None and I == "none" and op in ("shl", "shl_limbs", "bpow"):
                    continue        # heap shl_limbs compares against Vec::capacity(), which the model does not track
                res.drift.append(dict(case=line[:400], cfg=c, target="i686", impl=I[:200], model=m[:200], note="32-bit-limb model differs"))
            if s is not None and op not in EXACT_OPS and I not in ("none", "ctor-none"):
                try:
                    got = sum(v << (32 * i) for i, v in enumerate(parse_l(I.split()[0])))
                except ValueError:
                    got = None
                if got is not None and str(got) != s.split()[0]:
                    res.viol.append(("inexact-32bit-limbs", dict(case=line, cfg=c, target="i686", impl=I[:300], expected_nat=s[:200])))
                if cap is not None and I != "-" and len(parse_l(I.split()[0])) > cap:
                    res.viol.append(("over-capacity-32bit-limbs", dict(case=line, cfg=c, target="i686", impl=I[:300])))
            elif s is not None and op in EXACT_OPS and I != s:
                res.viol.append(("wrong-32bit-limbs", dict(case=line, cfg=c, target="i686", impl=I, expected=s)))
        if ub is not None:
            if ub.get("is_ub"):
                res.viol.append(("miri-undefined-behaviour", dict(case=ub["case"], cfg=c, target="i686", message=ub["message"])))
            else:
                res.fault.append(dict(why="i686 miri run failed", cfg=c, message=ub["message"][:300]))
    res.evals += tot
    res.extra["limb32_bigint_cases"] = tot

def miri_valid_slow_cases(rng):
    out = []
    for f in ("f32", "f64"):
        for line, fam in gens.gen_boundary(rng, f, 25) + gens.gen_bigint_ties(rng, f, 15):
            out.append(line.split(" ## ")[0])
    return out

def miri_pass(ctx, res, lines, cfgs):
    """supporting check (not the proof): the same cases under Miri's default aliasing model; any
    Undefined Behavior report is a violation with the case as replay; outputs must equal the dbg build's"""
    n = 0
    for c in cfgs:
        if c not in ctx.cfgs:
            continue
        out, ub = run_miri(c, lines)
        ref = run_impl(c, "dbg", lines)
        n += len(out)
        for i, o in enumerate(out):
            if i < len(ref) and o != ref[i]:
                res.drift.append(dict(case=lines[i][:300], cfg=c, note="Miri run differs from the dbg build", miri=o, dbg=ref[i]))
        if ub is not None:
            if ub.get("is_ub"):
                res.viol.append(("miri-undefined-behaviour", dict(case=ub["case"], cfg=c, message=ub["message"])))
            else:
                res.fault.append(dict(why="miri run failed", cfg=c, message=ub["message"][:300]))
    res.extra["miri_cases"] = res.extra.get("miri_cases", 0) + n

# ------------------------------------------------------------------ C09
def run_C09(ctx, rng, tier, res, known):
    q = tier == "quick"
    pairs = []
    def val(a, b, e):
        from fractions import Fraction
        return (int((a + b) or "0"), e - len(b))
    for f in ("f32", "f64"):
        F = gens.FMT[f]
        # adjacent significands across seams
        for line, fam in gens.gen_seams(rng, f):
            t = line.split()
            w, e = int(t[2][1:]), int(t[4])
            pairs.append((gens.pf(f, str(w), "", e), gens.pf(f, str(w + 1), "", e), "P-w,w+1"))
            if e < gens.I32MAX:
                pairs.append((gens.pf(f, str(w), "", e), gens.pf(f, str(w), "", e + 1), "P-q,q+1"))
            pairs.append((gens.pf(f, str(w), "", e), gens.pf(f, str(w), "0" * 30 + "1", e), "P-far-digit"))
            if w >= 1:
                # just below w (another algorithm decides it) versus w itself
                lo = str(w - 1).lstrip("0")
                pairs.append((gens.pf(f, lo, "9", e), gens.pf(f, str(w), "", e), "P-below,w"))
                pairs.append((gens.pf(f, lo, "9" * 25, e), gens.pf(f, str(w), "", e), "P-far-below,w"))
        # around boundaries: below / exact / above
        strata = gens.float_strata(rng, f, 3)
        rng.shuffle(strata)
        for bits in strata[: (700 if q else 20000)]:
            m, k = gens.midpoint_above(f, bits)
            d, e = gens.dyadic_to_dec(m, k)
            digs = str(d)
            j = rng.choice([1, 5, 800, 3000])
            below = (str(d * 10 ** j - 1), e - j)
            above = (digs + "0" * (j - 1) + "1", e - j)
            exact = (digs, e)
            n = rng.choice([17, 19, 20, 30])
            seq = [below, exact, above]
            if n < len(digs):
                seq = [(digs[:n], e + len(digs) - n)] + seq + [(str(int(digs[:n]) + 1), e + len(digs) - n)]
            for x, y in zip(seq, seq[1:]):
                if all(gens.I32MIN <= v[1] <= gens.I32MAX for v in (x, y)):
                    pa = rng.choice(gens.placements(rng, x[0], x[1], 1))
                    pb = rng.choice(gens.placements(rng, y[0], y[1], 1))
                    pairs.append((gens.pf(f, *pa), gens.pf(f, *pb), "P-boundary"))
            # the same tie with the deciding digit written two ways: x = tie + 10^-(far) through the fraction
            # loop, y = tie + 10^-(near) with the integer part alone filling the MAX_DIGITS cut (x < y)
            if rng.random() < 0.4:
                md = gens.FMT[f]["maxdig"]
                pad = max(0, md + rng.choice([-1, 0, 1, 4]) - len(digs))
                z = rng.choice([0, 1, 9])
                ya, yb, ye = digs + "0" * pad, "0" * z + "1", e - pad
                xa, xb, xe = digs, "0" * (pad + z + rng.choice([1, 7, 40])) + "1", e
                if all(gens.I32MIN <= v <= gens.I32MAX for v in (ye, xe)):
                    pairs.append((gens.pf(f, xa, xb, xe), gens.pf(f, ya, yb, ye), "P-intcut"))
                    pairs.append((gens.pf(f, digs, "", e), gens.pf(f, ya, yb, ye), "P-tie<intcut"))
    lines = []
    for a, b, fam in pairs:
        lines += [a, b]
    impl, model = _mod().run_all(lines, ctx.cfgs, ctx.profiles)
    for i, (a, b, fam) in enumerate(pairs):
        _mod().fam_count(res, fam)
        for c in ctx.cfgs:
            ma, ta, sa = _mod().parse_model(model[c][2 * i])
            mb, tb, sb = _mod().parse_model(model[c][2 * i + 1])
            if sa is None or sb is None:
                res.fault.append(dict(why="invalid pair member", case=a))
                continue
            if int(sa[2:], 16) > int(sb[2:], 16):
                res.fault.append(dict(why="generator pair not ordered (spec)", a=a[:200], b=b[:200]))
                continue
            if sa != sb:
                res.nontrivial.add(a + "|" + b)
            for p in ctx.profiles:
                Ia, Ib = impl[(c, p)][2 * i], impl[(c, p)][2 * i + 1]
                res.evals += 1
                if not (Ia.startswith("v ") and Ib.startswith("v ")):
                    res.viol.append(("panic", dict(case=a, case_b=b, cfg=c, profile=p, impl=[Ia, Ib])))
                elif int(Ia[2:], 16) > int(Ib[2:], 16):
                    res.viol.append(("not-monotonic", dict(case=a, case_b=b, cfg=c, profile=p, impl=[Ia, Ib], spec=[sa, sb], family=fam)))
                elif Ia != sa or Ib != sb:
                    res.drift.append(dict(case=a, case_b=b, cfg=c, impl=[Ia, Ib], spec=[sa, sb], note="ordered but not correctly rounded"))
        if i % max(1, len(pairs) // 5) == 0:
            res.samples.append(dict(a=a[:150], b=b[:150], family=fam, impl=[impl[(ctx.cfgs[0], "release")][2 * i], impl[(ctx.cfgs[0], "release")][2 * i + 1]]))
    return {}

# ------------------------------------------------------------------ C10
def run_C10(ctx, rng, tier, res, known):
    q = tier == "quick"
    groups = []
    for f in ("f32", "f64"):
        base = gens.gen_boundary(rng, f, 500 if q else 10000, point=False) + gens.gen_random_valid(rng, f, 400 if q else 10000)
        # ties padded to the MAX_DIGITS cut with the deciding digit beyond it (every way of splitting those)
        lng = [c for c in _mod().cases_long(rng, "quick", f) if len(c[0]) < 4000]
        base += rng.sample(lng, min(len(lng), 250 if q else 4000))
        md = gens.FMT[f]["maxdig"]
        for line, fam in base:
            t = line.split()
            a, b = gens.untok(t[2]), gens.untok(t[3])
            if a is None or b is None or not (a + b).isdigit():
                continue
            e = int(t[4])
            digs = a + b
            e10 = e - len(b)
            g = []
            stripped = digs.lstrip("0")
            if not stripped:
                continue
            n = len(stripped)
            splits = set([0, n, min(n, 1), min(n, 19), min(n, 20), rng.randint(0, n), rng.randint(0, n)])
            if n > 30:
                # 19-digit chunk ends, the MAX_DIGITS cut, and just before the last digit
                splits |= set(min(n, v) for v in (38, 57, md - 1, md, md + 1, md + rng.randint(2, 12), n - 1))
            for p in splits:
                ia, fb = stripped[:p], stripped[p:]
                x = e10 + len(fb)
                for z in (0, rng.choice([1, 2, 19, 40])):
                    if gens.I32MIN <= x <= gens.I32MAX:
                        g.append(gens.pf(f, ia, fb + "0" * z, x))
                # leading fraction zeros when the integer part is empty
                if p == 0:
                    k = rng.choice([1, 5, 30])
                    if gens.I32MIN <= x + k <= gens.I32MAX:
                        g.append(gens.pf(f, "", "0" * k + fb, x + k))
            if len(g) >= 2:
                groups.append((g, fam))
    lines = [l for g, _ in groups for l in g]
    impl, model = _mod().run_all(lines, ctx.cfgs, ctx.profiles)
    pos = 0
    for g, fam in groups:
        _mod().fam_count(res, "G-" + fam)
        for c in ctx.cfgs:
            specs = set()
            for j in range(len(g)):
                m, trap, s = _mod().parse_model(model[c][pos + j])
                specs.add(s)
            if len(specs) != 1 or None in specs:
                res.fault.append(dict(why="group members not equal per spec", group=g[:3], specs=list(map(str, specs))))
                continue
            s = specs.pop()
            for p in ctx.profiles:
                outs = [impl[(c, p)][pos + j] for j in range(len(g))]
                res.evals += len(g)
                if len(set(outs)) != 1:
                    res.viol.append(("representations-differ", dict(case=g[0], group=g[:8], cfg=c, profile=p, impl=outs[:8], spec=s, family=fam)))
                elif outs[0] != s:
                    res.drift.append(dict(case=g[0], cfg=c, impl=outs[0], spec=s, note="equal among themselves but not correctly rounded"))
        res.nontrivial.add(g[0])
        if len(res.samples) < 5:
            res.samples.append(dict(group=g[:4], impl=impl[(ctx.cfgs[0], "release")][pos]))
        pos += len(g)
    return {}

# ------------------------------------------------------------------ C11
def run_C11(ctx, rng, tier, res, known):
    q = tier == "quick"
    tbl = gens.read_lemire_table(os.path.join(WORK, "dump.std.txt"))
    for f in ("f32", "f64"):
        cases = []
        cases += gens.gen_mp_allones(f, tbl)
        cases += gens.gen_mp_near_halfway(rng, f, 3000 if q else 60000)
        cases += gens.gen_mp_ties(rng, f)
        cases += gens.gen_mp_guard(rng, f, tbl, 600 if q else 20000)
        cases += gens.gen_mp_exact_guard(rng, f)
        cases += gens.gen_mp_carry_seams(rng, f)
        fq = _mod().focus_q_from_tables()
        if fq:
            cases += gens.gen_mp_near_halfway(rng, f, 40000, focus_q=fq)
        cases += gens.gen_mp_uniform(rng, f, 6000 if q else 400000)
        # the two corner points (known findings 9.2)
        for w in (0, 2 ** 64 - 1):
            for qq in (-400, -5, 0, 5, 300, 309, 400):
                cases.append(("mp %s %d %d 1" % (f, w, qq), "N-corner"))
                cases.append(("mp %s %d %d 0" % (f, w, qq), "N-corner0"))
        # seams of the decimal exponent
        for line, fam in gens.gen_seams(rng, f):
            t = line.split()
            w = int(t[2][1:])
            if w < 2 ** 64:
                cases.append(("mp %s %d %s %d" % (f, w, t[4], rng.randint(0, 1)), "N-seam"))
        for c in cases:
            _mod().fam_count(res, c[1])
        check_mp(ctx, cases, f, res)
        stage_drift(ctx, res, mp_to_stage_lines(cases, rng, 2500 if q else 40000, False), ("std",), "lemire")
        stage_drift(ctx, res, mp_to_stage_lines(cases, rng, 2500 if q else 40000, True), ("std+compact",), "bellerophon")
    return {}

# ------------------------------------------------------------------ C12
def to_nat(limbs):
    v = 0
    for i, x in enumerate(limbs):
        v += x << (64 * i)
    return v

EXACT_OPS = ("compare", "hi64", "bit_length", "u64_to_hi64_1", "u64_to_hi64_2", "u32_to_hi64_1", "u32_to_hi64_2", "u32_to_hi64_3")

def parse_l(s):
    return [] if s == "-" else [int(x) for x in s.split(",")]

def run_C12(ctx, rng, tier, res, known):
    q = tier == "quick"
    all_cases = gens.gen_bigint(rng, 12000 if q else 300000) + gens.gen_bigint_huge(rng, 400 if q else 5000) + gens.gen_bigint_compare_grid(rng)
    cfgs = [c for c in ctx.cfgs if c in ("std", "std+alloc", "std+compact", "std+compact+alloc")]
    for c in cfgs:
        cap = None if "alloc" in c else 62
        # astronomically large shift counts only on the fixed-capacity back-end
        cases = all_cases if cap is not None else [x for x in all_cases if not x[1].startswith("L-huge")]
        lines = [x[0] for x in cases]
        model = run_model(c, "release", lines)
        for p in ctx.profiles:
            impl = run_impl(c, p, lines)
            for i, line in enumerate(lines):
                I = impl[i]
                m, trap, s = _mod().parse_model(model[i])
                res.evals += 1
                op = line.split()[1]
                _mod().fam_count(res, cases[i][1]) if (c == cfgs[0] and p == ctx.profiles[0]) else None
                if I.startswith("abort"):
                    res.viol.append(("abort", dict(case=line, cfg=c, profile=p, impl=I)))
                    continue
                if I.startswith("panic"):
                    # only debug assertions on documented preconditions may panic (dbg) - the generator avoids them
                    if op == "mulassign" and m == "panic":
                        continue
                    if cap is None and p == "dbg" and "assert" in I and m not in ("none", "ctor-none") and \
                            max(len(parse_l(m.split()[0])), len(parse_l(line.split()[2]))) > 62:
                        # HeapVec::set_len debug-asserts len <= 62: beyond the design capacity (outside C12's range)
                        continue
                    res.viol.append(("panic", dict(case=line, cfg=c, profile=p, impl=I, model=m)))
                    continue
                if cases[i][1].startswith("L-huge") and cap is not None and I != "none" and parse_l(line.split()[2]) not in ([], ):
                    # a shift by an astronomically large count cannot fit 62 limbs (non-empty operand)
                    res.viol.append(("accepted-beyond-capacity", dict(case=line, cfg=c, profile=p, impl=I[:300])))
                    continue
                if I != m:
                    # heap shl_limbs relation: may answer none only when n + len > 62
                    if cap is None and I == "none" and op in ("shl", "shl_limbs", "bpow") and m not in ("none", "ctor-none"):
                        # heap shl_limbs compares n + len against Vec::capacity() (>= 62): it may refuse only
                        # when n + len exceeds 62 limbs
                        tt = line.split()
                        xl = len(parse_l(tt[2]))
                        if op == "shl_limbs":
                            ok = int(tt[3]) + xl > 62
                        elif op == "shl":
                            ok = int(tt[3]) // 64 + xl + (1 if int(tt[3]) % 64 else 0) > 62
                        else:
                            ok = len(parse_l(m.split()[0])) > 62 or xl == 0
                        if ok:
                            continue
                        res.viol.append(("spurious-failure", dict(case=line, cfg=c, profile=p, impl=I, model=m[:200],
                                                                  why="heap back-end reports failure although the result needs at most 62 limbs")))
                        continue
                    res.drift.append(dict(case=line[:500], cfg=c, profile=p, impl=I[:300], model=m[:300]))
                # predicate on the implementation's output: exact natural-number result
                if s is not None and op not in EXACT_OPS and I not in ("none", "ctor-none"):
                    try:
                        got = to_nat(parse_l(I.split()[0]))
                    except ValueError:
                        got = None
                    if got is not None and str(got) != s.split()[0]:
                        res.viol.append(("inexact", dict(case=line, cfg=c, profile=p, impl=I[:300], expected_nat=s[:200])))
                    if cap is not None and I != "-" and len(parse_l(I.split()[0])) > cap:
                        res.viol.append(("over-capacity", dict(case=line, cfg=c, profile=p, impl=I[:300])))
                elif s is not None and op in EXACT_OPS:
                    if I != s:
                        res.viol.append(("wrong", dict(case=line, cfg=c, profile=p, impl=I, expected=s)))
                if I == "none":
                    res.nontrivial.add(line)
                    # failure must be reported only when the result does not fit (normalised operands)
                    if s is not None and cap is not None and op in ("small_add", "small_mul", "large_add", "shl_bits"):
                        need = (int(s.split()[0]).bit_length() + 63) // 64
                        xs = parse_l(line.split()[2])
                        if need <= cap and (not xs or xs[-1] != 0):
                            res.viol.append(("spurious-failure", dict(case=line, cfg=c, profile=p, expected_nat=s[:100])))
                elif len(I) > 40:
                    res.nontrivial.add(line)
    for i in range(0, len(lines), max(1, len(lines) // 6)):
        res.samples.append(dict(case=lines[i][:200]))
    if not q:
        limb32_bigint_pass(ctx, rng, res)
    return {}

# ------------------------------------------------------------------ C13
def run_C13(ctx, rng, tier, res, known):
    q = tier == "quick"
    cases = gens.gen_histories(rng, 1500 if q else 8000)
    # the known-finding witness (un-normalised operands)
    cases.append(("vh from:1,0;clone;from:2;cmp;eq", "H-unnormalized-witness"))
    cases.append(("vh from:1,0;clone;from:1;eq;cmp", "H-unnormalized-witness"))
    all_cases = cases + gens.gen_histories_huge(rng, 300 if q else 3000)
    cfgs = [c for c in ctx.cfgs if c in ("std", "std+alloc")]
    for c in cfgs:
        # astronomically large resize targets only on the fixed-capacity back-end (the heap one would allocate)
        cases = all_cases if "alloc" not in c else [x for x in all_cases if x[1] != "H-huge-resize"]
        lines = [x[0] for x in cases]
        model = run_model(c, "release", lines)
        cap = None if "alloc" in c else 62
        for p in ctx.profiles:
            impl = run_impl(c, p, lines)
            for i, line in enumerate(lines):
                I, M = impl[i], model[i]
                res.evals += 1
                if c == cfgs[0] and p == ctx.profiles[0]:
                    _mod().fam_count(res, cases[i][1])
                if I.startswith(("abort", "panic")):
                    over = cap is None and p == "dbg" and "assert" in I and any(
                        len(parse_l(st.split("=", 1)[1])) > 62 for st in M.split("|") if "=" in st)
                    if over:
                        kf = "HeapVec::set_len debug-asserts len <= 62: normalize/shl on a heap vector grown beyond the 62-limb design capacity panics in debug builds (DESIGN 9.6)"
                        res.known[kf] = res.known.get(kf, 0) + 1
                    else:
                        res.viol.append(("panic" if I.startswith("panic") else "abort", dict(case=line[:1500], cfg=c, profile=p, impl=I)))
                    continue
                ops = line[3:].split(";")
                si, sm = I.split("|"), M.split("|")
                # reference-sequence predicate, computed here independently of the Lean model
                for bad in history_predicate(ops, si, cap):
                    if "unnormalized" in bad[0]:
                        res.known["eq/cmp on vectors with a zero top limb compare limb counts first (by design; DESIGN 9.3)"] = \
                            res.known.get("eq/cmp on vectors with a zero top limb compare limb counts first (by design; DESIGN 9.3)", 0) + 1
                    else:
                        res.viol.append(("history", dict(case=line[:3000], cfg=c, profile=p, why=bad[0], step=bad[1])))
                        break
                if si != sm:
                    k = next((j for j in range(min(len(si), len(sm))) if si[j] != sm[j]), -1)
                    res.drift.append(dict(case=line[:1500], cfg=c, profile=p, step=k, impl=si[k][:200] if k >= 0 else "", model=sm[k][:200] if k >= 0 else ""))
                res.nontrivial.add(line)
    res.samples.append(dict(case=lines[0][:300]))
    res.samples.append(dict(case=lines[-1]))
    if tier == "thorough":
        miri_pass(ctx, res, sorted([l for l in lines if len(l) < 4000], key=len)[-24:] + lines[-2:], ("std", "std+alloc"))
    return {}

def history_predicate(ops, outs, cap):
    """independent reference: python lists. returns a list of (why, step); checking continues after an
    un-normalised eq/cmp mismatch (known finding) and stops at the first other problem"""
    issues = []
    a, b = [], []
    M = 2 ** 64
    for j, (op, o) in enumerate(zip(ops, outs)):
        r, st = o.split("=", 1)
        p = op.split(":")
        exp_r = "ok"
        na = list(a)
        k = p[0]
        if k == "new":
            na = []
        elif k == "from":
            v = parse_l(p[1])
            if cap is not None and len(v) > cap:
                exp_r = "none"
            else:
                na = v
        elif k == "push":
            if cap is not None and len(a) + 1 > cap:
                exp_r = "none"
            else:
                na = a + [int(p[1])]
        elif k == "pop":
            if a:
                exp_r = str(a[-1])
                na = a[:-1]
            else:
                exp_r = "none"
        elif k == "ext":
            v = parse_l(p[1])
            if cap is not None and len(a) + len(v) > cap:
                exp_r = "none"
            else:
                na = a + v
        elif k == "rsz":
            n, v = int(p[1]), int(p[2])
            if cap is not None and n > cap:
                exp_r = "none"
            else:
                na = a[:n] + [v] * max(0, n - len(a))
        elif k == "norm":
            while na and na[-1] == 0:
                na.pop()
        elif k in ("adds", "muls"):
            y = int(p[1])
            val = to_nat(a) + y if k == "adds" else to_nat(a) * y
            # limb-count semantics: same length unless a carry limb is appended
            width = len(a)
            lim = []
            vv = val
            for _ in range(width):
                lim.append(vv % M)
                vv //= M
            if vv:
                lim.append(vv)
            if cap is not None and len(lim) > cap:
                exp_r = "none"
                na = None  # contents after a failed arithmetic op are unspecified (value lost its carry)
            else:
                na = lim
        elif k == "fromu64":
            v = int(p[1])
            na = [v] if v else []
        elif k == "clone":
            b = list(a)
        elif k == "swap":
            na, b = list(b), list(a)
        elif k in ("eq", "cmp", "pcmp"):
            va, vb = to_nat(a), to_nat(b)
            if k == "eq":
                exp_r = "1" if va == vb else "0"
            else:
                exp_r = "lt" if va < vb else ("gt" if va > vb else "eq")
            if r != exp_r:
                unnorm = (a and a[-1] == 0) or (b and b[-1] == 0)
                if unnorm:
                    issues.append(("unnormalized operand: %s expected %s got %s" % (k, exp_r, r), j))
                else:
                    return issues + [("%s: expected %s got %s" % (k, exp_r, r), j)]
            exp_r = r
        elif k == "hi64":
            exp_r = r
        elif k == "len":
            exp_r = str(len(a))
        elif k == "empty":
            exp_r = "1" if not a else "0"
        elif k == "capok":
            exp_r = "1"
        elif k == "isnorm":
            exp_r = "0" if (a and a[-1] == 0) else "1"
        if r != exp_r:
            return issues + [("result of %s: expected %s got %s" % (op[:40], exp_r, r), j)]
        got = parse_l(st)
        if na is None:
            if cap is not None and len(got) > cap:
                return issues + [("length exceeds capacity", j)]
            a = got
            continue
        if got != na:
            return issues + [("contents after %s differ from the reference sequence" % op[:40], j)]
        if cap is not None and len(got) > cap:
            return issues + [("length exceeds capacity", j)]
        a = na
    return issues

# ------------------------------------------------------------------ C14
def run_C14(ctx, rng, tier, res, known):
    """the theorems decide C14; here: the driver-independent recomputation that lists offending entries"""
    bad = table_check()
    for b in bad:
        res.viol.append(("table-entry", dict(case="table " + b["table"], **b)))
    res.evals += table_check.count
    res.nontrivial.update(range(table_check.count))
    res.samples.append(dict(note="every table entry and on-demand power recomputed from its definition", entries=table_check.count))
    libm_correspondence(ctx, rng, res, 1500 if tier == "quick" else 60000)
    return {"exhaustive": True}

def libm_correspondence(ctx, rng, res, n):
    """the bundled libm (`powd` / `powf`, compiled only in the no_std + compact build) against its Lean model
    (Model/Libm.lean; theorems Props/C14Libm.lean: the model returns exactly 10^k for the 23 + 11 arguments the
    crate uses). The 34 used points are part of C14 (a wrong value there is a violation, also seen by the table
    check through the dump); everywhere else a difference is recorded as a stage difference (the property does not
    speak about other arguments), which only deepens the search."""
    import struct
    if "compact" not in ctx.cfgs:
        return
    def d2b(x):
        return struct.unpack("<Q", struct.pack("<d", x))[0]
    def f2b(x):
        return struct.unpack("<I", struct.pack("<f", x))[0]
    lines, used = [], set()
    for k in range(0, 41):
        lines.append("powd %d %d" % (d2b(10.0), d2b(float(k))))
        if k <= 22:
            used.add(lines[-1])
    for k in range(0, 21):
        lines.append("powf %d %d" % (f2b(10.0), f2b(float(k))))
        if k <= 10:
            used.add(lines[-1])
    bases = [2.0, 3.0, 5.0, 10.0, 0.1, 0.5, 1.5, 7.25, 1e-300, 1e300, 5e-324, 1.0000000000000002, 0.9999999999999999, -2.0, -10.0, -0.5]
    for _ in range(n):
        r = rng.random()
        if r < 0.45:
            x = rng.choice(bases); y = float(rng.randint(-45, 45)) if rng.random() < 0.7 else rng.uniform(-40, 40)
        elif r < 0.8:
            x = struct.unpack("<d", struct.pack("<Q", rng.getrandbits(63)))[0]; y = rng.uniform(-3, 3) if rng.random() < 0.5 else float(rng.randint(-5, 5))
        else:
            x = rng.uniform(0.5, 2.0); y = rng.uniform(-1100, 1100)
        if x != x or y != y:
            continue
        if rng.random() < 0.6:
            lines.append("powd %d %d" % (d2b(x), d2b(y)))
        else:
            try:
                lines.append("powf %d %d" % (f2b(x), f2b(y)))
            except OverflowError:
                continue
    model = run_model("compact", "release", lines)
    diffs = 0
    for p in ctx.profiles:
        impl = run_impl("compact", p, lines)
        for line, I, M in zip(lines, impl, model):
            res.evals += 1
            if I.startswith("unknown-command"):
                return
            if I.startswith(("abort", "panic")) and p == "dbg":
                continue        # checked arithmetic inside libm's bit manipulation is not part of the property
            if I != M:
                if line in used:
                    res.viol.append(("on-demand-power", dict(case=line, cfg="compact", profile=p, impl=I, model=M,
                                                             why="bundled libm returns a value different from the exact power of ten the model proves")))
                else:
                    diffs += 1
                    res.extra["stage_difference_count"] = res.extra.get("stage_difference_count", 0) + 1
                    sd = res.extra.setdefault("stage_differences", [])
                    if len(sd) < 10:
                        sd.append(dict(stage="libm", case=line, cfg="compact", profile=p, impl=I, model=M))
    res.extra["libm_model_cases"] = len(lines)
    res.extra["libm_model_differences_outside_used_points"] = diffs

def lemire_entry(q):
    if q < 0:
        p = 5 ** (-q)
        z = p.bit_length() if (1 << (p.bit_length() - 1)) < p else p.bit_length() - 1
        z = (p - 1).bit_length()  # ceil(log2 p)
        if q >= -27:
            b = z + 127
            return (1 << b) // p + 1
        b = 2 * z + 128
        c = (1 << b) // p + 1
        while c >= 1 << 128:
            c //= 2
        return c
    c = 5 ** q
    while c < 1 << 127:
        c *= 2
    while c >= 1 << 128:
        c //= 2
    return c

def parse_dumpfile(cfg):
    d = {}
    for line in open(os.path.join(WORK, "dump.%s.txt" % cfg)):
        if " = " in line:
            k, v = line.rstrip("\n").split(" = ", 1)
            d[k] = v
    return d

def f_bits_of(f, v):
    """bit pattern of the exactly representable integer v (or None)"""
    F = gens.FMT[f]
    if v == 0:
        return 0
    bl = v.bit_length()
    if bl > F["mbits"] + 1 and v % (1 << (bl - F["mbits"] - 1)) != 0:
        return None
    k = bl - 1 - F["mbits"]
    m = v >> k if k >= 0 else v << (-k)
    E = k - gens.kmin(f) + 1
    return (E << F["mbits"]) | (m - (1 << F["mbits"]))

def table_check():
    bad = []
    n = 0
    d = parse_dumpfile("std")
    rows = [tuple(int(x) for x in r.split(":")) for r in d["POWER_OF_FIVE_128"].split()]
    sm = int(d["SMALLEST_POWER_OF_FIVE"])
    for i, (hi, lo) in enumerate(rows):
        n += 1
        exp = lemire_entry(sm + i)
        if (hi << 64) | lo != exp:
            bad.append(dict(table="POWER_OF_FIVE_128", index=i, q=sm + i, actual="%x:%x" % (hi, lo), expected="%x:%x" % (exp >> 64, exp & (2 ** 64 - 1))))
    if len(rows) != 651 or sm != -342 or int(d["LARGEST_POWER_OF_FIVE"]) != 308:
        bad.append(dict(table="POWER_OF_FIVE_128", index=-1, actual="len %d range %s..%s" % (len(rows), sm, d["LARGEST_POWER_OF_FIVE"]), expected="651 rows -342..308"))
    for name, base in (("SMALL_INT_POW5", 5), ("SMALL_INT_POW10", 10)):
        for i, v in enumerate(d[name].split()):
            n += 1
            if int(v) != base ** i:
                bad.append(dict(table=name, index=i, actual=v, expected=str(base ** i)))
    for name, f, cnt in (("SMALL_F32_POW10", "f32", 11), ("SMALL_F64_POW10", "f64", 23)):
        for i, v in enumerate(d[name].split()):
            n += 1
            exp = f_bits_of(f, 10 ** i) if i < cnt else 0
            if int(v) != exp:
                bad.append(dict(table=name, index=i, actual=v, expected=str(exp)))
    # every index the algorithms consume must exist: parse_mantissa reads 10^0 .. 10^19 (a full 19-digit chunk at
    # the digit cut), pow reads 5^0 .. 5^27, the fast path reads 10^0 .. 10^10 / 10^22 and 10^0 .. 10^15 as integers
    for name, need in (("SMALL_INT_POW10", 20), ("SMALL_INT_POW5", 28), ("SMALL_F32_POW10", 11), ("SMALL_F64_POW10", 23)):
        have = len(d[name].split())
        if have < need:
            bad.append(dict(table=name, index=have, actual="table has %d entries" % have,
                            expected="entries 0 .. %d are consumed" % (need - 1)))
    lp = [int(x) for x in d["LARGE_POW5"].split()]
    n += 1
    if to_nat(lp) != 5 ** int(d["LARGE_POW5_STEP"]) or int(d["LARGE_POW5_STEP"]) != 135:
        bad.append(dict(table="LARGE_POW5", index=0, actual=str(lp), expected="limbs of 5^135, step 135"))
    # the same constant in the 32-bit-limb layout (compiled out on this host: read from the source text)
    import gen_lean
    lp32 = gen_lean.large_pow5_u32(vlib.REPO)
    if lp32 is not None:
        n += 1
        if sum(v << (32 * i) for i, v in enumerate(lp32)) != 5 ** 135 or any(v >= 2 ** 32 for v in lp32):
            bad.append(dict(table="LARGE_POW5 (32-bit limbs)", index=0, actual=str(lp32), expected="32-bit limbs of 5^135"))
    for cfg in ("std", "std+compact", "compact"):
        dd = parse_dumpfile(cfg)
        for f, key in (("f32", "F32.POW_FAST_PATH"), ("f64", "F64.POW_FAST_PATH")):
            for i, v in enumerate(dd[key].split()):
                n += 1
                exp = f_bits_of(f, 10 ** i)
                if int(v) != exp:
                    bad.append(dict(table="pow_fast_path[%s,%s]" % (cfg, f), index=i, actual=v, expected=str(exp)))
    dc = parse_dumpfile("std+compact")
    small = [int(x) for x in dc["BEL_SMALL"].split()]
    large = [int(x) for x in dc["BEL_LARGE"].split()]
    sexp = [int(x) for x in dc["BEL_SMALL_EXP"].split()]
    lexp = [int(x) for x in dc["BEL_LARGE_EXP"].split()]
    def trunc64(num, den):
        # normalised 64-bit truncation of num/den and its binary exponent
        from fractions import Fraction
        bl = num.bit_length() - den.bit_length()
        e = bl - 64
        for ee in (e - 1, e, e + 1, e + 2):
            m = (num << -ee) // den if ee < 0 else num // (den << ee)
            if (1 << 63) <= m < (1 << 64):
                return m, ee
        raise RuntimeError
    for i, v in enumerate(small):
        n += 1
        m, e = trunc64(10 ** i, 1)
        if v != m or sexp[i] != e:
            bad.append(dict(table="BEL_SMALL", index=i, actual="%d e%d" % (v, sexp[i]), expected="%d e%d" % (m, e)))
    step, bias = int(dc["BEL_STEP"]), int(dc["BEL_BIAS"])
    for i, v in enumerate(large):
        n += 1
        k = i * step - bias
        m, e = trunc64(10 ** k, 1) if k >= 0 else trunc64(1, 10 ** (-k))
        if v != m or lexp[i] != e:
            bad.append(dict(table="BEL_LARGE", index=i, actual="%d e%d" % (v, lexp[i]), expected="%d e%d" % (m, e)))
    for i, v in enumerate(dc["BEL_SMALL_INT"].split()):
        n += 1
        if int(v) != 10 ** i:
            bad.append(dict(table="BEL_SMALL_INT", index=i, actual=v, expected=str(10 ** i)))
    if len(small) != 10 or len(large) != 66 or step != 10 or bias != 350:
        bad.append(dict(table="BEL_*", index=-1, actual="sizes %d/%d step %d bias %d" % (len(small), len(large), step, bias), expected="10/66 step 10 bias 350"))
    table_check.count = n
    return bad
table_check.count = 0

# ------------------------------------------------------------------ C15
def run_C15(ctx, rng, tier, res, known):
    q = tier == "quick"
    cases = []
    for f in ("f32", "f64"):
        cases += gens.gen_boundary(rng, f, 1500 if q else 40000)
        cases += gens.gen_random_valid(rng, f, 1000 if q else 40000)
        cases += _mod().cases_long(rng, "quick", f)[:: (4 if q else 1)]
    lines = ["al" + c[0].split(" ## ")[0][2:] for c in cases]
    paths = run_impl("std", "release", ["path" + l[2:] for l in lines])
    pc = {}
    for p in paths:
        pc[p] = pc.get(p, 0) + 1
    res.extra["paths"] = pc
    for c in ctx.cfgs:
        model = run_model(c, "release", lines)
        for p in ctx.profiles:        # release and the checked profile (`cfg(debug_assertions)` code allocates too)
            impl = run_impl(c, p, lines)
            for i, line in enumerate(lines):
                I = impl[i]
                m, trap, s = _mod().parse_model(model[i])
                res.evals += 1
                if not I.startswith("v "):
                    res.viol.append(("panic", dict(case=line, cfg=c, profile=p, impl=I)))
                    continue
                n = int(I.split()[3])
                if paths[i] == "slow":
                    res.nontrivial.add(line)
                if "alloc" not in c:
                    if n != 0:
                        res.viol.append(("heap-allocation", dict(case=line, cfg=c, profile=p, allocations=n, path=paths[i])))
                else:
                    # instrumentation is validated where it is non-zero
                    want = m.split()[3]
                    hist = res.extra.setdefault("alloc_histogram_alloc_builds", {})
                    hist[str(n)] = hist.get(str(n), 0) + 1
                    if str(n) != want:
                        res.drift.append(dict(case=line[:300], cfg=c, allocations=n, model=want, note="allocation prediction (alloc build)"))
    res.samples.append(dict(case=lines[0][:200]))
    feature_graph_check(ctx, res, lines, paths)
    return {}

def feature_graph(repo=None):
    """the crate's own feature table (Cargo.toml): name -> closure of enabled features"""
    import tomllib
    t = tomllib.load(open(os.path.join(repo or vlib.REPO, "Cargo.toml"), "rb")).get("features", {})
    def closure(names):
        seen, todo = set(), list(names)
        while todo:
            n = todo.pop()
            if n in seen or "/" in n or n.startswith("dep:"):
                continue
            seen.add(n)
            todo += t.get(n, [])
        return seen
    return t, closure

def feature_graph_check(ctx, res, lines, paths):
    """the harness selects features explicitly (default-features = false), so what `default` / `std` / `compact`
    pull in is read from the crate's manifest: a configuration that is supposed to be allocation-free
    (default, compact, no_std + compact) must not reach `alloc` through the feature graph. If it does, the
    configuration it really is gets run and its first allocating input is the replay."""
    try:
        t, closure = feature_graph()
    except Exception as ex:
        res.extra["feature_graph"] = "not readable: %r" % (ex,)
        return
    named = {"default": ["default"], "compact (default + compact)": ["default", "compact"],
             "no_std + compact": ["compact"], "std": ["std"]}
    res.extra["feature_graph"] = {k: sorted(closure(v) & {"std", "compact", "alloc", "nightly"}) for k, v in named.items()}
    slow = [l for l, p in zip(lines, paths) if p == "slow"][:200]
    for name, feats in named.items():
        cl = closure(feats)
        if "alloc" in cl:
            real = "+".join(x for x in ("std", "compact", "alloc") if x in cl)
            first = None
            if real in ctx.cfgs and slow:
                out = run_impl(real, "release", slow)
                first = next(((l, o) for l, o in zip(slow, out) if o.startswith("v ") and int(o.split()[3]) != 0), None)
            res.viol.append(("heap-allocation", dict(case=first[0] if first else (slow[0] if slow else "al f64 d1 - 0"),
                                                     cfg=name, resolved_features=sorted(cl), impl=first[1] if first else None,
                                                     why="the %s configuration enables `alloc` through the feature table of Cargo.toml" % name)))

# ------------------------------------------------------------------ C16
def run_C16(ctx, rng, tier, res, known):
    q = tier == "quick"
    cases = []
    for f in ("f32", "f64"):
        cases += gens.gen_boundary(rng, f, 500 if q else 10000)
        cases += gens.gen_random_valid(rng, f, 500 if q else 10000)
        # every big-integer code path (stale / uninitialised limbs show up as history- or address-dependence):
        # zero-limb runs and long carry chains in the multiplication by 5^135, integer ties, digit cuts
        cases += gens.gen_sparse_posexp(rng, f, 150 if q else 3000)
        cases += gens.gen_near_tie_posexp(rng, f, 150 if q else 3000)
        cases += gens.gen_bigint_ties(rng, f, 150 if q else 3000)
        cases += [x for x in _mod().cases_long(rng, "quick", f) if len(x[0]) < 3000][:: (25 if q else 2)]
    lines = ["it" + c[0].split(" ## ")[0][2:] for c in cases]
    for c in ctx.cfgs:
        model = run_model(c, "release", lines)
        for p in ctx.profiles:
            impl = run_impl(c, p, lines)
            for i, line in enumerate(lines):
                I = impl[i]
                if model[i].startswith("iter-model-disagrees"):
                    # the executable iterator-level model (Model/Iter.lean) left the list-level one: contradicts
                    # the theorem C16Iter.parseFloatI_eq, i.e. the machinery is inconsistent
                    res.fault.append(dict(why="iterator-level model differs from the list-level model", case=line[:300], model=model[i][:200]))
                    continue
                m, trap, s = _mod().parse_model(model[i])
                res.evals += 11
                if I.startswith(("panic", "abort")):
                    res.viol.append(("panic", dict(case=line, cfg=c, profile=p, impl=I)))
                    continue
                vals = I.split()
                want = m[2:] if m.startswith("v ") else None
                if len(set(vals)) != 1:
                    res.viol.append(("iterator-shape-or-history-dependent", dict(case=line, cfg=c, profile=p, impl=vals)))
                elif want is not None and vals[0] != want:
                    res.drift.append(dict(case=line[:300], cfg=c, impl=vals[0], model=want))
                res.nontrivial.add(line)
    history_sequences(ctx, rng, res, 150 if q else 3000)
    nonfused_correspondence(ctx, rng, res, cases, 400 if q else 20000)
    if tier == "thorough":
        miri_pass(ctx, res, [l for l in lines if len(l) < 400][:12], ("std",))
    res.samples.append(dict(case=lines[0][:200], shapes="slice, chain(2 splits), filter, VecDeque, lying size_hint, stack poison x2, after 780-digit parse, re-addressed copy, 8 threads"))
    return {}

def nonfused_correspondence(ctx, rng, res, cases, n):
    """the iterator-level model (Model/Iter.lean: the parser written against `next()` only, proved equal to the
    list-level model for every terminating FUSED iterator) is run against the real code on iterators that are NOT
    fused (a, None, b, None, ...): there the list abstraction does not apply and the only reference is the
    iterator-level model itself. Agreement validates that model's control flow (clone per pass, `next()` after a
    `None`, `count()` on a partly consumed iterator); a difference is model drift, never a verdict, because C16
    only speaks about well-behaved iterators."""
    pool = [c[0].split(" ## ")[0].split() for c in cases]
    pool = [t for t in pool if gens.untok(t[2]) is not None and gens.untok(t[3]) is not None and len(t[2]) + len(t[3]) < 2500]
    sel = pool if len(pool) <= n else rng.sample(pool, n)
    lines = []
    for t in sel:
        a, b = gens.untok(t[2]), gens.untok(t[3])
        i = rng.choice([0, len(a), rng.randint(0, len(a)), min(len(a), 19), min(len(a), 20)])
        j = rng.choice([0, len(b), rng.randint(0, len(b)), len(b) - len(b.lstrip("0")), min(len(b), 1)])
        lines.append("nf %s %s %s %s %s %s" % (t[1], gens.tok(a[:i]), gens.tok(a[i:]), gens.tok(b[:j]), gens.tok(b[j:]), t[4]))
    differs_from_list = 0
    for c in [x for x in ctx.cfgs if x in ("std", "std+compact")]:
        model = run_model(c, "release", lines)
        impl = run_impl(c, "release", lines)
        for line, I, M in zip(lines, impl, model):
            res.evals += 1
            mi, _, ml = M.partition(" | L ")
            if I != mi and not (I.startswith("panic") and mi.startswith("panic")):
                # outside C16's domain (non-fused iterators): recorded, never drift and never a verdict
                res.extra.setdefault("nonfused_model_differences", []).append(dict(case=line[:300], cfg=c, impl=I, model=mi))
            if mi != ml:
                differs_from_list += 1
    res.extra["nonfused_iterator_cases"] = len(lines)
    res.extra["nonfused_cases_where_the_list_reading_differs"] = differs_from_list

def history_sequences(ctx, rng, res, n):
    """call-history independence: groups of RELATED inputs (same significand bits at neighbouring binary
    exponents, same digit layout; same leading digits with different tails / exponents; f32 after f64) are parsed
    in sequence on one thread and again each on a fresh thread; both must agree (and equal the spec)"""
    groups = []
    for _ in range(n):
        f = rng.choice(["f32", "f64"])
        F = gens.FMT[f]
        mb = F["mbits"]
        m = (1 << mb) | rng.getrandbits(mb)
        k = rng.randint(0, 40)
        tail = rng.choice(["0000000001", "00000000000000000001", "5", "4999999999999999999999999", "0000000000", "00001"])
        items = []
        for sh in rng.sample([0, 1, 2, 3, -1], 3) + [0]:
            kk = k + sh
            v = (2 * m + 1) << kk if kk >= 0 else None
            if v is None:
                continue
            items.append((str(v), tail, 0))
        if rng.random() < 0.3 and items:
            a, b, e = items[0]
            items.append((a, b[:-1] + "7", e))
            items.append((a, b, e + 1))
        if len(items) >= 2:
            groups.append((f, items))
    lines = ["sq %s %s" % (f, " ".join("%s %s %d" % (gens.tok(a), gens.tok(b), e) for a, b, e in items)) for f, items in groups]
    spec_q = [gens.pf(f, a, b, e) for f, items in groups for a, b, e in items]
    spec = [_mod().parse_model(x)[2] for x in run_model("std", "release", spec_q)]
    for c in ctx.cfgs:
        for p in ctx.profiles:
            out = run_impl(c, p, lines)
            pos = 0
            for (f, items), line, o in zip(groups, lines, out):
                want = [s[2:] if s else None for s in spec[pos:pos + len(items)]]
                pos += len(items)
                res.evals += 2 * len(items)
                if not o.startswith("seq "):
                    res.viol.append(("panic", dict(case=line[:600], cfg=c, profile=p, impl=o)))
                    continue
                seq, fresh = o[4:].split(" fresh ")
                if seq != fresh:
                    res.viol.append(("call-history-dependent", dict(case=line[:900], cfg=c, profile=p, sequential=seq, fresh_thread=fresh, spec=want)))
                elif None not in want and seq.split(",") != want:
                    res.drift.append(dict(case=line[:600], cfg=c, profile=p, impl=seq, spec=want, note="sequence agrees with fresh threads but not with the spec"))
    res.extra["history_sequences"] = len(lines)

# ------------------------------------------------------------------ C17
def run_C17(ctx, rng, tier, res, known):
    q = tier == "quick"
    cases = []
    for f in ("f32", "f64"):
        cases += gens.gen_float_helpers(rng, f, 3000 if q else 200000)
    lines = [c[0] for c in cases]
    for c in [x for x in ctx.cfgs if x in ("std", "std+compact", "compact")]:
        model = run_model(c, "release", lines)
        for p in ctx.profiles:
            impl = run_impl(c, p, lines)
            for i, line in enumerate(lines):
                I = impl[i]
                m, trap, s = _mod().parse_model(model[i])
                res.evals += 1
                t = line.split()
                if t[0] == "fl" and s is not None and not I.startswith(("panic", "abort")):
                    # predicate: mantissa * 2^exponent == |decode|, denormal flag exact, bits lossless
                    fld = I.split()
                    dm, dk = s.split()
                    F = gens.FMT[t[1]]
                    bits = int(t[2])
                    isden = ((bits >> F["mbits"]) & (2 ** F["ebits"] - 1)) == 0
                    if fld[0] != ("1" if isden else "0") or (fld[2], fld[1]) != (dm, dk) or int(fld[3], 16) != bits \
                            or int(fld[6]) != 2 * int(dm) + 1 or int(fld[7]) != int(dk) - 1:
                        res.viol.append(("field-helper", dict(case=line, cfg=c, profile=p, impl=I, decode=s)))
                if t[0] == "e2f" and not I.startswith(("panic", "abort")):
                    F = gens.FMT[t[1]]
                    fr, E = int(t[2]), int(t[3])
                    want = (E << F["mbits"]) | fr if fr < (1 << F["mbits"]) else ((E << F["mbits"]) | fr)
                    if int(I, 16) != want:
                        res.viol.append(("pack", dict(case=line, cfg=c, profile=p, impl=I, expected="%x" % want)))
                if I != m:
                    if I.startswith("panic") and trap and p == "dbg":
                        continue
                    res.drift.append(dict(case=line, cfg=c, profile=p, impl=I, model=m))
                res.nontrivial.add(line)
    res.samples.append(dict(case=lines[0]))
    res.samples.append(dict(case=lines[-1]))
    exhaustive = False
    if not q:
        # thorough: ALL 2^32 f32 bit patterns (exhaustive) and 2^32 stratified f64 patterns through the range-hash
        # protocol: harness and driver fold (is_denormal, exponent, mantissa, to_bits∘from_bits, bh) into a hash
        step = 1 << 22
        hl = ["flh f32 %d %d 1" % (s0, step) for s0 in range(0, 1 << 32, step)]
        hl += ["flh f64 %d %d %d" % (rng.getrandbits(63), step, rng.choice([1, (1 << 52) + 1, 4099, (1 << 32) + 1])) for _ in range(1024)]
        M = run_model("std", "release", hl, heavy=True)
        for c in [x for x in ctx.cfgs if x in ("std", "std+compact")]:
            I = run_impl(c, "release", hl)
            for line, a, b in zip(hl, I, M):
                res.evals += int(line.split()[3])
                if a != b:
                    res.viol.append(("field-helper-range", dict(case=line, cfg=c, impl=a, model=b,
                                                                why="range hash differs: bisect with smaller counts to the single pattern")))
        exhaustive = True
    return {"exhaustive_f32": exhaustive}

# ------------------------------------------------------------------ C18
def run_C18(ctx, rng, tier, res, known):
    q = tier == "quick"
    cases = gens.gen_masks()
    for f in ("f32", "f64"):
        cases += gens.gen_round(rng, f, quick=q)
    lines = [c[0] for c in cases]
    for c in [x for x in ctx.cfgs if x in ("std", "std+compact")]:
        model = run_model(c, "release", lines)
        for p in ctx.profiles:
            impl = run_impl(c, p, lines)
            for i, line in enumerate(lines):
                I = impl[i]
                m, trap, s = _mod().parse_model(model[i])
                res.evals += 1
                if c == "std" and p == "release":
                    _mod().fam_count(res, cases[i][1])
                if I.startswith("abort") or (I.startswith("panic") and not (p == "dbg" and trap)):
                    res.viol.append(("panic", dict(case=line, cfg=c, profile=p, impl=I)))
                    continue
                if I.startswith("panic"):
                    continue
                if s is not None:
                    got = I.split()[2] if line.startswith("rd") else I
                    if got != s:
                        res.viol.append(("not-nearest", dict(case=line, cfg=c, profile=p, impl=I, spec=s)))
                if I != m:
                    res.drift.append(dict(case=line, cfg=c, profile=p, impl=I, model=m))
                res.nontrivial.add(line)
    for i in range(0, len(lines), max(1, len(lines) // 5)):
        res.samples.append(dict(case=lines[i]))
    return {"exhaustive_masks": True}

# ------------------------------------------------------------------ C19
def run_C19(ctx, rng, tier, res, known):
    q = tier == "quick"
    cases = gens.gen_frontend(rng, 5000 if q else 200000)
    # the structured inputs of C01 / C06 (boundaries, digit cuts inside the integer part, big-integer ties)
    # written as text: what the front-end hands on must be the same digits, split and exponent
    pfs = []
    for f in ("f32", "f64"):
        lng = [x for x in _mod().cases_long(rng, "quick", f) if len(x[0]) < 3000]
        pfs += rng.sample(lng, min(len(lng), 700 if q else 8000))
        pfs += gens.gen_boundary(rng, f, 500 if q else 10000) + gens.gen_bigint_ties(rng, f, 200 if q else 5000)
        pfs += gens.gen_seams(rng, f)[::4]
    cases += gens.frontend_from_pf(rng, pfs)
    lines = [c[0] for c in cases]
    for c in [x for x in ctx.cfgs if x in ("std", "std+compact", "std+alloc")]:
        model = run_model(c, "release", lines)
        for p in ctx.profiles:
            impl = run_impl(c, p, lines)
            for i, line in enumerate(lines):
                I = impl[i]
                m, trap, s = _mod().parse_model(model[i])
                res.evals += 1
                if c == "std" and p == "release":
                    _mod().fam_count(res, cases[i][1])
                if I.startswith(("abort", "panic")):
                    res.viol.append(("panic", dict(case=line, cfg=c, profile=p, impl=I)))
                    continue
                ok, why = frontend_predicate(line, I)
                if not ok:
                    res.viol.append(("front-end", dict(case=line, cfg=c, profile=p, impl=I, why=why, model=m)))
                if I != m:
                    res.drift.append(dict(case=line, cfg=c, profile=p, impl=I, model=m))
                res.nontrivial.add(line)
    # value clause, independent of the front-end model: decompose the consumed prefix with a regex,
    # trim, clamp the exponent, and ask the exact rne spec for the value of the pieces
    import re as _r
    qlines, qidx = [], []
    for i, line in enumerate(lines):
        t = line.split()
        bs = bytes.fromhex(t[3][1:]) if t[3] != "-" else b""
        body = bs.decode("latin-1")
        neg = body[:1] == "-"
        if body[:1] in ("+", "-"):
            body = body[1:]
        if t[1] in ("fuzz", "itest") and _r.match(r"(?i)(nan|inf)", body):
            continue
        m = _r.match(r"([0-9]*)(?:\.([0-9]*))?(?:[eE]([+-]?)([0-9]*))?", body)
        ip, fp, es, ed = m.group(1) or "", m.group(2) or "", m.group(3) or "", m.group(4) or ""
        e = int(ed) if ed else 0
        e = -e if es == "-" else e
        e = max(gens.I32MIN, min(gens.I32MAX, e))
        qlines.append(gens.pf(t[2], ip.lstrip("0"), fp.rstrip("0"), e))
        qidx.append((i, neg))
    spec = run_model("std", "release", qlines)
    for c in [x for x in ctx.cfgs if x in ("std", "std+compact", "std+alloc")]:
        for p in ctx.profiles:
            impl = run_impl(c, p, lines) if False else None
    implc = {(c, p): run_impl(c, p, lines) for c in [x for x in ctx.cfgs if x in ("std", "std+compact", "std+alloc")] for p in ctx.profiles}
    for (i, neg), sl in zip(qidx, spec):
        m, trap, sp = _mod().parse_model(sl)
        if sp is None:
            continue
        F = gens.FMT[lines[i].split()[2]]
        want = int(sp[2:], 16) | ((1 << (F["w"] - 1)) if neg else 0)
        for key, out in implc.items():
            I = out[i]
            if I.startswith("v ") and int(I.split()[1], 16) != want:
                res.viol.append(("front-end-value", dict(case=lines[i], cfg=key[0], profile=key[1], impl=I, expected_bits="%x" % want)))
    # the one known finding of C19 (exponent clamp on a ~2 GiB input), replayed on the real code only
    # (the Lean driver does not materialise 2^31-element lists; the model-level statement is the theorem
    # C19Final.C19_front_clamp_finding)
    huge = "fe simple f64 h2e+r2147483630:30+h31+h65+d2147484000"
    if "std" in ctx.cfgs:
        o = run_impl("std", "release", [huge])[0]
        res.evals += 1
        if o == "v 4341c37937e08000 rest 0":
            kf = [k for k in known if k.get("property") == "C19" and k.get("kind") == "known"]
            res.known[kf[0]["what"] if kf else "front-end exponent clamp on ~2 GiB inputs"] = 1
        elif o != "v 7ff0000000000000 rest 0":
            res.viol.append(("front-end-value", dict(case=huge, cfg="std", profile="release", impl=o, expected_bits="7ff0000000000000")))
    for i in range(0, len(lines), max(1, len(lines) // 5)):
        res.samples.append(dict(case=lines[i], bytes=bytes.fromhex(lines[i].split()[3][1:]).decode("latin-1") if lines[i].split()[3] != "-" else ""))
    return {}

_re = None
def frontend_predicate(line, I):
    """independent predicate: longest-prefix grammar + suffix length + sign; value checked via python float for f64"""
    import re as _r, struct
    global _re
    t = line.split()
    variant, fmt = t[1], t[2]
    bs = bytes.fromhex(t[3][1:]) if t[3] != "-" else b""
    s = bs.decode("latin-1")
    special = variant in ("fuzz", "itest")
    bits = int(I.split()[1], 16)
    rest = int(I.split()[3])
    F = gens.FMT[fmt]
    signbit = 1 << (F["w"] - 1)
    body = s
    neg = False
    if body[:1] in "+-" and body[:1] != "":
        neg = body[0] == "-"
        body = body[1:]
    if special:
        low = body.lower()
        # ASCII-only case folding as the code does it (xor 0x20)
        def ci(pref):
            if len(body) < len(pref):
                return False
            return all((ord(a) ^ ord(b)) in (0, 0x20) for a, b in zip(body, pref))
        for pref, kind in (("NaN", "nan"), ("Infinity", "inf"), ("inf", "inf")):
            if ci(pref):
                want_rest = len(body) - len(pref)
                expm = ((2 ** F["ebits"] - 1) << F["mbits"]) | ((1 << (F["mbits"] - 1)) if kind == "nan" else 0)
                if neg:
                    expm |= signbit
                if rest != want_rest or bits != expm:
                    return False, "special literal"
                return True, ""
    m = _r.match(r"[0-9]*(\.[0-9]*)?([eE][+-]?[0-9]*)?", body)
    consumed = m.end()
    want_rest = len(body) - consumed
    if special and consumed == 0 and len(body) == len(s):
        # nothing consumed at all (not even a sign)
        return (rest == len(s) and bits == 0), "empty match"
    if rest != want_rest:
        return False, "suffix length %d expected %d" % (rest, want_rest)
    if bool(bits & signbit) != neg:
        return False, "sign"
    return True, ""
