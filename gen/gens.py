#!/usr/bin/env python3
"""Case generators (DESIGN section 6).  Every generator is a function of one `random.Random`
so a run replays from VERIF_SEED.  Cases are lines of the harness/driver protocol."""
import random, sys
sys.set_int_max_str_digits(0)

def py_rne(f, N, D):
    """independent python implementation of round-to-nearest-even of N/D into format f (bit pattern)"""
    F = FMT[f]
    mb = F["mbits"]
    if N == 0:
        return 0
    e2 = N.bit_length() - D.bit_length()
    # floor(log2(N/D)) is e2 or e2-1
    if (N << max(0, -e2)) < (D << max(0, e2)):
        e2 -= 1
    k = max(e2 - mb, kmin(f))
    A, Bd = (N, D << k) if k >= 0 else (N << -k, D)
    q, r = divmod(A, Bd)
    if 2 * r > Bd or (2 * r == Bd and q % 2 == 1):
        q += 1
    return min(q + ((k - kmin(f)) << mb), inf_bits(f))

FMT = {
    "f64": dict(mbits=52, ebits=11, maxdig=769, w=64),
    "f32": dict(mbits=23, ebits=8, maxdig=114, w=32),
}

def kmin(f):
    F = FMT[f]
    return 2 - 2 ** (F["ebits"] - 1) - F["mbits"]

def inf_bits(f):
    F = FMT[f]
    return (2 ** F["ebits"] - 1) << F["mbits"]

def decode(f, bits):
    F = FMT[f]
    e = bits >> F["mbits"]
    fr = bits & ((1 << F["mbits"]) - 1)
    if e == 0:
        return fr, kmin(f)
    return (1 << F["mbits"]) + fr, kmin(f) + e - 1

def dyadic_to_dec(m, k):
    """m * 2^k exactly as (digits:int, exp10:int) with no trailing zeros (m>0)."""
    if k >= 0:
        d, e = m << k, 0
    else:
        d, e = m * 5 ** (-k), k
    while d % 10 == 0 and d != 0:
        d //= 10
        e += 1
    return d, e

def tok(digs):
    """digit string -> token"""
    if digs == "":
        return "-"
    # compress long runs of one digit
    out = []
    i = 0
    n = len(digs)
    while i < n:
        j = i
        while j < n and digs[j] == digs[i]:
            j += 1
        if j - i >= 64:
            out.append("r%d:%02x" % (j - i, ord(digs[i])))
            i = j
        else:
            # take a literal chunk up to the next long run
            k = i
            while k < n:
                l = k
                while l < n and digs[l] == digs[k]:
                    l += 1
                if l - k >= 64:
                    break
                k = l
            out.append("d" + digs[i:k])
            i = k
    return "+".join(out)

def untok(t):
    """token -> digit string (None if the token carries raw hex bytes)"""
    if t == "-":
        return ""
    out = []
    for part in t.split("+"):
        if part.startswith("d"):
            out.append(part[1:])
        elif part.startswith("r"):
            n, hx = part[1:].split(":")
            out.append(chr(int(hx, 16)) * int(n))
        else:
            return None
    return "".join(out)

def pf(f, int_s, frac_s, e, cmd="pf"):
    return "%s %s %s %s %d" % (cmd, f, tok(int_s), tok(frac_s), e)

I32MIN, I32MAX = -2 ** 31, 2 ** 31 - 1

def clamp_e(e):
    return max(I32MIN, min(I32MAX, e))

def placements(rng, digs, e10, how_many=4):
    """(int, frac, exp) triples denoting digs * 10^e10; digs has no leading zero (or is '0'*)."""
    out = []
    n = len(digs)
    # integer only
    out.append((digs.lstrip("0"), "", e10))
    # fraction only with k leading zeros
    for k in rng.sample([0, 1, 2, 17, 19, 20, 40, 400], 2):
        if I32MIN <= e10 + n + k <= I32MAX:
            out.append(("", "0" * k + digs, e10 + n + k))
    # split at a few positions
    for _ in range(how_many):
        p = rng.randint(0, n)
        a, b = digs[:p].lstrip("0"), digs[p:]
        if I32MIN <= e10 + len(b) <= I32MAX:
            out.append((a, b, e10 + len(b)))
    return out

def float_strata(rng, f, nsig):
    """bit patterns: every exponent field x significands {0,1,2^(p-1),2^p-1, random...}"""
    F = FMT[f]
    mb = F["mbits"]
    res = []
    for E in range(0, 2 ** F["ebits"] - 1):
        sigs = {0, 1, (1 << (mb - 1)), (1 << mb) - 1, (1 << mb) - 2}
        while len(sigs) < nsig:
            sigs.add(rng.getrandbits(mb))
        for s in sigs:
            res.append((E << mb) | s)
    return res

def midpoint_above(f, bits):
    """exact midpoint between float `bits` and its successor as dyadic (m, k)"""
    m, k = decode(f, bits)
    return 2 * m + 1, k - 1

# ------------------------------------------------------------------ B*: boundary-centred strings
def gen_boundary(rng, f, count, lens=None, far=True, point=True):
    """cases around rounding boundaries; returns list of (line, family)"""
    out = []
    F = FMT[f]
    strata = float_strata(rng, f, 6)
    rng.shuffle(strata)
    trunc_lens = lens or (list(range(1, 41)) + list(range(F["maxdig"] - 5, F["maxdig"] + 7)) + [17, 18, 19, 20, 21, 38, 39])
    for bits in strata:
        if len(out) >= count:
            break
        m, k = midpoint_above(f, bits)
        d, e = dyadic_to_dec(m, k)
        digs = str(d)
        variants = []
        variants.append((digs, e, "B-exact"))
        n = rng.choice(trunc_lens)
        if n < len(digs):
            t = digs[:n]
            variants.append((t, e + len(digs) - n, "B-trunc"))
            variants.append((str(int(t) + 1), e + len(digs) - n, "B-trunc+1"))
        if far:
            j = rng.choice([1, 2, 5, 30, 800, 5000])
            variants.append((digs + "0" * (j - 1) + rng.choice("123456789"), e - j, "B-tie+far"))
            j = rng.choice([1, 3, 20, 780, 3000])
            variants.append((str(d * 10 ** j - 1), e - j, "B-tie-far9"))
            z = rng.choice([1, 2, 19, 40])
            variants.append((digs + "0" * z, e - z, "B-tie+zeros"))
        for (dg, ee, fam) in variants:
            if point:
                pl = placements(rng, dg, ee, 2)
                a, b, x = rng.choice(pl)
            else:
                a, b, x = dg.lstrip("0"), "", ee
            if I32MIN <= x <= I32MAX:
                out.append((pf(f, a, b, x), fam))
    return out[:count] if count else out

def gen_exponent_sweep(rng, f, stride=1):
    """one tie-plus-one-more-digit input per binary exponent field: the big-integer path is reached with
    every decimal exponent (relative to its digits) it can see, so a slip at a single exponent value shows"""
    out = []
    F = FMT[f]
    mb = F["mbits"]
    for E in range(0, 2 ** F["ebits"] - 1, stride):
        bits = (E << mb) | rng.getrandbits(mb)
        if bits == 0:
            continue
        m, k = midpoint_above(f, bits)
        d, e = dyadic_to_dec(m, k)
        digs = str(d)
        r = rng.random()
        if r < 0.5:
            out.append((pf(f, digs + rng.choice("123456789"), "", e - 1), "B-exp-sweep"))
        elif r < 0.8:
            out.append((pf(f, str(d * 10 - 1), "", e - 1), "B-exp-sweep-below"))
        else:
            p = rng.randint(0, len(digs))
            out.append((pf(f, digs[:p].lstrip("0"), digs[p:] + "5", e + len(digs) - p), "B-exp-sweep-split"))
    return out

# ------------------------------------------------------------------ thresholds (C07)
def gen_thresholds(rng, f):
    out = []
    F = FMT[f]
    mb, eb = F["mbits"], F["ebits"]
    emax = 2 ** (eb - 1) - 1
    pts = []
    # overflow threshold 2^(emax+1) - 2^(emax - mb - 1), max finite, 2^(emax+1)
    pts.append((((1 << (mb + 2)) - 1), emax - mb - 1, "T-ovf-mid"))
    pts.append((((1 << (mb + 1)) - 1), emax - mb, "T-maxfinite"))
    pts.append((1, emax + 1, "T-2^emax+1"))
    # half of min subnormal, min subnormal, 1.5*min subnormal, min normal, max subnormal, and midpoints
    km = kmin(f)
    pts.append((1, km - 1, "T-half-minsub"))
    pts.append((1, km, "T-minsub"))
    pts.append((3, km - 1, "T-1.5minsub"))
    pts.append((1, km + mb, "T-minnormal"))
    pts.append(((1 << mb) - 1, km, "T-maxsub"))
    pts.append(((1 << (mb + 1)) - 1, km - 1, "T-maxsub-mid"))
    pts.append((1, km - 2, "T-quarter-minsub"))
    for (m, k, fam) in pts:
        d, e = dyadic_to_dec(m, k)
        digs = str(d)
        forms = [(digs, e, fam)]
        for n in (17, 19, 20, 30, 120, 400):
            if n < len(digs):
                forms.append((digs[:n], e + len(digs) - n, fam + "-trunc"))
                forms.append((str(int(digs[:n]) + 1), e + len(digs) - n, fam + "-trunc+1"))
        forms.append((digs + "1", e - 1, fam + "+eps"))
        forms.append((str(d * 10 - 1), e - 1, fam + "-eps"))
        forms.append((digs + "0" * 30 + "1", e - 31, fam + "+fareps"))
        forms.append((str(d * 10 ** 800 - 1), e - 800, fam + "-fareps"))
        for (dg, ee, fm) in forms:
            for (a, b, x) in placements(rng, dg, ee, 1):
                out.append((pf(f, a, b, x), fm))
    # compensating long digit strings with huge exponents
    for n in (500, 5000, 100000, 1000000):
        for base in ("1", "17976931348623157", "49", "25"):
            # integer of base followed by n zeros, exponent -n+delta
            for delta in (-330, -46, 0, 38, 308, 309):
                out.append((pf(f, base + "0" * n, "", clamp_e(-n + delta)), "T-compensate-int"))
                out.append((pf(f, "", "0" * n + base, clamp_e(n + delta)), "T-compensate-frac"))
    # absurd exponents
    for e in (I32MIN, I32MIN + 1, -10 ** 9, -100000, -5000, -4097, -4096, -4095, 4095, 4096, 4097, 5000, 100000, 10 ** 9, I32MAX - 1, I32MAX):
        for a, b in (("1", ""), ("", "1"), ("123456789", "987654321"), ("", ""), ("9" * 25, ""), ("", "0" * 30 + "7")):
            out.append((pf(f, a, b, e), "T-absurd-exp"))
    # zero significand, every kind of exponent
    for e in (I32MIN, -400, -1, 0, 1, 22, 23, 308, 400, I32MAX):
        for a, b in (("", ""), ("", "0"), ("", "0" * 25), ("", "0" * 800)):
            out.append((pf(f, a, b, e), "T-zero"))
    return out

# ------------------------------------------------------------------ S*: seams
def gen_seams(rng, f):
    out = []
    F = FMT[f]
    mb = F["mbits"]
    ws = []
    for base in (1 << (mb + 1), 1 << 24, 1 << 53, 10 ** 19, 10 ** 18, 2 ** 64, 2 ** 63):
        for d in (-2, -1, 0, 1, 2):
            ws.append(base + d)
    ws += [1, 2, 3, 9, 10, 99, 9999, 10000, 99999, 123456789, 10 ** 19 - 1, 10 ** 20 - 1, 10 ** 20, 10 ** 20 + 1]
    if f == "f64":
        qs = [-343, -342, -341, -325, -324, -323, -308, -307, -66, -65, -38, -37, -28, -27, -26, -23, -22, -21, -5, -4, -3, -1, 0, 1,
              10, 11, 15, 16, 22, 23, 24, 37, 38, 39, 55, 56, 288, 289, 290, 291, 292, 307, 308, 309, 310]
    else:
        qs = [-66, -65, -64, -46, -45, -44, -38, -37, -28, -27, -26, -18, -17, -16, -11, -10, -9, -1, 0, 1, 7, 8, 10, 11, 17, 18, 19,
              28, 29, 37, 38, 39, 40, 55, 56]
    for w in ws:
        for q in qs:
            s = str(w)
            out.append((pf(f, s, "", q), "S-wq"))
    return out

# ------------------------------------------------------------------ V*: random valid
def rand_digits(rng, n, first_nonzero=True):
    if n == 0:
        return ""
    s = "".join(rng.choice("0123456789") for _ in range(n))
    if first_nonzero and s[0] == "0":
        s = rng.choice("123456789") + s[1:]
    return s

def gen_random_valid(rng, f, count):
    out = []
    for _ in range(count):
        r = rng.random()
        if r < 0.4:
            ni, nf = rng.randint(0, 20), rng.randint(0, 20)
        elif r < 0.8:
            ni, nf = rng.randint(0, 40), rng.randint(0, 60)
        else:
            ni, nf = rng.randint(0, 400), rng.randint(0, 900)
        a = rand_digits(rng, ni)
        lead = rng.choice([0, 0, 0, 1, 5, 30]) if ni == 0 else 0
        b = "0" * lead + rand_digits(rng, nf, False)
        r2 = rng.random()
        if r2 < 0.6:
            e = rng.randint(-40, 40)
        elif r2 < 0.95:
            e = rng.randint(-360, 330)
        else:
            e = rng.choice([I32MIN, I32MAX, -5000, 5000, rng.randint(I32MIN, I32MAX)])
        # centre the value into the representable range half of the time
        if rng.random() < 0.5:
            e = clamp_e(e - ni)
        out.append((pf(f, a, b, e), "V-random"))
    return out

# ------------------------------------------------------------------ R*: renderings of floats (C03)
def exact_decimal(f, bits):
    m, k = decode(f, bits)
    if m == 0:
        return "0", 0
    d, e = dyadic_to_dec(m, k)
    return str(d), e

def round_sig(f, bits, nd):
    """the float's value correctly rounded (half-even) to nd significant decimal digits"""
    m, k = decode(f, bits)
    if m == 0:
        return "0", 0
    # value = m*2^k; find e10 with 10^(nd-1) <= value/10^e10 < 10^nd
    from fractions import Fraction
    v = Fraction(m) * (Fraction(2) ** k)
    import math
    # estimate exponent
    e10 = int(math.floor((m.bit_length() + k - 1) * 0.30102999566398)) - (nd - 1)
    for cand in (e10 - 1, e10, e10 + 1, e10 + 2):
        sc = v / (Fraction(10) ** cand)
        if Fraction(10) ** (nd - 1) <= sc < Fraction(10) ** nd:
            q = sc.numerator // sc.denominator
            r = sc - q
            if r > Fraction(1, 2) or (r == Fraction(1, 2) and q % 2 == 1):
                q += 1
            return str(q), cand
    raise RuntimeError("round_sig")

def shortest(f, bits):
    """shortest digit string that uniquely identifies the float (via repr for f64, numpy-free for f32)"""
    import struct
    if f == "f64":
        x = struct.unpack("<d", struct.pack("<Q", bits))[0]
        s = repr(x)
    else:
        for p in range(1, 10):
            d, e = round_sig(f, bits, p)
            N, D = (int(d) * 10 ** e, 1) if e >= 0 else (int(d), 10 ** (-e))
            if py_rne(f, N, D) == bits:
                return d, e
        return round_sig(f, bits, 9)
    # normalise to (digits, e10)
    s = s.lower()
    if "e" in s:
        mant, ex = s.split("e")
        ex = int(ex)
    else:
        mant, ex = s, 0
    if "." in mant:
        ip, fp = mant.split(".")
    else:
        ip, fp = mant, ""
    digs = (ip + fp).lstrip("0") or "0"
    e10 = ex - len(fp)
    return digs, e10

def tie_neighbour_bits(rng, f):
    """floats adjacent to a rounding boundary that is itself a SHORT decimal w x 10^q (|q| <= 30): for the
    neighbour with the even significand that decimal lies in its (closed) rounding interval and is often its
    shortest rendering - the only renderings whose parse depends on the ties-to-even rule"""
    out = []
    for line, fam in gen_mp_ties(rng, f):
        if fam != "N-tie":
            continue
        t = line.split()
        w, q = int(t[2]), int(t[3])
        if w >= 10 ** 19:
            continue
        b = py_rne(f, w * 10 ** max(q, 0), 10 ** max(-q, 0))
        if 0 < b < inf_bits(f) - 1:
            out += [b, b + 1, b - 1]
    return out

def gen_renderings(rng, f, nsig, extra_bits=()):
    out = []
    F = FMT[f]
    nd = 17 if f == "f64" else 9
    for bits in list(float_strata(rng, f, nsig)) + list(extra_bits):
        if bits == 0:
            continue
        forms = []
        d, e = exact_decimal(f, bits)
        forms.append((d, e, "R-exact"))
        d, e = round_sig(f, bits, nd)
        forms.append((d, e, "R-%d" % nd))
        d, e = shortest(f, bits)
        forms.append((d, e, "R-shortest"))
        for (dg, ee, fam) in forms:
            a, b, x = rng.choice(placements(rng, dg.rstrip("0") or "0", ee + len(dg) - len(dg.rstrip("0") or "0"), 2))
            out.append(("%s ## %x" % (pf(f, a, b, x), bits), fam))
    return out

# ------------------------------------------------------------------ moderate path (w, q, t) triples
def gen_mp_uniform(rng, f, count):
    out = []
    qlo, qhi = (-350, 320) if f == "f64" else (-70, 45)
    for _ in range(count):
        r = rng.random()
        if r < 0.5:
            w = rng.getrandbits(64)
        elif r < 0.8:
            w = rng.randint(10 ** 18, 10 ** 19 - 1)
        else:
            w = rng.getrandbits(rng.randint(1, 64))
        r2 = rng.random()
        if r2 < 0.9:
            q = rng.randint(qlo, qhi)
        else:
            q = rng.choice([I32MIN, I32MAX, -4097, -4096, -4095, 4095, 4096, 4097, -1000, 1000, rng.randint(I32MIN, I32MAX)])
        t = rng.randint(0, 1)
        if t == 1 and (w == 0 or w == 2 ** 64 - 1) and rng.random() < 0.9:
            w = 12345
        out.append(("mp %s %d %d %d" % (f, w, q, t), "N-uniform"))
    return out

def floats_in_decade(rng, f, q, n):
    """bit patterns of floats whose value lies in [10^(18+q), 10^(19+q))"""
    import math
    F = FMT[f]
    mb = F["mbits"]
    res = []
    lo_e2 = int(math.floor((18 + q) * 3.3219280948873626))
    for _ in range(n):
        e2 = lo_e2 + rng.randint(0, 3)          # value ~ 2^e2
        E = e2 - mb - kmin(f) + 1
        if E < 1:
            bits = rng.getrandbits(max(1, mb + E)) if mb + E >= 1 else 1
        elif E >= 2 ** F["ebits"] - 1:
            continue
        else:
            bits = (E << mb) | rng.getrandbits(mb)
        res.append(bits)
    return res

def gen_mp_near_halfway(rng, f, count, focus_q=None):
    """(w, q) with w*10^q within ~1e-19 relative of a midpoint: 19/20-digit truncations of midpoints"""
    out = []
    if focus_q:
        strata = []
        for q in focus_q:
            strata += floats_in_decade(rng, f, q, max(1, count // (4 * len(focus_q))))
    else:
        strata = float_strata(rng, f, 4)
    rng.shuffle(strata)
    for bits in strata:
        if len(out) >= count:
            break
        m, k = midpoint_above(f, bits)
        d, e = dyadic_to_dec(m, k)
        digs = str(d)
        for n in (rng.choice([15, 16, 17, 18]), 19, 20):
            if len(digs) <= n:
                w, q = d, e
                if w < 2 ** 64:
                    out.append(("mp %s %d %d 0" % (f, w, q), "N-exact-tie"))
                    out.append(("mp %s %d %d 1" % (f, w, q), "N-exact-tie-t"))
                continue
            w = int(digs[:n])
            q = e + len(digs) - n
            for ww in (w, w + 1):
                if ww < 2 ** 64 and I32MIN <= q <= I32MAX:
                    out.append(("mp %s %d %d %d" % (f, ww, q, 0), "N-near-half"))
                    out.append(("mp %s %d %d %d" % (f, ww, q, 1), "N-near-half-t"))
    return out[:count]

def gen_mp_carry_seams(rng, f):
    """(w, q) whose value rounds UP into a power of two across a seam of the encoding: just below the smallest normal
    (the subnormal branch produces significand 2^mbits: the carry into the exponent field, seed C11-f), just below
    other small powers of two, and just below 2^(emax+1) (carry into infinity).  n-digit truncations, n = 2..19."""
    out = []
    F = FMT[f]
    mb, eb = F["mbits"], F["ebits"]
    kmin = 2 - 2 ** (eb - 1) - mb
    emax = 2 ** (eb - 1)
    exps = [kmin + mb, kmin + mb + 1, kmin + mb - 1, kmin + 1, kmin + 2, kmin + mb // 2, emax, emax - 1, 0, 1, -1, 10, -10]
    from fractions import Fraction
    for e2 in exps:
        V = Fraction(2) ** e2
        for n in range(2, 20):
            # q with V / 10^q having n integer digits
            q = -400
            import math
            q = int(math.floor(e2 * math.log10(2))) - n + 1
            for qq in (q - 1, q, q + 1):
                x = V / (Fraction(10) ** qq)
                w0 = x.numerator // x.denominator
                if not (10 ** (n - 1) <= w0 < 10 ** n):
                    continue
                for d in (0, -1, -2, 1, -rng.randint(3, 40)):
                    w = w0 + d
                    if 0 < w < 2 ** 64:
                        out.append(("mp %s %d %d 0" % (f, w, qq), "N-carry-seam"))
                        out.append(("mp %s %d %d 1" % (f, w, qq), "N-carry-seam-t"))
    return out

_LIMB_BOUNDARY_CACHE = {}
def gen_limb_boundary(f):
    """slow-path inputs (negative decimal exponent -h) whose two big integers of negative_digit_comp straddle a limb
    boundary 2^(64k): the halfway point (2m+1)*5^h*2^s lies within 2^-59 relative of 2^(64k) on one side and the
    digits (2^(64k) - 1, 2^(64k), 2^(64k) + 1) on the other, so the two operands of the final comparison differ in
    LENGTH and an ordering that looks at the top limbs first decides wrongly (seed C05-e).  Number-theoretic search
    over h (deterministic, cached); very few (h, M) exist."""
    if f in _LIMB_BOUNDARY_CACHE:
        return _LIMB_BOUNDARY_CACHE[f]
    import math
    F = FMT[f]
    mb, eb = F["mbits"], F["ebits"]
    nb = mb + 2
    maxdig = 768 if f == "f64" else 112
    H = 1100 if f == "f64" else 160
    emin10 = (2 - 2 ** (eb - 1)) * math.log10(2) + 1
    emax10 = (2 ** (eb - 1)) * math.log10(2) - 1
    out = []
    p = 1
    for h in range(1, H + 1):
        p *= 5
        bl = p.bit_length()
        for j in range(bl + nb - 2, bl + nb + 1):
            for M in ((1 << j) // p, (1 << j) // p + 1):
                if M % 2 == 0 or not (1 << (nb - 1)) <= M < (1 << nb):
                    continue
                g = M * p - (1 << j)
                if g == 0 or abs(g) << 59 >= (1 << j):
                    continue
                for k in range((j + 63) // 64, 63):
                    B = 1 << (64 * k)
                    n = len(str(B))
                    if n > maxdig or n < 20:
                        continue
                    e10 = 64 * k * math.log10(2) - h
                    if not emin10 < e10 < emax10:
                        continue
                    for D in (B - 1, B, B + 1, B - 2, B + 2):
                        out.append((pf(f, str(D), "", -h), "B-limb-boundary"))
                    # the same digits with the decimal point moved (fraction digits instead of a negative exponent)
                    sD = str(B - 1 if g > 0 else B)
                    if h < len(sD):
                        out.append((pf(f, sD[:len(sD) - h], sD[len(sD) - h:], 0), "B-limb-boundary"))
    _LIMB_BOUNDARY_CACHE[f] = out
    return out

def gen_disguised_wq(rng, f, per_shift=40):
    """(m, q) on the DISGUISED fast path (q above MAX_EXPONENT_FAST_PATH, m <= 2^(mbits+1)) at the two tests that guard it:
    the 64-bit overflow of m * 10^(q - max) -- f64 only: products that wrap modulo 2^64 to a SMALL value (<= 2^53, and
    in particular back into [m, 2^53], where an addition-style overflow test accepts them: seed C03-e), products next to
    2^64 -- and the comparison with 2^(mbits+1) (products next to it, both formats)."""
    F = FMT[f]
    mb = F["mbits"]
    M = 1 << (mb + 1)
    kmax, kdis = (22, 37) if f == "f64" else (10, 17)
    out = []
    for s in range(1, kdis - kmax + 1):
        P = 10 ** s
        q = kmax + s
        for d in range(-3, 4):
            m = M // P + d
            if 0 < m <= M:
                out.append((m, q))
        if f != "f64":
            continue
        for d in range(-2, 3):
            m = (1 << 64) // P + d
            if 0 < m <= M:
                out.append((m, q))
        # m * 10^s = 2^s * (m * 5^s): it wraps to 2^s * t with t = m * 5^s mod 2^(64-s)
        mod = 1 << (64 - s)
        inv = pow(5 ** s, -1, mod)
        found = 0
        for _ in range(200000):
            if found >= per_shift:
                break
            t = rng.randint(1, max(1, M >> s))
            m = (t * inv) % mod
            if mod <= M:
                m += mod * rng.randint(0, (M - m) // mod)
            if 0 < m <= M and m * P >= 1 << 64:
                out.append((m, q))
                found += 1
    return out

def gen_mp_exact_guard(rng, f, per_q=6):
    """exact products (5^q fits 64 bits, low table word 0) whose guard bits are all ones: the second
    multiplication is taken and the carry comparison sees second_hi == first_lo == 0"""
    out = []
    F = FMT[f]
    g = 64 - (F["mbits"] + 3)          # number of guard bits
    for q in range(0, 28):
        p5 = 5 ** q
        if p5 << (g + 1) >= 1 << 64:
            break
        mod = 1 << (g + 1)
        inv = pow(p5, -1, mod)
        for _ in range(per_q):
            for low in (mod - 2, mod - 1):
                t0 = (inv * low) % mod
                # X = p5 * t in [2^63, 2^64)
                tmin = ((1 << 63) + p5 - 1) // p5
                tmax = ((1 << 64) - 1) // p5
                if tmax - tmin < mod:
                    continue
                t = rng.randint(tmin, tmax - mod)
                t += (t0 - t) % mod
                X = p5 * t
                if not ((1 << 63) <= X < (1 << 64)) or X % mod != low:
                    continue
                w = t
                for sh in (0, 1, 3):
                    if w % (1 << sh) == 0 or sh == 0:
                        ww = w >> sh if sh and w % (1 << sh) == 0 else w
                        out.append(("mp %s %d %d 0" % (f, ww, q), "N-exact-guard"))
    return out

def gen_bigint_ties(rng, f, count):
    """integer-valued inputs around integer midpoints >= 2^64 (positive_digit_comp / hi64 sticky logic):
    M, M +- 2^t for t across limb boundaries, bit lengths at and around multiples of 64"""
    out = []
    F = FMT[f]
    mb = F["mbits"]
    emax = 2 ** (F["ebits"] - 1) - 1
    ks = [k for k in range(12, emax - mb + 1)]
    pick = [k for k in ks if (k + mb + 1) % 64 in (0, 1, 63)] + [rng.choice(ks) for _ in range(40)]
    rng.shuffle(pick)
    for k in pick:
        if len(out) >= count:
            break
        for m in ((1 << mb), (1 << mb) + 1, (1 << (mb + 1)) - 2, (1 << (mb + 1)) - 1, (1 << mb) | rng.getrandbits(mb)):
            M = (2 * m + 1) << (k - 1)
            ts = {0, 1, 2, 63, 64, 65, 127, 128, k - 2, k - 3, max(0, k - 65), max(0, k - 64), max(0, k - 63), rng.randrange(0, k - 1)}
            vals = [(M, "I-tie")]
            for t in ts:
                if 0 <= t < k - 1:
                    vals.append((M + (1 << t), "I-tie+2^t"))
                    vals.append((M - (1 << t), "I-tie-2^t"))
            for v, fam in vals:
                ds = str(v)
                r = rng.random()
                if r < 0.6:
                    out.append((pf(f, ds, "", 0), fam))
                elif r < 0.8:
                    z = len(ds) - len(ds.rstrip("0"))
                    out.append((pf(f, ds.rstrip("0") or "0", "", z), fam))
                else:
                    p = rng.randint(1, len(ds))
                    out.append((pf(f, ds[:p], ds[p:], len(ds) - p), fam))
    return out[:count]

def gen_near_tie_posexp(rng, f, count):
    """D x 10^E with a large positive E (>= 135: `large_mul` by 5^135 in `pow`, possibly twice) and D the
    smallest / largest k-digit integer above / below an exact midpoint M = (2m+1) 2^p of two huge floats:
    D 5^E is then a carry chain away from (2m+1) 2^(p-E), i.e. the long multiplication and the additions
    inside it run through all-ones limbs.  Only formats whose range reaches 10^155 (f64)."""
    out = []
    F = FMT[f]
    mb = F["mbits"]
    emax = 2 ** (F["ebits"] - 1) - 1
    if emax < 600:
        return out
    while len(out) < count:
        E = rng.choice([135, 136, 140, 150, 200, 269, 270, 271, 280]) if rng.random() < 0.7 else rng.randint(135, 288)
        maxk = 308 - E
        if maxk < 20:
            continue
        k = rng.randint(max(20, maxk - 60), maxk) if rng.random() < 0.6 else rng.randint(20, maxk)
        # a float whose midpoint has k + E decimal digits
        target = 10 ** (k + E - 1) * rng.randint(1, 9)
        p = target.bit_length() - (mb + 2)
        if p < 1 or p + mb + 1 > emax:
            continue
        m = (1 << mb) | rng.getrandbits(mb)
        if rng.random() < 0.2:
            m = rng.choice([(1 << mb), (1 << (mb + 1)) - 1, (1 << mb) + 1])
        M = (2 * m + 1) << p
        lo = M // 10 ** E
        for D, fam in ((lo + 1, "T-posexp-above"), (lo, "T-posexp-below")):
            ds = str(D)
            if rng.random() < 0.7:
                out.append((pf(f, ds, "", E), fam))
            else:
                c = rng.randint(1, len(ds))
                out.append((pf(f, ds[:c], ds[c:], E + len(ds) - c), fam))
    return out[:count]

_PREFIX_MID = {}
def prefix_midpoints(f, w):
    """for a 19-digit decimal significand w (10^18 <= w < 10^19): the decimal exponents n for which a midpoint M
    of two adjacent floats lies in [w 10^n, (w+1) 10^n) - every decimal just above M then has w as its first 19
    significant digits, is truncated (`many_digits`), and cannot be decided from w and w+1 alone, so it reaches the
    big-integer stage with exactly this significand.  Returns (n, m, k) with M = m 2^k (exact search, all n)."""
    key = (f, w)
    if key in _PREFIX_MID:
        return _PREFIX_MID[key]
    out = []
    lo, hi = (-345, 295) if f == "f64" else (-66, 22)
    for n in range(lo, hi):
        N, D = (w * 10 ** n, 1) if n >= 0 else (w, 10 ** (-n))
        b = py_rne(f, N, D)
        if b == 0 or b >= inf_bits(f) - 1:
            continue
        for bb in (b - 1, b):
            m, k = midpoint_above(f, bb)
            Mn, Md = (m << k, 1) if k >= 0 else (m, 1 << (-k))
            # w 10^n <= M < (w+1) 10^n   <=>   N Md <= Mn D < (N + 10^n-part) Md
            if N * Md <= Mn * D and Mn * D < (N + (10 ** n if n >= 0 else 1)) * Md:
                out.append((n, m, k))
    _PREFIX_MID[key] = out
    return out

def gen_prefix_near_mid(rng, f, ws, label="T-prefix"):
    """inputs just above / just below / at the midpoints of `prefix_midpoints` for each significand in `ws`,
    with 20 .. 60 .. all digits and several placements of the point"""
    out = []
    for w in ws:
        for (n, m, k) in prefix_midpoints(f, w):
            d, e = dyadic_to_dec(m, k)           # M = d x 10^e exactly
            digs = str(d)
            for nd in (20, 21, 25, 40, 60, len(digs)):
                if nd > len(digs):
                    continue
                cut = len(digs) - nd
                up = str(d // 10 ** cut + (1 if cut else 0))
                dn = str(d // 10 ** cut) if cut else str(d * 10 - 1)
                for dg, ee, fam in ((up, e + cut, label + "-above"), (dn, e + cut if cut else e - 1, label + "-below")):
                    for (a, b, x) in placements(rng, dg, ee, 1)[:3]:
                        if I32MIN <= x <= I32MAX:
                            out.append((pf(f, a, b, x), fam))
            for far in (1, 20, 40, 998):
                out.append((pf(f, digs[:1], digs[1:] + "0" * far + "1", e + len(digs) - 1), label + "-tie+far"))
            out.append((pf(f, digs, "", e), label + "-exact"))
    return out

SPECIAL_PREFIXES = [10 ** 18, 10 ** 19 - 1, 2 ** 63, 2 ** 63 - 1, 2 ** 63 + 1, 5 * 10 ** 18, 10 ** 18 + 1, 2 * 10 ** 18,
                    1844674407370955161, 1844674407370955162, 9007199254740992000, 9007199254740993000,
                    1677721600000000000, 9999999999999999990, 1000000000000000010]

def gen_pow10_prefix(rng, f):
    """significands with special structure (a power of ten, all nines, 2^63 and its neighbours, 2^64/10, 2^53 and
    2^24 padded ...) reaching the big-integer stage - the places where a shortcut in the digit / exponent
    book-keeping (`scientific_exponent`, the w / w+1 evaluation, `mantissa + 1`) can go wrong for one value only"""
    return gen_prefix_near_mid(rng, f, SPECIAL_PREFIXES, "T-pow10")

def gen_sparse_posexp(rng, f, count):
    """D x 10^E (E >= 135) with D = A 2^(64k) + c: a run of k all-zero limbs below the top of the big
    integer (`long_mul` skips zero limbs of its multiplier and then adds the next partial product beyond
    the end of the accumulator), and A chosen so that the value is within 1/A of a midpoint of two floats
    (so that the extended-precision stage declines and the big-integer stage runs at all)."""
    out = []
    F = FMT[f]
    mb = F["mbits"]
    emax = 2 ** (F["ebits"] - 1) - 1
    if emax < 600:
        return out
    tries = 0
    while len(out) < count and tries < 50 * count + 100:
        tries += 1
        E = rng.choice([135, 136, 137, 140, 150])
        k = rng.choice([4, 5, 5, 6, 6, 7])
        room = (emax - 2) - (10 ** E).bit_length() - 64 * k
        if room < 70:
            continue
        abits = rng.randint(68, min(room, 200))
        total = abits + 64 * k + (10 ** E).bit_length()
        p = total - (mb + 2)
        m = (1 << mb) | rng.getrandbits(mb)
        M = (2 * m + 1) << p
        A0 = M // (10 ** E << (64 * k))
        for A, fam in ((A0 + 1, "T-sparse-above"), (A0, "T-sparse-below")):
            c = rng.choice([1, 1, 0, rng.getrandbits(64), rng.getrandbits(7)])
            D = (A << (64 * k)) + c
            if (D * 10 ** E).bit_length() > emax:
                continue
            out.append((pf(f, str(D), "", E), fam))
    return out[:count]

def gen_mp_ties(rng, f):
    """exact ties w = (2m+1) * 2^j * 5^-q inside and just outside the tie window"""
    out = []
    F = FMT[f]
    mb = F["mbits"]
    qs = range(-30, 30)
    for q in qs:
        for _ in range(6):
            m = (1 << mb) | rng.getrandbits(mb)
            odd = 2 * m + 1
            if q >= 0:
                # odd * 2^j = w * 10^q  => w = odd*2^j / 10^q must be an integer: need 5^q | odd
                p5 = 5 ** q
                mm = (odd // p5) | 1
                base = mm * p5
                if base.bit_length() != mb + 2:
                    continue
                # w*10^q = base * 2^(q+j) -> w = base/5^q * 2^j
                w0 = base // p5
                jmax = 64 - w0.bit_length()
                for j in sorted(set([0, 1, 5, 20] + [x for x in (jmax, jmax - 1, jmax - 2, jmax - 4, jmax - 8, jmax - 13) if x >= 0])):
                    w = w0 << j
                    if 0 < w < 2 ** 64:
                        out.append(("mp %s %d %d 0" % (f, w, q), "N-tie"))
                        out.append(("mp %s %d %d 0" % (f, w + 1, q), "N-tie+1"))
                        if w > 1:
                            out.append(("mp %s %d %d 0" % (f, w - 1, q), "N-tie-1"))
            else:
                w0 = odd * 5 ** (-q)
                jmax = 64 - w0.bit_length()
                for j in sorted(set([0, 1, 3] + [x for x in (jmax, jmax - 1) if x >= 0])):
                    w = w0 << j
                    if 0 < w < 2 ** 64:
                        out.append(("mp %s %d %d 0" % (f, w, q), "N-tie"))
                        out.append(("mp %s %d %d 0" % (f, w + 1, q), "N-tie+1"))
                        out.append(("mp %s %d %d 0" % (f, w - 1, q), "N-tie-1"))
    return out

def read_lemire_table(dump_path):
    rows = None
    for line in open(dump_path):
        if line.startswith("POWER_OF_FIVE_128 = "):
            rows = [tuple(int(x) for x in r.split(":")) for r in line.split(" = ", 1)[1].split()]
    return rows

def gen_mp_allones(f, table, smallest=-342):
    """all normalised w whose first 64x64 product with the table's high word has an all-ones low word"""
    out = []
    if not table:
        return out
    M = 1 << 64
    qlo, qhi = (-342, 308) if f == "f64" else (-65, 38)
    for q in range(qlo, qhi + 1):
        hi5, lo5 = table[q - smallest]
        # w * hi5 = -1 mod 2^64  (hi5 odd => unique w)
        if hi5 % 2 == 0:
            continue
        w = (-pow(hi5, -1, M)) % M
        if w >= 1 << 63:
            # every value with the same normalisation: w >> s when the low s bits are zero
            ww = w
            out.append(("mp %s %d %d 0" % (f, ww, q), "N-allones"))
            out.append(("mp %s %d %d 1" % (f, ww, q), "N-allones-t"))
            if ww - 1 > 0:
                out.append(("mp %s %d %d 1" % (f, ww - 1, q), "N-allones-t-1"))
    return out

def gen_mp_guard(rng, f, table, count, smallest=-342):
    """w (normalised) whose first_hi has the guard bits all ones -> second product taken"""
    out = []
    if not table:
        return out
    F = FMT[f]
    prec = F["mbits"] + 3
    mask = (1 << (64 - prec)) - 1
    qlo, qhi = (-342, 308) if f == "f64" else (-65, 38)
    tries = 0
    while len(out) < count and tries < count * 3000:
        tries += 1
        q = rng.randint(qlo, qhi)
        hi5, lo5 = table[q - smallest]
        # choose a target first_hi with guard bits set, solve w ~ target*2^64/hi5
        target = (rng.getrandbits(64) | (1 << 63) | mask)
        w = (target << 64) // hi5 + 1
        if not ((1 << 63) <= w < (1 << 64)):
            continue
        fh = (w * hi5) >> 64
        if fh & mask == mask:
            s = rng.choice([0, 0, 1, 3, 10])
            if w % (1 << s) == 0:
                w >>= s
            out.append(("mp %s %d %d %d" % (f, w, q, rng.randint(0, 1)), "N-guard"))
    return out

# ------------------------------------------------------------------ G*: garbage bytes (C08)
def btok(bs):
    if len(bs) == 0:
        return "-"
    return "h" + bytes(bs).hex()

def gen_table_index_sweep(f):
    """every decimal exponent that can become a table index on the fast / disguised fast path (and a margin around the
    windows), crossed with the significands at which the branch tests change: 0 (three valid spellings: no digits at all,
    fraction zeros only), 1, 2^(mbits+1) and its
    neighbours, a 19-digit value -- the unchecked reads of `pow_fast_path` / `int_pow_fast_path` see every index they
    can see, also for a zero significand (seed C08-g)"""
    F = FMT[f]
    M = 1 << (F["mbits"] + 1)
    out = []
    for e in range(-45, 46):
        for a, b in (("", ""), ("", "000"), ("", "0"), ("1", ""), (str(M), ""), (str(M - 1), ""), (str(M + 1), ""),
                     ("", "1"), ("9" * 19, ""), ("1" + "0" * 18, "")):
            out.append((pf(f, a, b, e + len(b)), "B-table-index"))
    return out

def gen_garbage(rng, f, count):
    out = []
    for _ in range(count):
        r = rng.random()
        def mk():
            k = rng.random()
            if k < 0.3:
                n = rng.randint(0, 25)
            elif k < 0.8:
                n = rng.randint(0, 120)
            else:
                n = rng.randint(100, 1500)
            m = rng.random()
            if m < 0.3:
                return [rng.getrandbits(8) for _ in range(n)]
            if m < 0.5:
                return [rng.choice([0xff, 0x00, 0x2f, 0x3a, 0x30, 0x39]) for _ in range(n)]
            if m < 0.7:
                return [0xff] * n
            if m < 0.85:
                b = [ord(c) for c in rand_digits(rng, n, False)]
                for _ in range(rng.randint(0, 3)):
                    if b:
                        b[rng.randrange(len(b))] = rng.getrandbits(8)
                return b
            return [ord("0")] * rng.randint(0, 30) + [ord(c) for c in rand_digits(rng, n, False)] + [ord("0")] * rng.randint(0, 30)
        a, b = mk(), mk()
        if r < 0.7:
            e = rng.randint(-400, 400)
        else:
            e = rng.choice([I32MIN, I32MAX, 0, rng.randint(I32MIN, I32MAX)])
        out.append(("pf %s %s %s %d" % (f, btok(a), btok(b), e), "G-bytes"))
    return out

# ------------------------------------------------------------------ L*: big-integer operands (C12)
def rand_limb(rng, W=64):
    r = rng.random()
    if r < 0.15:
        return 0
    if r < 0.3:
        return 2 ** W - 1
    if r < 0.4:
        return 1
    if r < 0.5:
        return 2 ** (W - 1)
    if r < 0.55:
        return 2 ** W - 2
    return rng.getrandbits(W)

def rand_big(rng, n, normalized=True, W=64):
    x = [rand_limb(rng, W) for _ in range(n)]
    if normalized and x and x[-1] == 0:
        x[-1] = rng.getrandbits(W) | 1
    return x

def ltok(x):
    return ",".join(str(v) for v in x) if x else "-"

def gen_bigint_compare_grid(rng, W=64):
    """`compare` on equal-length operands that differ in exactly ONE limb, for every length 1..capacity and the positions
    an unrolled or chunked comparison treats specially (lowest limbs, middle, top): seed C10-f"""
    CAP = 4000 // W
    out = []
    for n in range(1, CAP + 1):
        x = rand_big(rng, n, W=W)
        for i in sorted(set([0, 1, 2, 3, 4, n // 2, n - 2, n - 1])):
            if not 0 <= i < n:
                continue
            y = list(x)
            y[i] = (y[i] + rng.choice([1, 2 ** W - 1])) % 2 ** W
            if y[-1] == 0:
                y[-1] = 1
            out.append(("bg compare %s %s" % (ltok(x), ltok(y)), "L-compare-grid"))
            out.append(("bg compare %s %s" % (ltok(y), ltok(x)), "L-compare-grid"))
    return out

def gen_bigint(rng, count, W=64):
    """W = limb width of the build under test (64: the modelled build; 32: the other one, thorough tier)"""
    CAP = 4000 // W
    out = []
    sizes = [0, 1, 2, 3, 5, 10, 30, CAP - 4, CAP - 3, CAP - 2, CAP - 1, CAP, CAP + 1, CAP + 2]
    for _ in range(count):
        op = rng.choice(["small_add", "small_add_from", "small_mul", "large_add", "large_add_from", "long_mul", "large_mul",
                         "pow", "bpow", "shl", "shl_bits", "shl_limbs", "compare", "hi64", "bit_length", "normalize",
                         "from_u64", "scalar_add", "scalar_mul", "leading_zeros", "is_normalized", "mulassign", "bhi64"])
        n = rng.choice(sizes) if rng.random() < 0.6 else rng.randint(0, CAP + 1)
        x = rand_big(rng, n, normalized=rng.random() < 0.85, W=W)
        if op == "small_add":
            if rng.random() < 0.4:
                x = [2 ** W - 1] * n
            line = "bg small_add %s %d" % (ltok(x), rand_limb(rng, W))
        elif op == "small_add_from":
            if rng.random() < 0.4:
                k = rng.randint(0, n)
                x = rand_big(rng, k, W=W) + [2 ** W - 1] * (n - k)
            line = "bg small_add_from %s %d %d" % (ltok(x), rand_limb(rng, W), rng.randint(0, n))
        elif op == "small_mul":
            line = "bg small_mul %s %d" % (ltok(x), rand_limb(rng, W))
        elif op in ("large_add", "large_add_from"):
            m = rng.choice(sizes[:-2]) if rng.random() < 0.5 else rng.randint(0, CAP)
            y = rand_big(rng, m, W=W)
            if rng.random() < 0.3:
                x = [2 ** W - 1] * n
                y = [2 ** W - 1] * m
            if op == "large_add":
                line = "bg large_add %s %s" % (ltok(x), ltok(y))
            else:
                st = rng.randint(0, max(0, n + 1))
                line = "bg large_add_from %s %s %d" % (ltok(x), ltok(y), st)
        elif op in ("long_mul", "large_mul", "mulassign"):
            n = rng.randint(1, CAP)
            m = rng.choice([1, 2, 3, 5, CAP - n, CAP + 1 - n, CAP + 2 - n, rng.randint(1, 40 * 64 // W)])
            m = max(1, m)
            x = rand_big(rng, n, W=W)
            y = rand_big(rng, m, W=W)
            if rng.random() < 0.2:
                x = [2 ** W - 1] * n
                y = [2 ** W - 1] * m
            if rng.random() < 0.2 and m > 2:
                for i in rng.sample(range(m - 1), min(3, m - 1)):
                    y[i] = 0
            line = "bg %s %s %s" % (op, ltok(x), ltok(y))
        elif op == "pow":
            e = rng.choice(list(range(0, 31)) + [134, 135, 136, 270, 405, 1111, 26, 27, 28, 54, 12, 13, 14, 39])
            n = rng.choice([1, 1, 1, 2, 5, 20, 40, 50, CAP - 1])
            x = rand_big(rng, n, W=W)
            line = "bg pow %s %d" % (ltok(x), e)
        elif op == "bpow":
            base = rng.choice([2, 5, 10])
            e = rng.choice(list(range(0, 31)) + [63, 64, 65, 127, 128, 135, 300, 350, 1074, 1100])
            n = rng.choice([1, 1, 2, 5, 20, 40])
            x = rand_big(rng, n, W=W)
            line = "bg bpow %s %d %d" % (ltok(x), base, e)
        elif op == "shl":
            s = rng.choice(list(range(1, 64)) + [64, 65, 127, 128, 129, 3967, 3968, 3969, 3999, 4000, 4001, W * (CAP - n), W * (CAP - n) + 1, W * (CAP + 1 - n)] )
            s = max(0, s)
            line = "bg shl %s %d" % (ltok(x), s)
        elif op == "shl_bits":
            if rng.random() < 0.3 and n > 0:
                x[-1] = x[-1] | (1 << (W - 1))
            line = "bg shl_bits %s %d" % (ltok(x), rng.randint(1, W - 1))
        elif op == "shl_limbs":
            s = rng.choice([1, 2, CAP - 1 - n, CAP - n, CAP + 1 - n, rng.randint(1, CAP + 1)])
            s = max(1, s)
            line = "bg shl_limbs %s %d" % (ltok(x), s)
        elif op == "compare":
            y = list(x)
            r = rng.random()
            if r < 0.3 and y:
                i = rng.randrange(len(y))
                y[i] = (y[i] + rng.choice([1, 2 ** W - 1])) % 2 ** W
                if y[-1] == 0:
                    y[-1] = 1
            elif r < 0.5:
                y = rand_big(rng, rng.choice([n, max(0, n - 1), n + 1]), W=W)
            line = "bg compare %s %s" % (ltok(x), ltok(y))
        elif op in ("hi64", "bhi64"):
            # normalised input only (the documented precondition of top-bit extraction)
            if x and x[-1] == 0:
                x[-1] = 1
            if x and rng.random() < 0.5:
                x[-1] = rng.getrandbits(rng.randint(1, W)) | 1
            if len(x) > 2 and rng.random() < 0.5:
                for i in range(len(x) - 2):
                    x[i] = 0
                if rng.random() < 0.5:
                    x[rng.randrange(len(x) - 2)] = 1
            if len(x) >= 2 and rng.random() < 0.3:
                x[-2] = rng.choice([0, 1, 2 ** (W - 1), 2 ** W - 1])
            line = "bg %s %s" % (op, ltok(x))
        elif op in ("bit_length", "leading_zeros", "is_normalized", "normalize"):
            if op == "normalize" and rng.random() < 0.5:
                x = x + [0] * rng.randint(0, min(5, CAP - len(x)) if len(x) <= CAP else 0)
            line = "bg %s %s" % (op, ltok(x))
        elif op == "from_u64":
            line = "bg from_u64 %d" % rand_limb(rng, 64)
        elif op == "scalar_add":
            line = "bg scalar_add %d %d" % (rand_limb(rng, W), rand_limb(rng, W))
        else:
            line = "bg scalar_mul %d %d %d" % (rand_limb(rng, W), rand_limb(rng, W), rand_limb(rng, W))
        out.append((line, "L-" + op))
    # the word-level top-bit helpers (the 32-bit-limb ones are compiled on every target)
    def word(bits):
        r = rng.random()
        if r < 0.25:
            return rng.choice([1, 2 ** (bits - 1), 2 ** bits - 1, 2 ** bits - 2, 3])
        return rng.getrandbits(rng.randint(1, bits)) | 1
    for _ in range(max(10, count // 40)):
        k = rng.choice([1, 2, 3, 4, 5])
        low = lambda bits: rng.choice([0, 0, 1, 2 ** (bits - 1), 2 ** bits - 1, rng.getrandbits(bits)])
        if k == 1:
            line = "bg u64_to_hi64_1 %d" % word(64)
        elif k == 2:
            line = "bg u64_to_hi64_2 %d %d" % (word(64), low(64))
        elif k == 3:
            line = "bg u32_to_hi64_1 %d" % word(32)
        elif k == 4:
            line = "bg u32_to_hi64_2 %d %d" % (word(32), low(32))
        else:
            line = "bg u32_to_hi64_3 %d %d %d" % (word(32), low(32), low(32))
        out.append((line, "L-" + line.split()[1]))
    return out

def gen_bigint_huge(rng, count, W=64):
    """shift counts far beyond the capacity (fixed-capacity back-end only): must report failure"""
    out = []
    H = huge_lengths(rng)
    CAP = 4000 // W
    for _ in range(count):
        x = rand_big(rng, rng.choice([1, 2, 5, 30, CAP - 1, CAP]), W=W)
        h = rng.choice(H)
        op = rng.choice(["shl_limbs", "shl", "shl"])
        if op == "shl" and h >= 2 ** 57:
            h = rng.choice([x for x in H if x < 2 ** 57])
        n = h if op == "shl_limbs" else h * W + rng.choice([0, 1, W - 1])
        out.append(("bg %s %s %d" % (op, ltok(x), n), "L-huge-" + op))
    return out

# ------------------------------------------------------------------ H*: vector histories (C13)
def gen_histories(rng, count):
    out = []
    for _ in range(count):
        n = rng.choice([5, 20, 60, 150, 400])
        ops = []
        # start near the capacity half of the time
        if rng.random() < 0.6:
            k = rng.choice([58, 59, 60, 61, 62])
            ops.append("from:" + ltok(rand_big(rng, k, False)))
        length_est = 0
        for _ in range(n):
            r = rng.random()
            if r < 0.2:
                ops.append("push:%d" % rand_limb(rng))
            elif r < 0.3:
                ops.append("pop")
            elif r < 0.4:
                ops.append("ext:" + ltok(rand_big(rng, rng.choice([0, 1, 2, 3, 10, 61, 62, 63]), False)))
            elif r < 0.5:
                ops.append("rsz:%d:%d" % (rng.choice([0, 1, 30, 58, 60, 61, 62, 63, 64, 100]), rand_limb(rng)))
            elif r < 0.55:
                ops.append("norm")
            elif r < 0.62:
                ops.append("adds:%d" % rand_limb(rng))
            elif r < 0.69:
                ops.append("muls:%d" % rand_limb(rng))
            elif r < 0.72:
                ops.append("fromu64:%d" % rand_limb(rng))
            elif r < 0.77:
                ops.append("clone")
            elif r < 0.80:
                ops.append("swap")
            elif r < 0.85:
                ops.append("eq")
            elif r < 0.90:
                ops.append(rng.choice(["cmp", "cmp", "pcmp"]))
            elif r < 0.93:
                # top-bit extraction documents a normalised operand (debug builds trap on a zero top limb)
                ops.append("norm")
                ops.append("hi64")
            elif r < 0.95:
                ops.append("len")
            elif r < 0.96:
                ops.append("new")
            elif r < 0.97:
                ops.append("from:" + ltok(rand_big(rng, rng.choice([0, 1, 5, 62, 63]), False)))
            elif r < 0.98:
                ops.append("capok")
            else:
                ops.append("isnorm")
        out.append(("vh " + ";".join(ops), "H-history"))
    return out

def huge_lengths(rng):
    """lengths far beyond any capacity, in particular those that alias a small number when narrowed to
    8 / 16 / 32 bits (a length check done in a narrower type accepts them)"""
    out = []
    for base in (1 << 8, 1 << 16, 1 << 31, 1 << 32, 3 << 32, 1 << 48):
        for k in (0, 1, 2, 5, 30, 61, 62, 63):
            out.append(base + k)
    for j in (2, 3, 255, 65535):
        out.append((j << 16) + rng.randint(0, 62))
    # sums with a small length that wrap a 64-bit usize
    out += [2 ** 64 - 1, 2 ** 64 - 2, 2 ** 64 - 3, 2 ** 64 - 62, 2 ** 64 - 63, 2 ** 63, 2 ** 63 + 1]
    return out

def gen_histories_huge(rng, count):
    """histories whose resize / extend targets are astronomically large: they must fail and leave the vector
    as it was (fixed-capacity back-end only - the heap back-end would really allocate)"""
    out = []
    H = huge_lengths(rng)
    for _ in range(count):
        ops = ["from:" + ltok(rand_big(rng, rng.choice([0, 1, 5, 30, 61, 62]), False))]
        for _ in range(rng.choice([3, 6, 12])):
            r = rng.random()
            if r < 0.5:
                ops.append("rsz:%d:%d" % (rng.choice(H), rand_limb(rng)))
            elif r < 0.65:
                ops.append("rsz:%d:%d" % (rng.choice([0, 3, 62, 63]), rand_limb(rng)))
            elif r < 0.8:
                ops.append("push:%d" % rand_limb(rng))
            elif r < 0.9:
                ops.append("len")
            else:
                ops.append("clone"); ops.append("eq")
        out.append(("vh " + ";".join(ops), "H-huge-resize"))
    return out

# ------------------------------------------------------------------ rounding primitive (C18)
def gen_round(rng, f, quick=True):
    out = []
    F = FMT[f]
    mb = F["mbits"]
    bias = 2 ** (F["ebits"] - 1) - 1 + mb
    hi = 2100 if f == "f64" else 320
    exps = list(range(-64, 80)) + list(range(2 ** F["ebits"] - 40, 2 ** F["ebits"] + 40)) + [hi - 1, hi]
    if not quick:
        exps = list(range(-64, hi + 1))
    else:
        exps += [rng.randint(80, hi) for _ in range(60)]
    for e in exps:
        # truncation point for this exponent
        ms = 64 - mb - 1
        shift = ms if -e < ms else min(-e + 1, 64)
        pats = [1 << 63, (1 << 63) + 1, (1 << 64) - 1]
        if shift >= 1:
            half = 1 << (shift - 1)
            for top in ((1 << 63), (1 << 63) | (1 << shift) if shift < 63 else (1 << 63), ((1 << 64) - 1) & ~((1 << shift) - 1) if shift < 64 else (1 << 63)):
                top &= (1 << 64) - 1
                top |= 1 << 63
                base = (top >> shift << shift) if shift < 64 else 0
                lows = [half, half - 1 if half > 0 else 0, half + 1, 0, (1 << shift) - 1 if shift <= 64 else 0,
                        half | (half >> 1), half >> 1, half | (half >> 2), (half >> 1) | 1, half | (half >> 1) | 1]
                for low in lows:
                    v = (base | (low & ((1 << min(shift, 64)) - 1))) | (1 << 63)
                    pats.append(v & ((1 << 64) - 1))
        pats.append(rng.getrandbits(64) | (1 << 63))
        for m in set(pats):
            for var in ("ne", "dn"):
                if var == "ne" and e < -63:
                    continue
                out.append(("rd %s %s %d %d" % (f, var, m, e), "C18-" + var))
            if rng.random() < 0.15:
                for var in ("gt", "lt", "eq", "tr"):
                    out.append(("rd %s %s %d %d" % (f, var, m, e), "C18-cb"))
    return out

def gen_masks():
    return [("mask %d" % n, "C18-mask") for n in range(0, 65)]

# ------------------------------------------------------------------ float helpers (C17)
def gen_float_helpers(rng, f, count):
    out = []
    F = FMT[f]
    w = F["w"]
    for bits in float_strata(rng, f, 4):
        for sign in (0, 1):
            out.append(("fl %s %d" % (f, bits | (sign << (w - 1))), "C17-strata"))
    # inf / nan patterns too (helpers are total)
    for _ in range(count):
        out.append(("fl %s %d" % (f, rng.getrandbits(w)), "C17-random"))
    # packing: e2f with fields
    for _ in range(count // 4):
        fr = rng.getrandbits(F["mbits"])
        E = rng.randint(0, 2 ** F["ebits"] - 1)
        out.append(("e2f %s %d %d" % (f, fr, E), "C17-pack"))
    out.append(("e2f %s %d %d" % (f, 1 << F["mbits"], 1), "C17-pack-hidden"))
    # range hashes
    for _ in range(8):
        stride = rng.choice([1, 4099, (1 << F["mbits"]) + 1])
        count = min(20000, (2 ** w - 1) // stride - 1)
        start = rng.randrange(0, 2 ** w - count * stride)
        out.append(("flh %s %d %d %d" % (f, start, count, stride), "C17-hash"))
    return out

# ------------------------------------------------------------------ F*: front-end strings (C19)
def frontend_from_pf(rng, pf_cases, variants=("simple", "fuzz", "itest", "golang", "random", "unittests")):
    """the structured parser inputs (rounding boundaries, digit cuts, big-integer ties) written as TEXT and
    sent through the shipped string front-ends: sign, leading zeros, '.', exponent marker, trailing junk"""
    out = []
    for line, fam in pf_cases:
        t = line.split(" ## ")[0].split()
        a, b = untok(t[2]), untok(t[3])
        if t[0] != "pf" or a is None or b is None or not (a + b).isdigit():
            continue
        e = int(t[4])
        if not (a or b):
            continue
        s = rng.choice(["", "", "+", "-"]) + "0" * rng.choice([0, 0, 0, 1, 3]) + a
        if b or rng.random() < 0.2:
            s += "." + b
        if e != 0 or rng.random() < 0.3:
            s += rng.choice("eE") + (rng.choice(["", "+"]) if e >= 0 else "") + str(e)
        s += rng.choice(["", "", "", " ", "x", "e", "."]) if (e != 0 or "e" not in s.lower()) else ""
        bs = s.encode("latin-1")
        v = rng.choice(variants)
        out.append(("fe %s %s %s" % (v, t[1], btok(bs)), "F-text-" + fam))
    return out

def gen_frontend(rng, count):
    out = []
    specials = ["nan", "NaN", "NAN", "nAn", "inf", "INF", "Inf", "infinity", "INFINITY", "InFiNiTy", "infinit", "infinitx", "in", "na", "n", "i",
                "nanx", "infx", "infinityx", "nan1", "inf.5", "+nan", "-nan", "+inf", "-inf", "-infinity", "N\x41N", "n\x01n", "\x4e\x61\x6e", "nbn", "ing", "Ynf"]
    suffixes = ["", "", "", " x", "e", "e+", ".", "..", "x", "\x00", "\x00\x00006", "\xff", "E5", "e5", "-", "+", "f", "_1", " narnia", "\x80", "1e"]
    def digits(n, lead0=False, trail0=False):
        s = rand_digits(rng, n, False)
        if lead0:
            s = "0" * rng.randint(1, 25) + s
        if trail0:
            s = s + "0" * rng.randint(1, 25)
        return s
    for _ in range(count):
        r = rng.random()
        if r < 0.08:
            s = rng.choice(["", "+", "-"]) + rng.choice(specials) + rng.choice(suffixes)
        elif r < 0.12:
            s = "".join(chr(rng.getrandbits(8)) for _ in range(rng.randint(0, 12)))
        else:
            s = rng.choice(["", "", "+", "-"])
            ni = rng.choice([0, 1, 2, 5, 17, 19, 20, 21, 40]) if rng.random() < 0.8 else rng.randint(0, 800)
            s += digits(ni, rng.random() < 0.3, rng.random() < 0.2)
            if rng.random() < 0.7:
                s += "."
                nf = rng.choice([0, 1, 2, 5, 17, 19, 20, 21, 40]) if rng.random() < 0.8 else rng.randint(0, 800)
                s += digits(nf, rng.random() < 0.3, rng.random() < 0.4)
            if rng.random() < 0.6:
                s += rng.choice("eE")
                s += rng.choice(["", "", "+", "-"])
                k = rng.random()
                if k < 0.5:
                    # small exponents, often zero-padded (a field of 11+ characters whose value is small: seed C19-e)
                    if rng.random() < 0.35:
                        s += "0" * rng.choice([1, 2, 7, 8, 9, 10, 11, 12, 20, 30])
                    s += str(rng.randint(0, 400))
                elif k < 0.6:
                    s += ""
                elif k < 0.8:
                    s += str(rng.choice([2 ** 31 - 2, 2 ** 31 - 1, 2 ** 31, 2 ** 31 + 1, 2 ** 32, 10 ** 10, 214748364, 2147483650, 2147483639, 21474836470]))
                else:
                    s += "0" * rng.randint(0, 5) + rand_digits(rng, rng.randint(1, 40), False)
            s += rng.choice(suffixes)
        bs = s.encode("latin-1")
        fmt = rng.choice(["f32", "f64"])
        for variant in ("simple", "fuzz", "itest", "golang", "random", "unittests"):
            out.append(("fe %s %s %s" % (variant, fmt, btok(bs)), "F-" + variant))
    return out
