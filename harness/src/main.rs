// Verification harness: calls the real minimal-lexical functions in-process.
// Modes:  hx dump            -> prints every table / constant of the compiled crate
//         hx run [--flush]   -> reads case lines on stdin, prints one outcome line per case
#![allow(clippy::all)]
#![allow(dead_code, unused_imports, unused_macros)]

use minimal_lexical::bigint::{self, Bigint, Limb, VecType};
use minimal_lexical::extended_float::{extended_to_float, ExtendedFloat};
use minimal_lexical::number::Number;
use minimal_lexical::Float;
use std::alloc::{GlobalAlloc, Layout, System};
use std::io::{self, BufRead, Write};
use std::panic::{self, AssertUnwindSafe};
use std::sync::atomic::{AtomicU64, Ordering};

mod fe_simple {
    include!(concat!(env!("OUT_DIR"), "/fe_simple.rs"));
}
mod fe_fuzz {
    include!(concat!(env!("OUT_DIR"), "/fe_fuzz.rs"));
}
mod fe_itest {
    include!(concat!(env!("OUT_DIR"), "/fe_itest.rs"));
}
mod fe_golang {
    include!(concat!(env!("OUT_DIR"), "/fe_golang.rs"));
}
mod fe_random {
    include!(concat!(env!("OUT_DIR"), "/fe_random.rs"));
}
mod fe_unittests {
    include!(concat!(env!("OUT_DIR"), "/fe_unittests.rs"));
}

// ---------------------------------------------------------------- allocator
struct Counting;
static ALLOCS: AtomicU64 = AtomicU64::new(0);
thread_local! { static TL_ALLOCS: std::cell::Cell<u64> = std::cell::Cell::new(0); }
unsafe impl GlobalAlloc for Counting {
    unsafe fn alloc(&self, l: Layout) -> *mut u8 {
        ALLOCS.fetch_add(1, Ordering::Relaxed);
        let _ = TL_ALLOCS.try_with(|c| c.set(c.get() + 1));
        System.alloc(l)
    }
    unsafe fn dealloc(&self, p: *mut u8, l: Layout) {
        System.dealloc(p, l)
    }
    unsafe fn realloc(&self, p: *mut u8, l: Layout, n: usize) -> *mut u8 {
        ALLOCS.fetch_add(1, Ordering::Relaxed);
        let _ = TL_ALLOCS.try_with(|c| c.set(c.get() + 1));
        System.realloc(p, l, n)
    }
    unsafe fn alloc_zeroed(&self, l: Layout) -> *mut u8 {
        ALLOCS.fetch_add(1, Ordering::Relaxed);
        let _ = TL_ALLOCS.try_with(|c| c.set(c.get() + 1));
        System.alloc_zeroed(l)
    }
}
#[global_allocator]
static GLOBAL: Counting = Counting;
fn tl_allocs() -> u64 {
    TL_ALLOCS.with(|c| c.get())
}

// ---------------------------------------------------------------- helpers
fn cfg_name() -> String {
    let mut v = vec![];
    if cfg!(feature = "std") {
        v.push("std");
    }
    if cfg!(feature = "compact") {
        v.push("compact");
    }
    if cfg!(feature = "alloc") {
        v.push("alloc");
    }
    if v.is_empty() {
        "none".to_string()
    } else {
        v.join("+")
    }
}

fn hexval(c: u8) -> u8 {
    match c {
        b'0'..=b'9' => c - b'0',
        b'a'..=b'f' => c - b'a' + 10,
        b'A'..=b'F' => c - b'A' + 10,
        _ => panic!("bad hex"),
    }
}

/// `-` empty; segments joined by `+`: d<ascii digits>, h<hex>, r<count>:<hexbyte>
fn decode_bytes(tok: &str) -> Vec<u8> {
    let mut out = Vec::new();
    if tok == "-" {
        return out;
    }
    for seg in tok.split('+') {
        let b = seg.as_bytes();
        match b[0] {
            b'd' => out.extend_from_slice(&b[1..]),
            b'h' => {
                let h = &b[1..];
                assert!(h.len() % 2 == 0);
                for i in 0..h.len() / 2 {
                    out.push(hexval(h[2 * i]) * 16 + hexval(h[2 * i + 1]));
                }
            },
            b'r' => {
                let s = &seg[1..];
                let mut it = s.split(':');
                let n: usize = it.next().unwrap().parse().unwrap();
                let hb = it.next().unwrap().as_bytes();
                let v = hexval(hb[0]) * 16 + hexval(hb[1]);
                out.extend(std::iter::repeat(v).take(n));
            },
            _ => panic!("bad segment"),
        }
    }
    out
}

fn parse_u64(s: &str) -> u64 {
    if let Some(h) = s.strip_prefix("0x") {
        u64::from_str_radix(h, 16).unwrap()
    } else {
        s.parse().unwrap()
    }
}
fn parse_i32(s: &str) -> i32 {
    s.parse().unwrap()
}
fn parse_limbs(s: &str) -> Vec<Limb> {
    if s == "-" {
        return vec![];
    }
    s.split(',').map(|x| parse_u64(x) as Limb).collect()
}
fn fmt_limbs(x: &[Limb]) -> String {
    if x.is_empty() {
        "-".to_string()
    } else {
        x.iter().map(|v| format!("{}", v)).collect::<Vec<_>>().join(",")
    }
}
fn ord_str(o: std::cmp::Ordering) -> &'static str {
    match o {
        std::cmp::Ordering::Less => "lt",
        std::cmp::Ordering::Equal => "eq",
        std::cmp::Ordering::Greater => "gt",
    }
}

macro_rules! with_float {
    ($fmt:expr, $f:ident, $body:block) => {
        match $fmt {
            "f32" => {
                type $f = f32;
                $body
            },
            "f64" => {
                type $f = f64;
                $body
            },
            _ => panic!("bad fmt"),
        }
    };
}

fn fp_str(fp: ExtendedFloat) -> String {
    format!("{} {}", fp.mant, fp.exp)
}

// ---------------------------------------------------------------- dump
fn dump_float<F: Float>(name: &str) {
    println!("{}.MAX_DIGITS = {}", name, F::MAX_DIGITS);
    println!("{}.SIGN_MASK = {}", name, F::SIGN_MASK);
    println!("{}.EXPONENT_MASK = {}", name, F::EXPONENT_MASK);
    println!("{}.HIDDEN_BIT_MASK = {}", name, F::HIDDEN_BIT_MASK);
    println!("{}.MANTISSA_MASK = {}", name, F::MANTISSA_MASK);
    println!("{}.MANTISSA_SIZE = {}", name, F::MANTISSA_SIZE);
    println!("{}.EXPONENT_BIAS = {}", name, F::EXPONENT_BIAS);
    println!("{}.DENORMAL_EXPONENT = {}", name, F::DENORMAL_EXPONENT);
    println!("{}.MAX_EXPONENT = {}", name, F::MAX_EXPONENT);
    println!("{}.CARRY_MASK = {}", name, F::CARRY_MASK);
    println!("{}.INVALID_FP = {}", name, F::INVALID_FP);
    println!("{}.MAX_MANTISSA_FAST_PATH = {}", name, F::MAX_MANTISSA_FAST_PATH);
    println!("{}.INFINITE_POWER = {}", name, F::INFINITE_POWER);
    println!("{}.MIN_EXPONENT_ROUND_TO_EVEN = {}", name, F::MIN_EXPONENT_ROUND_TO_EVEN);
    println!("{}.MAX_EXPONENT_ROUND_TO_EVEN = {}", name, F::MAX_EXPONENT_ROUND_TO_EVEN);
    println!("{}.MINIMUM_EXPONENT = {}", name, F::MINIMUM_EXPONENT);
    println!("{}.SMALLEST_POWER_OF_TEN = {}", name, F::SMALLEST_POWER_OF_TEN);
    println!("{}.LARGEST_POWER_OF_TEN = {}", name, F::LARGEST_POWER_OF_TEN);
    println!("{}.MIN_EXPONENT_FAST_PATH = {}", name, F::MIN_EXPONENT_FAST_PATH);
    println!("{}.MAX_EXPONENT_FAST_PATH = {}", name, F::MAX_EXPONENT_FAST_PATH);
    println!("{}.MAX_EXPONENT_DISGUISED_FAST_PATH = {}", name, F::MAX_EXPONENT_DISGUISED_FAST_PATH);
    // On-demand / tabled fast-path powers for the exponents the crate uses.
    let n = F::MAX_EXPONENT_FAST_PATH as usize;
    let v: Vec<String> =
        (0..=n).map(|k| format!("{}", unsafe { F::pow_fast_path(k) }.to_bits())).collect();
    println!("{}.POW_FAST_PATH = {}", name, v.join(" "));
}

fn dump() {
    println!("cfg = {}", cfg_name());
    println!("LIMB_BITS = {}", bigint::LIMB_BITS);
    println!("BIGINT_BITS = {}", bigint::BIGINT_BITS);
    println!("BIGINT_LIMBS = {}", bigint::BIGINT_LIMBS);
    println!("VEC_NEW_CAPACITY = {}", VecType::new().capacity());
    dump_float::<f32>("F32");
    dump_float::<f64>("F64");
    #[cfg(not(feature = "compact"))]
    {
        use minimal_lexical::table::*;
        println!("SMALLEST_POWER_OF_FIVE = {}", SMALLEST_POWER_OF_FIVE);
        println!("LARGEST_POWER_OF_FIVE = {}", LARGEST_POWER_OF_FIVE);
        println!("N_POWERS_OF_FIVE = {}", N_POWERS_OF_FIVE);
        let v: Vec<String> =
            POWER_OF_FIVE_128.iter().map(|(a, b)| format!("{}:{}", a, b)).collect();
        println!("POWER_OF_FIVE_128 = {}", v.join(" "));
        let v: Vec<String> = SMALL_INT_POW5.iter().map(|a| format!("{}", a)).collect();
        println!("SMALL_INT_POW5 = {}", v.join(" "));
        let v: Vec<String> = SMALL_INT_POW10.iter().map(|a| format!("{}", a)).collect();
        println!("SMALL_INT_POW10 = {}", v.join(" "));
        let v: Vec<String> = SMALL_F32_POW10.iter().map(|a| format!("{}", a.to_bits())).collect();
        println!("SMALL_F32_POW10 = {}", v.join(" "));
        let v: Vec<String> = SMALL_F64_POW10.iter().map(|a| format!("{}", a.to_bits())).collect();
        println!("SMALL_F64_POW10 = {}", v.join(" "));
        let v: Vec<String> = LARGE_POW5.iter().map(|a| format!("{}", a)).collect();
        println!("LARGE_POW5 = {}", v.join(" "));
        println!("LARGE_POW5_STEP = {}", LARGE_POW5_STEP);
    }
    #[cfg(feature = "compact")]
    {
        use minimal_lexical::table::*;
        let p = &BASE10_POWERS;
        let v: Vec<String> = p.small.iter().map(|a| format!("{}", a)).collect();
        println!("BEL_SMALL = {}", v.join(" "));
        let v: Vec<String> = p.large.iter().map(|a| format!("{}", a)).collect();
        println!("BEL_LARGE = {}", v.join(" "));
        let v: Vec<String> = p.small_int.iter().map(|a| format!("{}", a)).collect();
        println!("BEL_SMALL_INT = {}", v.join(" "));
        println!("BEL_STEP = {}", p.step);
        println!("BEL_BIAS = {}", p.bias);
        println!("BEL_LOG2 = {}", p.log2);
        println!("BEL_LOG2_SHIFT = {}", p.log2_shift);
        let v: Vec<String> =
            (0..p.small.len()).map(|i| format!("{}", p.get_small(i).exp)).collect();
        println!("BEL_SMALL_EXP = {}", v.join(" "));
        let v: Vec<String> =
            (0..p.large.len()).map(|i| format!("{}", p.get_large(i).exp)).collect();
        println!("BEL_LARGE_EXP = {}", v.join(" "));
    }
}

// ---------------------------------------------------------------- iterator shapes (C16)
#[derive(Clone)]
struct LyingIter<'a> {
    s: &'a [u8],
    i: usize,
}
impl<'a> Iterator for LyingIter<'a> {
    type Item = &'a u8;
    fn next(&mut self) -> Option<&'a u8> {
        let r = self.s.get(self.i);
        if r.is_some() {
            self.i += 1;
        }
        r
    }
    fn size_hint(&self) -> (usize, Option<usize>) {
        (0, Some(3))
    }
}

/// A legal but NOT fused iterator: yields `a`, then `None` once, then `b`, then `None` for ever.
/// Used only to confirm on the real code what the iterator-level model (lean/MinLex/Model/Iter.lean) predicts
/// for iterators outside C16's "well-behaved" class (the parser calls `next()` again after a `None`).
#[derive(Clone)]
struct ResumingIter<'a> {
    a: &'a [u8],
    b: &'a [u8],
    pos: usize,
}
impl<'a> Iterator for ResumingIter<'a> {
    type Item = &'a u8;
    fn next(&mut self) -> Option<&'a u8> {
        if self.pos < self.a.len() {
            self.pos += 1;
            self.a.get(self.pos - 1)
        } else if self.pos == self.a.len() {
            self.pos += 1;
            None
        } else {
            let i = self.pos - self.a.len() - 1;
            if i < self.b.len() {
                self.pos += 1;
                self.b.get(i)
            } else {
                None
            }
        }
    }
}

#[inline(never)]
fn poison_stack(depth: u32, pat: u8) -> u64 {
    let mut buf = [pat; 2048];
    // prevent the optimiser from dropping the writes
    let p = buf.as_mut_ptr();
    let mut acc = 0u64;
    for i in 0..2048 {
        unsafe {
            core::ptr::write_volatile(p.add(i), pat ^ (i as u8 & 1));
            acc = acc.wrapping_add(core::ptr::read_volatile(p.add(i)) as u64);
        }
    }
    if depth > 0 {
        acc = acc.wrapping_add(poison_stack(depth - 1, pat));
    }
    acc
}

fn shapes<F: Float>(int: &[u8], frac: &[u8], e: i32) -> Vec<u64> {
    let mut out = vec![];
    // 0: plain slice iterators
    out.push(minimal_lexical::parse_float::<F, _, _>(int.iter(), frac.iter(), e).to_bits());
    // 1: chain split in the middle
    let (i1, i2) = int.split_at(int.len() / 2);
    let (f1, f2) = frac.split_at(frac.len() / 3);
    out.push(
        minimal_lexical::parse_float::<F, _, _>(i1.iter().chain(i2.iter()), f1.iter().chain(f2.iter()), e)
            .to_bits(),
    );
    // 2: chain split at 19 (or len)
    let (i1, i2) = int.split_at(int.len().min(19));
    let (f1, f2) = frac.split_at(frac.len().min(1));
    out.push(
        minimal_lexical::parse_float::<F, _, _>(i1.iter().chain(i2.iter()), f1.iter().chain(f2.iter()), e)
            .to_bits(),
    );
    // 3: filter over padded buffers
    let mut pi = Vec::with_capacity(int.len() * 2 + 1);
    for &c in int {
        pi.push(b'_');
        pi.push(c);
    }
    pi.push(b'_');
    let mut pf = Vec::with_capacity(frac.len() * 2 + 1);
    for &c in frac {
        pf.push(c);
        pf.push(b'_');
    }
    out.push(
        minimal_lexical::parse_float::<F, _, _>(
            pi.iter().filter(|&&c| c != b'_'),
            pf.iter().filter(|&&c| c != b'_'),
            e,
        )
        .to_bits(),
    );
    // 4: VecDeque with wrap-around
    let mut dq: std::collections::VecDeque<u8> = std::collections::VecDeque::with_capacity(int.len() + 8);
    for _ in 0..5 {
        dq.push_back(0);
    }
    for _ in 0..5 {
        dq.pop_front();
    }
    for &c in int {
        dq.push_back(c);
    }
    let dqf: std::collections::VecDeque<u8> = frac.iter().cloned().collect();
    out.push(minimal_lexical::parse_float::<F, _, _>(dq.iter(), dqf.iter(), e).to_bits());
    // 5: hand-written iterator with a lying size_hint
    out.push(
        minimal_lexical::parse_float::<F, _, _>(
            LyingIter {
                s: int,
                i: 0,
            },
            LyingIter {
                s: frac,
                i: 0,
            },
            e,
        )
        .to_bits(),
    );
    // 6,7: after stack poisoning with two patterns
    let a = poison_stack(6, 0xAA);
    out.push(minimal_lexical::parse_float::<F, _, _>(int.iter(), frac.iter(), e).to_bits());
    let b = poison_stack(6, 0x55);
    out.push(minimal_lexical::parse_float::<F, _, _>(int.iter(), frac.iter(), e).to_bits());
    std::hint::black_box((a, b));
    // 8: after a maximal slow-path parse
    let big: Vec<u8> = std::iter::repeat(b'9').take(780).collect();
    let _ = minimal_lexical::parse_float::<f64, _, _>(big.iter(), big.iter(), -300);
    out.push(minimal_lexical::parse_float::<F, _, _>(int.iter(), frac.iter(), e).to_bits());
    // 9: copies at different addresses / alignment
    let mut shifted = vec![b'7'; 3];
    shifted.extend_from_slice(int);
    let fr2 = frac.to_vec();
    out.push(minimal_lexical::parse_float::<F, _, _>(shifted[3..].iter(), fr2.iter(), e).to_bits());
    // 10: 8 threads concurrently on the shared slices
    let res: Vec<u64> = std::thread::scope(|s| {
        let hs: Vec<_> = (0..8)
            .map(|_| {
                s.spawn(|| {
                    let mut last = 0;
                    for _ in 0..4 {
                        last = minimal_lexical::parse_float::<F, _, _>(int.iter(), frac.iter(), e).to_bits();
                    }
                    last
                })
            })
            .collect();
        hs.into_iter().map(|h| h.join().unwrap()).collect()
    });
    let first = res[0];
    if res.iter().all(|&r| r == first) {
        out.push(first);
    } else {
        out.push(!first);
    }
    out
}

// ---------------------------------------------------------------- bigint commands
fn mkvec(limbs: &[Limb]) -> Option<VecType> {
    VecType::try_from(limbs)
}

fn opt_vec(r: Option<()>, v: &VecType) -> String {
    match r {
        Some(()) => fmt_limbs(v),
        None => "none".to_string(),
    }
}

fn bigint_cmd(t: &[&str]) -> String {
    let op = t[0];
    macro_rules! vecarg {
        ($i:expr) => {
            match mkvec(&parse_limbs(t[$i])) {
                Some(v) => v,
                None => return "ctor-none".to_string(),
            }
        };
    }
    match op {
        "small_add" => {
            let mut x = vecarg!(1);
            let r = bigint::small_add(&mut x, parse_u64(t[2]) as Limb);
            opt_vec(r, &x)
        },
        "small_add_from" => {
            let mut x = vecarg!(1);
            let r = bigint::small_add_from(&mut x, parse_u64(t[2]) as Limb, parse_u64(t[3]) as usize);
            opt_vec(r, &x)
        },
        "small_mul" => {
            let mut x = vecarg!(1);
            let r = bigint::small_mul(&mut x, parse_u64(t[2]) as Limb);
            opt_vec(r, &x)
        },
        "large_add" => {
            let mut x = vecarg!(1);
            let y = parse_limbs(t[2]);
            let r = bigint::large_add(&mut x, &y);
            opt_vec(r, &x)
        },
        "large_add_from" => {
            let mut x = vecarg!(1);
            let y = parse_limbs(t[2]);
            let r = bigint::large_add_from(&mut x, &y, parse_u64(t[3]) as usize);
            opt_vec(r, &x)
        },
        "long_mul" => {
            let x = parse_limbs(t[1]);
            let y = parse_limbs(t[2]);
            match bigint::long_mul(&x, &y) {
                Some(z) => fmt_limbs(&z),
                None => "none".to_string(),
            }
        },
        "large_mul" => {
            let mut x = vecarg!(1);
            let y = parse_limbs(t[2]);
            let r = bigint::large_mul(&mut x, &y);
            opt_vec(r, &x)
        },
        "pow" => {
            let mut x = vecarg!(1);
            let r = bigint::pow(&mut x, parse_u64(t[2]) as u32);
            opt_vec(r, &x)
        },
        "bpow" => {
            let x = vecarg!(1);
            let mut b = Bigint {
                data: x,
            };
            let r = b.pow(parse_u64(t[2]) as u32, parse_u64(t[3]) as u32);
            opt_vec(r, &b.data)
        },
        "shl" => {
            let mut x = vecarg!(1);
            let r = bigint::shl(&mut x, parse_u64(t[2]) as usize);
            opt_vec(r, &x)
        },
        "shl_bits" => {
            let mut x = vecarg!(1);
            let r = bigint::shl_bits(&mut x, parse_u64(t[2]) as usize);
            opt_vec(r, &x)
        },
        "shl_limbs" => {
            let mut x = vecarg!(1);
            let r = bigint::shl_limbs(&mut x, parse_u64(t[2]) as usize);
            opt_vec(r, &x)
        },
        "compare" => {
            let x = parse_limbs(t[1]);
            let y = parse_limbs(t[2]);
            ord_str(bigint::compare(&x, &y)).to_string()
        },
        "hi64" => {
            let x = parse_limbs(t[1]);
            let (v, n) = bigint::hi64(&x);
            format!("{} {}", v, n as u8)
        },
        "bhi64" => {
            let x = vecarg!(1);
            let b = Bigint {
                data: x,
            };
            let (v, n) = b.hi64();
            format!("{} {} {}", v, n as u8, b.bit_length())
        },
        "bit_length" => {
            let x = parse_limbs(t[1]);
            format!("{}", bigint::bit_length(&x))
        },
        "leading_zeros" => {
            let x = parse_limbs(t[1]);
            format!("{}", bigint::leading_zeros(&x))
        },
        "normalize" => {
            let mut x = vecarg!(1);
            bigint::normalize(&mut x);
            fmt_limbs(&x)
        },
        "is_normalized" => {
            let x = parse_limbs(t[1]);
            format!("{}", bigint::is_normalized(&x) as u8)
        },
        "from_u64" => {
            let v = bigint::from_u64(parse_u64(t[1]));
            fmt_limbs(&v)
        },
        "bfrom_u64" => {
            let v = Bigint::from_u64(parse_u64(t[1]));
            fmt_limbs(&v.data)
        },
        "scalar_add" => {
            let (v, c) = bigint::scalar_add(parse_u64(t[1]) as Limb, parse_u64(t[2]) as Limb);
            format!("{} {}", v, c as u8)
        },
        "scalar_mul" => {
            let (lo, hi) =
                bigint::scalar_mul(parse_u64(t[1]) as Limb, parse_u64(t[2]) as Limb, parse_u64(t[3]) as Limb);
            format!("{} {}", lo, hi)
        },
        "nonzero" => {
            let x = parse_limbs(t[1]);
            format!("{}", bigint::nonzero(&x, parse_u64(t[2]) as usize) as u8)
        },
        "u64_to_hi64_1" => {
            let (v, n) = bigint::u64_to_hi64_1(parse_u64(t[1]));
            format!("{} {}", v, n as u8)
        },
        "u64_to_hi64_2" => {
            let (v, n) = bigint::u64_to_hi64_2(parse_u64(t[1]), parse_u64(t[2]));
            format!("{} {}", v, n as u8)
        },
        // the 32-bit-limb helpers are compiled on every target
        "u32_to_hi64_1" => {
            let (v, n) = bigint::u32_to_hi64_1(parse_u64(t[1]) as u32);
            format!("{} {}", v, n as u8)
        },
        "u32_to_hi64_2" => {
            let (v, n) = bigint::u32_to_hi64_2(parse_u64(t[1]) as u32, parse_u64(t[2]) as u32);
            format!("{} {}", v, n as u8)
        },
        "u32_to_hi64_3" => {
            let (v, n) = bigint::u32_to_hi64_3(parse_u64(t[1]) as u32, parse_u64(t[2]) as u32, parse_u64(t[3]) as u32);
            format!("{} {}", v, n as u8)
        },
        "mulassign" => {
            let x = vecarg!(1);
            let y = vecarg!(2);
            let mut a = Bigint {
                data: x,
            };
            let b = Bigint {
                data: y,
            };
            a *= &b;
            fmt_limbs(&a.data)
        },
        _ => panic!("unknown bigint op {}", op),
    }
}

// ---------------------------------------------------------------- vector histories (C13)
fn vec_history(spec: &str) -> String {
    let mut a = VecType::new();
    let mut b = VecType::new();
    let mut out: Vec<String> = vec![];
    for op in spec.split(';') {
        let p: Vec<&str> = op.split(':').collect();
        let res: String = match p[0] {
            "new" => {
                a = VecType::new();
                "ok".into()
            },
            "from" => match VecType::try_from(&parse_limbs(p[1])) {
                Some(v) => {
                    a = v;
                    "ok".into()
                },
                None => "none".into(),
            },
            "push" => match a.try_push(parse_u64(p[1]) as Limb) {
                Some(()) => "ok".into(),
                None => "none".into(),
            },
            "pop" => match a.pop() {
                Some(v) => format!("{}", v),
                None => "none".into(),
            },
            "ext" => match a.try_extend(&parse_limbs(p[1])) {
                Some(()) => "ok".into(),
                None => "none".into(),
            },
            "rsz" => match a.try_resize(parse_u64(p[1]) as usize, parse_u64(p[2]) as Limb) {
                Some(()) => "ok".into(),
                None => "none".into(),
            },
            "norm" => {
                a.normalize();
                "ok".into()
            },
            "adds" => match a.add_small(parse_u64(p[1]) as Limb) {
                Some(()) => "ok".into(),
                None => "none".into(),
            },
            "muls" => match a.mul_small(parse_u64(p[1]) as Limb) {
                Some(()) => "ok".into(),
                None => "none".into(),
            },
            "fromu64" => {
                a = VecType::from_u64(parse_u64(p[1]));
                "ok".into()
            },
            "clone" => {
                b = a.clone();
                "ok".into()
            },
            "swap" => {
                std::mem::swap(&mut a, &mut b);
                "ok".into()
            },
            "eq" => format!("{}", (a == b) as u8),
            "cmp" => ord_str(a.cmp(&b)).into(),
            "pcmp" => match a.partial_cmp(&b) {
                Some(o) => ord_str(o).into(),
                None => "none".into(),
            },
            "hi64" => {
                let (v, n) = a.hi64();
                format!("{}/{}", v, n as u8)
            },
            "len" => format!("{}", a.len()),
            "empty" => format!("{}", a.is_empty() as u8),
            "capok" => format!("{}", (a.len() <= a.capacity()) as u8),
            "isnorm" => format!("{}", a.is_normalized() as u8),
            _ => panic!("bad vec op {}", p[0]),
        };
        out.push(format!("{}={}", res, fmt_limbs(&a)));
    }
    out.join("|")
}

// ---------------------------------------------------------------- one case
fn run_case(line: &str) -> String {
    let t: Vec<&str> = line.split_whitespace().collect();
    if t.is_empty() {
        return "".into();
    }
    match t[0] {
        // pf <fmt> <int> <frac> <exp>
        "pf" => {
            let int = decode_bytes(t[2]);
            let frac = decode_bytes(t[3]);
            let e = parse_i32(t[4]);
            with_float!(t[1], F, {
                let v: F = minimal_lexical::parse_float(int.iter(), frac.iter(), e);
                format!("v {:x}", v.to_bits())
            })
        },
        // pfl <fmt> <int> <frac> <exp>  -> outcome + the log of unchecked table reads (verif hook)
        "pfl" => {
            let int = decode_bytes(t[2]);
            let frac = decode_bytes(t[3]);
            let e = parse_i32(t[4]);
            minimal_lexical::verif_log::reset();
            let r = with_float!(t[1], F, {
                panic::catch_unwind(AssertUnwindSafe(|| {
                    let v: F = minimal_lexical::parse_float(int.iter(), frac.iter(), e);
                    format!("v {:x}", v.to_bits())
                }))
                .unwrap_or_else(|_| "panic".to_string())
            });
            let n = minimal_lexical::verif_log::len().min(256);
            let log: Vec<String> = (0..n)
                .map(|k| {
                    let (s, i, b) = minimal_lexical::verif_log::get(k);
                    format!("{}:{}:{}", s, i, b)
                })
                .collect();
            format!("{} log {}", r, if log.is_empty() { "-".to_string() } else { log.join(",") })
        },
        // al <fmt> <int> <frac> <exp>  -> bits + allocation count on this thread
        "al" => {
            let int = decode_bytes(t[2]);
            let frac = decode_bytes(t[3]);
            let e = parse_i32(t[4]);
            with_float!(t[1], F, {
                let before = tl_allocs();
                let v: F = minimal_lexical::parse_float(int.iter(), frac.iter(), e);
                let after = tl_allocs();
                format!("v {:x} allocs {}", v.to_bits(), after - before)
            })
        },
        // it <fmt> <int> <frac> <exp>  -> bits through every iterator shape
        "it" => {
            let int = decode_bytes(t[2]);
            let frac = decode_bytes(t[3]);
            let e = parse_i32(t[4]);
            with_float!(t[1], F, {
                let v = shapes::<F>(&int, &frac, e);
                v.iter().map(|b| format!("{:x}", b)).collect::<Vec<_>>().join(" ")
            })
        },
        // nf <fmt> <int_a> <int_b> <frac_a> <frac_b> <exp>: both iterators non-fused (a, None, b, None, None, ...)
        "nf" => {
            let (ia, ib, fa, fb) = (decode_bytes(t[2]), decode_bytes(t[3]), decode_bytes(t[4]), decode_bytes(t[5]));
            let e = parse_i32(t[6]);
            with_float!(t[1], F, {
                let v = minimal_lexical::parse_float::<F, _, _>(
                    ResumingIter {
                        a: &ia,
                        b: &ib,
                        pos: 0,
                    },
                    ResumingIter {
                        a: &fa,
                        b: &fb,
                        pos: 0,
                    },
                    e,
                );
                format!("v {:x}", Float::to_bits(v))
            })
        },
        // sq <fmt> <int1> <frac1> <e1> <int2> <frac2> <e2> ... : the inputs parsed in order on THIS thread, then each
        // again on a fresh thread (no call history); prints both result lists
        "sq" => {
            let mut items: Vec<(Vec<u8>, Vec<u8>, i32)> = vec![];
            let mut k = 2;
            while k + 2 < t.len() {
                items.push((decode_bytes(t[k]), decode_bytes(t[k + 1]), parse_i32(t[k + 2])));
                k += 3;
            }
            with_float!(t[1], F, {
                let seq: Vec<String> = items
                    .iter()
                    .map(|(i, f, e)| format!("{:x}", minimal_lexical::parse_float::<F, _, _>(i.iter(), f.iter(), *e).to_bits()))
                    .collect();
                let fresh: Vec<String> = items
                    .iter()
                    .map(|(i, f, e)| {
                        let (i, f, e) = (i.clone(), f.clone(), *e);
                        std::thread::spawn(move || {
                            format!("{:x}", minimal_lexical::parse_float::<F, _, _>(i.iter(), f.iter(), e).to_bits())
                        })
                        .join()
                        .unwrap_or_else(|_| "panic".to_string())
                    })
                    .collect();
                format!("seq {} fresh {}", seq.join(","), fresh.join(","))
            })
        },
        // pn <int> <frac> <exp>
        "pn" => {
            let int = decode_bytes(t[1]);
            let frac = decode_bytes(t[2]);
            let e = parse_i32(t[3]);
            let n = minimal_lexical::parse::verif_parse_number(int.iter(), frac.iter(), e);
            format!("{} {} {}", n.mantissa, n.exponent, n.many_digits as u8)
        },
        // path <fmt> <int> <frac> <exp>  -> which internal path (coverage accounting only)
        "path" => {
            let int = decode_bytes(t[2]);
            let frac = decode_bytes(t[3]);
            let e = parse_i32(t[4]);
            with_float!(t[1], F, {
                let n = minimal_lexical::parse::verif_parse_number(int.iter(), frac.iter(), e);
                if n.try_fast_path::<F>().is_some() {
                    "fast".to_string()
                } else {
                    let fp = minimal_lexical::parse::moderate_path::<F>(&n);
                    if fp.exp >= 0 {
                        "moderate".to_string()
                    } else {
                        "slow".to_string()
                    }
                }
            })
        },
        // fp <fmt> <w> <q> <t>  try_fast_path
        "fp" => {
            let n = Number {
                mantissa: parse_u64(t[2]),
                exponent: parse_i32(t[3]),
                many_digits: t[4] == "1",
            };
            with_float!(t[1], F, {
                match n.try_fast_path::<F>() {
                    Some(v) => format!("some {:x} {}", v.to_bits(), n.is_fast_path::<F>() as u8),
                    None => format!("none {}", n.is_fast_path::<F>() as u8),
                }
            })
        },
        // mp <fmt> <w> <q> <t>  moderate_path
        "mp" => {
            let n = Number {
                mantissa: parse_u64(t[2]),
                exponent: parse_i32(t[3]),
                many_digits: t[4] == "1",
            };
            with_float!(t[1], F, { fp_str(minimal_lexical::parse::moderate_path::<F>(&n)) })
        },
        #[cfg(not(feature = "compact"))]
        "cf" => {
            let q = parse_i32(t[2]);
            let w = parse_u64(t[3]);
            with_float!(t[1], F, { fp_str(minimal_lexical::lemire::compute_float::<F>(q, w)) })
        },
        #[cfg(not(feature = "compact"))]
        "ce" => {
            let q = parse_i32(t[2]);
            let w = parse_u64(t[3]);
            with_float!(t[1], F, { fp_str(minimal_lexical::lemire::compute_error::<F>(q, w)) })
        },
        #[cfg(not(feature = "compact"))]
        "ces" => {
            let q = parse_i32(t[2]);
            let w = parse_u64(t[3]);
            let lz = parse_i32(t[4]);
            with_float!(t[1], F, { fp_str(minimal_lexical::lemire::compute_error_scaled::<F>(q, w, lz)) })
        },
        #[cfg(feature = "compact")]
        "belnorm" => {
            let mut fp = ExtendedFloat {
                mant: parse_u64(t[1]),
                exp: parse_i32(t[2]),
            };
            let s = minimal_lexical::bellerophon::normalize(&mut fp);
            format!("{} {} {}", fp.mant, fp.exp, s)
        },
        #[cfg(feature = "compact")]
        "belmul" => {
            let x = ExtendedFloat {
                mant: parse_u64(t[1]),
                exp: parse_i32(t[2]),
            };
            let y = ExtendedFloat {
                mant: parse_u64(t[3]),
                exp: parse_i32(t[4]),
            };
            fp_str(minimal_lexical::bellerophon::mul(&x, &y))
        },
        // rd <fmt> <ne|dn> <mant> <exp>
        "rd" => {
            let mut fp = ExtendedFloat {
                mant: parse_u64(t[3]),
                exp: parse_i32(t[4]),
            };
            with_float!(t[1], F, {
                match t[2] {
                    "ne" => minimal_lexical::rounding::round::<F, _>(&mut fp, |f, s| {
                        minimal_lexical::rounding::round_nearest_tie_even(f, s, |is_odd, is_halfway, is_above| {
                            is_above || (is_odd && is_halfway)
                        });
                    }),
                    "dn" => minimal_lexical::rounding::round::<F, _>(&mut fp, minimal_lexical::rounding::round_down),
                    // callback variants used by the slow path: decision from an external comparison
                    "gt" => minimal_lexical::rounding::round::<F, _>(&mut fp, |f, s| {
                        minimal_lexical::rounding::round_nearest_tie_even(f, s, |_, _, _| true);
                    }),
                    "lt" => minimal_lexical::rounding::round::<F, _>(&mut fp, |f, s| {
                        minimal_lexical::rounding::round_nearest_tie_even(f, s, |_, _, _| false);
                    }),
                    "eq" => minimal_lexical::rounding::round::<F, _>(&mut fp, |f, s| {
                        minimal_lexical::rounding::round_nearest_tie_even(f, s, |is_odd, _, _| is_odd);
                    }),
                    // positive_digit_comp variant with is_truncated = true
                    "tr" => minimal_lexical::rounding::round::<F, _>(&mut fp, |f, s| {
                        minimal_lexical::rounding::round_nearest_tie_even(f, s, |is_odd, is_halfway, is_above| {
                            is_above || is_halfway || (is_odd && is_halfway)
                        });
                    }),
                    _ => panic!("bad rd variant"),
                }
                let bits = extended_to_float::<F>(fp).to_bits();
                format!("{} {} {:x}", fp.mant, fp.exp, bits)
            })
        },
        // rnte <mant> <exp> <shift> ; rdn <mant> <exp> <shift>
        "rnte" => {
            let mut fp = ExtendedFloat {
                mant: parse_u64(t[1]),
                exp: parse_i32(t[2]),
            };
            minimal_lexical::rounding::round_nearest_tie_even(&mut fp, parse_i32(t[3]), |is_odd, is_halfway, is_above| {
                is_above || (is_odd && is_halfway)
            });
            fp_str(fp)
        },
        "rdn" => {
            let mut fp = ExtendedFloat {
                mant: parse_u64(t[1]),
                exp: parse_i32(t[2]),
            };
            minimal_lexical::rounding::round_down(&mut fp, parse_i32(t[3]));
            fp_str(fp)
        },
        // mask <n>
        "mask" => {
            let n = parse_u64(t[1]);
            let a = minimal_lexical::mask::lower_n_mask(n);
            let b = minimal_lexical::mask::lower_n_halfway(n);
            let c = if n < 64 {
                format!("{}", minimal_lexical::mask::nth_bit(n))
            } else {
                "na".to_string()
            };
            format!("{} {} {}", a, b, c)
        },
        // fl <fmt> <bits>
        "fl" => {
            let bits = parse_u64(t[2]);
            with_float!(t[1], F, {
                let f = <F as Float>::from_bits(bits);
                let b = minimal_lexical::slow::b(f);
                let bh = minimal_lexical::slow::bh(f);
                format!(
                    "{} {} {} {:x} {} {} {} {}",
                    f.is_denormal() as u8,
                    f.exponent(),
                    f.mantissa(),
                    Float::to_bits(f),
                    b.mant,
                    b.exp,
                    bh.mant,
                    bh.exp
                )
            })
        },
        // flh <fmt> <start> <count> <stride> : hash over a range of bit patterns
        "flh" => {
            let start = parse_u64(t[2]);
            let count = parse_u64(t[3]);
            let stride = parse_u64(t[4]);
            with_float!(t[1], F, {
                let mut h: u64 = 0xcbf29ce484222325;
                let mut mix = |v: u64| {
                    h ^= v;
                    h = h.wrapping_mul(0x100000001b3);
                };
                let mut bits = start;
                for _ in 0..count {
                    let f = <F as Float>::from_bits(bits);
                    mix(f.is_denormal() as u64);
                    mix(f.exponent() as i64 as u64);
                    mix(f.mantissa());
                    mix(Float::to_bits(f));
                    let bh = minimal_lexical::slow::bh(f);
                    mix(bh.mant);
                    mix(bh.exp as i64 as u64);
                    bits = bits.wrapping_add(stride);
                }
                format!("{:x}", h)
            })
        },
        // rt <fmt> <start> <count> <stride>: round trip of Rust's own renderings (shortest, 9/17 significant
        // digits) of every bit pattern in the range through the shipped front-end + library
        "rt" => {
            let start = parse_u64(t[2]);
            let count = parse_u64(t[3]);
            let stride = parse_u64(t[4]);
            let mut bad = 0u64;
            let mut first = String::new();
            let mut bits = start;
            for _ in 0..count {
                match t[1] {
                    "f32" => {
                        let x = f32::from_bits(bits as u32);
                        if x.is_finite() && x >= 0.0 {
                            for s in [format!("{:e}", x), format!("{:.8e}", x), format!("{}", x)].iter() {
                                let (v, rest): (f32, &[u8]) = fe_simple::verif_entry::<f32>(s.as_bytes());
                                if v.to_bits() != x.to_bits() || !rest.is_empty() {
                                    bad += 1;
                                    if first.is_empty() {
                                        first = format!("{:x}:{}", bits, s);
                                    }
                                }
                            }
                        }
                    },
                    _ => {
                        let x = f64::from_bits(bits);
                        if x.is_finite() && x >= 0.0 {
                            for s in [format!("{:e}", x), format!("{:.16e}", x), format!("{}", x)].iter() {
                                let (v, rest): (f64, &[u8]) = fe_simple::verif_entry::<f64>(s.as_bytes());
                                if v.to_bits() != x.to_bits() || !rest.is_empty() {
                                    bad += 1;
                                    if first.is_empty() {
                                        first = format!("{:x}:{}", bits, s);
                                    }
                                }
                            }
                        }
                    },
                }
                bits = bits.wrapping_add(stride);
            }
            format!("bad {} {}", bad, first)
        },
        // e2f <fmt> <mant> <exp>
        "e2f" => {
            let fp = ExtendedFloat {
                mant: parse_u64(t[2]),
                exp: parse_i32(t[3]),
            };
            with_float!(t[1], F, { format!("{:x}", extended_to_float::<F>(fp).to_bits()) })
        },
        // u2f <fmt> <u64>  (hardware int->float conversion, used to validate the model's IEEE assumption)
        "u2f" => {
            let u = parse_u64(t[2]);
            with_float!(t[1], F, { format!("{:x}", F::from_u64(u).to_bits()) })
        },
        // powd <xbits> <ybits> / powf <xbits> <ybits>: the bundled libm (only compiled in the no_std + compact build)
        #[cfg(all(not(feature = "std"), feature = "compact"))]
        "powd" => {
            let r = minimal_lexical::libm::powd(f64::from_bits(parse_u64(t[1])), f64::from_bits(parse_u64(t[2])));
            if r.is_nan() {
                "none".into()
            } else {
                format!("{}", r.to_bits())
            }
        },
        #[cfg(all(not(feature = "std"), feature = "compact"))]
        "powf" => {
            let r = minimal_lexical::libm::powf(f32::from_bits(parse_u64(t[1]) as u32), f32::from_bits(parse_u64(t[2]) as u32));
            if r.is_nan() {
                "none".into()
            } else {
                format!("{}", r.to_bits())
            }
        },
        // core <fmt> <decimal string>  (Rust core's parser as an independent oracle)
        "core" => match t[1] {
            "f32" => match t[2].parse::<f32>() {
                Ok(v) => format!("v {:x}", v.to_bits()),
                Err(_) => "err".into(),
            },
            _ => match t[2].parse::<f64>() {
                Ok(v) => format!("v {:x}", v.to_bits()),
                Err(_) => "err".into(),
            },
        },
        // pm <int> <frac> <max_digits>
        "pm" => {
            let int = decode_bytes(t[1]);
            let frac = decode_bytes(t[2]);
            let md = parse_u64(t[3]) as usize;
            let (b, n) = minimal_lexical::slow::parse_mantissa(int.iter(), frac.iter(), md);
            format!("{} {}", fmt_limbs(&b.data), n)
        },
        // sci <w> <q>
        "sci" => {
            let n = Number {
                mantissa: parse_u64(t[1]),
                exponent: parse_i32(t[2]),
                many_digits: false,
            };
            format!("{}", minimal_lexical::slow::scientific_exponent(&n))
        },
        // pdc <fmt> <limbs> <exp>
        "pdc" => {
            let x = match mkvec(&parse_limbs(t[2])) {
                Some(v) => v,
                None => return "ctor-none".into(),
            };
            let e = parse_i32(t[3]);
            with_float!(t[1], F, {
                fp_str(minimal_lexical::slow::positive_digit_comp::<F>(
                    Bigint {
                        data: x,
                    },
                    e,
                ))
            })
        },
        // ndc <fmt> <limbs> <mant> <exp> <exponent>
        "ndc" => {
            let x = match mkvec(&parse_limbs(t[2])) {
                Some(v) => v,
                None => return "ctor-none".into(),
            };
            let fp = ExtendedFloat {
                mant: parse_u64(t[3]),
                exp: parse_i32(t[4]),
            };
            let e = parse_i32(t[5]);
            with_float!(t[1], F, {
                fp_str(minimal_lexical::slow::negative_digit_comp::<F>(
                    Bigint {
                        data: x,
                    },
                    fp,
                    e,
                ))
            })
        },
        // sl <fmt> <w> <q> <t> <mant> <exp> <int> <frac>
        "sl" => {
            let n = Number {
                mantissa: parse_u64(t[2]),
                exponent: parse_i32(t[3]),
                many_digits: t[4] == "1",
            };
            let fp = ExtendedFloat {
                mant: parse_u64(t[5]),
                exp: parse_i32(t[6]),
            };
            let int = decode_bytes(t[7]);
            let frac = decode_bytes(t[8]);
            with_float!(t[1], F, { fp_str(minimal_lexical::slow::slow::<F, _, _>(n, fp, int.iter(), frac.iter())) })
        },
        "adddigit" => match minimal_lexical::parse::add_digit(parse_u64(t[1]), parse_u64(t[2]) as u8) {
            Some(v) => format!("{}", v),
            None => "none".into(),
        },
        "bg" => bigint_cmd(&t[1..]),
        "vh" => vec_history(t[1]),
        // fe <variant> <fmt> <bytes>
        "fe" => {
            let bytes = decode_bytes(t[3]);
            with_float!(t[2], F, {
                let (v, rest): (F, &[u8]) = match t[1] {
                    "simple" => fe_simple::verif_entry::<F>(&bytes),
                    "fuzz" => fe_fuzz::verif_entry::<F>(&bytes),
                    "itest" => fe_itest::verif_entry::<F>(&bytes),
                    "golang" => fe_golang::verif_entry::<F>(&bytes),
                    "random" => fe_random::verif_entry::<F>(&bytes),
                    "unittests" => fe_unittests::verif_entry::<F>(&bytes),
                    _ => panic!("bad fe variant"),
                };
                format!("v {:x} rest {}", v.to_bits(), rest.len())
            })
        },
        _ => format!("unknown-command {}", t[0]),
    }
}

fn main() {
    let args: Vec<String> = std::env::args().collect();
    if args.len() >= 2 && args[1] == "dump" {
        dump();
        return;
    }
    let flush = args.iter().any(|a| a == "--flush");
    panic::set_hook(Box::new(|_| {}));
    let stdin = io::stdin();
    let stdout = io::stdout();
    let mut out = io::BufWriter::with_capacity(1 << 16, stdout.lock());
    for line in stdin.lock().lines() {
        let line = line.unwrap();
        if line.is_empty() || line.starts_with('#') {
            writeln!(out, "").unwrap();
            continue;
        }
        let res = panic::catch_unwind(AssertUnwindSafe(|| run_case(&line)));
        match res {
            Ok(s) => writeln!(out, "{}", s).unwrap(),
            Err(e) => {
                let msg = if let Some(s) = e.downcast_ref::<&str>() {
                    s.to_string()
                } else if let Some(s) = e.downcast_ref::<String>() {
                    s.clone()
                } else {
                    "?".to_string()
                };
                let cls = if msg.contains("overflow") {
                    "overflow"
                } else if msg.contains("assertion") {
                    "assert"
                } else if msg.contains("unwrap") || msg.contains("None") {
                    "unwrap"
                } else if msg.contains("index") || msg.contains("range") {
                    "index"
                } else {
                    "other"
                };
                writeln!(out, "panic {}", cls).unwrap()
            },
        }
        if flush {
            out.flush().unwrap();
        }
    }
    out.flush().unwrap();
}
