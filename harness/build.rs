// Copies the repository's string front-ends into OUT_DIR and appends a pub
// wrapper so the harness runs the repository's own text (C19).
use std::{env, fs, path::PathBuf};

fn main() {
    let out = PathBuf::from(env::var("OUT_DIR").unwrap());
    let repo = env::var("HX_REPO").unwrap_or_else(|_| "/repo".to_string());
    let files = [
        ("fe_simple.rs", "examples/simple.rs"),
        ("fe_fuzz.rs", "fuzz/fuzz_targets/parse.rs"),
        ("fe_itest.rs", "tests/integration_tests.rs"),
        ("fe_golang.rs", "etc/correctness/test-parse-golang/main.rs"),
        ("fe_random.rs", "etc/correctness/test-parse-random/_common.rs"),
        ("fe_unittests.rs", "etc/correctness/test-parse-unittests/main.rs"),
    ];
    for (dst, src) in files.iter() {
        let p = PathBuf::from(&repo).join(src);
        println!("cargo:rerun-if-changed={}", p.display());
        let mut text = fs::read_to_string(&p).unwrap();
        // inner doc comments / inner attributes are not allowed in an included module body
        let mut cleaned = String::new();
        for line in text.lines() {
            let t = line.trim_start();
            // test-parse-unittests: keep only the front-end part (the rest needs serde / toml)
            if *dst == "fe_unittests.rs" && t.starts_with("#[derive(Debug, Deserialize)]") {
                break;
            }
            if t.starts_with("extern crate serde_derive") || t.starts_with("extern crate toml") || t == "#[macro_use]" {
                cleaned.push_str("// ");
                cleaned.push_str(t);
                cleaned.push('\n');
                continue;
            }
            if t.starts_with("//!") {
                cleaned.push_str("//");
                cleaned.push_str(&t[3..]);
            } else if t.starts_with("#![") {
                cleaned.push_str("// ");
                cleaned.push_str(t);
            } else if t.starts_with("extern crate minimal_lexical") {
                cleaned.push_str("use ::minimal_lexical;");
            } else {
                cleaned.push_str(line);
            }
            cleaned.push('\n');
        }
        text = cleaned;
        text.push_str(
            "\npub fn verif_entry<'a, F: ::minimal_lexical::Float>(b: &'a [u8]) -> (F, &'a [u8]) { parse_float::<F>(b) }\n",
        );
        fs::write(out.join(dst), text).unwrap();
    }
    println!("cargo:rerun-if-env-changed=HX_REPO");
}
