-- Root of the library: specification, model, and every finished theorem file.
import MinLex.Spec.Rne
import MinLex.Model.Env
import MinLex.Model.StackVecLow
import MinLex.Proofs.WellFormed
import MinLex.Props.RneSpec
import MinLex.Props.ParseNumber
import MinLex.Props.LemireArith
import MinLex.Props.Main
import MinLex.Props.C12
import MinLex.Props.C13
import MinLex.Props.C14
import MinLex.Props.C17
import MinLex.Props.C18
import MinLex.Props.C19
