import MinLex.Spec.Rne
