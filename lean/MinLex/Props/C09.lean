/-
  C09 — monotonicity: a larger decimal value never parses to a smaller float (the bit patterns of
  non-negative floats, `+∞` included, order like the values).

  * `C09_noncompact`: FULL theorem for the non-compact configurations.
  * `C09_partial`   : all configurations, under `OpenCompact F`.
  * `C09_spec`      : the underlying fact about the specification (`rne` is monotone).
-/
import MinLex.Proofs.Compose
namespace MinLex.C09
open MinLex MinLex.Main MinLex.Compose

def C09_statement (E : Env) (F : FloatC) : Prop :=
  ∀ (ia fa : List UInt8) (ea : Int) (ib fb : List UInt8) (eb : Int),
    Valid ia fa ea → Valid ib fb eb → Q.le (digitsValue ia fa ea) (digitsValue ib fb eb) →
    ∃ x y, parseFloat E F ia fa ea = .ok x ∧ parseFloat E F ib fb eb = .ok y ∧ x ≤ y

/-- the specification is monotone -/
theorem C09_spec (f : Fmt) {a b : Q} (ha : 0 < a.den) (hb : 0 < b.den) (h : Q.le a b) :
    rne f a ≤ rne f b := RneSpec.rne_mono f ha hb h

/-- **C09 for the non-compact configurations: proved outright.** -/
theorem C09_noncompact (cfg : Cfg) (hc : cfg.compact = false) {F : FloatC}
    (hF : F = Gen.F32 ∨ F = Gen.F64) : C09_statement (genEnv cfg) F :=
  fun ia fa ea ib fb eb ha hb hle =>
    C09_of_parseCorrect (parseCorrect_noncompact cfg hc hF) ia fa ea ib fb eb ha hb hle

/-- C09 over all configurations, under the open Bellerophon contracts. -/
theorem C09_partial (cfg : Cfg) {F : FloatC} (hF : F = Gen.F32 ∨ F = Gen.F64) (h : OpenCompact F) :
    C09_statement (genEnv cfg) F :=
  fun ia fa ea ib fb eb ha hb hle =>
    C09_of_parseCorrect (parseCorrect_of_open cfg hF h) ia fa ea ib fb eb ha hb hle

/-- strict form: different results imply strictly ordered values -/
theorem C09_strict (cfg : Cfg) (hc : cfg.compact = false) {F : FloatC}
    (hF : F = Gen.F32 ∨ F = Gen.F64)
    (ia fa : List UInt8) (ea : Int) (ib fb : List UInt8) (eb : Int)
    (ha : Valid ia fa ea) (hb : Valid ib fb eb) {x y : Nat}
    (hx : parseFloat (genEnv cfg) F ia fa ea = .ok x) (hy : parseFloat (genEnv cfg) F ib fb eb = .ok y)
    (hlt : x < y) : Q.lt (digitsValue ia fa ea) (digitsValue ib fb eb) := by
  rw [Q.lt_iff_not_le]
  intro hle
  obtain ⟨y', x', h1, h2, h3⟩ := C09_noncompact cfg hc hF ib fb eb ia fa ea hb ha hle
  rw [hy] at h1; rw [hx] at h2
  cases h1; cases h2
  omega

-- 0.3 ≤ 1/3-ish ≤ 0.34
example : Valid [] [51] 0 ∧ Valid [] [51, 52] 0 ∧
    Q.le (digitsValue [] [51] 0) (digitsValue [] [51, 52] 0) := by decide

end MinLex.C09
