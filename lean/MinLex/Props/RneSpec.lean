/-
  Headline facts about the round-to-nearest-even SPECIFICATION `MinLex.rne` (`MinLex/Spec/Rne.lean`).
  All statements are about the spec definitions only (`Q.le/lt/eqv` are cross-multiplications).
  Proofs live in `MinLex/Proofs/Rne.lean`.
-/
import MinLex.Proofs.Rne
namespace MinLex.RneSpec
open MinLex

/-- (1) `flog2 N D = ⌊log2 (N/D)⌋`: `2^e ≤ N/D` and not `2^(e+1) ≤ N/D`. -/
theorem flog2_spec {N D : Nat} (hN : 0 < N) (hD : 0 < D) :
    geP2 N D (flog2 N D) = true ∧ geP2 N D (flog2 N D + 1) = false :=
  MinLex.flog2_spec hN hD

example : geP2 7 3 (flog2 7 3) = true ∧ geP2 7 3 (flog2 7 3 + 1) = false :=
  flog2_spec (by decide) (by decide)

/-- (1') `flog2` depends only on the value `N/D`. -/
theorem flog2_congr {N D N' D' : Nat} (hN : 0 < N) (hD : 0 < D) (hD' : 0 < D')
    (h : N * D' = N' * D) : flog2 N D = flog2 N' D' :=
  MinLex.flog2_congr hN hD hD' h

/-- (2) **C10**: equal values give identical bits. -/
theorem rne_congr (f : Fmt) {a b : Q} (ha : 0 < a.den) (hb : 0 < b.den) (h : Q.eqv a b) :
    rne f a = rne f b :=
  MinLex.rne_congr f ha hb h

example : rne Fmt.f64 ⟨1, 3⟩ = rne Fmt.f64 ⟨7, 21⟩ :=
  rne_congr _ (by decide) (by decide) (by decide)

/-- (2') the truncating variant depends only on the value too. -/
theorem rneTrunc_congr (f : Fmt) {a b : Q} (ha : 0 < a.den) (hb : 0 < b.den) (h : Q.eqv a b) :
    rneTrunc f a = rneTrunc f b :=
  MinLex.rneTrunc_congr f ha hb h

/-- (3) `rhe` (round-half-even of `A/B`) is monotone in the value of the quotient. -/
theorem rhe_mono {A B A' B' : Nat} (hB : 0 < B) (hB' : 0 < B') (h : A * B' ≤ A' * B) :
    rhe A B ≤ rhe A' B' :=
  MinLex.rhe_mono hB hB' h

example : rhe 5 2 ≤ rhe 8 3 := rhe_mono (by decide) (by decide) (by decide)

/-- (4) **C09**: `rne` is monotone. -/
theorem rne_mono (f : Fmt) {a b : Q} (ha : 0 < a.den) (hb : 0 < b.den) (h : Q.le a b) :
    rne f a ≤ rne f b :=
  MinLex.rne_mono f ha hb h

example : rne Fmt.f32 ⟨1, 3⟩ ≤ rne Fmt.f32 ⟨2, 5⟩ :=
  rne_mono _ (by decide) (by decide) (by decide)

/-- (5) `rne` is the identity on finite floats. -/
theorem rne_decode (f : Fmt) {bits : Nat} (hb : bits < f.infBits) :
    rne f (decodeQ f bits) = bits :=
  (MinLex.rne_decode f hb).1

/-- (5') so is the truncating variant. -/
theorem rneTrunc_decode (f : Fmt) {bits : Nat} (hb : bits < f.infBits) :
    rneTrunc f (decodeQ f bits) = bits :=
  (MinLex.rne_decode f hb).2

example : rne Fmt.f64 (decodeQ Fmt.f64 0x3FF0000000000001) = 0x3FF0000000000001 :=
  rne_decode _ (by decide)

/-- (8a) appending a `'0'` to the fraction does not change the value. -/
theorem digitsValue_append_zero (int frac : List UInt8) (e : Int) :
    Q.eqv (digitsValue int (frac ++ [48]) e) (digitsValue int frac e) :=
  MinLex.digitsValue_append_zero int frac e

/-- (8b) moving the decimal point: `int c . frac × 10^e = int . c frac × 10^(e+1)` (even syntactically). -/
theorem digitsValue_shift_point (int frac : List UInt8) (c : UInt8) (e : Int) :
    Q.eqv (digitsValue (int ++ [c]) frac e) (digitsValue int (c :: frac) (e + 1)) := by
  rw [MinLex.digitsValue_shift_point]; exact Q.eqv_refl _

/-- `ofDigits` of a concatenation. -/
theorem ofDigits_append (a b : List UInt8) :
    ofDigits (a ++ b) = ofDigits a * 10^b.length + ofDigits b :=
  MinLex.ofDigits_append a b

/-- (8a, 2) combined: a trailing fraction zero does not change the rounded result. -/
theorem rne_digitsValue_append_zero (f : Fmt) (int frac : List UInt8) (e : Int) :
    rne f (digitsValue int (frac ++ [48]) e) = rne f (digitsValue int frac e) :=
  rne_congr f (digitsValue_den_pos _ _ _) (digitsValue_den_pos _ _ _)
    (digitsValue_append_zero int frac e)

/-- (6a) `rne` never exceeds the bit pattern of +infinity. -/
theorem rne_le_inf (f : Fmt) (v : Q) : rne f v ≤ f.infBits := MinLex.rne_le_inf f v

/-- (6b) underflow threshold: `rne f v = 0 ↔ v ≤ 2^(kmin-1)` (tie goes to the even pattern 0). -/
theorem rne_zero_iff (f : Fmt) (hE : 1 ≤ f.ebits) {v : Q} (hv : 0 < v.den) :
    rne f v = 0 ↔ Q.le v (ofDyadic 1 (f.kmin - 1)) :=
  MinLex.rne_eq_zero_iff f hE hv

example : rne Fmt.f32 ⟨1, 2^150⟩ = 0 :=
  (rne_zero_iff Fmt.f32 (by decide) (Nat.pow_pos (by decide))).2 (by decide +kernel)

/-- (6c) overflow threshold: `rne f v = infBits ↔ v ≥ (2^(mbits+2) - 1) · 2^(emax - mbits - 1)`,
    `emax = 2^(ebits-1) - 1` (tie goes to infinity). -/
theorem rne_inf_iff (f : Fmt) (hE : 2 ≤ f.ebits) {v : Q} (hv : 0 < v.den) :
    rne f v = f.infBits ↔
      Q.le (ofDyadic (2^(f.mbits+2) - 1) ((2:Int)^(f.ebits-1) - 1 - f.mbits - 1)) v :=
  MinLex.rne_eq_inf_iff f hE hv

example : rne Fmt.f32 ⟨2^128 - 2^103, 1⟩ = Fmt.f32.infBits :=
  (rne_inf_iff Fmt.f32 (by decide) Nat.one_pos).2 (by decide)

/-- (7) `rne` is the truncated float or its successor. -/
theorem rne_trunc_or_succ (f : Fmt) (v : Q) (hfin : rneTrunc f v < f.infBits) :
    rne f v = rneTrunc f v ∨ rne f v = rneTrunc f v + 1 :=
  MinLex.rne_trunc_or_succ f v hfin

/-- (7) With `b = rneTrunc f v` finite and `(m, k) = decode f b`, the choice between `b` and `b+1`
    is decided by comparing `v` with the midpoint `(2m+1)·2^(k-1)`; a tie goes to the even significand. -/
theorem rne_between (f : Fmt) {v : Q} (hv : 0 < v.den) (hfin : rneTrunc f v < f.infBits) :
    let b := rneTrunc f v
    let mid := ofDyadic (2 * (decode f b).1 + 1) ((decode f b).2 - 1)
    (Q.lt v mid → rne f v = b) ∧ (Q.lt mid v → rne f v = b + 1) ∧
    (Q.eqv v mid → rne f v = if (decode f b).1 % 2 = 0 then b else b + 1) :=
  MinLex.rne_between f hv hfin

/-- For `mbits ≥ 1` "even significand" is the same as "even bit pattern". -/
theorem decode_parity (f : Fmt) (hM : 1 ≤ f.mbits) (bits : Nat) :
    (decode f bits).1 % 2 = bits % 2 :=
  MinLex.decode_parity f hM bits

example : rne Fmt.f32 ⟨1, 3⟩ = rneTrunc Fmt.f32 ⟨1, 3⟩ + 1 :=
  (rne_between Fmt.f32 (v := ⟨1, 3⟩) (by decide) (by decide +kernel)).2.1 (by decide +kernel)

/-! ### Additional structure: order of bit patterns, floor property, nearest property -/

/-- (4') the truncating variant is monotone too. -/
theorem rneTrunc_mono (f : Fmt) {a b : Q} (ha : 0 < a.den) (hb : 0 < b.den) (h : Q.le a b) :
    rneTrunc f a ≤ rneTrunc f b :=
  MinLex.rneTrunc_mono f ha hb h

/-- Bit patterns order exactly like the values they denote. -/
theorem decodeQ_lt_iff (f : Fmt) {a b : Nat} : Q.lt (decodeQ f a) (decodeQ f b) ↔ a < b :=
  MinLex.decodeQ_lt_iff f

/-- A finite `rneTrunc f v` is the largest float not above `v`. -/
theorem rneTrunc_floor (f : Fmt) {v : Q} (hv : 0 < v.den) (hfin : rneTrunc f v < f.infBits) :
    Q.le (decodeQ f (rneTrunc f v)) v ∧ Q.lt v (decodeQ f (rneTrunc f v + 1)) :=
  MinLex.rneTrunc_floor f hv hfin

/-- ... and that property characterises it. -/
theorem rneTrunc_eq_iff (f : Fmt) {v : Q} (hv : 0 < v.den) {bits : Nat} (hb : bits < f.infBits) :
    rneTrunc f v = bits ↔ Q.le (decodeQ f bits) v ∧ Q.lt v (decodeQ f (bits + 1)) :=
  MinLex.rneTrunc_eq_iff f hv hb

example : rneTrunc Fmt.f32 ⟨3, 2⟩ = 0x3FC00000 :=
  (rneTrunc_eq_iff Fmt.f32 (by decide) (by decide)).2 (by decide)

/-- Criterion to establish `rne f v`: bracket `v` between a finite float and its successor, then
    compare with their midpoint `(2m+1)·2^(k-1)`. -/
theorem rne_of_between (f : Fmt) {v : Q} (hv : 0 < v.den) {bits : Nat}
    (hb : bits < f.infBits) (h1 : Q.le (decodeQ f bits) v) (h2 : Q.lt v (decodeQ f (bits + 1))) :
    let mid := ofDyadic (2 * (decode f bits).1 + 1) ((decode f bits).2 - 1)
    (Q.lt v mid → rne f v = bits) ∧ (Q.lt mid v → rne f v = bits + 1) ∧
    (Q.eqv v mid → rne f v = if (decode f bits).1 % 2 = 0 then bits else bits + 1) :=
  MinLex.rne_of_between f hv hb h1 h2

example : rne Fmt.f32 ⟨1, 3⟩ = 0x3EAAAAAB :=
  (rne_of_between Fmt.f32 (v := ⟨1, 3⟩) (bits := 0x3EAAAAAA) (by decide) (by decide +kernel)
    (by decide +kernel) (by decide +kernel)).2.1 (by decide +kernel)

/-- Interval form: strictly between the neighbouring midpoints of a finite float `bits ≥ 1`,
    `rne` returns `bits`. -/
theorem rne_eq_of_mid_lt_lt (f : Fmt) {v : Q} (hv : 0 < v.den) {bits : Nat} (h0 : 1 ≤ bits)
    (hb : bits < f.infBits) (h1 : Q.lt (midpoint f (bits - 1)) v) (h2 : Q.lt v (midpoint f bits)) :
    rne f v = bits :=
  MinLex.rne_eq_of_mid_lt_lt f hv h0 hb h1 h2

example : rne Fmt.f32 ⟨4, 3⟩ = 0x3FAAAAAB :=
  rne_eq_of_mid_lt_lt Fmt.f32 (v := ⟨4, 3⟩) (by decide) (by decide) (by decide +kernel)
    (by decide +kernel) (by decide +kernel)

/-- **The spec really is round-to-nearest**: a finite result is at least as close to `v` as the
    value of any other bit pattern (`Q.toRat v = v.num / v.den : ℚ`). -/
theorem rne_nearest (f : Fmt) {v : Q} (hv : 0 < v.den) (hfin : rne f v < f.infBits) (b' : Nat) :
    abs (v.toRat - (decodeQ f (rne f v)).toRat) ≤ abs (v.toRat - (decodeQ f b').toRat) :=
  MinLex.rne_nearest f hv hfin b'

example : rne Fmt.f32 ⟨1, 3⟩ < Fmt.f32.infBits := by decide

end MinLex.RneSpec
