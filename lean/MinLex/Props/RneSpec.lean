/-
  Headline facts about the round-to-nearest-even SPECIFICATION `MinLex.rne` (`MinLex/Spec/Rne.lean`).
  All statements are about the spec definitions only (`Q.le/lt/eqv` are cross-multiplications).
  Proofs live in `MinLex/Proofs/Rne.lean`.
-/
import MinLex.Proofs.Rne
namespace MinLex.RneSpec
open MinLex

/-- (1) `flog2 N D = ⌊log2 (N/D)⌋`: `2^e ≤ N/D` and not `2^(e+1) ≤ N/D`. -/
theorem flog2_spec {N D : Nat} (hN : 0 < N) (hD : 0 < D) :
    geP2 N D (flog2 N D) = true ∧ geP2 N D (flog2 N D + 1) = false :=
  MinLex.flog2_spec hN hD

example : geP2 7 3 (flog2 7 3) = true ∧ geP2 7 3 (flog2 7 3 + 1) = false :=
  flog2_spec (by decide) (by decide)

/-- (1') `flog2` depends only on the value `N/D`. -/
theorem flog2_congr {N D N' D' : Nat} (hN : 0 < N) (hD : 0 < D) (hD' : 0 < D')
    (h : N * D' = N' * D) : flog2 N D = flog2 N' D' :=
  MinLex.flog2_congr hN hD hD' h

/-- (2) **C10**: equal values give identical bits. -/
theorem rne_congr (f : Fmt) {a b : Q} (ha : 0 < a.den) (hb : 0 < b.den) (h : Q.eqv a b) :
    rne f a = rne f b :=
  MinLex.rne_congr f ha hb h

example : rne Fmt.f64 ⟨1, 3⟩ = rne Fmt.f64 ⟨7, 21⟩ :=
  rne_congr _ (by decide) (by decide) (by decide)

/-- (2') the truncating variant depends only on the value too. -/
theorem rneTrunc_congr (f : Fmt) {a b : Q} (ha : 0 < a.den) (hb : 0 < b.den) (h : Q.eqv a b) :
    rneTrunc f a = rneTrunc f b :=
  MinLex.rneTrunc_congr f ha hb h

/-- (3) `rhe` (round-half-even of `A/B`) is monotone in the value of the quotient. -/
theorem rhe_mono {A B A' B' : Nat} (hB : 0 < B) (hB' : 0 < B') (h : A * B' ≤ A' * B) :
    rhe A B ≤ rhe A' B' :=
  MinLex.rhe_mono hB hB' h

example : rhe 5 2 ≤ rhe 8 3 := rhe_mono (by decide) (by decide) (by decide)

/-- (4) **C09**: `rne` is monotone. -/
theorem rne_mono (f : Fmt) {a b : Q} (ha : 0 < a.den) (hb : 0 < b.den) (h : Q.le a b) :
    rne f a ≤ rne f b :=
  MinLex.rne_mono f ha hb h

example : rne Fmt.f32 ⟨1, 3⟩ ≤ rne Fmt.f32 ⟨2, 5⟩ :=
  rne_mono _ (by decide) (by decide) (by decide)

end MinLex.RneSpec
