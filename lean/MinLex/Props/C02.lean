/-
  C02 — `parse_float::<f32>` returns the IEEE-754 binary32 round-to-nearest-even of the exact
  decimal value (ONE rounding, not "round to f64, then to f32").

  * `C02_noncompact` : FULL theorem for every non-compact configuration.
  * `C02_partial`    : all configurations, under the open Bellerophon contracts `OpenCompact Gen.F32`.
  * spec facts for `rne Fmt.f32` (thresholds `2^128 − 2^103` and `2^-150`).
  * `double_rounding_differs`: a decimal on which rounding once differs from rounding twice, and
    (`C02_not_double_rounding`) the parser returns the once-rounded pattern on it.
-/
import MinLex.Proofs.Compose
namespace MinLex.C02
open MinLex MinLex.Main MinLex.Compose

def C02_statement : Prop :=
  ∀ (cfg : Cfg) (int frac : List UInt8) (e : Int), Valid int frac e →
    parseFloat (genEnv cfg) Gen.F32 int frac e = .ok (rne Fmt.f32 (digitsValue int frac e))

def C02_noncompact_statement : Prop :=
  ∀ (cfg : Cfg), cfg.compact = false → ∀ (int frac : List UInt8) (e : Int), Valid int frac e →
    parseFloat (genEnv cfg) Gen.F32 int frac e = .ok (rne Fmt.f32 (digitsValue int frac e))

/-- **C02, non-compact configurations: proved outright.** -/
theorem C02_noncompact : C02_noncompact_statement :=
  fun cfg hc int frac e hv => parseCorrect_noncompact cfg hc (Or.inl rfl) int frac e hv

/-- C02 over all configurations, under the open Bellerophon contracts. -/
theorem C02_partial (h : OpenCompact Gen.F32) : C02_statement :=
  fun cfg int frac e hv => parseCorrect_of_open cfg (Or.inl rfl) h int frac e hv

example : parseFloat (genEnv ⟨false, true, true⟩) Gen.F32 [] [49] 0 = .ok 0x3DCCCCCD := by
  rw [C02_noncompact ⟨false, true, true⟩ rfl [] [49] 0 (by decide)]
  decide +kernel

-- ------------------------------------------------------------------ the spec is IEEE binary32 RNE
theorem f32_infBits : Fmt.f32.infBits = 0x7F800000 := by decide

/-- never a NaN, never the sign bit -/
theorem rne_f32_le_inf (v : Q) : rne Fmt.f32 v ≤ 0x7F800000 ∧ rne Fmt.f32 v < 2^31 := by
  have := RneSpec.rne_le_inf Fmt.f32 v
  rw [f32_infBits] at this
  exact ⟨this, by omega⟩

theorem f32_infThreshold :
    ofDyadic (2^(Fmt.f32.mbits+2) - 1) ((2:Int)^(Fmt.f32.ebits-1) - 1 - Fmt.f32.mbits - 1)
      = ⟨2^128 - 2^103, 1⟩ := by decide +kernel

theorem f32_zeroThreshold : ofDyadic 1 (Fmt.f32.kmin - 1) = ⟨1, 2^150⟩ := by decide +kernel

/-- overflow: `+∞` exactly when `v ≥ 2^128 − 2^103` -/
theorem rne_f32_inf_iff {v : Q} (hv : 0 < v.den) :
    rne Fmt.f32 v = 0x7F800000 ↔ Q.le ⟨2^128 - 2^103, 1⟩ v := by
  rw [← f32_infBits, RneSpec.rne_inf_iff Fmt.f32 (by decide) hv, f32_infThreshold]

/-- underflow: `+0` exactly when `v ≤ 2^-150` -/
theorem rne_f32_zero_iff {v : Q} (hv : 0 < v.den) :
    rne Fmt.f32 v = 0 ↔ Q.le v ⟨1, 2^150⟩ := by
  rw [RneSpec.rne_zero_iff Fmt.f32 (by decide) hv, f32_zeroThreshold]

theorem rne_f32_decode {b : Nat} (hb : b < 0x7F800000) : rne Fmt.f32 (decodeQ Fmt.f32 b) = b :=
  RneSpec.rne_decode Fmt.f32 (by rw [f32_infBits]; exact hb)

/-- a finite result is a nearest binary32 value -/
theorem rne_f32_nearest {v : Q} (hv : 0 < v.den) (hfin : rne Fmt.f32 v < 0x7F800000) (b' : Nat) :
    abs (v.toRat - (decodeQ Fmt.f32 (rne Fmt.f32 v)).toRat) ≤ abs (v.toRat - (decodeQ Fmt.f32 b').toRat) :=
  RneSpec.rne_nearest Fmt.f32 hv (by rw [f32_infBits]; exact hfin) b'

/-- ties go to the even bit pattern -/
theorem rne_f32_tie {v : Q} (hv : 0 < v.den) {b : Nat} (hb : b < 0x7F800000)
    (h : Q.eqv v (midpoint Fmt.f32 b)) : rne Fmt.f32 v = if b % 2 = 0 then b else b + 1 := by
  have hb' : b < Fmt.f32.infBits := by rw [f32_infBits]; exact hb
  have hmd := midpoint_den_pos Fmt.f32 b
  have hm := midpoint_between Fmt.f32 b
  have h' := (Q.eqv_iff hv hmd).1 h
  have h1 : Q.le (decodeQ Fmt.f32 b) v := by
    rw [Q.le_iff (decodeQ_den_pos _ _) hv, h']; exact hm.1.le
  have h2 : Q.lt v (decodeQ Fmt.f32 (b + 1)) := by
    rw [Q.lt_iff hv (decodeQ_den_pos _ _), h']; exact hm.2
  have := (MinLex.rne_of_between Fmt.f32 hv hb' h1 h2).2.2 h
  rw [RneSpec.decode_parity Fmt.f32 (by decide)] at this
  exact this

theorem C02_result_facts (cfg : Cfg) (hc : cfg.compact = false) (int frac : List UInt8) (e : Int)
    (hv : Valid int frac e) :
    ∃ b, parseFloat (genEnv cfg) Gen.F32 int frac e = .ok b ∧ b ≤ 0x7F800000 ∧ b < 2^31 ∧
      (b = 0x7F800000 ↔ Q.le ⟨2^128 - 2^103, 1⟩ (digitsValue int frac e)) ∧
      (b = 0 ↔ Q.le (digitsValue int frac e) ⟨1, 2^150⟩) :=
  ⟨_, C02_noncompact cfg hc int frac e hv, (rne_f32_le_inf _).1, (rne_f32_le_inf _).2,
    rne_f32_inf_iff (digitsValue_den_pos ..), rne_f32_zero_iff (digitsValue_den_pos ..)⟩

-- ------------------------------------------------------------------ one rounding, not two
/-- `16777217.000000000931322574615478515625 = 2^24 + 1 + 2^-30`: just above the binary32 midpoint
    `2^24 + 1` by less than half a binary64 ulp (`2^-29`). -/
def drInt : List UInt8 := [49, 54, 55, 55, 55, 50, 49, 55]
def drFrac : List UInt8 := [48, 48, 48, 48, 48, 48, 48, 48, 48, 57, 51, 49, 51, 50, 50, 53, 55, 52,
  54, 49, 53, 52, 55, 56, 53, 49, 53, 54, 50, 53]

/-- rounding once gives `2^24 + 2` (0x4B800001); rounding to binary64 first lands exactly on the
    binary32 midpoint `2^24 + 1`, and the second rounding then goes to the even `2^24` (0x4B800000). -/
theorem double_rounding_differs :
    Valid drInt drFrac 0 ∧
    Q.eqv (digitsValue drInt drFrac 0) ⟨(2^24 + 1) * 2^30 + 1, 2^30⟩ ∧
    rne Fmt.f32 (digitsValue drInt drFrac 0) = 0x4B800001 ∧
    rne Fmt.f64 (digitsValue drInt drFrac 0) = 0x4170000010000000 ∧
    Q.eqv (decodeQ Fmt.f64 0x4170000010000000) ⟨2^24 + 1, 1⟩ ∧
    rne Fmt.f32 (decodeQ Fmt.f64 (rne Fmt.f64 (digitsValue drInt drFrac 0))) = 0x4B800000 := by
  decide +kernel

/-- on that input the parser (non-compact configurations) returns the ONCE-rounded pattern -/
theorem C02_not_double_rounding (cfg : Cfg) (hc : cfg.compact = false) :
    parseFloat (genEnv cfg) Gen.F32 drInt drFrac 0 = .ok 0x4B800001 ∧
    rne Fmt.f32 (decodeQ Fmt.f64 (rne Fmt.f64 (digitsValue drInt drFrac 0))) ≠ 0x4B800001 := by
  have h := double_rounding_differs
  refine ⟨?_, by rw [h.2.2.2.2.2]; decide⟩
  rw [C02_noncompact cfg hc drInt drFrac 0 h.1, h.2.2.1]

example : Valid drInt drFrac 0 := double_rounding_differs.1

end MinLex.C02
