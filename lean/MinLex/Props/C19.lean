/-
  Property C19: the string front-end shipped with the crate (examples/simple.rs, variant
  `special = false`; fuzz/fuzz_targets/parse.rs, variant `special = true`).

  All statements are over arbitrary byte lists (proved by induction, no enumeration of inputs).
  Vocabulary (defined in `MinLex/Proofs/Front.lean`):
    * `signPart`, `intOf`, `fracOf`, `expOf`, `restOf`, `consumedOf` : the pieces the front-end cuts
      the input into (`b0 = (parseSign bytes).2` is the input after the optional sign);
    * `InG` : the grammar  G = [+-]? D* (\. D*)? ([eE] [+-]? D*)?  as a decomposition predicate;
    * `asciiLower`, `isAsciiLetter` : ASCII case folding, used to state the literal matching.
-/
import MinLex.Proofs.Front
import MinLex.Model.Env
namespace MinLex.C19
open MinLex MinLex.Front

/-- the bytes of a string literal (for the examples) -/
def b (s : String) : List UInt8 := s.toUTF8.toList

/-- the default configuration (not compact, alloc, std), for the examples -/
def E0 : Env := genEnv ⟨false, true, true⟩

-- ================================================================ 1. consume_digits
/-- `consume_digits` splits off the longest digit prefix. -/
theorem consumeDigits_spec {bs ds rest : List UInt8} (h : consumeDigits bs = (ds, rest)) :
    ds ++ rest = bs ∧ (∀ c ∈ ds, isDigit c = true) ∧
      rest.head?.all (fun c => !isDigit c) = true :=
  Front.consumeDigits_spec h

example : consumeDigits (b "0123x4") = (b "0123", b "x4") := by decide +kernel

/-- "longest", said directly: any all-digit prefix of the input is a prefix of the result. -/
theorem consumeDigits_longest (ds t : List UInt8) (hd : ∀ c ∈ ds, isDigit c = true) :
    ∃ ds', (consumeDigits (ds ++ t)).1 = ds ++ ds' ∧ ds' ++ (consumeDigits (ds ++ t)).2 = t := by
  rw [consumeDigits_append_digits ds t hd]
  exact ⟨_, rfl, consumeDigits_append t⟩

-- ================================================================ 3. trimming
/-- `ltrim_zero` removes only leading zeros, and all of them. -/
theorem ltrimZero_spec (int : List UInt8) :
    ∃ k, int = List.replicate k 48 ++ ltrimZero int ∧ (ltrimZero int).head? ≠ some 48 :=
  Front.ltrimZero_spec int

/-- `rtrim_zero` removes only trailing zeros, and all of them. -/
theorem rtrimZero_spec (frac : List UInt8) :
    ∃ k, frac = rtrimZero frac ++ List.replicate k 48 ∧ (rtrimZero frac).getLast? ≠ some 48 :=
  Front.rtrimZero_spec frac

example : ltrimZero (b "00120") = b "120" ∧ rtrimZero (b "00120") = b "0012" := by decide +kernel

/-- Trimming does not change the exact decimal value (for any byte lists and any exponent). -/
theorem trim_value (int frac : List UInt8) (e : Int) :
    Q.eqv (digitsValue (ltrimZero int) (rtrimZero frac) e) (digitsValue int frac e) :=
  digitsValue_trim int frac e

example : Q.eqv (digitsValue (b "12") (b "5") (-1)) (digitsValue (b "0012") (b "500") (-1)) := by
  decide +kernel

/-- The pieces handed to `minimal_lexical::parse_float` are `Valid` whenever the trimmed digit
    strings are shorter than `i32::MAX` (the exponent is always the clamped `i32`). -/
theorem pieces_valid (bytes : List UInt8)
    (hi : (ltrimZero (intOf (parseSign bytes).2)).length < 2147483647)
    (hf : (rtrimZero (fracOf (parseSign bytes).2)).length < 2147483647) :
    Valid (ltrimZero (intOf (parseSign bytes).2)) (rtrimZero (fracOf (parseSign bytes).2))
      (expOf (parseSign bytes).2) :=
  Front.pieces_valid _ hi hf

/-- … in particular for every input shorter than `i32::MAX` bytes. -/
theorem pieces_valid_of_length (bytes : List UInt8) (hl : bytes.length < 2147483647) :
    Valid (ltrimZero (intOf (parseSign bytes).2)) (rtrimZero (fracOf (parseSign bytes).2))
      (expOf (parseSign bytes).2) := by
  have h0 := parseSign_snd_length bytes
  have h1 := intOf_fracOf_length (parseSign bytes).2
  have h2 := ltrimZero_length (intOf (parseSign bytes).2)
  have h3 := rtrimZero_length (fracOf (parseSign bytes).2)
  exact pieces_valid bytes (by omega) (by omega)

example : (b "-0012.500e-3x").length < 2147483647 := by decide +kernel

-- ================================================================ 4. exponent
/-- Positive exponent: the exact value, saturated at `i32::MAX` (the early return on overflow
    is exact because the accumulated value can only grow). Holds for every byte list. -/
theorem exponent_pos (ds : List UInt8) :
    parseExponent true ds 0 = min (ofDigits ds : Int) i32Max :=
  parseExponent_pos ds

/-- Negative exponent: the exact value, saturated at `i32::MIN`. -/
theorem exponent_neg (ds : List UInt8) :
    parseExponent false ds 0 = max (-(ofDigits ds : Int)) i32Min :=
  parseExponent_neg ds

example : parseExponent true (b "2147483648") 0 = i32Max ∧
    parseExponent false (b "2147483648") 0 = i32Min ∧
    parseExponent false (b "0123") 0 = -123 := by decide +kernel

/-- the exponent handed to the library, in terms of the input: 0 without marker, else the clamped
    value of the digits following the optional sign -/
theorem exponent_of_marker (m : UInt8) (hm : m = 101 ∨ m = 69) (t : List UInt8) :
    (expSplit (m :: t)).1 =
      if (t.head? != some 45) then min (ofDigits (consumeDigits (parseSign t).2).1 : Int) i32Max
      else max (-(ofDigits (consumeDigits (parseSign t).2).1 : Int)) i32Min := by
  have : (expSplit (m :: t)).1 = (expTail t).1 := by
    rcases hm with rfl | rfl
    · rw [expSplit_e]
    · rw [expSplit_E]
  rw [this]
  unfold expTail
  simp only
  rw [parseSign_fst]
  split
  · rename_i h; rw [h, parseExponent_pos]
  · rename_i h; simp only [Bool.not_eq_true] at h; rw [h, parseExponent_neg]

-- ================================================================ 6. no panic of its own
/-- The front-end has no failing operation: if it panics, the library panicked on the trimmed
    pieces. (Both variants.)  No concrete instance of the hypothesis is exhibited: no input on which
    the library model panics is known for the generated environments, which is the point. -/
theorem never_panics (E : Env) (F : FloatC) (special : Bool) (bytes : List UInt8)
    (h : Front.parse E F special bytes = .panic) :
    ∃ int frac e, parseFloat E F int frac e = .panic ∧
      int = ltrimZero (intOf (parseSign bytes).2) ∧
      frac = rtrimZero (fracOf (parseSign bytes).2) ∧ e = expOf (parseSign bytes).2 :=
  ⟨_, _, _, parse_panic E F special bytes h, rfl, rfl, rfl⟩

-- ================================================================ 5. sign
/-- `simple` variant: the result is the library result on the trimmed pieces, with the sign bit
    added iff the first byte is '-' (also on zero). -/
theorem sign_simple {E : Env} {F : FloatC} {bytes : List UInt8} {bits restLen : Nat}
    (h : Front.parse E F false bytes = .ok bits restLen) :
    ∃ v, parseFloat E F (ltrimZero (intOf (parseSign bytes).2))
        (rtrimZero (fracOf (parseSign bytes).2)) (expOf (parseSign bytes).2) = .ok v ∧
      bits = withSign F (bytes.head? != some 45) v ∧
      bits = (if bytes.head? = some 45 then v + F.signMask else v) := by
  rw [parse_body_reached E F false bytes (Or.inl rfl)] at h
  obtain ⟨_, h2⟩ := parseBody_ok h
  rcases h2 with ⟨hc, _⟩ | ⟨_, v, hv, hb⟩
  · exact Bool.noConfusion hc
  · refine ⟨v, hv, ?_, ?_⟩
    · rw [← parseSign_fst]; exact hb
    · rw [hb, parseSign_fst, withSign]
      by_cases hh : bytes.head? = some 45 <;> simp [hh]

/-- for a library result below the sign mask, the sign bit of the answer is exactly the sign -/
theorem sign_bit (F : FloatC) (pos : Bool) (v : Nat) (hv : v < F.signMask) :
    withSign F pos v / F.signMask = (if pos then 0 else 1) ∧ withSign F pos v % F.signMask = v :=
  withSign_split F pos v hv

example : Front.parse E0 Gen.F64 false (b "-0x") = .ok Gen.F64.signMask 1 := by decide +kernel

-- ================================================================ 2. grammar, maximal munch
/-- The consumed prefix is a word of `G` and it is the longest prefix of the input in `G`.
    Stated for both variants whenever the number body is reached (`special = false`, or no
    literal matched). -/
theorem grammar_body {E : Env} {F : FloatC} {special : Bool} {bytes : List UInt8}
    {bits restLen : Nat}
    (hs : special = false ∨ (ciStartsWith (parseSign bytes).2 sNaN = false ∧
      ciStartsWith (parseSign bytes).2 sInf = false))
    (h : Front.parse E F special bytes = .ok bits restLen) :
    restLen ≤ bytes.length ∧
    InG (bytes.take (bytes.length - restLen)) ∧
    (∀ n, n ≤ bytes.length → InG (bytes.take n) → n ≤ bytes.length - restLen) := by
  rw [parse_body_reached E F special bytes hs] at h
  obtain ⟨hr, _⟩ := parseBody_ok h
  subst hr
  refine ⟨restOf_length_le bytes, ?_, ?_⟩
  · rw [← consumedOf_eq_take]; exact consumedOf_inG bytes
  · intro n hn hg
    have := munch_max bytes (bytes.take n) (bytes.drop n) (List.take_append_drop n bytes).symm hg
    rw [List.length_drop] at this
    omega

/-- The `simple` variant (item 2 as asked). -/
theorem grammar_simple {E : Env} {F : FloatC} {bytes : List UInt8} {bits restLen : Nat}
    (h : Front.parse E F false bytes = .ok bits restLen) :
    restLen ≤ bytes.length ∧
    InG (bytes.take (bytes.length - restLen)) ∧
    (∀ n, n ≤ bytes.length → InG (bytes.take n) → n ≤ bytes.length - restLen) :=
  grammar_body (Or.inl rfl) h

/-- maximal munch, negative form: no strictly longer prefix of the input is in `G` -/
theorem grammar_simple_no_longer {E : Env} {F : FloatC} {bytes : List UInt8} {bits restLen : Nat}
    (h : Front.parse E F false bytes = .ok bits restLen) (n : Nat)
    (h1 : bytes.length - restLen < n) (h2 : n ≤ bytes.length) : ¬ InG (bytes.take n) := by
  intro hg
  have := (grammar_simple h).2.2 n h2 hg
  omega

/-- The consumed prefix, component by component, and the greediness of each component:
    the sign is taken when present, the digit runs are maximal, the '.' and the exponent marker
    are taken whenever they are the next byte. -/
theorem grammar_components (bytes : List UInt8) :
    ∃ s i d x, bytes = s ++ i ++ d ++ x ++ restOf (parseSign bytes).2 ∧
      IsSign s ∧ AllDigits i ∧ IsDotPart d ∧ IsExpPart x ∧
      (s = [] → bytes.head? ≠ some 43 ∧ bytes.head? ≠ some 45) ∧
      (d ++ x ++ restOf (parseSign bytes).2).head?.all (fun c => !isDigit c) = true ∧
      (d = [] → (x ++ restOf (parseSign bytes).2).head? ≠ some 46) ∧
      (x = [] → (restOf (parseSign bytes).2).head? ≠ some 101 ∧
        (restOf (parseSign bytes).2).head? ≠ some 69) := by
  refine ⟨signPart bytes, intOf (parseSign bytes).2, dotPart (consumeDigits (parseSign bytes).2).2,
    expPart (fracSplit (consumeDigits (parseSign bytes).2).2).2, (decomposition bytes).symm,
    signPart_isSign _, consumeDigits_digits _, dotPart_isDotPart _, expPart_isExpPart _,
    ?_, ?_, ?_, ?_⟩
  · intro hs
    unfold signPart at hs
    split at hs <;> simp_all
    rename_i h1 h2
    cases bytes with
    | nil => simp
    | cons c t =>
      simp only [List.head?_cons, Option.some.injEq]
      exact ⟨fun hc => h1 t (by rw [hc]), fun hc => h2 t (by rw [hc])⟩
  · unfold restOf
    rw [List.append_assoc, expPart_append, dotPart_append]
    exact consumeDigits_head _
  · intro hd
    unfold restOf
    rw [expPart_append]
    generalize (consumeDigits (parseSign bytes).2).2 = b1 at hd ⊢
    unfold dotPart at hd
    split at hd
    · simp at hd
    · rename_i hne
      rw [fracSplit_nodot]
      · cases b1 with
        | nil => simp
        | cons c t =>
          simp only [List.head?_cons, ne_eq, Option.some.injEq]
          exact fun hc => hne t (by rw [hc])
      · cases b1 with
        | nil => simp
        | cons c t =>
          simp only [List.head?_cons, ne_eq, Option.some.injEq]
          exact fun hc => hne t (by rw [hc])
  · intro hx
    unfold restOf
    generalize (fracSplit (consumeDigits (parseSign bytes).2).2).2 = b2 at hx ⊢
    unfold expPart at hx
    split at hx
    · simp at hx
    · simp at hx
    · rename_i h1 h2
      have : b2.head? ≠ some 101 ∧ b2.head? ≠ some 69 := by
        cases b2 with
        | nil => simp
        | cons c t =>
          simp only [List.head?_cons, ne_eq, Option.some.injEq]
          exact ⟨fun hc => h1 t (by rw [hc]), fun hc => h2 t (by rw [hc])⟩
      rw [expSplit_none b2 this.1 this.2]
      exact this

example : consumedOf (b "1e") = b "1e" ∧ consumedOf (b "1.e5x") = b "1.e5" ∧
    consumedOf (b "-.5E+x") = b "-.5E+" ∧ consumedOf (b "+12.50e-07.3") = b "+12.50e-07" ∧
    consumedOf (b "e") = b "e" ∧ consumedOf (b "--1") = b "-" := by decide +kernel

example : Front.parse E0 Gen.F64 false (b "1.e5x") = .ok 4681608360884174848 1 := by
  decide +kernel

/-- the grammar theorems at work: "1.e5" is in `G`, "1.e5x" is not -/
example : InG (b "1.e5") ∧ ¬ InG (b "1.e5x") := by
  have h : Front.parse E0 Gen.F64 false (b "1.e5x") = .ok 4681608360884174848 1 := by
    decide +kernel
  have h1 := (grammar_simple h).2.1
  have h2 := grammar_simple_no_longer h 5 (by decide +kernel) (by decide +kernel)
  rw [show (b "1.e5x").take ((b "1.e5x").length - 1) = b "1.e5" by decide +kernel] at h1
  rw [show (b "1.e5x").take 5 = b "1.e5x" by decide +kernel] at h2
  exact ⟨h1, h2⟩

-- ================================================================ 7. special literals
/-- `case_insensitive_starts_with`: the pattern fits and every pattern byte is matched exactly or
    with bit 5 flipped. -/
theorem ciStartsWith_iff (bs p : List UInt8) :
    ciStartsWith bs p = true ↔
      p.length ≤ bs.length ∧ ∀ i, (hi : i < p.length) → (hb : i < bs.length) →
        bs[i] = p[i] ∨ bs[i] = p[i] ^^^ 32 :=
  Front.ciStartsWith_iff bs p

/-- For a pattern made of ASCII letters (in particular the three literals) this is ASCII
    case-insensitive prefix match. -/
theorem ciStartsWith_letters (bs p : List UInt8) (hp : ∀ c ∈ p, isAsciiLetter c = true) :
    ciStartsWith bs p = true ↔
      p.length ≤ bs.length ∧ (bs.take p.length).map asciiLower = p.map asciiLower :=
  Front.ciStartsWith_letters bs p hp

theorem literals_are_letters :
    (∀ c ∈ sNaN, isAsciiLetter c = true) ∧ (∀ c ∈ sInfinity, isAsciiLetter c = true) ∧
      (∀ c ∈ sInf, isAsciiLetter c = true) := ⟨sNaN_letters, sInfinity_letters, sInf_letters⟩

example : ciStartsWith (b "nAn(7)") sNaN = true ∧ ciStartsWith (b "na") sNaN = false ∧
    ciStartsWith (b "INFINITx") sInfinity = false ∧ ciStartsWith (b "INFINITx") sInf = true := by
  decide +kernel

/-- shape of a literal result: sign, a case-insensitive copy of the literal, the suffix -/
theorem literal_shape (bytes lit : List UInt8) (hl : ∀ c ∈ lit, isAsciiLetter c = true)
    (h : ciStartsWith (parseSign bytes).2 lit = true) :
    ∃ w suffix, bytes = signPart bytes ++ w ++ suffix ∧ w.map asciiLower = lit.map asciiLower ∧
      w.length = lit.length ∧ suffix.length = (parseSign bytes).2.length - lit.length := by
  obtain ⟨h1, h2⟩ := (Front.ciStartsWith_letters _ _ hl).mp h
  refine ⟨(parseSign bytes).2.take lit.length, (parseSign bytes).2.drop lit.length, ?_, h2, ?_, ?_⟩
  · rw [List.append_assoc, List.take_append_drop, parseSign_append]
  · rw [List.length_take]; omega
  · rw [List.length_drop]

/-- "nan" (any case) after the optional sign: the quiet-NaN pattern with the sign; the suffix
    starts right after the three letters. -/
theorem special_nan (E : Env) (F : FloatC) (bytes : List UInt8)
    (h : ciStartsWith (parseSign bytes).2 sNaN = true) :
    ∃ w suffix, bytes = signPart bytes ++ w ++ suffix ∧ w.map asciiLower = sNaN.map asciiLower ∧
      w.length = 3 ∧
      Front.parse E F true bytes =
        .ok (withSign F (bytes.head? != some 45) (F.exponentMask ||| (F.hiddenBitMask >>> 1)))
          suffix.length := by
  obtain ⟨w, suffix, h1, h2, h3, h4⟩ := literal_shape bytes sNaN sNaN_letters h
  refine ⟨w, suffix, h1, h2, h3, ?_⟩
  rw [parse_nan E F bytes h, h4, parseSign_fst]; rfl

/-- "infinity" (any case) is tried before "inf": infinity with the sign, suffix after 8 letters. -/
theorem special_infinity (E : Env) (F : FloatC) (bytes : List UInt8)
    (h : ciStartsWith (parseSign bytes).2 sInfinity = true) :
    ∃ w suffix, bytes = signPart bytes ++ w ++ suffix ∧
      w.map asciiLower = sInfinity.map asciiLower ∧ w.length = 8 ∧
      Front.parse E F true bytes =
        .ok (withSign F (bytes.head? != some 45) F.exponentMask) suffix.length := by
  obtain ⟨w, suffix, h1, h2, h3, h4⟩ := literal_shape bytes sInfinity sInfinity_letters h
  refine ⟨w, suffix, h1, h2, h3, ?_⟩
  rw [parse_infinity E F bytes h, h4, parseSign_fst]; rfl

/-- "inf" (any case) not followed by "inity": infinity with the sign, suffix after 3 letters. -/
theorem special_inf (E : Env) (F : FloatC) (bytes : List UInt8)
    (h : ciStartsWith (parseSign bytes).2 sInf = true)
    (h' : ciStartsWith (parseSign bytes).2 sInfinity = false) :
    ∃ w suffix, bytes = signPart bytes ++ w ++ suffix ∧ w.map asciiLower = sInf.map asciiLower ∧
      w.length = 3 ∧
      Front.parse E F true bytes =
        .ok (withSign F (bytes.head? != some 45) F.exponentMask) suffix.length := by
  obtain ⟨w, suffix, h1, h2, h3, h4⟩ := literal_shape bytes sInf sInf_letters h
  refine ⟨w, suffix, h1, h2, h3, ?_⟩
  rw [parse_inf E F bytes h h', h4, parseSign_fst]; rfl

/-- With no literal, the `special` variant runs the same number body as `simple`. -/
theorem special_no_literal (E : Env) (F : FloatC) (bytes : List UInt8)
    (h1 : ciStartsWith (parseSign bytes).2 sNaN = false)
    (h2 : ciStartsWith (parseSign bytes).2 sInf = false) :
    Front.parse E F true bytes =
      parseBody E F true bytes.length (parseSign bytes).1 (parseSign bytes).2 :=
  parse_noliteral E F bytes h2 h1

example : Front.parse E0 Gen.F64 true (b "-iNfinityx") =
      .ok (Gen.F64.exponentMask + Gen.F64.signMask) 1 ∧
    Front.parse E0 Gen.F64 true (b "+INFinitx") = .ok Gen.F64.exponentMask 5 ∧
    Front.parse E0 Gen.F32 true (b "nan") = .ok 0x7fc00000 0 := by decide +kernel

-- ================================================================ 8. the empty-match rule
/-- `special` variant: if nothing at all is consumed, the result is `+0` (and the suffix is the
    whole input, which is what `restLen = bytes.length` says). -/
theorem empty_match {E : Env} {F : FloatC} {bytes : List UInt8} {bits restLen : Nat}
    (h : Front.parse E F true bytes = .ok bits restLen) (hr : restLen = bytes.length) :
    bits = 0 := by
  have hlen := parseSign_snd_length bytes
  by_cases hn : ciStartsWith (parseSign bytes).2 sNaN = true
  · rw [parse_nan E F bytes hn] at h
    have := ciStartsWith_length hn
    have h3 : sNaN.length = 3 := rfl
    injection h with _ h2
    omega
  by_cases hi : ciStartsWith (parseSign bytes).2 sInf = true
  · have h3 : sInf.length = 3 := rfl
    have := ciStartsWith_length hi
    by_cases hy : ciStartsWith (parseSign bytes).2 sInfinity = true
    · rw [parse_infinity E F bytes hy] at h
      injection h with _ h2
      omega
    · rw [parse_inf E F bytes hi (by simpa using hy)] at h
      injection h with _ h2
      omega
  rw [parse_noliteral E F bytes (by simpa using hi) (by simpa using hn)] at h
  obtain ⟨_, h2⟩ := parseBody_ok h
  rcases h2 with ⟨_, _, hb⟩ | ⟨hc, _⟩
  · exact hb
  · rcases hc with hc | hc
    · exact Bool.noConfusion hc
    · exact absurd hr hc

/-- Conversely, in the `special` variant an empty match (no literal, nothing consumed) always
    yields `.ok 0 bytes.length`; the library is not called. -/
theorem empty_match_conv (E : Env) (F : FloatC) (bytes : List UInt8)
    (h1 : ciStartsWith (parseSign bytes).2 sNaN = false)
    (h2 : ciStartsWith (parseSign bytes).2 sInf = false)
    (h3 : (restOf (parseSign bytes).2).length = bytes.length) :
    Front.parse E F true bytes = .ok 0 bytes.length := by
  rw [parse_noliteral E F bytes h2 h1, parseBody_eq]
  simp [h3]

/-- When something is consumed and no literal matches, both variants agree. -/
theorem special_eq_simple (E : Env) (F : FloatC) (bytes : List UInt8)
    (h1 : ciStartsWith (parseSign bytes).2 sNaN = false)
    (h2 : ciStartsWith (parseSign bytes).2 sInf = false)
    (h3 : (restOf (parseSign bytes).2).length ≠ bytes.length) :
    Front.parse E F true bytes = Front.parse E F false bytes := by
  rw [parse_noliteral E F bytes h2 h1, parse_body_reached E F false bytes (Or.inl rfl),
    parseBody_eq, parseBody_eq]
  simp [h3]

example : Front.parse E0 Gen.F64 true (b "x1") = .ok 0 2 := by decide +kernel

end MinLex.C19
