/-
  Property C04, local parts: on valid input no overflow check / debug assertion of a checked build
  (`parseFloatTraps`) fires.  The trap flag of the model is a disjunction over the places listed in
  `Model/Parse.lean`; this file discharges every disjunct that is local to one stage:

   (a) `parse_number`: digit arithmetic                       (`parseNumberTraps`, restated)
   (b) `scientific_exponent` and the `exponent` of `slow`     (`sciTraps`, `inI32 exponent`),
       and the exponent range on which the moderate stage can decline at all
   (c) `f32::from_bits` (`extendedToFloatTraps`) for every definite moderate answer, every result of
       `round`, and every result of the slow path
   (d) `debug_assert!(shift <= 65)` in `round`                (`roundTraps`)
   (e) `parse_mantissa`: digit arithmetic                     (`PM.trap`)

  and assembles them: `C04_slowBranch` (everything after a declined moderate answer), and
  `C04_lemire` (the whole of `parseFloatTraps` for the non-compact configurations, assuming only the
  hand-off fact `−64 ≤ exp` of a declined Lemire answer, which is part of contract `EstOK`/C11).
  (b)–(d) and the slow-path part of (c) need no validity assumption on the digits at all.
-/
import MinLex.Proofs.Sites
import MinLex.Props.ParseNumber
import MinLex.Props.LemireArith
namespace MinLex.C04
open MinLex MinLex.Sites MinLex.LemireP

-- ================================================================ (a) parse_number

/-- (a) a checked build never traps in `parse_number` on valid input -/
theorem C04a_parseNumber {int frac : List UInt8} {e : Int} (h : Valid int frac e) :
    parseNumberTraps int frac e = false := parseNumberTraps_valid h

example : parseNumberTraps [49, 50] [53] 7 = false :=
  C04a_parseNumber (by unfold Valid; decide)

-- ================================================================ (b) scientific exponent

/-- (b) the non-wrapping `scientific_exponent` of any `u64` mantissa stays in `i32` as long as the
    exponent is at least 19 below `i32::MAX` -/
theorem C04b_sciTraps {n : Number} (hm : n.mantissa < 2 ^ 64) (h1 : i32Min ≤ n.exponent)
    (h2 : n.exponent + 19 ≤ i32Max) : sciTraps n = false := sciTraps_false hm h1 h2

/-- (b) the wrapping `scientific_exponent` of the model does not wrap and lies in
    `[exponent, exponent + 44]` -/
theorem C04b_sciExp {n : Number} (h1 : i32Min ≤ n.exponent) (h2 : n.exponent + 44 ≤ i32Max) :
    n.exponent ≤ scientificExponent n ∧ scientificExponent n ≤ n.exponent + 44 :=
  scientificExponent_bounds h1 h2

/-- (b) `parse_mantissa` counts at most `max_digits + 1` digits (arbitrary bytes) -/
theorem C04b_count (cap : Option Nat) (T : PowTables) (int frac : List UInt8) {md : Nat} (hmd : 1 ≤ md) :
    (parseMantissaPM cap T int frac md).count ≤ md + 1 := parseMantissaPM_count cap T int frac hmd

/-- (b) `sci_exp + 1 - digits as i32` in `slow` neither overflows nor wraps -/
theorem C04b_exponent {n : Number} {count : Nat} (h1 : i32Min + count ≤ n.exponent)
    (h2 : n.exponent + 45 ≤ i32Max) (hc : (count : Int) ≤ i32Max) :
    inI32 (scientificExponent n + 1 - asI32 count) = true ∧
    wrapI32 (scientificExponent n + 1 - asI32 count) = scientificExponent n + 1 - count :=
  slowExponent_inI32 h1 h2 hc

/-- (b) in particular on the whole range where a moderate stage can decline (Lemire:
    `SMALLEST_POWER_OF_TEN ≤ q ≤ LARGEST_POWER_OF_TEN`, see `C04b_lemire_range`; Bellerophon:
    `|q| < 4096`), widened to `|q| ≤ 5000`, for both formats -/
theorem C04b_moderate_range {F : FloatC} (hF : F = Gen.F32 ∨ F = Gen.F64) {n : Number}
    (hm : n.mantissa < 2 ^ 64) (h1 : -5000 ≤ n.exponent) (h2 : n.exponent ≤ 5000)
    (cap : Option Nat) (T : PowTables) (int frac : List UInt8) :
    sciTraps n = false ∧
    inI32 (scientificExponent n + 1 - asI32 (parseMantissaPM cap T int frac F.maxDigits).count) = true := by
  have hmd : 1 ≤ F.maxDigits ∧ F.maxDigits ≤ 769 := by rcases hF with rfl | rfl <;> decide
  have hc := parseMantissaPM_count cap T int frac hmd.1
  refine ⟨sciTraps_false hm (by unfold i32Min; omega) (by unfold i32Max; omega), ?_⟩
  exact (slowExponent_inI32 (by unfold i32Min; omega) (by unfold i32Max; omega)
    (by unfold i32Max; omega)).1

/-- (b) Lemire declines (`exp < 0`) only for `SMALLEST_POWER_OF_TEN ≤ q ≤ LARGEST_POWER_OF_TEN`, and
    then hands over a normalised significand (`debug_assert!(fp.mant & (1 << 63) != 0)` in `slow`) -/
theorem C04b_lemire_range {F : FloatC} (h : LemF F) (num : Number) (hm0 : 0 < num.mantissa)
    (hm : num.mantissa + 1 < 2 ^ 64) {fp : ExtFloat} (he : lemire genLemire F num = some fp)
    (hneg : fp.exp < 0) :
    F.smallestPowerOfTen ≤ num.exponent ∧ num.exponent ≤ F.largestPowerOfTen ∧
    2 ^ 63 ≤ fp.mant ∧ fp.mant < 2 ^ 64 := lemire_declined_range h num hm0 hm he hneg

example : sciTraps ⟨-342, 2 ^ 64 - 1, true⟩ = false ∧
    inI32 (scientificExponent ⟨-342, 2 ^ 64 - 1, true⟩ + 1 -
      asI32 (parseMantissaPM none (genPow false) [49] [50] Gen.F64.maxDigits).count) = true :=
  C04b_moderate_range (Or.inr rfl) (by decide) (by decide) (by decide) _ _ _ _

/-- the hypothesis `exponent + 19 ≤ i32::MAX` of `C04b_sciTraps` is needed -/
example : sciTraps ⟨i32Max, 10, false⟩ = true := by decide +kernel

-- ================================================================ (c) f32::from_bits

/-- (c) a definite moderate answer packs without tripping `debug_assert!(u <= 0xffff_ffff)` -/
theorem C04c_definite {F : FloatC} (hF : F.WF) {fp : ExtFloat} (hd : Definite F fp) :
    extendedToFloatTraps F fp = false := (LemireArith.definite_bits hF hd).2.2

/-- (c) every result of `round` (either callback, ANY input exponent, any `u64` significand) is
    definite: `0 ≤ exp ≤ INFINITE_POWER`, `mant < 2^ms` or the subnormal carry, `mant = 0` at infinity -/
theorem C04c_round_shape {F : FloatC} (hF : F.WF) (fp : ExtFloat) (hm : fp.mant < 2 ^ 64) :
    (∀ cb : RoundCb, Definite F (round F (roundNearestTieEven cb) fp)) ∧ Definite F (round F roundDown fp) :=
  ⟨fun cb => round_nearest_definite hF cb fp hm, round_down_definite hF fp hm⟩

/-- (c) … hence packs without trapping, with a bit pattern `≤ +∞` -/
theorem C04c_round {F : FloatC} (hF : F.WF) (fp : ExtFloat) (hm : fp.mant < 2 ^ 64) (cb : RoundCb) :
    extendedToFloatTraps F (round F (roundNearestTieEven cb) fp) = false ∧
    extendedToFloatTraps F (round F roundDown fp) = false ∧
    extendedToFloat F (round F (roundNearestTieEven cb) fp) ≤ F.fmt.infBits := by
  have h := C04c_round_shape hF fp hm
  exact ⟨C04c_definite hF (h.1 cb), C04c_definite hF h.2, (LemireArith.definite_bits hF (h.1 cb)).2.1⟩

/-- (c) every result of the slow path — for ARBITRARY bytes, any `Number`, any estimate with a `u64`
    significand, either back-end — is definite and packs without trapping -/
theorem C04c_slow {cap : Option Nat} {T : PowTables} {F : FloatC} (hF : F.WF) (hT : TablesLt T)
    {num : Number} {fp : ExtFloat} (hm : fp.mant < 2 ^ 64) {int frac : List UInt8} {r : ExtFloat}
    (h : slow cap T F num fp int frac = some r) : Definite F r ∧ extendedToFloatTraps F r = false :=
  ⟨slow_definite hF hT hm h, C04c_definite hF (slow_definite hF hT hm h)⟩

example : extendedToFloatTraps Gen.F32 (round Gen.F32 (roundNearestTieEven cbNearestEven) ⟨2 ^ 64 - 1, -40⟩) = false :=
  (C04c_round F32_WF _ (by decide) _).1

/-- the hypothesis `mant < 2^64` is needed: a significand that is not a `u64` can trap -/
example : extendedToFloatTraps Gen.F32 (round Gen.F32 roundDown ⟨2 ^ 100, -40⟩) = true := by decide +kernel

-- ================================================================ (d) round's shift assertion

/-- (d) `debug_assert!(shift <= 65)` holds whenever `exp ≥ −64` (the hand-off contract of the
    moderate stage) -/
theorem C04d_roundTraps (F : FloatC) {fp : ExtFloat} (h : -64 ≤ fp.exp) : roundTraps F fp = false :=
  roundTraps_false F h

/-- (d) exactly: the assertion fails iff `exp < −64` -/
theorem C04d_roundTraps_iff {F : FloatC} (hF : F.WF) (fp : ExtFloat) :
    roundTraps F fp = true ↔ fp.exp < -64 := by
  rw [roundTraps_iff]
  have := hF.ms_pos
  constructor
  · exact fun h => h.1
  · intro h; exact ⟨h, by omega⟩

example : roundTraps Gen.F64 ⟨2 ^ 63, -64⟩ = false ∧ roundTraps Gen.F64 ⟨2 ^ 63, -65⟩ = true := by decide

-- ================================================================ (e) parse_mantissa

/-- (e) on digit input `value * 10 + digit` never overflows `u64` in `parse_mantissa`
    (the temporary holds fewer than 19 digits: `value < 10^18` before the step) -/
theorem C04e_addDigit {s : PM} {c : UInt8} (hc : isDigit c = true) (hcnt : s.counter ≤ 18)
    (hv : s.value < 10 ^ s.counter) (ht : s.trap = false) :
    (s.addDigit c).trap = false ∧ s.value * 10 + digitVal c < u64Mod :=
  ⟨(addDigit_noTrap hc hcnt hv ht).1, (addDigit_noTrap hc hcnt hv ht).2.2.2⟩

/-- (e) the trap flag of `parse_mantissa` is false on digit input (any `max_digits`, back-end, tables;
    leading zeros allowed) -/
theorem C04e_parseMantissa (cap : Option Nat) (T : PowTables) {int frac : List UInt8} (md : Nat)
    (hi : ∀ c ∈ int, isDigit c = true) (hf : ∀ c ∈ frac, isDigit c = true) :
    (parseMantissaPM cap T int frac md).trap = false := parseMantissaPM_noTrap cap T md hi hf

example : (parseMantissaPM (some 62) (genPow false) (List.replicate 40 57) [48, 49] 769).trap = false :=
  C04e_parseMantissa _ _ _ (by decide) (by decide)

/-- on non-digit bytes the flag is raised (so (e) is not vacuous) -/
example : (parseMantissaPM (some 62) (genPow false) [47] [] 769).trap = true := by decide +kernel

-- ================================================================ assembly: after a declined answer

/-- the disjuncts of `parseFloatTraps` that belong to the big-integer path, for a declined estimate
    `fp1 = ⟨fp.mant, fp.exp − INVALID_FP⟩` -/
def slowBranchTraps (E : Env) (F : FloatC) (num : Number) (fp1 : ExtFloat) (int frac : List UInt8) : Bool :=
  let pm := parseMantissaPM E.cap E.pow int frac F.maxDigits
  let exponent := scientificExponent num + 1 - asI32 pm.count
  decide (fp1.mant < 9223372036854775808) || sciTraps num || pm.trap || !inI32 exponent ||
  (exponent < 0 && roundTraps F fp1) ||
  (match slow E.cap E.pow F num fp1 int frac with
   | none => false
   | some fp' => extendedToFloatTraps F fp')

/-- `parseFloatTraps`, with the slow-path disjuncts folded into `slowBranchTraps` -/
theorem parseFloatTraps_eq (E : Env) (F : FloatC) (int frac : List UInt8) (e : Int) :
    parseFloatTraps E F int frac e =
      (parseNumberTraps int frac e ||
       (match tryFastPath F (E.powFastPath F) (intPow10 E.cfg.compact E.pow.smallIntPow10)
           (parseNumber int frac e) with
        | some _ => false
        | none =>
          (if E.cfg.compact then false else lemireTraps E.lem F (parseNumber int frac e)) ||
          (match moderatePath E F (parseNumber int frac e) with
           | none => false
           | some fp =>
             if fp.exp < 0 then
               slowBranchTraps E F (parseNumber int frac e) ⟨fp.mant, wrapI32 (fp.exp - F.invalidFp)⟩ int frac
             else extendedToFloatTraps F fp))) := rfl

/-- C04, big-integer path: no assertion or overflow check fires after a declined moderate answer that
    satisfies the hand-off contract (`2^63 ≤ mant < 2^64`, `−64 ≤ exp`), for digit input and a `Number`
    whose exponent is in the (generously widened) range on which a moderate stage can decline -/
theorem C04_slowBranch {E : Env} {F : FloatC} (hF : F = Gen.F32 ∨ F = Gen.F64) (hT : TablesLt E.pow)
    {num : Number} (hm : num.mantissa < 2 ^ 64) (h1 : -5000 ≤ num.exponent) (h2 : num.exponent ≤ 5000)
    {fp1 : ExtFloat} (hn : 2 ^ 63 ≤ fp1.mant) (hn' : fp1.mant < 2 ^ 64) (hexp : -64 ≤ fp1.exp)
    {int frac : List UInt8} (hi : ∀ c ∈ int, isDigit c = true) (hf : ∀ c ∈ frac, isDigit c = true) :
    slowBranchTraps E F num fp1 int frac = false := by
  have hWF : F.WF := by rcases hF with rfl | rfl; exact F32_WF; exact F64_WF
  have hb := C04b_moderate_range hF hm h1 h2 E.cap E.pow int frac
  have he := C04e_parseMantissa E.cap E.pow F.maxDigits hi hf
  have hd := C04d_roundTraps F hexp
  unfold slowBranchTraps
  simp only []
  rw [hb.1, hb.2, he, hd]
  have h63 : decide (fp1.mant < 9223372036854775808) = false := by
    simp only [decide_eq_false_iff_not]; omega
  rw [h63]
  simp only [Bool.or_self, Bool.not_true, Bool.and_false, Bool.false_or]
  cases hs : slow E.cap E.pow F num fp1 int frac with
  | none => rfl
  | some r => exact (C04c_slow hWF hT hn' hs).2

example : slowBranchTraps (genEnv ⟨false, false, true⟩) Gen.F64 ⟨-30, 1234567890123456789, true⟩
    ⟨2 ^ 63 + 12345, -20⟩ [49, 50, 51, 52, 53, 54, 55, 56, 57, 48, 49, 50, 51, 52, 53, 54, 55, 56, 57, 53] [] = false :=
  C04_slowBranch (Or.inr rfl) (genPow_tablesLt _) (by decide) (by decide) (by decide) (by decide)
    (by decide) (by decide) (by decide) (by decide)

-- ================================================================ assembly: the non-compact configurations

/-- `lemire` cannot trap unless digits were truncated -/
theorem lemireTraps_few (T : LemireTables) (F : FloatC) (num : Number) (h : num.manyDigits = false) :
    lemireTraps T F num = false := by
  unfold lemireTraps
  split
  · rfl
  · rw [if_neg (by rw [h]; simp)]

/-- `lemire` on a zero mantissa without truncated digits answers zero -/
theorem lemire_zero (T : LemireTables) (F : FloatC) (num : Number) (h0 : num.mantissa = 0)
    (h : num.manyDigits = false) : lemire T F num = some ⟨0, 0⟩ := by
  unfold lemire
  rw [h0, computeFloat_zero]
  simp only []
  rw [if_neg (by rw [h]; simp)]

/-- C04 for the default (non-compact) configurations, both formats, both back-ends: on valid input whose
    `Number` has the shape `NumOK` (`mantissa < 10^19`, truncation only with a non-zero mantissa — both
    proved for `parse_number` in Props/ParseNumber) no overflow check or debug assertion fires anywhere in
    `parse_float`, PROVIDED a declined Lemire answer has `−64 ≤ exp − INVALID_FP` (third conjunct of the
    hand-off contract `EstOK`, established with C11). -/
theorem C04_lemire (cfg : Cfg) (hc : cfg.compact = false) {F : FloatC} (hF : F = Gen.F32 ∨ F = Gen.F64)
    {int frac : List UInt8} {e : Int} (hv : Valid int frac e)
    (hm : (parseNumber int frac e).mantissa < 10 ^ 19)
    (hmany : (parseNumber int frac e).manyDigits = true → 0 < (parseNumber int frac e).mantissa)
    (hest : ∀ fp, lemire genLemire F (parseNumber int frac e) = some fp → fp.exp < 0 →
      -64 ≤ wrapI32 (fp.exp - F.invalidFp)) :
    parseFloatTraps (genEnv cfg) F int frac e = false := by
  have hL : LemF F := by rcases hF with rfl | rfl; exact LemF_F32; exact LemF_F64
  have hrange : -342 ≤ F.smallestPowerOfTen ∧ F.largestPowerOfTen ≤ 308 := ⟨hL.sm, hL.lg⟩
  rw [parseFloatTraps_eq, C04a_parseNumber hv, Bool.false_or]
  generalize hnum : parseNumber int frac e = num at hm hmany hest ⊢
  split
  · rfl
  · have hcfg : (genEnv cfg).cfg.compact = false := hc
    have hmod : moderatePath (genEnv cfg) F num = lemire genLemire F num := by
      unfold moderatePath; rw [hcfg]; rfl
    rw [hcfg, hmod]
    simp only [Bool.false_eq_true, if_false]
    have hlem : (genEnv cfg).lem = genLemire := rfl
    rw [hlem]
    have h19 : (10 : Nat) ^ 19 + 1 < 2 ^ 64 := by norm_num
    by_cases hm0 : num.mantissa = 0
    · have hfew : num.manyDigits = false := by
        cases hmd : num.manyDigits with
        | false => rfl
        | true => have := hmany hmd; omega
      rw [lemireTraps_few _ _ _ hfew, lemire_zero _ _ _ hm0 hfew]
      simp only [Bool.false_or]
      rw [if_neg (by simp)]
      exact C04c_definite hL.wf (definite_zero hL.wf)
    · have hpos : 0 < num.mantissa := Nat.pos_of_ne_zero hm0
      have hlt : num.mantissa + 1 < 2 ^ 64 := by omega
      rw [(LemireArith.lemire_no_panic hL num hpos hlt).2, Bool.false_or]
      obtain ⟨fp, hfp, hshape⟩ := LemireArith.lemire_shape hL num hpos hlt
      rw [hfp]
      simp only []
      by_cases hneg : fp.exp < 0
      · rw [if_pos hneg]
        obtain ⟨r1, r2, r3, r4⟩ := lemire_declined_range hL num hpos hlt hfp hneg
        exact C04_slowBranch (E := genEnv cfg) (fp1 := ⟨fp.mant, wrapI32 (fp.exp - F.invalidFp)⟩) hF
          (genPow_tablesLt cfg.compact) (by omega) (by omega) (by omega) r3 r4
          (hest fp hfp hneg) hv.1 hv.2.1
      · rw [if_neg hneg]
        rcases hshape with hd | hd
        · exact C04c_definite hL.wf hd
        · exact absurd hd.1 hneg

/-- non-vacuity: an input on which Lemire declines (`9495784171365944765e-329`, a subnormal whose
    128-bit product is all ones in the low word), satisfying every hypothesis of `C04_lemire` -/
example : parseFloatTraps (genEnv ⟨false, false, true⟩) Gen.F64
    [57, 52, 57, 53, 55, 56, 52, 49, 55, 49, 51, 54, 53, 57, 52, 52, 55, 54, 53] [] (-329) = false := by
  refine C04_lemire _ rfl (Or.inr rfl) (by unfold Valid; decide) (by decide +kernel) (by decide +kernel) ?_
  intro fp h hneg
  have : lemire genLemire Gen.F64 (parseNumber
      [57, 52, 57, 53, 55, 56, 52, 49, 55, 49, 51, 54, 53, 57, 52, 52, 55, 54, 53] [] (-329)) =
      some ⟨10076648181356878170, -32786⟩ := by decide +kernel
  rw [this] at h
  cases h
  decide

end MinLex.C04
