/-
  Property C16: "the result is a pure function of the bytes and the exponent" — independent of the
  iterator shape, of buffer addresses, of what earlier calls left on the stack, of concurrent callers.

  WHAT IS A THEOREM HERE AND WHAT IS NOT.
  * In the model, `parseFloat E F int frac e : Outcome` is a Lean function of `(E, F, int, frac, e)`;
    there is no heap, no address, no clock, no thread, no previous call.  Purity OF THE MODEL is
    therefore true by construction (`C16_pure` is `rfl`-level and is recorded only so that the claim has
    a name).  That the REAL code computes this function whatever iterator adaptors deliver the bytes,
    wherever its buffers live, whatever the stack held before and whoever runs beside it, is NOT a
    statement about the model; it is covered by the correspondence check (slice / chained / chunked /
    byte-at-a-time iterators, poisoned stacks, moved buffers, parallel callers, Miri) — see DESIGN C16.
  * What the model CAN say, and what the run-time check relies on, is that the three places where
    hidden state could leak into a result do not leak:
      (b) `C16_no_stale_memory`  — uninitialised / stale buffer contents: the `StackVec` is a
          `[MaybeUninit<Limb>; 62]` that is never cleared, so after an earlier call (or at any time) it
          holds arbitrary garbage; no observable depends on a slot `≥ len` (re-export of C13 (h), (i)
          and of the raw-pointer `shl_limbs` independence of C08);
      (c) iterator shape — the model threads list suffixes exactly as the Rust code threads iterator
          state; the only assumption on the iterator type (`Iterator<Item = &u8> + Clone`) that the code
          uses is that the clone taken for the second traversal (`parse_mantissa`) yields the same bytes
          as the first (`parse_number`).  `C16_two_traversals` makes this explicit; the rest are the
          (trivial) remarks that nothing depends on how a byte list was produced or split;
      (d) `C16_deterministic_tables` — the constant tables are read through `get_unchecked`; the result
          depends on in-bounds slots only (re-export of `C08_noninterference` / `C08_final_complete`), so
          whatever the linker places next to the tables cannot influence a result.
    Concurrency: the crate has no `static mut`, no interior mutability, no thread-local; all tables are
    immutable `const`/`static` data, which in the model is the value `E : Env` passed to every call.
-/
import MinLex.Props.C13
import MinLex.Props.C08
import MinLex.Props.C08Final
namespace MinLex.C16
open MinLex

-- ================================================================ (a) purity of the model

/-- **C16 (a)** — nothing to prove: the model of `parse_float` is a function of the configuration data,
    the format record, the two byte sequences and the exponent.  (Recorded as a theorem only to give the
    claim a name; the proof is congruence of equality.) -/
theorem C16_pure (E : Env) (F : FloatC) {int int' frac frac' : List UInt8} {e e' : Int}
    (hi : int = int') (hf : frac = frac') (he : e = e') :
    parseFloat E F int frac e = parseFloat E F int' frac' e' := by rw [hi, hf, he]

/-- a sequence of calls: the `i`-th result is the result of the `i`-th call alone — the model has no
    state that one call could leave behind for the next (again trivial, by `List.getElem?_map`) -/
theorem C16_call_sequence (E : Env) (F : FloatC) (calls : List (List UInt8 × List UInt8 × Int)) (i : Nat) :
    (calls.map fun c => parseFloat E F c.1 c.2.1 c.2.2)[i]? =
      calls[i]?.map fun c => parseFloat E F c.1 c.2.1 c.2.2 := List.getElem?_map ..

-- ================================================================ (b) no stale / uninitialised memory

open C13 in
/-- **C16 (b).**  No result depends on uninitialised buffer contents or on what earlier calls left
    behind.  Exact statements of `C13h_independent`, `C13h_observers`, `C13i_scrambled`,
    `C13i_independent` (Props/C13) and `C08_shlLimbs_independent` (Props/C08):

    1. the same history of vector operations, run on two ARBITRARY initial 62-slot buffers `b1`, `b2`
       (e.g. the stack as two different earlier calls left it) with two arbitrary streams `g1`, `g2` of
       garbage for fresh buffers, shows the same visible contents and success flags after every step;
    2. the observers `hi64`, `compare`, `is_normalized`, `pop` agree on the two runs;
    3. even if an adversary overwrites ALL dead slots (`≥ len`) after every single operation, the trace
       is that of the abstract bounded sequence `vtrace (some 62)`;
    4. scrambled and unscrambled runs from arbitrary buffers agree;
    5. the raw-pointer `shl_limbs` (`ptr::copy`, `write_bytes`, `set_len`) on two buffers with the same
       live part gives the same live part. -/
theorem C16_no_stale_memory :
    (∀ (b1 b2 : Nat → Nat) (g1 g2 : Nat → Nat → Nat) (ops : List VOp),
      lowTrace false (LowVec.new b1) ops g1 = lowTrace false (LowVec.new b2) ops g2) ∧
    (∀ (b1 b2 : Nat → Nat) (g1 g2 : Nat → Nat → Nat) (ops : List VOp) (y : Big),
      let w1 := lowRun false (LowVec.new b1) ops g1
      let w2 := lowRun false (LowVec.new b2) ops g2
      hi64 w1.deref = hi64 w2.deref ∧ bigCompare w1.deref y = bigCompare w2.deref y ∧
      isNormalized w1.deref = isNormalized w2.deref ∧ lowPopVal w1 = lowPopVal w2) ∧
    (∀ (b : Nat → Nat) (g : Nat → Nat → Nat) (ops : List VOp),
      lowTrace true (LowVec.new b) ops g = vtrace (some 62) [] ops) ∧
    (∀ (b1 b2 : Nat → Nat) (g1 g2 : Nat → Nat → Nat) (ops : List VOp),
      lowTrace true (LowVec.new b1) ops g1 = lowTrace false (LowVec.new b2) ops g2) ∧
    (∀ (v1 v2 : LowVec) (n : Nat), v1.deref = v2.deref →
      (LowVec.shlLimbs v1 n).map LowVec.deref = (LowVec.shlLimbs v2 n).map LowVec.deref) :=
  ⟨C13h_independent, C13h_observers, C13i_scrambled, C13i_independent, C08.C08_shlLimbs_independent⟩

/-- (b), the abstract side: the big-integer model the parser is written against IS the bounded
    sequence these low-level runs refine; a low-level run from ANY buffer has the model's contents -/
theorem C16_low_refines_model (scramble : Bool) (b : Nat → Nat) (ops : List C13.VOp) (g : Nat → Nat → Nat) :
    (C13.lowRun scramble (LowVec.new b) ops g).deref = C13.vrun (some 62) [] ops :=
  C13.C13g_history scramble b ops g

-- non-vacuity: the dead slots really differ between the two runs, the visible contents do not
example :
    (C13.lowRun false (LowVec.new (fun _ => 0)) [.resize 3 7, .pop, .pop, .resize 3 1] (fun _ _ => 0)).deref
    = (C13.lowRun false (LowVec.new (fun i => 5 * i + 1)) [.resize 3 7, .pop, .pop, .resize 3 1]
        (fun k i => k + i)).deref ∧
    (C13.lowRun false (LowVec.new (fun _ => 0)) [.resize 3 7, .pop, .pop, .resize 3 1] (fun _ _ => 0)).buf 40
    ≠ (C13.lowRun false (LowVec.new (fun i => 5 * i + 1)) [.resize 3 7, .pop, .pop, .resize 3 1]
        (fun k i => k + i)).buf 40 := by decide

-- ================================================================ (c) iterator shape

/-- `parse_float` with the two traversals of the input made explicit: `parse_number` consumes the
    iterators `int₁`, `frac₁`; if the moderate stage declines, `slow::parse_mantissa` consumes the CLONES
    `int₂`, `frac₂` taken before the first traversal. -/
def parseFloat2 (E : Env) (F : FloatC) (int₁ frac₁ int₂ frac₂ : List UInt8) (e : Int) : Outcome :=
  let num := parseNumber int₁ frac₁ e
  match tryFastPath F (E.powFastPath F) (intPow10 E.cfg.compact E.pow.smallIntPow10) num with
  | some v => .ok v
  | none =>
    match moderatePath E F num with
    | none => .panic
    | some fp =>
      if fp.exp < 0 then
        match slow E.cap E.pow F num ⟨fp.mant, wrapI32 (fp.exp - F.invalidFp)⟩ int₂ frac₂ with
        | none => .panic
        | some fp' => .ok (extendedToFloat F fp')
      else .ok (extendedToFloat F fp)

/-- **C16 (c).**  The model is the two-traversal function with both traversals seeing the same bytes.
    This is the ONLY property of the iterator type the code relies on: a clone replays the same
    sequence (deterministic, and — because the loops stop at the first `None` — fused or not). -/
theorem C16_two_traversals (E : Env) (F : FloatC) (int frac : List UInt8) (e : Int) :
    parseFloat E F int frac e = parseFloat2 E F int frac int frac e := rfl

/-- … and the assumption is needed: if the clone replayed different bytes the result would change
    (first traversal `9007199254740993` + 21 zeros + `1`, second traversal with the final `1` replaced
    by `0`: the sticky digit is lost and the tie goes to even) -/
example :
    let int : List UInt8 := [57, 48, 48, 55, 49, 57, 57, 50, 53, 52, 55, 52, 48, 57, 57, 51]
    parseFloat2 (genEnv ⟨false, false, true⟩) Gen.F64 int (List.replicate 21 48 ++ [49]) int
        (List.replicate 21 48 ++ [49]) 0 = .ok 0x4340000000000001 ∧
    parseFloat2 (genEnv ⟨false, false, true⟩) Gen.F64 int (List.replicate 21 48 ++ [49]) int
        (List.replicate 21 48 ++ [48]) 0 = .ok 0x4340000000000000 := by decide +kernel

/-- remark: `parse_number`, `parse_mantissa` and `parse_float` see `int` / `frac` only as sequences of
    bytes (trivial: they are functions on `List UInt8`) … -/
theorem C16_depends_on_bytes_only (E : Env) (F : FloatC) (cap : Option Nat) (T : PowTables) (md : Nat)
    {int int' frac frac' : List UInt8} (e : Int) (hi : int = int') (hf : frac = frac') :
    parseNumber int frac e = parseNumber int' frac' e ∧
    parseMantissaPM cap T int frac md = parseMantissaPM cap T int' frac' md ∧
    parseFloat E F int frac e = parseFloat E F int' frac' e := by
  subst hi hf; exact ⟨rfl, rfl, rfl⟩

/-- … in particular not on HOW the sequence was split into pieces: a `chain` of two slices, or any
    chunking, gives the result of the concatenation (trivial, by rewriting) -/
theorem C16_split_irrelevant (E : Env) (F : FloatC) {a b a' b' : List UInt8} (frac : List UInt8) (e : Int)
    (h : a ++ b = a' ++ b') : parseFloat E F (a ++ b) frac e = parseFloat E F (a' ++ b') frac e := by
  rw [h]

theorem C16_chunking_irrelevant (E : Env) (F : FloatC) {ci ci' cf cf' : List (List UInt8)} (e : Int)
    (hi : ci.flatten = ci'.flatten) (hf : cf.flatten = cf'.flatten) :
    parseFloat E F ci.flatten cf.flatten e = parseFloat E F ci'.flatten cf'.flatten e := by
  rw [hi, hf]

example : parseFloat (genEnv ⟨false, false, true⟩) Gen.F64 ([49, 50] ++ [51]) [52] 0 =
    parseFloat (genEnv ⟨false, false, true⟩) Gen.F64 ([49] ++ [50, 51]) [52] 0 :=
  C16_split_irrelevant _ _ _ _ (by decide)

-- ================================================================ (d) tables

open Sites SitesAll in
/-- **C16 (d).**  The result does not depend on table slots outside the guarded ranges.
    1. (`C08.C08_noninterference`) every configuration, f32/f64, ARBITRARY bytes: the outcome is the same in
       any environment that agrees with the generated one on `pow_fast_path[0 ..= MAX_EXPONENT_FAST_PATH]`,
       `SMALL_INT_POW10[1..=19]`, `SMALL_INT_POW5[1..=26]` (and on the bounds-checked data);
    2. (`C08Final.C08_final_complete`) non-compact configurations: it is the same in any environment that
       agrees on the slots actually read in THIS run (the access log of the instrumented parser). -/
theorem C16_deterministic_tables :
    (∀ (cfg : Cfg) (F : FloatC), (F = Gen.F32 ∨ F = Gen.F64) → ∀ (E' : Env),
      E'.cfg = cfg → E'.lem = genLemire → E'.bel = genBel → AgreeTables (genPow cfg.compact) E'.pow →
      (∀ k, k ≤ F.maxExponentFastPath.toNat → genPowFastPath cfg F k = E'.powFastPath F k) →
      ∀ (int frac : List UInt8) (e : Int), parseFloat (genEnv cfg) F int frac e = parseFloat E' F int frac e) ∧
    (∀ (cfg : Cfg), cfg.compact = false → ∀ (F : FloatC) (E' : Env) (int frac : List UInt8) (e : Int),
      E'.cfg = cfg → E'.lem = genLemire → E'.bel = genBel →
      AgreeLog (genEnv cfg).pow E'.pow (parseFloatLog (genEnv cfg) F int frac e).2 →
      AgreePw (genEnv cfg) E' F (parseFloatLog (genEnv cfg) F int frac e).2 →
      parseFloat (genEnv cfg) F int frac e = parseFloat E' F int frac e) :=
  ⟨fun cfg F hF E' h1 h2 h3 h4 h5 int frac e => C08.C08_noninterference cfg F hF E' h1 h2 h3 h4 h5 int frac e,
   fun cfg hnc F E' int frac e h1 h2 h3 h4 h5 => C08Final.C08_final_complete cfg hnc F E' int frac e h1 h2 h3 h4 h5⟩

/-- non-vacuity of (d): an environment whose tables are surrounded by garbage (`C08.garbageEnv`)
    satisfies the hypotheses, for every configuration and ALL bytes -/
example (cfg : Cfg) (int frac : List UInt8) (e : Int) :
    parseFloat (genEnv cfg) Gen.F64 int frac e = parseFloat (C08.garbageEnv cfg) Gen.F64 int frac e :=
  C16_deterministic_tables.1 cfg Gen.F64 (Or.inr rfl) (C08.garbageEnv cfg) rfl rfl rfl (C08.garbageEnv_agrees cfg)
    (fun k hk => by show _ = if _ then _ else _; rw [if_pos hk]) int frac e

end MinLex.C16
