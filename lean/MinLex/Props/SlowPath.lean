/-
  The big-integer slow path (`src/slow.rs`): `parse_mantissa` (C06), `scientific_exponent`,
  `positive_digit_comp`, `negative_digit_comp`, soundness of the `MAX_DIGITS` cut, and their
  composition `slow`, which is the stage contract `Main.Hyps.slow`.

  All statements are over ALL digit lists / big integers (no length bound).  Results of operations on
  the fixed-capacity stack vector are stated as partial correctness ("if it returns, the result is
  right"); on the heap back-end totality is proved as well.  Proofs: `MinLex/Proofs/Slow.lean`.
-/
import MinLex.Proofs.Slow
namespace MinLex.SlowPath
open MinLex ParseNum SlowP

-- ================================================================ M1 / C06: parse_mantissa
/-- What `parse_mantissa` must return on the significant digits `sig` (leading zeros stripped) with
    `md = max_digits`: everything if there are at most `md` digits; otherwise the first `md` digits,
    followed by a sticky digit `1` (and a count of `md + 1`) iff some cut-off digit is non-zero. -/
def MantissaOK (sig : List UInt8) (md : Nat) (r : Big) (count : Nat) : Prop :=
  AllLt r ∧
  (if sig.length ≤ md then toNat r = ofDigits sig ∧ count = sig.length
   else if ∀ c ∈ sig.drop md, c = 48 then toNat r = ofDigits (sig.take md) ∧ count = md
   else toNat r = ofDigits (sig.take md) * 10 + 1 ∧ count = md + 1)

theorem mantissaOK_of_mantSpec {sig : List UInt8} {md : Nat} {r : Big} {count : Nat}
    (h1 : toNat r = (mantSpec sig md).1) (h2 : count = (mantSpec sig md).2) (h3 : AllLt r) :
    MantissaOK sig md r count := by
  refine ⟨h3, ?_⟩
  unfold mantSpec at h1 h2
  by_cases hle : sig.length ≤ md
  · rw [if_pos hle] at h1 h2 ⊢; exact ⟨h1, h2⟩
  · rw [if_neg hle] at h1 h2 ⊢
    by_cases hz : ∀ c ∈ sig.drop md, c = 48
    · have : ¬ ((sig.drop md).any (· != 48) = true) := by
        rw [List.any_eq_true]; rintro ⟨x, hx1, hx2⟩; simp [hz x hx1] at hx2
      rw [if_neg this] at h1 h2; rw [if_pos hz]; exact ⟨h1, h2⟩
    · have : (sig.drop md).any (· != 48) = true := by
        rw [List.any_eq_true]
        by_contra hcon
        apply hz
        intro c hc
        by_contra hne
        exact hcon ⟨c, hc, by simpa using hne⟩
      rw [if_pos this] at h1 h2; rw [if_neg hz]; exact ⟨h1, h2⟩

/-- **C06 / M1**, heap back-end: for ALL lists of ASCII digits (`int` without a leading `'0'`) and
    every `max_digits ≥ 1`, `parse_mantissa` returns the big integer of the significant digits, cut
    after `max_digits` digits with a sticky digit.  The 19-digit chunking (`10^19` steps, eager
    flush) does not matter; a checked build does not trap. -/
theorem parseMantissa_spec {T : PowTables} (hT : Pow10OK T) {md : Nat} (hmd : 1 ≤ md)
    {int frac : List UInt8} (hi : ∀ c ∈ int, isDigit c = true) (hf : ∀ c ∈ frac, isDigit c = true)
    (h0 : int.head? ≠ some 48) :
    ∃ r count, parseMantissa none T int frac md = some (r, count) ∧
      MantissaOK (sigDigits int frac) md r count ∧
      (parseMantissaPM none T int frac md).trap = false := by
  obtain ⟨r, count, h⟩ := parseMantissa_heap hT hmd hi hf h0
  obtain ⟨a, b, c, _, _⟩ := parseMantissa_some hT hmd hi hf h0 h
  exact ⟨r, count, h, mantissaOK_of_mantSpec a b c, parseMantissaPM_noTrap hT hmd hi hf h0⟩

/-- **C06 / M1**, any back-end (`cap = some c` is the stack vector): if no `unwrap` fails, i.e. the
    result fits, it is the same big integer; it fits the back-end and is normalised. -/
theorem parseMantissa_spec_cap {cap : Option Nat} {T : PowTables} (hT : Pow10OK T) {md : Nat}
    (hmd : 1 ≤ md) {int frac : List UInt8} (hi : ∀ c ∈ int, isDigit c = true)
    (hf : ∀ c ∈ frac, isDigit c = true) (h0 : int.head? ≠ some 48) {r : Big} {count : Nat}
    (h : parseMantissa cap T int frac md = some (r, count)) :
    MantissaOK (sigDigits int frac) md r count ∧ capOk cap r.length = true ∧
      isNormalized r = true := by
  obtain ⟨a, b, c, d, e⟩ := parseMantissa_some hT hmd hi hf h0 h
  exact ⟨mantissaOK_of_mantSpec a b c, d, normalized_of_normOK c e⟩

/-- the table hypothesis holds for the regenerated tables, compact or not -/
theorem pow10OK_genPow (compact : Bool) : Pow10OK (genPow compact) := genPow_pow10OK compact

-- non-vacuity: 45 digits (crosses two 19-digit chunks), cut at 40, sticky digit set
example : (∀ c ∈ List.replicate 25 (55 : UInt8), isDigit c = true) ∧
    (∀ c ∈ List.replicate 20 (51 : UInt8), isDigit c = true) ∧
    (List.replicate 25 (55 : UInt8)).head? ≠ some 48 := by decide
example : (parseMantissa none (genPow false) (List.replicate 25 55) (List.replicate 20 51) 40).map
    (fun p => (toNat p.1, p.2)) = some (77777777777777777777777773333333333333331, 41) := by
  decide +kernel
example : parseMantissa (some 62) (genPow true) [49, 50] [48, 48] 2 = some ([12], 2) := by
  decide +kernel

-- ================================================================ M2: scientific_exponent
/-- **M2**: for a mantissa with `d + 1` decimal digits (`10^d ≤ mantissa < 10^(d+1)`, in particular
    `0 < mantissa`; any `u64` has `d ≤ 19`) `scientific_exponent` is `exponent + d`, provided that
    sum is an `i32` (no wrap). -/
theorem scientificExponent_spec {num : Number} {d : Nat} (h1 : 10 ^ d ≤ num.mantissa)
    (h2 : num.mantissa < 10 ^ (d + 1)) (hd : d ≤ 32) (he1 : i32Min ≤ num.exponent)
    (he2 : num.exponent + d ≤ i32Max) : scientificExponent num = num.exponent + d :=
  scientificExponent_eq h1 h2 hd he1 he2

example : scientificExponent ⟨-7, 12345678901234567890, false⟩ = -7 + 19 :=
  scientificExponent_spec (d := 19) (by decide) (by decide) (by decide) (by decide) (by decide)

-- ================================================================ M4: positive_digit_comp
/-- **M4**: `positive_digit_comp(bigmant, exponent)` with `exponent ≥ 0`, on a non-zero normalised
    big integer: if the power fits the back-end, the result is `rne (bigmant · 10^exponent)` (exact
    top 64 bits plus a sticky flag decide like nearest-even on the full integer). -/
theorem positiveDigitComp_correct {cap : Option Nat} {T : PowTables} {F : FloatC}
    (hT : T.compact = false → PowTablesOK T) (hF : F.WF) {bigmant : Big} (hx : AllLt bigmant)
    (hn : isNormalized bigmant = true) (hne : bigmant ≠ []) (hc : capOk cap bigmant.length = true)
    {exponent : Int} (h0 : 0 ≤ exponent) (h1 : exponent < 4294967296) {fp : ExtFloat}
    (h : positiveDigitComp cap T F bigmant exponent = some fp) :
    extendedToFloat F fp = rne F.fmt ⟨toNat bigmant * 10 ^ exponent.toNat, 1⟩ :=
  positiveDigitComp_spec hT hF hx (TopNZ_of_normalized hn hne) hc h0 h1 h

/-- on the heap back-end it always returns -/
theorem positiveDigitComp_total (T : PowTables) (F : FloatC) (bigmant : Big) (exponent : Int) :
    ∃ fp, positiveDigitComp none T F bigmant exponent = some fp :=
  positiveDigitComp_heap T F bigmant exponent

/-- the core of M4: `rhe` of `N / 2^(s+t)` from the top bits `N / 2^s` plus a sticky flag -/
theorem rhe_top_bits_sticky {N s t : Nat} (ht : 1 ≤ t) (hrem : N % 2 ^ s ≠ 0) :
    rhe N (2 ^ (s + t)) = N / 2 ^ s / 2 ^ t + (if N / 2 ^ s % 2 ^ t ≥ 2 ^ (t - 1) then 1 else 0) :=
  rhe_sticky ht hrem

-- non-vacuity: 12345 · 10^30, both table configurations
example : (positiveDigitComp (some 62) (genPow false) Gen.F64 [12345] 30).isSome = true := by
  decide +kernel
example (fp : ExtFloat) (h : positiveDigitComp (some 62) (genPow false) Gen.F64 [12345] 30 = some fp) :
    extendedToFloat Gen.F64 fp = rne Gen.F64.fmt ⟨toNat [12345] * 10 ^ 30, 1⟩ :=
  positiveDigitComp_correct (fun _ => C12.genPow_tablesOK false) F64_WF (by decide) (by decide)
    (by decide) (by decide) (by decide) (by decide) h

-- ================================================================ M5: negative_digit_comp
/-- **M5**: `negative_digit_comp(bigmant, fp, exponent)` with `exponent < 0` under the hand-off
    contract `EstOK` for the value `v = bigmant · 10^exponent`: if the scaling fits the back-end, the
    result is `rne v`.  (`b = round_down(fp)`, comparison of `v` with `b + h` on exactly scaled big
    integers, then `b`, `b + 1` or tie-to-even; includes `b = 0`, `b + 1 = ∞`, `b = ∞` and the
    boundary exponent `fp.exp = −64`.)  `F.ebits ≤ 20` keeps the binary exponents inside `u32`. -/
theorem negativeDigitComp_correct {cap : Option Nat} {T : PowTables} {F : FloatC}
    (hT : T.compact = false → PowTablesOK T) (hF : F.WF) (hEb : F.ebits ≤ 20)
    (hcap1 : capOk cap 1 = true) {bigmant : Big} (hx : AllLt bigmant)
    (hn : isNormalized bigmant = true) (hne : bigmant ≠ []) (hc : capOk cap bigmant.length = true)
    {fp : ExtFloat} {exponent : Int} (hneg : exponent < 0) (hlo : -2147483648 ≤ exponent)
    (hest : Main.EstOK F fp (ofDec (toNat bigmant) exponent)) {r : ExtFloat}
    (h : negativeDigitComp cap T F bigmant fp exponent = some r) :
    extendedToFloat F r = rne F.fmt (ofDec (toNat bigmant) exponent) :=
  negativeDigitComp_spec hT hF hEb hcap1 hx (TopNZ_of_normalized hn hne) hc hneg hlo hest h

theorem negativeDigitComp_total (T : PowTables) (F : FloatC) (bigmant : Big) (fp : ExtFloat)
    (exponent : Int) : ∃ r, negativeDigitComp none T F bigmant fp exponent = some r :=
  negativeDigitComp_heap T F bigmant fp exponent

/-- spec-side core of M5: if `rne v` is known to be the float `b` or its successor, the comparison
    of `v` with the midpoint above `b` identifies it (`ordDelta`: `Greater ↦ 1`, `Less ↦ 0`,
    `Equal ↦ b mod 2`). -/
theorem rne_from_ordering (f : Fmt) (hE : 2 ≤ f.ebits) (hM : 1 ≤ f.mbits) {v : Q} (hv : 0 < v.den)
    {b : Nat} (hb : b ≤ f.infBits) (hor : rne f v = b ∨ rne f v = b + 1) (ord : Ordering)
    (hlt : ord = .lt → Q.lt v (midpoint f b)) (hgt : ord = .gt → Q.lt (midpoint f b) v)
    (heq : ord = .eq → Q.eqv v (midpoint f b)) :
    min (b + ordDelta ord b) f.infBits = rne f v :=
  rne_by_ordering f hE hM hv hb hor ord hlt hgt heq

-- non-vacuity: 0.1 = 1 · 10^-1 with the 64-bit estimate 0xCCCC…CC · 2^-67 (exp = 1075 − 67)
example : Main.EstOK Gen.F64 ⟨0xCCCCCCCCCCCCCCCC, 1008⟩ (ofDec (toNat [1]) (-1)) :=
  ⟨by decide, by decide, by decide, Or.inr (by decide +kernel)⟩
example : (negativeDigitComp (some 62) (genPow false) Gen.F64 [1] ⟨0xCCCCCCCCCCCCCCCC, 1008⟩ (-1)).map
    (extendedToFloat Gen.F64) = some 0x3FB999999999999A := by decide +kernel

-- ================================================================ M6: the MAX_DIGITS cut
/-- **M6** (`midpoint_digits`): if `v` and `v'` both lie strictly inside the decimal cell
    `(D·10^k, (D+1)·10^k)` and `D` has at least `md` digits, they round to the same float: every
    rounding boundary (midpoint of adjacent floats; the overflow threshold is the midpoint above the
    largest finite float) is a dyadic whose decimal significand has fewer than `md` digits
    (`DigitCutOK`), so it cannot lie strictly inside such a cell. -/
theorem midpoint_digits {f : Fmt} {md : Nat} (hf : DigitCutOK f md) {D : Nat} {k : Int}
    (hD : 10 ^ (md - 1) ≤ D) {v v' : Q} (hv : 0 < v.den) (hv' : 0 < v'.den)
    (h1 : Q.lt (ofDec D k) v) (h2 : Q.lt v (ofDec (D + 1) k))
    (h1' : Q.lt (ofDec D k) v') (h2' : Q.lt v' (ofDec (D + 1) k)) : rne f v = rne f v' :=
  rne_eq_of_same_cell hf hD hv hv' h1 h2 h1' h2'

/-- the closed numeric facts: `2^54·5^1075 ≤ 10^768`, `2^54·2^971 ≤ 10^768` (f64, `MAX_DIGITS = 769`)
    and `2^25·5^150 ≤ 10^113`, `2^25·2^104 ≤ 10^113` (f32, `MAX_DIGITS = 114`) -/
theorem digitCut_f64 : DigitCutOK Gen.F64.fmt Gen.F64.maxDigits := by
  rw [F64_fmt]; exact digitCutOK_f64
theorem digitCut_f32 : DigitCutOK Gen.F32.fmt Gen.F32.maxDigits := by
  rw [F32_fmt]; exact digitCutOK_f32

/-- the cut is tight for f64: with one digit less (`md = 768`) the bound fails -/
example : ¬ (2 ^ (Fmt.f64.mbits + 2) * 5 ^ (1 - Fmt.f64.kmin).toNat ≤ 10 ^ (768 - 1)) := by
  decide +kernel

-- non-vacuity: the sticky-digit value and a longer value in the same cell
set_option exponentiation.threshold 1000 in
example : rne Fmt.f64 (ofDec (10 ^ 768 * 10 + 1) (-801)) = rne Fmt.f64 (ofDec (10 ^ 768 * 100 + 57) (-802)) :=
  midpoint_digits digitCutOK_f64 (D := 10 ^ 768) (k := -800) (Nat.le_refl _) (MinLex.ofDec_den_pos _ _)
    (MinLex.ofDec_den_pos _ _) (by decide +kernel) (by decide +kernel) (by decide +kernel)
    (by decide +kernel)

-- ================================================================ M3: value bookkeeping of `slow`
/-- **M3**: with `(bigmant, digits) = parse_mantissa(…, md)` and `x = sci_exp + 1 − digits` (computed
    without `i32` wrap), the exact input value is `bigmant · 10^x` when no non-zero digit was cut;
    otherwise `bigmant = D·10 + 1` with `D ≥ 10^(md−1)` the first `md` significant digits and the value
    lies strictly inside `(D·10^(x+1), (D+1)·10^(x+1))`.  Moreover `bigmant < 10^digits` and
    `x + digits − 1` is the scientific exponent (`q + 1 ≤ x + digits ≤ q + 19`). -/
theorem slow_value {cap : Option Nat} {T : PowTables} (hT10 : Pow10OK T) {md : Nat}
    (hmd1 : 1 ≤ md) (hmd2 : md ≤ 1000000) {int frac : List UInt8} {e : Int}
    (hv : Valid int frac e) (hm0 : (parseNumber int frac e).mantissa ≠ 0)
    (hlo : -1000 ≤ (parseNumber int frac e).exponent) (hhi : (parseNumber int frac e).exponent ≤ 1000)
    {bigmant : Big} {digits : Nat} (hpm : parseMantissa cap T int frac md = some (bigmant, digits)) :
    ∃ x : Int, wrapI32 (scientificExponent (parseNumber int frac e) + 1 - asI32 digits) = x ∧
      -2147483648 ≤ x ∧ x < 2147483648 ∧ toNat bigmant ≠ 0 ∧
      toNat bigmant < 10 ^ digits ∧ digits ≤ md + 1 ∧
      (parseNumber int frac e).exponent + 1 ≤ x + digits ∧
      x + digits ≤ (parseNumber int frac e).exponent + 19 ∧
      (Q.eqv (ofDec (toNat bigmant) x) (digitsValue int frac e) ∨
       ∃ D : Nat, 10 ^ (md - 1) ≤ D ∧ toNat bigmant = D * 10 + 1 ∧
         Q.lt (ofDec D (x + 1)) (digitsValue int frac e) ∧
         Q.lt (digitsValue int frac e) (ofDec (D + 1) (x + 1))) :=
  slow_bookkeeping hT10 hmd1 hmd2 hv hm0 hlo hhi hpm

-- ================================================================ M7: the stage contract
/-- per-format facts the slow path needs -/
structure SlowFmtOK (F : FloatC) : Prop where
  wf : F.WF
  ebits : F.ebits ≤ 20
  cut : DigitCutOK F.fmt F.maxDigits
  md1 : 1 ≤ F.maxDigits
  md2 : F.maxDigits ≤ 1000000

theorem slowFmtOK_f64 : SlowFmtOK Gen.F64 := ⟨F64_WF, by decide, digitCut_f64, by decide, by decide⟩
theorem slowFmtOK_f32 : SlowFmtOK Gen.F32 := ⟨F32_WF, by decide, digitCut_f32, by decide, by decide⟩

theorem cap_one (cfg : Cfg) : capOk (genEnv cfg).cap 1 = true := by
  unfold Env.cap genEnv; cases cfg.alloc <;> rfl

/-- **M7, stack back-end** (`slow_correct_stack_partial`), in fact every configuration: under the
    hypotheses of `Main.Hyps.slow`, if no big-integer operation runs out of limbs — i.e. `slow` returns
    (`Fits` below) — the result is the correctly rounded input.  Named `_partial` because on the
    62-limb stack vector success itself is assumed, not proved. -/
theorem slow_correct_stack_partial (cfg : Cfg) {F : FloatC} (hF : F = Gen.F32 ∨ F = Gen.F64)
    {int frac : List UInt8} {e : Int} {fp : ExtFloat} (hv : Valid int frac e)
    (hm0 : (parseNumber int frac e).mantissa ≠ 0)
    (hlo : -1000 ≤ (parseNumber int frac e).exponent) (hhi : (parseNumber int frac e).exponent ≤ 1000)
    (hest : Main.EstOK F fp (digitsValue int frac e)) {r : ExtFloat}
    (h : slow (genEnv cfg).cap (genEnv cfg).pow F (parseNumber int frac e) fp int frac = some r) :
    extendedToFloat F r = rne F.fmt (digitsValue int frac e) := by
  have hok : SlowFmtOK F := by rcases hF with rfl | rfl; exact slowFmtOK_f32; exact slowFmtOK_f64
  exact slow_spec (fun _ => C12.genPow_tablesOK cfg.compact) (genPow_pow10OK cfg.compact) hok.wf
    hok.ebits hok.cut hok.md1 hok.md2 (cap_one cfg) hv hm0 hlo hhi hest h

/-- "every intermediate big integer fits": all `unwrap`s of `slow` succeed -/
def Fits (cfg : Cfg) (F : FloatC) (int frac : List UInt8) (e : Int) (fp : ExtFloat) : Prop :=
  (slow (genEnv cfg).cap (genEnv cfg).pow F (parseNumber int frac e) fp int frac).isSome = true

/-- the same in the shape of the stage contract, under `Fits` -/
theorem slow_correct_of_fits (cfg : Cfg) {F : FloatC} (hF : F = Gen.F32 ∨ F = Gen.F64)
    (int frac : List UInt8) (e : Int) (fp : ExtFloat) (hv : Valid int frac e)
    (hm0 : (parseNumber int frac e).mantissa ≠ 0)
    (hlo : -1000 ≤ (parseNumber int frac e).exponent) (hhi : (parseNumber int frac e).exponent ≤ 1000)
    (hest : Main.EstOK F fp (digitsValue int frac e)) (hfit : Fits cfg F int frac e fp) :
    ∃ r, slow (genEnv cfg).cap (genEnv cfg).pow F (parseNumber int frac e) fp int frac = some r ∧
      extendedToFloat F r = rne F.fmt (digitsValue int frac e) := by
  unfold Fits at hfit
  cases hr : slow (genEnv cfg).cap (genEnv cfg).pow F (parseNumber int frac e) fp int frac with
  | none => rw [hr] at hfit; simp at hfit
  | some r => exact ⟨r, rfl, slow_correct_stack_partial cfg hF hv hm0 hlo hhi hest hr⟩

/-- **M7, heap back-end** (`alloc` feature): the field `slow` of `Main.Hyps (genEnv cfg) F`, for f32
    and f64, compact or not, with no remaining hypothesis. -/
theorem slow_correct (cfg : Cfg) (halloc : cfg.alloc = true) {F : FloatC}
    (hF : F = Gen.F32 ∨ F = Gen.F64) :
    ∀ int frac e fp, Valid int frac e →
      (parseNumber int frac e).mantissa ≠ 0 → -1000 ≤ (parseNumber int frac e).exponent →
      (parseNumber int frac e).exponent ≤ 1000 → Main.EstOK F fp (digitsValue int frac e) →
      ∃ r, slow (genEnv cfg).cap (genEnv cfg).pow F (parseNumber int frac e) fp int frac = some r ∧
        extendedToFloat F r = rne F.fmt (digitsValue int frac e) := by
  intro int frac e fp hv hm0 hlo hhi hest
  apply slow_correct_of_fits cfg hF int frac e fp hv hm0 hlo hhi hest
  have hok : SlowFmtOK F := by rcases hF with rfl | rfl; exact slowFmtOK_f32; exact slowFmtOK_f64
  have hcap : (genEnv cfg).cap = none := by unfold Env.cap genEnv; simp [halloc]
  unfold Fits
  rw [hcap]
  obtain ⟨r, hr⟩ := slow_heap (genPow_pow10OK cfg.compact) hok.md1 hv.1 hv.2.1 hv.2.2.1
    (parseNumber int frac e) fp
  show (slow none (genPow cfg.compact) F _ fp int frac).isSome = true
  rw [hr]; rfl

-- (the literal `slow` field of `Main.Hyps`, window ±400, is `slow_correct_range400` below)

-- non-vacuity of the contract's hypotheses: "0.1" with the estimate used above
example : Valid [] [49] 0 ∧ (parseNumber [] [49] 0).mantissa ≠ 0 ∧
    -1000 ≤ (parseNumber [] [49] 0).exponent ∧ (parseNumber [] [49] 0).exponent ≤ 1000 := by decide
example : Main.EstOK Gen.F64 ⟨0xCCCCCCCCCCCCCCCC, 1008⟩ (digitsValue [] [49] 0) :=
  ⟨by decide, by decide, by decide, Or.inr (by decide +kernel)⟩
example : (slow (genEnv ⟨false, false, true⟩).cap (genEnv ⟨false, false, true⟩).pow Gen.F64
    (parseNumber [] [49] 0) ⟨0xCCCCCCCCCCCCCCCC, 1008⟩ [] [49]).map (extendedToFloat Gen.F64)
    = some 0x3FB999999999999A := by decide +kernel

/-! ### The stack back-end does not overflow for moderate exponents -/

/-- closed numeric facts: 62 limbs (`2^3968`) hold every big integer of the slow path when the
    decimal exponent of the `Number` is within `±400`: `10^(MAX_DIGITS+1) ≤ B^61`, `10^419 ≤ B^62`,
    `2^(mbits+2)·10^(MAX_DIGITS+400) ≤ B^62`, `4·10^(MAX_DIGITS+1) ≤ B^62`,
    `10^(MAX_DIGITS+1)·2^(1−kmin) ≤ B^62`. -/
theorem stackOK_62_f64 : StackOK Gen.F64 62 400 := stackOK_f64
theorem stackOK_62_f32 : StackOK Gen.F32 62 400 := stackOK_f32

/-- **`Fits` holds** in every configuration when `−400 ≤ q ≤ 400`: no `unwrap` of a big-integer
    operation fails (on the stack vector: `parse_mantissa` stays below `10^(MAX_DIGITS+1)`; the
    positive branch computes `≈ v < 10^(q+19)`; in the negative branch `(b+h)·10^E` is at most
    `3·bigmant` by the hand-off contract, or at most `(2m+1)·10^E` when `b < 2`, and the real digits
    are shifted by at most `1 − kmin` bits). -/
theorem slow_fits_of_range (cfg : Cfg) {F : FloatC} (hF : F = Gen.F32 ∨ F = Gen.F64)
    {int frac : List UInt8} {e : Int} {fp : ExtFloat} (hv : Valid int frac e)
    (hm0 : (parseNumber int frac e).mantissa ≠ 0)
    (hlo : -400 ≤ (parseNumber int frac e).exponent) (hhi : (parseNumber int frac e).exponent ≤ 400)
    (hest : Main.EstOK F fp (digitsValue int frac e)) : Fits cfg F int frac e fp := by
  have hok : SlowFmtOK F := by rcases hF with rfl | rfl; exact slowFmtOK_f32; exact slowFmtOK_f64
  have hst : StackOK F 62 400 := by rcases hF with rfl | rfl; exact stackOK_f32; exact stackOK_f64
  unfold Fits
  cases hal : cfg.alloc with
  | true =>
    have hcap : (genEnv cfg).cap = none := by unfold Env.cap genEnv; simp [hal]
    rw [hcap]
    obtain ⟨r, hr⟩ := slow_heap (genPow_pow10OK cfg.compact) hok.md1 hv.1 hv.2.1 hv.2.2.1
      (parseNumber int frac e) fp
    show (slow none (genPow cfg.compact) F _ fp int frac).isSome = true
    rw [hr]; rfl
  | false =>
    have hcap : (genEnv cfg).cap = some 62 := by unfold Env.cap genEnv; simp [hal]
    rw [hcap]
    obtain ⟨r, hr⟩ := slow_fits (c := 62) (Qb := 400) (T := genPow cfg.compact)
      (fun _ => C12.genPow_tablesOK cfg.compact) (genPow_pow10OK cfg.compact) hok.wf hok.ebits
      hok.cut hok.md1 hok.md2 hst (by decide) hv hm0 (by omega) (by omega) hest
    show (slow (some 62) (genPow cfg.compact) F _ fp int frac).isSome = true
    rw [hr]; rfl

/-- **M7 for EVERY configuration** (stack or heap, compact or not), f32 and f64: the stage contract
    with the exponent window `±400` (the moderate stage declines only for `−342 ≤ q ≤ 308`). -/
theorem slow_correct_range400 (cfg : Cfg) {F : FloatC} (hF : F = Gen.F32 ∨ F = Gen.F64) :
    ∀ int frac e fp, Valid int frac e →
      (parseNumber int frac e).mantissa ≠ 0 → -400 ≤ (parseNumber int frac e).exponent →
      (parseNumber int frac e).exponent ≤ 400 → Main.EstOK F fp (digitsValue int frac e) →
      ∃ r, slow (genEnv cfg).cap (genEnv cfg).pow F (parseNumber int frac e) fp int frac = some r ∧
        extendedToFloat F r = rne F.fmt (digitsValue int frac e) := by
  intro int frac e fp hv hm0 hlo hhi hest
  exact slow_correct_of_fits cfg hF int frac e fp hv hm0 (by omega) (by omega) hest
    (slow_fits_of_range cfg hF hv hm0 hlo hhi hest)

/-- `slow_correct_range400` is literally the field `slow` of `Main.Hyps (genEnv cfg) F`, for every
    configuration (stack or heap) -/
example (cfg : Cfg) (H : Main.Hyps (genEnv cfg) Gen.F64) : Main.Hyps (genEnv cfg) Gen.F64 :=
  { H with slow := slow_correct_range400 cfg (Or.inr rfl) }
example (cfg : Cfg) (H : Main.Hyps (genEnv cfg) Gen.F32) : Main.Hyps (genEnv cfg) Gen.F32 :=
  { H with slow := slow_correct_range400 cfg (Or.inl rfl) }

-- non-vacuity on a stack configuration: "0.1"
example : (∃ r, slow (genEnv ⟨true, false, false⟩).cap (genEnv ⟨true, false, false⟩).pow Gen.F64
      (parseNumber [] [49] 0) ⟨0xCCCCCCCCCCCCCCCC, 1008⟩ [] [49] = some r ∧
    extendedToFloat Gen.F64 r = rne Gen.F64.fmt (digitsValue [] [49] 0)) :=
  slow_correct_range400 ⟨true, false, false⟩ (Or.inr rfl) [] [49] 0 _ (by decide) (by decide)
    (by decide) (by decide) ⟨by decide, by decide, by decide, Or.inr (by decide +kernel)⟩

/-! ### Why the two side conditions of `Main.Hyps.slow` are needed -/

/-- (1) zero mantissa: `EstOK` holds (`rne 0 = 0 = b`), but `slow` works on an empty big integer
    (`hi64 [] = (0, false)`, `bit_length = 0`) and returns 0.5. -/
example : Valid [] [] 0 ∧ (parseNumber [] [] 0).mantissa = 0 ∧
    Main.EstOK Gen.F64 ⟨2 ^ 63, -64⟩ (digitsValue [] [] 0) ∧
    rne Gen.F64.fmt (digitsValue [] [] 0) = 0 ∧
    (slow none (genPow false) Gen.F64 (parseNumber [] [] 0) ⟨2 ^ 63, -64⟩ [] []).map
      (extendedToFloat Gen.F64) = some 0x3FE0000000000000 :=
  ⟨by decide, by decide, ⟨by decide, by decide, by decide, Or.inl (by decide +kernel)⟩,
    by decide +kernel, by decide +kernel⟩

/-- (2) `i32` wrap: 700 digits `0.111…1` with `e = i32::MIN + 100` (value below `10^(−2·10^9)`, so
    `rne = 0`): `sci_exp + 1 − digits` wraps to the large positive `2147483048`, and `slow` takes the
    `positive_digit_comp` branch with `10^2147483048`. -/
example : Valid [] (List.replicate 700 49) (i32Min + 100) ∧
    (parseNumber [] (List.replicate 700 49) (i32Min + 100)).exponent = i32Min + 81 ∧
    (parseMantissa none (genPow false) [] (List.replicate 700 49) 769).map (·.2) = some 700 ∧
    wrapI32 (scientificExponent (parseNumber [] (List.replicate 700 49) (i32Min + 100)) + 1
      - asI32 700) = 2147483048 := by
  refine ⟨by decide +kernel, by decide +kernel, by decide +kernel, by decide +kernel⟩

/-- (3) stack back-end and the window `±1000`: `0.` + 231 zeros + 769 ones, `e = −750` gives
    `q = −1000`, `rne = 0`, `EstOK` holds — but `theor_digits.pow(5, 1750)` needs more than 62 limbs,
    so `slow` on the stack vector panics (`none`).  Hence `slow_correct_range400` is stated with the
    window `±400`; the heap back-end (`slow_correct`) works for `±1000`. -/
example :
    let fr : List UInt8 := List.replicate 231 48 ++ List.replicate 769 49
    Valid [] fr (-750) ∧ (parseNumber [] fr (-750)).mantissa ≠ 0 ∧
    (parseNumber [] fr (-750)).exponent = -1000 ∧
    Main.EstOK Gen.F64 ⟨2 ^ 63, -64⟩ (digitsValue [] fr (-750)) ∧
    slow (some 62) (genPow false) Gen.F64 (parseNumber [] fr (-750)) ⟨2 ^ 63, -64⟩ [] fr = none :=
  ⟨by decide +kernel, by decide +kernel, by decide +kernel,
   ⟨by decide, by decide, by decide, Or.inl (by decide +kernel)⟩, by decide +kernel⟩

end MinLex.SlowPath
