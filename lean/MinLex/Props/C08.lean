/-
  Property C08: ARBITRARY bytes never cause an out-of-bounds / undefined memory access.

  `parseFloat` returns `.ok _` or `.panic` by its type (`C08_total`), so the content of C08 is that
  every *unchecked* access of the crate (outside libm.rs / fpu.rs) is in bounds.  Every such access is
  an index into a constant table or a write / copy into the 62-slot buffer of the stack vector:

   S1/S2  number.rs  `F::pow_fast_path(∓exponent)`          `SMALL_F32_POW10[16]`, `SMALL_F64_POW10[32]`
   S3     number.rs  `int_pow_fast_path(shift, Ten)`         `SMALL_INT_POW10[20]`
   S4     number.rs  `F::pow_fast_path(max_exponent)`
   S5/S6  slow.rs    `int_pow_fast_path(counter, Ten)`       `SMALL_INT_POW10[20]`
   S7     bigint.rs  `int_pow_fast_path(exp, Five)`          `SMALL_INT_POW5[28]`
   S8     bigint.rs  `shl_limbs`: `ptr::copy`, `write_bytes`, `set_len`
   S9–S17 stackvec.rs `set_len`, `push_unchecked`, `pop_unchecked`, `extend_unchecked`,
          `resize_unchecked`, `from_raw_parts` (Props/C13, restated here)

  For S1–S7 the model functions are *instrumented*: a copy that additionally returns the list of indices
  handed to the unchecked look-up, proved equal in result to the model function (`*_faithful`), with
  every recorded index proved in bounds — for ALL byte strings, exponents, capacities, table records.
  Equivalently (`C08_noninterference`): the result of `parse_float` does not depend on anything
  outside the guarded index ranges of these tables.  No theorem here uses `Valid`.
-/
import MinLex.Proofs.Sites
import MinLex.Props.C12
import MinLex.Props.C13
namespace MinLex.C08
open MinLex MinLex.Sites

-- ================================================================ 0. the trivial part

/-- the model of `parse_float` is total: a bit pattern or a (safe) panic, for every input whatsoever -/
theorem C08_total (E : Env) (F : FloatC) (int frac : List UInt8) (e : Int) :
    (∃ bits, parseFloat E F int frac e = .ok bits) ∨ parseFloat E F int frac e = .panic := by
  cases parseFloat E F int frac e with
  | ok b => exact Or.inl ⟨b, rfl⟩
  | panic => exact Or.inr rfl

-- ================================================================ 1. S1 – S4 (number.rs)

/-- the instrumented fast path records exactly the look-ups the result depends on -/
theorem C08_fastPath_faithful (F : FloatC) (pw pw' ip ip' : Nat → Nat) (n : Number)
    (hpw : ∀ k ∈ (tryFastPathSites F n).1, pw k = pw' k)
    (hip : ∀ k ∈ (tryFastPathSites F n).2, ip k = ip' k) :
    tryFastPath F pw ip n = tryFastPath F pw' ip' n :=
  tryFastPath_congr F pw pw' ip ip' n hpw hip

/-- S1 / S2 / S3 as stated in the task, for any constant record -/
theorem C08_S1 {F : FloatC} {n : Number} (h : isFastPath F n = true) (hle : n.exponent ≤ F.maxExponentFastPath)
    (hneg : n.exponent < 0) : (-n.exponent).toNat ≤ (-F.minExponentFastPath).toNat := S1_index h hle hneg

theorem C08_S2 {F : FloatC} {n : Number} (h : isFastPath F n = true) (hle : n.exponent ≤ F.maxExponentFastPath)
    (hnn : ¬ n.exponent < 0) : n.exponent.toNat ≤ F.maxExponentFastPath.toNat := S2_index h hle hnn

theorem C08_S3 {F : FloatC} {n : Number} (h : isFastPath F n = true) (hgt : ¬ n.exponent ≤ F.maxExponentFastPath) :
    (n.exponent - F.maxExponentFastPath).toNat ≤ (F.maxExponentDisguisedFastPath - F.maxExponentFastPath).toNat :=
  (S3_index h hgt).1

/-- S1, S2, S4 for f64: every index handed to `pow_fast_path` is `≤ 22 < 32 = SMALL_F64_POW10.len()`;
    S3: every index handed to `int_pow_fast_path(·, Ten)` is `≤ 15 < 20 = SMALL_INT_POW10.len()` -/
theorem C08_fastPath_f64 (n : Number) :
    (∀ k ∈ (tryFastPathSites Gen.F64 n).1, k ≤ 22 ∧ k < Gen.smallF64Pow10.length) ∧
    (∀ k ∈ (tryFastPathSites Gen.F64 n).2, k ≤ 15 ∧ k < Gen.smallIntPow10.length) := by
  have h := tryFastPathSites_bound Gen.F64 n
  have hc := consts_F64
  have hl := table_lengths
  rw [hc.1, hc.2.1, hc.2.2] at h
  rw [hl.1, hl.2.2.1]
  exact ⟨fun k hk => by have := h.1 k hk; omega, fun k hk => by have := h.2 k hk; omega⟩

/-- the same for f32: `≤ 10 < 16 = SMALL_F32_POW10.len()` and `≤ 7 < 20` -/
theorem C08_fastPath_f32 (n : Number) :
    (∀ k ∈ (tryFastPathSites Gen.F32 n).1, k ≤ 10 ∧ k < Gen.smallF32Pow10.length) ∧
    (∀ k ∈ (tryFastPathSites Gen.F32 n).2, k ≤ 7 ∧ k < Gen.smallIntPow10.length) := by
  have h := tryFastPathSites_bound Gen.F32 n
  have hc := consts_F32
  have hl := table_lengths
  rw [hc.1, hc.2.1, hc.2.2] at h
  rw [hl.2.1, hl.2.2.1]
  exact ⟨fun k hk => by have := h.1 k hk; omega, fun k hk => by have := h.2 k hk; omega⟩

/-- the guarded part of the float tables is the non-padding part: in every configuration every entry
    that can be fetched is a non-zero finite float (so `fdiv` never sees the zero divisor the model
    maps to `+∞`) -/
theorem C08_fastPath_entries (cfg : Cfg) :
    (∀ k ≤ 22, (decode Gen.F64.fmt (genPowFastPath cfg Gen.F64 k)).1 ≠ 0 ∧
        genPowFastPath cfg Gen.F64 k < Gen.F64.fmt.infBits) ∧
    (∀ k ≤ 10, (decode Gen.F32.fmt (genPowFastPath cfg Gen.F32 k)).1 ≠ 0 ∧
        genPowFastPath cfg Gen.F32 k < Gen.F32.fmt.infBits) :=
  ⟨fun k hk => powFastPath_nonzero_f64 cfg k hk, fun k hk => powFastPath_nonzero_f32 cfg k hk⟩

/-- non-vacuity: all three kinds of look-up occur (`1e-22`, `1e22`, and the disguised `1e37`) -/
example : tryFastPathSites Gen.F64 ⟨-22, 1, false⟩ = ([22], []) ∧
    tryFastPathSites Gen.F64 ⟨22, 1, false⟩ = ([22], []) ∧
    tryFastPathSites Gen.F64 ⟨37, 1, false⟩ = ([22], [15]) ∧
    tryFastPathSites Gen.F32 ⟨17, 1, false⟩ = ([10], [7]) := by decide

-- ================================================================ 2. S5 / S6 (slow.rs)

/-- the instrumented `parse_mantissa` computes the same state -/
theorem C08_parseMantissa_faithful (cap : Option Nat) (T : PowTables) (int frac : List UInt8) (md : Nat) :
    (parseMantissaPMI cap T int frac md).1 = parseMantissaPM cap T int frac md :=
  parseMantissaPMI_fst cap T int frac md

/-- S5/S6: for ARBITRARY bytes, any `max_digits`, any back-end, any tables, every index handed to
    `int_pow_fast_path(·, Ten)` by `add_temporary!` is in `1 … 19`, below `SMALL_INT_POW10.len() = 20` -/
theorem C08_S5_S6 (cap : Option Nat) (T : PowTables) (int frac : List UInt8) (md : Nat) :
    ∀ k ∈ (parseMantissaPMI cap T int frac md).2, 1 ≤ k ∧ k ≤ 19 ∧ k < Gen.smallIntPow10.length := by
  intro k hk
  have := parseMantissaPMI_sites cap T int frac md k hk
  rw [table_lengths.2.2.1]; omega

/-- the ingredients, as requested: `add_digit!` keeps `counter ≤ 19` when `counter < 19`,
    `add_temporary!(@max)` resets it, `add_temporary!(@end)` leaves it alone -/
theorem C08_counter_steps (cap : Option Nat) (T : PowTables) (s : PM) (c : UInt8) :
    (s.counter < 19 → PMCounterOK (s.addDigit c)) ∧ (s.flushMax cap).counter = 0 ∧
    (s.flushEnd cap T).counter = s.counter :=
  ⟨fun h => addDigit_ok c h, (flushMax_counter cap s).1, (flushEnd_counter cap T s).1⟩

/-- non-vacuity: 25 arbitrary (non-digit) bytes: the full chunk goes through `@max`, the rest (6) through
    `@end`; with `max_digits = 19` the `@end` flush sees the maximal `counter = 19` -/
example : (parseMantissaPMI none (genPow false) (List.replicate 25 200) [] 769).2 = [6] ∧
    (parseMantissaPMI none (genPow false) (List.replicate 25 200) [7, 7] 19).2 = [19] := by
  decide +kernel

-- ================================================================ 3. S7 (bigint.rs)

/-- S7 as stated in the task: the small-power loop leaves `exp < 27` (fuel `e + 1` suffices), the
    large-power loop leaves `exp < LARGE_POW5_STEP` -/
theorem C08_powSmallLoop (cap : Option Nat) (x : Big) (e : Nat) (x' : Big) (e' : Nat)
    (h : powSmallLoop cap (e + 1) x e = some (x', e')) : e' < 27 ∧ e' = e % 27 :=
  powSmallLoop_exp' cap x e x' e' h

theorem C08_powLargeLoop (cap : Option Nat) (T : PowTables) (hs : T.largePow5Step ≠ 0) (x : Big) (e : Nat)
    (x' : Big) (e' : Nat) (h : powLargeLoop cap T (e + 1) x e = some (x', e')) :
    e' < T.largePow5Step ∧ e' ≤ e :=
  powLargeLoop_exp' cap T hs x e x' e' h

/-- with the generated tables: `LARGE_POW5_STEP = 135`, so the large-power loop leaves `exp < 135` -/
theorem C08_powLargeLoop_gen (cap : Option Nat) (compact : Bool) (x : Big) (e : Nat) (x' : Big) (e' : Nat)
    (h : powLargeLoop cap (genPow compact) (e + 1) x e = some (x', e')) : e' < 135 :=
  (powLargeLoop_exp' cap (genPow compact) (by show Gen.largePow5Step ≠ 0; decide) x e x' e' h).1

/-- S7: for every operand, exponent, back-end and table record, the index handed to
    `int_pow_fast_path(·, Five)` is in `1 … 26`, below `SMALL_INT_POW5.len() = 28` -/
theorem C08_S7 (cap : Option Nat) (T : PowTables) (x : Big) (exp : Nat) :
    ∀ k ∈ powSite cap T x exp, 1 ≤ k ∧ k ≤ 26 ∧ k < Gen.smallIntPow5.length := by
  intro k hk
  have := powSite_bound cap T x exp k hk
  rw [table_lengths.2.2.2.1]; omega

/-- … and `pow` depends on `SMALL_INT_POW5` through those slots only -/
theorem C08_pow_faithful (cap : Option Nat) (T T' : PowTables) (hc : T.compact = T'.compact)
    (hl : T.largePow5 = T'.largePow5) (hst : T.largePow5Step = T'.largePow5Step)
    (h5 : ∀ k, 1 ≤ k → k ≤ 26 → T.smallIntPow5.getD k 0 = T'.smallIntPow5.getD k 0)
    (x : Big) (exp : Nat) : pow cap T x exp = pow cap T' x exp :=
  pow_congr cap T T' hc hl hst h5 x exp

example : powSite (some 62) (genPow false) [1] (135 + 27 + 26) = [26] ∧
    powSite (some 62) (genPow true) [1] 300 = [3] ∧ powSite none (genPow false) [1] 27 = [] := by
  decide +kernel

-- ================================================================ 4. S8: `shl_limbs` on the raw buffer

/-- S8 (refinement): the raw-pointer `shl_limbs` (overlapping `ptr::copy`, `write_bytes`, `set_len`) on a
    buffer with arbitrary dead slots refines the abstract `shlLimbs (some 62)` -/
theorem C08_shlLimbs_refines (v : LowVec) (n : Nat) :
    (LowVec.shlLimbs v n).map LowVec.deref = MinLex.shlLimbs (some 62) v.deref n :=
  shlLimbsLow_refines v n

/-- S8 (bounds): every slot read or written is below the new length `n + len ≤ 62`; only initialised
    slots (`< len`) are read; nothing is touched when the guard fails -/
theorem C08_shlLimbs_bounds (v : LowVec) (n : Nat) :
    (∀ a ∈ (LowVec.shlLimbsLog v n).2, a.slot < n + v.len ∧ a.slot < 62) ∧
    (∀ i, LowVec.Access.read i ∈ (LowVec.shlLimbsLog v n).2 → i < v.len) ∧
    (LowVec.shlLimbs v n = none → (LowVec.shlLimbsLog v n).2 = []) := by
  refine ⟨shlLimbsLog_slots v n, fun i hi => shlLimbsLog_reads v n i hi, ?_⟩
  intro h
  rw [shlLimbsLog_log]
  unfold LowVec.shlLimbs LowVec.shlLimbsLog LowVec.shlLimbsLogCap at h
  by_cases h1 : n + v.len > LowVec.CAP
  · rw [if_pos (Or.inl h1)]
  · rw [if_neg h1] at h
    split at h <;> simp at h

/-- S8 (`set_len`): the new length is `≤ 62`, and every slot below it has been written by the move or
    by the zero fill before the length grows (the old contents of the dead slots are never exposed) -/
theorem C08_shlLimbs_written (v w : LowVec) (n : Nat) (h : LowVec.shlLimbs v n = some w) :
    w.len ≤ 62 ∧ (v.len ≠ 0 → w.len = n + v.len) ∧ (v.len = 0 → w = v) ∧
    (v.len ≠ 0 → ∀ i, i < w.len → LowVec.Access.write i ∈ (LowVec.shlLimbsLog v n).2) :=
  shlLimbsLog_written v w n h

/-- S8 for a buffer of ANY capacity `c` (the heap vector, whose `shl_limbs` compares against
    `Vec::capacity()`): same refinement, every touched slot `< c`, only initialised slots read, every
    slot below the new length written before `set_len` -/
theorem C08_shlLimbs_anyCapacity (c : Nat) (v : LowVec) (n : Nat) :
    (LowVec.shlLimbsLogCap c v n).1.map LowVec.deref = MinLex.shlLimbs (some c) v.deref n ∧
    (∀ a ∈ (LowVec.shlLimbsLogCap c v n).2, a.slot < n + v.len ∧ a.slot < c) ∧
    (∀ i, LowVec.Access.read i ∈ (LowVec.shlLimbsLogCap c v n).2 → i < v.len) ∧
    (∀ w, (LowVec.shlLimbsLogCap c v n).1 = some w → v.len ≠ 0 →
      w.len = n + v.len ∧ w.len ≤ c ∧ ∀ i, i < w.len → LowVec.Access.write i ∈ (LowVec.shlLimbsLogCap c v n).2) := by
  refine ⟨shlLimbsCap_refines c v n, shlLimbsLogCap_slots c v n,
    fun i hi => shlLimbsLogCap_reads c v n i hi, fun w hw h0 => ?_⟩
  obtain ⟨a, b, _, d⟩ := shlLimbsLogCap_written c v w n hw
  exact ⟨b h0, a h0, d h0⟩

/-- S8: hence no observable depends on the dead part of the buffer -/
theorem C08_shlLimbs_independent (v1 v2 : LowVec) (n : Nat) (h : v1.deref = v2.deref) :
    (LowVec.shlLimbs v1 n).map LowVec.deref = (LowVec.shlLimbs v2 n).map LowVec.deref :=
  shlLimbsLow_independent v1 v2 n h

/-- the overlapping `ptr::copy` really is `memmove`: the highest-index-first element loop equals the
    "through a temporary" semantics used in the model … -/
theorem C08_memmove (buf : Nat → Nat) (n len : Nat) :
    LowVec.moveBack buf n len = (LowVec.ptrCopyLog buf 0 n len).1 := moveBack_eq_ptrCopy buf n len

/-- … whereas the lowest-index-first loop (`copy_nonoverlapping`-style) would be wrong here -/
example : LowVec.moveFwd (fun i => i + 1) 1 0 2 2 = 1 ∧ LowVec.moveBack (fun i => i + 1) 1 2 2 = 2 := by
  decide

example : (LowVec.shlLimbs ⟨fun i => 100 + i, 3⟩ 2).map LowVec.deref = some [0, 0, 100, 101, 102] ∧
    (LowVec.shlLimbsLog ⟨fun i => 100 + i, 3⟩ 2).2 =
      [.read 0, .read 1, .read 2, .write 2, .write 3, .write 4, .write 0, .write 1] ∧
    LowVec.shlLimbs ⟨fun i => 100 + i, 3⟩ 60 = none ∧
    (LowVec.shlLimbs ⟨fun i => 100 + i, 3⟩ 59).map (·.len) = some 62 := by decide

-- ================================================================ 5. S9 – S17: the vector primitives (C13)

/-- S9–S17: `len ≤ 62` in every reachable low-level state (precondition of `from_raw_parts`,
    `set_len`), every operation refines the bounded-sequence model, and no observable depends on a slot
    `≥ len`, even if all dead slots are re-scrambled after every step -/
theorem C08_vectors (scramble : Bool) (b b' : Nat → Nat) (ops : List C13.VOp) (g g' : Nat → Nat → Nat) :
    (C13.lowRun scramble (LowVec.new b) ops g).len ≤ 62 ∧
    (C13.lowRun scramble (LowVec.new b) ops g).deref = C13.vrun (some 62) [] ops ∧
    C13.lowTrace true (LowVec.new b) ops g = C13.lowTrace false (LowVec.new b') ops g' :=
  ⟨C13.C13g_len_le scramble b ops g, C13.C13g_history scramble b ops g, C13.C13i_independent b b' g g' ops⟩

-- ================================================================ 6. the slow path respects the capacity

/-- the instrumented slow path computes the same result -/
theorem C08_slow_faithful (cap : Option Nat) (T : PowTables) (F : FloatC) (num : Number) (fp : ExtFloat)
    (int frac : List UInt8) : (slowI cap T F num fp int frac).map (·.1) = slow cap T F num fp int frac :=
  slowI_fst cap T F num fp int frac

/-- for ARBITRARY bytes, in every configuration: a result of the slow path comes from big integers
    (mantissa, its power, `theor_digits` before and after scaling, both operands of `compare`) that
    all fit the storage back-end and have `u64` limbs; on the stack back-end each has at most 62
    limbs, i.e. a value below `2^3968` -/
theorem C08_slow_capacity (cfg : Cfg) (F : FloatC) (num : Number) (fp : ExtFloat) (int frac : List UInt8)
    (r : ExtFloat) (h : slow (genEnv cfg).cap (genEnv cfg).pow F num fp int frac = some r) :
    ∃ l, slowI (genEnv cfg).cap (genEnv cfg).pow F num fp int frac = some (r, l) ∧ l ≠ [] ∧
      ∀ x ∈ l, capOk (genEnv cfg).cap x.length = true ∧ AllLt x ∧
        (cfg.alloc = false → x.length ≤ 62 ∧ toNat x < B ^ 62) := by
  obtain ⟨l, hl⟩ := slowI_of_slow h
  have hc : capOk (genEnv cfg).cap 1 = true := by
    unfold Env.cap; split <;> simp [capOk]
  obtain ⟨hne, hfit⟩ := slowI_fits hc hl
  have hlt := slowI_allLt (genPow_tablesLt cfg.compact) hc hl
  refine ⟨l, hl, hne, fun x hx => ⟨hfit x hx, hlt x hx, fun ha => ?_⟩⟩
  have hf := hfit x hx
  have hcap : (genEnv cfg).cap = some 62 := by
    show (if cfg.alloc then none else some 62) = some 62
    rw [ha]; rfl
  unfold Fits at hf
  rw [hcap] at hf
  exact ⟨capOk_some.mp hf, C12.fits_of_some (hlt x hx) hf⟩

/-- non-vacuity: a slow-path run on the stack back-end (arbitrary bytes as digits) -/
example : (slowI (some 62) (genPow false) Gen.F64 ⟨-30, 12345, true⟩ ⟨2^63, -10⟩ [201, 7, 99] [250]).map
    (fun p => p.2.map List.length) = some [1, 1, 2, 17, 2] := by decide +kernel

-- ================================================================ 7. whole parser: non-interference

/-- C08 for the whole parser, as non-interference: for ALL `int frac : List UInt8`, all `e`, every
    configuration and both formats, the outcome of `parse_float` is the same in ANY environment `E'` that
    agrees with the generated one on the guarded index ranges only — `pow_fast_path` tables up to
    `MAX_EXPONENT_FAST_PATH`, `SMALL_INT_POW10[1..=19]`, `SMALL_INT_POW5[1..=26]` — whatever `E'` holds
    elsewhere (in particular where the real tables end and foreign memory begins). -/
theorem C08_noninterference (cfg : Cfg) (F : FloatC) (hF : F = Gen.F32 ∨ F = Gen.F64) (E' : Env)
    (hcfg : E'.cfg = cfg) (hlem : E'.lem = genLemire) (hbel : E'.bel = genBel)
    (hpow : AgreeTables (genPow cfg.compact) E'.pow)
    (hpw : ∀ k, k ≤ F.maxExponentFastPath.toNat → genPowFastPath cfg F k = E'.powFastPath F k)
    (int frac : List UInt8) (e : Int) :
    parseFloat (genEnv cfg) F int frac e = parseFloat E' F int frac e := by
  apply parseFloat_congr (genEnv cfg) E' F hcfg.symm hlem.symm hbel.symm hpow
  · intro k hk
    apply hpw k
    rcases hF with rfl | rfl
    · have := consts_F32; omega
    · have := consts_F64; omega
  · rcases hF with rfl | rfl
    · have := consts_F32; omega
    · have := consts_F64; omega

/-- an environment whose unchecked tables are followed (and, at the unused slot 0, preceded) by garbage -/
def garbageEnv (cfg : Cfg) : Env :=
  ⟨cfg, genLemire, genBel,
   ⟨cfg.compact, (Gen.smallIntPow5.set 0 999) ++ [31337, 42], (Gen.smallIntPow10.set 0 777) ++ [31337],
     Gen.largePow5, Gen.largePow5Step⟩,
   fun F k => if k ≤ F.maxExponentFastPath.toNat then genPowFastPath cfg F k else 424242⟩

theorem garbageEnv_agrees (cfg : Cfg) : AgreeTables (genPow cfg.compact) (garbageEnv cfg).pow := by
  refine ⟨rfl, rfl, rfl, ?_, ?_⟩
  · have h : ∀ k : Fin 20, 1 ≤ k.val → Gen.smallIntPow10.getD k.val 0 =
        ((Gen.smallIntPow10.set 0 777) ++ [31337]).getD k.val 0 := by decide +kernel
    intro k h1 h2; exact h ⟨k, by omega⟩ h1
  · have h : ∀ k : Fin 27, 1 ≤ k.val → Gen.smallIntPow5.getD k.val 0 =
        ((Gen.smallIntPow5.set 0 999) ++ [31337, 42]).getD k.val 0 := by decide +kernel
    intro k h1 h2; exact h ⟨k, by omega⟩ h1

/-- non-vacuity of `C08_noninterference`: the garbage-padded environment parses every byte string to
    the same outcome as the generated one -/
theorem C08_garbage_irrelevant (cfg : Cfg) (F : FloatC) (hF : F = Gen.F32 ∨ F = Gen.F64)
    (int frac : List UInt8) (e : Int) :
    parseFloat (genEnv cfg) F int frac e = parseFloat (garbageEnv cfg) F int frac e :=
  C08_noninterference cfg F hF (garbageEnv cfg) rfl rfl rfl (garbageEnv_agrees cfg)
    (fun k hk => by show _ = if _ then _ else _; rw [if_pos hk]) int frac e

/-- … and the garbage is really there -/
example : (garbageEnv ⟨false, false, true⟩).pow.smallIntPow10.getD 20 0 = 31337 ∧
    (genEnv ⟨false, false, true⟩).pow.smallIntPow10.getD 20 0 = 0 ∧
    (garbageEnv ⟨false, false, true⟩).powFastPath Gen.F64 23 = 424242 := by decide +kernel

-- ================================================================ 8. all sites in one statement

/-- C08: every unchecked access site of the crate is in bounds, for ARBITRARY input.
    (1) S1/S2/S4 f64, (2) S3 f64, (3) S1/S2/S4 f32, (4) S3 f32, (5) S5/S6, (6) S7,
    (7) S8 `shl_limbs`, (8) S9–S17 vector primitives; (9) table lengths as compiled. -/
theorem C08_sites :
    (∀ n, ∀ k ∈ (tryFastPathSites Gen.F64 n).1, k ≤ 22 ∧ k < Gen.smallF64Pow10.length) ∧
    (∀ n, ∀ k ∈ (tryFastPathSites Gen.F64 n).2, k ≤ 15 ∧ k < Gen.smallIntPow10.length) ∧
    (∀ n, ∀ k ∈ (tryFastPathSites Gen.F32 n).1, k ≤ 10 ∧ k < Gen.smallF32Pow10.length) ∧
    (∀ n, ∀ k ∈ (tryFastPathSites Gen.F32 n).2, k ≤ 7 ∧ k < Gen.smallIntPow10.length) ∧
    (∀ cap T int frac md, ∀ k ∈ (parseMantissaPMI cap T int frac md).2,
        1 ≤ k ∧ k ≤ 19 ∧ k < Gen.smallIntPow10.length) ∧
    (∀ cap T x exp, ∀ k ∈ powSite cap T x exp, 1 ≤ k ∧ k ≤ 26 ∧ k < Gen.smallIntPow5.length) ∧
    (∀ v n, ∀ a ∈ (LowVec.shlLimbsLog v n).2, a.slot < n + v.len ∧ a.slot < 62) ∧
    (∀ scramble b ops g, (C13.lowRun scramble (LowVec.new b) ops g).len ≤ 62) ∧
    (Gen.smallF64Pow10.length = 32 ∧ Gen.smallF32Pow10.length = 16 ∧
      Gen.smallIntPow10.length = 20 ∧ Gen.smallIntPow5.length = 28) :=
  ⟨fun n => (C08_fastPath_f64 n).1, fun n => (C08_fastPath_f64 n).2,
   fun n => (C08_fastPath_f32 n).1, fun n => (C08_fastPath_f32 n).2,
   C08_S5_S6, C08_S7, shlLimbsLog_slots, C13.C13g_len_le,
   ⟨table_lengths.1, table_lengths.2.1, table_lengths.2.2.1, table_lengths.2.2.2.1⟩⟩

end MinLex.C08
