/-
  C10 — inputs with the same exact value give identical bits; in particular moving the decimal
  point with a compensating exponent, and appending fraction zeros.

  * `C10_noncompact`: FULL theorem for the non-compact configurations.
  * `C10_partial`   : all configurations, under `OpenCompact F`.
  * UNCONDITIONAL (every environment, every format record, no contract at all):
    `C10_resplit_number`  moving the decimal point gives the SAME `Number`;
    `C10_resplit_stages`  so the fast path and the moderate stage see the same input and take the
                          same decision;
    `C10_resplit_unconditional`  hence the two parses agree outright unless the moderate stage
                          declines (only the big-integer path looks at the digit strings again).
-/
import MinLex.Proofs.Compose
namespace MinLex.C10
open MinLex MinLex.Main MinLex.Compose

def C10_statement (E : Env) (F : FloatC) : Prop :=
  ∀ (ia fa : List UInt8) (ea : Int) (ib fb : List UInt8) (eb : Int),
    Valid ia fa ea → Valid ib fb eb → Q.eqv (digitsValue ia fa ea) (digitsValue ib fb eb) →
    parseFloat E F ia fa ea = parseFloat E F ib fb eb

/-- the specification depends on the value only -/
theorem C10_spec (f : Fmt) {a b : Q} (ha : 0 < a.den) (hb : 0 < b.den) (h : Q.eqv a b) :
    rne f a = rne f b := RneSpec.rne_congr f ha hb h

/-- **C10 for the non-compact configurations: proved outright.** -/
theorem C10_noncompact (cfg : Cfg) (hc : cfg.compact = false) {F : FloatC}
    (hF : F = Gen.F32 ∨ F = Gen.F64) : C10_statement (genEnv cfg) F :=
  fun ia fa ea ib fb eb ha hb heq =>
    C10_of_parseCorrect (parseCorrect_noncompact cfg hc hF) ia fa ea ib fb eb ha hb heq

/-- C10 over all configurations, under the open Bellerophon contracts. -/
theorem C10_partial (cfg : Cfg) {F : FloatC} (hF : F = Gen.F32 ∨ F = Gen.F64) (h : OpenCompact F) :
    C10_statement (genEnv cfg) F :=
  fun ia fa ea ib fb eb ha hb heq =>
    C10_of_parseCorrect (parseCorrect_of_open cfg hF h) ia fa ea ib fb eb ha hb heq

/-- moving the decimal point: `int c . frac × 10^e` and `int . c frac × 10^(e+1)` -/
theorem C10_shift_point (cfg : Cfg) (hc : cfg.compact = false) {F : FloatC}
    (hF : F = Gen.F32 ∨ F = Gen.F64) {int frac : List UInt8} {c : UInt8} {e : Int}
    (h1 : Valid (int ++ [c]) frac e) (h2 : Valid int (c :: frac) (e + 1)) :
    parseFloat (genEnv cfg) F (int ++ [c]) frac e = parseFloat (genEnv cfg) F int (c :: frac) (e + 1) :=
  C10_noncompact cfg hc hF _ _ _ _ _ _ h1 h2 (RneSpec.digitsValue_shift_point int frac c e)

/-- appending a fraction zero -/
theorem C10_append_zero (cfg : Cfg) (hc : cfg.compact = false) {F : FloatC}
    (hF : F = Gen.F32 ∨ F = Gen.F64) {int frac : List UInt8} {e : Int}
    (h1 : Valid int (frac ++ [48]) e) (h2 : Valid int frac e) :
    parseFloat (genEnv cfg) F int (frac ++ [48]) e = parseFloat (genEnv cfg) F int frac e :=
  C10_noncompact cfg hc hF _ _ _ _ _ _ h1 h2 (RneSpec.digitsValue_append_zero int frac e)

example : Valid ([49, 50] ++ [51]) [52] 7 ∧ Valid [49, 50] (51 :: [52]) (7 + 1) := by decide
example : Valid [49] ([53] ++ [48]) 0 ∧ Valid [49] [53] 0 := by decide

-- ------------------------------------------------------------------ unconditional part
/-- moving the decimal point gives the same `Number` (mantissa, exponent, truncation flag) -/
theorem C10_resplit_number {int frac : List UInt8} {c : UInt8} {e : Int}
    (h1 : Valid (int ++ [c]) frac e) (h2 : Valid int (c :: frac) (e + 1)) :
    parseNumber (int ++ [c]) frac e = parseNumber int (c :: frac) (e + 1) :=
  parseNumber_resplit h1 h2

/-- the fast path and the moderate stage see the same input on the two re-splittings -/
theorem C10_resplit_stages (E : Env) (F : FloatC) {int frac : List UInt8} {c : UInt8} {e : Int}
    (h1 : Valid (int ++ [c]) frac e) (h2 : Valid int (c :: frac) (e + 1)) :
    tryFastPath F (E.powFastPath F) (intPow10 E.cfg.compact E.pow.smallIntPow10)
        (parseNumber (int ++ [c]) frac e) =
      tryFastPath F (E.powFastPath F) (intPow10 E.cfg.compact E.pow.smallIntPow10)
        (parseNumber int (c :: frac) (e + 1)) ∧
    moderatePath E F (parseNumber (int ++ [c]) frac e) =
      moderatePath E F (parseNumber int (c :: frac) (e + 1)) := by
  rw [C10_resplit_number h1 h2]
  exact ⟨rfl, rfl⟩

/-- For EVERY environment and format record, with no contract assumed: the two parses are equal
    unless the fast path is not applicable and the moderate stage declines (`exp < 0`), i.e. unless
    the big-integer path runs. -/
theorem C10_resplit_unconditional (E : Env) (F : FloatC) {int frac : List UInt8} {c : UInt8} {e : Int}
    (h1 : Valid (int ++ [c]) frac e) (h2 : Valid int (c :: frac) (e + 1)) :
    parseFloat E F (int ++ [c]) frac e = parseFloat E F int (c :: frac) (e + 1) ∨
    (tryFastPath F (E.powFastPath F) (intPow10 E.cfg.compact E.pow.smallIntPow10)
        (parseNumber int (c :: frac) (e + 1)) = none ∧
      ∃ fp, moderatePath E F (parseNumber int (c :: frac) (e + 1)) = some fp ∧ fp.exp < 0) := by
  unfold parseFloat
  simp only []
  rw [C10_resplit_number h1 h2]
  cases hfp : tryFastPath F (E.powFastPath F) (intPow10 E.cfg.compact E.pow.smallIntPow10)
      (parseNumber int (c :: frac) (e + 1)) with
  | some b => exact Or.inl rfl
  | none =>
    cases hmp : moderatePath E F (parseNumber int (c :: frac) (e + 1)) with
    | none => exact Or.inl rfl
    | some fp =>
      by_cases hneg : fp.exp < 0
      · exact Or.inr ⟨rfl, fp, rfl, hneg⟩
      · left
        simp only [if_neg hneg]

-- both situations occur: "12.5" re-split (fast path) ...
example : tryFastPath Gen.F64 ((genEnv ⟨false, true, true⟩).powFastPath Gen.F64)
    (intPow10 false Gen.smallIntPow10) (parseNumber [49] [50, 53] 1) ≠ none := by decide +kernel

end MinLex.C10
