/-
  FINAL — the property theorems with every stage contract discharged, for ALL eight feature
  configurations (std × compact × alloc) and both float formats.  No hypotheses, no axioms beyond
  the three standard ones.  `genEnv cfg` is the model bound to the data regenerated from the
  compiled crate (MinLex/Gen), so these theorems are re-checked against the current tables and
  constants on every run.
-/
import MinLex.Props.BellerophonSound
import MinLex.Props.C01
import MinLex.Props.C02
import MinLex.Props.C03
import MinLex.Props.C05
import MinLex.Props.C06
import MinLex.Props.C07
import MinLex.Props.C09
import MinLex.Props.C10
namespace MinLex.Final
open MinLex MinLex.Main MinLex.Compose MinLex.BellerophonSound

/-- MAIN for every configuration and both formats: the model of `parse_float` returns the IEEE
    round-to-nearest-even of the exact decimal value on every valid input. -/
theorem MAIN_all (cfg : Cfg) {F : FloatC} (hF : F = Gen.F32 ∨ F = Gen.F64) :
    ParseCorrect (genEnv cfg) F := by
  rcases hF with rfl | rfl
  · exact (parseCorrect_all cfg).2
  · exact (parseCorrect_all cfg).1

/-- **C01** (f64 correctly rounded, every configuration). -/
theorem C01 : C01.C01_statement := C01.C01_partial openCompact_f64

/-- **C02** (f32 correctly rounded, single rounding, every configuration). -/
theorem C02 : C02.C02_statement := C02.C02_partial openCompact_f32

/-- **C05** (all configurations return bit-identical results). -/
theorem C05_f64 : C05.C05_statement Gen.F64 := C05.C05_partial_f64 openCompact_f64
theorem C05_f32 : C05.C05_statement Gen.F32 := C05.C05_partial_f32 openCompact_f32

/-- **C06** (arbitrarily long digit strings), every configuration. -/
theorem C06 (cfg : Cfg) {F : FloatC} (hF : F = Gen.F32 ∨ F = Gen.F64) : C06.C06_statement (genEnv cfg) F := by
  rcases hF with rfl | rfl
  · exact C06.C06_partial cfg (Or.inl rfl) openCompact_f32
  · exact C06.C06_partial cfg (Or.inr rfl) openCompact_f64

/-- **C07** (overflow / underflow exactly at the thresholds), every configuration. -/
theorem C07 (cfg : Cfg) {F : FloatC} (hF : F = Gen.F32 ∨ F = Gen.F64)
    (int frac : List UInt8) (e : Int) (hv : Valid int frac e) :
    (parseFloat (genEnv cfg) F int frac e = .ok F.fmt.infBits ↔
      Q.le (C07.infThreshold F.fmt) (digitsValue int frac e)) ∧
    (parseFloat (genEnv cfg) F int frac e = .ok 0 ↔ Q.le (digitsValue int frac e) (C07.zeroThreshold F.fmt)) := by
  rcases hF with rfl | rfl
  · exact C07.C07_partial cfg (Or.inl rfl) openCompact_f32 int frac e hv
  · exact C07.C07_partial cfg (Or.inr rfl) openCompact_f64 int frac e hv

/-- **C09** (monotonic), every configuration. -/
theorem C09 (cfg : Cfg) {F : FloatC} (hF : F = Gen.F32 ∨ F = Gen.F64) : C09.C09_statement (genEnv cfg) F := by
  rcases hF with rfl | rfl
  · exact C09.C09_partial cfg (Or.inl rfl) openCompact_f32
  · exact C09.C09_partial cfg (Or.inr rfl) openCompact_f64

/-- **C10** (equal values, identical bits), every configuration. -/
theorem C10 (cfg : Cfg) {F : FloatC} (hF : F = Gen.F32 ∨ F = Gen.F64) : C10.C10_statement (genEnv cfg) F := by
  rcases hF with rfl | rfl
  · exact C10.C10_partial cfg (Or.inl rfl) openCompact_f32
  · exact C10.C10_partial cfg (Or.inr rfl) openCompact_f64

/-- **C03 (a)** exact expansion, **(b)** 17 / 9 significant digits, **(c)** any identifying string. -/
theorem C03a (cfg : Cfg) {F : FloatC} (hF : F = Gen.F32 ∨ F = Gen.F64)
    {b : Nat} (hb : b < F.fmt.infBits) (int frac : List UInt8) (e : Int) (hv : Valid int frac e)
    (heq : Q.eqv (digitsValue int frac e) (decodeQ F.fmt b)) :
    parseFloat (genEnv cfg) F int frac e = .ok b := by
  rcases hF with rfl | rfl
  · exact C03.C03a_partial cfg (Or.inl rfl) openCompact_f32 hb int frac e hv heq
  · exact C03.C03a_partial cfg (Or.inr rfl) openCompact_f64 hb int frac e hv heq

theorem C03b_f64 (cfg : Cfg) {b : Nat} (h0 : 1 ≤ b) (hb : b < Gen.F64.fmt.infBits)
    (int frac : List UInt8) (e : Int) (hv : Valid int frac e)
    (hr : C03.Rounded 17 (decodeQ Gen.F64.fmt b) (digitsValue int frac e)) :
    parseFloat (genEnv cfg) Gen.F64 int frac e = .ok b :=
  C03.C03b_f64_partial cfg openCompact_f64 h0 hb int frac e hv hr

theorem C03b_f32 (cfg : Cfg) {b : Nat} (h0 : 1 ≤ b) (hb : b < Gen.F32.fmt.infBits)
    (int frac : List UInt8) (e : Int) (hv : Valid int frac e)
    (hr : C03.Rounded 9 (decodeQ Gen.F32.fmt b) (digitsValue int frac e)) :
    parseFloat (genEnv cfg) Gen.F32 int frac e = .ok b :=
  C03.C03b_f32_partial cfg openCompact_f32 h0 hb int frac e hv hr

theorem C03c (cfg : Cfg) {F : FloatC} (hF : F = Gen.F32 ∨ F = Gen.F64)
    (int frac : List UInt8) (e : Int) (hv : Valid int frac e) (b : Nat) :
    parseFloat (genEnv cfg) F int frac e = .ok b ↔ C03.Identifies F.fmt int frac e b := by
  rcases hF with rfl | rfl
  · exact C03.C03c_partial cfg (Or.inl rfl) openCompact_f32 int frac e hv b
  · exact C03.C03c_partial cfg (Or.inr rfl) openCompact_f64 int frac e hv b

/-- C04, release-semantics half: valid input never panics, in any configuration (a `.ok`, never `.panic`). -/
theorem C04_no_panic (cfg : Cfg) {F : FloatC} (hF : F = Gen.F32 ∨ F = Gen.F64)
    (int frac : List UInt8) (e : Int) (hv : Valid int frac e) :
    parseFloat (genEnv cfg) F int frac e ≠ .panic := by
  rw [MAIN_all cfg hF int frac e hv]
  exact fun h => nomatch h

-- non-vacuity: the compact + no_std configuration on the input that exposed the repaired defect
example : parseFloat (genEnv ⟨true, false, false⟩) Gen.F64 [49]
    [49, 52, 51, 56, 56, 50, 51, 55, 52, 51, 52, 55, 52, 54, 53, 48, 55, 53, 57, 55, 55, 57, 56, 51, 49] (-306)
    = .ok 0x0069b45180dec9d1 := by
  rw [C01 ⟨true, false, false⟩ _ _ _ (by decide)]
  decide +kernel

end MinLex.Final
