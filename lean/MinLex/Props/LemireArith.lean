/-
  C11 / C04 — arithmetic facts about the model of the Eisel–Lemire stage (`MinLex/Model/Lemire.lean`,
  Rust: `src/lemire.rs`), on the tables regenerated from the compiled crate (`genLemire`).

  1. `power q − 63 = ⌊log2 10^q⌋` on the table range, no `i32` wrap.
  2. every table row brackets `5^q` (normalised, truncated / exact / ceiling as the generator says).
  3. `full_multiplication` and `compute_product_approx` compute what they should (carry logic).
  4. no panic / no trap for 64-bit significands and any `i32` exponent; shift amounts, `i32` ranges.
  5. shape of the answers (definite: a non-NaN, non-negative bit pattern; declined: normalised).
  6. the truncated-digits argument: equal correct roundings at both end points fix everything between.

  The soundness of the floor / tie logic of Eisel–Lemire itself is NOT claimed here.
  Proofs: `MinLex/Proofs/Lemire.lean`.
-/
import MinLex.Proofs.Lemire
import MinLex.Props.RneSpec
namespace MinLex.LemireArith
open MinLex MinLex.LemireP

/-! ## 1. `power` -/

/-- `power` does not wrap for `|q| ≤ 9863` (in particular on the table range) -/
theorem power_no_wrap {q : Int} (h1 : -9863 ≤ q) (h2 : q ≤ 9863) :
    wrapI32 (q * 217706) = q * 217706 ∧ power q = q * 217706 / 65536 + 63 :=
  ⟨LemireP.power_no_wrap h1 h2, power_eq h1 h2⟩

example : power 308 = 1086 ∧ power (-342) = -1074 ∧ power 0 = 63 := by decide

/-- `power q − 63 = ⌊log2 10^q⌋` for `0 ≤ q ≤ 308`: `2^(power q − 63) ≤ 10^q < 2^(power q − 62)` -/
theorem power_spec_nonneg {q : Int} (h0 : 0 ≤ q) (h : q ≤ 308) :
    63 ≤ power q ∧ 2^(power q - 63).toNat ≤ 10^q.toNat ∧ 10^q.toNat < 2^(power q - 62).toNat := by
  have hk := powerOk_all (q := q) (by omega) h
  unfold powerOk at hk
  simp only [] at hk
  rw [if_pos (by omega)] at hk
  simp only [Bool.and_eq_true, decide_eq_true_eq] at hk
  have e : power q - 63 + 1 = power q - 62 := by omega
  rw [e] at hk
  exact ⟨by omega, hk.1.2, hk.2⟩

/-- `power q − 63 = ⌊log2 10^q⌋` for `−342 ≤ q < 0`, cross-multiplied:
    `2^(62 − power q) < 10^(−q) ≤ 2^(63 − power q)` -/
theorem power_spec_neg {q : Int} (h : -342 ≤ q) (h0 : q < 0) :
    power q < 63 ∧ 10^(-q).toNat ≤ 2^(63 - power q).toNat ∧ 2^(62 - power q).toNat < 10^(-q).toNat := by
  have hk := powerOk_all (q := q) h (by omega)
  unfold powerOk at hk
  simp only [] at hk
  rw [if_neg (by omega)] at hk
  simp only [Bool.and_eq_true, decide_eq_true_eq] at hk
  have e1 : -(power q - 63) = 63 - power q := by omega
  have e2 : 63 - power q - 1 = 62 - power q := by omega
  rw [e1, e2] at hk
  exact ⟨by omega, hk.1.2, hk.2⟩

/-- the same as a statement about the spec's `flog2`: `power q − 63 = ⌊log2 10^q⌋` -/
theorem power_spec {q : Int} (h1 : -342 ≤ q) (h2 : q ≤ 308) :
    flog2 (ofDec 1 q).num (ofDec 1 q).den = power q - 63 := by
  have hD := ofDec_den_pos 1 q
  have hN : 0 < (ofDec 1 q).num := by unfold ofDec; split <;> simp
  suffices hs : geP2 (ofDec 1 q).num (ofDec 1 q).den (power q - 63) = true ∧
      geP2 (ofDec 1 q).num (ofDec 1 q).den (power q - 63 + 1) = false by
    apply flog2_unique hN hD
    · exact (geP2_iff hD _).mp hs.1
    · have := (geP2_iff (N := (ofDec 1 q).num) hD (power q - 63 + 1)).not.mp (by rw [hs.2]; simp)
      exact lt_of_not_ge this
  rcases Int.lt_or_le q 0 with hq | hq
  · have hs := power_spec_neg h1 hq
    have hn : ¬ (q ≥ 0) := by omega
    have hp59 : power q ≤ 59 := by rw [power_eq (by omega) (by omega)]; omega
    unfold geP2 ofDec
    simp only [hn, if_false]
    have hn2 : ¬ (power q - 63 ≥ 0) := by omega
    have hn3 : ¬ (power q - 63 + 1 ≥ 0) := by omega
    simp only [hn2, hn3, if_false, decide_eq_true_eq, decide_eq_false_iff_not, Nat.one_mul]
    have e1 : -(power q - 63) = 63 - power q := by omega
    have e2 : -(power q - 63 + 1) = 62 - power q := by omega
    rw [e1, e2]
    exact ⟨hs.2.1, by omega⟩
  · have hs := power_spec_nonneg hq h2
    have hn : q ≥ 0 := hq
    unfold geP2 ofDec
    simp only [hn, if_true]
    have hn2 : power q - 63 ≥ 0 := by omega
    have hn3 : power q - 63 + 1 ≥ 0 := by omega
    simp only [hn2, hn3, if_true, decide_eq_true_eq, decide_eq_false_iff_not, Nat.one_mul]
    have e2 : power q - 63 + 1 = power q - 62 := by omega
    rw [e2]
    exact ⟨hs.2.1, by omega⟩

example : flog2 (ofDec 1 (-5)).num (ofDec 1 (-5)).den = power (-5) - 63 := power_spec (by decide) (by decide)

/-! ## 2. the table rows

`Gen.powerOfFive128[i] = (hi, lo)` is the row of `q = i − 342`; `T = hi·2^64 + lo`.
`rowExp q = power q − q − 190 = ⌊log2 5^q⌋ − 127` is the binary exponent of the row:
`5^q ≈ T · 2^(rowExp q)`. -/

/-- 128-bit value of row `i` -/
def rowT (i : Nat) : Nat :=
  (Gen.powerOfFive128.getD i (0, 0)).1 * 2^64 + (Gen.powerOfFive128.getD i (0, 0)).2

theorem table_length : Gen.powerOfFive128.length = 651 ∧ genLemire.smallestPowerOfFive = -342 ∧
    genLemire.powerOfFive128 = Gen.powerOfFive128 :=
  ⟨LemireP.table_length, genLemire_smallest, rfl⟩

theorem row_ok (i : Nat) (h : i < 651) :
    rowOk (Gen.powerOfFive128.getD i (0, 0)) ((i : Int) - 342) = true := by
  have hl : i < Gen.powerOfFive128.length := by rw [LemireP.table_length]; exact h
  have := rowOk_all i hl
  have e : (-342 : Int) + i = (i : Int) - 342 := by omega
  rw [e] at this
  rw [← List.getElem_eq_getD (h := hl)]; exact this

/-- every row is normalised: both words are 64-bit, the top bit of `hi` is set -/
theorem table_norm (i : Nat) (h : i < 651) :
    (Gen.powerOfFive128.getD i (0, 0)).1 < 2^64 ∧ (Gen.powerOfFive128.getD i (0, 0)).2 < 2^64 ∧
    2^63 ≤ (Gen.powerOfFive128.getD i (0, 0)).1 ∧ 2^127 ≤ rowT i ∧ rowT i < 2^128 := by
  have hb := rowOk_bounds (row_ok i h)
  unfold rowT
  omega

/-- the row is the generator's definition (C14) -/
theorem table_entry (i : Nat) (h : i < 651) : rowT i = C14.lemireEntry ((i : Int) - 342) := by
  have hl : i < Gen.powerOfFive128.length := by rw [LemireP.table_length]; exact h
  have := C14.C14_lemire i hl
  unfold rowT
  rw [← List.getElem_eq_getD (h := hl), this]
  congr 1

/-- sign of the row exponent: `≤ 0` exactly up to `q = 55` (`5^55 < 2^128 < 5^56`) -/
theorem rowExp_sign {q : Int} (h0 : 0 ≤ q) (h : q ≤ 308) :
    (q ≤ 55 → rowExp q ≤ 0) ∧ (56 ≤ q → 0 < rowExp q) := by
  have hk := rowExpOk_all (q := q) (by omega) h
  unfold rowExpOk at hk
  rw [if_pos (by omega)] at hk
  constructor
  · intro hq; rw [if_pos hq] at hk; simpa using hk
  · intro hq; rw [if_neg (by omega)] at hk; simpa using hk

/-- for negative `q` the row exponent is the generator's `b = ⌈log2 5^-q⌉ + 127` -/
theorem rowExp_neg {q : Int} (h : -342 ≤ q) (h0 : q < 0) :
    -rowExp q = (C14.bitlenCeil (5 ^ (-q).toNat) : Int) + 127 := by
  have hk := rowExpOk_all (q := q) h (by omega)
  unfold rowExpOk at hk
  rw [if_neg (by omega)] at hk
  simpa using hk

/-- `0 ≤ q ≤ 55`: the row is exact, `T = 5^q · 2^(−rowExp q)` -/
theorem table_exact (i : Nat) (h1 : 342 ≤ i) (h2 : i ≤ 397) :
    rowT i = 5^(i - 342) * 2^(-rowExp ((i : Int) - 342)).toNat := by
  have hk := row_ok i (by omega)
  have hs := (rowExp_sign (q := (i : Int) - 342) (by omega) (by omega)).1 (by omega)
  have hq : ((i : Int) - 342).toNat = i - 342 := by omega
  unfold rowOk at hk
  simp only [Bool.and_eq_true, decide_eq_true_eq] at hk
  obtain ⟨_, hk⟩ := hk
  rw [if_pos (by omega), hq] at hk
  unfold rowT
  split at hk
  · rename_i hs0
    have e : rowExp ((i : Int) - 342) = 0 := by omega
    rw [e] at hk ⊢
    simp only [Bool.and_eq_true, decide_eq_true_eq] at hk
    simp only [Int.toNat_zero, Nat.pow_zero, Nat.mul_one, Int.neg_zero] at hk ⊢
    omega
  · simpa using hk

/-- `56 ≤ q ≤ 308`: the row is the truncation, `T·2^s ≤ 5^q < (T+1)·2^s`, `s = rowExp q > 0` -/
theorem table_trunc (i : Nat) (h1 : 398 ≤ i) (h2 : i < 651) :
    rowT i * 2^(rowExp ((i : Int) - 342)).toNat ≤ 5^(i - 342) ∧
    5^(i - 342) < (rowT i + 1) * 2^(rowExp ((i : Int) - 342)).toNat := by
  have hk := row_ok i h2
  have hs := (rowExp_sign (q := (i : Int) - 342) (by omega) (by omega)).2 (by omega)
  have hq : ((i : Int) - 342).toNat = i - 342 := by omega
  unfold rowOk at hk
  simp only [Bool.and_eq_true, decide_eq_true_eq] at hk
  obtain ⟨_, hk⟩ := hk
  rw [if_pos (by omega), if_pos (by omega), hq] at hk
  simp only [Bool.and_eq_true, decide_eq_true_eq] at hk
  exact hk

/-- `−27 ≤ q < 0`: the row is `⌊2^b / 5^-q⌋ + 1`: `(T−1)·5^-q ≤ 2^b < T·5^-q`, `b = −rowExp q` -/
theorem table_neg_ceil (i : Nat) (h1 : 315 ≤ i) (h2 : i < 342) :
    (rowT i - 1) * 5^(342 - i) ≤ 2^(-rowExp ((i : Int) - 342)).toNat ∧
    2^(-rowExp ((i : Int) - 342)).toNat < rowT i * 5^(342 - i) := by
  have hk := row_ok i (by omega)
  have hq : (-((i : Int) - 342)).toNat = 342 - i := by omega
  unfold rowOk at hk
  simp only [Bool.and_eq_true, decide_eq_true_eq] at hk
  obtain ⟨_, hk⟩ := hk
  rw [if_neg (by omega), if_pos (by omega), hq] at hk
  simp only [Bool.and_eq_true, decide_eq_true_eq] at hk
  exact hk.2

/-- `−342 ≤ q < −27`: the row is `⌊2^b / 5^-q⌋`: `T·5^-q ≤ 2^b < (T+1)·5^-q`, `b = −rowExp q` -/
theorem table_neg_floor (i : Nat) (h2 : i < 315) :
    rowT i * 5^(342 - i) ≤ 2^(-rowExp ((i : Int) - 342)).toNat ∧
    2^(-rowExp ((i : Int) - 342)).toNat < (rowT i + 1) * 5^(342 - i) := by
  have hk := row_ok i (by omega)
  have hq : (-((i : Int) - 342)).toNat = 342 - i := by omega
  unfold rowOk at hk
  simp only [Bool.and_eq_true, decide_eq_true_eq] at hk
  obtain ⟨_, hk⟩ := hk
  rw [if_neg (by omega), if_neg (by omega), hq] at hk
  simp only [Bool.and_eq_true, decide_eq_true_eq] at hk
  exact hk.2

/-- non-vacuity: three rows -/
example : rowT 342 = 2^127 ∧ rowT 343 = 5 * 2^125 ∧ rowExp 0 = -127 ∧ rowExp 1 = -125 ∧
    rowT 341 = 2^130 / 5 + 1 ∧ rowExp (-1) = -130 := by decide +kernel

/-! ## 3. `full_multiplication`, `compute_product_approx` -/

/-- `full_multiplication(a, b) = (lo, hi)` with `lo + 2^64·hi = a·b`, both words 64-bit -/
theorem fullMultiplication_spec {a b : Nat} (ha : a < 2^64) (hb : b < 2^64) :
    (fullMultiplication a b).1 + 2^64 * (fullMultiplication a b).2 = a * b ∧
    (fullMultiplication a b).1 < 2^64 ∧ (fullMultiplication a b).2 < 2^64 := by
  have := fullMultiplication_hi_lt ha hb
  exact ⟨fullMultiplication_eq a b, fullMultiplication_lo_lt a b, by omega⟩

example : fullMultiplication (2^64 - 1) (2^64 - 1) = (1, 2^64 - 2) := by decide +kernel

/-- `compute_product_approx(q, w, precision)` on the regenerated table, `−342 ≤ q ≤ 308`, `w < 2^64`,
    with `(hi5, lo5)` the row of `q`: it does not panic; the result `(lo, hi)` has 64-bit words;
    without the second product it is the exact 128-bit `w·hi5`; with it,
    `hi·2^64 + lo = w·hi5 + ⌊w·lo5 / 2^64⌋` (the carry test `second_hi > first_lo` is right);
    `hi ≥ 2^62` for normalised `w`. -/
theorem computeProductApprox_spec {q : Int} (h1 : -342 ≤ q) (h2 : q ≤ 308) {w : Nat} (hw : w < 2^64)
    (p : Nat) :
    ∃ hi5 lo5 lo hi : Nat,
      Gen.powerOfFive128[(q + 342).toNat]? = some (hi5, lo5) ∧
      computeProductApprox genLemire q w p = some (lo, hi) ∧
      lo < 2^64 ∧ hi < 2^64 ∧
      (secondTaken w hi5 p = false → lo = w * hi5 % 2^64 ∧ hi = w * hi5 / 2^64) ∧
      (secondTaken w hi5 p = true → hi * 2^64 + lo = w * hi5 + w * lo5 / 2^64) ∧
      (2^63 ≤ w → 2^62 ≤ hi) := by
  obtain ⟨⟨hi5, lo5⟩, hrow, hok⟩ := row_exists h1 h2
  have hb := rowOk_bounds hok
  have heq := computeProductApprox_eq genLemire q w p (by rw [genLemire_smallest]; exact h1) hrow
  have hlt := productCore_lt (lo5 := lo5) (p := p) hw hb.1
  refine ⟨hi5, lo5, (productCore w hi5 lo5 p).1, (productCore w hi5 lo5 p).2, ?_, heq, hlt.1, hlt.2,
    ?_, ?_, ?_⟩
  · rw [genLemire_smallest] at hrow
    have e : q - -342 = q + 342 := by omega
    rw [e] at hrow; exact hrow
  · intro hn; rw [productCore_not_taken hn]; exact ⟨rfl, rfl⟩
  · intro ht; exact productCore_taken hw hb.2.1 ht
  · intro hn; exact productCore_hi_ge_norm hn hb.2.2

/-- when the second product is taken: the low `64 − precision` bits of `⌊w·hi5 / 2^64⌋` are all ones -/
theorem secondTaken_spec {w hi5 p : Nat} (hp : p < 64) :
    secondTaken w hi5 p = true ↔ (w * hi5 / 2^64) % 2^(64 - p) = 2^(64 - p) - 1 :=
  secondTaken_iff hp

example : computeProductApprox genLemire 0 (2^63) 55 = some (0, 2^62) := by decide +kernel

/-! ## 3b. what the product means -/

/-- with the second product, `(hi, lo)` is exactly the top 128 bits of the 192-bit `w·T` -/
theorem computeProductApprox_floor {q : Int} (h1 : -342 ≤ q) (h2 : q ≤ 308) {w : Nat} (hw : w < 2^64)
    (p : Nat) :
    ∃ hi5 lo5 lo hi : Nat,
      Gen.powerOfFive128[(q + 342).toNat]? = some (hi5, lo5) ∧
      computeProductApprox genLemire q w p = some (lo, hi) ∧
      hi * 2^128 ≤ w * (hi5 * 2^64 + lo5) ∧ w * (hi5 * 2^64 + lo5 + 1) < (hi + 2) * 2^128 ∧
      (secondTaken w hi5 p = true →
        hi * 2^64 + lo = w * (hi5 * 2^64 + lo5) / 2^64 ∧ w * (hi5 * 2^64 + lo5) < (hi + 1) * 2^128) := by
  obtain ⟨⟨hi5, lo5⟩, hrow, hok⟩ := row_exists h1 h2
  have hb := rowOk_bounds' hok
  have heq := computeProductApprox_eq genLemire q w p (by rw [genLemire_smallest]; exact h1) hrow
  obtain ⟨c1, c2, c3⟩ := productCore_bracket (hi5 := hi5) (p := p) hw hb.2.1
  refine ⟨hi5, lo5, _, _, ?_, heq, c1, c2, fun ht => ⟨productCore_taken_floor hw hb.2.1 ht, c3 ht⟩⟩
  rw [genLemire_smallest] at hrow
  have e : q - -342 = q + 342 := by omega
  rw [e] at hrow; exact hrow

/-- **the meaning of `hi`**: with `s = rowExp q = power q − q − 190` the upper word satisfies
    `hi ≤ w·5^q / 2^(128+s) < hi + 2` (cross-multiplied; four kinds of rows; for the rounded-up rows
    `−27 ≤ q < 0` the lower bound is weaker by `w·5^-q`).  For the exact rows `0 ≤ q ≤ 55` with the
    second product, `(hi, lo) = ⌊w·5^q·2^-s / 2^64⌋` exactly. -/
theorem computeProductApprox_value {q : Int} (h1 : -342 ≤ q) (h2 : q ≤ 308) {w : Nat} (hw : w < 2^64)
    (p : Nat) :
    ∃ hi5 lo5 lo hi : Nat,
      Gen.powerOfFive128[(q + 342).toNat]? = some (hi5, lo5) ∧
      computeProductApprox genLemire q w p = some (lo, hi) ∧
      (56 ≤ q →
        hi * 2^128 * 2^(rowExp q).toNat ≤ w * 5^q.toNat ∧
        w * 5^q.toNat < (hi + 2) * 2^128 * 2^(rowExp q).toNat) ∧
      (0 ≤ q → q ≤ 55 →
        hi * 2^128 ≤ w * (5^q.toNat * 2^(-rowExp q).toNat) ∧
        w * (5^q.toNat * 2^(-rowExp q).toNat) < (hi + 2) * 2^128 ∧
        (secondTaken w hi5 p = true →
          hi * 2^64 + lo = w * (5^q.toNat * 2^(-rowExp q).toNat) / 2^64)) ∧
      (q < -27 →
        hi * 2^128 * 5^(-q).toNat ≤ w * 2^(-rowExp q).toNat ∧
        w * 2^(-rowExp q).toNat < (hi + 2) * 2^128 * 5^(-q).toNat) ∧
      (-27 ≤ q → q < 0 →
        hi * 2^128 * 5^(-q).toNat ≤ w * 2^(-rowExp q).toNat + w * 5^(-q).toNat ∧
        w * 2^(-rowExp q).toNat < (hi + 2) * 2^128 * 5^(-q).toNat) := by
  obtain ⟨⟨hi5, lo5⟩, hrow, hok⟩ := row_exists h1 h2
  have heq := computeProductApprox_eq genLemire q w p (by rw [genLemire_smallest]; exact h1) hrow
  obtain ⟨v1, v2, v3, v4⟩ := product_value (p := p) h1 h2 hw hok
  refine ⟨hi5, lo5, _, _, ?_, heq, v1, v2, v3, v4⟩
  rw [genLemire_smallest] at hrow
  have e : q - -342 = q + 342 := by omega
  rw [e] at hrow; exact hrow

/-- non-vacuity: `w = 2^63`, `q = 1` (exact row `5·2^125`): `hi = ⌊2^63·5·2^125 / 2^128⌋ = 5·2^60` -/
example : computeProductApprox genLemire 1 (2^63) 55 = some (0, 5 * 2^60) ∧ rowExp 1 = -125 := by
  decide +kernel

/-! ## 4. no panic, no trap (C04 for the Eisel–Lemire stage) -/

theorem lemF_F32 : LemF Gen.F32 := LemF_F32
theorem lemF_F64 : LemF Gen.F64 := LemF_F64

/-- `compute_float` does not panic (table index in range after the early returns) for any 64-bit `w`
    and ANY exponent `q` -/
theorem computeFloat_no_panic {F : FloatC} (hF : LemF F) (q : Int) {w : Nat} (hw : w < 2^64) :
    computeFloat genLemire F q w ≠ none :=
  computeFloat_ne_none hF q hw

theorem computeFloat_no_panic_f32 (q : Int) {w : Nat} (hw : w < 2^64) :
    computeFloat genLemire Gen.F32 q w ≠ none := computeFloat_no_panic LemF_F32 q hw
theorem computeFloat_no_panic_f64 (q : Int) {w : Nat} (hw : w < 2^64) :
    computeFloat genLemire Gen.F64 q w ≠ none := computeFloat_no_panic LemF_F64 q hw

/-- `lemire` neither panics (release) nor traps (checked build) when `0 < mantissa` and
    `mantissa + 1 < 2^64`, for ANY exponent -/
theorem lemire_no_panic {F : FloatC} (hF : LemF F) (num : Number) (hm0 : 0 < num.mantissa)
    (hm : num.mantissa + 1 < 2^64) :
    lemire genLemire F num ≠ none ∧ lemireTraps genLemire F num = false := by
  obtain ⟨fp, he, _⟩ := lemire_gen hF num hm0 hm
  exact ⟨by rw [he]; exact Option.some_ne_none _, lemireTraps_gen F num hm0 hm⟩

theorem lemire_no_panic_f32 (num : Number) (hm0 : 0 < num.mantissa) (hm : num.mantissa + 1 < 2^64) :
    lemire genLemire Gen.F32 num ≠ none ∧ lemireTraps genLemire Gen.F32 num = false :=
  lemire_no_panic LemF_F32 num hm0 hm
theorem lemire_no_panic_f64 (num : Number) (hm0 : 0 < num.mantissa) (hm : num.mantissa + 1 < 2^64) :
    lemire genLemire Gen.F64 num ≠ none ∧ lemireTraps genLemire Gen.F64 num = false :=
  lemire_no_panic LemF_F64 num hm0 hm

/-- the two excluded corner points do trap in a checked build (known findings), so the hypotheses
    of `lemire_no_panic` are needed -/
example : lemireTraps genLemire Gen.F64 ⟨0, u64Max, true⟩ = true ∧
    lemireTraps genLemire Gen.F64 ⟨0, 0, true⟩ = true := by decide +kernel

example : lemire genLemire Gen.F64 ⟨-5, 123456789, true⟩ ≠ none ∧
    lemireTraps genLemire Gen.F64 ⟨-5, 123456789, true⟩ = false :=
  lemire_no_panic_f64 _ (by decide) (by decide)

/-- shift amounts: `w <<= lz` has `lz < 64`; `hi >> (upperbit + 64 − ms − 3)` does not underflow
    and is `< 64`; in the subnormal branch `1 ≤ −power2 + 1 < 64` -/
theorem shift_amounts {F : FloatC} (hF : F.WF) {w hi : Nat} (hw0 : 0 < w) (hw : w < 2^64) (hhi : hi < 2^64) :
    clz64 w < 64 ∧ hi / 9223372036854775808 ≤ 1 ∧
    F.mantissaSize + 3 ≤ hi / 9223372036854775808 + 64 ∧
    hi / 9223372036854775808 + 64 - F.mantissaSize - 3 < 64 ∧
    (∀ power2 : Int, power2 ≤ 0 → ¬ (-power2 + 1 ≥ 64) →
      1 ≤ (-power2 + 1).toNat ∧ (-power2 + 1).toNat < 64) := by
  have := clz64_le hw0 hw
  have := shift_amount hF hhi
  refine ⟨by omega, upperbit_le hhi, this.1, this.2, ?_⟩
  intro p hp hn; omega

/-- no `i32` overflow in any exponent computation of `compute_float` / `compute_error_scaled`
    (`upperbit, hilz ∈ {0,1}`, `lz ≤ 64`), for `q` on the table range -/
theorem exponent_arith_in_i32 {F : FloatC} (hF : LemF F) {q : Int} (h1 : -342 ≤ q) (h2 : q ≤ 308)
    {upperbit lz hilz : Nat} (hu : upperbit ≤ 1) (hlz : lz ≤ 64) (hh : hilz ≤ 1) :
    inI32 (q * 217706) = true ∧ inI32 (power q) = true ∧ inI32 (power q + upperbit) = true ∧
    inI32 (power q + upperbit - lz) = true ∧ inI32 (power q + upperbit - lz - F.minimumExponent) = true ∧
    inI32 (-(power q + upperbit - lz - F.minimumExponent) + 1) = true ∧
    inI32 (power q + upperbit - lz - F.minimumExponent + 1) = true ∧
    inI32 (power q + F.exponentBias) = true ∧ inI32 (power q + F.exponentBias - hilz) = true ∧
    inI32 (power q + F.exponentBias - hilz - lz) = true ∧
    inI32 (power q + F.exponentBias - hilz - lz - 62) = true ∧
    inI32 (power q + F.exponentBias - hilz - lz - 62 + F.invalidFp) = true :=
  power2_i32 hF h1 h2 hu hlz hh

example : (clz64 12345 < 64 ∧ (2^63 + 5) / 9223372036854775808 ≤ 1) :=
  let h := shift_amounts F64_WF (w := 12345) (hi := 2^63 + 5) (by decide) (by decide) (by decide)
  ⟨h.1, h.2.1⟩

example : inI32 (power 308 + 1 - 0 - Gen.F64.minimumExponent) = true :=
  (exponent_arith_in_i32 LemF_F64 (q := 308) (by decide) (by decide) (upperbit := 1) (lz := 0) (hilz := 0)
    (by decide) (by decide) (by decide)).2.2.2.2.1

/-! ## 5. shape of the answers -/

/-- `compute_float` on a 64-bit `w`, any `q`: the answer is *definite*
    (`0 ≤ exp ≤ INFINITE_POWER`, `exp = INFINITE_POWER → mant = 0`, `mant < 2^ms` or the subnormal
    carry `mant = 2^ms ∧ exp = 1`) or *declined* (`exp < 0`, `2^63 ≤ mant < 2^64`,
    `exp − INVALID_FP = power q + bias − hilz − lz − 62`); declining needs `w ≠ 0` and `q` in range -/
theorem computeFloat_shape {F : FloatC} (hF : LemF F) (q : Int) {w : Nat} (hw : w < 2^64) :
    ∃ fp, computeFloat genLemire F q w = some fp ∧
      (Definite F fp ∨
        (0 < w ∧ F.smallestPowerOfTen ≤ q ∧ q ≤ F.largestPowerOfTen ∧ Declined F q (clz64 w) fp)) :=
  computeFloat_gen hF q hw

/-- the subnormal carry `mant = 2^ms ∧ exp = 1` does occur (so `mant < 2^ms` alone would be false):
    `2.2250738585072013e-308` rounds up to the smallest normal; `mant | exp << ms` is still `2^52` -/
example : computeFloat genLemire Gen.F64 (-324) 22250738585072013 = some ⟨2^52, 1⟩ ∧
    extendedToFloat Gen.F64 ⟨2^52, 1⟩ = 2^52 := by decide +kernel

/-- the two shapes are told apart by the sign of `exp`, as `lemire` / `moderate_path` do -/
theorem computeFloat_definite_iff {F : FloatC} (hF : LemF F) (q : Int) {w : Nat} (hw : w < 2^64)
    {fp : ExtFloat} (he : computeFloat genLemire F q w = some fp) :
    (0 ≤ fp.exp ↔ Definite F fp) ∧ (fp.exp < 0 ↔ Declined F q (clz64 w) fp) := by
  obtain ⟨fp', he', hs⟩ := computeFloat_gen hF q hw
  rw [he] at he'; cases he'
  rcases hs with hd | ⟨_, _, _, hd⟩
  · refine ⟨⟨fun _ => hd, fun _ => hd.1⟩, ⟨fun hlt => ?_, fun hd' => hd'.1⟩⟩
    have := hd.1; omega
  · refine ⟨⟨fun hge => ?_, fun hd' => hd'.1⟩, ⟨fun _ => hd, fun _ => hd.1⟩⟩
    have := hd.1; omega

/-- in range and `w ≠ 0`, the answer is `roundCore` (the code after the product) applied to the
    product of the normalised `w` with the row; a declined answer is `computeErrorScaled` of `hi` -/
theorem computeFloat_in_range {F : FloatC} (hF : LemF F) {q : Int} {w : Nat} (hw0 : 0 < w) (hw : w < 2^64)
    (h1 : F.smallestPowerOfTen ≤ q) (h2 : q ≤ F.largestPowerOfTen) :
    ∃ hi5 lo5 lo hi : Nat,
      Gen.powerOfFive128[(q + 342).toNat]? = some (hi5, lo5) ∧
      (lo, hi) = productCore (w * 2^(clz64 w)) hi5 lo5 (F.mantissaSize + 3) ∧
      2^63 ≤ w * 2^(clz64 w) ∧ w * 2^(clz64 w) < 2^64 ∧
      lo < 2^64 ∧ 2^62 ≤ hi ∧ hi < 2^64 ∧
      computeFloat genLemire F q w = some (roundCore F q (clz64 w) lo hi) ∧
      ((lo = u64Max ∧ ¬ (q ≥ -27 ∧ q ≤ 55) ∧
          roundCore F q (clz64 w) lo hi = computeErrorScaled F q hi (clz64 w) ∧
          (computeErrorScaled F q hi (clz64 w)).mant = (if 2^63 ≤ hi then hi else 2 * hi)) ∨
        Definite F (roundCore F q (clz64 w) lo hi)) := by
  obtain ⟨hi5, lo5, hrow, hok, heq⟩ := computeFloat_gen_eq hF hw0 hw h1 h2
  have hb := product_bounds (p := F.mantissaSize + 3) hw0 hw hok
  have hn := norm_bounds hw0 hw
  refine ⟨hi5, lo5, _, _, ?_, rfl, hn.1, hn.2, hb.1, hb.2.1, hb.2.2, heq, ?_⟩
  · rw [genLemire_smallest] at hrow
    have e : q - -342 = q + 342 := by omega
    rw [e] at hrow; exact hrow
  · rcases roundCore_cases hF.wf q (clz64 w) (productCore (w * 2^(clz64 w)) hi5 lo5 (F.mantissaSize + 3)).1
      hb.2.2 with ⟨a, b, c⟩ | hd
    · exact Or.inl ⟨a, b, c, computeErrorScaled_mant hb.2.1 hb.2.2⟩
    · exact Or.inr hd

/-- `lemire`: the answer is definite or declined (after the `mantissa + 1` comparison) -/
theorem lemire_shape {F : FloatC} (hF : LemF F) (num : Number) (hm0 : 0 < num.mantissa)
    (hm : num.mantissa + 1 < 2^64) :
    ∃ fp, lemire genLemire F num = some fp ∧
      (Definite F fp ∨ Declined F num.exponent (clz64 num.mantissa) fp) :=
  lemire_gen hF num hm0 hm

/-- a definite answer becomes a finite-or-infinite, non-negative, non-NaN bit pattern:
    `extended_to_float = exp·2^ms + mant` (the smallest normal for the subnormal carry), `≤` the
    pattern of `+∞`, and `f32::from_bits` does not trap -/
theorem definite_bits {F : FloatC} (hF : F.WF) {fp : ExtFloat} (hd : Definite F fp) :
    extendedToFloat F fp =
      (if fp.mant < 2^F.mantissaSize then fp.exp.toNat * 2^F.mantissaSize + fp.mant else 2^F.mantissaSize) ∧
    extendedToFloat F fp ≤ F.fmt.infBits ∧ extendedToFloatTraps F fp = false :=
  extendedToFloat_definite hF hd

/-- non-vacuity: a definite and a declined instance (f64: `9007199254740993` is a halfway case) -/
example : Definite Gen.F64 ⟨0, 1023⟩ ∧
    (∃ fp, computeFloat genLemire Gen.F64 0 9007199254740993 = some fp ∧ 0 ≤ fp.exp) ∧
    (∃ fp, computeFloat genLemire Gen.F64 (-329) 9495784171365944765 = some fp ∧ fp.exp < 0) := by
  refine ⟨by unfold Definite; decide, ⟨_, rfl, by decide +kernel⟩, ⟨_, rfl, by decide +kernel⟩⟩

/-! ## 6. truncated digits: the monotonicity argument -/

/-- if both end points of an interval round to the same pattern, so does everything between -/
theorem rne_sandwich (f : Fmt) {a v b : Q} {r : Nat} (ha : 0 < a.den) (hv : 0 < v.den) (hb : 0 < b.den)
    (h1 : rne f a = r) (h2 : rne f b = r) (hav : Q.le a v) (hvb : Q.le v b) : rne f v = r := by
  have l1 := RneSpec.rne_mono f ha hv hav
  have l2 := RneSpec.rne_mono f hv hb hvb
  omega

example : rne Fmt.f32 ⟨33554433, 2⟩ = 1266679808 :=
  rne_sandwich Fmt.f32 (a := ⟨16777216, 1⟩) (b := ⟨167772169, 10⟩) (by decide) (by decide) (by decide)
    (by decide +kernel) (by decide +kernel) (by decide) (by decide)

/-- what `lemire` returns: a declined value, or the answer of `compute_float` at `mantissa`, which —
    when digits were truncated and the answer is definite — is also the answer at `mantissa + 1` -/
theorem lemire_cases {F : FloatC} (hF : LemF F) (num : Number) (hm0 : 0 < num.mantissa)
    (hm : num.mantissa + 1 < 2^64) {fp : ExtFloat} (hl : lemire genLemire F num = some fp) :
    Declined F num.exponent (clz64 num.mantissa) fp ∨
    (computeFloat genLemire F num.exponent num.mantissa = some fp ∧
      (num.manyDigits = true → 0 ≤ fp.exp →
        computeFloat genLemire F num.exponent (num.mantissa + 1) = some fp)) := by
  obtain ⟨fp0, he, _⟩ := computeFloat_gen hF num.exponent (w := num.mantissa) (by omega)
  have hmod : (num.mantissa + 1) % u64Mod = num.mantissa + 1 := by
    unfold u64Mod; exact Nat.mod_eq_of_lt hm
  obtain ⟨fp1, he', _⟩ := computeFloat_gen hF num.exponent (w := num.mantissa + 1) hm
  unfold lemire at hl
  rw [he] at hl; simp only [] at hl
  split at hl
  · rw [hmod, he'] at hl; simp only [] at hl
    split at hl
    · rename_i hne
      left
      have hin : F.smallestPowerOfTen ≤ num.exponent ∧ num.exponent ≤ F.largestPowerOfTen := by
        by_contra hcon
        have := computeFloat_out_of_range F (q := num.exponent) (w := num.mantissa)
          (w' := num.mantissa + 1) (by omega) (by omega) (by omega)
        rw [he, he'] at this
        have e : fp0 = fp1 := Option.some.inj this
        rw [e, extFloat_bne_self] at hne
        exact Bool.false_ne_true hne
      have hs := hF.sm; have hl' := hF.lg
      obtain ⟨r, hr, hd⟩ := computeError_gen hF hm0 (by omega : num.mantissa < 2^64)
        (by omega : -342 ≤ num.exponent) (by omega)
      rw [hr] at hl; cases hl; exact hd
    · rename_i hne
      have hfp : fp0 = fp := Option.some.inj hl
      subst hfp
      right
      refine ⟨he, fun _ _ => ?_⟩
      have : (fp0 == fp1) = true := by simpa [bne] using hne
      rw [(extFloat_beq_iff _ _).mp this]; exact he'
  · rename_i hc
    have hfp : fp0 = fp := Option.some.inj hl
    subst hfp
    right
    refine ⟨he, fun h1 h2 => ?_⟩
    exact absurd ⟨h1, h2⟩ hc

/-- **the truncated case of `lemire`**: suppose `compute_float` is a correct rounding whenever it is
    definite (hypothesis `hsound`, the part of Eisel–Lemire NOT proved here), at the two significands
    `m` and `m + 1`.  If digits were truncated (`many_digits`) the true value `v` lies in
    `[m·10^q, (m+1)·10^q]`; then a definite answer of `lemire` is the correct rounding of `v`. -/
theorem lemire_truncated_sound {F : FloatC} (hF : LemF F) (num : Number) (hm0 : 0 < num.mantissa)
    (hm : num.mantissa + 1 < 2^64) (hmany : num.manyDigits = true)
    (hsound : ∀ w fp', (w = num.mantissa ∨ w = num.mantissa + 1) →
      computeFloat genLemire F num.exponent w = some fp' → 0 ≤ fp'.exp →
      extendedToFloat F fp' = rne F.fmt (ofDec w num.exponent))
    {fp : ExtFloat} (hl : lemire genLemire F num = some fp) (hdef : 0 ≤ fp.exp)
    {v : Q} (hv : 0 < v.den)
    (hlo : Q.le (ofDec num.mantissa num.exponent) v)
    (hhi : Q.le v (ofDec (num.mantissa + 1) num.exponent)) :
    rne F.fmt v = extendedToFloat F fp := by
  rcases lemire_cases hF num hm0 hm hl with hd | ⟨e1, e2⟩
  · have := hd.1; omega
  · have c1 := hsound _ _ (Or.inl rfl) e1 hdef
    have c2 := hsound _ _ (Or.inr rfl) (e2 hmany hdef) hdef
    exact rne_sandwich F.fmt (ofDec_den_pos _ _) hv (ofDec_den_pos _ _) c1.symm c2.symm hlo hhi

/-- non-vacuity of `lemire_truncated_sound`: f32, `123456789.5` read as `m = 123456789`, truncated -/
example : rne Gen.F32.fmt ⟨1234567895, 10⟩ = extendedToFloat Gen.F32 ⟨7043491, 153⟩ := by
  refine lemire_truncated_sound LemF_F32 ⟨0, 123456789, true⟩ (by decide) (by decide) rfl ?_
    (fp := ⟨7043491, 153⟩) (by decide +kernel) (by decide) (by decide) (by decide) (by decide)
  intro w fp' hw he _
  rcases hw with rfl | rfl
  · have : computeFloat genLemire Gen.F32 0 123456789 = some ⟨7043491, 153⟩ := by decide +kernel
    rw [show (⟨0, 123456789, true⟩ : Number).exponent = 0 from rfl,
      show (⟨0, 123456789, true⟩ : Number).mantissa = 123456789 from rfl, this] at he
    cases he
    decide +kernel
  · have : computeFloat genLemire Gen.F32 0 123456790 = some ⟨7043491, 153⟩ := by decide +kernel
    rw [show (⟨0, 123456789, true⟩ : Number).exponent = 0 from rfl,
      show (⟨0, 123456789, true⟩ : Number).mantissa + 1 = 123456790 from rfl, this] at he
    cases he
    decide +kernel

/-- without truncated digits `lemire` is `compute_float` -/
theorem lemire_exact (T : LemireTables) (F : FloatC) (num : Number) (h : num.manyDigits = false) :
    lemire T F num = computeFloat T F num.exponent num.mantissa := by
  unfold lemire
  split
  · rename_i e; rw [e]
  · rename_i fp e; rw [e, if_neg (by simp [h])]

end MinLex.LemireArith
