/-
  C05 — all feature configurations return identical results on valid input.

  * `C05_noncompact`: FULL theorem for any two non-compact configurations, f32 and f64.
  * `C05_partial`   : any two configurations, under the open Bellerophon contracts `OpenCompact F`.
-/
import MinLex.Proofs.Compose
namespace MinLex.C05
open MinLex MinLex.Main MinLex.Compose

def C05_statement (F : FloatC) : Prop :=
  ∀ (cfg cfg' : Cfg) (int frac : List UInt8) (e : Int), Valid int frac e →
    parseFloat (genEnv cfg) F int frac e = parseFloat (genEnv cfg') F int frac e

/-- **C05 for the non-compact configurations (std / no_std, heap / stack): proved outright.** -/
theorem C05_noncompact {F : FloatC} (hF : F = Gen.F32 ∨ F = Gen.F64) (cfg cfg' : Cfg)
    (hc : cfg.compact = false) (hc' : cfg'.compact = false)
    (int frac : List UInt8) (e : Int) (hv : Valid int frac e) :
    parseFloat (genEnv cfg) F int frac e = parseFloat (genEnv cfg') F int frac e :=
  C05_of_parseCorrect (parseCorrect_noncompact cfg hc hF) (parseCorrect_noncompact cfg' hc' hF)
    int frac e hv

/-- C05 over all configurations, under the open Bellerophon contracts. -/
theorem C05_partial {F : FloatC} (hF : F = Gen.F32 ∨ F = Gen.F64) (h : OpenCompact F) :
    C05_statement F :=
  fun cfg cfg' int frac e hv =>
    C05_of_parseCorrect (parseCorrect_of_open cfg hF h) (parseCorrect_of_open cfg' hF h) int frac e hv

theorem C05_partial_f64 (h : OpenCompact Gen.F64) : C05_statement Gen.F64 := C05_partial (Or.inr rfl) h
theorem C05_partial_f32 (h : OpenCompact Gen.F32) : C05_statement Gen.F32 := C05_partial (Or.inl rfl) h

/-- in particular the stack-vector build (62 limbs) agrees with the heap build on EVERY valid
    input, however long -/
theorem C05_stack_heap {F : FloatC} (hF : F = Gen.F32 ∨ F = Gen.F64) (std std' : Bool)
    (int frac : List UInt8) (e : Int) (hv : Valid int frac e) :
    parseFloat (genEnv ⟨false, false, std⟩) F int frac e =
      parseFloat (genEnv ⟨false, true, std'⟩) F int frac e :=
  C05_noncompact hF _ _ rfl rfl int frac e hv

example : Valid [49, 50] [51] 7 := by decide

end MinLex.C05
