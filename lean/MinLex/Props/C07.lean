/-
  C07 — extremes: overflow to `+∞`, underflow to `+0`, zero significands, saturated exponents.

  * `C07_overflow_noncompact / C07_underflow_noncompact`: FULL theorems (non-compact configurations):
    values `≥ 2^(emax+1) − 2^(emax−mbits−1)` (f64: `2^1024 − 2^970`, f32: `2^128 − 2^103`) parse to the
    pattern of `+∞`; values `≤ 2^(kmin−1)` (f64: `2^-1075`, f32: `2^-150`) parse to `+0`; both are
    "iff".  `_partial` forms over all configurations under `OpenCompact F`.
  * `C07_zero_unconditional`: a zero significand with ANY exponent parses to `+0` — proved from the
    model for EVERY configuration (compact ones included), no contract assumed.
  * `C07_saturation`: the i32 exponent saturates only when the value is below `10^-400` / at least
    `10^400` (re-exported from Props/ParseNumber), and then the result is `+0` / `+∞`
    (`C07_saturated_low_noncompact`, `C07_saturated_high_noncompact`).
-/
import MinLex.Proofs.Compose
import MinLex.Props.C01
import MinLex.Props.C02
namespace MinLex.C07
open MinLex MinLex.Main MinLex.Compose

-- ------------------------------------------------------------------ overflow / underflow
/-- overflow threshold of a format: `(2^(mbits+2) − 1)·2^(emax−mbits−1) = 2^(emax+1) − 2^(emax−mbits−1)` -/
def infThreshold (f : Fmt) : Q := ofDyadic (2^(f.mbits+2) - 1) ((2:Int)^(f.ebits-1) - 1 - f.mbits - 1)
/-- underflow threshold: `2^(kmin−1)`, half the smallest subnormal -/
def zeroThreshold (f : Fmt) : Q := ofDyadic 1 (f.kmin - 1)

theorem infThreshold_f64 : infThreshold Gen.F64.fmt = ⟨2^1024 - 2^970, 1⟩ := C01.f64_infThreshold
theorem infThreshold_f32 : infThreshold Gen.F32.fmt = ⟨2^128 - 2^103, 1⟩ := C02.f32_infThreshold
theorem zeroThreshold_f64 : zeroThreshold Gen.F64.fmt = ⟨1, 2^1075⟩ := C01.f64_zeroThreshold
theorem zeroThreshold_f32 : zeroThreshold Gen.F32.fmt = ⟨1, 2^150⟩ := C02.f32_zeroThreshold

theorem infThreshold_den_pos (f : Fmt) : 0 < (infThreshold f).den := ofDyadic_den_pos _ _
theorem zeroThreshold_den_pos (f : Fmt) : 0 < (zeroThreshold f).den := ofDyadic_den_pos _ _

theorem fmt_ebits {F : FloatC} (hF : F = Gen.F32 ∨ F = Gen.F64) : 2 ≤ F.fmt.ebits := by
  rcases hF with rfl | rfl <;> decide

/-- under `ParseCorrect`: `+∞` exactly from the overflow threshold on, `+0` exactly up to the
    underflow threshold -/
theorem C07_of_parseCorrect {E : Env} {F : FloatC} (hE : 2 ≤ F.fmt.ebits) (h : ParseCorrect E F)
    (int frac : List UInt8) (e : Int) (hv : Valid int frac e) :
    (parseFloat E F int frac e = .ok F.fmt.infBits ↔
      Q.le (infThreshold F.fmt) (digitsValue int frac e)) ∧
    (parseFloat E F int frac e = .ok 0 ↔ Q.le (digitsValue int frac e) (zeroThreshold F.fmt)) := by
  have hd := MinLex.digitsValue_den_pos int frac e
  rw [h int frac e hv]
  unfold infThreshold zeroThreshold
  constructor
  · rw [← RneSpec.rne_inf_iff F.fmt hE hd]
    exact ⟨fun h => Outcome.ok.inj h, fun h => by rw [h]⟩
  · rw [← RneSpec.rne_zero_iff F.fmt (by omega) hd]
    exact ⟨fun h => Outcome.ok.inj h, fun h => by rw [h]⟩

/-- **overflow, non-compact configurations** -/
theorem C07_overflow_noncompact (cfg : Cfg) (hc : cfg.compact = false) {F : FloatC}
    (hF : F = Gen.F32 ∨ F = Gen.F64) (int frac : List UInt8) (e : Int) (hv : Valid int frac e) :
    parseFloat (genEnv cfg) F int frac e = .ok F.fmt.infBits ↔
      Q.le (infThreshold F.fmt) (digitsValue int frac e) :=
  (C07_of_parseCorrect (fmt_ebits hF) (parseCorrect_noncompact cfg hc hF) int frac e hv).1

/-- **underflow, non-compact configurations** -/
theorem C07_underflow_noncompact (cfg : Cfg) (hc : cfg.compact = false) {F : FloatC}
    (hF : F = Gen.F32 ∨ F = Gen.F64) (int frac : List UInt8) (e : Int) (hv : Valid int frac e) :
    parseFloat (genEnv cfg) F int frac e = .ok 0 ↔ Q.le (digitsValue int frac e) (zeroThreshold F.fmt) :=
  (C07_of_parseCorrect (fmt_ebits hF) (parseCorrect_noncompact cfg hc hF) int frac e hv).2

/-- both, over all configurations, under the open Bellerophon contracts -/
theorem C07_partial (cfg : Cfg) {F : FloatC} (hF : F = Gen.F32 ∨ F = Gen.F64) (h : OpenCompact F)
    (int frac : List UInt8) (e : Int) (hv : Valid int frac e) :
    (parseFloat (genEnv cfg) F int frac e = .ok F.fmt.infBits ↔
      Q.le (infThreshold F.fmt) (digitsValue int frac e)) ∧
    (parseFloat (genEnv cfg) F int frac e = .ok 0 ↔ Q.le (digitsValue int frac e) (zeroThreshold F.fmt)) :=
  C07_of_parseCorrect (fmt_ebits hF) (parseCorrect_of_open cfg hF h) int frac e hv

/-- the literal f64 form: `1.7976931348623159e308` is above the threshold
    `2^1024 − 2^970 = 1.797693134862315807937…e308` and overflows, `…158e308` does not -/
example : Valid [49] [55, 57, 55, 54, 57, 51, 49, 51, 52, 56, 54, 50, 51, 49, 53, 57] 308 ∧
    Q.le (infThreshold Gen.F64.fmt)
      (digitsValue [49] [55, 57, 55, 54, 57, 51, 49, 51, 52, 56, 54, 50, 51, 49, 53, 57] 308) ∧
    ¬ Q.le (infThreshold Gen.F64.fmt)
      (digitsValue [49] [55, 57, 55, 54, 57, 51, 49, 51, 52, 56, 54, 50, 51, 49, 53, 56] 308) := by
  rw [infThreshold_f64]; decide +kernel

-- ------------------------------------------------------------------ zero significand
/-- all digits `'0'`: the value is 0 for every exponent -/
theorem digitsValue_zero {int frac : List UInt8} (h : ∀ c ∈ int ++ frac, c = 48) (e : Int) :
    (digitsValue int frac e).num = 0 := by
  unfold digitsValue ofDec
  rw [ofDigits_all_zero h]
  split <;> simp

/-- the specification gives `+0` -/
theorem C07_zero_spec (f : Fmt) {int frac : List UInt8} (h : ∀ c ∈ int ++ frac, c = 48) (e : Int) :
    rne f (digitsValue int frac e) = 0 :=
  rne_of_num_zero f (digitsValue_zero h e)

theorem bellerophon_zero (T : BelTables) (F : FloatC) (n : Number) (hm : n.mantissa = 0) :
    bellerophon T F n = some ⟨0, 0⟩ := by
  unfold bellerophon
  exact if_pos (Or.inl hm)

theorem ofDigits_cons_pos {c : UInt8} {rest : List UInt8} (hd : isDigit c = true) (h0 : c ≠ 48) :
    1 ≤ ofDigits (c :: rest) := by
  have : c :: rest = [c] ++ rest := rfl
  rw [this, MinLex.ofDigits_append, ofDigits_singleton]
  have h1 := digitVal_pos hd h0
  have h2 : 1 ≤ 10 ^ rest.length := Nat.pow_pos (by decide)
  have := Nat.mul_le_mul h1 h2
  omega

/-- all digits zero: `parse_number` produces mantissa 0, no truncation -/
theorem parseNumber_zero {int frac : List UInt8} {e : Int} (hv : Valid int frac e)
    (h : ∀ c ∈ int ++ frac, c = 48) :
    (parseNumber int frac e).mantissa = 0 ∧ (parseNumber int frac e).manyDigits = false := by
  obtain ⟨_, _, hhead, hval, hdig⟩ := sigDigits_facts hv
  have hnil : ParseNum.sigDigits int frac = [] := by
    cases hs : ParseNum.sigDigits int frac with
    | nil => rfl
    | cons c rest =>
      exfalso
      have h1 := ofDigits_cons_pos (rest := rest) (hdig c (by rw [hs]; exact List.mem_cons_self))
        (hhead c rest hs)
      rw [← hs, hval, ofDigits_all_zero h] at h1
      omega
  have hf := parseNumber_spec_few hv (by rw [hnil]; decide)
  rw [hnil] at hf
  exact ⟨hf.2.1, hf.1⟩

theorem zero_bits {F : FloatC} (hF : F = Gen.F32 ∨ F = Gen.F64) : extendedToFloat F ⟨0, 0⟩ = 0 := by
  rcases hF with rfl | rfl <;> decide

/-- **A zero significand gives `+0` for every exponent, in EVERY configuration** (proved from the
    model: no stage contract is assumed, the compact configurations are included). -/
theorem C07_zero_unconditional (cfg : Cfg) {F : FloatC} (hF : F = Gen.F32 ∨ F = Gen.F64)
    {int frac : List UInt8} {e : Int} (hv : Valid int frac e) (h : ∀ c ∈ int ++ frac, c = 48) :
    parseFloat (genEnv cfg) F int frac e = .ok 0 := by
  obtain ⟨hm, hmd⟩ := parseNumber_zero hv h
  have hden := (pn_valid int frac e hv).1
  unfold parseFloat
  simp only []
  cases hfp : tryFastPath F ((genEnv cfg).powFastPath F)
      (intPow10 (genEnv cfg).cfg.compact (genEnv cfg).pow.smallIntPow10) (parseNumber int frac e) with
  | some b =>
    rw [fast_genEnv cfg hF _ _ b hden hfp, C07_zero_spec F.fmt h e]
  | none =>
    have hmp : moderatePath (genEnv cfg) F (parseNumber int frac e) = some ⟨0, 0⟩ := by
      cases hc : cfg.compact with
      | false => rw [moderatePath_noncompact cfg hc]; exact lemire_zero _ _ _ hm hmd
      | true => rw [moderatePath_compact cfg hc]; exact bellerophon_zero _ _ _ hm
    rw [hmp]
    simp only [Int.lt_irrefl, if_false]
    rw [zero_bits hF]

example : Valid [] [48, 48, 48] 2147483647 ∧ (∀ c ∈ ([] : List UInt8) ++ [48, 48, 48], c = 48) := by
  decide

-- ------------------------------------------------------------------ saturated exponents
/-- the i32 exponent of the `Number` saturates only far outside every float range: at the bottom
    the value is `< 10^-400`, at the top it is `≥ 10^400` (and the saturated `Number` is on the same
    side); otherwise the stored exponent is the true one. -/
theorem C07_saturation {int frac : List UInt8} {e : Int} (h : Valid int frac e) :
    let n := parseNumber int frac e
    (ParseNum.trueExp int frac e < i32Min →
      n.exponent = i32Min ∧ n.exponent ≤ -400 - 19 ∧ n.mantissa < 10 ^ 19 ∧
      Q.lt (digitsValue int frac e) (ofDec 1 (-400)) ∧
      Q.lt (ofDec n.mantissa n.exponent) (ofDec 1 (-400))) ∧
    (i32Max < ParseNum.trueExp int frac e →
      n.exponent = i32Max ∧ n.exponent ≥ 400 ∧ 10 ^ 18 ≤ n.mantissa ∧
      Q.le (ofDec 1 400) (digitsValue int frac e) ∧
      Q.le (ofDec 1 400) (ofDec n.mantissa n.exponent)) ∧
    (i32Min ≤ ParseNum.trueExp int frac e → ParseNum.trueExp int frac e ≤ i32Max →
      n.exponent = ParseNum.trueExp int frac e) :=
  parseNumber_saturation h

theorem pow400_thresholds {F : FloatC} (hF : F = Gen.F32 ∨ F = Gen.F64) :
    Q.le (ofDec 1 (-400)) (zeroThreshold F.fmt) ∧ Q.le (infThreshold F.fmt) (ofDec 1 400) := by
  rcases hF with rfl | rfl
  · rw [zeroThreshold_f32, infThreshold_f32]; decide +kernel
  · rw [zeroThreshold_f64, infThreshold_f64]; decide +kernel

/-- bottom saturation ⇒ `+0` (non-compact configurations) -/
theorem C07_saturated_low_noncompact (cfg : Cfg) (hc : cfg.compact = false) {F : FloatC}
    (hF : F = Gen.F32 ∨ F = Gen.F64) {int frac : List UInt8} {e : Int} (hv : Valid int frac e)
    (hx : ParseNum.trueExp int frac e < i32Min) :
    parseFloat (genEnv cfg) F int frac e = .ok 0 := by
  rw [C07_underflow_noncompact cfg hc hF int frac e hv]
  have h1 := ((parseNumber_saturation hv).1 hx).2.2.2.1
  have hd := MinLex.digitsValue_den_pos int frac e
  have h2 := (pow400_thresholds hF).1
  rw [Q.le_iff hd (zeroThreshold_den_pos _)]
  rw [Q.lt_iff hd (ofDec_den_pos _ _)] at h1
  rw [Q.le_iff (ofDec_den_pos _ _) (zeroThreshold_den_pos _)] at h2
  exact le_trans h1.le h2

/-- top saturation ⇒ `+∞` (non-compact configurations) -/
theorem C07_saturated_high_noncompact (cfg : Cfg) (hc : cfg.compact = false) {F : FloatC}
    (hF : F = Gen.F32 ∨ F = Gen.F64) {int frac : List UInt8} {e : Int} (hv : Valid int frac e)
    (hx : i32Max < ParseNum.trueExp int frac e) :
    parseFloat (genEnv cfg) F int frac e = .ok F.fmt.infBits := by
  rw [C07_overflow_noncompact cfg hc hF int frac e hv]
  have h1 := ((parseNumber_saturation hv).2.1 hx).2.2.2.1
  have hd := MinLex.digitsValue_den_pos int frac e
  have h2 := (pow400_thresholds hF).2
  rw [Q.le_iff (infThreshold_den_pos _) hd]
  rw [Q.le_iff (ofDec_den_pos _ _) hd] at h1
  rw [Q.le_iff (infThreshold_den_pos _) (ofDec_den_pos _ _)] at h2
  exact le_trans h2 h1

-- saturation really happens
example : Valid [] [49] i32Min ∧ ParseNum.trueExp [] [49] i32Min < i32Min := by decide
example : Valid (List.replicate 21 49) [] i32Max ∧
    i32Max < ParseNum.trueExp (List.replicate 21 49) [] i32Max := by decide

end MinLex.C07
