/-
  C11 — the Bellerophon stage of the compact builds (`src/bellerophon.rs`, after the `fix:` commit).

  B1  `B1_normalize`, `B1_mul`                     arithmetic of `normalize` / `mul`
  B2  `B2_total`, `B2_cases`, `B2_asserts`         no index panic, control flow, debug assertions
  B3  `B3_error_bound`                             the error budget covers the true error
  B4  `B4_no_boundary`, `modSound_bellerophon`     a definite answer is correctly rounded
  B5  `modEst_bellerophon`                         a declined answer satisfies the hand-off contract
      `modRange_bellerophon`, `modTotal_bellerophon`
  and `openCompact_f64`, `openCompact_f32 : Compose.OpenCompact Gen.F64 / Gen.F32`.

  Scale of the error budget.  `errors` is nominally counted in eighths of a unit in the last place
  of the 64-bit significand (`error_scale = 8`), but `error_is_accurate` compares it with the dropped
  bits WITHOUT dividing by 8.  The budget the code effectively enforces is therefore `errors` whole
  units, and that is the bound proved here (B3): it does NOT hold at the nominal 1/8 scale, because the
  table entries are truncated (error up to 1 ulp each, not ½).
-/
import MinLex.Proofs.Bellerophon
import MinLex.Proofs.Compose
namespace MinLex.BellerophonSound
open MinLex MinLex.Main MinLex.Bel

/-! ## B1 -/

/-- **B1 (normalize).**  `mant ≠ 0`: shift = `clz`, significand `mant · 2^shift` normalised,
    exponent reduced by the shift; the value `mant · 2^exp` is unchanged. -/
theorem B1_normalize {fp : ExtFloat} (h64 : fp.mant < 2 ^ 64) :
    (fp.mant ≠ 0 →
      (belNormalize fp).2 = clz64 fp.mant ∧
      (belNormalize fp).1.mant = fp.mant * 2 ^ clz64 fp.mant ∧
      (belNormalize fp).1.exp = fp.exp - clz64 fp.mant ∧
      2 ^ 63 ≤ (belNormalize fp).1.mant ∧ (belNormalize fp).1.mant < 2 ^ 64) ∧
    (fp.mant = 0 → belNormalize fp = (fp, 0)) ∧
    val (belNormalize fp).1 = val fp :=
  ⟨fun h0 => belNormalize_spec h0 h64, belNormalize_zero, belNormalize_val h64⟩

example : (belNormalize ⟨5, 0⟩) = (⟨5 * 2 ^ 61, -61⟩, 61) := by decide +kernel

/-- **B1 (mul).**  The 32-bit-halves computation is `⌊(x·y + 2^63) / 2^64⌋` (round-half-up of the
    128-bit product; no wrap-around), so it is within half a unit of the exact quotient. -/
theorem B1_mul {x y : ExtFloat} (hx : x.mant < 2 ^ 64) (hy : y.mant < 2 ^ 64) :
    (belMul x y).mant = (x.mant * y.mant + 2 ^ 63) / 2 ^ 64 ∧
    (belMul x y).exp = x.exp + y.exp + 64 ∧
    (belMul x y).mant < 2 ^ 64 ∧
    x.mant * y.mant < (belMul x y).mant * 2 ^ 64 + 2 ^ 63 ∧
    (belMul x y).mant * 2 ^ 64 ≤ x.mant * y.mant + 2 ^ 63 :=
  ⟨belMul_mant hx hy, rfl, belMul_lt hx hy, (belMul_err hx hy).1, (belMul_err hx hy).2⟩

example : (belMul ⟨2 ^ 64 - 1, 0⟩ ⟨2 ^ 64 - 1, 0⟩).mant = 2 ^ 64 - 2 := by decide +kernel

/-! ## B2 -/

/-- **B2 (totality).** `bellerophon` on the regenerated tables never takes its index-panic branch,
    for every input and every format record. -/
theorem B2_total (F : FloatC) (num : Number) : ∃ fp, bellerophon genBel F num = some fp :=
  bellerophon_total F num

/-- **B2 (control flow).** -/
theorem B2_cases (F : FloatC) (num : Number) :
    ((num.mantissa = 0 ∨ num.exponent ≤ -351) ∧ bellerophon genBel F num = some ⟨0, 0⟩) ∨
    (num.mantissa ≠ 0 ∧ 310 ≤ num.exponent ∧ bellerophon genBel F num = some ⟨0, F.infinitePower⟩) ∨
    (num.mantissa ≠ 0 ∧ ∃ (s l : Nat) (sFp lFp : ExtFloat), s < 10 ∧ l < 66 ∧
      num.exponent = (s : Int) + (l : Int) * 10 - 350 ∧
      genBel.getSmall s = some sFp ∧ genBel.getLarge l = some lFp ∧
      bellerophon genBel F num =
        some (finish F (stage F num (10 ^ s) sFp lFp).1 (stage F num (10 ^ s) sFp lFp).2)) :=
  bellerophon_cases F num

/-- **B2 (debug assertions of `mul`).**  On the main path every operand handed to `mul` has its top
    32 bits non-zero (`debug_assert!(x.mant >> 32 != 0)`): the normalised `w`, both table entries, and
    the (possibly un-normalised) result of the small-power step. -/
theorem B2_mul_asserts {num : Number} {s l : Nat} {sFp lFp : ExtFloat}
    (hw0 : num.mantissa ≠ 0) (hw64 : num.mantissa < 2 ^ 64) (hs : s < 10) (hl : l < 66)
    (hsf : genBel.getSmall s = some sFp) (hlf : genBel.getLarge l = some lFp) :
    (belNormalize ⟨num.mantissa, 0⟩).1.mant >>> 32 ≠ 0 ∧ sFp.mant >>> 32 ≠ 0 ∧
    (stage1 num (10 ^ s) sFp).1.mant >>> 32 ≠ 0 ∧ lFp.mant >>> 32 ≠ 0 := by
  obtain ⟨sFp', e1, s1, s2, s3, s4⟩ := small_entry hs
  obtain ⟨lFp', e2, l1, l2, _, _⟩ := large_entry hl
  rw [hsf] at e1; rw [hlf] at e2
  cases e1; cases e2
  obtain ⟨p62, _, _⟩ := stage1_spec (num := num) (s := s) (sFp := sFp) (x := num.mantissa)
    hw0 hw64 s1 s2 s3 s4 (le_refl _) (by linarith) (fun _ => rfl)
  obtain ⟨_, _, _, n1, _⟩ := belNormalize_spec (fp := ⟨num.mantissa, 0⟩) hw0 hw64
  have key : ∀ x : Nat, 2 ^ 62 ≤ x → x >>> 32 ≠ 0 := by
    intro x hx
    rw [Nat.shiftRight_eq_div_pow]
    have : 1 ≤ x / 2 ^ 32 := by rw [Nat.le_div_iff_mul_le (by decide)]; omega
    omega
  exact ⟨key _ (by omega), key _ (by omega), key _ p62, key _ (by omega)⟩

/-- **B2 (`debug_assert!(fp.exp >= -64)` in `error_is_accurate`).**  Below `−64` the tail returns zero
    without consulting `error_is_accurate`. -/
theorem B2_acc_guard (F : FloatC) (fp4 : ExtFloat) (e : Nat) (h : fp4.exp < -64) :
    finish F fp4 e = ⟨0, 0⟩ := by
  unfold finish; rw [if_pos (by omega)]

/-! ## B3 -/

/-- **B3 (error bound).**  `w = num.mantissa ≠ 0`, table entries `sFp ≈ 10^s`, `lFp ≈ 10^(10·l − 350)`,
    `x` any real in `[w, w+1]` (`x = w` when no digits were dropped).  Just before
    `error_is_accurate`, with `(fp4, errors3) = stage …`:
    `fp4.mant` is normalised, the final shift is at most 2, `errors3 ≥ 4`, and — unless the budget
    saturated, `errors3 ≥ TOO_MANY_ERRORS = 2^59`, in which case `error_is_accurate` rejects —
    there is `d = 2^shift` with `4·d ≤ errors3` and
    `(fp4.mant − d) · 2^(fp4.exp − bias) ≤ x · 10^s · 10^(10·l−350) ≤ (fp4.mant + errors3 − d) · 2^(fp4.exp − bias)`.
    `errors3` counts WHOLE units in the last place of `fp4.mant` (see the header).  Under
    `many_digits → w ≥ 10^18` the budget is at most 612. -/
theorem B3_error_bound (F : FloatC) {num : Number} {s l : Nat} {sFp lFp : ExtFloat} {x : ℚ}
    (hw0 : num.mantissa ≠ 0) (hw64 : num.mantissa < 2 ^ 64) (hs : s < 10) (hl : l < 66)
    (hsf : genBel.getSmall s = some sFp) (hlf : genBel.getLarge l = some lFp)
    (hx1 : (num.mantissa : ℚ) ≤ x) (hx2 : x ≤ num.mantissa + 1)
    (hx3 : num.manyDigits = false → x = num.mantissa) :
    2 ^ 63 ≤ (stage F num (10 ^ s) sFp lFp).1.mant ∧ (stage F num (10 ^ s) sFp lFp).1.mant < 2 ^ 64 ∧
    4 ≤ (stage F num (10 ^ s) sFp lFp).2 ∧
    ((num.manyDigits = true → 10 ^ 18 ≤ num.mantissa) → (stage F num (10 ^ s) sFp lFp).2 ≤ 612) ∧
    (tooManyErrors ≤ (stage F num (10 ^ s) sFp lFp).2 ∨
      ∃ d : Nat, 1 ≤ d ∧ 4 * d ≤ (stage F num (10 ^ s) sFp lFp).2 ∧
        (((stage F num (10 ^ s) sFp lFp).1.mant : ℚ) - d) *
            (2:ℚ) ^ ((stage F num (10 ^ s) sFp lFp).1.exp - F.exponentBias) ≤
          x * (10:ℚ) ^ s * (10:ℚ) ^ ((l : Int) * 10 - 350) ∧
        x * (10:ℚ) ^ s * (10:ℚ) ^ ((l : Int) * 10 - 350) ≤
          (((stage F num (10 ^ s) sFp lFp).1.mant : ℚ) + (stage F num (10 ^ s) sFp lFp).2 - d) *
            (2:ℚ) ^ ((stage F num (10 ^ s) sFp lFp).1.exp - F.exponentBias)) := by
  obtain ⟨sFp', e1, s1, s2, s3, s4⟩ := small_entry hs
  obtain ⟨lFp', e2, l1, l2, l3, l4⟩ := large_entry hl
  rw [hsf] at e1; rw [hlf] at e2
  cases e1; cases e2
  obtain ⟨a1, a2, _, _, a4, a5, a6⟩ := stage_spec F (num := num) (s := s) (sFp := sFp) (lFp := lFp)
    (x := x) (P := (10:ℚ) ^ ((l : Int) * 10 - 350)) hw0 hw64 s1 s2 s3 s4 l1 l2 l3 l4 hx1 hx2 hx3
  exact ⟨a1, a2, a4, a5, a6⟩

-- non-vacuity: `1e-5` (exact) has budget 4; the same digits with `many_digits` saturate the budget
example : stage Gen.F64 ⟨-5, 1, false⟩ (10 ^ 5) ⟨14073748835532800000, -47⟩ ⟨15845632502852867518, -97⟩
    = (⟨12089258196146291747, 995⟩, 4) := by decide +kernel
example : genBel.getSmall 5 = some ⟨14073748835532800000, -47⟩ ∧
    genBel.getLarge 34 = some ⟨15845632502852867518, -97⟩ := by decide +kernel
example : tooManyErrors ≤
    (stage Gen.F64 ⟨-5, 1, true⟩ (10 ^ 5) ⟨14073748835532800000, -47⟩ ⟨15845632502852867518, -97⟩).2 := by
  decide +kernel

/-- The bound does NOT hold at the nominal scale "`errors` = eighths of a unit in the last place":
    for the exactly given `866254181393173474e-299` (no dropped digits) the budget is `errors3 = 4`
    ("half a unit"), yet the estimate `fp4 = 11602485142173493425 · 2^(78 − 1075)` is more than 7/8 of
    a unit below the value: `(v − fp4) · 8 > 4 · 2^(−997)`, written without denominators.
    (Cause: the table entries are truncated, not rounded.)  `error_is_accurate` compares `errors` with
    the dropped bits un-divided, i.e. it treats `errors` as WHOLE units, and at that scale B3 holds. -/
theorem B3_nominal_scale_false :
    stage Gen.F64 ⟨-299, 866254181393173474, false⟩ (10 ^ 1) ⟨11529215046068469760, -60⟩
        ⟨12353653155963782858, -1060⟩ = (⟨11602485142173493425, 78⟩, 4) ∧
    genBel.getSmall 1 = some ⟨11529215046068469760, -60⟩ ∧
    genBel.getLarge 5 = some ⟨12353653155963782858, -1060⟩ ∧
    4 * 10 ^ 299 < (866254181393173474 * 2 ^ 997 - 11602485142173493425 * 10 ^ 299) * 8 := by
  decide +kernel

/-! ## B4 -/

/-- **B4 (no rounding boundary in the window).**  If `error_is_accurate` accepts the budget `e` at the
    normalised estimate `M · 2^(exp − bias)`, `exp ≥ −63`, and the true value `v` lies in
    `[(M − d), (M + e − d)] · 2^(exp − bias)` with `1 ≤ d`, `4·d ≤ e` (the B3 window), then `v` and the
    estimate round to the same float — including the subnormal shifts `extrabits = 1 − exp`, the binade
    boundaries on either side, and overflow. -/
theorem B4_no_boundary {F : FloatC} (h : F.WF) {M e d : Nat} {exp : Int} (hM : 2 ^ 63 ≤ M)
    (hM' : M < 2 ^ 64) (hexp : -63 ≤ exp) (hd : 1 ≤ d) (hde : 4 * d ≤ e)
    (hacc : errorIsAccurate F e ⟨M, exp⟩ = true) {v : Q} (hv : 0 < v.den)
    (hlo : ((M : ℚ) - d) * (2:ℚ) ^ (exp - F.exponentBias) ≤ v.toRat)
    (hhi : v.toRat ≤ ((M : ℚ) + e - d) * (2:ℚ) ^ (exp - F.exponentBias)) :
    rne F.fmt v = rne F.fmt (ofDyadic M (exp - F.exponentBias)) ∧
    extendedToFloat F (round F (roundNearestTieEven cbNearestEven) ⟨M, exp⟩) = rne F.fmt v := by
  have := accurate_rne h hM hM' hexp hd hde hacc hv hlo hhi
  exact ⟨this, by rw [C18_round_nearest h hM hM' hexp, this]⟩

-- non-vacuity: the hypotheses hold for the estimate of `1e-5` with `v = 1e-5`
example : errorIsAccurate Gen.F64 4 ⟨12089258196146291747, 995⟩ = true := by decide +kernel

/-! ## spec-side thresholds -/

theorem ext_zero {F : FloatC} (h : F.WF) : extendedToFloat F ⟨0, 0⟩ = 0 := by
  have := C17_extendedToFloat h (fr := 0) (E := 0) (Nat.two_pow_pos _) (Nat.two_pow_pos _)
  simpa using this

theorem ext_inf {F : FloatC} (h : F.WF) : extendedToFloat F ⟨0, F.infinitePower⟩ = F.fmt.infBits := by
  have hp := Nat.two_pow_pos F.ebits
  have := C17_extendedToFloat h (fr := 0) (E := 2 ^ F.ebits - 1) (Nat.two_pow_pos _) (by omega)
  rw [h.infPower]
  have hc : (((2 ^ F.ebits - 1 : Nat)) : Int) = (2:Int) ^ F.ebits - 1 := by
    rw [Int.natCast_sub (by omega)]; simp
  rw [← hc, this, infBits_eq]; simp

/-- values at or below `2^(kmin−1) = 2^(−bias)` round to zero -/
theorem rne_zero_of_le {F : FloatC} (h : F.WF) {v : Q} (hv : 0 < v.den)
    (hle : v.toRat ≤ (2:ℚ) ^ (-F.exponentBias)) : rne F.fmt v = 0 := by
  have hE : 1 ≤ F.fmt.ebits := by have := h.eb_ge; exact Nat.le_trans (by decide) this
  rw [rne_eq_zero_iff F.fmt hE hv]
  unfold Fmt.zeroThreshold
  rw [Q.le_iff hv (ofDyadic_den_pos _ _), ofDyadic_toRat, h.kmin_eq]
  rw [show (1 - F.exponentBias - 1) = -F.exponentBias by ring]
  simpa using hle

/-- values at or above `2^(emax+1)` round to infinity -/
theorem rne_inf_of_ge {F : FloatC} (h : F.WF) {v : Q} (hv : 0 < v.den)
    (hge : (2:ℚ) ^ ((2:Int) ^ (F.ebits - 1)) ≤ v.toRat) : rne F.fmt v = F.fmt.infBits := by
  have hE : 2 ≤ F.fmt.ebits := h.eb_ge
  rw [rne_eq_inf_iff F.fmt hE hv]
  unfold Fmt.infThreshold Fmt.kmax
  rw [Q.le_iff (ofDyadic_den_pos _ _) hv, ofDyadic_toRat]
  refine le_trans ?_ hge
  have hpos : (0:ℚ) < (2:ℚ) ^ ((2:Int) ^ (F.fmt.ebits - 1) - 1 - F.fmt.mbits - 1) := two_zpow_pos _
  have h1 : (((2 ^ (F.fmt.mbits + 2) - 1 : Nat)) : ℚ) ≤ (2:ℚ) ^ ((F.fmt.mbits : Int) + 2) := by
    have : 2 ^ (F.fmt.mbits + 2) - 1 ≤ 2 ^ (F.fmt.mbits + 2) := Nat.sub_le _ _
    have := (Nat.cast_le (α := ℚ)).2 this
    push_cast at this
    rw [show ((F.fmt.mbits : Int) + 2) = ((F.fmt.mbits + 2 : Nat) : Int) by push_cast; ring, zpow_natCast]
    exact this
  have := mul_le_mul_of_nonneg_right h1 hpos.le
  refine le_trans this (le_of_eq ?_)
  rw [← zpow_add₀ (by norm_num)]
  congr 1
  show _ = (2:Int) ^ (F.ebits - 1)
  have : F.fmt.ebits = F.ebits := rfl
  rw [this]; ring

/-! ## the main path: everything known just before `error_is_accurate` -/

theorem denotes_main {n : Number} {v : Q} (hd : Denotes n v) (hw : n.mantissa ≠ 0)
    (hq1 : -1000 < n.exponent) (hq2 : n.exponent < 1000) :
    0 < v.den ∧ (n.mantissa : ℚ) * (10:ℚ) ^ n.exponent ≤ v.toRat ∧
    (n.manyDigits = true → v.toRat < ((n.mantissa : ℚ) + 1) * (10:ℚ) ^ n.exponent) ∧
    (n.manyDigits = false → v.toRat = (n.mantissa : ℚ) * (10:ℚ) ^ n.exponent) := by
  obtain ⟨hv, hcase⟩ := hd
  rcases hcase with ⟨h1, h2⟩ | ⟨h, _⟩ | ⟨h, _⟩ | ⟨h, _⟩
  · refine ⟨hv, ?_, ?_, ?_⟩
    · have := (Q.le_iff (ofDec_den_pos _ _) hv).1 h1
      rwa [ofDec_toRat] at this
    · intro hm
      rw [if_pos hm] at h2
      have := (Q.lt_iff hv (ofDec_den_pos _ _)).1 h2
      rw [ofDec_toRat] at this
      push_cast at this; exact this
    · intro hm
      rw [if_neg (by simp [hm])] at h2
      have := (Q.eqv_iff hv (ofDec_den_pos _ _)).1 h2
      rwa [ofDec_toRat] at this
  · exact absurd h hw
  · omega
  · omega

/-- **B3 in context**: for a denoting, well-shaped `Number` on the main path, the estimate is
    normalised, the budget is small and the true value lies in the budgeted window. -/
theorem main_ctx (F : FloatC) {n : Number} {v : Q} (hd : Denotes n v) (hok : NumOK n)
    (hw : n.mantissa ≠ 0) {s l : Nat} {sFp lFp : ExtFloat} (hs : s < 10) (hl : l < 66)
    (hq : n.exponent = (s : Int) + (l : Int) * 10 - 350)
    (hsf : genBel.getSmall s = some sFp) (hlf : genBel.getLarge l = some lFp) :
    0 < v.den ∧
    2 ^ 63 ≤ (stage F n (10 ^ s) sFp lFp).1.mant ∧ (stage F n (10 ^ s) sFp lFp).1.mant < 2 ^ 64 ∧
    4 ≤ (stage F n (10 ^ s) sFp lFp).2 ∧ (stage F n (10 ^ s) sFp lFp).2 ≤ 612 ∧
    (10:ℚ) ^ (-350 : Int) ≤ v.toRat ∧ v.toRat < (10:ℚ) ^ (329 : Int) ∧
    ∃ d : Nat, 1 ≤ d ∧ 4 * d ≤ (stage F n (10 ^ s) sFp lFp).2 ∧
      (((stage F n (10 ^ s) sFp lFp).1.mant : ℚ) - d) *
          (2:ℚ) ^ ((stage F n (10 ^ s) sFp lFp).1.exp - F.exponentBias) ≤ v.toRat ∧
      v.toRat ≤ (((stage F n (10 ^ s) sFp lFp).1.mant : ℚ) + (stage F n (10 ^ s) sFp lFp).2 - d) *
          (2:ℚ) ^ ((stage F n (10 ^ s) sFp lFp).1.exp - F.exponentBias) := by
  obtain ⟨hw19, hmany, _, _⟩ := hok
  obtain ⟨hv, v1, v2, v3⟩ := denotes_main hd hw (by omega) (by omega)
  obtain ⟨sFp', e1, s1, s2, s3, s4⟩ := small_entry hs
  obtain ⟨lFp', e2, l1, l2, l3, l4⟩ := large_entry hl
  rw [hsf] at e1; rw [hlf] at e2
  cases e1; cases e2
  have h10q : (10:ℚ) ^ n.exponent = (10:ℚ) ^ s * (10:ℚ) ^ ((l : Int) * 10 - 350) := by
    rw [hq, show (s : Int) + (l : Int) * 10 - 350 = (s : Int) + ((l : Int) * 10 - 350) by ring,
      zpow_add₀ (by norm_num), zpow_natCast]
  have hp : (0:ℚ) < (10:ℚ) ^ n.exponent := by positivity
  have hw64 : n.mantissa < 2 ^ 64 := by omega
  have hxv : v.toRat / (10:ℚ) ^ n.exponent * (10:ℚ) ^ s * (10:ℚ) ^ ((l : Int) * 10 - 350) = v.toRat := by
    rw [mul_assoc, ← h10q]; field_simp
  obtain ⟨a1, a2, _, _, a4, a5, a6⟩ := stage_spec F (num := n) (s := s) (sFp := sFp) (lFp := lFp)
    (x := v.toRat / (10:ℚ) ^ n.exponent) (P := (10:ℚ) ^ ((l : Int) * 10 - 350))
    hw hw64 s1 s2 s3 s4 l1 l2 l3 l4
    (by rw [le_div_iff₀ hp]; exact v1)
    (by
      rw [div_le_iff₀ hp]
      cases hm : n.manyDigits with
      | true => exact (v2 hm).le
      | false => rw [v3 hm]; nlinarith)
    (by intro hm; rw [v3 hm]; field_simp)
  rw [hxv] at a6
  have a5' := a5 hmany
  have hw1 : (1:ℚ) ≤ n.mantissa := by
    have : 1 ≤ n.mantissa := Nat.pos_of_ne_zero hw
    exact_mod_cast this
  have hw19q : (n.mantissa : ℚ) + 1 ≤ 10 ^ 19 := by
    have : n.mantissa + 1 ≤ 10 ^ 19 := hw19
    exact_mod_cast this
  have hqlo : (10:ℚ) ^ (-350 : Int) ≤ (10:ℚ) ^ n.exponent :=
    zpow_le_zpow_right₀ (by norm_num) (by omega)
  have hqhi : (10:ℚ) ^ n.exponent ≤ (10:ℚ) ^ (309 : Int) :=
    zpow_le_zpow_right₀ (by norm_num) (by omega)
  refine ⟨hv, a1, a2, a4, a5', ?_, ?_, ?_⟩
  · calc (10:ℚ) ^ (-350 : Int) ≤ 1 * (10:ℚ) ^ n.exponent := by rw [one_mul]; exact hqlo
      _ ≤ (n.mantissa : ℚ) * (10:ℚ) ^ n.exponent := mul_le_mul_of_nonneg_right hw1 hp.le
      _ ≤ v.toRat := v1
  · have hup : v.toRat ≤ ((n.mantissa : ℚ) + 1) * (10:ℚ) ^ n.exponent := by
      cases hm : n.manyDigits with
      | true => exact (v2 hm).le
      | false => rw [v3 hm]; nlinarith
    calc v.toRat ≤ ((n.mantissa : ℚ) + 1) * (10:ℚ) ^ n.exponent := hup
      _ ≤ 10 ^ 19 * (10:ℚ) ^ n.exponent := mul_le_mul_of_nonneg_right hw19q hp.le
      _ ≤ 10 ^ 19 * (10:ℚ) ^ (309 : Int) := mul_le_mul_of_nonneg_left hqhi (by norm_num)
      _ = (10:ℚ) ^ (328 : Int) := by
          rw [← zpow_natCast, ← zpow_add₀ (by norm_num)]; norm_num
      _ < (10:ℚ) ^ (329 : Int) := zpow_lt_zpow_right₀ (by norm_num) (by norm_num)
  · rcases a6 with hsat | h
    · unfold tooManyErrors at hsat; omega
    · exact h

/-! ## B4 — soundness of the tail -/

theorem n329 : (10:ℕ) ^ 329 ≤ 2 ^ 1100 := by decide +kernel
theorem n350 : (10:ℕ) ^ 350 ≤ 2 ^ 1170 := by decide +kernel

theorem p329 : (10:ℚ) ^ (329 : Int) ≤ (2:ℚ) ^ (1100 : Int) := by
  rw [show (329:ℤ) = ((329:ℕ):ℤ) from rfl, zpow_natCast, show (1100:ℤ) = ((1100:ℕ):ℤ) from rfl,
    zpow_natCast]
  exact_mod_cast n329

theorem m350 : (2:ℚ) ^ (-1170 : Int) ≤ (10:ℚ) ^ (-350 : Int) := by
  rw [show (-1170:ℤ) = -((1170:ℕ):ℤ) from rfl, show (-350:ℤ) = -((350:ℕ):ℤ) from rfl,
    zpow_neg, zpow_neg, zpow_natCast, zpow_natCast]
  apply inv_anti₀ (by positivity)
  exact_mod_cast n350

/-- the binary exponent of the estimate is moderate (derived from the size of the value) -/
theorem exp_range {M e d : Nat} {j : Int} {x : ℚ} (hM : 2 ^ 63 ≤ M) (hM' : M < 2 ^ 64) (he : e ≤ 612)
    (hde : 4 * d ≤ e) (hlo : ((M : ℚ) - d) * (2:ℚ) ^ j ≤ x) (hhi : x ≤ ((M : ℚ) + e - d) * (2:ℚ) ^ j)
    (h1 : (10:ℚ) ^ (-350 : Int) ≤ x) (h2 : x < (10:ℚ) ^ (329 : Int)) : -1235 < j ∧ j < 1038 := by
  have hpj := two_zpow_pos j
  have hMq : (9223372036854775808:ℚ) ≤ M := by
    have : 9223372036854775808 ≤ M := by omega
    exact_mod_cast this
  have hMq' : (M : ℚ) < 18446744073709551616 := by
    have : M < 18446744073709551616 := by omega
    exact_mod_cast this
  have e65 : (2:ℚ) ^ (65 : Int) = 36893488147419103232 := by
    rw [show (65:ℤ) = ((65:ℕ):ℤ) from rfl, zpow_natCast]; norm_num
  have e62 : (2:ℚ) ^ (62 : Int) = 4611686018427387904 := by
    rw [show (62:ℤ) = ((62:ℕ):ℤ) from rfl, zpow_natCast]; norm_num
  have hdq : (d : ℚ) ≤ 153 := by
    have : d ≤ 153 := by omega
    exact_mod_cast this
  have heq : (e : ℚ) ≤ 612 := by exact_mod_cast he
  have hd0 : (0:ℚ) ≤ d := Nat.cast_nonneg _
  constructor
  · have a : (2:ℚ) ^ (-1170 : Int) < (2:ℚ) ^ (65 : Int) * (2:ℚ) ^ j := by
      have hb : (M : ℚ) + e - d < (2:ℚ) ^ (65 : Int) := by
        rw [e65]; linarith
      calc (2:ℚ) ^ (-1170 : Int) ≤ x := le_trans m350 h1
        _ ≤ ((M : ℚ) + e - d) * (2:ℚ) ^ j := hhi
        _ < (2:ℚ) ^ (65 : Int) * (2:ℚ) ^ j := mul_lt_mul_of_pos_right hb hpj
    rw [← zpow_add₀ (by norm_num)] at a
    have := (zpow_lt_zpow_iff_right₀ (by norm_num : (1:ℚ) < 2)).1 a
    omega
  · have a : (2:ℚ) ^ (62 : Int) * (2:ℚ) ^ j < (2:ℚ) ^ (1100 : Int) := by
      have hb : (2:ℚ) ^ (62 : Int) ≤ (M : ℚ) - d := by
        rw [e62]; linarith
      calc (2:ℚ) ^ (62 : Int) * (2:ℚ) ^ j ≤ ((M : ℚ) - d) * (2:ℚ) ^ j :=
            mul_le_mul_of_nonneg_right hb hpj.le
        _ ≤ x := hlo
        _ < (10:ℚ) ^ (329 : Int) := h2
        _ ≤ (2:ℚ) ^ (1100 : Int) := p329
    rw [← zpow_add₀ (by norm_num)] at a
    have := (zpow_lt_zpow_iff_right₀ (by norm_num : (1:ℚ) < 2)).1 a
    omega

/-- at `exp = −64` (`extrabits = 65 > 64`) the check is `mant + errors` does not overflow -/
theorem acc_unpack64 {F : FloatC} (h : F.WF) {M e : Nat}
    (hacc : errorIsAccurate F e ⟨M, -64⟩ = true) : M + e < 2 ^ 64 := by
  have hms := h.ms_le
  unfold errorIsAccurate at hacc
  by_cases he : e ≥ tooManyErrors
  · simp [he] at hacc
  rw [if_neg he] at hacc
  dsimp only at hacc
  rw [if_pos (by omega)] at hacc
  unfold u64Mod at hacc
  simpa using hacc

/-- the upper end of the window is below `2^(−bias)` when the estimate's exponent is `≤ −65`, or is
    `−64` and `mant + errors < 2^64` -/
theorem small_value {F : FloatC} {M e d : Nat} {E : Int} {x : ℚ}
    (hhi : x ≤ ((M : ℚ) + e - d) * (2:ℚ) ^ (E - F.exponentBias)) {t : Int}
    (hb : (M : ℚ) + e - d ≤ (2:ℚ) ^ t) (hE : t + E ≤ 0) : x ≤ (2:ℚ) ^ (-F.exponentBias) := by
  have hpj := two_zpow_pos (E - F.exponentBias)
  calc x ≤ ((M : ℚ) + e - d) * (2:ℚ) ^ (E - F.exponentBias) := hhi
    _ ≤ (2:ℚ) ^ t * (2:ℚ) ^ (E - F.exponentBias) := mul_le_mul_of_nonneg_right hb hpj.le
    _ = (2:ℚ) ^ (t + (E - F.exponentBias)) := (zpow_add₀ (by norm_num) _ _).symm
    _ ≤ (2:ℚ) ^ (-F.exponentBias) := zpow_le_zpow_right₀ (by norm_num) (by omega)

/-- **B4 (tail).**  With the B3 window and a small budget, whatever `finish` returns with a
    non-negative exponent is the correctly rounded value. -/
theorem finish_sound {F : FloatC} (h : F.WF) (hb : F.exponentBias ≤ 1100) {M e d : Nat} {E : Int}
    {v : Q} (hv : 0 < v.den) (hM : 2 ^ 63 ≤ M) (hM' : M < 2 ^ 64) (he : e ≤ 612) (hd : 1 ≤ d)
    (hde : 4 * d ≤ e)
    (hlo : ((M : ℚ) - d) * (2:ℚ) ^ (E - F.exponentBias) ≤ v.toRat)
    (hhi : v.toRat ≤ ((M : ℚ) + e - d) * (2:ℚ) ^ (E - F.exponentBias))
    (h1 : (10:ℚ) ^ (-350 : Int) ≤ v.toRat) (h2 : v.toRat < (10:ℚ) ^ (329 : Int))
    (hexp : 0 ≤ (finish F ⟨M, E⟩ e).exp) :
    extendedToFloat F (finish F ⟨M, E⟩ e) = rne F.fmt v := by
  obtain ⟨_, hj⟩ := exp_range hM hM' he hde hlo hhi h1 h2
  have hMq' : (M : ℚ) < 18446744073709551616 := by
    have : M < 18446744073709551616 := by omega
    exact_mod_cast this
  have heq : (e : ℚ) ≤ 612 := by exact_mod_cast he
  have hdq : (1 : ℚ) ≤ d := by exact_mod_cast hd
  have e65 : (2:ℚ) ^ (65 : Int) = 36893488147419103232 := by
    rw [show (65:ℤ) = ((65:ℕ):ℤ) from rfl, zpow_natCast]; norm_num
  have e64 : (2:ℚ) ^ (64 : Int) = 18446744073709551616 := by
    rw [show (64:ℤ) = ((64:ℕ):ℤ) from rfl, zpow_natCast]; norm_num
  unfold finish at hexp ⊢
  dsimp only at hexp ⊢
  by_cases c1 : -E + 1 > 65
  · rw [if_pos c1, ext_zero h]
    refine (rne_zero_of_le h hv (small_value (t := 65) hhi ?_ (by omega))).symm
    rw [e65]; linarith
  rw [if_neg c1] at hexp ⊢
  by_cases c2 : (!errorIsAccurate F e ⟨M, E⟩) = true
  · rw [if_pos c2] at hexp
    dsimp only at hexp
    rw [h.invalid] at hexp
    omega
  rw [if_neg c2] at hexp ⊢
  have hacc : errorIsAccurate F e ⟨M, E⟩ = true := by simpa using c2
  by_cases c3 : -E + 1 = 65
  · rw [if_pos c3, ext_zero h]
    have hE : E = -64 := by omega
    subst hE
    have hsum := acc_unpack64 h hacc
    refine (rne_zero_of_le h hv (small_value (t := 64) hhi ?_ (by omega))).symm
    have : ((M + e : Nat) : ℚ) ≤ 18446744073709551616 := by
      have : M + e ≤ 18446744073709551616 := by omega
      exact_mod_cast this
    rw [e64]; push_cast at this; linarith
  rw [if_neg c3]
  have hE : -63 ≤ E := by omega
  rw [C18_round_nearest h hM hM' hE]
  exact (accurate_rne h hM hM' hE hd hde hacc hv hlo hhi).symm

/-! ## B4 — `modSound` -/

theorem denotes_cases {n : Number} {v : Q} (hd : Denotes n v) :
    0 < v.den ∧
    (((n.mantissa : ℚ) * (10:ℚ) ^ n.exponent ≤ v.toRat ∧
      (n.manyDigits = true → v.toRat < ((n.mantissa : ℚ) + 1) * (10:ℚ) ^ n.exponent) ∧
      (n.manyDigits = false → v.toRat = (n.mantissa : ℚ) * (10:ℚ) ^ n.exponent)) ∨
     (n.mantissa = 0 ∧ v.toRat = 0) ∨
     (n.exponent ≤ -1000 ∧ v.toRat < (10:ℚ) ^ (-400 : Int)) ∨
     (1000 ≤ n.exponent ∧ 1 ≤ n.mantissa ∧ (10:ℚ) ^ (400 : Int) ≤ v.toRat)) := by
  obtain ⟨hv, hcase⟩ := hd
  refine ⟨hv, ?_⟩
  rcases hcase with ⟨h1, h2⟩ | ⟨h, h0⟩ | ⟨h, hlt⟩ | ⟨h, hw, hge⟩
  · left
    refine ⟨?_, ?_, ?_⟩
    · have := (Q.le_iff (ofDec_den_pos _ _) hv).1 h1
      rwa [ofDec_toRat] at this
    · intro hm
      rw [if_pos hm] at h2
      have := (Q.lt_iff hv (ofDec_den_pos _ _)).1 h2
      rw [ofDec_toRat] at this
      push_cast at this; exact this
    · intro hm
      rw [if_neg (by simp [hm])] at h2
      have := (Q.eqv_iff hv (ofDec_den_pos _ _)).1 h2
      rwa [ofDec_toRat] at this
  · right; left
    exact ⟨h, (Q.num_eq_zero_iff hv).1 h0⟩
  · right; right; left
    refine ⟨h, ?_⟩
    have := (Q.lt_iff hv (ofDec_den_pos _ _)).1 hlt
    rw [ofDec_toRat] at this
    simpa using this
  · right; right; right
    refine ⟨h, hw, ?_⟩
    have := (Q.le_iff (ofDec_den_pos _ _) hv).1 hge
    rw [ofDec_toRat] at this
    simpa using this

theorem n332 : (2:ℕ) ^ 1100 ≤ 10 ^ 332 := by decide +kernel
theorem n310 : (2:ℕ) ^ 1029 ≤ 10 ^ 310 := by decide +kernel

theorem m332 : (10:ℚ) ^ (-332 : Int) ≤ (2:ℚ) ^ (-1100 : Int) := by
  rw [show (-1100:ℤ) = -((1100:ℕ):ℤ) from rfl, show (-332:ℤ) = -((332:ℕ):ℤ) from rfl,
    zpow_neg, zpow_neg, zpow_natCast, zpow_natCast]
  apply inv_anti₀ (by positivity)
  exact_mod_cast n332

theorem p310 : (2:ℚ) ^ (1029 : Int) ≤ (10:ℚ) ^ (310 : Int) := by
  rw [show (1029:ℤ) = ((1029:ℕ):ℤ) from rfl, show (310:ℤ) = ((310:ℕ):ℤ) from rfl,
    zpow_natCast, zpow_natCast]
  exact_mod_cast n310

/-- format records covered: well-formed and `emax + 1 = 2^(ebits−1) ≤ 1029` (f32: 128, f64: 1024) -/
structure Covered (F : FloatC) : Prop where
  wf : F.WF
  emax : (2:Int) ^ (F.ebits - 1) ≤ 1029

theorem Covered.bias_le {F : FloatC} (c : Covered F) : F.exponentBias ≤ 1100 := by
  have := c.wf.bias
  have := c.wf.ms_le
  have := c.emax
  omega

theorem covered_f64 : Covered Gen.F64 := ⟨F64_WF, by decide⟩
theorem covered_f32 : Covered Gen.F32 := ⟨F32_WF, by decide⟩

/-- **B4 / C11 (`modSound`).**  Every definite answer of Bellerophon (non-negative exponent) on a
    denoting, well-shaped `Number` is the correctly rounded value. -/
theorem modSound_generic {F : FloatC} (c : Covered F) (n : Number) (v : Q) (fp : ExtFloat)
    (hd : Denotes n v) (hok : NumOK n) (hb : bellerophon genBel F n = some fp) (hexp : 0 ≤ fp.exp) :
    extendedToFloat F fp = rne F.fmt v := by
  have h := c.wf
  have hbias := c.bias_le
  obtain ⟨hv, hcase⟩ := denotes_cases hd
  have hok' := hok
  obtain ⟨hw19, hmany, _, _⟩ := hok'
  have hw19q : (n.mantissa : ℚ) + 1 ≤ 10 ^ 19 := by
    have : n.mantissa + 1 ≤ 10 ^ 19 := hw19
    exact_mod_cast this
  have hp : (0:ℚ) < (10:ℚ) ^ n.exponent := by positivity
  rcases bellerophon_cases F n with ⟨hz, hr⟩ | ⟨hw, hq, hr⟩ | ⟨hw, s, l, sFp, lFp, hs, hl, hq, hsf, hlf, hr⟩
  · -- zero return
    rw [hr] at hb; cases hb
    rw [ext_zero h]
    refine (rne_zero_of_le h hv ?_).symm
    have hthr : (10:ℚ) ^ (-332 : Int) ≤ (2:ℚ) ^ (-F.exponentBias) :=
      le_trans m332 (zpow_le_zpow_right₀ (by norm_num) (by omega))
    have h0 : (0:ℚ) ≤ (2:ℚ) ^ (-F.exponentBias) := (two_zpow_pos _).le
    rcases hcase with ⟨v1, v2, v3⟩ | ⟨_, hv0⟩ | ⟨_, hlt⟩ | ⟨hq, hw, _⟩
    · rcases hz with hw0 | hq
      · cases hm : n.manyDigits with
        | true => have := hmany hm; omega
        | false => rw [v3 hm, hw0]; simpa using h0
      · have hup : v.toRat ≤ ((n.mantissa : ℚ) + 1) * (10:ℚ) ^ n.exponent := by
          cases hm : n.manyDigits with
          | true => exact (v2 hm).le
          | false => rw [v3 hm]; nlinarith
        have hqle : (10:ℚ) ^ n.exponent ≤ (10:ℚ) ^ (-351 : Int) :=
          zpow_le_zpow_right₀ (by norm_num) hq
        calc v.toRat ≤ ((n.mantissa : ℚ) + 1) * (10:ℚ) ^ n.exponent := hup
          _ ≤ 10 ^ 19 * (10:ℚ) ^ n.exponent := mul_le_mul_of_nonneg_right hw19q hp.le
          _ ≤ 10 ^ 19 * (10:ℚ) ^ (-351 : Int) := mul_le_mul_of_nonneg_left hqle (by norm_num)
          _ = (10:ℚ) ^ (-332 : Int) := by
              rw [← zpow_natCast, ← zpow_add₀ (by norm_num)]; norm_num
          _ ≤ _ := hthr
    · rw [hv0]; exact h0
    · have : (10:ℚ) ^ (-400 : Int) ≤ (10:ℚ) ^ (-332 : Int) :=
        zpow_le_zpow_right₀ (by norm_num) (by norm_num)
      linarith
    · rcases hz with hw0 | hq' <;> omega
  · -- infinity return
    rw [hr] at hb; cases hb
    rw [ext_inf h]
    refine (rne_inf_of_ge h hv ?_).symm
    have hthr : (2:ℚ) ^ ((2:Int) ^ (F.ebits - 1)) ≤ (10:ℚ) ^ (310 : Int) :=
      le_trans (zpow_le_zpow_right₀ (by norm_num) c.emax) p310
    have hw1 : (1:ℚ) ≤ n.mantissa := by
      have : 1 ≤ n.mantissa := Nat.pos_of_ne_zero hw
      exact_mod_cast this
    rcases hcase with ⟨v1, _, _⟩ | ⟨hw0, _⟩ | ⟨hq', _⟩ | ⟨_, _, hge⟩
    · have hqle : (10:ℚ) ^ (310 : Int) ≤ (10:ℚ) ^ n.exponent :=
        zpow_le_zpow_right₀ (by norm_num) hq
      calc _ ≤ (10:ℚ) ^ (310 : Int) := hthr
        _ ≤ 1 * (10:ℚ) ^ n.exponent := by rw [one_mul]; exact hqle
        _ ≤ (n.mantissa : ℚ) * (10:ℚ) ^ n.exponent := mul_le_mul_of_nonneg_right hw1 hp.le
        _ ≤ v.toRat := v1
    · exact absurd hw0 hw
    · omega
    · have : (10:ℚ) ^ (310 : Int) ≤ (10:ℚ) ^ (400 : Int) :=
        zpow_le_zpow_right₀ (by norm_num) (by norm_num)
      exact le_trans hthr (le_trans this hge)
  · -- main path
    rw [hr] at hb; cases hb
    obtain ⟨_, a1, a2, a4, a5, r1, r2, d, d1, d2, lo, hi⟩ := main_ctx F hd hok hw hs hl hq hsf hlf
    generalize stage F n (10 ^ s) sFp lFp = st at *
    obtain ⟨⟨M, E⟩, e⟩ := st
    exact finish_sound h hbias hv a1 a2 a5 d1 d2 lo hi r1 r2 hexp


/-! ## B5 — `modEst`, and `modRange` / `modTotal` -/

/-- the exponent `round` returns is never negative (so only the declined branch returns one) -/
theorem round_exp_nonneg {F : FloatC} (h : F.WF) (cb : RoundCb) (M : Nat) (E : Int) :
    0 ≤ (round F (roundNearestTieEven cb) ⟨M, E⟩).exp := by
  have hp : (0:Int) < (2:Int) ^ F.ebits := by positivity
  unfold round
  dsimp only
  split
  · dsimp only; split <;> decide
  · rename_i hn
    have e1 : ∀ s, (roundNearestTieEven cb ⟨M, E⟩ s).exp = E + s := fun _ => rfl
    have hms := h.ms_le
    split <;> split <;>
      first
        | (dsimp only; rw [h.infPower]; omega)
        | (dsimp only; rw [e1]; omega)

theorem wrapI32_id {x : Int} (h1 : -2147483648 ≤ x) (h2 : x < 2147483648) : wrapI32 x = x := by
  unfold wrapI32
  dsimp only
  split <;> omega

/-- which branch a negative exponent comes from -/
theorem finish_declined {F : FloatC} (h : F.WF) {M e : Nat} {E : Int} (hE : E < 32768)
    (hneg : (finish F ⟨M, E⟩ e).exp < 0) :
    -64 ≤ E ∧ finish F ⟨M, E⟩ e = ⟨M, E + F.invalidFp⟩ := by
  unfold finish at hneg ⊢
  dsimp only at hneg ⊢
  by_cases c1 : -E + 1 > 65
  · rw [if_pos c1] at hneg; simp at hneg
  rw [if_neg c1] at hneg ⊢
  by_cases c2 : (!errorIsAccurate F e ⟨M, E⟩) = true
  · rw [if_pos c2]; exact ⟨by omega, rfl⟩
  rw [if_neg c2] at hneg
  by_cases c3 : -E + 1 = 65
  · rw [if_pos c3] at hneg; simp at hneg
  rw [if_neg c3] at hneg
  have := round_exp_nonneg h cbNearestEven M E
  omega

/-- **B5 (`modEst`).**  A declined answer, un-biased, satisfies the hand-off contract of the
    big-integer path: normalised, `exp ≥ −64`, and the correct result is the truncated estimate or its
    successor.  Needs `NumOK` (`many_digits → w ≥ 10^18`, which bounds the budget by 612) and at most
    52 explicit significand bits (half a float ulp is then ≥ 1024 units of the 64-bit significand). -/
theorem modEst_generic {F : FloatC} (c : Covered F) (hms52 : F.mantissaSize ≤ 52) (n : Number) (v : Q)
    (fp : ExtFloat) (hd : Denotes n v) (hok : NumOK n) (hb : bellerophon genBel F n = some fp)
    (hneg : fp.exp < 0) : EstOK F ⟨fp.mant, wrapI32 (fp.exp - F.invalidFp)⟩ v := by
  have h := c.wf
  have hbias := c.bias_le
  have hbias0 : 0 ≤ F.exponentBias := by
    have := h.bias
    have : (0:Int) < (2:Int) ^ (F.ebits - 1) := by positivity
    omega
  rcases bellerophon_cases F n with ⟨_, hr⟩ | ⟨_, _, hr⟩ | ⟨hw, s, l, sFp, lFp, hs, hl, hq, hsf, hlf, hr⟩
  · rw [hr] at hb; cases hb; simp at hneg
  · rw [hr] at hb; cases hb
    have hp : (0:Int) < (2:Int) ^ F.ebits := by positivity
    dsimp only at hneg; rw [h.infPower] at hneg; omega
  · rw [hr] at hb; cases hb
    obtain ⟨hv, a1, a2, a4, a5, r1, r2, d, d1, d2, lo, hi⟩ := main_ctx F hd hok hw hs hl hq hsf hlf
    generalize stage F n (10 ^ s) sFp lFp = st at *
    obtain ⟨⟨M, E⟩, e⟩ := st
    dsimp only at a1 a2 a4 a5 d2 lo hi hneg ⊢
    obtain ⟨j1, j2⟩ := exp_range a1 a2 a5 d2 lo hi r1 r2
    obtain ⟨hE64, hfin⟩ := finish_declined h (by omega) hneg
    rw [hfin]
    dsimp only
    rw [show E + F.invalidFp - F.invalidFp = E by ring, wrapI32_id (by omega) (by omega)]
    refine ⟨a1, a2, hE64, ?_⟩
    rw [C18_round_down h a1 a2]
    exact est_rne h hms52 a1 a2 hE64 a5 d1 d2 hv lo hi

/-- **`modRange`.**  Bellerophon declines only after its early returns: `w ≠ 0` and `−350 ≤ q ≤ 309`. -/
theorem modRange_generic {F : FloatC} (h : F.WF) (n : Number) (fp : ExtFloat)
    (hb : bellerophon genBel F n = some fp) (hneg : fp.exp < 0) :
    n.mantissa ≠ 0 ∧ -350 ≤ n.exponent ∧ n.exponent ≤ 309 := by
  rcases bellerophon_cases F n with ⟨_, hr⟩ | ⟨_, _, hr⟩ | ⟨hw, s, l, sFp, lFp, hs, hl, hq, _, _, _⟩
  · rw [hr] at hb; cases hb; simp at hneg
  · rw [hr] at hb; cases hb
    have hp : (0:Int) < (2:Int) ^ F.ebits := by positivity
    dsimp only at hneg; rw [h.infPower] at hneg; omega
  · exact ⟨hw, by omega, by omega⟩

/-! ## The four open contracts of the compact configurations, closed -/

theorem modTotal_bellerophon (F : FloatC) : ∀ n, NumOK n → ∃ fp, bellerophon genBel F n = some fp :=
  fun n _ => bellerophon_total F n

theorem modSound_bellerophon {F : FloatC} (c : Covered F) :
    ∀ n v fp, Denotes n v → NumOK n → bellerophon genBel F n = some fp → 0 ≤ fp.exp →
      extendedToFloat F fp = rne F.fmt v :=
  fun n v fp => modSound_generic c n v fp

theorem modEst_bellerophon {F : FloatC} (c : Covered F) (hms52 : F.mantissaSize ≤ 52) :
    ∀ n v fp, Denotes n v → NumOK n → bellerophon genBel F n = some fp → fp.exp < 0 →
      EstOK F ⟨fp.mant, wrapI32 (fp.exp - F.invalidFp)⟩ v :=
  fun n v fp => modEst_generic c hms52 n v fp

theorem modRange_bellerophon {F : FloatC} (h : F.WF) :
    ∀ n fp, NumOK n → bellerophon genBel F n = some fp → fp.exp < 0 →
      n.mantissa ≠ 0 ∧ -400 ≤ n.exponent ∧ n.exponent ≤ 400 := by
  intro n fp _ hb hneg
  obtain ⟨a, b, c⟩ := modRange_generic h n fp hb hneg
  exact ⟨a, by omega, by omega⟩

/-- the open contracts (`Compose.OpenCompact`) for a covered format with at most 52 explicit significand bits -/
theorem openCompact_of_covered {F : FloatC} (c : Covered F) (hms52 : F.mantissaSize ≤ 52) :
    Compose.OpenCompact F :=
  { modSound := modSound_bellerophon c
    modEst := modEst_bellerophon c hms52 }

theorem openCompact_f64 : Compose.OpenCompact Gen.F64 := openCompact_of_covered covered_f64 (by decide)
theorem openCompact_f32 : Compose.OpenCompact Gen.F32 := openCompact_of_covered covered_f32 (by decide)

/-- hence `parse_float` is correct in EVERY configuration (compact or not), for f32 and f64 -/
theorem parseCorrect_all (cfg : Cfg) :
    ParseCorrect (genEnv cfg) Gen.F64 ∧ ParseCorrect (genEnv cfg) Gen.F32 :=
  ⟨Compose.parseCorrect_of_open cfg (Or.inr rfl) openCompact_f64,
   Compose.parseCorrect_of_open cfg (Or.inl rfl) openCompact_f32⟩

/-! ## C11 on the full domain `w < 2^64`, any `q`, `truncated → 0 < w` -/

/-- the estimate depends only on the significand and the table entries — not on the decimal
    exponent field, the `many_digits` flag or (up to the bias added at the end) the format -/
theorem stage1_fst_congr {n n' : Number} (hm : n.mantissa = n'.mantissa) (sInt : Nat) (sFp : ExtFloat) :
    (stage1 n sInt sFp).1 = (stage1 n' sInt sFp).1 := by
  unfold stage1
  rw [hm]
  split <;> rfl

theorem stage_irrel (F F' : FloatC) {n n' : Number} (hm : n.mantissa = n'.mantissa) (sInt : Nat)
    (sFp lFp : ExtFloat) :
    ∃ (M : Nat) (E0 : Int) (e e' : Nat),
      stage F n sInt sFp lFp = (⟨M, E0 + F.exponentBias⟩, e) ∧
      stage F' n' sInt sFp lFp = (⟨M, E0 + F'.exponentBias⟩, e') := by
  obtain ⟨fp1, e1, heq1⟩ : ∃ u v, stage1 n sInt sFp = (u, v) := ⟨_, _, Prod.mk.eta.symm⟩
  obtain ⟨fp1', e1', heq1'⟩ : ∃ u v, stage1 n' sInt sFp = (u, v) := ⟨_, _, Prod.mk.eta.symm⟩
  have hc := stage1_fst_congr hm sInt sFp
  rw [heq1, heq1'] at hc
  dsimp only at hc
  subst hc
  obtain ⟨fp3, shift, heq2⟩ : ∃ u v, belNormalize (belMul fp1 lFp) = (u, v) := ⟨_, _, Prod.mk.eta.symm⟩
  exact ⟨fp3.mant, fp3.exp, _, _, stage_leaf F n sInt sFp lFp heq1 heq2,
    stage_leaf F' n' sInt sFp lFp heq1' heq2⟩

/-- for `w = 1` the estimate's significand stays well below `2^64` (it is the significand of a power
    of ten; the closest approach in range is `10^-146 ≈ 0.99904 · 2^-485`): 660 cases by evaluation -/
def w1Check : Bool :=
  (List.range 10).all fun s => (List.range 66).all fun l =>
    match genBel.getSmall s, genBel.getLarge l with
    | some a, some b => decide ((stage Gen.F64 ⟨0, 1, false⟩ (10 ^ s) a b).1.mant + 612 ≤ 2 ^ 64)
    | _, _ => false

theorem w1_check : w1Check = true := by decide +kernel

theorem w1_mant_bound (F : FloatC) {n : Number} (hw : n.mantissa = 1) {s l : Nat} {sFp lFp : ExtFloat}
    (hs : s < 10) (hl : l < 66) (hsf : genBel.getSmall s = some sFp) (hlf : genBel.getLarge l = some lFp) :
    (stage F n (10 ^ s) sFp lFp).1.mant + 612 ≤ 2 ^ 64 := by
  have hc := w1_check
  unfold w1Check at hc
  rw [List.all_eq_true] at hc
  have h1 := hc s (List.mem_range.2 hs)
  rw [List.all_eq_true] at h1
  have h2 := h1 l (List.mem_range.2 hl)
  rw [hsf, hlf] at h2
  dsimp only at h2
  obtain ⟨M, E0, e, e', a, b⟩ := stage_irrel F Gen.F64 (n := n) (n' := ⟨0, 1, false⟩) hw (10 ^ s) sFp lFp
  rw [b] at h2
  rw [a]
  simpa using h2

theorem acc_lt {F : FloatC} {e : Nat} {fp : ExtFloat} (h : errorIsAccurate F e fp = true) :
    e < tooManyErrors := by
  unfold errorIsAccurate at h
  by_cases he : e ≥ tooManyErrors
  · simp [he] at h
  · omega

theorem n351 : (2:ℕ) ^ 1164 ≤ 10 ^ 351 := by decide +kernel

/-- `2^64 · 10^-351 ≤ 2^-1100` -/
theorem m351 : (2:ℚ) ^ (64 : Int) * (10:ℚ) ^ (-351 : Int) ≤ (2:ℚ) ^ (-1100 : Int) := by
  rw [show (-1100:ℤ) = (64:ℤ) + -((1164:ℕ):ℤ) by norm_num, zpow_add₀ (by norm_num)]
  apply mul_le_mul_of_nonneg_left _ (by positivity)
  rw [show (-351:ℤ) = -((351:ℕ):ℤ) from rfl, zpow_neg, zpow_neg, zpow_natCast, zpow_natCast]
  apply inv_anti₀ (by positivity)
  exact_mod_cast n351

/-- tail of the algorithm, without a bound on the budget: the window for `v` is only available when
    the budget did not saturate; the exact part `x0 = w·10^q` always has a small window -/
theorem finish_sound_gen {F : FloatC} (h : F.WF) (hb : F.exponentBias ≤ 1100) {M e e' d' : Nat}
    {E : Int} {v : Q} {x0 : ℚ} (hv : 0 < v.den) (hM : 2 ^ 63 ≤ M) (hM' : M < 2 ^ 64)
    (he' : e' ≤ 612) (hde' : 4 * d' ≤ e')
    (lo' : ((M : ℚ) - d') * (2:ℚ) ^ (E - F.exponentBias) ≤ x0)
    (hi' : x0 ≤ ((M : ℚ) + e' - d') * (2:ℚ) ^ (E - F.exponentBias))
    (r1 : (10:ℚ) ^ (-350 : Int) ≤ x0) (r2 : x0 < (10:ℚ) ^ (329 : Int))
    (hwin : e < tooManyErrors → ∃ d : Nat, 1 ≤ d ∧ 4 * d ≤ e ∧
      ((M : ℚ) - d) * (2:ℚ) ^ (E - F.exponentBias) ≤ v.toRat ∧
      v.toRat ≤ ((M : ℚ) + e - d) * (2:ℚ) ^ (E - F.exponentBias))
    (hsmall : E ≤ -65 → v.toRat ≤ (2:ℚ) ^ (-F.exponentBias))
    (hexp : 0 ≤ (finish F ⟨M, E⟩ e).exp) :
    extendedToFloat F (finish F ⟨M, E⟩ e) = rne F.fmt v := by
  obtain ⟨_, hj⟩ := exp_range hM hM' he' hde' lo' hi' r1 r2
  have e64 : (2:ℚ) ^ (64 : Int) = 18446744073709551616 := by
    rw [show (64:ℤ) = ((64:ℕ):ℤ) from rfl, zpow_natCast]; norm_num
  unfold finish at hexp ⊢
  dsimp only at hexp ⊢
  by_cases c1 : -E + 1 > 65
  · rw [if_pos c1, ext_zero h]
    exact (rne_zero_of_le h hv (hsmall (by omega))).symm
  rw [if_neg c1] at hexp ⊢
  by_cases c2 : (!errorIsAccurate F e ⟨M, E⟩) = true
  · rw [if_pos c2] at hexp
    dsimp only at hexp
    rw [h.invalid] at hexp
    omega
  rw [if_neg c2] at hexp ⊢
  have hacc : errorIsAccurate F e ⟨M, E⟩ = true := by simpa using c2
  obtain ⟨d, hd, hde, lo, hi⟩ := hwin (acc_lt hacc)
  by_cases c3 : -E + 1 = 65
  · rw [if_pos c3, ext_zero h]
    have hE : E = -64 := by omega
    subst hE
    have hsum := acc_unpack64 h hacc
    refine (rne_zero_of_le h hv (small_value (t := 64) hi ?_ (by omega))).symm
    have : ((M + e : Nat) : ℚ) ≤ 18446744073709551616 := by
      have : M + e ≤ 18446744073709551616 := by omega
      exact_mod_cast this
    have hdq : (1 : ℚ) ≤ d := by exact_mod_cast hd
    rw [e64]; push_cast at this; linarith
  rw [if_neg c3]
  have hE : -63 ≤ E := by omega
  rw [C18_round_nearest h hM hM' hE]
  exact (accurate_rne h hM hM' hE hd hde hacc hv lo hi).symm

/-- **C11 (Bellerophon), full domain.**  For EVERY `Number` with a 64-bit significand, every integer
    decimal exponent and either flag — excluding only `(w = 0, truncated)` — a definite answer
    (non-negative exponent) of `bellerophon` is the correctly rounded value of every `v` the number
    denotes: `v = w·10^q`, or any `v ∈ [w·10^q, (w+1)·10^q]` when digits were truncated.  No `NumOK`:
    for small `w` with truncated digits the budget saturates and the stage declines. -/
theorem C11_bellerophon {F : FloatC} (c : Covered F) (n : Number) (hw64 : n.mantissa < 2 ^ 64)
    (hmany : n.manyDigits = true → 0 < n.mantissa)
    {fp : ExtFloat} (hb : bellerophon genBel F n = some fp) (hdef : 0 ≤ fp.exp)
    {v : Q} (hv : 0 < v.den)
    (hlo : Q.le (ofDec n.mantissa n.exponent) v)
    (hhi : if n.manyDigits then Q.le v (ofDec (n.mantissa + 1) n.exponent)
           else Q.eqv v (ofDec n.mantissa n.exponent)) :
    extendedToFloat F fp = rne F.fmt v := by
  have h := c.wf
  have hbias := c.bias_le
  -- the hypotheses in ℚ
  have v1 : (n.mantissa : ℚ) * (10:ℚ) ^ n.exponent ≤ v.toRat := by
    have := (Q.le_iff (ofDec_den_pos _ _) hv).1 hlo
    rwa [ofDec_toRat] at this
  have v2 : v.toRat ≤ ((n.mantissa : ℚ) + 1) * (10:ℚ) ^ n.exponent := by
    cases hm : n.manyDigits with
    | true =>
      rw [hm] at hhi
      have := (Q.le_iff hv (ofDec_den_pos _ _)).1 hhi
      rw [ofDec_toRat] at this
      push_cast at this; exact this
    | false =>
      rw [hm] at hhi
      have := (Q.eqv_iff hv (ofDec_den_pos _ _)).1 hhi
      rw [ofDec_toRat] at this
      rw [this]
      have : (0:ℚ) < (10:ℚ) ^ n.exponent := by positivity
      nlinarith
  have v3 : n.manyDigits = false → v.toRat = (n.mantissa : ℚ) * (10:ℚ) ^ n.exponent := by
    intro hm
    rw [hm] at hhi
    have := (Q.eqv_iff hv (ofDec_den_pos _ _)).1 hhi
    rwa [ofDec_toRat] at this
  have hp : (0:ℚ) < (10:ℚ) ^ n.exponent := by positivity
  have hw64q : (n.mantissa : ℚ) + 1 ≤ (2:ℚ) ^ (64 : Int) := by
    have : n.mantissa + 1 ≤ 2 ^ 64 := hw64
    have := (Nat.cast_le (α := ℚ)).2 this
    rw [show (64:ℤ) = ((64:ℕ):ℤ) from rfl, zpow_natCast]
    push_cast at this; exact this
  rcases bellerophon_cases F n with ⟨hz, hr⟩ | ⟨hw, hq, hr⟩ | ⟨hw, s, l, sFp, lFp, hs, hl, hq, hsf, hlf, hr⟩
  · -- zero return
    rw [hr] at hb; cases hb
    rw [ext_zero h]
    refine (rne_zero_of_le h hv ?_).symm
    have h0 : (0:ℚ) ≤ (2:ℚ) ^ (-F.exponentBias) := (two_zpow_pos _).le
    rcases hz with hw0 | hq
    · cases hm : n.manyDigits with
      | true => have := hmany hm; omega
      | false => rw [v3 hm, hw0]; simpa using h0
    · have hqle : (10:ℚ) ^ n.exponent ≤ (10:ℚ) ^ (-351 : Int) :=
        zpow_le_zpow_right₀ (by norm_num) hq
      calc v.toRat ≤ ((n.mantissa : ℚ) + 1) * (10:ℚ) ^ n.exponent := v2
        _ ≤ (2:ℚ) ^ (64 : Int) * (10:ℚ) ^ n.exponent := mul_le_mul_of_nonneg_right hw64q hp.le
        _ ≤ (2:ℚ) ^ (64 : Int) * (10:ℚ) ^ (-351 : Int) :=
            mul_le_mul_of_nonneg_left hqle (by positivity)
        _ ≤ (2:ℚ) ^ (-1100 : Int) := m351
        _ ≤ _ := zpow_le_zpow_right₀ (by norm_num) (by omega)
  · -- infinity return
    rw [hr] at hb; cases hb
    rw [ext_inf h]
    refine (rne_inf_of_ge h hv ?_).symm
    have hthr : (2:ℚ) ^ ((2:Int) ^ (F.ebits - 1)) ≤ (10:ℚ) ^ (310 : Int) :=
      le_trans (zpow_le_zpow_right₀ (by norm_num) c.emax) p310
    have hw1 : (1:ℚ) ≤ n.mantissa := by
      have : 1 ≤ n.mantissa := Nat.pos_of_ne_zero hw
      exact_mod_cast this
    have hqle : (10:ℚ) ^ (310 : Int) ≤ (10:ℚ) ^ n.exponent :=
      zpow_le_zpow_right₀ (by norm_num) hq
    calc _ ≤ (10:ℚ) ^ (310 : Int) := hthr
      _ ≤ 1 * (10:ℚ) ^ n.exponent := by rw [one_mul]; exact hqle
      _ ≤ (n.mantissa : ℚ) * (10:ℚ) ^ n.exponent := mul_le_mul_of_nonneg_right hw1 hp.le
      _ ≤ v.toRat := v1
  · -- main path
    rw [hr] at hb; cases hb
    obtain ⟨sFp', e1, s1, s2, s3, s4⟩ := small_entry hs
    obtain ⟨lFp', e2, l1, l2, l3, l4⟩ := large_entry hl
    rw [hsf] at e1; rw [hlf] at e2
    cases e1; cases e2
    have h10q : (10:ℚ) ^ n.exponent = (10:ℚ) ^ s * (10:ℚ) ^ ((l : Int) * 10 - 350) := by
      rw [hq, show (s : Int) + (l : Int) * 10 - 350 = (s : Int) + ((l : Int) * 10 - 350) by ring,
        zpow_add₀ (by norm_num), zpow_natCast]
    -- the number with the flag cleared: same estimate, small budget, window around `w·10^q`
    obtain ⟨M, E0, e, e', st, st'⟩ :=
      stage_irrel F F (n := n) (n' := ⟨n.exponent, n.mantissa, false⟩) rfl (10 ^ s) sFp lFp
    obtain ⟨b1, b2, -, -, -, b5, b6⟩ := stage_spec F (num := ⟨n.exponent, n.mantissa, false⟩)
      (s := s) (sFp := sFp) (lFp := lFp) (x := n.mantissa) (P := (10:ℚ) ^ ((l : Int) * 10 - 350))
      hw hw64 s1 s2 s3 s4 l1 l2 l3 l4 (le_refl _) (by linarith) (fun _ => rfl)
    have b5' := b5 (by intro hc; cases hc)
    clear b5
    rw [st'] at b1 b2 b5' b6
    dsimp only at b1 b2 b5' b6
    have hx0 : (n.mantissa : ℚ) * (10:ℚ) ^ s * (10:ℚ) ^ ((l : Int) * 10 - 350) =
        (n.mantissa : ℚ) * (10:ℚ) ^ n.exponent := by rw [h10q]; ring
    rw [hx0] at b6
    obtain ⟨d', d1', d2', lo', hi'⟩ : ∃ d : Nat, 1 ≤ d ∧ 4 * d ≤ e' ∧
        ((M : ℚ) - d) * (2:ℚ) ^ (E0 + F.exponentBias - F.exponentBias) ≤
          (n.mantissa : ℚ) * (10:ℚ) ^ n.exponent ∧
        (n.mantissa : ℚ) * (10:ℚ) ^ n.exponent ≤
          ((M : ℚ) + e' - d) * (2:ℚ) ^ (E0 + F.exponentBias - F.exponentBias) := by
      rcases b6 with hsat | hwin
      · unfold tooManyErrors at hsat; omega
      · exact hwin
    -- the window for `v`, when the budget of the real number did not saturate
    have hxv : v.toRat / (10:ℚ) ^ n.exponent * (10:ℚ) ^ s * (10:ℚ) ^ ((l : Int) * 10 - 350) = v.toRat := by
      rw [mul_assoc, ← h10q]; field_simp
    obtain ⟨-, -, -, -, -, -, a6⟩ := stage_spec F (num := n) (s := s) (sFp := sFp) (lFp := lFp)
      (x := v.toRat / (10:ℚ) ^ n.exponent) (P := (10:ℚ) ^ ((l : Int) * 10 - 350))
      hw hw64 s1 s2 s3 s4 l1 l2 l3 l4
      (by rw [le_div_iff₀ hp]; exact v1) (by rw [div_le_iff₀ hp]; exact v2)
      (by intro hm; rw [v3 hm]; field_simp)
    rw [hxv, st] at a6
    dsimp only at a6
    rw [st] at hdef ⊢
    dsimp only at hdef ⊢
    have hw1 : (1:ℚ) ≤ n.mantissa := by
      have : 1 ≤ n.mantissa := Nat.pos_of_ne_zero hw
      exact_mod_cast this
    have hqlo : (10:ℚ) ^ (-350 : Int) ≤ (10:ℚ) ^ n.exponent :=
      zpow_le_zpow_right₀ (by norm_num) (by omega)
    have hqhi : (10:ℚ) ^ n.exponent ≤ (10:ℚ) ^ (309 : Int) :=
      zpow_le_zpow_right₀ (by norm_num) (by omega)
    have r1 : (10:ℚ) ^ (-350 : Int) ≤ (n.mantissa : ℚ) * (10:ℚ) ^ n.exponent := by
      calc (10:ℚ) ^ (-350 : Int) ≤ 1 * (10:ℚ) ^ n.exponent := by rw [one_mul]; exact hqlo
        _ ≤ _ := mul_le_mul_of_nonneg_right hw1 hp.le
    have r2 : (n.mantissa : ℚ) * (10:ℚ) ^ n.exponent < (10:ℚ) ^ (329 : Int) := by
      have h20 : (2:ℚ) ^ (64 : Int) ≤ (10:ℚ) ^ (20 : Int) := by
        rw [show (64:ℤ) = ((64:ℕ):ℤ) from rfl, show (20:ℤ) = ((20:ℕ):ℤ) from rfl, zpow_natCast,
          zpow_natCast]; norm_num
      calc (n.mantissa : ℚ) * (10:ℚ) ^ n.exponent < (2:ℚ) ^ (64 : Int) * (10:ℚ) ^ n.exponent :=
            mul_lt_mul_of_pos_right (by linarith) hp
        _ ≤ (10:ℚ) ^ (20 : Int) * (10:ℚ) ^ (309 : Int) :=
            mul_le_mul h20 hqhi hp.le (by positivity)
        _ = (10:ℚ) ^ (329 : Int) := by rw [← zpow_add₀ (by norm_num)]; norm_num
    refine finish_sound_gen h hbias hv b1 b2 b5' d2' lo' hi' r1 r2 ?_ ?_ hdef
    · intro hlt
      rcases a6 with hsat | hwin
      · exact absurd hsat (Nat.not_le.2 hlt)
      · exact hwin
    · -- exponent ≤ −65: the whole interval is below half the smallest subnormal
      intro hE
      have hpj := two_zpow_pos (E0 + F.exponentBias - F.exponentBias)
      have hMq : (M : ℚ) + 612 ≤ 18446744073709551616 + 612 := by
        have : M ≤ 18446744073709551616 := by omega
        have := (Nat.cast_le (α := ℚ)).2 this
        push_cast at this; linarith
      have he'q : (e' : ℚ) ≤ 612 := by exact_mod_cast b5'
      have hd'q : (1 : ℚ) ≤ d' := by exact_mod_cast d1'
      have e65 : (2:ℚ) ^ (65 : Int) = 36893488147419103232 := by
        rw [show (65:ℤ) = ((65:ℕ):ℤ) from rfl, zpow_natCast]; norm_num
      -- v ≤ c · (M + e' − d') · 2^j with c · (M + e' − d') ≤ 2^65
      have key : ∃ cM : ℚ, v.toRat ≤ cM * (2:ℚ) ^ (E0 + F.exponentBias - F.exponentBias) ∧
          cM ≤ (2:ℚ) ^ (65 : Int) := by
        cases hm : n.manyDigits with
        | false =>
          refine ⟨(M : ℚ) + e' - d', by rw [v3 hm]; exact hi', ?_⟩
          rw [e65]; linarith
        | true =>
          by_cases hw2 : 2 ≤ n.mantissa
          · have hw2q : (2:ℚ) ≤ n.mantissa := by exact_mod_cast hw2
            refine ⟨3 / 2 * ((M : ℚ) + e' - d'), ?_, ?_⟩
            · have : v.toRat ≤ 3 / 2 * ((n.mantissa : ℚ) * (10:ℚ) ^ n.exponent) := by
                have : ((n.mantissa : ℚ) + 1) ≤ 3 / 2 * n.mantissa := by linarith
                have := mul_le_mul_of_nonneg_right this hp.le
                linarith
              have := mul_le_mul_of_nonneg_left hi' (show (0:ℚ) ≤ 3 / 2 by norm_num)
              linarith
            · rw [e65]; linarith
          · have hw1' : n.mantissa = 1 :=
              Nat.le_antisymm (Nat.le_of_lt_succ (Nat.lt_of_not_le hw2)) (Nat.pos_of_ne_zero hw)
            have hb := w1_mant_bound F hw1' hs hl hsf hlf
            rw [st] at hb
            dsimp only at hb
            have hbq : (M : ℚ) + 612 ≤ 18446744073709551616 := by
              have : M + 612 ≤ 18446744073709551616 := by omega
              exact_mod_cast this
            refine ⟨2 * ((M : ℚ) + e' - d'), ?_, ?_⟩
            · have : v.toRat ≤ 2 * ((n.mantissa : ℚ) * (10:ℚ) ^ n.exponent) := by
                rw [hw1'] at v2 ⊢
                push_cast at v2 ⊢
                linarith
              have := mul_le_mul_of_nonneg_left hi' (show (0:ℚ) ≤ 2 by norm_num)
              linarith
            · rw [e65]; linarith
      obtain ⟨cM, k1, k2⟩ := key
      calc v.toRat ≤ cM * (2:ℚ) ^ (E0 + F.exponentBias - F.exponentBias) := k1
        _ ≤ (2:ℚ) ^ (65 : Int) * (2:ℚ) ^ (E0 + F.exponentBias - F.exponentBias) :=
            mul_le_mul_of_nonneg_right k2 hpj.le
        _ = (2:ℚ) ^ (65 + (E0 + F.exponentBias - F.exponentBias)) :=
            (zpow_add₀ (by norm_num) _ _).symm
        _ ≤ (2:ℚ) ^ (-F.exponentBias) := zpow_le_zpow_right₀ (by norm_num) (by omega)


/-! ## Non-vacuity of the contracts on concrete inputs -/

-- a definite answer: `1e-5` exactly
example : bellerophon genBel Gen.F64 ⟨-5, 1, false⟩ = some ⟨1399358476216561, 1006⟩ := by
  decide +kernel
-- the same digits with `many_digits` (value anywhere in `[1e-5, 2e-5)`): declined after the fix
example : bellerophon genBel Gen.F64 ⟨-5, 1, true⟩ = some ⟨12089258196146291747, -31773⟩ := by
  decide +kernel
-- the input that exposed the truncated-digit defect (`1.438823743474650759779831e-306`): declined
example : bellerophon genBel Gen.F64 ⟨-306, 1438823743474650759, true⟩ =
    some ⟨16166022287007984844, -32713⟩ := by decide +kernel
-- `NumOK` holds for it, so `modEst_bellerophon` applies
example : NumOK ⟨-306, 1438823743474650759, true⟩ := by unfold NumOK; decide

end MinLex.BellerophonSound
