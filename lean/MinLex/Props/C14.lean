/-
  C14 — every power-of-ten / power-of-five constant equals its definition.
  `Gen.*` is regenerated from the compiled crate on every run; the kernel re-evaluates every
  table against the definitions below (`decide +kernel`: finite, exhaustive).
-/
import MinLex.Model.Env
namespace MinLex.C14
open MinLex

-- ------------------------------------------------------------------ definitions of the tables
def normUp : Nat → Nat → Nat
  | 0, n => n
  | f+1, n => if n < 2^127 then normUp f (n*2) else n
def normDown : Nat → Nat → Nat
  | 0, n => n
  | f+1, n => if n ≥ 2^128 then normDown f (n/2) else n
/-- ⌈log2 p⌉ -/
def bitlenCeil (p : Nat) : Nat := if 2^(Nat.log2 p) < p then Nat.log2 p + 1 else Nat.log2 p

/-- The 128-bit Eisel–Lemire significand for `5^q` as `etc/lemire_table.py` defines it:
    q ≥ 0: `5^q` normalised (truncated) to 128 bits; −27 ≤ q < 0: `⌊2^b / 5^-q⌋ + 1` with
    `b = ⌈log2 5^-q⌉ + 127`; q < −27: `⌊2^b / 5^-q⌋ + 1` with `b = 2⌈log2 5^-q⌉ + 128`, re-truncated
    to 128 bits. -/
def lemireEntry (q : Int) : Nat :=
  if q < 0 then
    let p := 5 ^ (-q).toNat
    let z := bitlenCeil p
    if q ≥ -27 then 2^(z+127) / p + 1
    else normDown 2000 (2^(2*z+128) / p + 1)
  else normDown 2000 (normUp 200 (5 ^ q.toNat))

/-- all rows of a (high, low) table equal `lemireEntry` from exponent `q` on -/
def lemireGo : List (Nat × Nat) → Int → Bool
  | [], _ => true
  | e :: es, q => (e.1 * 2^64 + e.2 == lemireEntry q) && decide (e.1 < 2^64) && decide (e.2 < 2^64) && lemireGo es (q+1)

def lemireCheck : Bool :=
  lemireGo Gen.powerOfFive128 Gen.smallestPowerOfFive && Gen.powerOfFive128.length == 651
    && Gen.smallestPowerOfFive == -342 && Gen.largestPowerOfFive == 308 && Gen.nPowersOfFive == 651

/-- entries of an integer power table from exponent `i` on -/
def powGo (base : Nat) : List Nat → Nat → Bool
  | [], _ => true
  | e :: es, i => (e == base ^ i) && powGo base es (i+1)

/-- float bit patterns: the first `n` entries are exactly `10^i` (bits = rne, and decode is exact),
    the rest is zero padding -/
def fpowGo (f : Fmt) (n : Nat) : List Nat → Nat → Bool
  | [], _ => true
  | e :: es, i =>
    (if i < n then
        (e == rne f ⟨10^i, 1⟩) && decide (e < f.infBits) &&
          (let d := decode f e; decide (Q.eqv (ofDyadic d.1 d.2) ⟨10^i, 1⟩))
      else e == 0) && fpowGo f n es (i+1)

/-- normalised (truncated) 64-bit significand of `num/den` and its binary exponent: the pair
    `(m, e)` with `2^63 ≤ m < 2^64`, `m = ⌊num / den / 2^e⌋` -/
def isTrunc64 (num den m : Nat) (e : Int) : Bool :=
  decide (2^63 ≤ m) && decide (m < 2^64) &&
  (if e ≥ 0 then decide (m * (den * 2^e.toNat) ≤ num) && decide (num < (m+1) * (den * 2^e.toNat))
   else decide (m * den ≤ num * 2^(-e).toNat) && decide (num * 2^(-e).toNat < (m+1) * den))

def pow10Q (k : Int) : Nat × Nat := if k ≥ 0 then (10^k.toNat, 1) else (1, 10^(-k).toNat)

/-- Bellerophon tables: `small[i]` / `large[i]` with the exponent the code derives from the
    `217706 >> 16` multiplier are the truncated normalised `10^i` / `10^(step*i - bias)` -/
def belSmallGo (T : BelTables) : Nat → Nat → Bool
  | 0, _ => true
  | n+1, i =>
    (match T.getSmall i with
     | some fp => let p := pow10Q i; isTrunc64 p.1 p.2 fp.mant fp.exp
     | none => false) && belSmallGo T n (i+1)

def belLargeGo (T : BelTables) : Nat → Nat → Bool
  | 0, _ => true
  | n+1, i =>
    (match T.getLarge i with
     | some fp => let p := pow10Q ((i : Int) * T.step - T.bias); isTrunc64 p.1 p.2 fp.mant fp.exp
     | none => false) && belLargeGo T n (i+1)

def belCheck : Bool :=
  Gen.belSmall.length == 10 && Gen.belLarge.length == 66 && Gen.belSmallInt.length == 10 &&
  Gen.belStep == 10 && Gen.belBias == 350 &&
  belSmallGo genBel 10 0 && belLargeGo genBel 66 0 && powGo 10 Gen.belSmallInt 0 &&
  -- the exponents the compiled crate returned are the ones the model computes
  (List.range 10).all (fun i => (genBel.getSmall i).map (·.exp) == Gen.belSmallExp[i]?) &&
  (List.range 66).all (fun i => (genBel.getLarge i).map (·.exp) == Gen.belLargeExp[i]?)

-- ------------------------------------------------------------------ the theorems (kernel evaluation)
/-- all 651 Eisel–Lemire rows -/
theorem lemire_table : lemireCheck = true := by decide +kernel

/-- `SMALL_INT_POW5[i] = 5^i` (28 entries), `SMALL_INT_POW10[i] = 10^i` (20 entries) -/
theorem small_int_pow5 : (powGo 5 Gen.smallIntPow5 0 && Gen.smallIntPow5.length == 28) = true := by decide +kernel
theorem small_int_pow10 : (powGo 10 Gen.smallIntPow10 0 && Gen.smallIntPow10.length == 20) = true := by decide +kernel

/-- float tables: exact powers of ten, then zero padding -/
theorem small_f64_pow10 : (fpowGo Fmt.f64 23 Gen.smallF64Pow10 0 && Gen.smallF64Pow10.length == 32) = true := by
  decide +kernel
theorem small_f32_pow10 : (fpowGo Fmt.f32 11 Gen.smallF32Pow10 0 && Gen.smallF32Pow10.length == 16) = true := by
  decide +kernel

/-- `LARGE_POW5 = 5^135` as limbs, step 135 -/
theorem large_pow5 : (toNat Gen.largePow5 == 5^135 && allLtB Gen.largePow5 && Gen.largePow5Step == 135
    && Gen.largePow5.length == 5) = true := by decide +kernel

/-- Bellerophon: 10 + 66 significands with their exponents, and the 10 integer powers -/
theorem bellerophon_tables : belCheck = true := by decide +kernel

/-- on-demand powers of the compact builds (std `powf`, bundled libm) and what the table builds
    return from `pow_fast_path`: `10^k` exactly, k ≤ 22 / k ≤ 10 (34 values per configuration) -/
theorem pow_fast_path_values :
    (fpowGo Fmt.f64 23 Gen.compactStdPowFastPath64 0 && Gen.compactStdPowFastPath64.length == 23 &&
     fpowGo Fmt.f32 11 Gen.compactStdPowFastPath32 0 && Gen.compactStdPowFastPath32.length == 11 &&
     fpowGo Fmt.f64 23 Gen.compactLibmPowFastPath64 0 && Gen.compactLibmPowFastPath64.length == 23 &&
     fpowGo Fmt.f32 11 Gen.compactLibmPowFastPath32 0 && Gen.compactLibmPowFastPath32.length == 11 &&
     fpowGo Fmt.f64 23 Gen.tablePowFastPath64 0 && Gen.tablePowFastPath64.length == 23 &&
     fpowGo Fmt.f32 11 Gen.tablePowFastPath32 0 && Gen.tablePowFastPath32.length == 11) = true := by
  decide +kernel

/-- `u64::pow` used by the compact builds cannot wrap on the exponents the crate uses -/
theorem compact_int_pow_no_wrap : (10^19 < B ∧ 5^27 < B) := by decide

-- ------------------------------------------------------------------ lifting: ∀-form of the table facts
theorem lemireGo_get : ∀ (l : List (Nat × Nat)) (q : Int), lemireGo l q = true →
    ∀ (i : Nat) (h : i < l.length), (l[i]).1 * 2^64 + (l[i]).2 = lemireEntry (q + i) ∧ (l[i]).1 < 2^64 ∧ (l[i]).2 < 2^64
  | [], _, _, i, h => by simp at h
  | e :: es, q, hgo, i, h => by
    simp only [lemireGo, Bool.and_eq_true, beq_iff_eq, decide_eq_true_eq] at hgo
    cases i with
    | zero => simpa using ⟨hgo.1.1.1, hgo.1.1.2, hgo.1.2⟩
    | succ j =>
      have := lemireGo_get es (q+1) hgo.2 j (by simpa using h)
      simp only [List.getElem_cons_succ]
      have e1 : q + ((j + 1 : Nat) : Int) = q + 1 + (j : Int) := by omega
      rw [e1]; exact this

/-- C14 for the Eisel–Lemire table, in ∀-form: row `i` is the definition at `q = i − 342`. -/
theorem C14_lemire (i : Nat) (h : i < Gen.powerOfFive128.length) :
    (Gen.powerOfFive128[i]).1 * 2^64 + (Gen.powerOfFive128[i]).2 = lemireEntry (Gen.smallestPowerOfFive + i) := by
  have hc := lemire_table
  simp only [lemireCheck, Bool.and_eq_true] at hc
  exact (lemireGo_get _ _ hc.1.1.1.1 i h).1

theorem powGo_get (base : Nat) : ∀ (l : List Nat) (s : Nat), powGo base l s = true →
    ∀ (i : Nat) (h : i < l.length), l[i] = base ^ (s + i)
  | [], _, _, i, h => by simp at h
  | e :: es, s, hgo, i, h => by
    simp only [powGo, Bool.and_eq_true, beq_iff_eq] at hgo
    cases i with
    | zero => simpa using hgo.1
    | succ j =>
      have := powGo_get base es (s+1) hgo.2 j (by simpa using h)
      simp only [List.getElem_cons_succ]
      rw [this]; congr 1; omega

theorem C14_small_int_pow5 (i : Nat) (h : i < Gen.smallIntPow5.length) : Gen.smallIntPow5[i] = 5 ^ i := by
  have hc := small_int_pow5
  simp only [Bool.and_eq_true] at hc
  simpa using powGo_get 5 _ 0 hc.1 i h

theorem C14_small_int_pow10 (i : Nat) (h : i < Gen.smallIntPow10.length) : Gen.smallIntPow10[i] = 10 ^ i := by
  have hc := small_int_pow10
  simp only [Bool.and_eq_true] at hc
  simpa using powGo_get 10 _ 0 hc.1 i h

theorem C14_large_pow5 : toNat Gen.largePow5 = 5^135 ∧ Gen.largePow5Step = 135 := by
  have hc := large_pow5
  simp only [Bool.and_eq_true, beq_iff_eq] at hc
  exact ⟨hc.1.1.1, hc.1.2⟩

/-- non-vacuity: the definition reproduces three well-known rows -/
example : lemireEntry 0 = 2^127 ∧ lemireEntry (-342) = 0xeef453d6923bd65a113faa2906a13b3f
    ∧ lemireEntry 308 = 0x8e679c2f5e44ff8f570f09eaa7ea7648 := by decide +kernel

end MinLex.C14
