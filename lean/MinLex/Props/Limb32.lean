/-
  The 32-bit-limb build (`Limb = u32`, every target that is not x86_64 / aarch64 / …) is correctly
  rounded: `W.parseFloat 32` — `parse_float` with the big-integer stage of `MinLex/Model/BigintW.lean`
  at limb width 32 (125-limb stack vectors, 9-digit chunks, `hi64` over three limbs, `5^13` steps,
  the 10-limb `LARGE_POW5`) — returns the IEEE round-to-nearest-even of the exact decimal value on
  every valid input, in all eight feature configurations and for both formats.

  Route: on valid input the 32-bit-limb build returns exactly what the 64-bit-limb build returns
  (`parseFloat32_eq`), because only the `slow` call differs and there both big-integer libraries
  are exact (`Proofs/SlowW.lean`); then `Final.MAIN_all`.  Also: the parametric model at `w = 64` is
  the 64-bit model (`Proofs/W64.lean`).
-/
import MinLex.Proofs.SlowW
import MinLex.Proofs.W64
import MinLex.Props.Limb32Ops
import MinLex.Props.Final
namespace MinLex.Limb32
open MinLex MinLex.Main MinLex.W

-- ================================================================ the parametric model at w = 64
/-- the limb-width-parametric model instantiated at 64 bits is the 64-bit model -/
theorem parseFloat_w64 (cfg : Cfg) : W.parseFloat 64 (genEnv cfg) = parseFloat (genEnv cfg) :=
  W.At64.parseFloat64 cfg

theorem MAIN64_W (cfg : Cfg) {F : FloatC} (hF : F = Gen.F32 ∨ F = Gen.F64) :
    ∀ int frac e, Valid int frac e →
      W.parseFloat 64 (genEnv cfg) F int frac e = .ok (rne F.fmt (digitsValue int frac e)) := by
  rw [parseFloat_w64]; exact Final.MAIN_all cfg hF

-- ================================================================ the 32-bit slow path
theorem stackLimbs32 : W.stackLimbs 32 = 125 := by decide

/-- the back-ends of the two builds: heap / heap, or 62 × 64 bits ≤ 125 × 32 bits -/
theorem caps_env (cfg : Cfg) : SP.Caps (genEnv cfg).cap (W.capW 32 cfg.alloc) := by
  unfold Env.cap W.capW genEnv
  rw [stackLimbs32]
  cases cfg.alloc
  · exact SP.caps_stack
  · exact SP.caps_heap

/-- 124 32-bit limbs hold every parsed significand (`10^(MAX_DIGITS+1) ≤ 2^3968`) -/
theorem capRoom_env (cfg : Cfg) {F : FloatC} (hF : F = Gen.F32 ∨ F = Gen.F64) :
    SP.CapRoomW (W.capW 32 cfg.alloc) (10 ^ (F.maxDigits + 1)) := by
  unfold W.capW
  rw [stackLimbs32]
  cases cfg.alloc
  · apply SP.capRoomW_some (by decide)
    rw [SP.Bw32]
    rcases hF with rfl | rfl <;> decide +kernel
  · exact SP.capRoomW_none _

/-- the stage contract `Main.Hyps.slow` for the 32-bit-limb big-integer path, every configuration -/
theorem slow32_correct (O : SP.OpsOK) (cfg : Cfg) {F : FloatC} (hF : F = Gen.F32 ∨ F = Gen.F64) :
    ∀ int frac e fp, Valid int frac e →
      (parseNumber int frac e).mantissa ≠ 0 → -400 ≤ (parseNumber int frac e).exponent →
      (parseNumber int frac e).exponent ≤ 400 → EstOK F fp (digitsValue int frac e) →
      ∃ r, W.slow 32 (W.capW 32 cfg.alloc) (W.genPowW 32 cfg.compact) F (parseNumber int frac e) fp
            int frac = some r ∧
        extendedToFloat F r = rne F.fmt (digitsValue int frac e) := by
  intro int frac e fp hv hm0 hlo hhi hest
  obtain ⟨r, hr, hbits⟩ := SlowPath.slow_correct_range400 cfg hF int frac e fp hv hm0 hlo hhi hest
  have hok : SlowPath.SlowFmtOK F := by
    rcases hF with rfl | rfl
    · exact SlowPath.slowFmtOK_f32
    · exact SlowPath.slowFmtOK_f64
  refine ⟨r, ?_, hbits⟩
  exact SP.slow_lock O (caps_env cfg) cfg.compact hok.md1 hok.md2 (capRoom_env cfg hF) hv hm0
    (by omega) (by omega) fp hr

/-- all stage contracts of the 64-bit model, every configuration -/
theorem hyps_all (cfg : Cfg) {F : FloatC} (hF : F = Gen.F32 ∨ F = Gen.F64) : Hyps (genEnv cfg) F := by
  cases hc : cfg.compact with
  | false => exact Compose.hyps_noncompact cfg hc hF
  | true =>
    rcases hF with rfl | rfl
    · exact Compose.hyps_compact cfg hc (Or.inl rfl) BellerophonSound.openCompact_f32
    · exact Compose.hyps_compact cfg hc (Or.inr rfl) BellerophonSound.openCompact_f64

/-- On valid input the 32-bit-limb build returns exactly what the 64-bit-limb build returns. -/
theorem parseFloat32_eq_partial (O : SP.OpsOK) (cfg : Cfg) {F : FloatC} (hF : F = Gen.F32 ∨ F = Gen.F64)
    (int frac : List UInt8) (e : Int) (hv : Valid int frac e) :
    W.parseFloat 32 (genEnv cfg) F int frac e = parseFloat (genEnv cfg) F int frac e := by
  have h := hyps_all cfg hF
  obtain ⟨hd, hok⟩ := h.pn int frac e hv
  unfold W.parseFloat parseFloat
  simp only []
  cases hfp : tryFastPath F ((genEnv cfg).powFastPath F)
      (intPow10 (genEnv cfg).cfg.compact (genEnv cfg).pow.smallIntPow10) (parseNumber int frac e) with
  | some b => rfl
  | none =>
    simp only []
    obtain ⟨fp, hmp⟩ := h.modTotal _ hok
    rw [hmp]
    simp only []
    by_cases hneg : fp.exp < 0
    · rw [if_pos hneg, if_pos hneg]
      have hest := h.modEst _ _ fp hd hok hmp hneg
      obtain ⟨hm0, hlo, hhi⟩ := h.modRange _ fp hok hmp hneg
      obtain ⟨r, hr, _⟩ := h.slow int frac e _ hv hm0 hlo hhi hest
      obtain ⟨r', hr', _⟩ := slow32_correct O cfg hF int frac e _ hv hm0 hlo hhi hest
      have hok' : SlowPath.SlowFmtOK F := by
        rcases hF with rfl | rfl
        · exact SlowPath.slowFmtOK_f32
        · exact SlowPath.slowFmtOK_f64
      have hr2 := SP.slow_lock O (caps_env cfg) cfg.compact hok'.md1 hok'.md2 (capRoom_env cfg hF) hv
        hm0 (by omega) (by omega) _ hr
      show (match W.slow 32 (W.capW 32 cfg.alloc) (W.genPowW 32 cfg.compact) F _ _ int frac with
        | none => Outcome.panic | some fp' => Outcome.ok (extendedToFloat F fp')) =
        (match slow (genEnv cfg).cap (genEnv cfg).pow F _ _ int frac with
        | none => Outcome.panic | some fp' => Outcome.ok (extendedToFloat F fp'))
      rw [hr2, hr]
    · rw [if_neg hneg, if_neg hneg]

/-- **MAIN32, relative to the operation facts**: if the 32-bit big-integer operations are exact
    (`SP.OpsOK`), the 32-bit-limb build is correctly rounded on every valid input, in all eight
    configurations, for f32 and f64. -/
theorem MAIN32_partial (O : SP.OpsOK) (cfg : Cfg) {F : FloatC} (hF : F = Gen.F32 ∨ F = Gen.F64) :
    ∀ int frac e, Valid int frac e →
      W.parseFloat 32 (genEnv cfg) F int frac e = .ok (rne F.fmt (digitsValue int frac e)) := by
  intro int frac e hv
  rw [parseFloat32_eq_partial O cfg hF int frac e hv]
  exact Final.MAIN_all cfg hF int frac e hv

-- ================================================================ discharging the operation facts
/-- the operation facts hold: every field is one of the property theorems of
    `MinLex/Props/Limb32Ops.lean` (`MinLex.W.Ops`, the 32-bit analogue of C12) at `w = 32` -/
theorem opsOK : SP.OpsOK where
  smallMul_exact := fun hx hy hc h => Ops.smallMul_exact hx hy hc h
  smallMul_complete := fun h => Ops.smallMul_complete h
  smallMul_norm := fun _ _ hn hy0 h => (Ops.smallMul_normalized hn hy0 h).1
  smallAdd_exact := fun hx hy hc h => Ops.smallAdd_exact hx hy hc h
  smallAdd_complete := fun hx hy h => Ops.smallAdd_complete hx hy h
  smallAdd_norm := fun hx hy hc hn h => Ops.smallAdd_normalized hx hy hc hn h
  fromU64_exact := fun hv => Ops.fromU64_exact hv
  bigintPow_exact := fun compact _ _ _ _ _ hb hx h0 hc h =>
    Ops.bigintPow_exact_partial (Or.inl rfl) (fun _ => Ops.genPowW_tablesOK compact) hb hx h0 hc h
  bigintPow_fits := fun compact _ _ _ _ hb hx hn hx0 hc hlt =>
    (Ops.bigintPow_some_iff_fits (Or.inl rfl) (fun _ => Ops.genPowW_tablesOK compact) hb hx hn hx0
      hc).mpr hlt
  bigintPow_heap := fun T x base e => (Ops.heap_total 32 T x [] 0 e base).2.2.2.2.2.2.2.2.2.2.2
  bigintPow_norm := fun compact _ _ _ _ _ hb hx hn hx0 hc h =>
    (Ops.bigintPow_normalized (Or.inl rfl) (fun _ => Ops.genPowW_tablesOK compact) hb hx hn hx0 hc
      h).1
  bigCompare_exact := fun hx hy nx ny => Ops.bigCompare_exact hx hy nx ny
  bitLength_exact := fun hx hn hne => Ops.bitLength_exact hx hn hne
  hi64_exact := fun hx hn hne => Ops.hi64_exact hx hn hne

-- ================================================================ the headline theorems
/-- On every valid input the 32-bit-limb build returns exactly what the 64-bit-limb build returns
    (the limb width is unobservable), in every configuration. -/
theorem parseFloat32_eq (cfg : Cfg) {F : FloatC} (hF : F = Gen.F32 ∨ F = Gen.F64)
    (int frac : List UInt8) (e : Int) (hv : Valid int frac e) :
    W.parseFloat 32 (genEnv cfg) F int frac e = parseFloat (genEnv cfg) F int frac e :=
  parseFloat32_eq_partial opsOK cfg hF int frac e hv

/-- **MAIN32**: the 32-bit-limb build is correctly rounded — for every configuration
    (std × compact × alloc), f32 and f64, and every valid input, `parse_float` compiled with
    `Limb = u32` returns the IEEE round-to-nearest-even of the exact decimal value.  No hypotheses. -/
theorem MAIN32 (cfg : Cfg) {F : FloatC} (hF : F = Gen.F32 ∨ F = Gen.F64) :
    ∀ int frac e, Valid int frac e →
      W.parseFloat 32 (genEnv cfg) F int frac e = .ok (rne F.fmt (digitsValue int frac e)) :=
  MAIN32_partial opsOK cfg hF

/-- the same in the shape of `Main.ParseCorrect` -/
def ParseCorrect32 (E : Env) (F : FloatC) : Prop :=
  ∀ int frac e, Valid int frac e →
    W.parseFloat 32 E F int frac e = .ok (rne F.fmt (digitsValue int frac e))

theorem MAIN32_all (cfg : Cfg) {F : FloatC} (hF : F = Gen.F32 ∨ F = Gen.F64) :
    ParseCorrect32 (genEnv cfg) F := MAIN32 cfg hF

/-- the slow-path stage contract for 32-bit limbs, no hypotheses -/
theorem slow32_correct_range400 (cfg : Cfg) {F : FloatC} (hF : F = Gen.F32 ∨ F = Gen.F64) :
    ∀ int frac e fp, Valid int frac e →
      (parseNumber int frac e).mantissa ≠ 0 → -400 ≤ (parseNumber int frac e).exponent →
      (parseNumber int frac e).exponent ≤ 400 → EstOK F fp (digitsValue int frac e) →
      ∃ r, W.slow 32 (W.capW 32 cfg.alloc) (W.genPowW 32 cfg.compact) F (parseNumber int frac e) fp
            int frac = some r ∧
        extendedToFloat F r = rne F.fmt (digitsValue int frac e) :=
  slow32_correct opsOK cfg hF

/-- valid input never panics on a 32-bit-limb build (no 125-limb stack vector overflows) -/
theorem no_panic32 (cfg : Cfg) {F : FloatC} (hF : F = Gen.F32 ∨ F = Gen.F64)
    (int frac : List UInt8) (e : Int) (hv : Valid int frac e) :
    W.parseFloat 32 (genEnv cfg) F int frac e ≠ .panic := by
  rw [MAIN32 cfg hF int frac e hv]
  exact fun h => nomatch h

/-- all sixteen builds (8 configurations × 2 limb widths) return bit-identical results -/
theorem builds_agree (cfg cfg' : Cfg) {F : FloatC} (hF : F = Gen.F32 ∨ F = Gen.F64)
    (int frac : List UInt8) (e : Int) (hv : Valid int frac e) :
    W.parseFloat 32 (genEnv cfg) F int frac e = parseFloat (genEnv cfg') F int frac e := by
  rw [MAIN32 cfg hF int frac e hv, Final.MAIN_all cfg' hF int frac e hv]

-- ---------------------------------------------------------------- non-vacuity
-- a valid input that reaches the big-integer stage (the compact + no_std + stack configuration on
-- the input that exposed the repaired Bellerophon defect), evaluated on the 32-bit-limb model …
example : Valid [49]
    [49, 52, 51, 56, 56, 50, 51, 55, 52, 51, 52, 55, 52, 54, 53, 48, 55, 53, 57, 55, 55, 57, 56, 51, 49] (-306) := by
  decide
example : (moderatePath (genEnv ⟨true, false, false⟩) Gen.F64 (parseNumber [49]
    [49, 52, 51, 56, 56, 50, 51, 55, 52, 51, 52, 55, 52, 54, 53, 48, 55, 53, 57, 55, 55, 57, 56, 51, 49]
    (-306))).map (fun fp => decide (fp.exp < 0)) = some true := by decide +kernel
example : W.parseFloat 32 (genEnv ⟨true, false, false⟩) Gen.F64 [49]
    [49, 52, 51, 56, 56, 50, 51, 55, 52, 51, 52, 55, 52, 54, 53, 48, 55, 53, 57, 55, 55, 57, 56, 51, 49] (-306)
    = .ok 0x0069b45180dec9d1 := by decide +kernel
-- … and through the theorem
example : W.parseFloat 32 (genEnv ⟨true, false, false⟩) Gen.F64 [49]
    [49, 52, 51, 56, 56, 50, 51, 55, 52, 51, 52, 55, 52, 54, 53, 48, 55, 53, 57, 55, 55, 57, 56, 51, 49] (-306)
    = .ok 0x0069b45180dec9d1 := by
  rw [MAIN32 ⟨true, false, false⟩ (Or.inr rfl) _ _ _ (by decide)]
  decide +kernel
-- the 32-bit slow path on "0.1" with the estimate used in `Props/SlowPath.lean`
example : (W.slow 32 (W.capW 32 false) (W.genPowW 32 false) Gen.F64
    (parseNumber [] [49] 0) ⟨0xCCCCCCCCCCCCCCCC, 1008⟩ [] [49]).map (extendedToFloat Gen.F64)
    = some 0x3FB999999999999A := by decide +kernel
-- the hypotheses of the lock-step lemmas are satisfiable: 5 = [5] in both limb widths
example : SP.Rel (some 62) (some 125) [5] [5] :=
  ⟨by decide, by decide, by decide, by decide, by decide, by decide, by decide, by decide⟩
-- 2^40 is one 64-bit limb but two 32-bit limbs
example : SP.Rel (some 62) (some 125) [1099511627776] [0, 256] :=
  ⟨by decide, by decide, by decide, by decide, by decide, by decide, by decide, by decide⟩

end MinLex.Limb32
