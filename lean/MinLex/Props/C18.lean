/-
  C18 — the shift-and-round primitive (`mask.rs`, `rounding.rs`) against the spec `rne` / `rneTrunc`.

  Main results (generic in a well-formed constant record `F`, then instantiated for `Gen.F32/F64`):
  * `C18_lowerNMask`, `C18_lowerNHalfway`, `C18_nthBit`                                     (f)
  * `C18_roundNearestTieEven`, `C18_roundDown`                                               (g)
  * `C18_round_nearest` : `round` + nearest-even callback + `extended_to_float` = `rne`     (h)
  * `C18_round_down`    : `round` + `round_down` + `extended_to_float` = `rneTrunc`         (i)
  * `C18_f64_exp_m64_outside_contract` : at `exp = -64` the nearest-even variant is wrong    (j)
  * `C18_round_decision` : arbitrary callback decision `d` gives `rneTrunc + d` (saturated)  (k)
-/
import MinLex.Props.C17
namespace MinLex
open Bits

/-! ## (f) masks -/

theorem C18_lowerNMask {n : Nat} (hn : n ≤ 64) : lowerNMask n = 2 ^ n - 1 := by
  unfold lowerNMask u64Max u64Mod
  by_cases h : n = 64
  · subst h; decide
  · have h1 : n % 64 = n := Nat.mod_eq_of_lt (by omega)
    have h2 : 2 ^ n < 2 ^ 64 := Nat.pow_lt_pow_right (by decide) (by omega)
    simp only [h, if_false, h1]
    rw [Nat.mod_eq_of_lt (by omega)]

theorem C18_nthBit {n : Nat} (hn : n < 64) : nthBit n = 2 ^ n := by
  unfold nthBit u64Mod
  have h2 : 2 ^ n < 2 ^ 64 := Nat.pow_lt_pow_right (by decide) hn
  rw [Nat.mod_eq_of_lt hn, Nat.mod_eq_of_lt (by omega)]

theorem C18_lowerNHalfway {n : Nat} (h1 : 1 ≤ n) (hn : n ≤ 64) : lowerNHalfway n = 2 ^ (n - 1) := by
  unfold lowerNHalfway
  have : n ≠ 0 := by omega
  simp only [this, if_false]
  exact C18_nthBit (by omega)

theorem C18_lowerNHalfway_zero : lowerNHalfway 0 = 0 := rfl

/-! ## (g) one shift-and-round step -/

/-- `round_nearest_tie_even` with an arbitrary callback: quotient plus the callback's decision on
    (is_odd, is_halfway, is_above) computed from quotient and remainder. -/
theorem roundNearestTieEven_eq (cb : RoundCb) {mant s : Nat} (e : Int) (hs1 : 1 ≤ s) (hs : s ≤ 64)
    (hm : mant < 2 ^ 64) :
    roundNearestTieEven cb ⟨mant, e⟩ s =
      ⟨mant / 2 ^ s + (if cb (mant / 2 ^ s % 2 == 1) (mant % 2 ^ s == 2 ^ (s - 1))
          (decide (mant % 2 ^ s > 2 ^ (s - 1))) then 1 else 0), e + s⟩ := by
  unfold roundNearestTieEven
  simp only [C18_lowerNMask hs, C18_lowerNHalfway hs1 hs, and_lowMask, shr_eq_div]
  have hq : (if s = 64 then 0 else mant / 2 ^ s) = mant / 2 ^ s := by
    split
    · next h => subst h; exact (Nat.div_eq_of_lt hm).symm
    · rfl
  rw [hq]

/-- `rhe` is invariant under scaling numerator and denominator -/
theorem rhe_mul_right (A B : Nat) {C : Nat} (hC : 0 < C) : rhe (A * C) (B * C) = rhe A B := by
  unfold rhe
  simp only [Nat.mul_div_mul_right _ _ hC, Nat.mul_mod_mul_right]
  have e1 : 2 * (A % B * C) = (2 * (A % B)) * C := by ring
  simp only [e1, gt_iff_lt, Nat.mul_lt_mul_right hC, Nat.mul_right_cancel_iff hC]

theorem rhe_ge (A B : Nat) : A / B ≤ rhe A B := by
  unfold rhe; simp only; split <;> omega

theorem rhe_le (A B : Nat) : rhe A B ≤ A / B + 1 := by
  unfold rhe; simp only; split <;> omega

/-- (g) with the nearest-even callback the step is round-half-even of `mant / 2^s`.
    (`s = 0` is excluded: the code then sees `truncated = halfway = 0` and rounds odd values up,
    see `C18_shift_zero_quirk`; `round` never calls it with `s < 2`.) -/
theorem C18_roundNearestTieEven {mant s : Nat} (e : Int) (hs1 : 1 ≤ s) (hs : s ≤ 64)
    (hm : mant < 2 ^ 64) :
    roundNearestTieEven cbNearestEven ⟨mant, e⟩ s = ⟨rhe mant (2 ^ s), e + s⟩ := by
  rw [roundNearestTieEven_eq _ e hs1 hs hm]
  congr 1
  unfold rhe cbNearestEven
  have hp : 2 ^ s = 2 * 2 ^ (s - 1) := by
    rw [Nat.mul_comm, ← Nat.pow_succ]; congr 1; omega
  generalize hH : 2 ^ (s - 1) = H at hp
  rw [hp]
  generalize mant / (2 * H) = q
  generalize mant % (2 * H) = r
  simp only [Bool.or_eq_true, Bool.and_eq_true, decide_eq_true_eq, beq_iff_eq]
  by_cases h1 : r > H
  · have : 2 * r > 2 * H := by omega
    simp [h1, this]
  · by_cases h2 : r = H
    · subst h2
      by_cases h3 : q % 2 = 1 <;> simp [h3]
    · have a : ¬ 2 * r > 2 * H := by omega
      have b : ¬ 2 * r = 2 * H := by omega
      simp [h1, h2, a, b]

/-- shift 0 with the nearest-even callback rounds an odd significand *up* (never used by `round`). -/
theorem C18_shift_zero_quirk :
    roundNearestTieEven cbNearestEven ⟨3, 0⟩ 0 = ⟨4, 0⟩ ∧ rhe 3 (2 ^ 0) = 3 := by decide

/-- (g) truncating step -/
theorem C18_roundDown {mant s : Nat} (e : Int) (hs : s ≤ 64) (hm : mant < 2 ^ 64) :
    roundDown ⟨mant, e⟩ s = ⟨mant / 2 ^ s, e + s⟩ := by
  unfold roundDown
  congr 1
  by_cases h : s = 64
  · subst h; simp only [if_true]; exact (Nat.div_eq_of_lt hm).symm
  · simp only [h, if_false, shr_eq_div, Nat.mod_eq_of_lt (show s < 64 by omega)]

/-! ## Spec side: `rne` / `rneTrunc` of `mant · 2^j` with a normalised 64-bit `mant` -/

theorem geP2_natCast (N D n : Nat) : geP2 N D (n : Int) = decide (N ≥ D * 2 ^ n) := by
  unfold geP2
  have : (n : Int) ≥ 0 := Int.natCast_nonneg n
  simp only [this, if_true, Int.toNat_natCast]

theorem geP2_neg_natCast (N D : Nat) {n : Nat} (hn : 0 < n) :
    geP2 N D (-(n : Int)) = decide (N * 2 ^ n ≥ D) := by
  unfold geP2
  have : ¬ (-(n : Int)) ≥ 0 := by omega
  simp only [this, if_false, Int.neg_neg, Int.toNat_natCast]

theorem flog2_eq {N D : Nat} {a : Int} (ha : (Nat.log2 N : Int) - (Nat.log2 D : Int) = a)
    (h1 : geP2 N D (a + 1) = false) (h2 : geP2 N D a = true) : flog2 N D = a := by
  unfold flog2
  simp only [ha, h1, h2, if_true, Bool.false_eq_true, if_false]

theorem pow_split {a b c : Nat} (h : a = b + c) : 2 ^ a = 2 ^ b * 2 ^ c := by
  rw [h, Nat.pow_add]

/-- `⌊log2 (mant · 2^j)⌋ = 63 + j` -/
theorem flog2_ofDyadic {mant : Nat} (hm : 2 ^ 63 ≤ mant) (hm' : mant < 2 ^ 64) (j : Int) :
    flog2 (ofDyadic mant j).num (ofDyadic mant j).den = 63 + j := by
  unfold ofDyadic
  by_cases hj : j ≥ 0
  · obtain ⟨n, rfl⟩ := Int.eq_ofNat_of_zero_le hj
    simp only [hj, if_true, Int.toNat_natCast]
    have hp := Nat.two_pow_pos n
    have lo : 2 ^ (63 + n) ≤ mant * 2 ^ n := by
      rw [Nat.pow_add]; exact Nat.mul_le_mul_right _ hm
    have hi : mant * 2 ^ n < 2 ^ (63 + n + 1) := by
      rw [pow_split (show 63 + n + 1 = 64 + n by omega)]; exact Nat.mul_lt_mul_of_pos_right hm' hp
    have hN : mant * 2 ^ n ≠ 0 := by
      have := Nat.two_pow_pos (63 + n); omega
    have hlog : Nat.log2 (mant * 2 ^ n) = 63 + n := (Nat.log2_eq_iff hN).mpr ⟨lo, hi⟩
    have hlog1 : Nat.log2 1 = 0 := (Nat.log2_eq_iff (by decide)).mpr ⟨by decide, by decide⟩
    apply flog2_eq
    · rw [hlog, hlog1]; omega
    · rw [show (63 + (n : Int) + 1) = ((63 + n + 1 : Nat) : Int) by omega, geP2_natCast]
      simp only [Nat.one_mul, decide_eq_false_iff_not]; omega
    · rw [show (63 + (n : Int)) = ((63 + n : Nat) : Int) by omega, geP2_natCast]
      simp only [Nat.one_mul, decide_eq_true_eq]; omega
  · obtain ⟨n, hn⟩ := Int.eq_ofNat_of_zero_le (show 0 ≤ -j by omega)
    have hjn : j = -(n : Int) := by omega
    subst hjn
    have hn0 : 0 < n := by omega
    simp only [hj, if_false, Int.neg_neg, Int.toNat_natCast]
    have hN : mant ≠ 0 := by omega
    have hlog : Nat.log2 mant = 63 := (Nat.log2_eq_iff hN).mpr ⟨hm, hm'⟩
    apply flog2_eq
    · rw [hlog, Nat.log2_two_pow]; omega
    · by_cases hc : n ≤ 64
      · rw [show (63 + -(n : Int) + 1) = ((64 - n : Nat) : Int) by omega, geP2_natCast,
          ← pow_split (show 64 = n + (64 - n) by omega)]
        simp only [decide_eq_false_iff_not]; omega
      · rw [show (63 + -(n : Int) + 1) = -((n - 64 : Nat) : Int) by omega,
          geP2_neg_natCast _ _ (by omega), pow_split (show n = 64 + (n - 64) by omega)]
        have := Nat.mul_lt_mul_of_pos_right hm' (Nat.two_pow_pos (n - 64))
        simp only [decide_eq_false_iff_not]; omega
    · by_cases hc : n ≤ 63
      · rw [show (63 + -(n : Int)) = ((63 - n : Nat) : Int) by omega, geP2_natCast,
          ← pow_split (show 63 = n + (63 - n) by omega)]
        simp only [decide_eq_true_eq]; omega
      · rw [show (63 + -(n : Int)) = -((n - 63 : Nat) : Int) by omega,
          geP2_neg_natCast _ _ (by omega), pow_split (show n = 63 + (n - 63) by omega)]
        have := Nat.mul_le_mul_right (2 ^ (n - 63)) hm
        simp only [decide_eq_true_eq]; omega

/-- scaling `mant · 2^j` by `2^-k` is `mant / 2^t` up to a common power of two, `t = k - j ≥ 0` -/
theorem scaleP2_ofDyadic (mant : Nat) {j k : Int} {t : Nat} (ht : k - j = t) :
    ∃ c, scaleP2 (ofDyadic mant j) k = (mant * 2 ^ c, 2 ^ t * 2 ^ c) := by
  unfold scaleP2 ofDyadic
  by_cases hj : j ≥ 0
  · have hk : k ≥ 0 := by omega
    refine ⟨j.toNat, ?_⟩
    simp only [hj, hk, if_true, Nat.one_mul]
    rw [pow_split (show k.toNat = t + j.toNat by omega)]
  · by_cases hk : k ≥ 0
    · refine ⟨0, ?_⟩
      simp only [hj, hk, if_true, if_false, Nat.pow_zero, Nat.mul_one]
      rw [pow_split (show t = (-j).toNat + k.toNat by omega)]
    · refine ⟨(-k).toNat, ?_⟩
      simp only [hj, hk, if_false]
      rw [pow_split (show (-j).toNat = t + (-k).toNat by omega)]

section
variable {F : FloatC}

/-- right shift the spec applies to a normalised 64-bit significand with binary exponent
    `exp - bias`: `63 - ms` for a normal result, `1 - exp` for a subnormal one. -/
def specShift (F : FloatC) (exp : Int) : Nat :=
  if -exp ≥ 64 - (F.mantissaSize : Int) - 1 then (1 - exp).toNat else 63 - F.mantissaSize

/-- biased exponent field minus one (0 for subnormal results) -/
def expOff (F : FloatC) (exp : Int) : Nat :=
  if -exp ≥ 64 - (F.mantissaSize : Int) - 1 then 0 else (exp + 62 - F.mantissaSize).toNat

theorem ulpExp_ofDyadic (h : F.WF) {mant : Nat} (hm : 2 ^ 63 ≤ mant) (hm' : mant < 2 ^ 64) (exp : Int) :
    ulpExp F.fmt (ofDyadic mant (exp - F.exponentBias)) = F.fmt.kmin + expOff F exp ∧
    F.fmt.kmin + expOff F exp - (exp - F.exponentBias) = specShift F exp := by
  unfold ulpExp
  rw [flog2_ofDyadic hm hm', h.kmin_eq]
  unfold expOff specShift
  have hms := h.ms_le
  have : ((F.fmt.mbits : Nat) : Int) = (F.mantissaSize : Int) := rfl
  rw [this]
  split <;> constructor <;> omega

theorem ofDyadic_num_ne_zero {mant : Nat} (hm : 2 ^ 63 ≤ mant) (j : Int) : (ofDyadic mant j).num ≠ 0 := by
  unfold ofDyadic
  split
  · simp only; have := Nat.two_pow_pos j.toNat
    intro h0
    rcases Nat.mul_eq_zero.mp h0 with h1 | h1 <;> omega
  · simp only; omega

/-- `rne` of `mant · 2^(exp-bias)` in closed form -/
theorem rne_ofDyadic (h : F.WF) {mant : Nat} (hm : 2 ^ 63 ≤ mant) (hm' : mant < 2 ^ 64) (exp : Int) :
    rne F.fmt (ofDyadic mant (exp - F.exponentBias)) =
      min (rhe mant (2 ^ specShift F exp) + expOff F exp * 2 ^ F.mantissaSize) F.fmt.infBits := by
  obtain ⟨hk, ht⟩ := ulpExp_ofDyadic h hm hm' exp
  obtain ⟨c, hc⟩ := scaleP2_ofDyadic mant ht
  unfold rne
  simp only [ofDyadic_num_ne_zero hm, if_false, hk, hc, rhe_mul_right _ _ (Nat.two_pow_pos c)]
  have : (F.fmt.kmin + (expOff F exp : Int) - F.fmt.kmin).toNat = expOff F exp := by omega
  rw [this]; rfl

/-- `rneTrunc` of `mant · 2^(exp-bias)` in closed form -/
theorem rneTrunc_ofDyadic (h : F.WF) {mant : Nat} (hm : 2 ^ 63 ≤ mant) (hm' : mant < 2 ^ 64) (exp : Int) :
    rneTrunc F.fmt (ofDyadic mant (exp - F.exponentBias)) =
      min (mant / 2 ^ specShift F exp + expOff F exp * 2 ^ F.mantissaSize) F.fmt.infBits := by
  obtain ⟨hk, ht⟩ := ulpExp_ofDyadic h hm hm' exp
  obtain ⟨c, hc⟩ := scaleP2_ofDyadic mant ht
  unfold rneTrunc
  simp only [ofDyadic_num_ne_zero hm, if_false, hk, hc, Nat.mul_div_mul_right _ _ (Nat.two_pow_pos c)]
  have : (F.fmt.kmin + (expOff F exp : Int) - F.fmt.kmin).toNat = expOff F exp := by omega
  rw [this]; rfl

/-! ## Code side: `round` followed by `extended_to_float` -/

theorem pack_min {P I E x : Nat} (hx : x < P) :
    min (E * P + x) (I * P) = if E ≥ I then I * P else E * P + x := by
  split
  · next hge =>
    have := Nat.mul_le_mul_right P hge
    omega
  · next hlt =>
    have := Nat.mul_le_mul_right P (show E + 1 ≤ I by omega)
    rw [Nat.add_mul, Nat.one_mul] at this
    omega

theorem infBits_eq (F : FloatC) : F.fmt.infBits = (2 ^ F.ebits - 1) * 2 ^ F.mantissaSize := rfl

/-- Generic packing lemma: whatever callback is used, if on this input it returns a significand `Rv`
    between the truncated quotient and its successor, then `round` + `extended_to_float` produce
    `Rv` placed at the right exponent, saturated at infinity.  Covers subnormal results, promotion to
    the smallest normal, carry into the next binade and overflow. -/
theorem round_pack (h : F.WF) {mant : Nat} {exp : Int} (hm : 2 ^ 63 ≤ mant) (hm' : mant < 2 ^ 64)
    (cb : ExtFloat → Nat → ExtFloat) (Rv : Nat)
    (hcb : cb ⟨mant, exp⟩ (min (specShift F exp) 64) = ⟨Rv, exp + (min (specShift F exp) 64 : Nat)⟩)
    (hlo : mant / 2 ^ specShift F exp ≤ Rv) (hhi : Rv ≤ mant / 2 ^ specShift F exp + 1) :
    extendedToFloat F (round F cb ⟨mant, exp⟩) =
      min (Rv + expOff F exp * 2 ^ F.mantissaSize) F.fmt.infBits := by
  have hms := h.ms_le
  have hP := Nat.two_pow_pos F.mantissaSize
  have hI : 4 ≤ 2 ^ F.ebits := Nat.pow_le_pow_right (n := 2) (by decide) h.eb_ge
  rw [infBits_eq]
  unfold round
  by_cases hd : -exp ≥ 64 - (F.mantissaSize : Int) - 1
  · -- subnormal result
    have hS : specShift F exp = (1 - exp).toNat := by unfold specShift; simp only [hd, if_true]
    have hO : expOff F exp = 0 := by unfold expOff; simp only [hd, if_true]
    have hsh : (min (-exp + 1) 64).toNat = min (specShift F exp) 64 := by rw [hS]; omega
    simp only [hd, if_true, hsh, hcb, hO, Nat.zero_mul, Nat.add_zero, h.hidden]
    have hq : mant / 2 ^ specShift F exp < 2 ^ F.mantissaSize :=
      div_lt_of_shift_ge (by rw [hS]; omega) hm'
    have hinf : 2 ^ F.mantissaSize ≤ (2 ^ F.ebits - 1) * 2 ^ F.mantissaSize :=
      Nat.le_mul_of_pos_left _ (by omega)
    by_cases hR : Rv ≥ 2 ^ F.mantissaSize
    · have : Rv = 2 ^ F.mantissaSize := by omega
      subst this
      simp only [ge_iff_le, Nat.le_refl, if_true]
      rw [C17_extendedToFloat_hidden h]; omega
    · simp only [hR, if_false]
      have := C17_extendedToFloat h (E := 0) (show Rv < 2 ^ F.mantissaSize by omega) (by omega)
      simp only [Int.natCast_zero, Nat.zero_mul, Nat.zero_add] at this
      rw [this]; omega
  · -- normal result
    obtain ⟨sh, hsh⟩ : ∃ sh, F.mantissaSize + sh = 63 := ⟨63 - F.mantissaSize, by omega⟩
    have hS : specShift F exp = sh := by unfold specShift; simp only [hd, if_false]; omega
    have hmin : min sh 64 = sh := by omega
    have hts : (64 - (F.mantissaSize : Int) - 1).toNat = sh := by omega
    obtain ⟨E, hE⟩ : ∃ E : Nat, (E : Int) = exp + sh := ⟨(exp + sh).toNat, by omega⟩
    have hE1 : 1 ≤ E := by omega
    have hO : expOff F exp = E - 1 := by unfold expOff; simp only [hd, if_false]; omega
    rw [hS, hmin] at hcb
    rw [hS] at hlo hhi
    obtain ⟨hq1, hq2⟩ := norm_div_bounds hsh hm hm'
    have hR2 : Rv ≤ 2 ^ (F.mantissaSize + 1) := by omega
    have hpow : 2 ^ (F.mantissaSize + 1) = 2 * 2 ^ F.mantissaSize := by rw [Nat.pow_succ, Nat.mul_comm]
    simp only [hd, if_false, hts, hcb, h.carry, and_pow_beq hR2, h.infPower, h.mantMask, and_lowMask, hO]
    have hinfc : ((2 : Int) ^ F.ebits - 1) = ((2 ^ F.ebits - 1 : Nat) : Int) := by
      have := Nat.two_pow_pos F.ebits
      rw [Int.natCast_sub (by omega)]; simp
    have hIlt : 2 ^ F.ebits - 1 < 2 ^ F.ebits := by omega
    have hinfpack := C17_extendedToFloat h (fr := 0) (E := 2 ^ F.ebits - 1) hP hIlt
    rw [Nat.add_zero] at hinfpack
    by_cases hc : Rv = 2 ^ (F.mantissaSize + 1)
    · -- carry into the next binade
      subst hc
      have e1 : 2 ^ (F.mantissaSize + 1) >>> 1 = 2 ^ F.mantissaSize := by
        rw [shr_eq_div, Nat.pow_succ, Nat.pow_one, Nat.mul_div_cancel _ (by decide)]
      have e2 : 2 ^ (F.mantissaSize + 1) + (E - 1) * 2 ^ F.mantissaSize = (E + 1) * 2 ^ F.mantissaSize + 0 := by
        rw [hpow, show E + 1 = (E - 1) + 2 by omega, Nat.add_mul]; omega
      simp only [decide_true, if_true, e1, Nat.mod_self]
      rw [e2, pack_min hP, show exp + (sh : Int) + 1 = ((E + 1 : Nat) : Int) by omega, hinfc]
      by_cases hov : E + 1 ≥ 2 ^ F.ebits - 1
      · have : ((E + 1 : Nat) : Int) ≥ ((2 ^ F.ebits - 1 : Nat) : Int) := by omega
        simp only [this, hov, if_true]
        exact hinfpack
      · have : ¬ ((E + 1 : Nat) : Int) ≥ ((2 ^ F.ebits - 1 : Nat) : Int) := by omega
        simp only [this, hov, if_false]
        rw [C17_extendedToFloat h hP (by omega)]
    · -- no carry
      have hRlt : Rv < 2 ^ (F.mantissaSize + 1) := by omega
      have e1 : Rv % 2 ^ F.mantissaSize = Rv - 2 ^ F.mantissaSize := by
        rw [Nat.mod_eq_sub_mod (by omega), Nat.mod_eq_of_lt (by omega)]
      have e2 : Rv + (E - 1) * 2 ^ F.mantissaSize = E * 2 ^ F.mantissaSize + (Rv - 2 ^ F.mantissaSize) := by
        have : E * 2 ^ F.mantissaSize = (E - 1) * 2 ^ F.mantissaSize + 2 ^ F.mantissaSize := by
          rw [show E = (E - 1) + 1 by omega, Nat.add_mul, Nat.one_mul]; simp
        omega
      have hfr : Rv - 2 ^ F.mantissaSize < 2 ^ F.mantissaSize := by omega
      simp only [hc, decide_false, Bool.false_eq_true, if_false, e1]
      rw [e2, pack_min hfr, ← hE, hinfc]
      by_cases hov : E ≥ 2 ^ F.ebits - 1
      · have : ((E : Nat) : Int) ≥ ((2 ^ F.ebits - 1 : Nat) : Int) := by omega
        simp only [this, hov, if_true]
        exact hinfpack
      · have : ¬ ((E : Nat) : Int) ≥ ((2 ^ F.ebits - 1 : Nat) : Int) := by omega
        simp only [this, hov, if_false]
        rw [C17_extendedToFloat h hfr (by omega)]

theorem specShift_bounds (h : F.WF) {exp : Int} (hexp : -63 ≤ exp) :
    1 ≤ specShift F exp ∧ specShift F exp ≤ 64 := by
  have := h.ms_le
  unfold specShift; split <;> omega

/-- **(h) MAIN C18.**  For a normalised 64-bit significand and `exp ≥ -63`, `round` with the
    nearest-even callback followed by `extended_to_float` is the correctly rounded (nearest, ties to
    even) bit pattern of `mant · 2^(exp - bias)`, including gradual underflow, promotion to the
    smallest normal, carry into the next binade and overflow to infinity. -/
theorem C18_round_nearest (h : F.WF) {mant : Nat} {exp : Int} (hm : 2 ^ 63 ≤ mant) (hm' : mant < 2 ^ 64)
    (hexp : -63 ≤ exp) :
    extendedToFloat F (round F (roundNearestTieEven cbNearestEven) ⟨mant, exp⟩) =
      rne F.fmt (ofDyadic mant (exp - F.exponentBias)) := by
  obtain ⟨h1, h64⟩ := specShift_bounds h hexp
  rw [rne_ofDyadic h hm hm']
  apply round_pack h hm hm'
  · rw [Nat.min_eq_left h64]; exact C18_roundNearestTieEven exp h1 h64 hm'
  · exact rhe_ge _ _
  · exact rhe_le _ _

/-- **(i)** truncating variant.  No lower bound on `exp` is needed in the model: for `exp ≤ -64` both
    sides are 0 (`round_down` at the clamped shift 64 returns 0).  In the crate, `exp < -64` trips
    `debug_assert!(shift <= 65)` in debug builds (`roundTraps`); the contract is `exp ≥ -64`. -/
theorem C18_round_down (h : F.WF) {mant : Nat} {exp : Int} (hm : 2 ^ 63 ≤ mant) (hm' : mant < 2 ^ 64) :
    extendedToFloat F (round F roundDown ⟨mant, exp⟩) =
      rneTrunc F.fmt (ofDyadic mant (exp - F.exponentBias)) := by
  rw [rneTrunc_ofDyadic h hm hm']
  apply round_pack h hm hm'
  · rw [C18_roundDown exp (Nat.min_le_right _ _) hm']
    congr 1
    rcases Nat.le_total (specShift F exp) 64 with hle | hge
    · rw [Nat.min_eq_left hle]
    · rw [Nat.min_eq_right hge, Nat.div_eq_of_lt hm', Nat.div_eq_of_lt]
      exact Nat.lt_of_lt_of_le hm' (Nat.pow_le_pow_right (by decide) hge)
  · exact Nat.le_refl _
  · exact Nat.le_succ _

/-- General callback form: for ANY decision callback, the packed result is the truncated pattern plus
    the callback's decision, evaluated on (is_odd, is_halfway, is_above) of quotient / remainder of
    `mant / 2^t`, `t = specShift F exp` (saturated at infinity).  (h) and (k) are instances. -/
theorem C18_round_callback (h : F.WF) {mant : Nat} {exp : Int} (hm : 2 ^ 63 ≤ mant) (hm' : mant < 2 ^ 64)
    (hexp : -63 ≤ exp) (cb : RoundCb) :
    extendedToFloat F (round F (roundNearestTieEven cb) ⟨mant, exp⟩) =
      min (rneTrunc F.fmt (ofDyadic mant (exp - F.exponentBias)) +
            (if cb (mant / 2 ^ specShift F exp % 2 == 1)
                   (mant % 2 ^ specShift F exp == 2 ^ (specShift F exp - 1))
                   (decide (mant % 2 ^ specShift F exp > 2 ^ (specShift F exp - 1))) then 1 else 0))
          F.fmt.infBits := by
  obtain ⟨h1, h64⟩ := specShift_bounds h hexp
  rw [rneTrunc_ofDyadic h hm hm']
  have := round_pack h hm hm' (roundNearestTieEven cb) _
    (by rw [Nat.min_eq_left h64]; exact roundNearestTieEven_eq cb exp h1 h64 hm')
    (Nat.le_add_right _ _) (by split <;> omega)
  rw [this]
  split <;> omega

/-- the callback's `is_odd` flag is the parity of the truncated pattern `b` (when `b` is finite) -/
theorem rneTrunc_parity (h : F.WF) {mant : Nat} {exp : Int} (hm : 2 ^ 63 ≤ mant) (hm' : mant < 2 ^ 64)
    (hfin : rneTrunc F.fmt (ofDyadic mant (exp - F.exponentBias)) < F.fmt.infBits) :
    rneTrunc F.fmt (ofDyadic mant (exp - F.exponentBias)) % 2 = mant / 2 ^ specShift F exp % 2 := by
  rw [rneTrunc_ofDyadic h hm hm'] at hfin ⊢
  have hp : 2 ^ F.mantissaSize = 2 * 2 ^ (F.mantissaSize - 1) := by
    rw [Nat.mul_comm, ← Nat.pow_succ]; congr 1; have := h.ms_pos; omega
  have : min (mant / 2 ^ specShift F exp + expOff F exp * 2 ^ F.mantissaSize) F.fmt.infBits
      = mant / 2 ^ specShift F exp + expOff F exp * 2 ^ F.mantissaSize := by omega
  rw [this, hp, ← Nat.mul_assoc, Nat.mul_comm _ 2, Nat.mul_assoc, Nat.add_mul_mod_self_left]

theorem rneTrunc_le_inf (f : Fmt) (v : Q) : rneTrunc f v ≤ f.infBits := by
  unfold rneTrunc
  have : 0 ≤ f.infBits := Nat.zero_le _
  split
  · exact this
  · exact Nat.min_le_right _ _

/-- Slow-path callback `cbOrdering ord` (comparison of the true digits against `b + h`): the result is
    `b` for `Less`, `b + 1` for `Greater`, and the even one of the two for `Equal`. -/
theorem C18_round_ordering (h : F.WF) {mant : Nat} {exp : Int} (hm : 2 ^ 63 ≤ mant) (hm' : mant < 2 ^ 64)
    (hexp : -63 ≤ exp) (ord : Ordering) :
    extendedToFloat F (round F (roundNearestTieEven (cbOrdering ord)) ⟨mant, exp⟩) =
      min (rneTrunc F.fmt (ofDyadic mant (exp - F.exponentBias)) +
            (match ord with
              | .gt => 1
              | .lt => 0
              | .eq => rneTrunc F.fmt (ofDyadic mant (exp - F.exponentBias)) % 2))
          F.fmt.infBits := by
  rw [C18_round_callback h hm hm' hexp]
  have hle := rneTrunc_le_inf F.fmt (ofDyadic mant (exp - F.exponentBias))
  cases ord
  · simp [cbOrdering]
  · simp only [cbOrdering]
    rcases Nat.lt_or_ge (rneTrunc F.fmt (ofDyadic mant (exp - F.exponentBias))) F.fmt.infBits with hf | hf
    · rw [rneTrunc_parity h hm hm' hf]
      have := Nat.mod_two_eq_zero_or_one (mant / 2 ^ specShift F exp)
      rcases this with h0 | h0 <;> simp [h0]
    · rw [Nat.min_eq_right (by omega), Nat.min_eq_right (by omega)]
  · simp [cbOrdering]

/-- **(k)** slow-path variant: the callback's decision replaced by an arbitrary `d`.  The result is
    the truncated pattern `b` or its successor `b + 1` (saturated at infinity). -/
theorem C18_round_decision (h : F.WF) {mant : Nat} {exp : Int} (hm : 2 ^ 63 ≤ mant) (hm' : mant < 2 ^ 64)
    (hexp : -63 ≤ exp) (d : Bool) :
    extendedToFloat F (round F (roundNearestTieEven (fun _ _ _ => d)) ⟨mant, exp⟩) =
      min (rneTrunc F.fmt (ofDyadic mant (exp - F.exponentBias)) + (if d then 1 else 0)) F.fmt.infBits := by
  obtain ⟨h1, h64⟩ := specShift_bounds h hexp
  rw [rneTrunc_ofDyadic h hm hm']
  have := round_pack h hm hm' (roundNearestTieEven (fun _ _ _ => d))
    (mant / 2 ^ specShift F exp + (if d then 1 else 0))
    (by rw [Nat.min_eq_left h64]; exact roundNearestTieEven_eq _ exp h1 h64 hm')
    (by omega) (by split <;> omega)
  rw [this]
  split <;> omega

/-- (k′) when the truncated pattern is finite and not the largest finite one, no saturation occurs. -/
theorem C18_round_decision_finite (h : F.WF) {mant : Nat} {exp : Int} (hm : 2 ^ 63 ≤ mant)
    (hm' : mant < 2 ^ 64) (hexp : -63 ≤ exp) (d : Bool)
    (hfin : rneTrunc F.fmt (ofDyadic mant (exp - F.exponentBias)) < F.fmt.infBits) :
    extendedToFloat F (round F (roundNearestTieEven (fun _ _ _ => d)) ⟨mant, exp⟩) =
      rneTrunc F.fmt (ofDyadic mant (exp - F.exponentBias)) + (if d then 1 else 0) := by
  rw [C18_round_decision h hm hm' hexp]
  split <;> omega

end

/-! ## Instances for the regenerated constants -/

theorem C18_f64_round_nearest {mant : Nat} {exp : Int} (hm : 2 ^ 63 ≤ mant) (hm' : mant < 2 ^ 64)
    (hexp : -63 ≤ exp) :
    extendedToFloat Gen.F64 (round Gen.F64 (roundNearestTieEven cbNearestEven) ⟨mant, exp⟩) =
      rne Fmt.f64 (ofDyadic mant (exp - 1075)) :=
  C18_round_nearest F64_WF hm hm' hexp

theorem C18_f32_round_nearest {mant : Nat} {exp : Int} (hm : 2 ^ 63 ≤ mant) (hm' : mant < 2 ^ 64)
    (hexp : -63 ≤ exp) :
    extendedToFloat Gen.F32 (round Gen.F32 (roundNearestTieEven cbNearestEven) ⟨mant, exp⟩) =
      rne Fmt.f32 (ofDyadic mant (exp - 150)) :=
  C18_round_nearest F32_WF hm hm' hexp

theorem C18_f64_round_down {mant : Nat} {exp : Int} (hm : 2 ^ 63 ≤ mant) (hm' : mant < 2 ^ 64) :
    extendedToFloat Gen.F64 (round Gen.F64 roundDown ⟨mant, exp⟩) =
      rneTrunc Fmt.f64 (ofDyadic mant (exp - 1075)) :=
  C18_round_down F64_WF hm hm'

theorem C18_f32_round_down {mant : Nat} {exp : Int} (hm : 2 ^ 63 ≤ mant) (hm' : mant < 2 ^ 64) :
    extendedToFloat Gen.F32 (round Gen.F32 roundDown ⟨mant, exp⟩) =
      rneTrunc Fmt.f32 (ofDyadic mant (exp - 150)) :=
  C18_round_down F32_WF hm hm'

/-! ## (j) `exp = -64` with the nearest-even callback is outside the contract -/

/-- At `exp = -64` the shift `65` is clamped to `64`, so the code compares the dropped bits against
    `2^63` instead of `2^64`: the value `(2^64-1)·2^(-64-1075) < 2^-1075` (below half of the smallest
    subnormal, correct result 0) is rounded *up* to the smallest subnormal (bits 1). -/
theorem C18_f64_exp_m64_outside_contract :
    extendedToFloat Gen.F64 (round Gen.F64 (roundNearestTieEven cbNearestEven) ⟨2 ^ 64 - 1, -64⟩) = 1 ∧
    rne Fmt.f64 (ofDyadic (2 ^ 64 - 1) (-64 - 1075)) = 0 ∧
    roundTraps Gen.F64 ⟨2 ^ 64 - 1, -64⟩ = false := by
  decide +kernel

/-! ## Non-vacuity: concrete instances exercising every branch -/

-- normal, no carry: 1.0 = 2^63 · 2^(-63)  (exp = 1075 - 63)
example : extendedToFloat Gen.F64 (round Gen.F64 (roundNearestTieEven cbNearestEven) ⟨2 ^ 63, 1012⟩)
    = 0x3FF0000000000000 := by decide +kernel
example : rne Fmt.f64 (ofDyadic (2 ^ 63) (1012 - 1075)) = 0x3FF0000000000000 :=
  (C18_f64_round_nearest (by decide) (by decide) (by decide)).symm.trans (by decide +kernel)
-- carry into the next binade: (2^64 - 1) rounds up to 2^64
example : extendedToFloat Gen.F64 (round Gen.F64 (roundNearestTieEven cbNearestEven) ⟨2 ^ 64 - 1, 1012⟩)
    = 0x4000000000000000 := by decide +kernel
-- overflow to infinity through the carry
example : extendedToFloat Gen.F64 (round Gen.F64 (roundNearestTieEven cbNearestEven) ⟨2 ^ 64 - 1, 2046 - 11⟩)
    = 0x7FF0000000000000 := by decide +kernel
-- subnormal result at the extreme shift 64 (exp = -63): 2^63 · 2^(-63-1075) = 2^-1075, tie → even → 0
example : extendedToFloat Gen.F64 (round Gen.F64 (roundNearestTieEven cbNearestEven) ⟨2 ^ 63, -63⟩) = 0 := by
  decide +kernel
example : extendedToFloat Gen.F64 (round Gen.F64 (roundNearestTieEven cbNearestEven) ⟨2 ^ 63 + 1, -63⟩) = 1 := by
  decide +kernel
-- promotion of a subnormal to the smallest normal: shift 12, all ones
example : extendedToFloat Gen.F64 (round Gen.F64 (roundNearestTieEven cbNearestEven) ⟨2 ^ 64 - 1, -11⟩)
    = 0x0010000000000000 := by decide +kernel
-- f32, truncation
example : extendedToFloat Gen.F32 (round Gen.F32 roundDown ⟨2 ^ 64 - 1, 150 - 63⟩) = 0x3FFFFFFF := by
  decide +kernel
-- hypotheses of (k) are satisfiable and the successor is produced
example : extendedToFloat Gen.F64 (round Gen.F64 (roundNearestTieEven (fun _ _ _ => true)) ⟨2 ^ 63, 1012⟩)
    = 0x3FF0000000000001 := by decide +kernel
-- tie broken to even by the `Equal` ordering: b = 1.0 is even, stays
example : extendedToFloat Gen.F64 (round Gen.F64 (roundNearestTieEven (cbOrdering .eq)) ⟨2 ^ 63 + 2 ^ 10, 1012⟩)
    = 0x3FF0000000000000 := by decide +kernel
example : rneTrunc Fmt.f64 (ofDyadic (2 ^ 63 + 2 ^ 11) (1012 - 1075)) = 0x3FF0000000000001 := by decide +kernel
-- … and b odd goes up
example : extendedToFloat Gen.F64 (round Gen.F64 (roundNearestTieEven (cbOrdering .eq)) ⟨2 ^ 63 + 2 ^ 11, 1012⟩)
    = 0x3FF0000000000002 :=
  (C18_round_ordering F64_WF (by decide) (by decide) (by decide) .eq).trans (by decide +kernel)

end MinLex
