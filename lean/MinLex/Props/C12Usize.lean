/-
  C12 / C08, the machine-word side of `bigint::shl_limbs`'s capacity check (DESIGN 12.17).

  The model (`MinLex.shlLimbs`) decides `capOk cap (n + x.length)` over unbounded naturals. The Rust code
  computes in `usize`. Before the repair (`/repo` 0f346c5) the test was `n + x.len() > x.capacity()` with the
  wrapping `+` of release builds; after it, `n.checked_add(x.len()).map_or(true, |len| len > capacity)`.
  Here both are written out over 64-bit words and compared with the model's decision:
  the repaired test IS the model's test for every `n`, the old one is not (kernel-checked witness), and it
  agrees with the model exactly when the sum does not wrap.
-/
import MinLex.Model.Bigint
namespace MinLex
namespace C12Usize

/-- `usize::MAX + 1` on the 64-bit host -/
def U : Nat := 18446744073709551616

/-- the test of the ORIGINAL code, release semantics: `n.wrapping_add(len) > cap` ("refuse") -/
def refusesOld (n len cap : Nat) : Bool := decide ((n + len) % U > cap)

/-- the test of the REPAIRED code: `n.checked_add(len).map_or(true, |t| t > cap)` -/
def refusesNew (n len cap : Nat) : Bool :=
  if n + len < U then decide (n + len > cap) else true

/-- what the model (and C12) demand: refuse exactly when the result does not fit -/
def refusesModel (n len cap : Nat) : Bool := !capOk (some cap) (n + len)

/-- the repaired check is the model's check, for every shift count and every capacity a `usize` can hold -/
theorem new_eq_model {n len cap : Nat} (hcap : cap < U) : refusesNew n len cap = refusesModel n len cap := by
  unfold refusesNew refusesModel capOk
  by_cases h : n + len < U
  · simp only [h, if_true]
    by_cases h2 : n + len > cap
    · have : ¬ (n + len ≤ cap) := by omega
      simp [h2, this]
    · have : n + len ≤ cap := by omega
      simp [h2, this]
  · have : ¬ (n + len ≤ cap) := by omega
    simp [h, this]

/-- the original check agrees with the model as long as the sum does not wrap … -/
theorem old_eq_model_of_no_wrap {n len cap : Nat} (h : n + len < U) : refusesOld n len cap = refusesModel n len cap := by
  unfold refusesOld refusesModel capOk
  rw [Nat.mod_eq_of_lt h]
  by_cases h2 : n + len > cap
  · have : ¬ (n + len ≤ cap) := by omega
    simp [h2, this]
  · have : n + len ≤ cap := by omega
    simp [h2, this]

/-- … and only then: `shl_limbs([1, 2], usize::MAX)` on the 62-limb stack vector was ACCEPTED by the original
    test (the sum wraps to 1) although 2^64 + 1 limbs do not fit — the finding of DESIGN 12.17 -/
theorem old_accepts_overflow : refusesOld (U - 1) 2 62 = false ∧ refusesModel (U - 1) 2 62 = true ∧
    refusesNew (U - 1) 2 62 = true := by decide

/-- every wrapped sum that lands at or below the capacity is such a witness -/
theorem old_wrong_iff {n len cap : Nat} (hn : n < U) (hl : len < U) (hcap : cap < U) :
    refusesOld n len cap ≠ refusesModel n len cap ↔ (U ≤ n + len ∧ n + len - U ≤ cap) := by
  unfold refusesOld refusesModel capOk
  by_cases h : n + len < U
  · rw [Nat.mod_eq_of_lt h]
    constructor
    · intro hne
      exfalso; apply hne
      by_cases h2 : n + len > cap
      · have : ¬ (n + len ≤ cap) := by omega
        simp [h2, this]
      · have : n + len ≤ cap := by omega
        simp [h2, this]
    · intro ⟨h1, _⟩; omega
  · have hw : (n + len) % U = n + len - U := by
      have h1 : U ≤ n + len := by omega
      have h2 : n + len - U < U := by omega
      rw [Nat.mod_eq_sub_mod h1, Nat.mod_eq_of_lt h2]
    rw [hw]
    have hnot : ¬ (n + len ≤ cap) := by omega
    have hU : U ≤ n + len := by omega
    by_cases h3 : n + len - U > cap
    · have h4 : ¬ (n + len - U ≤ cap) := by omega
      simp [h3, hnot, h4]
    · have h4 : n + len - U ≤ cap := by omega
      simp [h3, hnot, h4, hU]

/-- non-vacuity of `new_eq_model`: an ordinary accepted and an ordinary refused request -/
example : refusesNew 3 59 62 = false ∧ refusesNew 4 59 62 = true := by decide

end C12Usize
end MinLex
