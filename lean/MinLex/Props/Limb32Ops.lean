/-
  The big-integer operations of the limb-width-parametric model `MinLex/Model/BigintW.lean`
  (namespace `MinLex.W`; `w = 32` is the build with `Limb = u32`) are exact and report overflow
  instead of wrapping: the analogue of every theorem of `MinLex/Props/C12.lean`, with
  `toNat ↦ toNatW w`, `AllLt ↦ AllLtW w`, `B ↦ Bw w = 2^w`.

  Conventions
    * `{w : Nat}` is implicit everywhere.  Statements that hold for every limb width carry no
      hypothesis on `w`; `(hw : 0 < w)` is the FIRST explicit argument where `1 < Bw w` is needed
      (large addition, long/large multiplication, `shl`); the power functions take
      `(hw : w = 32 ∨ w = 64)` (`5 ^ powStep w < Bw w`).
    * Where the code branches on the width (`fromU64`, `hi64`) the theorem with the C12 name is the
      `w = 32` one; the `w = 64` companion has the suffix `64`.
    * Names are those of C12 inside `namespace MinLex.W.Ops`.
  Each theorem is followed by an `example` instantiating its hypotheses on concrete 32-bit data.
-/
import MinLex.Proofs.BigintW
namespace MinLex.W.Ops
open MinLex MinLex.W

variable {w : Nat}

/-- A result that is returned always fits: its value is below `Bw^c` on a stack vector of `c` limbs. -/
theorem fits_of_some {c : Nat} {r : Big} (hr : AllLtW w r) (hc : capOk (some c) r.length = true) :
    toNatW w r < Bw w ^ c :=
  Nat.lt_of_lt_of_le (toNatW_lt hr) (Bwpow_le w (capOk_some.mp hc))

-- ================================================================ 1. scalar and small operations

/-- `scalar_add`: low limb and carry flag are the exact sum. -/
theorem scalarAdd_exact {x y : Nat} (hx : x < Bw w) (hy : y < Bw w) :
    (scalarAdd w x y).1 + Bw w * (if (scalarAdd w x y).2 then 1 else 0) = x + y ∧
    (scalarAdd w x y).1 < Bw w :=
  scalarAdd_spec hx hy

example : (scalarAdd 32 4294967295 2).1 + Bw 32 * (if (scalarAdd 32 4294967295 2).2 then 1 else 0)
    = 4294967295 + 2 :=
  (scalarAdd_exact (by decide) (by decide)).1

/-- `scalar_mul`: (low, high) limbs are the exact value of `x * y + carry`; no overflow. -/
theorem scalarMul_exact {x y c : Nat} (hx : x < Bw w) (hy : y < Bw w) (hc : c < Bw w) :
    (scalarMul w x y c).1 + Bw w * (scalarMul w x y c).2 = x * y + c ∧
    (scalarMul w x y c).1 < Bw w ∧ (scalarMul w x y c).2 < Bw w :=
  scalarMul_spec hx hy hc

example : (scalarMul 32 4294967295 4294967295 4294967295).1
    + Bw 32 * (scalarMul 32 4294967295 4294967295 4294967295).2
    = 4294967295 * 4294967295 + 4294967295 :=
  (scalarMul_exact (by decide) (by decide) (by decide)).1

/-- `small_add_from`, documented precondition `start ≤ x.len()`. -/
theorem smallAddFrom_exact {cap : Option Nat} {x r : Big} {y start : Nat} (hx : AllLtW w x)
    (hy : y < Bw w) (hs : start ≤ x.length) (hcap : capOk cap x.length = true)
    (h : smallAddFrom w cap x y start = some r) :
    toNatW w r = toNatW w x + y * Bw w ^ start ∧ AllLtW w r ∧ capOk cap r.length = true := by
  obtain ⟨a, b, c, _⟩ := smallAddFrom_spec hx hy hs hcap h
  exact ⟨a, b, c⟩

example : toNatW 32 [0, 0, 1] = toNatW 32 [4294967295, 4294967295] + 1 * Bw 32 ^ 0 :=
  (smallAddFrom_exact (cap := some 125) (x := [4294967295, 4294967295]) (y := 1) (start := 0)
    (by decide) (by decide) (by decide) (by decide) (by decide)).1

/-- Outside the precondition (`start > x.len()`) the carry is appended at position `x.len()`,
    not at `start`. -/
example : smallAddFrom 32 none [5] 4294967295 3 = some [5, 4294967295] := by decide

/-- `small_add_from` fails only on the stack back-end, when the carry needs limb `x.length + 1 > c`;
    then the exact result is `≥ Bw^x.length ≥ Bw^c`: it does not fit. -/
theorem smallAddFrom_overflow {cap : Option Nat} {x : Big} {y start : Nat} (hx : AllLtW w x)
    (hy : y < Bw w) (hs : start ≤ x.length) (h : smallAddFrom w cap x y start = none) :
    ∃ c, cap = some c ∧ x.length + 1 > c ∧ Bw w ^ x.length ≤ toNatW w x + y * Bw w ^ start ∧
      Bw w ^ c ≤ toNatW w x + y * Bw w ^ start := by
  obtain ⟨h1, h2⟩ := (smallAddFrom_none_iff hx hy hs).mp h
  obtain ⟨c, hc, hgt⟩ := capOk_false_iff.mp h1
  have := Bwpow_le w (show c ≤ x.length by omega)
  exact ⟨c, hc, hgt, h2, by omega⟩

example : smallAddFrom 32 (some 2) [4294967295, 4294967295] 1 0 = none := by decide

/-- Converse: it succeeds when one more limb is available or when the result needs no new limb. -/
theorem smallAddFrom_complete {cap : Option Nat} {x : Big} {y start : Nat} (hx : AllLtW w x)
    (hy : y < Bw w) (hs : start ≤ x.length)
    (h : capOk cap (x.length + 1) = true ∨ toNatW w x + y * Bw w ^ start < Bw w ^ x.length) :
    ∃ r, smallAddFrom w cap x y start = some r := by
  cases hr : smallAddFrom w cap x y start with
  | some r => exact ⟨r, rfl⟩
  | none =>
    obtain ⟨h1, h2⟩ := (smallAddFrom_none_iff hx hy hs).mp hr
    rcases h with h | h
    · rw [h] at h1; exact absurd h1 (by simp)
    · omega

example : ∃ r, smallAddFrom 32 (some 2) [4294967295, 4294967294] 1 0 = some r :=
  smallAddFrom_complete (by decide) (by decide) (by decide) (Or.inr (by decide))

/-- `small_add` -/
theorem smallAdd_exact {cap : Option Nat} {x r : Big} {y : Nat} (hx : AllLtW w x) (hy : y < Bw w)
    (hcap : capOk cap x.length = true) (h : smallAdd w cap x y = some r) :
    toNatW w r = toNatW w x + y ∧ AllLtW w r ∧ capOk cap r.length = true := by
  have := smallAddFrom_exact hx hy (Nat.zero_le _) hcap h
  simpa using this

example : toNatW 32 [1, 1] = toNatW 32 [4294967295] + 2 :=
  (smallAdd_exact (cap := some 125) (x := [4294967295]) (y := 2) (by decide) (by decide)
    (by decide) (by decide)).1

theorem smallAdd_overflow {cap : Option Nat} {x : Big} {y : Nat} (hx : AllLtW w x)
    (hy : y < Bw w) (h : smallAdd w cap x y = none) :
    ∃ c, cap = some c ∧ x.length + 1 > c ∧ Bw w ^ x.length ≤ toNatW w x + y ∧
      Bw w ^ c ≤ toNatW w x + y := by
  have := smallAddFrom_overflow hx hy (Nat.zero_le _) h
  simpa using this

theorem smallAdd_complete {cap : Option Nat} {x : Big} {y : Nat} (hx : AllLtW w x)
    (hy : y < Bw w)
    (h : capOk cap (x.length + 1) = true ∨ toNatW w x + y < Bw w ^ x.length) :
    ∃ r, smallAdd w cap x y = some r :=
  smallAddFrom_complete hx hy (Nat.zero_le _) (by simpa using h)

example : smallAdd 32 (some 1) [4294967295] 1 = none := by decide
example : ∃ r, smallAdd 32 none [4294967295] 1 = some r :=
  smallAdd_complete (by decide) (by decide) (Or.inl rfl)

/-- `small_mul` -/
theorem smallMul_exact {cap : Option Nat} {x r : Big} {y : Nat} (hx : AllLtW w x) (hy : y < Bw w)
    (hcap : capOk cap x.length = true) (h : smallMul w cap x y = some r) :
    toNatW w r = toNatW w x * y ∧ AllLtW w r ∧ capOk cap r.length = true := by
  obtain ⟨a, b, c, _⟩ := smallMul_spec hx hy hcap h
  exact ⟨a, b, c⟩

example : toNatW 32 [4294967290, 4294967295, 5] = toNatW 32 [4294967295, 4294967295] * 6 :=
  (smallMul_exact (cap := some 125) (x := [4294967295, 4294967295]) (y := 6) (by decide)
    (by decide) (by decide) (by decide)).1

theorem smallMul_overflow {cap : Option Nat} {x : Big} {y : Nat}
    (h : smallMul w cap x y = none) :
    ∃ c, cap = some c ∧ x.length + 1 > c ∧ Bw w ^ x.length ≤ toNatW w x * y ∧
      Bw w ^ c ≤ toNatW w x * y := by
  obtain ⟨h1, h2⟩ := smallMul_none_iff.mp h
  obtain ⟨c, hc, hgt⟩ := capOk_false_iff.mp h1
  have := Bwpow_le w (show c ≤ x.length by omega)
  exact ⟨c, hc, hgt, h2, by omega⟩

theorem smallMul_complete {cap : Option Nat} {x : Big} {y : Nat}
    (h : capOk cap (x.length + 1) = true ∨ toNatW w x * y < Bw w ^ x.length) :
    ∃ r, smallMul w cap x y = some r := by
  cases hr : smallMul w cap x y with
  | some r => exact ⟨r, rfl⟩
  | none =>
    obtain ⟨h1, h2⟩ := smallMul_none_iff.mp hr
    rcases h with h | h
    · rw [h] at h1; exact absurd h1 (by simp)
    · omega

example : smallMul 32 (some 2) [4294967295, 4294967295] 6 = none := by decide
example : ∃ r, smallMul 32 (some 2) [4294967295, 1] 6 = some r :=
  smallMul_complete (Or.inr (by decide))

/-- `small_mul` by a non-zero scalar keeps a normalised vector normalised, and empty iff empty
    (needed by the slow path; no limb bound required). -/
theorem smallMul_normalized {cap : Option Nat} {x r : Big} {y : Nat}
    (hn : isNormalized x = true) (hy0 : y ≠ 0) (h : smallMul w cap x y = some r) :
    isNormalized r = true ∧ (x = [] → r = []) ∧ (x ≠ [] → r ≠ []) :=
  W.smallMul_normalized hn hy0 h

/-- `small_add` keeps a normalised vector normalised. -/
theorem smallAdd_normalized {cap : Option Nat} {x r : Big} {y : Nat} (hx : AllLtW w x)
    (hy : y < Bw w) (hcap : capOk cap x.length = true) (hn : isNormalized x = true)
    (h : smallAdd w cap x y = some r) : isNormalized r = true :=
  W.smallAdd_normalized hx hy hcap hn h

example : isNormalized [4294967290, 4294967295, 5] = true :=
  (smallMul_normalized (w := 32) (cap := some 125) (x := [4294967295, 4294967295]) (y := 6)
    (by decide) (by decide) (by decide)).1

-- ================================================================ 2. large addition

/-- `large_add_from`, any `start` (the buffer is zero-extended as needed). -/
theorem largeAddFrom_exact (hw : 0 < w) {cap : Option Nat} {x y r : Big} {start : Nat}
    (hx : AllLtW w x) (hy : AllLtW w y) (hcap : capOk cap x.length = true)
    (h : largeAddFrom w cap x y start = some r) :
    toNatW w r = toNatW w x + toNatW w y * Bw w ^ start ∧ AllLtW w r ∧
    capOk cap r.length = true := by
  obtain ⟨a, b, c, _⟩ := largeAddFrom_spec hw hx hy hcap h
  exact ⟨a, b, c⟩

example : largeAddFrom 32 (some 125) [1, 4294967295, 4294967295] [4294967295, 1] 1
    = some [1, 4294967294, 1, 1] := by decide
example : toNatW 32 [1, 4294967294, 1, 1]
    = toNatW 32 [1, 4294967295, 4294967295] + toNatW 32 [4294967295, 1] * Bw 32 ^ 1 :=
  (largeAddFrom_exact (by decide) (cap := some 125) (x := [1, 4294967295, 4294967295])
    (y := [4294967295, 1]) (start := 1) (by decide) (by decide) (by decide) (by decide)).1
/-- `start` beyond the end of `x`: zero-extension -/
example : largeAddFrom 32 (some 125) [7] [3] 2 = some [7, 0, 3] := by decide

/-- `large_add_from` fails only on the stack back-end: either the shifted operand `y·Bw^start`
    already needs more than `c` limbs, or the sum needs limb `L + 1 > c` (`L` = the longer operand)
    and the exact sum is `≥ Bw^L`. -/
theorem largeAddFrom_overflow (hw : 0 < w) {cap : Option Nat} {x y : Big} {start : Nat}
    (hx : AllLtW w x) (hy : AllLtW w y) (h : largeAddFrom w cap x y start = none) :
    ∃ c, cap = some c ∧
      (y.length + start > c ∨
       (max x.length (y.length + start) + 1 > c ∧
        Bw w ^ (max x.length (y.length + start)) ≤ toNatW w x + toNatW w y * Bw w ^ start)) := by
  by_cases hy0 : y = []
  · subst hy0; rw [largeAddFrom_nil] at h; exact absurd h (by simp)
  · rcases (largeAddFrom_none_iff hw hx hy hy0).mp h with ⟨h1, _⟩ | ⟨h1, h2⟩
    · obtain ⟨c, hc, hgt⟩ := capOk_false_iff.mp h1
      exact ⟨c, hc, Or.inl hgt⟩
    · obtain ⟨c, hc, hgt⟩ := capOk_false_iff.mp h1
      exact ⟨c, hc, Or.inr ⟨hgt, h2⟩⟩

/-- For a normalised `y`, failure means the exact sum does not fit in `c` limbs. -/
theorem largeAddFrom_overflow_normalized (hw : 0 < w) {cap : Option Nat} {x y : Big}
    {start : Nat} (hx : AllLtW w x) (hy : AllLtW w y) (hny : isNormalized y = true)
    (h : largeAddFrom w cap x y start = none) :
    ∃ c, cap = some c ∧ Bw w ^ c ≤ toNatW w x + toNatW w y * Bw w ^ start := by
  obtain ⟨c, hc, hcase⟩ := largeAddFrom_overflow hw hx hy h
  refine ⟨c, hc, ?_⟩
  rcases hcase with h1 | ⟨h1, h2⟩
  · have hy0 : y ≠ [] := by
      intro h0; subst h0; rw [largeAddFrom_nil] at h; exact absurd h (by simp)
    have hge := toNatW_ge_of_normalized (w := w) hny hy0
    have hyl : 0 < y.length := List.length_pos_iff.mpr hy0
    have h3 := Bwpow_le w (show c ≤ (y.length - 1) + start by omega)
    rw [Nat.pow_add] at h3
    have := Nat.mul_le_mul_right (Bw w ^ start) hge
    omega
  · have := Bwpow_le w (show c ≤ max x.length (y.length + start) by omega)
    omega

/-- Converse: succeeds when `L + 1` limbs are available. -/
theorem largeAddFrom_complete (hw : 0 < w) {cap : Option Nat} {x y : Big} {start : Nat}
    (hx : AllLtW w x) (hy : AllLtW w y)
    (h : capOk cap (max x.length (y.length + start) + 1) = true) :
    ∃ r, largeAddFrom w cap x y start = some r := by
  cases hr : largeAddFrom w cap x y start with
  | some r => exact ⟨r, rfl⟩
  | none =>
    obtain ⟨c, hc, hcase⟩ := largeAddFrom_overflow hw hx hy hr
    subst hc
    rw [capOk_some] at h
    rcases hcase with h1 | ⟨h1, _⟩ <;> omega

/-- Converse on the value (normalised `y`): succeeds whenever the exact sum fits. -/
theorem largeAddFrom_complete_fits (hw : 0 < w) {c : Nat} {x y : Big} {start : Nat}
    (hx : AllLtW w x) (hy : AllLtW w y) (hny : isNormalized y = true)
    (h : toNatW w x + toNatW w y * Bw w ^ start < Bw w ^ c) :
    ∃ r, largeAddFrom w (some c) x y start = some r := by
  cases hr : largeAddFrom w (some c) x y start with
  | some r => exact ⟨r, rfl⟩
  | none =>
    obtain ⟨c', hc, hge⟩ := largeAddFrom_overflow_normalized hw hx hy hny hr
    simp only [Option.some.injEq] at hc
    subst hc
    omega

example : largeAddFrom 32 (some 3) [1, 4294967295, 4294967295] [4294967295, 1] 1 = none := by
  decide
example : ∃ r, largeAddFrom 32 (some 4) [1, 4294967295, 4294967295] [4294967295, 1] 1 = some r :=
  largeAddFrom_complete_fits (by decide) (by decide) (by decide) (by decide) (by decide)

/-- `large_add` -/
theorem largeAdd_exact (hw : 0 < w) {cap : Option Nat} {x y r : Big} (hx : AllLtW w x)
    (hy : AllLtW w y) (hcap : capOk cap x.length = true) (h : largeAdd w cap x y = some r) :
    toNatW w r = toNatW w x + toNatW w y ∧ AllLtW w r ∧ capOk cap r.length = true := by
  have := largeAddFrom_exact hw hx hy hcap h
  simpa using this

example : toNatW 32 [4294967294, 0, 1] = toNatW 32 [4294967295] + toNatW 32 [4294967295, 4294967295] :=
  (largeAdd_exact (by decide) (cap := some 125) (x := [4294967295])
    (y := [4294967295, 4294967295]) (by decide) (by decide) (by decide) (by decide)).1

theorem largeAdd_overflow (hw : 0 < w) {cap : Option Nat} {x y : Big} (hx : AllLtW w x)
    (hy : AllLtW w y) (h : largeAdd w cap x y = none) :
    ∃ c, cap = some c ∧
      (y.length > c ∨
       (max x.length y.length + 1 > c ∧
        Bw w ^ (max x.length y.length) ≤ toNatW w x + toNatW w y)) := by
  have := largeAddFrom_overflow hw hx hy h
  simpa using this

theorem largeAdd_overflow_normalized (hw : 0 < w) {cap : Option Nat} {x y : Big}
    (hx : AllLtW w x) (hy : AllLtW w y) (hny : isNormalized y = true)
    (h : largeAdd w cap x y = none) :
    ∃ c, cap = some c ∧ Bw w ^ c ≤ toNatW w x + toNatW w y := by
  have := largeAddFrom_overflow_normalized hw hx hy hny h
  simpa using this

theorem largeAdd_complete (hw : 0 < w) {cap : Option Nat} {x y : Big} (hx : AllLtW w x)
    (hy : AllLtW w y) (h : capOk cap (max x.length y.length + 1) = true) :
    ∃ r, largeAdd w cap x y = some r :=
  largeAddFrom_complete hw hx hy (by simpa using h)

example : largeAdd 32 (some 2) [4294967295] [4294967295, 4294967295] = none := by decide

-- ================================================================ 4. normalize / from_u64

theorem normalize_exact (x : Big) : toNatW w (normalize x) = toNatW w x := normalize_toNatW x
theorem normalize_normalized (x : Big) : isNormalized (normalize x) = true :=
  normalize_isNormalized x
theorem normalize_limbs {x : Big} (h : AllLtW w x) : AllLtW w (normalize x) := normalize_allLtW h
theorem normalize_length_le (x : Big) : (normalize x).length ≤ x.length := normalize_length x
theorem normalize_idempotent {x : Big} (h : isNormalized x = true) : normalize x = x :=
  normalize_of_isNormalized h

example : toNatW 32 (normalize [0, 3, 0, 0]) = toNatW 32 [0, 3, 0, 0] := normalize_exact _

/-- `from_u64` (32-bit limbs: low and high half, then normalise): exact, normalised, at most two
    limbs. -/
theorem fromU64_exact {v : Nat} (hv : v < 2 ^ 64) :
    toNatW 32 (fromU64 32 v) = v ∧ AllLtW 32 (fromU64 32 v) ∧
    isNormalized (fromU64 32 v) = true ∧ (fromU64 32 v).length ≤ 2 :=
  fromU64_spec32 hv

example : fromU64 32 0 = [] ∧ fromU64 32 9 = [9] ∧ fromU64 32 (2 ^ 32) = [0, 1] ∧
    fromU64 32 (2 ^ 64 - 1) = [4294967295, 4294967295] := by decide

/-- `from_u64` at any other width (one limb; needs `v < Bw w`, e.g. `w = 64`). -/
theorem fromU64_exact_ne (hw : w ≠ 32) {v : Nat} (hv : v < Bw w) :
    toNatW w (fromU64 w v) = v ∧ AllLtW w (fromU64 w v) ∧
    isNormalized (fromU64 w v) = true ∧ (fromU64 w v).length ≤ 1 :=
  fromU64_spec_ne hw hv

theorem fromU64_exact64 {v : Nat} (hv : v < 2 ^ 64) :
    toNatW 64 (fromU64 64 v) = v ∧ AllLtW 64 (fromU64 64 v) ∧
    isNormalized (fromU64 64 v) = true ∧ (fromU64 64 v).length ≤ 1 :=
  fromU64_spec_ne (by decide) hv

-- ================================================================ 5. compare

/-- `compare` on normalised operands is the order of the values. -/
theorem bigCompare_exact {x y : Big} (hx : AllLtW w x) (hy : AllLtW w y)
    (nx : isNormalized x = true) (ny : isNormalized y = true) :
    bigCompare x y = compare (toNatW w x) (toNatW w y) :=
  bigCompare_spec hx hy nx ny

theorem bigCompare_lt_iff {x y : Big} (hx : AllLtW w x) (hy : AllLtW w y)
    (nx : isNormalized x = true) (ny : isNormalized y = true) :
    bigCompare x y = .lt ↔ toNatW w x < toNatW w y := by
  rw [bigCompare_exact hx hy nx ny, Nat.compare_eq_lt]

theorem bigCompare_eq_iff {x y : Big} (hx : AllLtW w x) (hy : AllLtW w y)
    (nx : isNormalized x = true) (ny : isNormalized y = true) :
    bigCompare x y = .eq ↔ toNatW w x = toNatW w y := by
  rw [bigCompare_exact hx hy nx ny, Nat.compare_eq_eq]

theorem bigCompare_gt_iff {x y : Big} (hx : AllLtW w x) (hy : AllLtW w y)
    (nx : isNormalized x = true) (ny : isNormalized y = true) :
    bigCompare x y = .gt ↔ toNatW w x > toNatW w y := by
  rw [bigCompare_exact hx hy nx ny, Nat.compare_eq_gt]

example : bigCompare [4294967295, 1] [0, 2] = .lt ∧ toNatW 32 [4294967295, 1] < toNatW 32 [0, 2] := by
  have h := bigCompare_lt_iff (w := 32) (x := [4294967295, 1]) (y := [0, 2]) (by decide)
    (by decide) (by decide) (by decide)
  exact ⟨by decide, h.mp (by decide)⟩

/-- Without normalisation the statement is false: `[1,0]` denotes 1 but compares greater than 2. -/
example : bigCompare [1, 0] [2] = .gt ∧ toNatW 32 [1, 0] < toNatW 32 [2] := by decide

-- ================================================================ 6. shifts

/-- `shl_bits`, precondition `0 < n < w`. -/
theorem shlBits_exact {cap : Option Nat} {x r : Big} {n : Nat} (h0 : 0 < n) (hn : n < w)
    (hx : AllLtW w x) (hcap : capOk cap x.length = true) (h : shlBits w cap x n = some r) :
    toNatW w r = toNatW w x * 2 ^ n ∧ AllLtW w r ∧ capOk cap r.length = true := by
  obtain ⟨a, b, c, _⟩ := shlBits_spec h0 hn hx hcap h
  exact ⟨a, b, c⟩

example : toNatW 32 [4294967288, 4294967295, 7] = toNatW 32 [4294967295, 4294967295] * 2 ^ 3 :=
  (shlBits_exact (cap := some 125) (x := [4294967295, 4294967295]) (n := 3) (by decide)
    (by decide) (by decide) (by decide) (by decide)).1

theorem shlBits_overflow {cap : Option Nat} {x : Big} {n : Nat} (h0 : 0 < n) (hn : n < w)
    (hx : AllLtW w x) (h : shlBits w cap x n = none) :
    ∃ c, cap = some c ∧ x.length + 1 > c ∧ Bw w ^ x.length ≤ toNatW w x * 2 ^ n ∧
      Bw w ^ c ≤ toNatW w x * 2 ^ n := by
  obtain ⟨h1, h2⟩ := (shlBits_none_iff h0 hn hx).mp h
  obtain ⟨c, hc, hgt⟩ := capOk_false_iff.mp h1
  have := Bwpow_le w (show c ≤ x.length by omega)
  exact ⟨c, hc, hgt, h2, by omega⟩

theorem shlBits_complete {cap : Option Nat} {x : Big} {n : Nat} (h0 : 0 < n) (hn : n < w)
    (hx : AllLtW w x)
    (h : capOk cap (x.length + 1) = true ∨ toNatW w x * 2 ^ n < Bw w ^ x.length) :
    ∃ r, shlBits w cap x n = some r := by
  cases hr : shlBits w cap x n with
  | some r => exact ⟨r, rfl⟩
  | none =>
    obtain ⟨h1, h2⟩ := (shlBits_none_iff h0 hn hx).mp hr
    rcases h with h | h
    · rw [h] at h1; exact absurd h1 (by simp)
    · omega

example : shlBits 32 (some 2) [4294967295, 4294967295] 3 = none := by decide
example : ∃ r, shlBits 32 (some 2) [4294967295, 1] 3 = some r :=
  shlBits_complete (by decide) (by decide) (by decide) (Or.inr (by decide))

/-- `shl_limbs` (shared with the 64-bit model; on `w`-bit limbs it multiplies by `(Bw w)^n`;
    the Rust precondition `n ≠ 0` is not needed for exactness). -/
theorem shlLimbs_exact {cap : Option Nat} {x r : Big} {n : Nat} (hx : AllLtW w x)
    (h : shlLimbs cap x n = some r) :
    toNatW w r = toNatW w x * Bw w ^ n ∧ AllLtW w r ∧ capOk cap r.length = true := by
  obtain ⟨a, b, c, _⟩ := shlLimbs_spec hx h
  exact ⟨a, b, c⟩

example : toNatW 32 [0, 0, 5, 6] = toNatW 32 [5, 6] * Bw 32 ^ 2 :=
  (shlLimbs_exact (cap := some 125) (x := [5, 6]) (n := 2) (by decide) (by decide)).1

/-- `shl_limbs` fails exactly when `n + x.len()` exceeds the capacity. -/
theorem shlLimbs_overflow_iff {cap : Option Nat} {x : Big} {n : Nat} :
    shlLimbs cap x n = none ↔ ∃ c, cap = some c ∧ n + x.length > c := by
  rw [shlLimbs_none_iff, capOk_false_iff]

/-- for a normalised non-empty `x` the failure is genuine -/
theorem shlLimbs_overflow_normalized {cap : Option Nat} {x : Big} {n : Nat}
    (hnx : isNormalized x = true) (hx0 : x ≠ []) (h : shlLimbs cap x n = none) :
    ∃ c, cap = some c ∧ Bw w ^ c ≤ toNatW w x * Bw w ^ n := by
  obtain ⟨c, hc, hgt⟩ := shlLimbs_overflow_iff.mp h
  refine ⟨c, hc, ?_⟩
  have hge := toNatW_ge_of_normalized (w := w) hnx hx0
  have hxl : 0 < x.length := List.length_pos_iff.mpr hx0
  have h3 := Bwpow_le w (show c ≤ (x.length - 1) + n by omega)
  rw [Nat.pow_add] at h3
  have := Nat.mul_le_mul_right (Bw w ^ n) hge
  omega

example : shlLimbs (some 125) [] 5 = some [] := by decide
example : shlLimbs (some 125) [] 126 = none := by decide

/-- `shl`, any `n`. -/
theorem shl_exact (hw : 0 < w) {cap : Option Nat} {x r : Big} {n : Nat} (hx : AllLtW w x)
    (hcap : capOk cap x.length = true) (h : shl w cap x n = some r) :
    toNatW w r = toNatW w x * 2 ^ n ∧ AllLtW w r ∧ capOk cap r.length = true :=
  shl_spec hw hx hcap h

example : toNatW 32 [0, 0, 0, 0, 4294967288, 4294967295, 7]
    = toNatW 32 [4294967295, 4294967295] * 2 ^ 131 :=
  (shl_exact (by decide) (cap := some 125) (x := [4294967295, 4294967295]) (n := 131)
    (by decide) (by decide) (by decide)).1

/-- `shl` fails only on the stack back-end when `x.len() + 1 + n / w` limbs are not available. -/
theorem shl_overflow (hw : 0 < w) {cap : Option Nat} {x : Big} {n : Nat} (hx : AllLtW w x)
    (hcap : capOk cap x.length = true) (h : shl w cap x n = none) :
    ∃ c, cap = some c ∧ x.length + 1 + n / w > c :=
  capOk_false_iff.mp (shl_none hw hx hcap h)

/-- for a normalised non-empty `x`, `shl` fails only if `x·2^n ≥ Bw^c` -/
theorem shl_overflow_normalized (hw : 0 < w) {cap : Option Nat} {x : Big} {n : Nat}
    (hx : AllLtW w x) (hcap : capOk cap x.length = true) (hnx : isNormalized x = true)
    (hx0 : x ≠ []) (h : shl w cap x n = none) :
    ∃ c, cap = some c ∧ Bw w ^ c ≤ toNatW w x * 2 ^ n :=
  shl_none_topNZ hw hx hcap (TopNZW_of_normalized hnx hx0) h

theorem shl_complete (hw : 0 < w) {cap : Option Nat} {x : Big} {n : Nat} (hx : AllLtW w x)
    (hcap : capOk cap x.length = true) (h : capOk cap (x.length + 1 + n / w) = true) :
    ∃ r, shl w cap x n = some r := by
  cases hr : shl w cap x n with
  | some r => exact ⟨r, rfl⟩
  | none => rw [shl_none hw hx hcap hr] at h; exact absurd h (by simp)

/-- Converse on the value: a normalised non-empty `x` is shifted successfully iff `x·2^n < Bw^c`. -/
theorem shl_some_iff_fits (hw : 0 < w) {c : Nat} {x : Big} {n : Nat} (hx : AllLtW w x)
    (hcap : capOk (some c) x.length = true) (hnx : isNormalized x = true) (hx0 : x ≠ []) :
    (∃ r, shl w (some c) x n = some r) ↔ toNatW w x * 2 ^ n < Bw w ^ c := by
  constructor
  · rintro ⟨r, hr⟩
    obtain ⟨a, b, d⟩ := shl_exact hw hx hcap hr
    rw [← a]; exact fits_of_some b d
  · intro hlt
    cases hr : shl w (some c) x n with
    | some r => exact ⟨r, rfl⟩
    | none =>
      obtain ⟨c', hc, hge⟩ := shl_overflow_normalized hw hx hcap hnx hx0 hr
      simp only [Option.some.injEq] at hc
      subst hc; omega

/-- `shl` keeps a non-empty normalised vector normalised and non-empty. -/
theorem shl_normalized (hw : 0 < w) {cap : Option Nat} {x r : Big} {n : Nat} (hx : AllLtW w x)
    (hcap : capOk cap x.length = true) (hn : isNormalized x = true) (hx0 : x ≠ [])
    (h : shl w cap x n = some r) : isNormalized r = true ∧ r ≠ [] :=
  W.shl_normalized hw hx hcap hn hx0 h

example : shl 32 (some 6) [4294967295, 4294967295] 131 = none := by decide
example : ∃ r, shl 32 (some 7) [4294967295, 4294967295] 131 = some r :=
  shl_complete (by decide) (by decide) (by decide) (by decide)

-- ================================================================ 3. multiplication

/-- `long_mul` for a non-empty second operand: exact product, normalised result. -/
theorem longMul_exact (hw : 0 < w) {cap : Option Nat} {x y r : Big} (hx : AllLtW w x)
    (hy : AllLtW w y) (hy0 : y ≠ []) (h : longMul w cap x y = some r) :
    toNatW w r = toNatW w x * toNatW w y ∧ AllLtW w r ∧ capOk cap r.length = true ∧
    isNormalized r = true :=
  longMul_spec hw hx hy hy0 h

example : longMul 32 (some 125) [4294967295, 4294967295] [4294967295, 4294967295, 0]
    = some [1, 0, 4294967294, 4294967295] := by decide
example : toNatW 32 [1, 0, 4294967294, 4294967295]
    = toNatW 32 [4294967295, 4294967295] * toNatW 32 [4294967295, 4294967295, 0] :=
  (longMul_exact (by decide) (cap := some 125) (x := [4294967295, 4294967295])
    (y := [4294967295, 4294967295, 0]) (by decide) (by decide) (by decide) (by decide)).1

/-- The "non-zero factors" precondition: with an empty second operand `long_mul` returns the first
    operand (normalised), not zero. -/
theorem longMul_empty {cap : Option Nat} {x : Big} (h : capOk cap x.length = true) :
    longMul w cap x [] = some (normalize x) :=
  longMul_nil cap x h

example : longMul 32 none [1, 2] [] = some [1, 2] := by decide

/-- `long_mul` succeeds whenever `x.len() + y.len()` limbs are available … -/
theorem longMul_complete (hw : 0 < w) {cap : Option Nat} {x y : Big} (hx : AllLtW w x)
    (hy : AllLtW w y) (h : capOk cap (x.length + y.length) = true) :
    ∃ r, longMul w cap x y = some r :=
  longMul_some hw hx hy h

/-- … so it fails only on the stack back-end with `x.len() + y.len() > c`. -/
theorem longMul_overflow (hw : 0 < w) {cap : Option Nat} {x y : Big} (hx : AllLtW w x)
    (hy : AllLtW w y) (h : longMul w cap x y = none) :
    ∃ c, cap = some c ∧ x.length + y.length > c := by
  apply capOk_false_iff.mp
  cases hc : capOk cap (x.length + y.length) with
  | false => rfl
  | true =>
    obtain ⟨r, hr⟩ := longMul_complete hw hx hy hc
    rw [hr] at h; exact absurd h (by simp)

/-- For a normalised non-zero `x` and a non-zero `y`, failure means the exact product does not
    fit: no intermediate result of the schoolbook loop is larger than the final product. -/
theorem longMul_overflow_normalized (hw : 0 < w) {cap : Option Nat} {x y : Big}
    (hx : AllLtW w x) (hy : AllLtW w y) (hnx : isNormalized x = true) (hx0 : x ≠ [])
    (hy0 : toNatW w y ≠ 0) (h : longMul w cap x y = none) :
    ∃ c, cap = some c ∧ Bw w ^ c ≤ toNatW w x * toNatW w y :=
  longMul_none_topNZ hw hx hy (TopNZW_of_normalized hnx hx0) (Nat.pos_of_ne_zero hy0) h

/-- On the stack back-end, for normalised non-zero operands: success iff the product fits. -/
theorem longMul_some_iff_fits (hw : 0 < w) {c : Nat} {x y : Big} (hx : AllLtW w x)
    (hy : AllLtW w y) (hnx : isNormalized x = true) (hx0 : x ≠ []) (hy0 : toNatW w y ≠ 0) :
    (∃ r, longMul w (some c) x y = some r) ↔ toNatW w x * toNatW w y < Bw w ^ c := by
  have hyne : y ≠ [] := by intro h0; subst h0; exact hy0 rfl
  constructor
  · rintro ⟨r, hr⟩
    obtain ⟨a, b, d, _⟩ := longMul_exact hw hx hy hyne hr
    rw [← a]; exact fits_of_some b d
  · intro hlt
    cases hr : longMul w (some c) x y with
    | some r => exact ⟨r, rfl⟩
    | none =>
      obtain ⟨c', hc, hge⟩ := longMul_overflow_normalized hw hx hy hnx hx0 hy0 hr
      simp only [Option.some.injEq] at hc
      subst hc; omega

example : longMul 32 (some 3) [4294967295, 4294967295] [4294967295, 4294967295] = none := by decide
example : ∃ r, longMul 32 (some 4) [4294967295, 4294967295] [4294967295, 4294967295] = some r :=
  longMul_complete (by decide) (by decide) (by decide) (by decide)
example : ∃ r, longMul 32 (some 3) [4294967295, 4294967295] [4294967295] = some r :=
  (longMul_some_iff_fits (by decide) (by decide) (by decide) (by decide) (by decide)
    (by decide)).mpr (by decide)

/-- `large_mul` for a non-empty first operand (the vector being updated). -/
theorem largeMul_exact (hw : 0 < w) {cap : Option Nat} {x y r : Big} (hx : AllLtW w x)
    (hy : AllLtW w y) (hx0 : x ≠ []) (hcap : capOk cap x.length = true)
    (h : largeMul w cap x y = some r) :
    toNatW w r = toNatW w x * toNatW w y ∧ AllLtW w r ∧ capOk cap r.length = true :=
  largeMul_spec hw hx hy hx0 hcap h

example : toNatW 32 [1, 0, 4294967294, 4294967295]
    = toNatW 32 [4294967295, 4294967295] * toNatW 32 [4294967295, 4294967295] :=
  (largeMul_exact (by decide) (cap := some 125) (x := [4294967295, 4294967295])
    (y := [4294967295, 4294967295]) (by decide) (by decide) (by decide) (by decide) (by decide)).1

/-- The "non-zero factors" precondition of `large_mul`: an empty (zero) vector multiplied by a
    multi-limb `y` becomes `y`, not zero; an empty `y` gives zero as expected. -/
example : largeMul 32 none [] [1, 2] = some [1, 2] := by decide
example : largeMul 32 none [] [3] = some [] := by decide
example : largeMul 32 none [1, 2] [] = some [] := by decide

theorem largeMul_complete (hw : 0 < w) {cap : Option Nat} {x y : Big} (hx : AllLtW w x)
    (hy : AllLtW w y) (h : capOk cap (x.length + y.length) = true) :
    ∃ r, largeMul w cap x y = some r :=
  largeMul_some hw hx hy h

theorem largeMul_overflow (hw : 0 < w) {cap : Option Nat} {x y : Big} (hx : AllLtW w x)
    (hy : AllLtW w y) (h : largeMul w cap x y = none) :
    ∃ c, cap = some c ∧ x.length + y.length > c := by
  apply capOk_false_iff.mp
  cases hc : capOk cap (x.length + y.length) with
  | false => rfl
  | true =>
    obtain ⟨r, hr⟩ := largeMul_complete hw hx hy hc
    rw [hr] at h; exact absurd h (by simp)

theorem largeMul_overflow_normalized (hw : 0 < w) {cap : Option Nat} {x y : Big}
    (hx : AllLtW w x) (hy : AllLtW w y) (hnx : isNormalized x = true) (hx0 : x ≠ [])
    (hny : isNormalized y = true) (hy0 : y ≠ []) (h : largeMul w cap x y = none) :
    ∃ c, cap = some c ∧ Bw w ^ c ≤ toNatW w x * toNatW w y :=
  largeMul_none_topNZ hw hx hy (TopNZW_of_normalized hnx hx0) (TopNZW_of_normalized hny hy0) h

/-- On the stack back-end, for normalised non-zero operands: success iff the product fits. -/
theorem largeMul_some_iff_fits (hw : 0 < w) {c : Nat} {x y : Big} (hx : AllLtW w x)
    (hy : AllLtW w y) (hnx : isNormalized x = true) (hx0 : x ≠ []) (hny : isNormalized y = true)
    (hy0 : y ≠ []) (hcap : capOk (some c) x.length = true) :
    (∃ r, largeMul w (some c) x y = some r) ↔ toNatW w x * toNatW w y < Bw w ^ c := by
  constructor
  · rintro ⟨r, hr⟩
    obtain ⟨a, b, d⟩ := largeMul_exact hw hx hy hx0 hcap hr
    rw [← a]; exact fits_of_some b d
  · intro hlt
    cases hr : largeMul w (some c) x y with
    | some r => exact ⟨r, rfl⟩
    | none =>
      obtain ⟨c', hc, hge⟩ := largeMul_overflow_normalized hw hx hy hnx hx0 hny hy0 hr
      simp only [Option.some.injEq] at hc
      subst hc; omega

example : largeMul 32 (some 3) [4294967295, 4294967295] [4294967295, 4294967295] = none := by decide
example : ∃ r, largeMul 32 (some 3) [4294967295, 4294967295] [4294967295] = some r :=
  (largeMul_some_iff_fits (by decide) (by decide) (by decide) (by decide) (by decide) (by decide)
    (by decide) (by decide)).mpr (by decide)

-- ================================================================ 7. powers

/-- the table fact: the ten 32-bit limbs of `LARGE_POW5` are `5^135` -/
theorem largePow5W32_exact : toNatW 32 Gen.largePow5W32 = 5 ^ 135 := largePow5W32_val

/-- The tables of the 32-bit build, regenerated from the source text, satisfy what `pow` needs:
    `LARGE_POW5 = 5^135` (normalised limbs `< 2^32`) and `SMALL_INT_POW5[i] = 5^i` for `i < 13`. -/
theorem genPowW_tablesOK (compact : Bool) : PowTablesOKW 32 (genPowW 32 compact) :=
  genPowW32_tablesOK compact

/-- … and at `w = 64` `genPowW` is the old `genPow`, with `i < 27`. -/
theorem genPowW_tablesOK64 (compact : Bool) : PowTablesOKW 64 (genPowW 64 compact) :=
  genPowW64_tablesOK compact

/-- the hypotheses in the form given in the task statement imply `PowTablesOKW` -/
theorem tablesOK_of_facts {T : PowTables} (hstep : T.largePow5Step = 135)
    (hval : toNatW w T.largePow5 = 5 ^ 135) (hlt : AllLtW w T.largePow5)
    (hnorm : isNormalized T.largePow5 = true)
    (hsmall : ∀ i, i < powStep w → T.smallIntPow5.getD i 0 = 5 ^ i) : PowTablesOKW w T :=
  ⟨by rw [hval, hstep], hlt, hnorm, hsmall⟩

/-- `bigint::pow`: multiplication by `5^e`, for a non-zero `x`.
    (The tables are consulted only when `T.compact = false`.)
    Named `_partial` as in C12: the hypothesis has to be `toNatW w x ≠ 0`, not merely `x ≠ []`. -/
theorem pow_exact_partial (hw : w = 32 ∨ w = 64) {cap : Option Nat} {T : PowTables}
    (hT : T.compact = false → PowTablesOKW w T)
    {x r : Big} {e : Nat} (hx : AllLtW w x) (h0 : toNatW w x ≠ 0)
    (hcap : capOk cap x.length = true) (h : pow w cap T x e = some r) :
    toNatW w r = toNatW w x * 5 ^ e ∧ AllLtW w r ∧ capOk cap r.length = true := by
  obtain ⟨a, b, c, _⟩ := pow_spec hw hT hx (Or.inl h0) hcap h
  exact ⟨a, b, c⟩

/-- When no large-power step is taken (compact build, or `e` below the step) the result is exact
    for every `x`, zero included. -/
theorem pow_exact_small (hw : w = 32 ∨ w = 64) {cap : Option Nat} {T : PowTables}
    (hT : T.compact = false → PowTablesOKW w T) {x r : Big} {e : Nat} (hx : AllLtW w x)
    (hsmall : T.compact = true ∨ e < T.largePow5Step) (hcap : capOk cap x.length = true)
    (h : pow w cap T x e = some r) :
    toNatW w r = toNatW w x * 5 ^ e ∧ AllLtW w r ∧ capOk cap r.length = true := by
  obtain ⟨a, b, c, _⟩ := pow_spec hw hT hx (Or.inr hsmall) hcap h
  exact ⟨a, b, c⟩

/-- What is true on the empty vector (value 0) in a non-compact build when `e ≥ 135`: the first
    `large_mul` (whose precondition "non-zero factors" is violated) replaces the empty vector by
    `LARGE_POW5`, so `pow` returns `5^e`, not `0·5^e = 0`. -/
theorem pow_empty_large' (hw : w = 32 ∨ w = 64) {cap : Option Nat} {T : PowTables}
    (hT : PowTablesOKW w T)
    (hcm : T.compact = false) (hlen : T.largePow5.length ≠ 1) (hs : T.largePow5Step ≠ 0)
    {e : Nat} {r : Big} (he : T.largePow5Step ≤ e) (h : pow w cap T [] e = some r) :
    toNatW w r = 5 ^ e ∧ AllLtW w r ∧ capOk cap r.length = true :=
  pow_empty_large hw hT hcm hlen hs he h

example (r : Big) (h : pow 32 none (genPowW 32 false) [] 200 = some r) : toNatW 32 r = 5 ^ 200 :=
  (pow_empty_large' (Or.inl rfl) (genPowW_tablesOK false) rfl (by decide) (by decide) (by decide)
    h).1
example (r : Big) (h : pow 32 none (genPowW 32 false) [0, 0] 100 = some r) : toNatW 32 r = 0 := by
  have := (pow_exact_small (Or.inl rfl) (fun _ => genPowW_tablesOK false) (x := [0, 0])
    (by decide) (Or.inr (by decide)) rfl h).1
  simpa [toNatW] using this

example : (pow 32 (some 125) (genPowW 32 false) [3, 1] 300).isSome = true := by decide +kernel
example (r : Big) (h : pow 32 (some 125) (genPowW 32 false) [3, 1] 300 = some r) :
    toNatW 32 r = toNatW 32 [3, 1] * 5 ^ 300 :=
  (pow_exact_partial (Or.inl rfl) (fun _ => genPowW_tablesOK false) (by decide) (by decide)
    (by decide) h).1
example (r : Big) (h : pow 32 (some 125) (genPowW 32 true) [3, 1] 300 = some r) :
    toNatW 32 r = toNatW 32 [3, 1] * 5 ^ 300 :=
  (pow_exact_partial (Or.inl rfl) (fun hc => absurd hc (by decide)) (by decide) (by decide)
    (by decide) h).1

/-- `toNatW w x ≠ 0` is necessary (the "non-zero factors" precondition of `large_mul`): on the
    empty vector, or on a vector that `long_mul` normalises to empty, a step of the large-power
    loop replaces zero by `5^135`. -/
example : (pow 32 none (genPowW 32 false) [] 135).map (toNatW 32) = some (5 ^ 135) := by
  decide +kernel
example : (pow 32 none (genPowW 32 false) [0] 270).map (toNatW 32) = some (5 ^ 135) := by
  decide +kernel
example : pow 32 none (genPowW 32 false) [] 134 = some [] := by decide +kernel

/-- For a normalised non-zero `x`, `pow` fails only if `x·5^e ≥ Bw^c`. -/
theorem pow_overflow_normalized (hw : w = 32 ∨ w = 64) {cap : Option Nat} {T : PowTables}
    (hT : T.compact = false → PowTablesOKW w T) {x : Big} {e : Nat} (hx : AllLtW w x)
    (hnx : isNormalized x = true) (hx0 : x ≠ []) (hcap : capOk cap x.length = true)
    (h : pow w cap T x e = none) : ∃ c, cap = some c ∧ Bw w ^ c ≤ toNatW w x * 5 ^ e :=
  pow_none_topNZ hw hT hx (TopNZW_of_normalized hnx hx0) hcap h

/-- On the stack back-end, for a normalised non-zero `x`: success iff `x·5^e` fits. -/
theorem pow_some_iff_fits (hw : w = 32 ∨ w = 64) {c : Nat} {T : PowTables}
    (hT : T.compact = false → PowTablesOKW w T)
    {x : Big} {e : Nat} (hx : AllLtW w x) (hnx : isNormalized x = true) (hx0 : x ≠ [])
    (hcap : capOk (some c) x.length = true) :
    (∃ r, pow w (some c) T x e = some r) ↔ toNatW w x * 5 ^ e < Bw w ^ c := by
  have h0 : toNatW w x ≠ 0 := (toNatW_pos_of_normalized hnx hx0).ne'
  constructor
  · rintro ⟨r, hr⟩
    obtain ⟨a, b, d⟩ := pow_exact_partial hw hT hx h0 hcap hr
    rw [← a]; exact fits_of_some b d
  · intro hlt
    cases hr : pow w (some c) T x e with
    | some r => exact ⟨r, rfl⟩
    | none =>
      obtain ⟨c', hc, hge⟩ := pow_overflow_normalized hw hT hx hnx hx0 hcap hr
      simp only [Option.some.injEq] at hc
      subst hc; omega

/-- `pow` keeps a non-empty normalised vector normalised and non-empty. -/
theorem pow_normalized (hw : w = 32 ∨ w = 64) {cap : Option Nat} {T : PowTables}
    (hT : T.compact = false → PowTablesOKW w T) {x r : Big} {e : Nat} (hx : AllLtW w x)
    (hn : isNormalized x = true) (hx0 : x ≠ []) (hc : capOk cap x.length = true)
    (h : pow w cap T x e = some r) : isNormalized r = true ∧ r ≠ [] :=
  W.pow_normalized hw hT hx hn hx0 hc h

example : pow 32 (some 22) (genPowW 32 false) [3, 1] 300 = none := by decide +kernel

/-- `Bigint::pow(base, exp)` for `base ∈ {2, 5, 10}`. -/
theorem bigintPow_exact_partial (hw : w = 32 ∨ w = 64) {cap : Option Nat} {T : PowTables}
    (hT : T.compact = false → PowTablesOKW w T) {x r : Big} {base e : Nat}
    (hb : base = 2 ∨ base = 5 ∨ base = 10) (hx : AllLtW w x) (h0 : toNatW w x ≠ 0)
    (hcap : capOk cap x.length = true) (h : bigintPow w cap T x base e = some r) :
    toNatW w r = toNatW w x * base ^ e ∧ AllLtW w r ∧ capOk cap r.length = true :=
  bigintPow_spec hw hT hb hx h0 hcap h

example : (bigintPow 32 (some 125) (genPowW 32 false) [7] 10 310).isSome = true := by
  decide +kernel
example (r : Big) (h : bigintPow 32 (some 125) (genPowW 32 false) [7] 10 310 = some r) :
    toNatW 32 r = toNatW 32 [7] * 10 ^ 310 :=
  (bigintPow_exact_partial (Or.inl rfl) (fun _ => genPowW_tablesOK false) (Or.inr (Or.inr rfl))
    (by decide) (by decide) (by decide) h).1

theorem bigintPow_overflow_normalized (hw : w = 32 ∨ w = 64) {cap : Option Nat} {T : PowTables}
    (hT : T.compact = false → PowTablesOKW w T) {x : Big} {base e : Nat}
    (hb : base = 2 ∨ base = 5 ∨ base = 10) (hx : AllLtW w x) (hnx : isNormalized x = true)
    (hx0 : x ≠ []) (hcap : capOk cap x.length = true) (h : bigintPow w cap T x base e = none) :
    ∃ c, cap = some c ∧ Bw w ^ c ≤ toNatW w x * base ^ e :=
  bigintPow_none_topNZ hw hT hb hx (TopNZW_of_normalized hnx hx0) hcap h

/-- On the stack back-end, for a normalised non-zero `x`: success iff `x·base^e` fits. -/
theorem bigintPow_some_iff_fits (hw : w = 32 ∨ w = 64) {c : Nat} {T : PowTables}
    (hT : T.compact = false → PowTablesOKW w T) {x : Big} {base e : Nat}
    (hb : base = 2 ∨ base = 5 ∨ base = 10) (hx : AllLtW w x) (hnx : isNormalized x = true)
    (hx0 : x ≠ []) (hcap : capOk (some c) x.length = true) :
    (∃ r, bigintPow w (some c) T x base e = some r) ↔ toNatW w x * base ^ e < Bw w ^ c := by
  have h0 : toNatW w x ≠ 0 := (toNatW_pos_of_normalized hnx hx0).ne'
  constructor
  · rintro ⟨r, hr⟩
    obtain ⟨a, b, d⟩ := bigintPow_exact_partial hw hT hb hx h0 hcap hr
    rw [← a]; exact fits_of_some b d
  · intro hlt
    cases hr : bigintPow w (some c) T x base e with
    | some r => exact ⟨r, rfl⟩
    | none =>
      obtain ⟨c', hc, hge⟩ := bigintPow_overflow_normalized hw hT hb hx hnx hx0 hcap hr
      simp only [Option.some.injEq] at hc
      subst hc; omega

/-- `Bigint::pow` keeps a non-empty normalised vector normalised and non-empty. -/
theorem bigintPow_normalized (hw : w = 32 ∨ w = 64) {cap : Option Nat} {T : PowTables}
    (hT : T.compact = false → PowTablesOKW w T) {x r : Big} {base e : Nat}
    (hb : base = 2 ∨ base = 5 ∨ base = 10) (hx : AllLtW w x) (hn : isNormalized x = true)
    (hx0 : x ≠ []) (hc : capOk cap x.length = true) (h : bigintPow w cap T x base e = some r) :
    isNormalized r = true ∧ r ≠ [] :=
  W.bigintPow_normalized hw hT hb hx hn hx0 hc h

/-- `7·10^1200 < 2^4000` still fits the 125-limb stack vector (it does not fit 62 64-bit limbs);
    `7·10^1210` does not. -/
example : (bigintPow 32 (some 125) (genPowW 32 false) [7] 10 1200).isSome = true := by
  decide +kernel
example : bigintPow 32 (some 125) (genPowW 32 false) [7] 10 1210 = none := by decide +kernel

/-- the four power theorems instantiated at the tables of the 32-bit build, `T = genPowW 32 compact`
    (either value of `compact`), 125-limb or heap back-end alike -/
theorem pow32_exact_partial {cap : Option Nat} (compact : Bool) {x r : Big} {e : Nat}
    (hx : AllLtW 32 x) (h0 : toNatW 32 x ≠ 0) (hcap : capOk cap x.length = true)
    (h : pow 32 cap (genPowW 32 compact) x e = some r) :
    toNatW 32 r = toNatW 32 x * 5 ^ e ∧ AllLtW 32 r ∧ capOk cap r.length = true :=
  pow_exact_partial (Or.inl rfl) (fun _ => genPowW_tablesOK compact) hx h0 hcap h

theorem pow32_some_iff_fits {c : Nat} (compact : Bool) {x : Big} {e : Nat} (hx : AllLtW 32 x)
    (hnx : isNormalized x = true) (hx0 : x ≠ []) (hcap : capOk (some c) x.length = true) :
    (∃ r, pow 32 (some c) (genPowW 32 compact) x e = some r) ↔ toNatW 32 x * 5 ^ e < Bw 32 ^ c :=
  pow_some_iff_fits (Or.inl rfl) (fun _ => genPowW_tablesOK compact) hx hnx hx0 hcap

theorem bigintPow32_exact_partial {cap : Option Nat} (compact : Bool) {x r : Big} {base e : Nat}
    (hb : base = 2 ∨ base = 5 ∨ base = 10) (hx : AllLtW 32 x) (h0 : toNatW 32 x ≠ 0)
    (hcap : capOk cap x.length = true)
    (h : bigintPow 32 cap (genPowW 32 compact) x base e = some r) :
    toNatW 32 r = toNatW 32 x * base ^ e ∧ AllLtW 32 r ∧ capOk cap r.length = true :=
  bigintPow_exact_partial (Or.inl rfl) (fun _ => genPowW_tablesOK compact) hb hx h0 hcap h

theorem bigintPow32_some_iff_fits {c : Nat} (compact : Bool) {x : Big} {base e : Nat}
    (hb : base = 2 ∨ base = 5 ∨ base = 10) (hx : AllLtW 32 x) (hnx : isNormalized x = true)
    (hx0 : x ≠ []) (hcap : capOk (some c) x.length = true) :
    (∃ r, bigintPow 32 (some c) (genPowW 32 compact) x base e = some r) ↔
      toNatW 32 x * base ^ e < Bw 32 ^ c :=
  bigintPow_some_iff_fits (Or.inl rfl) (fun _ => genPowW_tablesOK compact) hb hx hnx hx0 hcap

/-- on the real back-end of the 32-bit build (`capW 32 false = some 125`): `7·10^e` is computed
    iff it is below `2^4000` -/
example (e : Nat) : (∃ r, bigintPow 32 (capW 32 false) (genPowW 32 true) [7] 10 e = some r) ↔
    toNatW 32 [7] * 10 ^ e < Bw 32 ^ 125 :=
  bigintPow32_some_iff_fits true (Or.inr (Or.inr rfl)) (by decide) (by decide) (by decide)
    (by decide)

-- ================================================================ 8. bit_length / hi64

/-- `bit_length` of a normalised non-zero big integer (any limb width). -/
theorem bitLength_exact {x : Big} (hx : AllLtW w x) (hn : isNormalized x = true) (hne : x ≠ []) :
    bitLength w x = Nat.log2 (toNatW w x) + 1 :=
  bitLength_spec hx hn hne

example : bitLength 32 [7, 5] = Nat.log2 (toNatW 32 [7, 5]) + 1 ∧ bitLength 32 [7, 5] = 35 :=
  ⟨bitLength_exact (by decide) (by decide) (by decide), by decide +kernel⟩

/-- `hi64` (32-bit limbs: `u32_to_hi64_1/2/3` on the top three limbs) of a normalised non-zero big
    integer: the top 64 bits (left-aligned) and whether any lower bit is set. -/
theorem hi64_exact {x : Big} (hx : AllLtW 32 x) (hn : isNormalized x = true) (hne : x ≠ []) :
    (64 ≤ bitLength 32 x →
      (hi64 32 x).1 = toNatW 32 x / 2 ^ (bitLength 32 x - 64) ∧
      (hi64 32 x).2 = decide (toNatW 32 x % 2 ^ (bitLength 32 x - 64) ≠ 0)) ∧
    (bitLength 32 x < 64 →
      (hi64 32 x).1 = toNatW 32 x * 2 ^ (64 - bitLength 32 x) ∧ (hi64 32 x).2 = false) :=
  hi64_spec32 hx hn hne

/-- the returned 64-bit mantissa is left-aligned: its top bit is set -/
theorem hi64_normalized {x : Big} (hx : AllLtW 32 x) (hn : isNormalized x = true) (hne : x ≠ []) :
    2 ^ 63 ≤ (hi64 32 x).1 ∧ (hi64 32 x).1 < 2 ^ 64 :=
  hi64_top_bit32 hx hn hne

/-- the same two facts at `w = 64` (where `W.hi64 64 = MinLex.hi64`) -/
theorem hi64_exact64 {x : Big} (hx : AllLtW 64 x) (hn : isNormalized x = true) (hne : x ≠ []) :
    (64 ≤ bitLength 64 x →
      (hi64 64 x).1 = toNatW 64 x / 2 ^ (bitLength 64 x - 64) ∧
      (hi64 64 x).2 = decide (toNatW 64 x % 2 ^ (bitLength 64 x - 64) ≠ 0)) ∧
    (bitLength 64 x < 64 →
      (hi64 64 x).1 = toNatW 64 x * 2 ^ (64 - bitLength 64 x) ∧ (hi64 64 x).2 = false) :=
  hi64_spec64 hx hn hne

theorem hi64_normalized64 {x : Big} (hx : AllLtW 64 x) (hn : isNormalized x = true)
    (hne : x ≠ []) : 2 ^ 63 ≤ (hi64 64 x).1 ∧ (hi64 64 x).1 < 2 ^ 64 :=
  hi64_top_bit64 hx hn hne

example : hi64 32 [1, 0, 0, 5] = (5 * 2 ^ 61, true) ∧ bitLength 32 [1, 0, 0, 5] = 99 := by
  decide +kernel
example : (hi64 32 [1, 0, 0, 5]).1
    = toNatW 32 [1, 0, 0, 5] / 2 ^ (bitLength 32 [1, 0, 0, 5] - 64) :=
  ((hi64_exact (x := [1, 0, 0, 5]) (by decide) (by decide) (by decide)).1 (by decide +kernel)).1
example : hi64 32 [5] = (5 * 2 ^ 61, false) ∧ hi64 32 [7, 5] = (5 * 2 ^ 61 + 7 * 2 ^ 29, false) := by
  decide +kernel

/-- Outside the contract (zero top limb): `hi64 32 [1, 0, 0]` is `(1, true)`, whereas the value 1
    has top bits `2^63` and no truncated bits. -/
example : hi64 32 [1, 0, 0] = (1, true) ∧ isNormalized [1, 0, 0] = false ∧
    hi64 32 [1] = (2 ^ 63, false) := by
  decide +kernel

-- ================================================================ 9. the heap back-end never fails

/-- On the heap back-end (`cap = none`) no operation ever reports overflow, for ALL inputs and
    every limb width (no `AllLtW`, normalisation or table hypotheses needed). -/
theorem heap_total (w : Nat) (T : PowTables) (x y : Big) (v n base : Nat) :
    (∃ r, smallAdd w none x v = some r) ∧ (∃ r, smallAddFrom w none x v n = some r) ∧
    (∃ r, smallMul w none x v = some r) ∧
    (∃ r, largeAdd w none x y = some r) ∧ (∃ r, largeAddFrom w none x y n = some r) ∧
    (∃ r, longMul w none x y = some r) ∧ (∃ r, largeMul w none x y = some r) ∧
    (∃ r, shlBits w none x n = some r) ∧ (∃ r, shlLimbs none x n = some r) ∧
    (∃ r, shl w none x n = some r) ∧
    (∃ r, pow w none T x n = some r) ∧ (∃ r, bigintPow w none T x base n = some r) :=
  ⟨smallAddFrom_heap x v 0, smallAddFrom_heap x v n, smallMul_heap x v,
   largeAddFrom_heap x y 0, largeAddFrom_heap x y n, longMul_heap x y, largeMul_heap x y,
   shlBits_heap x n, shlLimbs_heap x n, shl_heap x n, pow_heap_total T x n,
   bigintPow_heap_total T x base n⟩

end MinLex.W.Ops
