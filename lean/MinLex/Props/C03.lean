/-
  C03 — round trip: every finite non-negative float is recovered from
    (a) its exact decimal expansion,
    (b) its value rounded to 17 (f64) / 9 (f32) significant decimal digits,
    (c) any digit string that identifies it (in particular the shortest one).

  Specification level (no contract needed): `C03a_spec`, `C03b_spec` (the classical argument:
  `10^16 > 2^53`, resp. `10^8 > 2^24`, so the spacing of 17- or 9-digit decimals is below the spacing of
  the floats on both sides — also across a power of two and for subnormals), `C03b_f64`, `C03b_f32`.
  Parse level: FULL theorems for the non-compact configurations (`C03a_noncompact`,
  `C03b_f64_noncompact`, `C03b_f32_noncompact`, `C03c_noncompact`), `_partial` forms over all
  configurations under `OpenCompact F`.
-/
import MinLex.Proofs.Compose
namespace MinLex.C03
open MinLex MinLex.Main MinLex.Compose

-- ------------------------------------------------------------------ (a) exact expansion
/-- (a) spec: a value equal to that of a finite float rounds to that float -/
theorem C03a_spec (f : Fmt) {b : Nat} (hb : b < f.infBits) {v : Q} (hv : 0 < v.den)
    (h : Q.eqv v (decodeQ f b)) : rne f v = b := by
  rw [RneSpec.rne_congr f hv (decodeQ_den_pos f b) h, RneSpec.rne_decode f hb]

theorem C03a_of_parseCorrect {E : Env} {F : FloatC} (h : ParseCorrect E F) {b : Nat}
    (hb : b < F.fmt.infBits) (int frac : List UInt8) (e : Int) (hv : Valid int frac e)
    (heq : Q.eqv (digitsValue int frac e) (decodeQ F.fmt b)) :
    parseFloat E F int frac e = .ok b := by
  rw [h int frac e hv, C03a_spec F.fmt hb (MinLex.digitsValue_den_pos _ _ _) heq]

/-- **(a), non-compact configurations**: the exact decimal expansion of a finite float parses back
    to it (the expansion of an f64 can have 767 significant digits). -/
theorem C03a_noncompact (cfg : Cfg) (hc : cfg.compact = false) {F : FloatC}
    (hF : F = Gen.F32 ∨ F = Gen.F64) {b : Nat} (hb : b < F.fmt.infBits)
    (int frac : List UInt8) (e : Int) (hv : Valid int frac e)
    (heq : Q.eqv (digitsValue int frac e) (decodeQ F.fmt b)) :
    parseFloat (genEnv cfg) F int frac e = .ok b :=
  C03a_of_parseCorrect (parseCorrect_noncompact cfg hc hF) hb int frac e hv heq

theorem C03a_partial (cfg : Cfg) {F : FloatC} (hF : F = Gen.F32 ∨ F = Gen.F64) (h : OpenCompact F)
    {b : Nat} (hb : b < F.fmt.infBits) (int frac : List UInt8) (e : Int) (hv : Valid int frac e)
    (heq : Q.eqv (digitsValue int frac e) (decodeQ F.fmt b)) :
    parseFloat (genEnv cfg) F int frac e = .ok b :=
  C03a_of_parseCorrect (parseCorrect_of_open cfg hF h) hb int frac e hv heq

-- 0.1f32 = 0.100000001490116119384765625 exactly
example : (0x3DCCCCCD : Nat) < Gen.F32.fmt.infBits ∧
    Valid [] [49, 48, 48, 48, 48, 48, 48, 48, 49, 52, 57, 48, 49, 49, 54, 49, 49, 57, 51, 56, 52, 55,
      54, 53, 54, 50, 53] 0 ∧
    Q.eqv (digitsValue [] [49, 48, 48, 48, 48, 48, 48, 48, 49, 52, 57, 48, 49, 49, 54, 49, 49, 57, 51,
      56, 52, 55, 54, 53, 54, 50, 53] 0) (decodeQ Gen.F32.fmt 0x3DCCCCCD) := by decide +kernel

-- ------------------------------------------------------------------ (b) 17 / 9 significant digits
/-- `d` is `v` rounded to `nd` significant decimal digits (any tie-breaking rule): `d = m·10^k` with
    an `nd`-digit integer `m`, and `|v − d| ≤ 10^k / 2`, written as
    `(10m − 5)·10^(k−1) ≤ v ≤ (10m + 5)·10^(k−1)`. -/
def Rounded (nd : Nat) (v d : Q) : Prop :=
  ∃ (m : Nat) (k : Int), 10^(nd-1) ≤ m ∧ m < 10^nd ∧ Q.eqv d (ofDec m k) ∧
    Q.le (ofDec (10*m - 5) (k-1)) v ∧ Q.le v (ofDec (10*m + 5) (k-1))

/-- the arithmetic heart: if `d = m·T` is within `T/2` above... of `v ≤ P·G` and `m ≥ P + 1`, the
    decimal spacing `T` is below the binary spacing `G` -/
theorem spacing_lt {P m T G v d : ℚ} (hP : 0 ≤ P) (hT : 0 < T) (hv : v ≤ P * G)
    (hd : d = m * T) (hm : P + 1 ≤ m) (h : d ≤ v + T / 2) : T < G := by
  by_contra hc
  have hGT : G ≤ T := not_lt.1 hc
  have h1 : P * G ≤ P * T := mul_le_mul_of_nonneg_left hGT hP
  have h2 : (P + 1) * T ≤ m * T := mul_le_mul_of_nonneg_right hm hT.le
  nlinarith

/-- (b) spec, general format: if `10^(nd−1) > 2^(mbits+1)` then every finite non-zero float `b` is
    recovered from any `nd`-digit rounding of its value. -/
theorem C03b_spec (f : Fmt) (nd : Nat) (hnd : 2^(f.mbits+1) + 1 ≤ 10^(nd-1)) {b : Nat} (h0 : 1 ≤ b)
    (hb : b < f.infBits) {d : Q} (hd : 0 < d.den) (hr : Rounded nd (decodeQ f b) d) :
    rne f d = b := by
  obtain ⟨m, k, hm, _, hdm, hlo, hhi⟩ := hr
  have hvd := decodeQ_den_pos f b
  -- everything in ℚ
  have hdR : d.toRat = (m:ℚ) * (10:ℚ)^k := by
    rw [(Q.eqv_iff hd (ofDec_den_pos _ _)).1 hdm, ofDec_toRat]
  have hm5 : 5 ≤ 10 * m := by
    have : 1 ≤ 10^(nd-1) := Nat.pow_pos (by decide)
    omega
  have hk : (10:ℚ)^(k-1) * 10 = (10:ℚ)^k := by
    rw [zpow_sub_one₀ (by norm_num : (10:ℚ) ≠ 0)]; field_simp
  have hT : (0:ℚ) < (10:ℚ)^k := by positivity
  have hloR : d.toRat - (10:ℚ)^k / 2 ≤ (decodeQ f b).toRat := by
    have := (Q.le_iff (ofDec_den_pos _ _) hvd).1 hlo
    rw [ofDec_toRat] at this
    have e : ((10 * m - 5 : Nat) : ℚ) = 10 * (m:ℚ) - 5 := by
      rw [Nat.cast_sub hm5]; push_cast; ring
    rw [e] at this
    rw [hdR, ← hk]
    linarith
  have hhiR : (decodeQ f b).toRat ≤ d.toRat + (10:ℚ)^k / 2 := by
    have := (Q.le_iff hvd (ofDec_den_pos _ _)).1 hhi
    rw [ofDec_toRat] at this
    push_cast at this
    rw [hdR, ← hk]
    linarith
  -- the two representations of v
  obtain ⟨_, c2, _, _, _⟩ := decode_canonical f b
  obtain ⟨_, c2', _, _, _⟩ := decode_canonical f (b - 1)
  have hb1 : b - 1 + 1 = b := by omega
  have hvM := decodeQ_toRat f b
  have hvM' := decodeQ_succ_toRat f (b - 1)
  rw [hb1] at hvM'
  have hsucc := decodeQ_succ_toRat f b
  have hpred := decodeQ_toRat f (b - 1)
  have hmidhi := midpoint_toRat f b
  have hmidlo := midpoint_toRat f (b - 1)
  rw [hb1] at hmidlo
  have hG := two_zpow_pos (decode f b).2
  have hG' := two_zpow_pos (decode f (b - 1)).2
  generalize (2:ℚ)^(decode f b).2 = G at *
  generalize (2:ℚ)^(decode f (b - 1)).2 = G' at *
  generalize (10:ℚ)^k = T at *
  have hP : (0:ℚ) ≤ ((2^(f.mbits+1) : Nat) : ℚ) := Nat.cast_nonneg _
  have hmP : ((2^(f.mbits+1) : Nat) : ℚ) + 1 ≤ (m:ℚ) := by
    have : 2^(f.mbits+1) + 1 ≤ m := le_trans hnd hm
    exact_mod_cast this
  have hML : (((decode f b).1 : Nat) : ℚ) ≤ ((2^(f.mbits+1) : Nat) : ℚ) := by
    exact_mod_cast c2.le
  have hML' : ((((decode f (b - 1)).1 + 1 : Nat)) : ℚ) ≤ ((2^(f.mbits+1) : Nat) : ℚ) := by
    exact_mod_cast c2'
  have hTG : T < G := by
    refine spacing_lt (v := (decodeQ f b).toRat) hP hT ?_ hdR hmP (by linarith)
    rw [hvM]; exact mul_le_mul_of_nonneg_right hML hG.le
  have hTG' : T < G' := by
    refine spacing_lt (v := (decodeQ f b).toRat) hP hT ?_ hdR hmP (by linarith)
    rw [hvM']; exact mul_le_mul_of_nonneg_right hML' hG'.le
  apply RneSpec.rne_eq_of_mid_lt_lt f hd h0 hb
  · rw [Q.lt_iff (midpoint_den_pos _ _) hd, hmidlo, hpred]
    push_cast at hvM' ⊢
    linarith
  · rw [Q.lt_iff hd (midpoint_den_pos _ _), hmidhi, hsucc]
    push_cast at hvM ⊢
    linarith

/-- **(b) f64: 17 significant digits suffice** (`10^16 > 2^53`) -/
theorem C03b_f64 {b : Nat} (h0 : 1 ≤ b) (hb : b < 0x7FF0000000000000) {d : Q} (hd : 0 < d.den)
    (hr : Rounded 17 (decodeQ Fmt.f64 b) d) : rne Fmt.f64 d = b :=
  C03b_spec Fmt.f64 17 (by decide) h0 (by rw [show Fmt.f64.infBits = 0x7FF0000000000000 by decide]; exact hb) hd hr

/-- **(b) f32: 9 significant digits suffice** (`10^8 > 2^24`) -/
theorem C03b_f32 {b : Nat} (h0 : 1 ≤ b) (hb : b < 0x7F800000) {d : Q} (hd : 0 < d.den)
    (hr : Rounded 9 (decodeQ Fmt.f32 b) d) : rne Fmt.f32 d = b :=
  C03b_spec Fmt.f32 9 (by decide) h0 (by rw [show Fmt.f32.infBits = 0x7F800000 by decide]; exact hb) hd hr

/-- non-vacuity: `0.1` (0x3FB999999999999A = 0.1000000000000000055511151231257827…) rounded to 17
    digits is `0.10000000000000001`; the smallest subnormal `4.9406564584124654e-324`; and the power
    of two `2^-1022` (0x0010000000000000 → `2.2250738585072014e-308`) -/
example : Rounded 17 (decodeQ Fmt.f64 0x3FB999999999999A) (ofDec 10000000000000001 (-17)) :=
  ⟨10000000000000001, -17, by decide, by decide, Q.eqv_refl _, by decide +kernel, by decide +kernel⟩
example : Rounded 17 (decodeQ Fmt.f64 1) (ofDec 49406564584124654 (-340)) :=
  ⟨49406564584124654, -340, by decide, by decide, Q.eqv_refl _, by decide +kernel, by decide +kernel⟩
example : Rounded 17 (decodeQ Fmt.f64 0x0010000000000000) (ofDec 22250738585072014 (-324)) :=
  ⟨22250738585072014, -324, by decide, by decide, Q.eqv_refl _, by decide +kernel, by decide +kernel⟩
example : Rounded 9 (decodeQ Fmt.f32 0x3DCCCCCD) (ofDec 100000001 (-9)) :=
  ⟨100000001, -9, by decide, by decide, Q.eqv_refl _, by decide +kernel, by decide +kernel⟩

/-- 16 digits do NOT suffice for f64 (so the hypothesis `10^(nd−1) > 2^(mbits+1)` matters):
    `0.1 + 0.2 = 0x3FD3333333333334 = 0.3000000000000000444…` rounds at 16 digits to
    `0.3000000000000000`, which is the neighbouring double `0x3FD3333333333333`. -/
example : Rounded 16 (decodeQ Fmt.f64 0x3FD3333333333334) (ofDec 3000000000000000 (-16)) ∧
    rne Fmt.f64 (ofDec 3000000000000000 (-16)) = 0x3FD3333333333333 := by
  refine ⟨⟨3000000000000000, -16, by decide, by decide, Q.eqv_refl _, by decide +kernel, by decide +kernel⟩,
    by decide +kernel⟩

theorem C03b_of_parseCorrect {E : Env} {F : FloatC} (h : ParseCorrect E F) (nd : Nat)
    (hnd : 2^(F.fmt.mbits+1) + 1 ≤ 10^(nd-1)) {b : Nat} (h0 : 1 ≤ b) (hb : b < F.fmt.infBits)
    (int frac : List UInt8) (e : Int) (hv : Valid int frac e)
    (hr : Rounded nd (decodeQ F.fmt b) (digitsValue int frac e)) :
    parseFloat E F int frac e = .ok b := by
  rw [h int frac e hv, C03b_spec F.fmt nd hnd h0 hb (MinLex.digitsValue_den_pos _ _ _) hr]

/-- **(b) f64, non-compact configurations**: a digit string whose value is the float's value rounded
    to 17 significant digits parses back to the float -/
theorem C03b_f64_noncompact (cfg : Cfg) (hc : cfg.compact = false) {b : Nat} (h0 : 1 ≤ b)
    (hb : b < Gen.F64.fmt.infBits) (int frac : List UInt8) (e : Int) (hv : Valid int frac e)
    (hr : Rounded 17 (decodeQ Gen.F64.fmt b) (digitsValue int frac e)) :
    parseFloat (genEnv cfg) Gen.F64 int frac e = .ok b :=
  C03b_of_parseCorrect (parseCorrect_noncompact cfg hc (Or.inr rfl)) 17 (by decide) h0 hb int frac e hv hr

/-- **(b) f32, non-compact configurations**: 9 significant digits -/
theorem C03b_f32_noncompact (cfg : Cfg) (hc : cfg.compact = false) {b : Nat} (h0 : 1 ≤ b)
    (hb : b < Gen.F32.fmt.infBits) (int frac : List UInt8) (e : Int) (hv : Valid int frac e)
    (hr : Rounded 9 (decodeQ Gen.F32.fmt b) (digitsValue int frac e)) :
    parseFloat (genEnv cfg) Gen.F32 int frac e = .ok b :=
  C03b_of_parseCorrect (parseCorrect_noncompact cfg hc (Or.inl rfl)) 9 (by decide) h0 hb int frac e hv hr

theorem C03b_f64_partial (cfg : Cfg) (h : OpenCompact Gen.F64) {b : Nat} (h0 : 1 ≤ b)
    (hb : b < Gen.F64.fmt.infBits) (int frac : List UInt8) (e : Int) (hv : Valid int frac e)
    (hr : Rounded 17 (decodeQ Gen.F64.fmt b) (digitsValue int frac e)) :
    parseFloat (genEnv cfg) Gen.F64 int frac e = .ok b :=
  C03b_of_parseCorrect (parseCorrect_of_open cfg (Or.inr rfl) h) 17 (by decide) h0 hb int frac e hv hr

theorem C03b_f32_partial (cfg : Cfg) (h : OpenCompact Gen.F32) {b : Nat} (h0 : 1 ≤ b)
    (hb : b < Gen.F32.fmt.infBits) (int frac : List UInt8) (e : Int) (hv : Valid int frac e)
    (hr : Rounded 9 (decodeQ Gen.F32.fmt b) (digitsValue int frac e)) :
    parseFloat (genEnv cfg) Gen.F32 int frac e = .ok b :=
  C03b_of_parseCorrect (parseCorrect_of_open cfg (Or.inl rfl) h) 9 (by decide) h0 hb int frac e hv hr

/-- the zero pattern: any all-zero input (`b = 0` is excluded from (b) only because "significant
    digits" of 0 is meaningless) -/
theorem C03b_zero (f : Fmt) {d : Q} (h : d.num = 0) : rne f d = 0 := rne_of_num_zero f h

-- "0.10000000000000001" → 0.1
example : Valid [] [49, 48, 48, 48, 48, 48, 48, 48, 48, 48, 48, 48, 48, 48, 48, 48, 49] 0 ∧
    Rounded 17 (decodeQ Gen.F64.fmt 0x3FB999999999999A)
      (digitsValue [] [49, 48, 48, 48, 48, 48, 48, 48, 48, 48, 48, 48, 48, 48, 48, 48, 49] 0) :=
  ⟨by decide, 10000000000000001, -17, by decide, by decide, by decide +kernel, by decide +kernel,
    by decide +kernel⟩

-- ------------------------------------------------------------------ (c) shortest / identifying strings
/-- A digit string *identifies* the float `b` when its exact value rounds to `b` — this is the
    defining property of the output of a shortest-round-trip printer (Grisu / Ryū / `{:?}`). -/
def Identifies (f : Fmt) (int frac : List UInt8) (e : Int) (b : Nat) : Prop :=
  rne f (digitsValue int frac e) = b

theorem C03c_of_parseCorrect {E : Env} {F : FloatC} (h : ParseCorrect E F)
    (int frac : List UInt8) (e : Int) (hv : Valid int frac e) (b : Nat) :
    parseFloat E F int frac e = .ok b ↔ Identifies F.fmt int frac e b := by
  rw [h int frac e hv]
  exact ⟨fun h => Outcome.ok.inj h, fun h => by rw [h]⟩

/-- **(c), non-compact configurations**: a valid digit string parses to `b` exactly when it
    identifies `b`; in particular the shortest identifying string does. -/
theorem C03c_noncompact (cfg : Cfg) (hc : cfg.compact = false) {F : FloatC}
    (hF : F = Gen.F32 ∨ F = Gen.F64) (int frac : List UInt8) (e : Int) (hv : Valid int frac e) (b : Nat) :
    parseFloat (genEnv cfg) F int frac e = .ok b ↔ Identifies F.fmt int frac e b :=
  C03c_of_parseCorrect (parseCorrect_noncompact cfg hc hF) int frac e hv b

theorem C03c_partial (cfg : Cfg) {F : FloatC} (hF : F = Gen.F32 ∨ F = Gen.F64) (h : OpenCompact F)
    (int frac : List UInt8) (e : Int) (hv : Valid int frac e) (b : Nat) :
    parseFloat (genEnv cfg) F int frac e = .ok b ↔ Identifies F.fmt int frac e b :=
  C03c_of_parseCorrect (parseCorrect_of_open cfg hF h) int frac e hv b

/-- (c) the set of values identifying a finite non-zero `b` is the interval between the neighbouring
    midpoints (open, or closed at both ends when `b` is even), so a shortest string exists and every
    string in the interval works -/
theorem C03c_interval (f : Fmt) {b : Nat} (h0 : 1 ≤ b) (hb : b < f.infBits) {v : Q} (hv : 0 < v.den)
    (h1 : Q.lt (midpoint f (b - 1)) v) (h2 : Q.lt v (midpoint f b)) : rne f v = b :=
  RneSpec.rne_eq_of_mid_lt_lt f hv h0 hb h1 h2

-- "0.1" identifies 0x3FB999999999999A, "0.3" identifies 0x3FD3333333333333
example : Identifies Fmt.f64 [] [49] 0 0x3FB999999999999A ∧ Identifies Fmt.f64 [] [51] 0 0x3FD3333333333333 := by
  unfold Identifies; decide +kernel

end MinLex.C03
