/-
  The two IEEE-754 models agree.

  `Model/Parse.lean` gives the fast path (`Number::try_fast_path`) its own small reading of the hardware's `*` and
  `/` (`MinLex.fmul`, `MinLex.fdiv`: finite, non-negative operands, exact value, one `rne`).  `Model/Libm.lean`
  (written later, for the bundled libm) defines the complete operations on arbitrary bit patterns (signs, zeros,
  infinities, NaN).  The theorems here show that on the fast path's domain — finite, non-negative operands, and a
  non-zero divisor — the first is the restriction of the second, so that the assumption "the hardware's `*` and `/`
  are correctly rounded" is stated once, through one definition, for both users.  `tryFastPath_libm` re-states the
  whole of `try_fast_path` over the Libm operations.
-/
import MinLex.Props.ParseNumber
import MinLex.Proofs.Rne
import MinLex.Model.Libm
namespace MinLex.FastPathIEEE
open MinLex

theorem infBits_lt_signBit (f : Fmt) (_hE : 1 ≤ f.ebits) : f.infBits < Libm.signBit f := by
  unfold Fmt.infBits Libm.signBit
  have h1 : 0 < 2 ^ f.ebits := Nat.two_pow_pos _
  have h2 : 0 < 2 ^ f.mbits := Nat.two_pow_pos _
  rw [Nat.pow_add, Nat.mul_comm (2 ^ f.mbits)]
  exact Nat.mul_lt_mul_of_pos_right (by omega) h2

section
variable {f : Fmt} (hE : 1 ≤ f.ebits) {a : Nat} (ha : a < f.infBits)
include hE ha

theorem fin_isNeg : Libm.isNeg f a = false := by
  have := infBits_lt_signBit f hE
  simp [Libm.isNeg]; omega
theorem fin_fabs : Libm.fabs f a = a := by
  have := infBits_lt_signBit f hE
  unfold Libm.fabs; exact Nat.mod_eq_of_lt (by omega)
theorem fin_isNaN : Libm.isNaN f a = false := by
  simp [Libm.isNaN, fin_fabs hE ha]; omega
theorem fin_isInf : Libm.isInf f a = false := by
  simp [Libm.isInf, fin_fabs hE ha]; omega
theorem fin_toSD : Libm.toSD f a = ⟨false, (decode f a).1, (decode f a).2⟩ := by
  simp [Libm.toSD, fin_fabs hE ha, fin_isNeg hE ha]
end

/-- a finite pattern decodes to significand 0 exactly when it is the pattern 0 -/
theorem decode_fst_eq_zero_iff (f : Fmt) (a : Nat) : (decode f a).1 = 0 ↔ a = 0 := by
  have hp : 0 < 2 ^ f.mbits := Nat.two_pow_pos _
  unfold decode
  simp only
  split
  · rename_i h
    have := Nat.div_add_mod a (2 ^ f.mbits)
    constructor
    · intro h0; simp only at h0; rw [h, h0] at this; simpa using this.symm
    · intro h0; subst h0; simp
  · rename_i h
    constructor
    · intro h0; omega
    · intro h0; subst h0; simp at h

/-- **`*` of the fast path is IEEE `*`** (Libm model) on finite non-negative operands. -/
theorem fmul_eq_libm (F : FloatC) (hE : 1 ≤ F.fmt.ebits) {a b : Nat}
    (ha : a < F.fmt.infBits) (hb : b < F.fmt.infBits) :
    MinLex.fmul F a b = Libm.fmul F.fmt a b := by
  unfold MinLex.fmul Libm.fmul
  simp [fin_isNaN hE ha, fin_isNaN hE hb, fin_isInf hE ha, fin_isInf hE hb, fin_isNeg hE ha, fin_isNeg hE hb,
    fin_toSD hE ha, fin_toSD hE hb, Libm.roundSD, Libm.withSign, mulQ]

/-- **`/` of the fast path is IEEE `/`** (Libm model) on finite non-negative operands with a non-zero divisor. -/
theorem fdiv_eq_libm (F : FloatC) (hE : 1 ≤ F.fmt.ebits) {a b : Nat}
    (ha : a < F.fmt.infBits) (hb : b < F.fmt.infBits) (hb0 : b ≠ 0) :
    MinLex.fdiv F a b = Libm.fdiv F.fmt a b := by
  have hd : (decode F.fmt b).1 ≠ 0 := fun h => hb0 ((decode_fst_eq_zero_iff _ _).1 h)
  unfold MinLex.fdiv Libm.fdiv
  simp [fin_isNaN hE ha, fin_isNaN hE hb, fin_isInf hE ha, fin_isInf hE hb, fin_isNeg hE ha, fin_isNeg hE hb,
    fin_toSD hE ha, fin_toSD hE hb, fin_fabs hE hb, Libm.withSign, divQ, hd, hb0]


-- ================================================================ the whole of `try_fast_path` over the Libm operations
/-- `Number::try_fast_path` with the hardware operations read through the complete IEEE model of `Model/Libm.lean` -/
def tryFastPathLibm (F : FloatC) (pw : Nat → Nat) (ip : Nat → Nat) (n : Number) : Option Nat :=
  if isFastPath F n then
    let maxExponent := F.maxExponentFastPath
    if n.exponent ≤ maxExponent then
      let value := floatFromU64 F n.mantissa
      if n.exponent < 0 then some (Libm.fdiv F.fmt value (pw (-n.exponent).toNat))
      else some (Libm.fmul F.fmt value (pw n.exponent.toNat))
    else
      let shift := n.exponent - maxExponent
      let intPower := ip shift.toNat
      let mantissa := n.mantissa * intPower
      if mantissa ≥ u64Mod then none
      else if mantissa > F.maxMantissaFastPath then none
      else some (Libm.fmul F.fmt (floatFromU64 F mantissa) (pw maxExponent.toNat))
  else none

/-- what the agreement needs: the powers read by the fast path are finite and non-zero, the converted
    significands are finite -/
structure FiniteOperands (F : FloatC) (pw : Nat → Nat) : Prop where
  ebits : 1 ≤ F.fmt.ebits
  maxExp_nonneg : 0 ≤ F.maxExponentFastPath
  minExp_ge : -F.maxExponentFastPath ≤ F.minExponentFastPath
  pow : ∀ k : Nat, (k : Int) ≤ F.maxExponentFastPath → pw k < F.fmt.infBits ∧ pw k ≠ 0
  conv : ∀ m ≤ F.maxMantissaFastPath, floatFromU64 F m < F.fmt.infBits

theorem tryFastPath_eq_libm {F : FloatC} {pw ip : Nat → Nat} (H : FiniteOperands F pw) (n : Number) :
    tryFastPath F pw ip n = tryFastPathLibm F pw ip n := by
  unfold tryFastPath tryFastPathLibm
  by_cases hf : isFastPath F n = true
  · rw [if_pos hf, if_pos hf]
    unfold isFastPath at hf
    simp only [Bool.and_eq_true, decide_eq_true_eq, Bool.not_eq_true'] at hf
    obtain ⟨⟨⟨hlo, hhi⟩, hm⟩, _⟩ := hf
    have h0 := H.maxExp_nonneg
    have hmin := H.minExp_ge
    simp only
    by_cases he : n.exponent ≤ F.maxExponentFastPath
    · rw [if_pos he, if_pos he]
      by_cases hneg : n.exponent < 0
      · rw [if_pos hneg, if_pos hneg]
        obtain ⟨hp, hp0⟩ := H.pow (-n.exponent).toNat (by omega)
        rw [fdiv_eq_libm F H.ebits (H.conv _ hm) hp hp0]
      · rw [if_neg hneg, if_neg hneg]
        obtain ⟨hp, _⟩ := H.pow n.exponent.toNat (by omega)
        rw [fmul_eq_libm F H.ebits (H.conv _ hm) hp]
    · rw [if_neg he, if_neg he]
      by_cases h1 : n.mantissa * ip (n.exponent - F.maxExponentFastPath).toNat ≥ u64Mod
      · rw [if_pos h1, if_pos h1]
      · rw [if_neg h1, if_neg h1]
        by_cases h2 : n.mantissa * ip (n.exponent - F.maxExponentFastPath).toNat > F.maxMantissaFastPath
        · rw [if_pos h2, if_pos h2]
        · rw [if_neg h2, if_neg h2]
          obtain ⟨hp, _⟩ := H.pow F.maxExponentFastPath.toNat (by omega)
          rw [fmul_eq_libm F H.ebits (H.conv _ (by omega)) hp]
  · rw [if_neg hf, if_neg hf]

/-- the converted significands are finite: `rne` is monotone and `2^(mbits+1)` rounds to a finite float -/
theorem conv_finite {F : FloatC} (B : Nat) (hB : F.maxMantissaFastPath ≤ B)
    (hfin : rne F.fmt ⟨B, 1⟩ < F.fmt.infBits) :
    ∀ m ≤ F.maxMantissaFastPath, floatFromU64 F m < F.fmt.infBits := by
  intro m hm
  unfold floatFromU64
  have : rne F.fmt ⟨m, 1⟩ ≤ rne F.fmt ⟨B, 1⟩ :=
    rne_mono F.fmt (Nat.one_pos) (Nat.one_pos) (by unfold Q.le; simp; omega)
  omega

theorem finiteOperands_of_fin {F : FloatC} {pw : Nat → Nat} (K : Nat)
    (hE : 1 ≤ F.fmt.ebits) (hK : F.maxExponentFastPath = K)
    (hmin : -F.maxExponentFastPath ≤ F.minExponentFastPath)
    (h1 : ∀ k < K + 1, pw k < F.fmt.infBits ∧ pw k ≠ 0)
    (hfin : rne F.fmt ⟨F.maxMantissaFastPath, 1⟩ < F.fmt.infBits) : FiniteOperands F pw :=
  ⟨hE, by omega, hmin, fun k hk => h1 k (by omega), conv_finite _ (Nat.le_refl _) hfin⟩

theorem finiteOperands_f64 (cfg : Cfg) : FiniteOperands Gen.F64 ((genEnv cfg).powFastPath Gen.F64) := by
  obtain ⟨c, a, s⟩ := cfg
  cases c <;> cases a <;> cases s <;>
    exact finiteOperands_of_fin 22 (by decide) rfl (by decide) (by decide +kernel) (by decide +kernel)

theorem finiteOperands_f32 (cfg : Cfg) : FiniteOperands Gen.F32 ((genEnv cfg).powFastPath Gen.F32) := by
  obtain ⟨c, a, s⟩ := cfg
  cases c <;> cases a <;> cases s <;>
    exact finiteOperands_of_fin 10 (by decide) rfl (by decide) (by decide +kernel) (by decide +kernel)

/-- **The fast path of the parser, in every feature configuration and for both formats, is `try_fast_path`
    evaluated with the complete IEEE operations of the Libm model** (no hypothesis left). -/
theorem tryFastPath_libm_genEnv (cfg : Cfg) {F : FloatC} (hF : F = Gen.F32 ∨ F = Gen.F64) (n : Number) :
    tryFastPath F ((genEnv cfg).powFastPath F) (intPow10 (genEnv cfg).cfg.compact (genEnv cfg).pow.smallIntPow10) n
      = tryFastPathLibm F ((genEnv cfg).powFastPath F)
          (intPow10 (genEnv cfg).cfg.compact (genEnv cfg).pow.smallIntPow10) n := by
  rcases hF with rfl | rfl
  · exact tryFastPath_eq_libm (finiteOperands_f32 cfg) n
  · exact tryFastPath_eq_libm (finiteOperands_f64 cfg) n

-- non-vacuity: all three arithmetic branches answer, through the Libm operations, with the expected floats
example : tryFastPathLibm Gen.F64 ((genEnv ⟨false, true, true⟩).powFastPath Gen.F64)
      (intPow10 false Gen.smallIntPow10) ⟨-2, 123, false⟩ = some 0x3FF3AE147AE147AE ∧        -- 1.23
    tryFastPathLibm Gen.F64 ((genEnv ⟨false, true, true⟩).powFastPath Gen.F64)
      (intPow10 false Gen.smallIntPow10) ⟨3, 5, false⟩ = some 0x40B3880000000000 ∧            -- 5000.0
    (tryFastPathLibm Gen.F64 ((genEnv ⟨false, true, true⟩).powFastPath Gen.F64)
      (intPow10 false Gen.smallIntPow10) ⟨30, 5, false⟩).isSome = true := by
  decide +kernel

end MinLex.FastPathIEEE
