/-
  C11 — soundness of the Eisel–Lemire stage (`src/lemire.rs`, default builds; model
  `MinLex/Model/Lemire.lean`, tables regenerated from the compiled crate).

  * `computeFloat_sound` : for a 64-bit significand `w` and ANY `i32` exponent `q`, a definite answer
    (`exp ≥ 0`) of `compute_float` is `rne (w·10^q)` — zero / infinity short cuts, subnormal branch,
    normal branch with the round-to-even test, carry, overflow.
  * `lemire_sound`       : a definite answer of `lemire` is right, also with truncated digits.
  * `modSound_lemire`    : the field `modSound` of `Main.Hyps` for every non-compact configuration.
  * `lemire_declined`, `declined_value`, `rne_of_estimate` : what a declined answer is, and why an
    under-estimate within `2^-58` pins `rne` down to the truncated estimate or its successor.
  * `lemire_est_partial`, `modEst_lemire_partial` : a declined answer satisfies the hand-off contract
    `Main.EstOK` (field `modEst`), under the named hypothesis `NoAllOnesWithShift F`, which
    `noAllOnesWithShift_of_second` reduces to `NoAllOnesSecond F` — "with the second product the low
    word is never all ones", the theorem of Mushtak & Lemire — the one statement NOT proved here.

  How the proof goes (Proofs/LemireSound.lean): with `z = w'·5^q / 2^(128 + rowExp q)` the exact scaled
  product, `hi ≤ z` always (for the rounded-up rows `−27 ≤ q < 0` by a separation argument),
  `z < hi + 2` always, `z < hi + 1` when the second product was taken and the low word is not all ones
  (or the row is exact / rounded up) — so cutting `hi` at `ms + 2` bits gives the true floor, because the
  second product is skipped only if the bits below the cut are not all ones.  An exact tie (`z` an
  integer with the kept bits `≡ 1 mod 4`) forces `5^q ∣ M` resp. `5^-q·M ≤ w'`, i.e. `q` in the
  round-to-even window, and there it is detected exactly by `lo ≤ 1` (exact rows: `z = hi + lo/2^64` and
  `lo` is even; rounded-up rows: `lo = 0`, and a finite check per row excludes a false alarm when only
  the first product was computed).  For `power2 ≤ 0` no tie exists (`q ≤ −28`, `5^28 > 2^64`).
-/
import MinLex.Proofs.LemireSound
import MinLex.Props.Main
namespace MinLex.LemireSound
open MinLex MinLex.LemireP

section
variable {F : FloatC}

/-- **in-range core**: the code after the product computes the correctly rounded value whenever it
    does not take the all-ones bail-out -/
theorem roundCore_sound (hS : LemSnd F) {q : Int} {w : Nat} (hw0 : 0 < w) (hw : w < 2^64)
    (h1 : -342 ≤ q) (h2 : q ≤ 308) {hi5 lo5 : Nat} (hok : rowOk (hi5, lo5) q = true)
    (hrow : rowAt q = (hi5, lo5))
    (hnb : ¬ ((productCore (w * 2^(clz64 w)) hi5 lo5 (F.mantissaSize + 3)).1 = u64Max ∧
        ¬ (q ≥ -27 ∧ q ≤ 55))) :
    extendedToFloat F (roundCore F q (clz64 w)
        (productCore (w * 2^(clz64 w)) hi5 lo5 (F.mantissaSize + 3)).1
        (productCore (w * 2^(clz64 w)) hi5 lo5 (F.mantissaSize + 3)).2) =
      rne F.fmt (ofDec w q) := by
  have hwf := hS.lem.wf
  have hms := hS.tw.ms_le
  have hn := norm_bounds hw0 hw
  have hb := rowOk_bounds' hok
  have pf := prodFacts (ms := F.mantissaSize) (lo5 := lo5) (by omega) hn.2 hb.1 hb.2.1
  have rf := rowFacts h1 h2 hok
  have hpb := product_bounds (p := F.mantissaSize + 3) hw0 hw hok
  generalize (productCore (w * 2^(clz64 w)) hi5 lo5 (F.mantissaSize + 3)).1 = lo at *
  generalize (productCore (w * 2^(clz64 w)) hi5 lo5 (F.mantissaSize + 3)).2 = hi at *
  unfold roundCore
  rw [if_neg hnb]
  simp only []
  have hmlt := mantissa_lt (ms := F.mantissaSize) (by omega) hpb.2.2
  have hmge := mantissa_ge (ms := F.mantissaSize) (by omega) hpb.2.1 hpb.2.2
  split
  · rename_i hp
    obtain ⟨j, hj⟩ := Int.eq_ofNat_of_zero_le
      (show 0 ≤ -(power q + (hi / 9223372036854775808 : Nat) - clz64 w - F.minimumExponent) + 1 by omega)
    have hspec := subnormal_spec hS hw0 hw h1 h2 pf rf hnb rfl rfl hp hj.symm
    rw [hspec]
    split
    · rename_i hbig
      have hj64 : 64 ≤ j := by omega
      have hz : hi / 2^(hi / 9223372036854775808 + 64 - F.mantissaSize - 3) / 2^j = 0 := by
        apply Nat.div_eq_of_lt
        have : hi / 2^(hi / 9223372036854775808 + 64 - F.mantissaSize - 3) ≤ hi := Nat.div_le_self _ _
        have : 2^64 ≤ 2^j := Nat.pow_le_pow_right (by decide) hj64
        omega
      rw [hz]
      have := (extendedToFloat_definite hwf (definite_zero hwf)).1
      rw [this]; simp
    · rw [hj, Int.toNat_natCast, subnormalOut_bits hwf hmlt (by omega), Nat.shiftRight_eq_div_pow]
  · rename_i hp
    have hp' : 0 < power q + (hi / 9223372036854775808 : Nat) - clz64 w - F.minimumExponent := by omega
    have hspec := normal_spec hS hw0 hw pf rf hrow hnb hpb.2.1 rfl rfl hp'
    rw [hspec, normalOut_eq, Nat.shiftRight_eq_div_pow, Nat.shiftLeft_eq]
    rw [Nat.shiftRight_eq_div_pow] at hmlt hmge
    simp only [Nat.shiftRight_eq_div_pow, Nat.pow_one]
    apply normalPack_bits hwf _ _ hp'
    · rw [Nat.pow_succ] at hmge; split <;> omega
    · rw [Nat.pow_succ, Nat.pow_succ] at hmlt; split <;> omega


/-! ## S1: exponents outside the table -/

theorem zero_bits (hwf : F.WF) : extendedToFloat F ⟨0, 0⟩ = 0 := by
  rw [(extendedToFloat_definite hwf (definite_zero hwf)).1]; simp

theorem inf_bits (hwf : F.WF) : extendedToFloat F ⟨0, F.infinitePower⟩ = F.fmt.infBits := by
  rw [(extendedToFloat_definite hwf (definite_inf hwf)).1]; simp only []
  rw [if_pos (Nat.two_pow_pos _), WF.infPower_nat hwf, Int.toNat_natCast, Nat.add_zero]
  rfl

/-- `q < SMALLEST_POWER_OF_TEN`: the value is below half the smallest subnormal -/
theorem small_sound (hS : LemSnd F) {q : Int} {w : Nat} (hw : w < 2^64)
    (hq : q < F.smallestPowerOfTen) : rne F.fmt (ofDec w q) = 0 := by
  have hwf := hS.lem.wf
  have hb := hS.lem.bias_range
  have hsm := hS.sm_neg
  apply (RneSpec.rne_zero_iff F.fmt (show 1 ≤ F.ebits by have := hwf.eb_ge; omega) (ofDec_den_pos w q)).2
  have hk : F.fmt.kmin - 1 = -F.exponentBias := by rw [hwf.kmin_eq]; omega
  rw [hk]
  unfold Q.le ofDec ofDyadic
  rw [if_neg (by omega), if_neg (by omega)]
  simp only [Nat.one_mul, Int.neg_neg]
  have e1 : 2^(64 + F.exponentBias).toNat = 2^64 * 2^F.exponentBias.toNat := by
    rw [← Nat.pow_add]; congr 1; omega
  have l1 : w * 2^F.exponentBias.toNat ≤ 2^64 * 2^F.exponentBias.toNat :=
    Nat.mul_le_mul_right _ (Nat.le_of_lt hw)
  have l2 : 10^(1 - F.smallestPowerOfTen).toNat ≤ 10^(-q).toNat :=
    Nat.pow_le_pow_right (by decide) (by omega)
  have := hS.small_ok
  omega

/-- `q > LARGEST_POWER_OF_TEN`, `w ≠ 0`: the value is above the overflow threshold -/
theorem large_sound (hS : LemSnd F) {q : Int} {w : Nat} (hw0 : 0 < w)
    (hq : q > F.largestPowerOfTen) : rne F.fmt (ofDec w q) = F.fmt.infBits := by
  have hwf := hS.lem.wf
  have hlg := hS.lg_nonneg
  have hpw := hS.lem.pow_le
  apply (RneSpec.rne_inf_iff F.fmt hwf.eb_ge (ofDec_den_pos w q)).2
  rw [Q.le_iff (ofDyadic_den_pos _ _) (ofDec_den_pos w q), ofDyadic_toRat, ofDec_toRat]
  have hmb : F.fmt.mbits = F.mantissaSize := rfl
  have heb : F.fmt.ebits = F.ebits := rfl
  rw [hmb, heb]
  have h2 : (2:ℚ) ≠ 0 := by norm_num
  have hbias := hwf.bias
  obtain ⟨n, hn⟩ := Int.eq_ofNat_of_zero_le (show 0 ≤ F.exponentBias + 1 - F.mantissaSize by omega)
  obtain ⟨qn, rfl⟩ := Int.eq_ofNat_of_zero_le (show 0 ≤ q by omega)
  obtain ⟨ln, hln⟩ := Int.eq_ofNat_of_zero_le (show 0 ≤ F.largestPowerOfTen + 1 by omega)
  have c1 : (((2^(F.mantissaSize+2) - 1 : Nat) : ℚ)) ≤ (2:ℚ)^((F.mantissaSize + 2 : Nat) : Int) := by
    rw [zpow_natCast]
    have : 2^(F.mantissaSize+2) - 1 ≤ 2^(F.mantissaSize+2) := Nat.sub_le _ _
    exact_mod_cast this
  have c2 : (2:ℚ)^((F.mantissaSize + 2 : Nat) : Int) * (2:ℚ)^((2:Int)^(F.ebits - 1) - 1 - F.mantissaSize - 1)
      = (2:ℚ)^(n : Int) := by
    rw [← zpow_add₀ h2]; congr 1; push_cast; omega
  have c3 : (2:ℚ)^(n : Int) ≤ (10:ℚ)^(ln : Int) := by
    rw [zpow_natCast, zpow_natCast]
    have := hS.large_ok
    rw [hn, hln, Int.toNat_natCast, Int.toNat_natCast] at this
    exact_mod_cast this
  have c4 : (10:ℚ)^(ln : Int) ≤ (10:ℚ)^((qn : Int)) := by
    rw [zpow_natCast, zpow_natCast]
    exact pow_le_pow_right₀ (by norm_num) (by omega)
  have c5 : (10:ℚ)^((qn : Int)) ≤ (w:ℚ) * (10:ℚ)^((qn : Int)) := by
    have : (1:ℚ) ≤ w := by exact_mod_cast hw0
    have hp : (0:ℚ) < (10:ℚ)^((qn : Int)) := by positivity
    nlinarith
  have hpos : (0:ℚ) ≤ (2:ℚ)^((2:Int)^(F.ebits - 1) - 1 - F.mantissaSize - 1) := by positivity
  calc ((2^(F.mantissaSize+2) - 1 : Nat) : ℚ) * (2:ℚ)^((2:Int)^(F.ebits - 1) - 1 - F.mantissaSize - 1)
      ≤ (2:ℚ)^((F.mantissaSize + 2 : Nat) : Int) * (2:ℚ)^((2:Int)^(F.ebits - 1) - 1 - F.mantissaSize - 1) :=
        mul_le_mul_of_nonneg_right c1 hpos
    _ = (2:ℚ)^(n : Int) := c2
    _ ≤ _ := le_trans c3 (le_trans c4 c5)

/-- **C11, definite answers (`computeFloat_sound`)**: for a 64-bit significand and ANY exponent, a
    definite answer (`exp ≥ 0`) of `compute_float` is the correctly rounded value of `w·10^q` -/
theorem computeFloat_sound (hS : LemSnd F) (q : Int) {w : Nat} (hw : w < 2^64) {fp : ExtFloat}
    (he : computeFloat genLemire F q w = some fp) (hdef : 0 ≤ fp.exp) :
    extendedToFloat F fp = rne F.fmt (ofDec w q) := by
  have hF := hS.lem
  have hwf := hF.wf
  rcases Nat.eq_zero_or_pos w with rfl | hw0
  · rw [computeFloat_zero] at he; cases he
    rw [zero_bits hwf, rne_of_num_zero]
    unfold ofDec; split <;> simp
  rcases Int.lt_or_le q F.smallestPowerOfTen with hq | hq
  · rw [computeFloat_small _ _ _ hq] at he; cases he
    rw [zero_bits hwf, small_sound hS hw hq]
  rcases Int.lt_or_le F.largestPowerOfTen q with hq2 | hq2
  · rw [computeFloat_large _ _ (by omega) hq hq2] at he; cases he
    rw [inf_bits hwf, large_sound hS hw0 hq2]
  have hs := hF.sm; have hl := hF.lg
  obtain ⟨hi5, lo5, hrow, hok, heq⟩ := computeFloat_gen_eq hF hw0 hw hq hq2
  rw [heq] at he; cases he
  have hb := product_bounds (p := F.mantissaSize + 3) hw0 hw hok
  by_cases hnb : (productCore (w * 2^(clz64 w)) hi5 lo5 (F.mantissaSize + 3)).1 = u64Max ∧
      ¬ (q ≥ -27 ∧ q ≤ 55)
  · exfalso
    have hd := computeErrorScaled_shape (F := F) hF (q := q) (by omega) (by omega) (clz64_le hw0 hw) hb.2.1 hb.2.2
    have : roundCore F q (clz64 w) (productCore (w * 2^(clz64 w)) hi5 lo5 (F.mantissaSize + 3)).1
        (productCore (w * 2^(clz64 w)) hi5 lo5 (F.mantissaSize + 3)).2 =
        computeErrorScaled F q (productCore (w * 2^(clz64 w)) hi5 lo5 (F.mantissaSize + 3)).2 (clz64 w) := by
      unfold roundCore; rw [if_pos hnb]
    rw [this] at hdef
    have := hd.1
    omega
  · exact roundCore_sound hS hw0 hw (by omega) (by omega) hok (rowAt_eq (by omega) hrow) hnb

end

/-! ## the two formats -/

theorem lemSnd_F64 : LemSnd Gen.F64 where
  lem := LemF_F64
  tw := ⟨by decide, by decide, by decide, by decide, by decide, by decide, by decide, negTie_f64⟩
  minExp_le := by decide
  sm_neg := by decide
  lg_nonneg := by decide
  small_ok := by decide +kernel
  large_ok := by decide +kernel

theorem lemSnd_F32 : LemSnd Gen.F32 where
  lem := LemF_F32
  tw := ⟨by decide, by decide, by decide, by decide, by decide, by decide, by decide, negTie_f32⟩
  minExp_le := by decide
  sm_neg := by decide
  lg_nonneg := by decide
  small_ok := by decide +kernel
  large_ok := by decide +kernel


section
variable {F : FloatC}

/-- a definite answer of `lemire` is the answer of `compute_float` at the given significand -/
theorem lemire_definite (hS : LemSnd F) (num : Number) (hm : num.mantissa + 1 < 2^64)
    (hmany : num.manyDigits = true → 0 < num.mantissa)
    {fp : ExtFloat} (hl : lemire genLemire F num = some fp) (hdef : 0 ≤ fp.exp) :
    computeFloat genLemire F num.exponent num.mantissa = some fp := by
  cases hmd : num.manyDigits
  · rw [LemireArith.lemire_exact _ _ _ hmd] at hl; exact hl
  · rcases LemireArith.lemire_cases hS.lem num (hmany hmd) hm hl with hd | ⟨e1, _⟩
    · have := hd.1; omega
    · exact e1

/-- **C11 for `lemire`**: a definite answer is the correctly rounded value of every `v` the number
    denotes — `w·10^q` itself, or anything in `[w·10^q, (w+1)·10^q]` when digits were truncated -/
theorem lemire_sound (hS : LemSnd F) (num : Number) (hm : num.mantissa + 1 < 2^64)
    (hmany : num.manyDigits = true → 0 < num.mantissa)
    {fp : ExtFloat} (hl : lemire genLemire F num = some fp) (hdef : 0 ≤ fp.exp)
    {v : Q} (hv : 0 < v.den)
    (hlo : Q.le (ofDec num.mantissa num.exponent) v)
    (hhi : if num.manyDigits then Q.le v (ofDec (num.mantissa + 1) num.exponent)
           else Q.eqv v (ofDec num.mantissa num.exponent)) :
    extendedToFloat F fp = rne F.fmt v := by
  cases hmd : num.manyDigits
  · rw [hmd] at hhi
    simp only [Bool.false_eq_true, if_false] at hhi
    have hcf := lemire_definite hS num hm hmany hl hdef
    rw [computeFloat_sound hS _ (by omega) hcf hdef]
    exact (RneSpec.rne_congr F.fmt hv (ofDec_den_pos _ _) hhi).symm
  · rw [hmd] at hhi
    simp only [if_true] at hhi
    exact (LemireArith.lemire_truncated_sound hS.lem num (hmany hmd) hm hmd
      (fun w fp' hw he hd => computeFloat_sound hS _ (by rcases hw with rfl | rfl <;> omega) he hd)
      hl hdef hv hlo hhi).symm

/-- **`modSound` of `Main.Hyps`** for every configuration that uses the Eisel–Lemire stage with the
    regenerated tables -/
theorem modSound_lemire (hS : LemSnd F) {E : Env} (hc : E.cfg.compact = false) (hT : E.lem = genLemire)
    (n : Number) (v : Q) (fp : ExtFloat) (hd : Main.Denotes n v) (hok : Main.NumOK n)
    (hmp : moderatePath E F n = some fp) (hdef : 0 ≤ fp.exp) :
    extendedToFloat F fp = rne F.fmt v := by
  have hl : lemire genLemire F n = some fp := by
    unfold moderatePath at hmp
    rw [hc, hT] at hmp
    simpa using hmp
  obtain ⟨hlt, hmany, _, _⟩ := hok
  have hm : n.mantissa + 1 < 2^64 := by
    have : (10:Nat)^19 + 1 < 2^64 := by decide
    omega
  have hmany' : n.manyDigits = true → 0 < n.mantissa := fun h => by
    have := hmany h
    have : 0 < (10:Nat)^18 := by decide
    omega
  obtain ⟨hv, hcases⟩ := hd
  have hF := hS.lem
  have hs := hF.sm; have hlg := hF.lg
  have hcf := lemire_definite hS n hm hmany' hl hdef
  have hbits := computeFloat_sound hS _ (by omega) hcf hdef
  unfold Main.numLo Main.numHi at hcases
  rcases hcases with ⟨h1, h2⟩ | ⟨h0, hz⟩ | ⟨he, hlt'⟩ | ⟨he, hm1, hge⟩
  · apply lemire_sound hS n hm hmany' hl hdef hv h1
    cases hmd : n.manyDigits
    · rw [hmd] at h2; simpa using h2
    · rw [hmd] at h2
      simp only [if_true] at h2 ⊢
      exact Nat.le_of_lt h2
  · rw [hbits, h0, rne_of_num_zero F.fmt hz, rne_of_num_zero]
    unfold ofDec; split <;> simp
  · rw [hbits, small_sound hS (by omega) (by omega)]
    have h400 : rne F.fmt (ofDec 1 (-400)) = 0 := small_sound hS (by decide) (by omega)
    have := RneSpec.rne_mono F.fmt hv (ofDec_den_pos _ _) (Nat.le_of_lt hlt')
    omega
  · rw [hbits, large_sound hS (by omega) (by omega)]
    have h400 : rne F.fmt (ofDec 1 400) = F.fmt.infBits := large_sound hS (by decide) (by omega)
    have := RneSpec.rne_mono F.fmt (ofDec_den_pos _ _) hv hge
    have := RneSpec.rne_le_inf F.fmt v
    omega

end

/-! ## instances and non-vacuity -/

theorem computeFloat_sound_f64 (q : Int) {w : Nat} (hw : w < 2^64) {fp : ExtFloat}
    (he : computeFloat genLemire Gen.F64 q w = some fp) (hdef : 0 ≤ fp.exp) :
    extendedToFloat Gen.F64 fp = rne Fmt.f64 (ofDec w q) :=
  computeFloat_sound lemSnd_F64 q hw he hdef

theorem computeFloat_sound_f32 (q : Int) {w : Nat} (hw : w < 2^64) {fp : ExtFloat}
    (he : computeFloat genLemire Gen.F32 q w = some fp) (hdef : 0 ≤ fp.exp) :
    extendedToFloat Gen.F32 fp = rne Fmt.f32 (ofDec w q) :=
  computeFloat_sound lemSnd_F32 q hw he hdef

/-- `modSound` for the four default (non-compact) configurations, both formats -/
theorem modSound_genEnv_f64 (cfg : Cfg) (hc : cfg.compact = false) (n : Number) (v : Q) (fp : ExtFloat)
    (hd : Main.Denotes n v) (hok : Main.NumOK n) (hmp : moderatePath (genEnv cfg) Gen.F64 n = some fp)
    (hdef : 0 ≤ fp.exp) : extendedToFloat Gen.F64 fp = rne Gen.F64.fmt v :=
  modSound_lemire lemSnd_F64 (E := genEnv cfg) hc rfl n v fp hd hok hmp hdef

theorem modSound_genEnv_f32 (cfg : Cfg) (hc : cfg.compact = false) (n : Number) (v : Q) (fp : ExtFloat)
    (hd : Main.Denotes n v) (hok : Main.NumOK n) (hmp : moderatePath (genEnv cfg) Gen.F32 n = some fp)
    (hdef : 0 ≤ fp.exp) : extendedToFloat Gen.F32 fp = rne Gen.F32.fmt v :=
  modSound_lemire lemSnd_F32 (E := genEnv cfg) hc rfl n v fp hd hok hmp hdef

/-- non-vacuity: an exact tie (`2^53 + 1`, round-to-even test fires), a subnormal with carry into
    the smallest normal, and an f32 value with a negative exponent in the tie window -/
example : ∃ fp, computeFloat genLemire Gen.F64 0 9007199254740993 = some fp ∧ 0 ≤ fp.exp ∧
    extendedToFloat Gen.F64 fp = rne Fmt.f64 (ofDec 9007199254740993 0) := by
  obtain ⟨fp, he, hd⟩ : ∃ fp, computeFloat genLemire Gen.F64 0 9007199254740993 = some fp ∧ 0 ≤ fp.exp :=
    ⟨_, rfl, by decide +kernel⟩
  exact ⟨fp, he, hd, computeFloat_sound_f64 0 (by decide) he hd⟩

example : ∃ fp, computeFloat genLemire Gen.F64 (-324) 22250738585072013 = some fp ∧ 0 ≤ fp.exp ∧
    extendedToFloat Gen.F64 fp = rne Fmt.f64 (ofDec 22250738585072013 (-324)) := by
  obtain ⟨fp, he, hd⟩ : ∃ fp, computeFloat genLemire Gen.F64 (-324) 22250738585072013 = some fp ∧
      0 ≤ fp.exp := ⟨_, rfl, by decide +kernel⟩
  exact ⟨fp, he, hd, computeFloat_sound_f64 _ (by decide) he hd⟩

example : ∃ fp, computeFloat genLemire Gen.F32 (-5) 762939453125 = some fp ∧ 0 ≤ fp.exp ∧
    extendedToFloat Gen.F32 fp = rne Fmt.f32 (ofDec 762939453125 (-5)) := by
  obtain ⟨fp, he, hd⟩ : ∃ fp, computeFloat genLemire Gen.F32 (-5) 762939453125 = some fp ∧
      0 ≤ fp.exp := ⟨_, rfl, by decide +kernel⟩
  exact ⟨fp, he, hd, computeFloat_sound_f32 _ (by decide) he hd⟩

/-- non-vacuity of `modSound_lemire` -/
example : ∃ fp, moderatePath (genEnv ⟨false, true, true⟩) Gen.F64 ⟨0, 9007199254740993, false⟩ = some fp ∧
    extendedToFloat Gen.F64 fp = rne Gen.F64.fmt ⟨9007199254740993, 1⟩ := by
  obtain ⟨fp, he, hd⟩ : ∃ fp, moderatePath (genEnv ⟨false, true, true⟩) Gen.F64
      ⟨0, 9007199254740993, false⟩ = some fp ∧ 0 ≤ fp.exp := ⟨_, rfl, by decide +kernel⟩
  refine ⟨fp, he, modSound_genEnv_f64 _ rfl _ _ fp ⟨by decide, Or.inl ⟨by decide, by decide⟩⟩
    ⟨by decide, by simp, by decide, by decide⟩ he hd⟩

/-- non-vacuity of `lemire_sound` with truncated digits: `1.2345678901234567890…` read as 19 digits -/
example : ∃ fp, lemire genLemire Gen.F64 ⟨-18, 1234567890123456789, true⟩ = some fp ∧
    extendedToFloat Gen.F64 fp = rne Fmt.f64 ⟨12345678901234567895, 10^19⟩ := by
  obtain ⟨fp, he, hd⟩ : ∃ fp, lemire genLemire Gen.F64 ⟨-18, 1234567890123456789, true⟩ = some fp ∧
      0 ≤ fp.exp := ⟨_, rfl, by decide +kernel⟩
  exact ⟨fp, he, lemire_sound lemSnd_F64 _ (by decide) (fun _ => by decide) he hd (by decide)
    (by decide) (by decide)⟩


/-! ## S5: declined answers -/

/-- below the midpoint above a finite pattern `c`, `rne` does not exceed `c` -/
theorem rne_le_of_lt_midpoint (f : Fmt) {v : Q} (hv : 0 < v.den) {c : Nat} (hc : c < f.infBits)
    (h : v.toRat < (midpoint f c).toRat) : rne f v ≤ c := by
  obtain ⟨m1, m2⟩ := midpoint_between f c
  rcases le_or_gt v.toRat (decodeQ f c).toRat with hle | hgt
  · have := RneSpec.rne_mono f hv (decodeQ_den_pos f c) ((Q.le_iff hv (decodeQ_den_pos f c)).2 hle)
    rw [RneSpec.rne_decode f hc] at this
    exact this
  · have := (rne_of_between f hv hc ((Q.le_iff (decodeQ_den_pos _ _) hv).2 (le_of_lt hgt))
      ((Q.lt_iff hv (decodeQ_den_pos _ _)).2 (lt_trans h m2))).1
      ((Q.lt_iff hv (midpoint_den_pos _ _)).2 h)
    omega

/-- an under-estimate `e ≤ v < e·(1 + 2^-58)` determines `rne v` up to one pattern:
    the truncation of `e` or its successor -/
theorem rne_of_estimate (f : Fmt) (hmb : f.mbits ≤ 55) {e v : Q} (he : 0 < e.den) (hv : 0 < v.den)
    (h1 : e.toRat ≤ v.toRat) (h2 : v.toRat < e.toRat * (1 + 1 / 2^58)) :
    rne f v = rneTrunc f e ∨ rne f v = rneTrunc f e + 1 := by
  have hlo : rneTrunc f e ≤ rne f v :=
    Nat.le_trans (RneSpec.rneTrunc_mono f he hv ((Q.le_iff he hv).2 h1)) (rneTrunc_le_rne f v)
  have hinf := RneSpec.rne_le_inf f v
  have hbinf := rneTrunc_le_inf f e
  suffices hup : rne f v ≤ rneTrunc f e + 1 by omega
  rcases Nat.lt_or_ge (rneTrunc f e + 1) f.infBits with hc | hc
  · have hfin : rneTrunc f e < f.infBits := by omega
    obtain ⟨_, hfl⟩ := RneSpec.rneTrunc_floor f he hfin
    have hfl' := (Q.lt_iff he (decodeQ_den_pos _ _)).1 hfl
    apply rne_le_of_lt_midpoint f hv hc
    -- midpoint c = (m + 1/2)·2^k, decodeQ c = m·2^k with m < 2^(mbits+1) ≤ 2^56
    have hm := midpoint_toRat f (rneTrunc f e + 1)
    have hs := decodeQ_succ_toRat f (rneTrunc f e + 1)
    have hd := decodeQ_toRat f (rneTrunc f e + 1)
    obtain ⟨_, c2, _, _, _⟩ := decode_canonical f (rneTrunc f e + 1)
    generalize (decode f (rneTrunc f e + 1)).1 = m at *
    generalize (decode f (rneTrunc f e + 1)).2 = k at *
    have hp : (0:ℚ) < (2:ℚ)^k := two_zpow_pos k
    have hm56 : (m:ℚ) < 2^56 := by
      have : m < 2^56 := Nat.lt_of_lt_of_le c2 (Nat.pow_le_pow_right (by decide) (by omega))
      exact_mod_cast this
    rw [hm, hs, hd]
    push_cast
    have hD : (decodeQ f (rneTrunc f e + 1)).toRat = (m:ℚ) * (2:ℚ)^k := hd
    rw [hD] at hfl'
    have he0 : 0 ≤ e.toRat := by unfold Q.toRat; positivity
    have l1 : v.toRat < (m:ℚ) * (2:ℚ)^k * (1 + 1 / 2^58) := by
      have : e.toRat * (1 + 1 / 2^58) ≤ (m:ℚ) * (2:ℚ)^k * (1 + 1 / 2^58) :=
        mul_le_mul_of_nonneg_right (le_of_lt hfl') (by norm_num)
      linarith
    have l2 : (m:ℚ) * (2:ℚ)^k * (1 + 1 / 2^58) ≤ ((m:ℚ) * (2:ℚ)^k + ((m:ℚ) + 1) * (2:ℚ)^k) / 2 := by
      have : (m:ℚ) * (1 / 2^58) ≤ 1 / 2 := by
        have : (m:ℚ) * (1 / 2^58) ≤ 2^56 * (1 / 2^58) :=
          mul_le_mul_of_nonneg_right (le_of_lt hm56) (by norm_num)
        norm_num at this ⊢
        linarith
      nlinarith
    linarith
  · omega


section
variable {F : FloatC}

/-- a declined answer of `compute_float` is `compute_error_scaled` of the product's high word -/
theorem computeFloat_declined (hF : LemF F) {q : Int} {w : Nat} (hw0 : 0 < w) (hw : w < 2^64)
    {fp : ExtFloat} (he : computeFloat genLemire F q w = some fp) (hneg : fp.exp < 0) :
    -342 ≤ q ∧ q ≤ 308 ∧ ∃ hi5 lo5, rowOk (hi5, lo5) q = true ∧
      fp = computeErrorScaled F q (productCore (w * 2^(clz64 w)) hi5 lo5 (F.mantissaSize + 3)).2 (clz64 w) := by
  obtain ⟨fp', he', hs⟩ := computeFloat_gen hF q hw
  rw [he] at he'; cases he'
  rcases hs with hd | ⟨_, hq1, hq2, _⟩
  · have := hd.1; omega
  have hs := hF.sm; have hl := hF.lg
  obtain ⟨hi5, lo5, _, hok, heq⟩ := computeFloat_gen_eq hF hw0 hw hq1 hq2
  refine ⟨by omega, by omega, hi5, lo5, hok, ?_⟩
  rw [he] at heq
  have hfp := Option.some.inj heq
  have hb := product_bounds (p := F.mantissaSize + 3) hw0 hw hok
  rcases roundCore_cases hF.wf q (clz64 w) (productCore (w * 2^(clz64 w)) hi5 lo5 (F.mantissaSize + 3)).1
      hb.2.2 with ⟨_, _, hc⟩ | hd
  · rw [hfp, hc]
  · rw [← hfp] at hd; have := hd.1; omega

/-- the rows found by two look-ups agree -/
theorem row_unique {q : Int} {a b c d : Nat}
    (h1 : genLemire.powerOfFive128[(q - genLemire.smallestPowerOfFive).toNat]? = some (a, b))
    (h2 : genLemire.powerOfFive128[(q - genLemire.smallestPowerOfFive).toNat]? = some (c, d)) :
    a = c ∧ b = d := by
  rw [h1] at h2
  have := Option.some.inj h2
  exact ⟨congrArg Prod.fst this, congrArg Prod.snd this⟩

/-- **what a declined answer of `lemire` is**: `compute_error_scaled` of the high word of the product
    at the given significand, reached either because `compute_float` declined (all-ones low word), or
    because digits were truncated and `mantissa` / `mantissa + 1` gave different answers -/
theorem lemire_declined (hF : LemF F) (num : Number) (hm0 : 0 < num.mantissa)
    (hm : num.mantissa + 1 < 2^64) {fp : ExtFloat} (hl : lemire genLemire F num = some fp)
    (hneg : fp.exp < 0) :
    -342 ≤ num.exponent ∧ num.exponent ≤ 308 ∧ ∃ hi5 lo5, rowOk (hi5, lo5) num.exponent = true ∧
      fp = computeErrorScaled F num.exponent
        (productCore (num.mantissa * 2^(clz64 num.mantissa)) hi5 lo5 (F.mantissaSize + 3)).2
        (clz64 num.mantissa) ∧
      (computeFloat genLemire F num.exponent num.mantissa = some fp ∨
       (num.manyDigits = true ∧ ∃ fp0 fp1,
          computeFloat genLemire F num.exponent num.mantissa = some fp0 ∧ 0 ≤ fp0.exp ∧
          computeFloat genLemire F num.exponent (num.mantissa + 1) = some fp1 ∧ fp0 ≠ fp1)) := by
  obtain ⟨fp0, he, _⟩ := computeFloat_gen hF num.exponent (w := num.mantissa) (by omega)
  have hmod : (num.mantissa + 1) % u64Mod = num.mantissa + 1 := by
    unfold u64Mod; exact Nat.mod_eq_of_lt hm
  obtain ⟨fp1, he', _⟩ := computeFloat_gen hF num.exponent (w := num.mantissa + 1) hm
  unfold lemire at hl
  rw [he] at hl; simp only [] at hl
  split at hl
  · rename_i hc
    rw [hmod, he'] at hl; simp only [] at hl
    split at hl
    · rename_i hne
      have hin : F.smallestPowerOfTen ≤ num.exponent ∧ num.exponent ≤ F.largestPowerOfTen := by
        by_contra hcon
        have := computeFloat_out_of_range F (q := num.exponent) (w := num.mantissa)
          (w' := num.mantissa + 1) (by omega) (by omega) (by omega)
        rw [he, he'] at this
        have e : fp0 = fp1 := Option.some.inj this
        rw [e, extFloat_bne_self] at hne
        exact Bool.false_ne_true hne
      have hs := hF.sm; have hl' := hF.lg
      obtain ⟨hi5, lo5, _, hok, heq⟩ := computeError_gen_eq (F := F) hm0 (by omega : num.mantissa < 2^64)
        (by omega : -342 ≤ num.exponent) (by omega : num.exponent ≤ 308)
      rw [heq] at hl
      refine ⟨by omega, by omega, hi5, lo5, hok, (Option.some.inj hl).symm, Or.inr ⟨hc.1, fp0, fp1, he, hc.2, he', ?_⟩⟩
      intro heq2
      rw [heq2, extFloat_bne_self] at hne
      exact Bool.false_ne_true hne
    · have hfp : fp0 = fp := Option.some.inj hl
      rw [hfp] at hc
      have := hc.2; omega
  · have hfp : fp0 = fp := Option.some.inj hl
    subst hfp
    obtain ⟨a, b, hi5, lo5, hok, hfp⟩ := computeFloat_declined hF hm0 (by omega) he hneg
    exact ⟨a, b, hi5, lo5, hok, hfp, Or.inl he⟩

end

section
variable {F : FloatC}

/-- the value against the high word: `hi·2^g ≤ w·10^q < (hi + 2)·2^g`, `g = power q − 62 − lz` -/
theorem declined_value (hS : LemSnd F) {q : Int} {w : Nat} (hw0 : 0 < w) (hw : w < 2^64)
    (h1 : -342 ≤ q) (h2 : q ≤ 308) {hi5 lo5 : Nat} (hok : rowOk (hi5, lo5) q = true) :
    (((productCore (w * 2^(clz64 w)) hi5 lo5 (F.mantissaSize + 3)).2 : Nat) : ℚ) *
        (2:ℚ)^(power q - 62 - clz64 w) ≤ (ofDec w q).toRat ∧
    (ofDec w q).toRat <
      ((((productCore (w * 2^(clz64 w)) hi5 lo5 (F.mantissaSize + 3)).2 : Nat) : ℚ) + 2) *
        (2:ℚ)^(power q - 62 - clz64 w) := by
  have hms := hS.tw.ms_le
  have hn := norm_bounds hw0 hw
  have hb := rowOk_bounds' hok
  have pf := prodFacts (ms := F.mantissaSize) (lo5 := lo5) (by omega) hn.2 hb.1 hb.2.1
  have rf := rowFacts h1 h2 hok
  generalize (productCore (w * 2^(clz64 w)) hi5 lo5 (F.mantissaSize + 3)).1 = lo at *
  generalize (productCore (w * 2^(clz64 w)) hi5 lo5 (F.mantissaSize + 3)).2 = hi at *
  have l := z_lower pf rf hn.2
  have u := z_upper2 pf rf
  have hY := value_scaled w q (clz64 w) 0
  simp only [Nat.cast_zero, add_zero, Nat.pow_zero, Nat.one_mul] at hY
  have hp := two_zpow_pos (power q - 62 - (clz64 w : Int))
  have hB : (0:ℚ) < ((2^128 * rowE q : Nat) : ℚ) := by
    exact_mod_cast Nat.mul_pos (by decide) (rowE_pos q)
  have e1 : hi * 2^128 * rowE q = hi * (2^128 * rowE q) := Nat.mul_assoc ..
  have e2 : (hi + 2) * 2^128 * rowE q = (hi + 2) * (2^128 * rowE q) := Nat.mul_assoc ..
  rw [e1] at l; rw [e2] at u
  constructor
  · rw [← le_div_iff₀ hp, hY, le_div_iff₀ hB]
    exact_mod_cast l
  · rw [← div_lt_iff₀ hp, hY, div_lt_iff₀ hB]
    exact_mod_cast u

/-- the estimate handed to the slow path denotes `hi·2^g` -/
theorem est_toRat (hF : LemF F) {q : Int} (h1 : -342 ≤ q) (h2 : q ≤ 308) {hi lz : Nat}
    (hlz : lz ≤ 63) (hhi : 2^62 ≤ hi) (hhi2 : hi < 2^64) :
    ∃ hilz : Nat, hilz ≤ 1 ∧
      wrapI32 ((computeErrorScaled F q hi lz).exp - F.invalidFp) =
        power q + F.exponentBias - hilz - lz - 62 ∧
      (computeErrorScaled F q hi lz).mant = hi * 2^hilz ∧
      (ofDyadic (computeErrorScaled F q hi lz).mant
        (wrapI32 ((computeErrorScaled F q hi lz).exp - F.invalidFp) - F.exponentBias)).toRat =
        (hi : ℚ) * (2:ℚ)^(power q - 62 - lz) := by
  have hp := power_range h1 h2
  have hb := hF.bias_range
  have hwrap : ∀ x : Int, -2000 ≤ x → x ≤ 3000 → wrapI32 x = x := fun x a b =>
    wrapI32_id (by omega) (by omega)
  have h2' : (2:ℚ) ≠ 0 := by norm_num
  unfold computeErrorScaled u64Mod
  simp only []
  split
  · refine ⟨0, by omega, ?_, ?_, ?_⟩
    · rw [hwrap _ (by omega) (by omega)]; omega
    · simp only [Nat.pow_zero, Nat.mul_one]; omega
    · rw [hwrap _ (by omega) (by omega), ofDyadic_toRat]
      have : hi * 2^0 % 18446744073709551616 = hi := by simp only [Nat.pow_zero, Nat.mul_one]; omega
      rw [this]
      congr 2; omega
  · refine ⟨1, by omega, ?_, ?_, ?_⟩
    · rw [hwrap _ (by omega) (by omega)]; omega
    · simp only [Nat.pow_one]; omega
    · rw [hwrap _ (by omega) (by omega), ofDyadic_toRat]
      have : hi * 2^1 % 18446744073709551616 = hi * 2 := by simp only [Nat.pow_one]; omega
      rw [this]
      have e : power q - 62 - (lz : Int) = 1 + (power q + F.exponentBias - (1 : Nat) - lz - 62 + F.invalidFp - F.invalidFp - F.exponentBias) := by
        omega
      rw [e, zpow_add₀ h2', zpow_one]
      push_cast; ring

end

/-- relative error of the estimate: product error `< 2/hi ≤ 2^-61`, truncation error `≤ 10^-18` -/
theorem close_bound {hi P vlo v m : ℚ} (hhi : 2^62 ≤ hi) (hP : 0 < P) (h0 : 0 ≤ vlo)
    (h1 : vlo < (hi + 2) * P) (hm : 10^18 ≤ m) (hv : v ≤ vlo * (1 + 1 / m)) :
    v < hi * P * (1 + 1 / 2^58) := by
  have hm0 : (0:ℚ) < m := by linarith [show (0:ℚ) < 10^18 by norm_num]
  have hinv : 1 / m ≤ 1 / 10^18 := one_div_le_one_div_of_le (by norm_num) hm
  have l1 : vlo * (1 + 1 / m) ≤ vlo * (1 + 1 / 10^18) :=
    mul_le_mul_of_nonneg_left (by linarith) h0
  have l2 : vlo * (1 + 1 / 10^18) < (hi + 2) * P * (1 + 1 / 10^18) :=
    mul_lt_mul_of_pos_right h1 (by norm_num)
  have l3 : (hi + 2) * (1 + 1 / 10^18) ≤ hi * (1 + 1 / 2^58) := by
    norm_num at hhi ⊢
    linarith
  have l4 : (hi + 2) * P * (1 + 1 / 10^18) ≤ hi * P * (1 + 1 / 2^58) := by
    have := mul_le_mul_of_nonneg_right l3 (le_of_lt hP)
    calc (hi + 2) * P * (1 + 1 / 10^18) = (hi + 2) * (1 + 1 / 10^18) * P := by ring
      _ ≤ hi * (1 + 1 / 2^58) * P := this
      _ = hi * P * (1 + 1 / 2^58) := by ring
  linarith

section
variable {F : FloatC}

theorem definite_bits_zero (hwf : F.WF) {fp : ExtFloat} (hd : Definite F fp)
    (h0 : extendedToFloat F fp = 0) : fp = ⟨0, 0⟩ := by
  rw [(extendedToFloat_definite hwf hd).1] at h0
  have hX : 0 < 2^F.mantissaSize := Nat.two_pow_pos _
  obtain ⟨he0, _, _, _⟩ := hd
  split at h0
  · have hm : fp.mant = 0 := by omega
    have : fp.exp.toNat * 2^F.mantissaSize = 0 := by omega
    have ht : fp.exp.toNat = 0 := by
      rcases Nat.mul_eq_zero.mp this with h | h
      · exact h
      · omega
    have he : fp.exp = 0 := by omega
    cases fp; simp only [] at hm he; rw [hm, he]
  · omega

/-- a value not above half the smallest subnormal rounds to zero -/
theorem rne_zero_of_le (hwf : F.WF) {x : Q} (hx : 0 < x.den)
    (h : x.toRat ≤ (2:ℚ)^(-F.exponentBias)) : rne F.fmt x = 0 := by
  apply (RneSpec.rne_zero_iff F.fmt (show 1 ≤ F.ebits by have := hwf.eb_ge; omega) hx).2
  rw [Q.le_iff hx (ofDyadic_den_pos _ _), ofDyadic_toRat]
  have hk : F.fmt.kmin - 1 = -F.exponentBias := by rw [hwf.kmin_eq]; omega
  rw [hk]; simpa using h

theorem clz64_succ_le {m : Nat} (hm0 : 0 < m) (hm : m + 1 < 2^64) : clz64 m ≤ clz64 (m + 1) + 1 := by
  unfold clz64
  rw [if_neg (by omega), if_neg (by omega)]
  have h1 := log2_le_63 hm0 (by omega)
  have h2 := log2_le_63 (w := m + 1) (by omega) hm
  have : Nat.log2 (m + 1) < Nat.log2 m + 2 := by
    apply (Nat.log2_lt (by omega)).2
    have := Nat.lt_log2_self (n := m)
    rw [Nat.pow_succ]; omega
  omega

end


/-- **named hypothesis** (not proved here): whenever `compute_float` declines — the low word of the
    product is all ones outside `q ∈ [−27, 55]` — the normalisation shift of `w` is not larger than
    the binary exponent of `10^q` allows: `clz(w) ≤ power q + EXPONENT_BIAS`.  (An exhaustive
    modular search finds 138 (f64) / 10 (f32) such inputs, all with `clz(w) = 0` and with
    `fp.exp − INVALID_FP ≥ −51`; for the first-product-only case `clz(w) = 0` is forced by parity.) -/
def NoAllOnesWithShift (F : FloatC) : Prop :=
  ∀ (q : Int) (w : Nat) (fp : ExtFloat), 0 < w → w < 2^64 →
    computeFloat genLemire F q w = some fp → fp.exp < 0 → (clz64 w : Int) ≤ power q + F.exponentBias

section
variable {F : FloatC}

/-- **S5: a declined answer of `lemire` satisfies the hand-off contract `Main.EstOK`**, provided the
    all-ones bail-out never comes with a large normalisation shift (`NoAllOnesWithShift`) -/
theorem lemire_est_partial (hS : LemSnd F) (hms : F.mantissaSize ≤ 55) (hna : NoAllOnesWithShift F)
    (num : Number) (hm0 : 0 < num.mantissa) (hm : num.mantissa + 1 < 2^64)
    (hmany : num.manyDigits = true → 10^18 ≤ num.mantissa)
    {fp : ExtFloat} (hl : lemire genLemire F num = some fp) (hneg : fp.exp < 0)
    {v : Q} (hv : 0 < v.den)
    (hlo : Q.le (ofDec num.mantissa num.exponent) v)
    (hhi : if num.manyDigits then Q.lt v (ofDec (num.mantissa + 1) num.exponent)
           else Q.eqv v (ofDec num.mantissa num.exponent)) :
    Main.EstOK F ⟨fp.mant, wrapI32 (fp.exp - F.invalidFp)⟩ v := by
  have hF := hS.lem
  have hwf := hF.wf
  obtain ⟨hq1, hq2, hi5, lo5, hok, hfp, hcase⟩ := lemire_declined hF num hm0 hm hl hneg
  have hw : num.mantissa < 2^64 := by omega
  have hlz := clz64_le hm0 hw
  have hpb := product_bounds (p := F.mantissaSize + 3) hm0 hw hok
  obtain ⟨dv1, dv2⟩ := declined_value hS hm0 hw hq1 hq2 hok
  have hsh := computeErrorScaled_shape hF hq1 hq2 hlz hpb.2.1 hpb.2.2
  obtain ⟨hilz, hh1, hexp, hmant, hest⟩ := est_toRat hF hq1 hq2 hlz hpb.2.1 hpb.2.2
  generalize (productCore (num.mantissa * 2^(clz64 num.mantissa)) hi5 lo5 (F.mantissaSize + 3)).2 = hi at *
  rw [← hfp] at hsh hexp hmant hest
  obtain ⟨_, hmt1, hmt2, _⟩ := hsh
  -- the value is within `2^-58` (relative) above the estimate
  have hP := two_zpow_pos (power num.exponent - 62 - (clz64 num.mantissa : Int))
  have hhiQ : (2:ℚ)^62 ≤ (hi:ℚ) := by exact_mod_cast hpb.2.1
  have hvlo0 : 0 ≤ (ofDec num.mantissa num.exponent).toRat := by unfold Q.toRat; positivity
  have hlo' := (Q.le_iff (ofDec_den_pos _ _) hv).1 hlo
  have hmQ : (0:ℚ) < (num.mantissa : ℚ) := by exact_mod_cast hm0
  have hsucc : (ofDec (num.mantissa + 1) num.exponent).toRat =
      (ofDec num.mantissa num.exponent).toRat * (1 + 1 / (num.mantissa : ℚ)) := by
    rw [ofDec_toRat, ofDec_toRat]; push_cast; field_simp
  have hclose_hi : (ofDec (num.mantissa + 1) num.exponent).toRat <
      (hi:ℚ) * (2:ℚ)^(power num.exponent - 62 - (clz64 num.mantissa : Int)) * (1 + 1 / 2^58) ∨
      num.manyDigits = false := by
    cases hmd : num.manyDigits
    · exact Or.inr rfl
    · left
      have : (10:ℚ)^18 ≤ (num.mantissa : ℚ) := by exact_mod_cast hmany hmd
      exact close_bound hhiQ hP hvlo0 dv2 this (le_of_eq hsucc)
  have hclose : v.toRat <
      (hi:ℚ) * (2:ℚ)^(power num.exponent - 62 - (clz64 num.mantissa : Int)) * (1 + 1 / 2^58) := by
    cases hmd : num.manyDigits
    · rw [hmd] at hhi
      simp only [Bool.false_eq_true, if_false] at hhi
      have hveq := (Q.eqv_iff hv (ofDec_den_pos _ _)).1 hhi
      apply close_bound hhiQ hP hvlo0 dv2 (le_refl _)
      rw [hveq]
      have : (0:ℚ) ≤ 1 / 10^18 := by norm_num
      nlinarith
    · rw [hmd] at hhi
      simp only [if_true] at hhi
      have hvlt := (Q.lt_iff hv (ofDec_den_pos _ _)).1 hhi
      rcases hclose_hi with h | h
      · linarith
      · rw [hmd] at h; cases h
  refine ⟨hmt1, hmt2, ?_, ?_⟩
  · -- the exponent
    show -64 ≤ wrapI32 (fp.exp - F.invalidFp)
    rw [hexp]
    rcases hcase with hA | ⟨hmd, fp0, fp1, e0, hd0, e1, hne⟩
    · have := hna _ _ _ hm0 hw hA hneg
      omega
    · rcases Int.lt_or_le fp1.exp 0 with hn1 | hd1
      · have := hna _ _ _ (by omega) hm e1 hn1
        have := clz64_succ_le hm0 hm
        omega
      · by_contra hcon
        have hE : power num.exponent + F.exponentBias - hilz - clz64 num.mantissa - 62 ≤ -65 := by omega
        -- the estimate, hence everything up to `(m+1)·10^q`, is below half the smallest subnormal
        have hestlt : (hi:ℚ) * (2:ℚ)^(power num.exponent - 62 - (clz64 num.mantissa : Int)) <
            (2:ℚ)^(-1 - F.exponentBias) := by
          rw [← hest, ofDyadic_toRat, hexp]
          have hm64 : (fp.mant : ℚ) < (2:ℚ)^(64:Int) := by
            rw [show ((2:ℚ)^(64:Int)) = ((2^64 : Nat) : ℚ) by norm_num]
            exact_mod_cast hmt2
          have hp2 := two_zpow_pos (power num.exponent + F.exponentBias - hilz - clz64 num.mantissa - 62
            - F.exponentBias)
          calc (fp.mant : ℚ) * (2:ℚ)^(power num.exponent + F.exponentBias - hilz - clz64 num.mantissa - 62
                  - F.exponentBias)
              < (2:ℚ)^(64:Int) * (2:ℚ)^(power num.exponent + F.exponentBias - hilz - clz64 num.mantissa - 62
                  - F.exponentBias) := mul_lt_mul_of_pos_right hm64 hp2
            _ = (2:ℚ)^(64 + (power num.exponent + F.exponentBias - hilz - clz64 num.mantissa - 62
                  - F.exponentBias)) := by rw [zpow_add₀ (by norm_num)]
            _ ≤ (2:ℚ)^(-1 - F.exponentBias) := by
                rw [zpow_le_zpow_iff_right₀ (by norm_num)]; omega
        have hhalf : (2:ℚ)^(-1 - F.exponentBias) * (1 + 1 / 2^58) ≤ (2:ℚ)^(-F.exponentBias) := by
          have : (2:ℚ)^(-F.exponentBias) = 2 * (2:ℚ)^(-1 - F.exponentBias) := by
            rw [show -F.exponentBias = 1 + (-1 - F.exponentBias) by omega, zpow_add₀ (by norm_num), zpow_one]
          rw [this]
          have hp3 := two_zpow_pos (-1 - F.exponentBias)
          nlinarith
        have hhi_small : (ofDec (num.mantissa + 1) num.exponent).toRat ≤ (2:ℚ)^(-F.exponentBias) := by
          rcases hclose_hi with h | h
          · have : (hi:ℚ) * (2:ℚ)^(power num.exponent - 62 - (clz64 num.mantissa : Int)) * (1 + 1 / 2^58)
                ≤ (2:ℚ)^(-1 - F.exponentBias) * (1 + 1 / 2^58) :=
              mul_le_mul_of_nonneg_right (le_of_lt hestlt) (by norm_num)
            linarith
          · rw [hmd] at h; cases h
        have hlo_small : (ofDec num.mantissa num.exponent).toRat ≤ (2:ℚ)^(-F.exponentBias) := by
          rw [hsucc] at hhi_small
          have : (0:ℚ) ≤ 1 / (num.mantissa : ℚ) := by positivity
          nlinarith
        have r0 := rne_zero_of_le hwf (ofDec_den_pos _ _) hlo_small
        have r1 := rne_zero_of_le hwf (ofDec_den_pos _ _) hhi_small
        have b0 := computeFloat_sound hS _ hw e0 hd0
        have b1 := computeFloat_sound hS _ hm e1 hd1
        rw [r0] at b0; rw [r1] at b1
        have d0 := (LemireArith.computeFloat_definite_iff hF _ hw e0).1.1 hd0
        have d1 := (LemireArith.computeFloat_definite_iff hF _ hm e1).1.1 hd1
        exact hne ((definite_bits_zero hwf d0 b0).trans (definite_bits_zero hwf d1 b1).symm)
  · -- the rounding
    rw [C18_round_down hwf hmt1 hmt2]
    have hmb : F.fmt.mbits ≤ 55 := hms
    apply rne_of_estimate F.fmt hmb (ofDyadic_den_pos _ _) hv
    · rw [hest]; linarith
    · rw [hest]; exact hclose

/-- **`modEst` of `Main.Hyps`** for the non-compact configurations, under `NoAllOnesWithShift` -/
theorem modEst_lemire_partial (hS : LemSnd F) (hms : F.mantissaSize ≤ 55) (hna : NoAllOnesWithShift F)
    {E : Env} (hc : E.cfg.compact = false) (hT : E.lem = genLemire)
    (n : Number) (v : Q) (fp : ExtFloat) (hd : Main.Denotes n v) (hok : Main.NumOK n)
    (hmp : moderatePath E F n = some fp) (hneg : fp.exp < 0) :
    Main.EstOK F ⟨fp.mant, wrapI32 (fp.exp - F.invalidFp)⟩ v := by
  have hl : lemire genLemire F n = some fp := by
    unfold moderatePath at hmp
    rw [hc, hT] at hmp
    simpa using hmp
  obtain ⟨hlt, hmany, _, _⟩ := hok
  have hm : n.mantissa + 1 < 2^64 := by
    have : (10:Nat)^19 + 1 < 2^64 := by decide
    omega
  have hm0 : 0 < n.mantissa := by
    rcases Nat.eq_zero_or_pos n.mantissa with h0 | h0
    · exfalso
      have hmd : n.manyDigits = false := by
        cases hmd : n.manyDigits
        · rfl
        · have := hmany hmd
          have : 0 < (10:Nat)^18 := by decide
          omega
      rw [LemireArith.lemire_exact _ _ _ hmd, h0, computeFloat_zero] at hl
      cases hl
      simp at hneg
    · exact h0
  obtain ⟨hq1, hq2, _⟩ := lemire_declined hS.lem n hm0 hm hl hneg
  obtain ⟨hv, hcases⟩ := hd
  unfold Main.numLo Main.numHi at hcases
  rcases hcases with ⟨h1, h2⟩ | ⟨h0, _⟩ | ⟨he, _⟩ | ⟨he, _, _⟩
  · exact lemire_est_partial hS hms hna n hm0 hm hmany hl hneg hv h1 h2
  · omega
  · omega
  · omega

end

/-- **the remaining gap, in its sharpest form** (the theorem of Mushtak & Lemire, "Fast number
    parsing without fallback", for this table): when the second product is computed, the low word
    of the result is never all ones (outside `q ∈ [−27, 55]`, where the code does not care) -/
def NoAllOnesSecond (F : FloatC) : Prop :=
  ∀ (q : Int) (w hi5 lo5 : Nat), -342 ≤ q → q ≤ 308 → ¬ (q ≥ -27 ∧ q ≤ 55) →
    rowAt q = (hi5, lo5) → 2^63 ≤ w → w < 2^64 → secondTaken w hi5 (F.mantissaSize + 3) = true →
    (productCore w hi5 lo5 (F.mantissaSize + 3)).1 ≠ u64Max

section
variable {F : FloatC}

/-- with the first product only, an all-ones low word forces an odd normalised significand, i.e.
    no normalisation shift at all; so `NoAllOnesWithShift` follows from `NoAllOnesSecond` -/
theorem noAllOnesWithShift_of_second (hS : LemSnd F)
    (hrow0 : ∀ q, F.smallestPowerOfTen ≤ q → q ≤ F.largestPowerOfTen →
      power q + F.exponentBias < 0 → (rowAt q).1 % 2 = 0)
    (h2 : NoAllOnesSecond F) : NoAllOnesWithShift F := by
  intro q w fp hw0 hw he hneg
  have hF := hS.lem
  obtain ⟨fp', he', hs⟩ := computeFloat_gen hF q hw
  rw [he] at he'; cases he'
  rcases hs with hd | ⟨_, hq1, hq2, _⟩
  · have := hd.1; omega
  have hs := hF.sm; have hl := hF.lg
  obtain ⟨hi5, lo5, hrow, hok, heq⟩ := computeFloat_gen_eq hF hw0 hw hq1 hq2
  rw [he] at heq
  have hfp := Option.some.inj heq
  have hb := product_bounds (p := F.mantissaSize + 3) hw0 hw hok
  have hn := norm_bounds hw0 hw
  have hrA := rowAt_eq (by omega) hrow
  rcases roundCore_cases hF.wf q (clz64 w) (productCore (w * 2^(clz64 w)) hi5 lo5 (F.mantissaSize + 3)).1
      hb.2.2 with ⟨hall, hout, _⟩ | hd
  · cases htk : secondTaken (w * 2^(clz64 w)) hi5 (F.mantissaSize + 3)
    · rw [productCore_not_taken htk] at hall
      simp only [] at hall
      unfold u64Max at hall
      -- the product is odd, so both factors are
      have hodd : (w * 2^(clz64 w) * hi5) % 2 = 1 := by omega
      have hlz : clz64 w = 0 := by
        rcases Nat.eq_zero_or_pos (clz64 w) with h0 | hpos
        · exact h0
        · exfalso
          obtain ⟨k, hk⟩ : ∃ k, clz64 w = k + 1 := ⟨clz64 w - 1, by omega⟩
          have : w * 2^(clz64 w) * hi5 = 2 * (w * 2^k * hi5) := by rw [hk, Nat.pow_succ]; ring
          omega
      have hhi5 : hi5 % 2 = 1 := by
        rcases Nat.mod_two_eq_zero_or_one hi5 with h0 | h1
        · exfalso
          obtain ⟨c, hc⟩ : ∃ c, hi5 = 2 * c := ⟨hi5 / 2, by omega⟩
          have : w * 2^(clz64 w) * hi5 = 2 * (w * 2^(clz64 w) * c) := by rw [hc]; ring
          omega
        · exact h1
      rw [hlz]
      by_contra hcon
      have := hrow0 q hq1 hq2 (by push_cast at hcon; omega)
      rw [hrA] at this
      simp only [] at this
      omega
    · exfalso
      exact h2 q _ hi5 lo5 (by omega) (by omega) hout hrA hn.1 hn.2 htk hall
  · rw [← hfp] at hd; have := hd.1; omega

theorem rowParity_F64 : ∀ q, Gen.F64.smallestPowerOfTen ≤ q → q ≤ Gen.F64.largestPowerOfTen →
    power q + Gen.F64.exponentBias < 0 → (rowAt q).1 % 2 = 0 := by
  intro q h1 h2 hp
  exfalso
  have e1 : Gen.F64.smallestPowerOfTen = -342 := rfl
  have e2 : Gen.F64.largestPowerOfTen = 308 := rfl
  have e3 : Gen.F64.exponentBias = 1075 := rfl
  rw [e1] at h1; rw [e2] at h2; rw [e3] at hp
  rw [power_eq (by omega) (by omega)] at hp
  omega

theorem rowParity_F32 : ∀ q, Gen.F32.smallestPowerOfTen ≤ q → q ≤ Gen.F32.largestPowerOfTen →
    power q + Gen.F32.exponentBias < 0 → (rowAt q).1 % 2 = 0 := by
  intro q h1 h2 hp
  have e1 : Gen.F32.smallestPowerOfTen = -65 := rfl
  have e2 : Gen.F32.largestPowerOfTen = 38 := rfl
  have e3 : Gen.F32.exponentBias = 150 := rfl
  rw [e1] at h1; rw [e2] at h2; rw [e3] at hp
  rw [power_eq (by omega) (by omega)] at hp
  have : q = -65 := by omega
  subst this
  decide +kernel

end

/-! ## S5: instances and non-vacuity -/

/-- `modEst` for the default configurations, f64, from the sharp hypothesis -/
theorem modEst_genEnv_f64_partial (h2 : NoAllOnesSecond Gen.F64) (cfg : Cfg) (hc : cfg.compact = false)
    (n : Number) (v : Q) (fp : ExtFloat) (hd : Main.Denotes n v) (hok : Main.NumOK n)
    (hmp : moderatePath (genEnv cfg) Gen.F64 n = some fp) (hneg : fp.exp < 0) :
    Main.EstOK Gen.F64 ⟨fp.mant, wrapI32 (fp.exp - Gen.F64.invalidFp)⟩ v :=
  modEst_lemire_partial lemSnd_F64 (by decide)
    (noAllOnesWithShift_of_second lemSnd_F64 rowParity_F64 h2) (E := genEnv cfg) hc rfl n v fp hd hok hmp hneg

theorem modEst_genEnv_f32_partial (h2 : NoAllOnesSecond Gen.F32) (cfg : Cfg) (hc : cfg.compact = false)
    (n : Number) (v : Q) (fp : ExtFloat) (hd : Main.Denotes n v) (hok : Main.NumOK n)
    (hmp : moderatePath (genEnv cfg) Gen.F32 n = some fp) (hneg : fp.exp < 0) :
    Main.EstOK Gen.F32 ⟨fp.mant, wrapI32 (fp.exp - Gen.F32.invalidFp)⟩ v :=
  modEst_lemire_partial lemSnd_F32 (by decide)
    (noAllOnesWithShift_of_second lemSnd_F32 rowParity_F32 h2) (E := genEnv cfg) hc rfl n v fp hd hok hmp hneg

/-- non-vacuity: both ways of declining occur — the all-ones bail-out (first product only, odd
    significand, no shift), and truncated digits straddling a tie (`9007199254740993.000…`) -/
example : (∃ fp, computeFloat genLemire Gen.F64 (-329) 9495784171365944765 = some fp ∧ fp.exp < 0) ∧
    clz64 9495784171365944765 = 0 ∧
    (∃ fp, lemire genLemire Gen.F64 ⟨-3, 9007199254740993000, true⟩ = some fp ∧ fp.exp < 0) := by
  refine ⟨⟨_, rfl, by decide +kernel⟩, by decide +kernel, ⟨_, rfl, by decide +kernel⟩⟩

/-- non-vacuity of `rne_of_estimate`: `e = 1`, `v = 1 + 2^-60` -/
example : rne Fmt.f64 ⟨2^60 + 1, 2^60⟩ = rneTrunc Fmt.f64 ⟨1, 1⟩ ∨
    rne Fmt.f64 ⟨2^60 + 1, 2^60⟩ = rneTrunc Fmt.f64 ⟨1, 1⟩ + 1 :=
  rne_of_estimate Fmt.f64 (by decide) (by decide) (by decide) (by unfold Q.toRat; norm_num)
    (by unfold Q.toRat; norm_num)

end MinLex.LemireSound
