/-
  The last hypothesis of the Eisel–Lemire soundness proof: `LemireSound.NoAllOnesSecond F`
  (the result of Mushtak & Lemire, "Fast number parsing without fallback", for THIS table):
  when `compute_product_approx` computes the second product, the low word of the 128-bit result is
  never all ones.

  With `T = hi5·2^64 + lo5` (the 128-bit table row), `g = 64 − (MANTISSA_SIZE + 3)` (f64: 9, f32: 38)
  and `M = 2^(128+g)`:   second product taken ∧ low word all ones
        ⇒  `(w·T) mod M ≥ M − 2^64`                         (`allOnes_mod`).
  Writing `w = 2^63 + t` with `0 ≤ t < 2^63` and `c = (T·2^63) mod M`, this says that
  `(T·t) mod M` lies in `[M − 2^64 − c, M − 1 − c]` or in `[2M − 2^64 − c, M − 1]`; the verified modular
  search `ModSearch.first` (Proofs/ModSearch.lean) computes the least `t ≥ 0` in each interval, and
  the closed Boolean `rowCheck g row` says that both are `≥ 2^63` (`rowCheck_spec`).  The check is
  evaluated in the kernel for all 651 rows (`table_check_f64`, `table_check_f32`) — it holds for every
  row, also inside `q ∈ [−27, 55]`, where the code does not need it.

  Consequently `modEst_genEnv_f64`, `modEst_genEnv_f32`: the hand-off contract of a declined
  Eisel–Lemire answer holds unconditionally.

  Section 4: the all-ones low word DOES occur when only the first product is computed — that is the
  case the `lo == 0xFFFF…` bail-out of `compute_float` exists for.  Then `w·hi5 ≡ −1 (mod 2^64)`, which
  determines `w` from the row: `computeFloat_declined_iff_f64/_f32` characterise the declined inputs
  exactly (`declinedAt`), `declinedList` enumerates them: 138 pairs `(q, w)` for f64, 10 for f32.
-/
import MinLex.Props.LemireSound
import MinLex.Proofs.ModSearch
namespace MinLex.NoAllOnes
open MinLex MinLex.LemireP MinLex.LemireSound MinLex.ModSearch

/-! ## 1. from the code's condition to a residue condition -/

/-- second product taken (`A mod G = G − 1` for the first high word `A`, `G = 2^g`) and low word of
    the sum all ones  ⇒  `w·T mod (G·2^128) ≥ G·2^128 − 2^64` -/
theorem allOnes_mod {w hi5 lo5 G : Nat} (hw : w < 2^64) (hlo : lo5 < 2^64) (hG : 0 < G)
    (h1 : (w * hi5 / 2^64) % G = G - 1)
    (h2 : (w * hi5 + w * lo5 / 2^64) % 2^64 = 2^64 - 1) :
    G * 2^128 - 2^64 ≤ (w * (hi5 * 2^64 + lo5)) % (G * 2^128) := by
  have dA := Nat.div_add_mod (w * hi5) (2^64)
  have lB := Nat.mod_lt (w * hi5) (show 0 < 2^64 by decide)
  have dC := Nat.div_add_mod (w * lo5) (2^64)
  have lR := Nat.mod_lt (w * lo5) (show 0 < 2^64 by decide)
  have lC : w * lo5 / 2^64 < 2^64 := by
    rw [Nat.div_lt_iff_lt_mul (by decide)]
    calc w * lo5 < 2^64 * 2^64 := Nat.mul_lt_mul'' hw hlo
      _ = _ := rfl
  have dG := Nat.div_add_mod (w * hi5 / 2^64) G
  rw [h1] at dG
  generalize w * hi5 / 2^64 = A at *
  generalize w * hi5 % 2^64 = B at *
  generalize w * lo5 / 2^64 = c at *
  generalize w * lo5 % 2^64 = ρ at *
  generalize A / G = A1 at *
  -- no carry: B + c = 2^64 − 1
  have hBc : B + c = 2^64 - 1 := by
    rw [← dA] at h2
    have : (2^64 * A + B + c) % 2^64 = (B + c) % 2^64 := by
      rw [Nat.add_assoc, Nat.mul_add_mod]
    rw [this] at h2
    omega
  have key : w * (hi5 * 2^64 + lo5) + 2^64 = A1 * (G * 2^128) + (G * 2^128 + ρ) := by
    have e1 : w * (hi5 * 2^64 + lo5) = (w * hi5) * 2^64 + w * lo5 := by
      rw [Nat.mul_add, Nat.mul_assoc]
    rw [e1, ← dA, ← dC]
    have e2 : (A + 1) * 2^128 = (A1 + 1) * (G * 2^128) := by
      have : A + 1 = (A1 + 1) * G := by
        rw [Nat.add_mul, Nat.one_mul, Nat.mul_comm]; omega
      rw [this, Nat.mul_assoc]
    have e3 : (A1 + 1) * (G * 2^128) = A1 * (G * 2^128) + G * 2^128 := by
      rw [Nat.add_mul, Nat.one_mul]
    have e4 : (A + 1) * 2^128 = A * 2^128 + 2^128 := by rw [Nat.add_mul, Nat.one_mul]
    omega
  have hN : 2^64 ≤ G * 2^128 := by
    have : 1 * 2^128 ≤ G * 2^128 := Nat.mul_le_mul_right _ hG
    omega
  have e : w * (hi5 * 2^64 + lo5) = A1 * (G * 2^128) + (G * 2^128 - 2^64 + ρ) := by omega
  rw [e, Nat.mul_comm A1, Nat.mul_add_mod, Nat.mod_eq_of_lt (by omega)]
  omega

/-- the code-level statement: second product taken and low word `u64::MAX` put `w·T` in the top
    `2^64` residues modulo `2^(128+g)`, `g = 64 − p` -/
theorem taken_allOnes_mod {w hi5 lo5 p : Nat} (hp : p < 64) (hw : w < 2^64) (hhi : hi5 < 2^64)
    (hlo : lo5 < 2^64) (ht : secondTaken w hi5 p = true) (hall : (productCore w hi5 lo5 p).1 = u64Max) :
    2^(64 - p) * 2^128 - 2^64 ≤ (w * (hi5 * 2^64 + lo5)) % (2^(64 - p) * 2^128) := by
  have h1 := (secondTaken_iff hp).1 ht
  have h2 := productCore_taken (lo5 := lo5) hw hlo ht
  have h3 := productCore_lt (lo5 := lo5) (p := p) hw hhi
  apply allOnes_mod hw hlo (Nat.two_pow_pos _) h1
  rw [← h2, hall]
  unfold u64Max
  omega

/-! ## 2. the per-row check -/

/-- for the row `e = (hi5, lo5)` and `g` tested bits: no `w ∈ [2^63, 2^64)` has
    `(w·T) mod 2^(128+g) ≥ 2^(128+g) − 2^64` — decided by two modular searches over `t = w − 2^63` -/
def rowCheck (g : Nat) (e : Nat × Nat) : Bool :=
  let T := e.1 * 2^64 + e.2
  let M := 2^g * 2^128
  let c := (T * 2^63) % M
  allGe (first 400 T M (M - 2^64 - c) (M - 1 - c)) (2^63) &&
  (decide (c + 2^64 ≤ M) || allGe (first 400 T M (2*M - 2^64 - c) (M - 1)) (2^63))

theorem search_core {T M c t : Nat} (hM : 2^64 ≤ M) (hc : T * 2^63 % M = c)
    (ha : allGe (first 400 T M (M - 2^64 - c) (M - 1 - c)) (2^63) = true)
    (hb : c + 2^64 ≤ M ∨ allGe (first 400 T M (2*M - 2^64 - c) (M - 1)) (2^63) = true)
    (ht : t < 2^63) : ((2^63 + t) * T) % M < M - 2^64 := by
  have ex : (2^63 + t) * T = T * t + T * 2^63 := by
    rw [Nat.add_mul, Nat.mul_comm (2^63) T, Nat.mul_comm t T, Nat.add_comm]
  rw [ex, Nat.add_mod, hc]
  have hM0 : 0 < M := by omega
  have lu := Nat.mod_lt (T * t) hM0
  have lc : c < M := by rw [← hc]; exact Nat.mod_lt _ hM0
  by_contra hcon
  rcases Nat.lt_or_ge (T * t % M + c) M with hlt | hge
  · rw [Nat.mod_eq_of_lt hlt] at hcon
    have := allGe_spec ha (x := t) (by omega) (by omega)
    omega
  · have e2 : (T * t % M + c) % M = T * t % M + c - M := by
      rw [Nat.mod_eq_sub_mod hge, Nat.mod_eq_of_lt (by omega)]
    rw [e2] at hcon
    rcases hb with hb | hb
    · omega
    · have := allGe_spec hb (x := t) (by omega) (by omega)
      omega

theorem rowCheck_spec {g : Nat} {e : Nat × Nat} (h : rowCheck g e = true) {w : Nat}
    (hw1 : 2^63 ≤ w) (hw2 : w < 2^64) :
    (w * (e.1 * 2^64 + e.2)) % (2^g * 2^128) < 2^g * 2^128 - 2^64 := by
  unfold rowCheck at h
  rw [Bool.and_eq_true, Bool.or_eq_true, decide_eq_true_eq] at h
  have hM : 2^64 ≤ 2^g * 2^128 := by
    have : 1 * 2^128 ≤ 2^g * 2^128 := Nat.mul_le_mul_right _ (Nat.two_pow_pos g)
    omega
  obtain ⟨t, rfl⟩ : ∃ t, w = 2^63 + t := ⟨w - 2^63, by omega⟩
  exact search_core hM rfl h.1 h.2 (by omega)

/-- the check for all table rows -/
def tableCheck (g : Nat) : Bool := rowsGo (fun e _ => rowCheck g e) Gen.powerOfFive128 (-342)

/-- **f64 (`g = 9`)**: kernel evaluation of the verified search over all 651 rows -/
theorem table_check_f64 : tableCheck 9 = true := by decide +kernel

/-- **f32 (`g = 38`)** -/
theorem table_check_f32 : tableCheck 38 = true := by decide +kernel

theorem rowCheck_rowAt {g : Nat} (h : tableCheck g = true) {q : Int} (h1 : -342 ≤ q) (h2 : q ≤ 308) :
    rowCheck g (rowAt q) = true := by
  have hlen := table_length
  have hi : (q + 342).toNat < Gen.powerOfFive128.length := by omega
  have := rowsGo_get _ _ _ h (q + 342).toNat hi
  unfold rowAt
  rw [List.getD_eq_getElem?_getD, List.getElem?_eq_getElem hi]
  exact this

/-! ## 3. the theorem -/

/-- **the residue form**, for every row of the table and every normalised `w`:
    `(w·T) mod 2^(128+g)` is below the top `2^64` residues -/
theorem no_top_residue {g : Nat} (h : tableCheck g = true) {q : Int} (h1 : -342 ≤ q) (h2 : q ≤ 308)
    {w : Nat} (hw1 : 2^63 ≤ w) (hw2 : w < 2^64) :
    (w * ((rowAt q).1 * 2^64 + (rowAt q).2)) % (2^g * 2^128) < 2^g * 2^128 - 2^64 :=
  rowCheck_spec (rowCheck_rowAt h h1 h2) hw1 hw2

/-- generic form: the table check for `g = 64 − (ms + 3)` gives `NoAllOnesSecond` — for EVERY row,
    the restriction `q ∉ [−27, 55]` is not needed -/
theorem noAllOnesSecond_of_check {F : FloatC} (hms : F.mantissaSize + 3 < 64)
    (h : tableCheck (64 - (F.mantissaSize + 3)) = true) :
    ∀ (q : Int) (w hi5 lo5 : Nat), -342 ≤ q → q ≤ 308 →
      rowAt q = (hi5, lo5) → 2^63 ≤ w → w < 2^64 → secondTaken w hi5 (F.mantissaSize + 3) = true →
      (productCore w hi5 lo5 (F.mantissaSize + 3)).1 ≠ u64Max := by
  intro q w hi5 lo5 h1 h2 hrow hw1 hw2 ht hall
  have hi : (q + 342).toNat < Gen.powerOfFive128.length := by have := table_length; omega
  have hok := rowOk_all (q + 342).toNat hi
  have hrow' : Gen.powerOfFive128[(q + 342).toNat] = (hi5, lo5) := by
    rw [← hrow]; unfold rowAt
    rw [List.getD_eq_getElem?_getD, List.getElem?_eq_getElem hi]; rfl
  rw [hrow'] at hok
  have hb := rowOk_bounds' hok
  have l := taken_allOnes_mod hms hw2 hb.1 hb.2.1 ht hall
  have u := no_top_residue h h1 h2 hw1 hw2
  rw [hrow] at u
  simp only [] at u
  omega

/-- **`NoAllOnesSecond` for f64**: with the second product the low word is never `u64::MAX` -/
theorem noAllOnesSecond_f64 : NoAllOnesSecond Gen.F64 :=
  fun q w hi5 lo5 h1 h2 _ => noAllOnesSecond_of_check (F := Gen.F64) (by decide) table_check_f64 q w hi5 lo5 h1 h2

/-- **`NoAllOnesSecond` for f32** (stated, as in the definition, for every row of the shared table) -/
theorem noAllOnesSecond_f32 : NoAllOnesSecond Gen.F32 :=
  fun q w hi5 lo5 h1 h2 _ => noAllOnesSecond_of_check (F := Gen.F32) (by decide) table_check_f32 q w hi5 lo5 h1 h2

/-- the bail-out of `compute_float` never comes with a normalisation shift the exponent cannot absorb -/
theorem noAllOnesWithShift_f64 : NoAllOnesWithShift Gen.F64 :=
  noAllOnesWithShift_of_second lemSnd_F64 rowParity_F64 noAllOnesSecond_f64

theorem noAllOnesWithShift_f32 : NoAllOnesWithShift Gen.F32 :=
  noAllOnesWithShift_of_second lemSnd_F32 rowParity_F32 noAllOnesSecond_f32

/-- **`modEst` of `Main.Hyps`, f64, unconditional** (default, non-compact configurations): a declined
    answer of the Eisel–Lemire stage satisfies the hand-off contract of the slow path -/
theorem modEst_genEnv_f64 (cfg : Cfg) (hc : cfg.compact = false)
    (n : Number) (v : Q) (fp : ExtFloat) (hd : Main.Denotes n v) (hok : Main.NumOK n)
    (hmp : moderatePath (genEnv cfg) Gen.F64 n = some fp) (hneg : fp.exp < 0) :
    Main.EstOK Gen.F64 ⟨fp.mant, wrapI32 (fp.exp - Gen.F64.invalidFp)⟩ v :=
  modEst_genEnv_f64_partial noAllOnesSecond_f64 cfg hc n v fp hd hok hmp hneg

/-- **`modEst` of `Main.Hyps`, f32, unconditional** -/
theorem modEst_genEnv_f32 (cfg : Cfg) (hc : cfg.compact = false)
    (n : Number) (v : Q) (fp : ExtFloat) (hd : Main.Denotes n v) (hok : Main.NumOK n)
    (hmp : moderatePath (genEnv cfg) Gen.F32 n = some fp) (hneg : fp.exp < 0) :
    Main.EstOK Gen.F32 ⟨fp.mant, wrapI32 (fp.exp - Gen.F32.invalidFp)⟩ v :=
  modEst_genEnv_f32_partial noAllOnesSecond_f32 cfg hc n v fp hd hok hmp hneg

/-- non-vacuity of `noAllOnesSecond_f64` / `_f32`: inputs outside the window for which the second
    product IS computed (found with the same search) -/
example : secondTaken (2^63 + 146) (rowAt 100).1 (Gen.F64.mantissaSize + 3) = true ∧
    (productCore (2^63 + 146) (rowAt 100).1 (rowAt 100).2 (Gen.F64.mantissaSize + 3)).1 ≠ u64Max :=
  ⟨by decide +kernel, noAllOnesSecond_f64 100 _ _ _ (by decide) (by decide) (by decide) rfl
    (by decide) (by decide) (by decide +kernel)⟩

example : secondTaken (2^63 + 269279860390) (rowAt (-40)).1 (Gen.F32.mantissaSize + 3) = true ∧
    (productCore (2^63 + 269279860390) (rowAt (-40)).1 (rowAt (-40)).2 (Gen.F32.mantissaSize + 3)).1
      ≠ u64Max :=
  ⟨by decide +kernel, noAllOnesSecond_f32 (-40) _ _ _ (by decide) (by decide) (by decide) rfl
    (by decide) (by decide) (by decide +kernel)⟩

/-- non-vacuity of `modEst_genEnv_f64`: the declined input `9734559530549076843e-224` -/
example : ∃ fp, moderatePath (genEnv ⟨false, true, true⟩) Gen.F64 ⟨-224, 9734559530549076843, false⟩ = some fp ∧
    fp.exp < 0 ∧
    Main.EstOK Gen.F64 ⟨fp.mant, wrapI32 (fp.exp - Gen.F64.invalidFp)⟩ (ofDec 9734559530549076843 (-224)) := by
  obtain ⟨fp, he, hd⟩ : ∃ fp, moderatePath (genEnv ⟨false, true, true⟩) Gen.F64
      ⟨-224, 9734559530549076843, false⟩ = some fp ∧ fp.exp < 0 := ⟨_, rfl, by decide +kernel⟩
  refine ⟨fp, he, hd, modEst_genEnv_f64 _ rfl _ _ fp ?_ ?_ he hd⟩
  · refine ⟨ofDec_den_pos _ _, Or.inl ⟨?_, ?_⟩⟩
    · show Q.le (ofDec 9734559530549076843 (-224)) (ofDec 9734559530549076843 (-224))
      unfold Q.le; exact Nat.le_refl _
    · show Q.eqv (ofDec 9734559530549076843 (-224)) (ofDec 9734559530549076843 (-224))
      unfold Q.eqv; rfl
  · exact ⟨by decide, by simp, by decide, by decide⟩

/-- non-vacuity of `modEst_genEnv_f32`: the declined input `9586467486297153595e-46` -/
example : ∃ fp, moderatePath (genEnv ⟨false, true, true⟩) Gen.F32 ⟨-46, 9586467486297153595, false⟩ = some fp ∧
    fp.exp < 0 ∧
    Main.EstOK Gen.F32 ⟨fp.mant, wrapI32 (fp.exp - Gen.F32.invalidFp)⟩ (ofDec 9586467486297153595 (-46)) := by
  obtain ⟨fp, he, hd⟩ : ∃ fp, moderatePath (genEnv ⟨false, true, true⟩) Gen.F32
      ⟨-46, 9586467486297153595, false⟩ = some fp ∧ fp.exp < 0 := ⟨_, rfl, by decide +kernel⟩
  refine ⟨fp, he, hd, modEst_genEnv_f32 _ rfl _ _ fp ?_ ?_ he hd⟩
  · refine ⟨ofDec_den_pos _ _, Or.inl ⟨?_, ?_⟩⟩
    · show Q.le (ofDec 9586467486297153595 (-46)) (ofDec 9586467486297153595 (-46))
      unfold Q.le; exact Nat.le_refl _
    · show Q.eqv (ofDec 9586467486297153595 (-46)) (ofDec 9586467486297153595 (-46))
      unfold Q.eqv; rfl
  · exact ⟨by decide, by simp, by decide, by decide⟩

/-! ## 4. exactly when `compute_float` declines

  With the second product excluded, the all-ones low word comes from the first product alone:
  `w·hi5 ≡ −1 (mod 2^64)`.  That forces `w` odd (no normalisation shift) and determines `w` from the
  row: at most ONE declined significand per exponent `q`.  -/

/-- `−a⁻¹ mod 2^64` (Newton iteration `inv64`; the defining property is CHECKED where it is used) -/
def negInv (a : Nat) : Nat := (2^64 - inv64 a) % 2^64

/-- the significand (if any) on which `compute_float::<F>(q, ·)` declines, from the row `e` of `q`:
    `w = −hi5⁻¹ mod 2^64`, if it is normalised and the second product is not taken -/
def declinedOf (F : FloatC) (q : Int) (e : Nat × Nat) : Option Nat :=
  if F.smallestPowerOfTen ≤ q ∧ q ≤ F.largestPowerOfTen ∧ ¬ (q ≥ -27 ∧ q ≤ 55) ∧
      negInv e.1 * e.1 % 2^64 = 2^64 - 1 ∧ 2^63 ≤ negInv e.1 ∧
      secondTaken (negInv e.1) e.1 (F.mantissaSize + 3) = false
  then some (negInv e.1) else none

def declinedAt (F : FloatC) (q : Int) : Option Nat := declinedOf F q (rowAt q)

theorem rowsGo_rowAt (p : Nat × Nat → Int → Bool) (h : rowsGo p Gen.powerOfFive128 (-342) = true)
    {q : Int} (h1 : -342 ≤ q) (h2 : q ≤ 308) : p (rowAt q) q = true := by
  have hlen := table_length
  have hi : (q + 342).toNat < Gen.powerOfFive128.length := by omega
  have := rowsGo_get p _ _ h (q + 342).toNat hi
  have e : -342 + (((q + 342).toNat : Nat) : Int) = q := by omega
  rw [e] at this
  unfold rowAt
  rw [List.getD_eq_getElem?_getD, List.getElem?_eq_getElem hi]
  exact this

/-- `negInv` is right on every odd high word of the table -/
theorem negInv_check : rowsGo (fun e _ => e.1 % 2 == 0 || negInv e.1 * e.1 % 2^64 == 2^64 - 1)
    Gen.powerOfFive128 (-342) = true := by decide +kernel

theorem neg_to_inv {w a : Nat} (hw : w < 2^64) (h : w * a % 2^64 = 2^64 - 1) :
    (2^64 - w) * a % 2^64 = 1 := by
  have e : (2^64 - w) * a + w * a = 2^64 * a := by
    rw [← Nat.add_mul, Nat.sub_add_cancel (Nat.le_of_lt hw)]
  have hk : w * a / 2^64 < a := by
    rw [Nat.div_lt_iff_lt_mul (by decide)]
    rcases Nat.eq_zero_or_pos a with rfl | ha
    · simp at h
    · rw [Nat.mul_comm a]; exact Nat.mul_lt_mul_of_pos_right hw ha
  have := Nat.div_add_mod (w * a) (2^64)
  omega

/-- `w·a ≡ −1 (mod 2^64)` has at most one solution below `2^64` -/
theorem negInv_unique {w w0 a : Nat} (hw : w < 2^64) (hw0 : w0 < 2^64)
    (h : w * a % 2^64 = 2^64 - 1) (h0 : w0 * a % 2^64 = 2^64 - 1) : w = w0 := by
  have p : 0 < w := by
    rcases Nat.eq_zero_or_pos w with rfl | h'
    · simp at h
    · exact h'
  have p0 : 0 < w0 := by
    rcases Nat.eq_zero_or_pos w0 with rfl | h'
    · simp at h0
    · exact h'
  have := inv_unique (w := 2^64 - w) (i := 2^64 - w0) (a := a) (by omega) (by omega)
    (neg_to_inv hw h) (neg_to_inv hw0 h0)
  omega

section
variable {F : FloatC}

/-- **a declined answer pins the input down** -/
theorem declinedAt_of_declined (hS : LemSnd F) (h2 : NoAllOnesSecond F) {q : Int} {w : Nat}
    (hw : w < 2^64) {fp : ExtFloat} (he : computeFloat genLemire F q w = some fp) (hneg : fp.exp < 0) :
    declinedAt F q = some w := by
  have hF := hS.lem
  obtain ⟨fp', he', hs⟩ := computeFloat_gen hF q hw
  rw [he] at he'; cases he'
  rcases hs with hd | ⟨hw0, hq1, hq2, _⟩
  · have := hd.1; omega
  have hs := hF.sm; have hl := hF.lg
  obtain ⟨hi5, lo5, hrow, hok, heq⟩ := computeFloat_gen_eq hF hw0 hw hq1 hq2
  rw [he] at heq
  have hfp := Option.some.inj heq
  have hb := product_bounds (p := F.mantissaSize + 3) hw0 hw hok
  have hn := norm_bounds hw0 hw
  have hrA := rowAt_eq (by omega) hrow
  rcases roundCore_cases hF.wf q (clz64 w) (productCore (w * 2^(clz64 w)) hi5 lo5 (F.mantissaSize + 3)).1
      hb.2.2 with ⟨hall, hout, _⟩ | hd
  · cases htk : secondTaken (w * 2^(clz64 w)) hi5 (F.mantissaSize + 3)
    · rw [productCore_not_taken htk] at hall
      simp only [] at hall
      unfold u64Max at hall
      have hodd : (w * 2^(clz64 w) * hi5) % 2 = 1 := by omega
      have hlz : clz64 w = 0 := by
        rcases Nat.eq_zero_or_pos (clz64 w) with h0 | hpos
        · exact h0
        · exfalso
          obtain ⟨k, hk⟩ : ∃ k, clz64 w = k + 1 := ⟨clz64 w - 1, by omega⟩
          have : w * 2^(clz64 w) * hi5 = 2 * (w * 2^k * hi5) := by rw [hk, Nat.pow_succ]; ring
          omega
      rw [hlz, Nat.pow_zero, Nat.mul_one] at hall htk hn hodd
      have hhi5 : hi5 % 2 = 1 := by
        rcases Nat.mod_two_eq_zero_or_one hi5 with h0 | h1
        · exfalso
          obtain ⟨c, hc⟩ : ∃ c, hi5 = 2 * c := ⟨hi5 / 2, by omega⟩
          have : w * hi5 = 2 * (w * c) := by rw [hc]; ring
          omega
        · exact h1
      -- the Newton inverse is this `w`
      have hchk := rowsGo_rowAt _ negInv_check (q := q) (by omega) (by omega)
      rw [hrA] at hchk
      simp only [Bool.or_eq_true, beq_iff_eq] at hchk
      have hcand : negInv hi5 * hi5 % 2^64 = 2^64 - 1 := by
        rcases hchk with h0 | h1
        · omega
        · exact h1
      have hweq : w = negInv hi5 :=
        negInv_unique hw (by unfold negInv; exact Nat.mod_lt _ (by decide)) (by omega) hcand
      unfold declinedAt declinedOf
      rw [hrA]
      simp only []
      rw [← hweq, if_pos ⟨hq1, hq2, hout, by omega, hn.1, htk⟩]
    · exfalso
      exact h2 q _ hi5 lo5 (by omega) (by omega) hout hrA hn.1 hn.2 htk hall
  · rw [← hfp] at hd; have := hd.1; omega

end

/-- the significands of `declinedOf` do make `compute_float` decline (kernel evaluation, all rows) -/
def declinedRowOk (F : FloatC) (e : Nat × Nat) (q : Int) : Bool :=
  match declinedOf F q e with
  | none => true
  | some w => decide (w < 2^64) &&
    (match computeFloat genLemire F q w with
     | some fp => decide (fp.exp < 0)
     | none => false)

theorem declinedRows_f64 : rowsGo (declinedRowOk Gen.F64) Gen.powerOfFive128 (-342) = true := by
  decide +kernel
theorem declinedRows_f32 : rowsGo (declinedRowOk Gen.F32) Gen.powerOfFive128 (-342) = true := by
  decide +kernel

theorem declined_of_declinedAt {F : FloatC} (hs : -342 ≤ F.smallestPowerOfTen) (hl : F.largestPowerOfTen ≤ 308)
    (hrows : rowsGo (declinedRowOk F) Gen.powerOfFive128 (-342) = true) {q : Int} {w : Nat}
    (h : declinedAt F q = some w) :
    w < 2^64 ∧ ∃ fp, computeFloat genLemire F q w = some fp ∧ fp.exp < 0 := by
  have hr : F.smallestPowerOfTen ≤ q ∧ q ≤ F.largestPowerOfTen := by
    unfold declinedAt declinedOf at h
    split at h
    · rename_i hc; exact ⟨hc.1, hc.2.1⟩
    · cases h
  have := rowsGo_rowAt _ hrows (q := q) (by omega) (by omega)
  unfold declinedRowOk at this
  unfold declinedAt at h
  rw [h] at this
  simp only [Bool.and_eq_true, decide_eq_true_eq] at this
  refine ⟨this.1, ?_⟩
  have h2 := this.2
  split at h2
  · rename_i fp hfp
    exact ⟨fp, hfp, of_decide_eq_true h2⟩
  · cases h2

/-- **`compute_float::<f64>` declines on exactly one significand per listed exponent**:
    `compute_float(q, w)` returns an error-marked answer iff `w = declinedAt q` -/
theorem computeFloat_declined_iff_f64 {q : Int} {w : Nat} (hw : w < 2^64) :
    (∃ fp, computeFloat genLemire Gen.F64 q w = some fp ∧ fp.exp < 0) ↔ declinedAt Gen.F64 q = some w :=
  ⟨fun ⟨_, he, hneg⟩ => declinedAt_of_declined lemSnd_F64 noAllOnesSecond_f64 hw he hneg,
   fun h => (declined_of_declinedAt (by decide) (by decide) declinedRows_f64 h).2⟩

theorem computeFloat_declined_iff_f32 {q : Int} {w : Nat} (hw : w < 2^64) :
    (∃ fp, computeFloat genLemire Gen.F32 q w = some fp ∧ fp.exp < 0) ↔ declinedAt Gen.F32 q = some w :=
  ⟨fun ⟨_, he, hneg⟩ => declinedAt_of_declined lemSnd_F32 noAllOnesSecond_f32 hw he hneg,
   fun h => (declined_of_declinedAt (by decide) (by decide) declinedRows_f32 h).2⟩

/-- all `(q, w)` with `declinedOf … = some w`, walking the table -/
def declGo (F : FloatC) : List (Nat × Nat) → Int → List (Int × Nat)
  | [], _ => []
  | e :: es, q =>
    match declinedOf F q e with
    | some w => (q, w) :: declGo F es (q + 1)
    | none => declGo F es (q + 1)

/-- the inputs on which `compute_float::<F>` declines -/
def declinedList (F : FloatC) : List (Int × Nat) := declGo F Gen.powerOfFive128 (-342)

theorem mem_declGo (F : FloatC) {q : Int} {w : Nat} : ∀ (l : List (Nat × Nat)) (q0 : Int),
    (q, w) ∈ declGo F l q0 ↔ ∃ (i : Nat) (h : i < l.length), q = q0 + i ∧ declinedOf F q l[i] = some w
  | [], q0 => by simp [declGo]
  | e :: es, q0 => by
    have ih := mem_declGo F (q := q) (w := w) es (q0 + 1)
    have key : ((q, w) ∈ declGo F (e :: es) q0) ↔
        (declinedOf F q0 e = some w ∧ q = q0) ∨ (q, w) ∈ declGo F es (q0 + 1) := by
      rw [show declGo F (e :: es) q0 = (match declinedOf F q0 e with
        | some w => (q0, w) :: declGo F es (q0 + 1)
        | none => declGo F es (q0 + 1)) from rfl]
      split
      · rename_i w' hw'
        rw [List.mem_cons, hw']
        constructor
        · rintro (h | h)
          · cases h; exact Or.inl ⟨rfl, rfl⟩
          · exact Or.inr h
        · rintro (⟨h1, h2⟩ | h)
          · cases h1; subst h2; exact Or.inl rfl
          · exact Or.inr h
      · rename_i hn
        rw [hn]
        constructor
        · exact Or.inr
        · rintro (⟨h1, _⟩ | h)
          · cases h1
          · exact h
    rw [key, ih]
    constructor
    · rintro (⟨h1, h2⟩ | ⟨i, hi, h1, h2⟩)
      · subst h2
        exact ⟨0, by simp, by simp, by simpa using h1⟩
      · exact ⟨i + 1, by simpa using hi, by push_cast; omega, by simpa using h2⟩
    · rintro ⟨i, hi, h1, h2⟩
      cases i with
      | zero =>
        left
        have : q = q0 := by simpa using h1
        subst this
        exact ⟨by simpa using h2, rfl⟩
      | succ j =>
        right
        exact ⟨j, by simpa using hi, by push_cast at h1; omega, by simpa using h2⟩

/-- membership in the list is `declinedAt` -/
theorem mem_declinedList {F : FloatC} (hs : -342 ≤ F.smallestPowerOfTen) (hl : F.largestPowerOfTen ≤ 308)
    {q : Int} {w : Nat} : (q, w) ∈ declinedList F ↔ declinedAt F q = some w := by
  have hlen := table_length
  unfold declinedList declinedAt
  rw [mem_declGo]
  constructor
  · rintro ⟨i, hi, h1, h2⟩
    have : rowAt q = Gen.powerOfFive128[i] := by
      unfold rowAt
      have e : (q + 342).toNat = i := by omega
      rw [e, List.getD_eq_getElem?_getD, List.getElem?_eq_getElem hi]; rfl
    rw [this]; exact h2
  · intro h
    have hr : F.smallestPowerOfTen ≤ q ∧ q ≤ F.largestPowerOfTen := by
      unfold declinedOf at h
      split at h
      · rename_i hc; exact ⟨hc.1, hc.2.1⟩
      · cases h
    have hi : (q + 342).toNat < Gen.powerOfFive128.length := by omega
    refine ⟨(q + 342).toNat, hi, by omega, ?_⟩
    have : rowAt q = Gen.powerOfFive128[(q + 342).toNat] := by
      unfold rowAt
      rw [List.getD_eq_getElem?_getD, List.getElem?_eq_getElem hi]; rfl
    rw [← this]; exact h

/-- **138 inputs `(q, w)` make `compute_float::<f64>` decline, 10 make `compute_float::<f32>` decline** -/
theorem declined_count_f64 : (declinedList Gen.F64).length = 138 := by decide +kernel

theorem declined_list_f32 : declinedList Gen.F32 =
    [(-59, 18343440309874191887), (-57, 10240019805240390365), (-46, 9586467486297153595),
     (-45, 10951653785680768975), (-43, 17407124899869597493), (-39, 10114952411948569017),
     (-38, 15484043008446510339), (-37, 11378377293076434211), (-35, 16185735156734648777),
     (-30, 14999775663049351983)] := by decide +kernel

theorem declined_count_f32 : (declinedList Gen.F32).length = 10 := by rw [declined_list_f32]; rfl

/-- the complete list for f64 as a membership statement -/
theorem computeFloat_declined_mem_f64 {q : Int} {w : Nat} (hw : w < 2^64) :
    (∃ fp, computeFloat genLemire Gen.F64 q w = some fp ∧ fp.exp < 0) ↔ (q, w) ∈ declinedList Gen.F64 := by
  rw [computeFloat_declined_iff_f64 hw, mem_declinedList (by decide) (by decide)]

theorem computeFloat_declined_mem_f32 {q : Int} {w : Nat} (hw : w < 2^64) :
    (∃ fp, computeFloat genLemire Gen.F32 q w = some fp ∧ fp.exp < 0) ↔ (q, w) ∈ declinedList Gen.F32 := by
  rw [computeFloat_declined_iff_f32 hw, mem_declinedList (by decide) (by decide)]

/-- non-vacuity: the known f64 example -/
example : declinedAt Gen.F64 (-329) = some 9495784171365944765 := by decide +kernel
example : ∃ fp, computeFloat genLemire Gen.F64 (-329) 9495784171365944765 = some fp ∧ fp.exp < 0 :=
  (computeFloat_declined_iff_f64 (by decide)).2 (by decide +kernel)

end MinLex.NoAllOnes
