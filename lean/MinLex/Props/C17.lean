/-
  C17 — float field helpers (`Float::is_denormal / exponent / mantissa`, `slow::b`, `slow::bh`,
  `extended_to_float`) agree with the IEEE decoding of the spec (`decode`), for EVERY bit pattern.

  Remark (e).  In the model, `to_bits` / `from_bits` are the identity: a float *is* its bit pattern
  (a `Nat`), `extendedToFloat` only adds the truncation to `2^width` that `f32::from_bits(x as u32)`
  performs.  The masks are tied to the two parameters (mantissa size, width) by `FloatC.WF`, which is
  proved by `decide` for the regenerated `Gen.F32` / `Gen.F64` (`F32_WF`, `F64_WF`); the equations
  `F.mantissaMask = 2^ms - 1`, `F.exponentMask = (2^ebits - 1) * 2^ms`, `F.hiddenBitMask = 2^ms`,
  `F.signMask = 2^(width-1)` are the WF fields `mantMask`, `expMask`, `hidden`, `signMask` themselves
  (restated below as `C17_masks`).
-/
import MinLex.Proofs.WellFormed
import MinLex.Proofs.Bits
import MinLex.Model.Rounding
namespace MinLex
open Bits

/-- biased exponent field of a bit pattern (sign bit ignored) -/
def expField (F : FloatC) (bits : Nat) : Nat := bits / 2 ^ F.mantissaSize % 2 ^ F.ebits
/-- fraction field of a bit pattern -/
def fracField (F : FloatC) (bits : Nat) : Nat := bits % 2 ^ F.mantissaSize

section
variable {F : FloatC}

theorem FloatC.WF.width_pred (h : F.WF) : F.width - 1 = F.mantissaSize + F.ebits := by
  have := h.width_eq; omega

theorem expField_lt (F : FloatC) (bits : Nat) : expField F bits < 2 ^ F.ebits :=
  Nat.mod_lt _ (Nat.two_pow_pos _)

theorem fracField_lt (F : FloatC) (bits : Nat) : fracField F bits < 2 ^ F.mantissaSize :=
  Nat.mod_lt _ (Nat.two_pow_pos _)

/-- (e) the masks are the canonical ones -/
theorem C17_masks (h : F.WF) :
    F.mantissaMask = 2 ^ F.mantissaSize - 1 ∧
    F.exponentMask = (2 ^ F.ebits - 1) * 2 ^ F.mantissaSize ∧
    F.hiddenBitMask = 2 ^ F.mantissaSize ∧
    F.signMask = 2 ^ (F.width - 1) ∧
    F.mantissaMask + F.exponentMask + F.signMask + 1 = 2 ^ F.width := by
  refine ⟨h.mantMask, h.expMask, h.hidden, h.signMask, ?_⟩
  rw [h.mantMask, h.expMask, h.signMask, h.width_pred, h.width_eq]
  have h1 := Nat.two_pow_pos F.mantissaSize
  have h2 := Nat.two_pow_pos F.ebits
  have e1 : 2 ^ (F.mantissaSize + F.ebits) = 2 ^ F.ebits * 2 ^ F.mantissaSize := by
    rw [Nat.pow_add, Nat.mul_comm]
  have e2 : 2 ^ (F.mantissaSize + F.ebits + 1) = 2 * (2 ^ F.ebits * 2 ^ F.mantissaSize) := by
    rw [Nat.pow_succ, e1, Nat.mul_comm]
  rw [e1, e2, Nat.sub_mul, Nat.one_mul]
  have : 2 ^ F.mantissaSize ≤ 2 ^ F.ebits * 2 ^ F.mantissaSize := Nat.le_mul_of_pos_left _ h2
  omega

theorem and_exponentMask (h : F.WF) (bits : Nat) :
    bits &&& F.exponentMask = expField F bits * 2 ^ F.mantissaSize := by
  rw [h.expMask, and_field]; rfl

theorem and_mantissaMask (h : F.WF) (bits : Nat) : bits &&& F.mantissaMask = fracField F bits := by
  rw [h.mantMask, and_lowMask]; rfl

/-- (a) `is_denormal` ⇔ the exponent field is zero (zero counts as denormal, as in the crate). -/
theorem C17_isDenormal (h : F.WF) (bits : Nat) :
    isDenormal F bits = true ↔ expField F bits = 0 := by
  unfold isDenormal
  rw [and_exponentMask h]
  have := Nat.two_pow_pos F.mantissaSize
  simp only [beq_iff_eq, Nat.mul_eq_zero]
  omega

/-- the spec's decoding of the sign-stripped pattern, by fields -/
theorem decode_fields (h : F.WF) (bits : Nat) :
    decode F.fmt (bits % 2 ^ (F.width - 1)) =
      if expField F bits = 0 then (fracField F bits, F.fmt.kmin)
      else (2 ^ F.mantissaSize + fracField F bits, F.fmt.kmin + (expField F bits : Int) - 1) := by
  rw [h.width_pred]
  unfold decode
  simp only [h.fmt_eq, mod_pow_add_div, mod_pow_add_mod]
  rfl

/-- (b) `Float::mantissa` / `Float::exponent` are the IEEE decoding (hidden bit supplied for normal
    values, `DENORMAL_EXPONENT` for subnormals, sign ignored).  Holds for every pattern; for the
    finite ones (`expField < 2^ebits - 1`) `decode` is the value of the float. -/
theorem C17_mantissa_exponent (h : F.WF) (bits : Nat) :
    (floatMantissa F bits, floatExponent F bits) = decode F.fmt (bits % 2 ^ (F.width - 1)) := by
  rw [decode_fields h]
  unfold floatMantissa floatExponent
  simp only [and_mantissaMask h]
  by_cases hd : expField F bits = 0
  · have := (C17_isDenormal h bits).mpr hd
    simp only [this, hd, if_true, Bool.not_true]
    rw [h.denormal, h.kmin_eq]
    rfl
  · have hnd : isDenormal F bits = false := by
      have := (C17_isDenormal h bits).not.mpr hd
      simpa using this
    simp only [hnd, hd, if_false, Bool.not_false, if_true]
    rw [and_exponentMask h, mul_pow_shr, h.hidden, h.kmin_eq, Nat.add_comm]
    simp only [Bool.false_eq_true, if_false]
    congr 1
    omega

/-- the decoded significand has at most `ms + 1` bits -/
theorem decode_mant_lt (h : F.WF) (bits : Nat) :
    (decode F.fmt (bits % 2 ^ (F.width - 1))).1 < 2 ^ (F.mantissaSize + 1) := by
  rw [decode_fields h]
  have := fracField_lt F bits
  rw [Nat.pow_succ]
  split <;> simp only <;> omega

/-- (c) `slow::b` is the decoding … -/
theorem C17_fb (h : F.WF) (bits : Nat) :
    fb F bits = ⟨(decode F.fmt (bits % 2 ^ (F.width - 1))).1,
                 (decode F.fmt (bits % 2 ^ (F.width - 1))).2⟩ := by
  unfold fb
  have := C17_mantissa_exponent h bits
  rw [← this]

/-- … and `slow::bh` is `b + ulp/2 = (2m+1) · 2^(k-1)`; the `u64` shift/add cannot wrap because
    `m < 2^(ms+1) ≤ 2^62`. -/
theorem C17_fbh (h : F.WF) (bits : Nat) :
    fbh F bits = ⟨2 * (decode F.fmt (bits % 2 ^ (F.width - 1))).1 + 1,
                  (decode F.fmt (bits % 2 ^ (F.width - 1))).2 - 1⟩ := by
  unfold fbh
  rw [C17_fb h]
  have hlt := decode_mant_lt h bits
  have : 2 ^ (F.mantissaSize + 1) ≤ 2 ^ 62 := Nat.pow_le_pow_right (by decide) (by have := h.ms_le; omega)
  simp only [u64Mod]
  congr 1
  omega

theorem i32AsU64_natCast {E : Nat} (hE : E < 2 ^ 64) : i32AsU64 (E : Int) = E := by
  unfold i32AsU64 u64Mod
  rw [← Int.natCast_mod, Int.toNat_natCast]
  exact Nat.mod_eq_of_lt hE

theorem field_pack_lt (h : F.WF) {fr E : Nat} (hfr : fr ≤ 2 ^ F.mantissaSize) (hE : E < 2 ^ F.ebits)
    (hc : fr = 2 ^ F.mantissaSize → E + 1 < 2 ^ F.ebits) :
    E * 2 ^ F.mantissaSize + fr < 2 ^ (F.width - 1) := by
  rw [h.width_pred, Nat.pow_add, Nat.mul_comm (2 ^ F.mantissaSize)]
  have hp := Nat.two_pow_pos F.mantissaSize
  rcases Nat.lt_or_ge fr (2 ^ F.mantissaSize) with h1 | h1
  · have : (E + 1) * 2 ^ F.mantissaSize ≤ 2 ^ F.ebits * 2 ^ F.mantissaSize :=
      Nat.mul_le_mul_right _ hE
    rw [Nat.add_mul, Nat.one_mul] at this
    omega
  · have h2 := hc (by omega)
    have : (E + 2) * 2 ^ F.mantissaSize ≤ 2 ^ F.ebits * 2 ^ F.mantissaSize :=
      Nat.mul_le_mul_right _ h2
    rw [Nat.add_mul] at this
    omega

theorem pow_width_pred_lt (F : FloatC) (h : F.WF) : 2 ^ (F.width - 1) < 2 ^ F.width ∧ 2 ^ F.width ≤ 2 ^ 64 := by
  constructor
  · apply Nat.pow_lt_pow_right (by decide); have := h.width_eq; omega
  · exact Nat.pow_le_pow_right (by decide) h.width_le

/-- (d) `extended_to_float` packs fraction and exponent fields: `E * 2^ms + fr`. -/
theorem C17_extendedToFloat (h : F.WF) {fr E : Nat} (hfr : fr < 2 ^ F.mantissaSize)
    (hE : E < 2 ^ F.ebits) :
    extendedToFloat F ⟨fr, (E : Int)⟩ = E * 2 ^ F.mantissaSize + fr := by
  have hlt := field_pack_lt h (Nat.le_of_lt hfr) hE (by omega)
  have ⟨hw1, hw2⟩ := pow_width_pred_lt F h
  have hE64 : E < 2 ^ 64 := by
    have : 2 ^ F.ebits ≤ 2 ^ 64 := Nat.pow_le_pow_right (by decide) (by have := h.width_eq; have := h.width_le; omega)
    omega
  unfold extendedToFloat
  simp only [i32AsU64_natCast hE64, u64Mod]
  rw [Nat.mod_eq_of_lt (a := E * 2 ^ F.mantissaSize) (by omega), or_eq_add_of_lt hfr,
    Nat.mod_eq_of_lt (by omega), Nat.add_comm]

/-- (d′) the one case callers produce with the hidden bit still set (a subnormal that rounded up to
    the smallest normal): the OR (not ADD) yields exponent field 1, fraction 0. -/
theorem C17_extendedToFloat_hidden (h : F.WF) :
    extendedToFloat F ⟨2 ^ F.mantissaSize, 1⟩ = 2 ^ F.mantissaSize := by
  have hp := Nat.two_pow_pos F.mantissaSize
  have hlt := field_pack_lt h (fr := 0) (E := 1) (Nat.zero_le _) (by
    have := Nat.pow_le_pow_right (n := 2) (by decide) h.eb_ge; omega) (by
    intro h0; omega)
  have ⟨hw1, hw2⟩ := pow_width_pred_lt F h
  unfold extendedToFloat
  have : i32AsU64 1 = 1 := by decide
  simp only [this, u64Mod]
  rw [Nat.mod_eq_of_lt (a := 1 * 2 ^ F.mantissaSize) (by omega), or_self_pow,
    Nat.mod_eq_of_lt (by omega)]

/-- decoding a packed pattern returns exactly the fields -/
theorem decode_pack (f : Fmt) {fr : Nat} (E : Nat) (hfr : fr < 2 ^ f.mbits) :
    decode f (E * 2 ^ f.mbits + fr) =
      if E = 0 then (fr, f.kmin) else (2 ^ f.mbits + fr, f.kmin + (E : Int) - 1) := by
  unfold decode
  have h1 : (E * 2 ^ f.mbits + fr) / 2 ^ f.mbits = E := by
    rw [Nat.add_comm, Nat.add_mul_div_right _ _ (Nat.two_pow_pos _), Nat.div_eq_of_lt hfr, Nat.zero_add]
  have h2 : (E * 2 ^ f.mbits + fr) % 2 ^ f.mbits = fr := by
    rw [Nat.add_comm, Nat.add_mul_mod_self_right, Nat.mod_eq_of_lt hfr]
  simp only [h1, h2]

/-- (d″) `decode (extended_to_float ⟨fr, E⟩)` has exactly the fields `fr`, `E`. -/
theorem C17_decode_extendedToFloat (h : F.WF) {fr E : Nat} (hfr : fr < 2 ^ F.mantissaSize)
    (hE : E < 2 ^ F.ebits) :
    decode F.fmt (extendedToFloat F ⟨fr, (E : Int)⟩) =
      if E = 0 then (fr, F.fmt.kmin) else (2 ^ F.mantissaSize + fr, F.fmt.kmin + (E : Int) - 1) := by
  rw [C17_extendedToFloat h hfr hE]
  exact decode_pack F.fmt E hfr

/-- round trip: packing the fields of a (sign-stripped) pattern gives the pattern back -/
theorem C17_roundtrip (h : F.WF) (bits : Nat) (hb : bits < 2 ^ (F.width - 1)) :
    extendedToFloat F ⟨fracField F bits, (expField F bits : Int)⟩ = bits := by
  rw [C17_extendedToFloat h (fracField_lt F bits) (expField_lt F bits)]
  unfold expField fracField
  rw [h.width_pred, Nat.pow_add] at hb
  have : bits / 2 ^ F.mantissaSize < 2 ^ F.ebits := by
    rw [Nat.div_lt_iff_lt_mul (Nat.two_pow_pos _), Nat.mul_comm]; exact hb
  rw [Nat.mod_eq_of_lt this, Nat.mul_comm]
  exact Nat.div_add_mod bits _

end

/-! ### Instances for the regenerated constants -/

theorem C17_f64_mantissa_exponent (bits : Nat) :
    (floatMantissa Gen.F64 bits, floatExponent Gen.F64 bits) = decode Fmt.f64 (bits % 2 ^ 63) :=
  C17_mantissa_exponent F64_WF bits

theorem C17_f32_mantissa_exponent (bits : Nat) :
    (floatMantissa Gen.F32 bits, floatExponent Gen.F32 bits) = decode Fmt.f32 (bits % 2 ^ 31) :=
  C17_mantissa_exponent F32_WF bits

theorem C17_f64_isDenormal (bits : Nat) :
    isDenormal Gen.F64 bits = true ↔ bits / 2 ^ 52 % 2 ^ 11 = 0 := C17_isDenormal F64_WF bits

theorem C17_f32_isDenormal (bits : Nat) :
    isDenormal Gen.F32 bits = true ↔ bits / 2 ^ 23 % 2 ^ 8 = 0 := C17_isDenormal F32_WF bits

theorem C17_f64_fbh (bits : Nat) :
    fbh Gen.F64 bits = ⟨2 * (decode Fmt.f64 (bits % 2 ^ 63)).1 + 1, (decode Fmt.f64 (bits % 2 ^ 63)).2 - 1⟩ :=
  C17_fbh F64_WF bits

theorem C17_f32_fbh (bits : Nat) :
    fbh Gen.F32 bits = ⟨2 * (decode Fmt.f32 (bits % 2 ^ 31)).1 + 1, (decode Fmt.f32 (bits % 2 ^ 31)).2 - 1⟩ :=
  C17_fbh F32_WF bits

theorem C17_f64_extendedToFloat {fr E : Nat} (hfr : fr < 2 ^ 52) (hE : E < 2 ^ 11) :
    extendedToFloat Gen.F64 ⟨fr, (E : Int)⟩ = E * 2 ^ 52 + fr := C17_extendedToFloat F64_WF hfr hE

theorem C17_f32_extendedToFloat {fr E : Nat} (hfr : fr < 2 ^ 23) (hE : E < 2 ^ 8) :
    extendedToFloat Gen.F32 ⟨fr, (E : Int)⟩ = E * 2 ^ 23 + fr := C17_extendedToFloat F32_WF hfr hE

/-! ### Non-vacuity / sanity on concrete patterns -/

-- 1.0f64 = 0x3FF0000000000000 : mantissa 2^52, exponent -52
example : (floatMantissa Gen.F64 0x3FF0000000000000, floatExponent Gen.F64 0x3FF0000000000000)
    = (2 ^ 52, -52) := by decide
-- the sign bit is ignored
example : fb Gen.F64 0xBFF0000000000000 = ⟨2 ^ 52, -52⟩ := by decide
-- smallest subnormal
example : fb Gen.F64 1 = ⟨1, -1074⟩ ∧ fbh Gen.F64 1 = ⟨3, -1075⟩ := by decide
example : isDenormal Gen.F32 0x007FFFFF = true ∧ isDenormal Gen.F32 0x00800000 = false := by decide
-- hidden-bit case of `extended_to_float`
example : extendedToFloat Gen.F32 ⟨2 ^ 23, 1⟩ = 0x00800000 := by decide
example : extendedToFloat Gen.F64 ⟨5, (3 : Nat)⟩ = 3 * 2 ^ 52 + 5 :=
  C17_f64_extendedToFloat (by decide) (by decide)

end MinLex
