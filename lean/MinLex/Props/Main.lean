/-
  MAIN — the composition theorem: for every configuration and every valid input the model of
  `parse_float` returns `rne` of the exact decimal value, PROVIDED the six stage contracts in
  `Hyps` hold.  Each field of `Hyps` is a separately stated (and separately discharged or
  monitored) obligation; nothing here is an axiom.  C01, C02, C03, C05, C06, C07, C09, C10 are
  corollaries (files Props/C01 …).
-/
import MinLex.Model.Env
import MinLex.Props.RneSpec
namespace MinLex.Main
open MinLex

/-- lower end of the interval a `Number` denotes: `w · 10^q` -/
def numLo (n : Number) : Q := ofDec n.mantissa n.exponent
/-- upper end (exclusive) when digits were dropped: `(w+1) · 10^q` -/
def numHi (n : Number) : Q := ofDec (n.mantissa + 1) n.exponent

/-- `n` denotes the exact value `v`: exactly (`w·10^q`, or the half-open interval when digits were
    truncated), or — when the i32 exponent saturated — both are on the same side of every
    representable range. -/
def Denotes (n : Number) (v : Q) : Prop :=
  0 < v.den ∧
  ((Q.le (numLo n) v ∧ (if n.manyDigits then Q.lt v (numHi n) else Q.eqv v (numLo n)))
   ∨ (n.mantissa = 0 ∧ v.num = 0)
   ∨ (n.exponent ≤ -1000 ∧ Q.lt v (ofDec 1 (-400)))
   ∨ (1000 ≤ n.exponent ∧ 1 ≤ n.mantissa ∧ Q.le (ofDec 1 400) v))

/-- shape facts every `Number` produced by `parse_number` on valid input satisfies -/
def NumOK (n : Number) : Prop :=
  n.mantissa < 10^19 ∧ (n.manyDigits = true → 10^18 ≤ n.mantissa) ∧ i32Min ≤ n.exponent ∧ n.exponent ≤ i32Max

/-- Hand-off contract between a declining moderate stage and the big-integer path (DESIGN 4.4):
    the estimate is normalised, its exponent is at least −64, and the correctly rounded result is
    the truncated estimate `b` or its successor. -/
def EstOK (F : FloatC) (fp : ExtFloat) (v : Q) : Prop :=
  2^63 ≤ fp.mant ∧ fp.mant < 2^64 ∧ -64 ≤ fp.exp ∧
  (rne F.fmt v = extendedToFloat F (round F roundDown fp) ∨
   rne F.fmt v = extendedToFloat F (round F roundDown fp) + 1)

/-- The seven stage contracts. -/
structure Hyps (E : Env) (F : FloatC) : Prop where
  /-- digit accumulation (parse.rs) -/
  pn : ∀ int frac e, Valid int frac e →
    Denotes (parseNumber int frac e) (digitsValue int frac e) ∧ NumOK (parseNumber int frac e)
  /-- fast path (number.rs): one exactly rounded IEEE operation -/
  fast : ∀ n v b, Denotes n v →
    tryFastPath F (E.powFastPath F) (intPow10 E.cfg.compact E.pow.smallIntPow10) n = some b → b = rne F.fmt v
  /-- the moderate stage never panics on a denoting number -/
  modTotal : ∀ n, NumOK n → ∃ fp, moderatePath E F n = some fp
  /-- C11: a definite answer of the moderate stage is right -/
  modSound : ∀ n v fp, Denotes n v → NumOK n → moderatePath E F n = some fp → 0 ≤ fp.exp →
    extendedToFloat F fp = rne F.fmt v
  /-- a declined answer satisfies the hand-off contract -/
  modEst : ∀ n v fp, Denotes n v → NumOK n → moderatePath E F n = some fp → fp.exp < 0 →
    EstOK F ⟨fp.mant, wrapI32 (fp.exp - F.invalidFp)⟩ v
  /-- the moderate stage declines only on non-zero significands with a moderate decimal exponent
      (the slow path's i32 exponent arithmetic and its use of an empty big integer rely on it) -/
  modRange : ∀ n fp, NumOK n → moderatePath E F n = some fp → fp.exp < 0 →
    n.mantissa ≠ 0 ∧ -400 ≤ n.exponent ∧ n.exponent ≤ 400
  /-- big-integer path (slow.rs, bigint.rs): correct whenever the hand-off contract holds -/
  slow : ∀ int frac e fp, Valid int frac e →
    (parseNumber int frac e).mantissa ≠ 0 → -400 ≤ (parseNumber int frac e).exponent →
    (parseNumber int frac e).exponent ≤ 400 → EstOK F fp (digitsValue int frac e) →
    ∃ r, slow E.cap E.pow F (parseNumber int frac e) fp int frac = some r ∧
      extendedToFloat F r = rne F.fmt (digitsValue int frac e)

/-- MAIN: under the stage contracts, `parse_float` is `rne ∘ digitsValue` on valid input. -/
theorem MAIN {E : Env} {F : FloatC} (h : Hyps E F) (int frac : List UInt8) (e : Int)
    (hv : Valid int frac e) :
    parseFloat E F int frac e = .ok (rne F.fmt (digitsValue int frac e)) := by
  obtain ⟨hd, hok⟩ := h.pn int frac e hv
  unfold parseFloat
  simp only []
  cases hfp : tryFastPath F (E.powFastPath F) (intPow10 E.cfg.compact E.pow.smallIntPow10) (parseNumber int frac e) with
  | some b => simp only []; rw [h.fast _ _ b hd hfp]
  | none =>
    simp only []
    obtain ⟨fp, hmp⟩ := h.modTotal _ hok
    rw [hmp]
    simp only []
    by_cases hneg : fp.exp < 0
    · rw [if_pos hneg]
      have hest := h.modEst _ _ fp hd hok hmp hneg
      obtain ⟨hm0, hlo, hhi⟩ := h.modRange _ fp hok hmp hneg
      obtain ⟨r, hr, hbits⟩ := h.slow int frac e _ hv hm0 hlo hhi hest
      rw [hr]; simp only []; rw [hbits]
    · rw [if_neg hneg]
      rw [h.modSound _ _ fp hd hok hmp (by omega)]

/-- The statement MAIN establishes, as a predicate on a configuration and format. -/
def ParseCorrect (E : Env) (F : FloatC) : Prop :=
  ∀ int frac e, Valid int frac e → parseFloat E F int frac e = .ok (rne F.fmt (digitsValue int frac e))

theorem parseCorrect_of_hyps {E : Env} {F : FloatC} (h : Hyps E F) : ParseCorrect E F :=
  fun int frac e hv => MAIN h int frac e hv

theorem digitsValue_den_pos (int frac : List UInt8) (e : Int) : 0 < (digitsValue int frac e).den := by
  unfold digitsValue ofDec
  split
  · exact Nat.one_pos
  · exact Nat.pow_pos (by decide)

-- ------------------------------------------------------------------ corollaries of ParseCorrect
/-- C09 (monotonic): order of values ⇒ order of bit patterns (non-negative floats order like
    their bit patterns; `infBits` is the top). -/
theorem C09_of_parseCorrect {E : Env} {F : FloatC} (h : ParseCorrect E F)
    (ia fa : List UInt8) (ea : Int) (ib fb : List UInt8) (eb : Int)
    (ha : Valid ia fa ea) (hb : Valid ib fb eb)
    (hle : Q.le (digitsValue ia fa ea) (digitsValue ib fb eb)) :
    ∃ x y, parseFloat E F ia fa ea = .ok x ∧ parseFloat E F ib fb eb = .ok y ∧ x ≤ y :=
  ⟨_, _, h ia fa ea ha, h ib fb eb hb,
    RneSpec.rne_mono F.fmt (digitsValue_den_pos ..) (digitsValue_den_pos ..) hle⟩

/-- C10 (equal values, identical bits). -/
theorem C10_of_parseCorrect {E : Env} {F : FloatC} (h : ParseCorrect E F)
    (ia fa : List UInt8) (ea : Int) (ib fb : List UInt8) (eb : Int)
    (ha : Valid ia fa ea) (hb : Valid ib fb eb)
    (heq : Q.eqv (digitsValue ia fa ea) (digitsValue ib fb eb)) :
    parseFloat E F ia fa ea = parseFloat E F ib fb eb := by
  rw [h ia fa ea ha, h ib fb eb hb,
    RneSpec.rne_congr F.fmt (digitsValue_den_pos ..) (digitsValue_den_pos ..) heq]

/-- C05 (configurations agree). -/
theorem C05_of_parseCorrect {E E' : Env} {F : FloatC} (h : ParseCorrect E F) (h' : ParseCorrect E' F)
    (int frac : List UInt8) (e : Int) (hv : Valid int frac e) :
    parseFloat E F int frac e = parseFloat E' F int frac e := by
  rw [h int frac e hv, h' int frac e hv]

end MinLex.Main
