/-
  Property C16, the iterator half made a theorem.

  `parse_float` is generic over `Iterator<Item = &u8> + Clone`.  Model/Iter.lean writes the parser against an
  abstract iterator (`ByteIter`: a state type, `next : σ → Option UInt8 × σ`, cloning = copying the state),
  mirroring the Rust control flow: the three passes over clones, the mixture of `next()`,
  `for … in &mut it { … break }` followed by `for … in it`, `it.count()` on a partially consumed iterator, the
  labelled `loop { while … }` of `parse_mantissa` and its three `round_up_nonzero!` scans.

  THEOREMS.  For every pair of LAWFUL iterators (terminating and fused, `ByteIter.Lawful`) — of any two state
  types — the iterator-level functions equal the list-level model (Model/Parse.lean, Model/Slow.lean) applied
  to the yielded byte sequences `I.toList s`:
    `parseNumberFastI_eq`, `parseNumberSlowI_eq` (number AND trap flag), `parseNumberI_eq`,
    `parseMantissaPMI_eq` (big integer, count AND trap flag), `parseMantissaI_eq`, `slowI_eq`, `parseFloatI_eq`;
  hence `C16_iterator_independent` (the result depends on the two byte sequences only, not on the kind of
  iterator) and `C16_iterator_correct` (via `Final.MAIN_all`: correctly rounded on every valid input, in all
  eight configurations, through any lawful iterators).  The slice, chain, filter and flatten iterators are
  lawful and yield `l`, `a ++ b`, `l.filter (!skip ·)`, `l.flatten`.

  WHAT "LAWFUL" HAS TO CONTAIN — A FINDING.  Besides termination, the hypothesis `fused` ("after a `None`,
  `next` keeps returning `None`") is needed, and not for a modelling reason: the Rust code really calls
  `next()` again after it has received `None` from the same iterator —
    * `parse_number`: `for &c in &mut fraction { … break }` can run to `None` (no integer digits, fraction
      all zeros or empty) and is followed by `for c in fraction`;
    * `parse_mantissa`: the same skip loop on `fraction` is followed by `fraction.next()` in `'fraction`.
  `Iterator::next` is allowed to resume after `None` unless the iterator is a `FusedIterator`.  With such an
  iterator `parse_number_fast` (which stops at the first `None` of its clone) and the later passes (which
  read past it) see DIFFERENT digit sequences; `not_fused_differs` below is a kernel-checked instance
  (20 zeros, `None`, then `7`: the code returns 7e-21, the byte sequence "up to the first `None`" denotes 0).
  So C16's "any other well-behaved cloneable iterator" must be read as including *fused*.  All std adaptors
  over slices (`Iter`, `Chain`, `Filter`, `Flatten`, `Skip`, `Take`, …) are fused, so nothing is wrong for
  them; the list-level model is exactly right for every fused terminating iterator.
-/
import MinLex.Proofs.Iter
import MinLex.Props.Final
namespace MinLex.C16Iter
open MinLex MinLex.It

variable {I1 I2 : ByteIter}

-- ================================================================ the refinement theorems

/-- `parse_number_fast` over two lawful iterators = the list-level model on the yielded sequences -/
theorem parseNumberFastI_eq (hI1 : I1.Lawful) (hI2 : I2.Lawful) (s1 : I1.σ) (s2 : I2.σ) (e : Int) :
    parseNumberFastI I1 s1 I2 s2 e = parseNumberFast (I1.toList s1) (I2.toList s2) e :=
  It.parseNumberFastI_eq hI1 hI2 s1 s2 e

/-- the second pass of `parse_number` (`while let … next()` with the early return through
    `integer.count()`, the `&mut fraction` skip loop, `for c in fraction` on what is left): number and
    trap flag -/
theorem parseNumberSlowI_eq (hI1 : I1.Lawful) (hI2 : I2.Lawful) (s1 : I1.σ) (s2 : I2.σ) (e : Int) :
    parseNumberSlowI I1 s1 I2 s2 e = parseNumberSlow (I1.toList s1) (I2.toList s2) e :=
  It.parseNumberSlowI_eq hI1 hI2 s1 s2 e

/-- `parse_number` -/
theorem parseNumberI_eq (hI1 : I1.Lawful) (hI2 : I2.Lawful) (s1 : I1.σ) (s2 : I2.σ) (e : Int) :
    parseNumberI I1 s1 I2 s2 e = parseNumber (I1.toList s1) (I2.toList s2) e :=
  It.parseNumberI_eq' hI1 hI2 s1 s2 e

/-- `parse_mantissa` as a state: big integer (or failed unwrap), digit count, trap flag.  In particular the
    nested `'label: loop { while … }` never spins and is the fused list-level `pmLoop`. -/
theorem parseMantissaPMI_eq (hI1 : I1.Lawful) (hI2 : I2.Lawful) (cap : Option Nat) (T : PowTables)
    (s1 : I1.σ) (s2 : I2.σ) (md : Nat) :
    parseMantissaPMI cap T I1 s1 I2 s2 md = parseMantissaPM cap T (I1.toList s1) (I2.toList s2) md :=
  It.parseMantissaPMI_eq hI1 hI2 cap T s1 s2 md

/-- `parse_mantissa`, for every capacity, table set and `max_digits` -/
theorem parseMantissaI_eq (hI1 : I1.Lawful) (hI2 : I2.Lawful) (cap : Option Nat) (T : PowTables)
    (s1 : I1.σ) (s2 : I2.σ) (md : Nat) :
    parseMantissaI cap T I1 s1 I2 s2 md = parseMantissa cap T (I1.toList s1) (I2.toList s2) md :=
  It.parseMantissaI_eq' hI1 hI2 cap T s1 s2 md

/-- `slow` -/
theorem slowI_eq (hI1 : I1.Lawful) (hI2 : I2.Lawful) (cap : Option Nat) (T : PowTables) (F : FloatC)
    (num : Number) (fp : ExtFloat) (s1 : I1.σ) (s2 : I2.σ) :
    slowI cap T F num fp I1 s1 I2 s2 = slow cap T F num fp (I1.toList s1) (I2.toList s2) :=
  It.slowI_eq' hI1 hI2 cap T F num fp s1 s2

/-- `parse_float`: for ANY environment and format record -/
theorem parseFloatI_eq (hI1 : I1.Lawful) (hI2 : I2.Lawful) (E : Env) (F : FloatC) (s1 : I1.σ) (s2 : I2.σ)
    (e : Int) : parseFloatI E F I1 s1 I2 s2 e = parseFloat E F (I1.toList s1) (I2.toList s2) e :=
  It.parseFloatI_eq' hI1 hI2 E F s1 s2 e

/-- **C16 (iterator independence).**  Two pairs of lawful iterators of ANY four types that yield the same
    two byte sequences give the same outcome. -/
theorem C16_iterator_independent {J1 J2 : ByteIter} (hI1 : I1.Lawful) (hI2 : I2.Lawful) (hJ1 : J1.Lawful)
    (hJ2 : J2.Lawful) (E : Env) (F : FloatC) (s1 : I1.σ) (s2 : I2.σ) (t1 : J1.σ) (t2 : J2.σ) (e : Int)
    (h1 : I1.toList s1 = J1.toList t1) (h2 : I2.toList s2 = J2.toList t2) :
    parseFloatI E F I1 s1 I2 s2 e = parseFloatI E F J1 t1 J2 t2 e := by
  rw [parseFloatI_eq hI1 hI2, parseFloatI_eq hJ1 hJ2, h1, h2]

/-- the same for the intermediate results -/
theorem C16_iterator_independent_stages {J1 J2 : ByteIter} (hI1 : I1.Lawful) (hI2 : I2.Lawful)
    (hJ1 : J1.Lawful) (hJ2 : J2.Lawful) (cap : Option Nat) (T : PowTables) (md : Nat)
    (s1 : I1.σ) (s2 : I2.σ) (t1 : J1.σ) (t2 : J2.σ) (e : Int)
    (h1 : I1.toList s1 = J1.toList t1) (h2 : I2.toList s2 = J2.toList t2) :
    parseNumberI I1 s1 I2 s2 e = parseNumberI J1 t1 J2 t2 e ∧
    parseMantissaI cap T I1 s1 I2 s2 md = parseMantissaI cap T J1 t1 J2 t2 md := by
  rw [parseNumberI_eq hI1 hI2, parseNumberI_eq hJ1 hJ2, parseMantissaI_eq hI1 hI2,
    parseMantissaI_eq hJ1 hJ2, h1, h2]
  exact ⟨rfl, rfl⟩

/-- **C16 + MAIN.**  In every configuration, for f32 and f64, `parse_float` driven through any lawful
    iterators returns the correctly rounded value of the digits they yield. -/
theorem C16_iterator_correct (cfg : Cfg) {F : FloatC} (hF : F = Gen.F32 ∨ F = Gen.F64)
    (hI1 : I1.Lawful) (hI2 : I2.Lawful) (s1 : I1.σ) (s2 : I2.σ) (e : Int)
    (hv : Valid (I1.toList s1) (I2.toList s2) e) :
    parseFloatI (genEnv cfg) F I1 s1 I2 s2 e
      = .ok (rne F.fmt (digitsValue (I1.toList s1) (I2.toList s2) e)) := by
  rw [parseFloatI_eq hI1 hI2]
  exact Final.MAIN_all cfg hF _ _ _ hv

-- ================================================================ the concrete iterators

/-- the four iterator shapes of the test driver are lawful … -/
theorem instances_lawful :
    sliceIter.Lawful ∧ chainIter.Lawful ∧ (∀ skip, (filterIter skip).Lawful) ∧ chunksIter.Lawful :=
  ⟨sliceIter_lawful, chainIter_lawful, filterIter_lawful, chunksIter_lawful⟩

/-- … and yield the slice, the concatenation, the non-skipped bytes, the flattening -/
theorem instances_toList :
    (∀ l, sliceIter.toList l = l) ∧
    (∀ a b, chainIter.toList (a, b) = a ++ b) ∧
    (∀ skip l, (filterIter skip).toList l = l.filter (fun c => !skip c)) ∧
    (∀ l, chunksIter.toList l = l.flatten) :=
  ⟨sliceIter_toList, chainIter_toList, filterIter_toList, chunksIter_toList⟩

/-- C16 for the driver's shapes, in the list-level vocabulary: any combination of slice / chain / filter /
    flatten iterators gives `parseFloat` of the bytes they stand for -/
theorem C16_shapes (E : Env) (F : FloatC) (e : Int) (a b : List UInt8) (skip : UInt8 → Bool)
    (l : List UInt8) (cs : List (List UInt8)) :
    parseFloatI E F chainIter (a, b) (filterIter skip) l e
      = parseFloat E F (a ++ b) (l.filter (fun c => !skip c)) e ∧
    parseFloatI E F chunksIter cs sliceIter l e = parseFloat E F cs.flatten l e ∧
    parseFloatI E F sliceIter l chunksIter cs e = parseFloat E F l cs.flatten e ∧
    parseFloatI E F (filterIter skip) l chainIter (a, b) e
      = parseFloat E F (l.filter (fun c => !skip c)) (a ++ b) e := by
  refine ⟨?_, ?_, ?_, ?_⟩
  · exact (parseFloatI_eq chainIter_lawful (filterIter_lawful skip) E F (a, b) l e).trans
      (by rw [chainIter_toList, filterIter_toList])
  · exact (parseFloatI_eq chunksIter_lawful sliceIter_lawful E F cs l e).trans
      (by rw [chunksIter_toList, sliceIter_toList])
  · exact (parseFloatI_eq sliceIter_lawful chunksIter_lawful E F l cs e).trans
      (by rw [chunksIter_toList, sliceIter_toList])
  · exact (parseFloatI_eq (filterIter_lawful skip) chainIter_lawful E F l (a, b) e).trans
      (by rw [chainIter_toList, filterIter_toList])

-- ================================================================ non-vacuity

/-- `9007199254740993` -/
def exInt : List UInt8 := [57, 48, 48, 55, 49, 57, 57, 50, 53, 52, 55, 52, 48, 57, 57, 51]
/-- 21 zeros and a `1` -/
def exFrac : List UInt8 := List.replicate 21 48 ++ [49]
/-- the same digits with `_` separators -/
def exFracSep : List UInt8 := List.replicate 3 48 ++ [95] ++ List.replicate 10 48 ++ [95, 95] ++
  List.replicate 8 48 ++ [95, 49]

-- a chain iterator and a filter iterator over different underlying data yield these digits …
example : chainIter.toList (exInt.take 7, exInt.drop 7) = exInt ∧
    (filterIter (· == 95)).toList exFracSep = exFrac ∧ exFracSep ≠ exFrac ∧
    chunksIter.toList [exInt.take 3, [], exInt.drop 3] = exInt := by decide

-- … the input is valid and needs the big-integer path (the moderate path declines: `exp < 0`) …
example : Valid exInt exFrac 0 ∧
    (moderatePath (genEnv ⟨false, false, true⟩) Gen.F64 (parseNumber exInt exFrac 0)).map (fun fp => decide (fp.exp < 0))
      = some true := by decide +kernel

-- … and the iterator-level parser, evaluated in the kernel, gets the correctly rounded result from
-- either pair of iterators (all three passes, the `'integer` / `'fraction` loops and the sticky-digit scan
-- run over the abstract `next`)
example :
    parseFloatI (genEnv ⟨false, false, true⟩) Gen.F64 chainIter (exInt.take 7, exInt.drop 7)
      (filterIter (· == 95)) exFracSep 0 = .ok 0x4340000000000001 ∧
    parseFloatI (genEnv ⟨false, false, true⟩) Gen.F64 chunksIter [exInt.take 3, [], exInt.drop 3]
      sliceIter exFrac 0 = .ok 0x4340000000000001 ∧
    parseFloat (genEnv ⟨false, false, true⟩) Gen.F64 exInt exFrac 0 = .ok 0x4340000000000001 := by
  decide +kernel

-- hypotheses of `C16_iterator_independent` / `C16_iterator_correct` on that instance
example : chainIter.Lawful ∧ (filterIter (· == 95)).Lawful ∧ chunksIter.Lawful ∧ sliceIter.Lawful ∧
    chainIter.toList (exInt.take 7, exInt.drop 7) = chunksIter.toList [exInt.take 3, [], exInt.drop 3] ∧
    (filterIter (· == 95)).toList exFracSep = sliceIter.toList exFrac ∧
    Valid (chainIter.toList (exInt.take 7, exInt.drop 7)) ((filterIter (· == 95)).toList exFracSep) 0 :=
  ⟨chainIter_lawful, filterIter_lawful _, chunksIter_lawful, sliceIter_lawful, by decide, by decide, by decide⟩

-- the early return of `parse_number` through `integer.count()` on a partially consumed chain iterator
-- (25 integer digits) and the skip loop on a filter iterator (no integer digits)
example :
    parseNumberI chainIter (exInt, [49, 50, 51, 52, 53, 54, 55, 56, 57]) sliceIter exFrac 0
      = ⟨6, 9007199254740993123, true⟩ ∧
    parseNumberI sliceIter [] (filterIter (· == 95)) exFracSep 0 = ⟨-22, 1, false⟩ ∧
    parseNumberI sliceIter [] (filterIter (· == 95)) (exFracSep ++ exInt ++ exInt) 0
      = ⟨-40, 1900719925474099390, true⟩ := by decide +kernel

-- ================================================================ lawfulness is needed

/-- a script that is not fused: twenty `0`s, `None`, then a `7` -/
def resumingScript : List (Option UInt8) := List.replicate 20 (some 48) ++ [none, some 55]

/-- **The `fused` hypothesis cannot be dropped.**  `scriptIter` is deterministic, cloneable and
    terminating; started on `resumingScript` it yields (up to its first `None`) twenty zeros, which denote 0.
    `parse_number_fast` sees exactly that and gives up (20 digits); the second pass of `parse_number` reads
    on after the `None` its skip loop received, finds the `7`, and `parse_float` returns 7e-21
    (`0x3BC0873D88CCC7E6`) instead of `+0`. -/
theorem not_fused_differs :
    scriptIter.toList resumingScript = List.replicate 20 48 ∧
    parseNumberI sliceIter [] scriptIter resumingScript 0 = ⟨-21, 7, false⟩ ∧
    parseNumber [] (scriptIter.toList resumingScript) 0 = ⟨-20, 0, false⟩ ∧
    parseFloatI (genEnv ⟨false, false, true⟩) Gen.F64 sliceIter [] scriptIter resumingScript 0
      = .ok 0x3BC0873D88CCC7E6 ∧
    parseFloat (genEnv ⟨false, false, true⟩) Gen.F64 [] (scriptIter.toList resumingScript) 0 = .ok 0 := by
  decide +kernel

/-- … so the refinement equation is false for this (unlawful) iterator, and `scriptIter` indeed violates
    `fused` while satisfying `dec` -/
theorem lawful_needed :
    ¬ scriptIter.Lawful ∧
    (∀ s c s', scriptIter.next s = (some c, s') → scriptIter.size s' < scriptIter.size s) ∧
    parseFloatI (genEnv ⟨false, false, true⟩) Gen.F64 sliceIter [] scriptIter resumingScript 0
      ≠ parseFloat (genEnv ⟨false, false, true⟩) Gen.F64 (sliceIter.toList [])
          (scriptIter.toList resumingScript) 0 := by
  refine ⟨scriptIter_not_lawful, scriptIter_dec, ?_⟩
  rw [not_fused_differs.2.2.2.1, sliceIter_toList, not_fused_differs.2.2.2.2]
  decide

/-- the same script with the `None` removed IS handled like a slice: a fused script is as good as a list -/
example :
    parseFloatI (genEnv ⟨false, false, true⟩) Gen.F64 sliceIter [] scriptIter
      (List.replicate 20 (some 48) ++ [some 55, none]) 0
    = parseFloat (genEnv ⟨false, false, true⟩) Gen.F64 [] (List.replicate 20 48 ++ [55]) 0 := by
  decide +kernel

end MinLex.C16Iter
