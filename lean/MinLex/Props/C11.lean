/-
  C11 — the moderate stage is never confidently wrong: one statement, two implementations.

  `C11_statement F stage dom`: for every `Number` in the domain `dom`, every definite answer
  (`exp ≥ 0`) of `stage` is the correctly rounded bit pattern of EVERY value the number denotes:
  `w·10^q` itself, or anything in `[w·10^q, (w+1)·10^q]` when digits were truncated.
  No shape assumption (`NumOK`) on the number: `w` ranges over the u64 values, `q` over all integers.

  * Eisel–Lemire (`lemire.rs`, default builds): domain `w + 1 < 2^64`, `truncated → 0 < w`.
  * Bellerophon (`bellerophon.rs`, compact builds): domain `w < 2^64`, `truncated → 0 < w`.
  * `C11_moderatePath`: every configuration, on the intersection of the two domains.

  The excluded corner points are recorded findings (DESIGN 9.2), shown below by evaluation:
  `(w = 0, truncated)` and, for Eisel–Lemire only, `(w = 2^64 − 1, truncated)`.
-/
import MinLex.Props.BellerophonSound
import MinLex.Props.LemireSound
namespace MinLex.C11
open MinLex

/-- the values a `Number` denotes -/
def Denoted (n : Number) (v : Q) : Prop :=
  0 < v.den ∧ Q.le (ofDec n.mantissa n.exponent) v ∧
  (if n.manyDigits then Q.le v (ofDec (n.mantissa + 1) n.exponent)
   else Q.eqv v (ofDec n.mantissa n.exponent))

instance (n : Number) (v : Q) : Decidable (Denoted n v) := by unfold Denoted; infer_instance

/-- C11 for one format, one implementation of the moderate stage and one domain -/
def C11_statement (F : FloatC) (stage : Number → Option ExtFloat) (dom : Number → Prop) : Prop :=
  ∀ (n : Number) (fp : ExtFloat) (v : Q), dom n → stage n = some fp → 0 ≤ fp.exp → Denoted n v →
    extendedToFloat F fp = rne F.fmt v

/-- domain of the Eisel–Lemire theorem: `w + 1` is a u64, and truncated digits imply `w ≠ 0` -/
def DomLemire (n : Number) : Prop :=
  n.mantissa + 1 < 2 ^ 64 ∧ (n.manyDigits = true → 0 < n.mantissa)

/-- domain of the Bellerophon theorem: `w` is a u64, and truncated digits imply `w ≠ 0` -/
def DomBellerophon (n : Number) : Prop :=
  n.mantissa < 2 ^ 64 ∧ (n.manyDigits = true → 0 < n.mantissa)

theorem domLemire_sub {n : Number} (h : DomLemire n) : DomBellerophon n := ⟨by have := h.1; omega, h.2⟩

/-- **C11 (Eisel–Lemire)** for a format with proved Lemire side conditions -/
theorem C11_lemire {F : FloatC} (hS : LemireSound.LemSnd F) :
    C11_statement F (lemire genLemire F) DomLemire :=
  fun n _ _ hd hl hdef hv => LemireSound.lemire_sound hS n hd.1 hd.2 hl hdef hv.1 hv.2.1 hv.2.2

/-- **C11 (Bellerophon)** for a covered format -/
theorem C11_bellerophon {F : FloatC} (c : BellerophonSound.Covered F) :
    C11_statement F (bellerophon genBel F) DomBellerophon :=
  fun n _ _ hd hb hdef hv =>
    BellerophonSound.C11_bellerophon c n hd.1 hd.2 hb hdef hv.1 hv.2.1 hv.2.2

theorem C11_lemire_f64 : C11_statement Gen.F64 (lemire genLemire Gen.F64) DomLemire :=
  C11_lemire LemireSound.lemSnd_F64
theorem C11_lemire_f32 : C11_statement Gen.F32 (lemire genLemire Gen.F32) DomLemire :=
  C11_lemire LemireSound.lemSnd_F32
theorem C11_bellerophon_f64 : C11_statement Gen.F64 (bellerophon genBel Gen.F64) DomBellerophon :=
  C11_bellerophon BellerophonSound.covered_f64
theorem C11_bellerophon_f32 : C11_statement Gen.F32 (bellerophon genBel Gen.F32) DomBellerophon :=
  C11_bellerophon BellerophonSound.covered_f32

/-- **C11** for `parse::moderate_path` of every feature configuration, f64 and f32 -/
theorem C11_moderatePath (cfg : Cfg) :
    C11_statement Gen.F64 (moderatePath (genEnv cfg) Gen.F64) DomLemire ∧
    C11_statement Gen.F32 (moderatePath (genEnv cfg) Gen.F32) DomLemire := by
  constructor
  · intro n fp v hd hm
    unfold moderatePath at hm
    cases hc : cfg.compact with
    | true =>
      rw [show (genEnv cfg).cfg.compact = true from hc, if_pos rfl] at hm
      exact C11_bellerophon_f64 n fp v (domLemire_sub hd) hm
    | false =>
      rw [show (genEnv cfg).cfg.compact = false from hc, if_neg (by decide)] at hm
      exact C11_lemire_f64 n fp v hd hm
  · intro n fp v hd hm
    unfold moderatePath at hm
    cases hc : cfg.compact with
    | true =>
      rw [show (genEnv cfg).cfg.compact = true from hc, if_pos rfl] at hm
      exact C11_bellerophon_f32 n fp v (domLemire_sub hd) hm
    | false =>
      rw [show (genEnv cfg).cfg.compact = false from hc, if_neg (by decide)] at hm
      exact C11_lemire_f32 n fp v hd hm

/-! ## Non-vacuity -/

-- `1e-5` exactly: both implementations answer definitely, and `Denoted` is inhabited
example : bellerophon genBel Gen.F64 ⟨-5, 1, false⟩ = some ⟨1399358476216561, 1006⟩ ∧
    DomBellerophon ⟨-5, 1, false⟩ ∧ Denoted ⟨-5, 1, false⟩ ⟨1, 100000⟩ := by
  refine ⟨by decide +kernel, ⟨by decide, by decide⟩, by decide +kernel⟩
example : lemire genLemire Gen.F64 ⟨-5, 1, false⟩ = some ⟨1399358476216561, 1006⟩ := by
  decide +kernel
-- the largest significand is inside the Bellerophon domain even with truncated digits: `2^64` is the
-- rounding of both ends of `[2^64 − 1, 2^64]`
example : bellerophon genBel Gen.F64 ⟨0, 2 ^ 64 - 1, true⟩ = some ⟨0, 1087⟩ ∧
    DomBellerophon ⟨0, 2 ^ 64 - 1, true⟩ ∧
    extendedToFloat Gen.F64 ⟨0, 1087⟩ = rne Fmt.f64 ⟨2 ^ 64 - 1, 1⟩ ∧
    extendedToFloat Gen.F64 ⟨0, 1087⟩ = rne Fmt.f64 ⟨2 ^ 64, 1⟩ := by
  refine ⟨by decide +kernel, ⟨by decide, by decide⟩, by decide +kernel, by decide +kernel⟩

/-! ## The excluded corner points (recorded findings, DESIGN 9.2) -/

/-- `(w = 0, truncated)`, Bellerophon: the early return `mantissa == 0` gives a DEFINITE zero although
    the denoted interval `[0, 10^q)` contains values that do not round to zero (`q = 0`, `v = 1/2`).
    Not reachable from `parse_float` (leading zeros are skipped before digits are dropped). -/
theorem corner_bellerophon_zero_truncated :
    bellerophon genBel Gen.F64 ⟨0, 0, true⟩ = some ⟨0, 0⟩ ∧
    Denoted ⟨0, 0, true⟩ ⟨1, 2⟩ ∧
    extendedToFloat Gen.F64 ⟨0, 0⟩ ≠ rne Fmt.f64 ⟨1, 2⟩ ∧
    ¬ C11_statement Gen.F64 (bellerophon genBel Gen.F64) (fun n => n.mantissa < 2 ^ 64) := by
  have h1 : bellerophon genBel Gen.F64 ⟨0, 0, true⟩ = some ⟨0, 0⟩ := by decide +kernel
  have h2 : Denoted ⟨0, 0, true⟩ ⟨1, 2⟩ := by decide +kernel
  have h3 : extendedToFloat Gen.F64 ⟨0, 0⟩ ≠ rne Fmt.f64 ⟨1, 2⟩ := by decide +kernel
  refine ⟨h1, h2, h3, fun hc => h3 ?_⟩
  exact hc ⟨0, 0, true⟩ ⟨0, 0⟩ ⟨1, 2⟩ (by decide) h1 (by decide) h2

/-- `(w = 0, truncated)`, Eisel–Lemire: a checked build traps (`compute_error` shifts by 64); in
    release the stage declines for `q = 0` and panics (table index) for `q = 309`. -/
theorem corner_lemire_zero_truncated :
    lemireTraps genLemire Gen.F64 ⟨0, 0, true⟩ = true ∧
    lemire genLemire Gen.F64 ⟨0, 0, true⟩ = some ⟨0, -31757⟩ ∧
    lemire genLemire Gen.F64 ⟨309, 0, true⟩ = none := by
  refine ⟨by decide +kernel, by decide +kernel, by decide +kernel⟩

/-- `(w = 2^64 − 1, truncated)`, Eisel–Lemire: `w + 1` overflows — trap in a checked build; in release
    it wraps to 0, the stage declines for `q = 0` and panics for `q = 309`.  (Bellerophon never forms
    `w + 1`: this point is inside its theorem, see the example above.) -/
theorem corner_lemire_max_truncated :
    lemireTraps genLemire Gen.F64 ⟨0, 2 ^ 64 - 1, true⟩ = true ∧
    lemire genLemire Gen.F64 ⟨0, 2 ^ 64 - 1, true⟩ = some ⟨18446744073709551614, -31693⟩ ∧
    lemire genLemire Gen.F64 ⟨309, 2 ^ 64 - 1, true⟩ = none ∧
    ¬ DomLemire ⟨0, 2 ^ 64 - 1, true⟩ := by
  refine ⟨by decide +kernel, by decide +kernel, by decide +kernel, ?_⟩
  intro h; have := h.1; revert this; decide

end MinLex.C11
