/-
  C19, final form: the string front-end (examples/simple.rs = variant `special = false`,
  fuzz/fuzz_targets/parse.rs = variant `special = true`) composed with the verified library
  (`Final.MAIN_all`), for every feature configuration, both formats, both variants and every byte list
  shorter than `i32::MAX`.

   (i)   `C19_never_panics`   no panic on arbitrary bytes
   (ii)  `C19_value`          when no special literal matches (always for `special = false`) the result is
                              `±rne(intDigits . fracDigits × 10^clampedExponent)` on the UNtrimmed digit
                              strings of the longest grammar prefix, and `restLen` is the length of the
                              unconsumed suffix;  `C19_grammar`, `C19_sign_bit`, `C19_exponent`
   (iii) `C19_clamp_harmless` clamping the exponent to `i32` does not change the rounded value for inputs
                              of at most `2^31 − 324` bytes;  `C19_value_true_exponent`.
                              FINDING: for longer inputs (still `< 2^31 − 1` bytes) the clamp DOES change
                              the result — `C19_clamp_harmful`.
   (iv)  special literals and the empty-match rule, re-exported.
-/
import MinLex.Props.C19
import MinLex.Props.Final
import MinLex.Proofs.FrontClamp
namespace MinLex.C19Final
open MinLex MinLex.Front

/-- the two formats in `Fmt` terms -/
theorem fmt_cases {F : FloatC} (hF : F = Gen.F32 ∨ F = Gen.F64) : F.fmt = Fmt.f32 ∨ F.fmt = Fmt.f64 := by
  rcases hF with rfl | rfl
  · exact Or.inl rfl
  · exact Or.inr rfl

-- ================================================================ (i) never panics
/-- **(i)** The front-end + library never panics, on ARBITRARY bytes (any configuration, format, variant). -/
theorem C19_never_panics (cfg : Cfg) {F : FloatC} (hF : F = Gen.F32 ∨ F = Gen.F64) (special : Bool)
    (bytes : List UInt8) (hl : bytes.length < 2147483647) :
    Front.parse (genEnv cfg) F special bytes ≠ .panic := by
  intro h
  obtain ⟨int, frac, e, hp, rfl, rfl, rfl⟩ := C19.never_panics (genEnv cfg) F special bytes h
  exact Final.C04_no_panic cfg hF _ _ _ (C19.pieces_valid_of_length bytes hl) hp

-- ================================================================ (ii) the value
/-- nothing consumed: no sign, no digits -/
theorem empty_consumed (bytes : List UInt8)
    (h : (restOf (parseSign bytes).2).length = bytes.length) :
    (bytes.head? != some 45) = true ∧ intOf (parseSign bytes).2 = [] ∧ fracOf (parseSign bytes).2 = [] := by
  have hlen := congrArg List.length (consumedOf_append bytes)
  rw [List.length_append] at hlen
  have h0 : consumedOf bytes = [] := List.eq_nil_of_length_eq_zero (by omega)
  unfold consumedOf at h0
  simp only [List.append_eq_nil_iff] at h0
  obtain ⟨⟨⟨hs, hi⟩, hd⟩, _⟩ := h0
  refine ⟨?_, hi, ?_⟩
  · cases bytes with
    | nil => rfl
    | cons c t =>
      by_cases hc : c = 45
      · subst hc; simp [signPart] at hs
      · simp [hc]
  · unfold fracOf
    generalize (consumeDigits (parseSign bytes).2).2 = b1 at hd
    unfold dotPart at hd
    unfold fracSplit
    split at hd
    · simp at hd
    · rfl

/-- **(ii)** Whenever the number body is reached (`special = false`, or no literal matches):
    the call returns; the returned length is that of the unconsumed suffix `restOf`; and the bits are
    the sign (`-` as first byte) applied to the correctly rounded value of
    `integer digits . fraction digits × 10^exponent` — the UNtrimmed digit strings found in the input
    and the `i32`-clamped exponent.  (For the empty match of the `special` variant this is `+0` too.) -/
theorem C19_value (cfg : Cfg) {F : FloatC} (hF : F = Gen.F32 ∨ F = Gen.F64) (special : Bool)
    (bytes : List UInt8) (hl : bytes.length < 2147483647)
    (hs : special = false ∨ (ciStartsWith (parseSign bytes).2 sNaN = false ∧
      ciStartsWith (parseSign bytes).2 sInf = false)) :
    Front.parse (genEnv cfg) F special bytes =
      .ok (withSign F (bytes.head? != some 45)
            (rne F.fmt (digitsValue (intOf (parseSign bytes).2) (fracOf (parseSign bytes).2)
              (expOf (parseSign bytes).2))))
          (restOf (parseSign bytes).2).length := by
  rw [parse_body_reached _ F special bytes hs, parseBody_eq,
    Final.MAIN_all cfg hF _ _ _ (C19.pieces_valid_of_length bytes hl),
    RneSpec.rne_congr F.fmt (Main.digitsValue_den_pos _ _ _) (Main.digitsValue_den_pos _ _ _)
      (C19.trim_value _ _ _), parseSign_fst]
  split
  · rename_i hc
    simp only [Bool.and_eq_true, beq_iff_eq] at hc
    obtain ⟨hpos, hi, hf⟩ := empty_consumed bytes hc.2
    rw [hpos, hi, hf, rne_digitsValue_zero F.fmt rfl]
    rfl
  · rfl

/-- the consumed prefix is a word of the grammar `G = [+-]? D* (\. D*)? ([eE] [+-]? D*)?`, the input is
    consumed prefix ++ `restOf`, and no prefix of the input that is in `G` is longer (maximal munch) -/
theorem C19_grammar (bytes : List UInt8) :
    consumedOf bytes ++ restOf (parseSign bytes).2 = bytes ∧ InG (consumedOf bytes) ∧
    (∀ q r, bytes = q ++ r → InG q → q.length ≤ (consumedOf bytes).length) := by
  refine ⟨consumedOf_append bytes, consumedOf_inG bytes, ?_⟩
  intro q r h hq
  have h1 := munch_max bytes q r h hq
  have h2 := congrArg List.length (consumedOf_append bytes)
  have h3 := congrArg List.length h
  simp only [List.length_append] at h2 h3
  omega

/-- the same in the `take` form of `C19.grammar_body`, tied to the returned length -/
theorem C19_grammar_take (cfg : Cfg) {F : FloatC} (hF : F = Gen.F32 ∨ F = Gen.F64) (special : Bool)
    (bytes : List UInt8) (hl : bytes.length < 2147483647)
    (hs : special = false ∨ (ciStartsWith (parseSign bytes).2 sNaN = false ∧
      ciStartsWith (parseSign bytes).2 sInf = false)) :
    ∃ bits restLen, Front.parse (genEnv cfg) F special bytes = .ok bits restLen ∧
      restLen ≤ bytes.length ∧ InG (bytes.take (bytes.length - restLen)) ∧
      (∀ n, n ≤ bytes.length → InG (bytes.take n) → n ≤ bytes.length - restLen) :=
  ⟨_, _, C19_value cfg hF special bytes hl hs,
    C19.grammar_body hs (C19_value cfg hF special bytes hl hs)⟩

/-- the sign bit of the answer is exactly "first byte is `-`" (also on zero and infinity), and the
    remaining bits are the rounded magnitude -/
theorem C19_sign_bit {F : FloatC} (hF : F = Gen.F32 ∨ F = Gen.F64) (pos : Bool) (v : Q) :
    withSign F pos (rne F.fmt v) / F.signMask = (if pos then 0 else 1) ∧
    withSign F pos (rne F.fmt v) % F.signMask = rne F.fmt v := by
  apply C19.sign_bit
  have h1 := RneSpec.rne_le_inf F.fmt v
  have h2 : F.fmt.infBits < F.signMask := by rcases hF with rfl | rfl <;> decide
  omega

/-- the exponent used in (ii) is the written exponent `± ofDigits expDigits` (0 without a marker),
    saturated to `i32` -/
theorem C19_exponent (bytes : List UInt8) :
    expOf (parseSign bytes).2 = clampI32 (trueExpOf (parseSign bytes).2) ∧
    (∀ m t, (m = 101 ∨ m = 69) →
      trueExpSplit (m :: t) =
        if (t.head? != some 45) then (ofDigits (consumeDigits (parseSign t).2).1 : Int)
        else -(ofDigits (consumeDigits (parseSign t).2).1 : Int)) ∧
    (∀ b2 : List UInt8, b2.head? ≠ some 101 → b2.head? ≠ some 69 → trueExpSplit b2 = 0) :=
  ⟨expOf_clamp _, fun m t hm => trueExpSplit_marker m hm t, trueExpSplit_none⟩

-- ================================================================ (iii) clamping
/-- **(iii)** Exponent clamping is harmless for inputs of at most `2^31 − 324` bytes: the correctly
    rounded value with the TRUE (unclamped) exponent equals the one with the clamped exponent (outside
    `i32` both are `+0`, or both `+∞` for non-zero digits). -/
theorem C19_clamp_harmless {F : FloatC} (hF : F = Gen.F32 ∨ F = Gen.F64) (bytes : List UInt8)
    (hl : bytes.length + 324 ≤ 2147483648) :
    rne F.fmt (digitsValue (intOf (parseSign bytes).2) (fracOf (parseSign bytes).2)
        (expOf (parseSign bytes).2)) =
      rne F.fmt (digitsValue (intOf (parseSign bytes).2) (fracOf (parseSign bytes).2)
        (trueExpOf (parseSign bytes).2)) := by
  have h0 := parseSign_snd_length bytes
  have h1 := intOf_fracOf_length (parseSign bytes).2
  rw [expOf_clamp]
  exact clamp_harmless (fmt_cases hF) (intOf (parseSign bytes).2) (fracOf (parseSign bytes).2)
    (consumeDigits_digits _) (fracSplit_digits _) (by omega) (by omega) _

/-- (ii) + (iii): for inputs of at most `2^31 − 324` bytes the result is the correctly rounded value
    of the number as written, with its true exponent -/
theorem C19_value_true_exponent (cfg : Cfg) {F : FloatC} (hF : F = Gen.F32 ∨ F = Gen.F64)
    (special : Bool) (bytes : List UInt8) (hl : bytes.length + 324 ≤ 2147483648)
    (hs : special = false ∨ (ciStartsWith (parseSign bytes).2 sNaN = false ∧
      ciStartsWith (parseSign bytes).2 sInf = false)) :
    Front.parse (genEnv cfg) F special bytes =
      .ok (withSign F (bytes.head? != some 45)
            (rne F.fmt (digitsValue (intOf (parseSign bytes).2) (fracOf (parseSign bytes).2)
              (trueExpOf (parseSign bytes).2))))
          (restOf (parseSign bytes).2).length := by
  rw [C19_value cfg hF special bytes (by omega) hs, C19_clamp_harmless hF bytes hl]

/-- **FINDING.**  The margin in (iii) is needed: for digit strings close to `2^31` bytes (still
    `Valid` for the library: shorter than `i32::MAX`) saturating the exponent changes the result.
    Fraction `0…01` with 2147483630 zeros, true exponent `2147484000`: the number written is `10^369`
    (`+∞`), the value computed from the clamped exponent is `10^16`. -/
theorem C19_clamp_harmful : ∃ k : Nat, k = 2147483630 ∧
    (List.replicate k (48 : UInt8) ++ [49]).length < 2147483647 ∧
    (∀ c ∈ (List.replicate k (48 : UInt8) ++ [49]), isDigit c = true) ∧
    rne Fmt.f64 (digitsValue [] (List.replicate k (48 : UInt8) ++ [49]) (clampI32 2147484000)) =
      0x4341C37937E08000 ∧
    rne Fmt.f64 (digitsValue [] (List.replicate k (48 : UInt8) ++ [49]) 2147484000) = Fmt.f64.infBits :=
  clamp_harmful

/-- the input `.0…01e2147484000` with `k` zeros after the point -/
def bigInput (k : Nat) : List UInt8 :=
  46 :: ((List.replicate k (48 : UInt8) ++ [49]) ++ C19.b "e2147484000")

theorem bigInput_pieces (k : Nat) :
    parseSign (bigInput k) = (true, bigInput k) ∧ intOf (bigInput k) = [] ∧
    fracOf (bigInput k) = List.replicate k (48 : UInt8) ++ [49] ∧ expOf (bigInput k) = 2147483647 ∧
    trueExpOf (bigInput k) = 2147484000 ∧ restOf (bigInput k) = [] ∧ (bigInput k).length = k + 13 := by
  have hs : parseSign (bigInput k) = (true, bigInput k) :=
    parseSign_nosign _ (by unfold bigInput; simp only [List.head?_cons]; decide)
      (by unfold bigInput; simp only [List.head?_cons]; decide)
  have hc : consumeDigits (bigInput k) = ([], bigInput k) :=
    consumeDigits_nondigit _ (by unfold bigInput; simp only [List.head?_cons]; decide)
  have he : consumeDigits (C19.b "e2147484000") = ([], C19.b "e2147484000") := by decide +kernel
  have hf : fracSplit (bigInput k) = (List.replicate k (48 : UInt8) ++ [49], C19.b "e2147484000") := by
    unfold bigInput
    rw [fracSplit_dot, consumeDigits_append_digits _ _ (zeros_one_digits k), he, List.append_nil]
  have hx : expSplit (C19.b "e2147484000") = (2147483647, []) := by decide +kernel
  have ht : trueExpSplit (C19.b "e2147484000") = 2147484000 := by decide +kernel
  have hb : (C19.b "e2147484000").length = 11 := by decide +kernel
  refine ⟨hs, ?_, ?_, ?_, ?_, ?_, ?_⟩
  · unfold intOf; rw [hc]
  · unfold fracOf; rw [hc]; simp only; rw [hf]
  · unfold expOf; rw [hc]; simp only; rw [hf]; simp only; rw [hx]
  · unfold trueExpOf; rw [hc]; simp only; rw [hf]; simp only; rw [ht]
  · unfold restOf; rw [hc]; simp only; rw [hf]; simp only; rw [hx]
  · unfold bigInput
    simp only [List.length_cons, List.length_append, List.length_replicate, List.length_nil, hb]

/-- symbolic form of the finding (`k + 17 = 2^31 − 1`, i.e. `k = 2147483630`) -/
theorem C19_front_clamp_gen (cfg : Cfg) (k : Nat) (hk : k + 17 = 2147483647) :
    (bigInput k).length < 2147483647 ∧
    Front.parse (genEnv cfg) Gen.F64 false (bigInput k) = .ok 0x4341C37937E08000 0 ∧
    intOf (parseSign (bigInput k)).2 = [] ∧
    fracOf (parseSign (bigInput k)).2 = List.replicate k (48 : UInt8) ++ [49] ∧
    trueExpOf (parseSign (bigInput k)).2 = 2147484000 ∧
    rne Gen.F64.fmt (digitsValue [] (List.replicate k (48 : UInt8) ++ [49]) 2147484000) =
      Gen.F64.fmt.infBits := by
  obtain ⟨hs, hi, hf, hx, ht, hr, hlen⟩ := bigInput_pieces k
  obtain ⟨_, _, h16, hinf⟩ := clamp_harmful_gen k hk
  have hl : (bigInput k).length < 2147483647 := by omega
  refine ⟨hl, ?_, ?_, ?_, ?_, hinf⟩
  · rw [C19_value cfg (Or.inr rfl) false _ hl (Or.inl rfl), hs]
    simp only
    rw [hi, hf, hx, hr]
    have h1 : clampI32 2147484000 = 2147483647 := by decide
    rw [h1] at h16
    have h2 : Gen.F64.fmt = Fmt.f64 := rfl
    rw [h2, h16]
    have h3 : ((bigInput k).head? != some 45) = true := by
      unfold bigInput; simp only [List.head?_cons]; decide
    rw [h3]
    rfl
  · rw [hs]; exact hi
  · rw [hs]; exact hf
  · rw [hs]; exact ht

/-- **FINDING, at the level of the shipped front-end** (every configuration, f64): the 2147483643-byte
    input `.0…01e2147484000` (2147483630 zeros) denotes `10^369`, i.e. `+∞`, but
    `examples/simple.rs` returns `1e16` (`0x4341C37937E08000`), because `parse_exponent` saturates the
    exponent at `i32::MAX` before the library subtracts the 2147483631 fraction digits.  The pieces
    handed to the library are `Valid` (both digit strings are shorter than `i32::MAX`), and the library
    result is correct for the exponent it was given.  The input needs ≈ 2 GiB, hence 64-bit targets. -/
theorem C19_front_clamp_finding (cfg : Cfg) : ∃ k : Nat, k = 2147483630 ∧
    (bigInput k).length < 2147483647 ∧
    Front.parse (genEnv cfg) Gen.F64 false (bigInput k) = .ok 0x4341C37937E08000 0 ∧
    intOf (parseSign (bigInput k)).2 = [] ∧
    fracOf (parseSign (bigInput k)).2 = List.replicate k (48 : UInt8) ++ [49] ∧
    trueExpOf (parseSign (bigInput k)).2 = 2147484000 ∧
    rne Gen.F64.fmt (digitsValue [] (List.replicate k (48 : UInt8) ++ [49]) 2147484000) =
      Gen.F64.fmt.infBits :=
  ⟨2147483630, rfl, C19_front_clamp_gen cfg 2147483630 (by decide)⟩

/-- the same construction at a small scale, executed: `bigInput 3 = ".0001e2147484000"` -/
example : bigInput 3 = C19.b ".0001e2147484000" := by decide +kernel

-- ================================================================ assembled
/-- **C19 (final).**  Every configuration, f32 and f64, both front-end variants, every byte list
    shorter than `i32::MAX`. -/
theorem C19_final (cfg : Cfg) {F : FloatC} (hF : F = Gen.F32 ∨ F = Gen.F64) (special : Bool)
    (bytes : List UInt8) (hl : bytes.length < 2147483647) :
    -- (i)
    Front.parse (genEnv cfg) F special bytes ≠ .panic ∧
    -- (ii)
    ((special = false ∨ (ciStartsWith (parseSign bytes).2 sNaN = false ∧
        ciStartsWith (parseSign bytes).2 sInf = false)) →
      Front.parse (genEnv cfg) F special bytes =
        .ok (withSign F (bytes.head? != some 45)
              (rne F.fmt (digitsValue (intOf (parseSign bytes).2) (fracOf (parseSign bytes).2)
                (expOf (parseSign bytes).2))))
            (restOf (parseSign bytes).2).length) ∧
    (consumedOf bytes ++ restOf (parseSign bytes).2 = bytes ∧ InG (consumedOf bytes) ∧
      (∀ q r, bytes = q ++ r → InG q → q.length ≤ (consumedOf bytes).length)) ∧
    expOf (parseSign bytes).2 = clampI32 (trueExpOf (parseSign bytes).2) ∧
    -- (iii)
    (bytes.length + 324 ≤ 2147483648 →
      rne F.fmt (digitsValue (intOf (parseSign bytes).2) (fracOf (parseSign bytes).2)
          (expOf (parseSign bytes).2)) =
        rne F.fmt (digitsValue (intOf (parseSign bytes).2) (fracOf (parseSign bytes).2)
          (trueExpOf (parseSign bytes).2))) :=
  ⟨C19_never_panics cfg hF special bytes hl, C19_value cfg hF special bytes hl, C19_grammar bytes,
    expOf_clamp _, C19_clamp_harmless hF bytes⟩

/-- the `simple` variant (`examples/simple.rs`), without side conditions -/
theorem C19_simple (cfg : Cfg) {F : FloatC} (hF : F = Gen.F32 ∨ F = Gen.F64)
    (bytes : List UInt8) (hl : bytes.length + 324 ≤ 2147483648) :
    Front.parse (genEnv cfg) F false bytes =
      .ok (withSign F (bytes.head? != some 45)
            (rne F.fmt (digitsValue (intOf (parseSign bytes).2) (fracOf (parseSign bytes).2)
              (trueExpOf (parseSign bytes).2))))
          (restOf (parseSign bytes).2).length :=
  C19_value_true_exponent cfg hF false bytes hl (Or.inl rfl)

-- ================================================================ (iv) literals, empty match (re-exported)
/-- "nan" (any case) after the optional sign -/
theorem C19_special_nan (E : Env) (F : FloatC) (bytes : List UInt8)
    (h : ciStartsWith (parseSign bytes).2 sNaN = true) :
    ∃ w suffix, bytes = signPart bytes ++ w ++ suffix ∧ w.map asciiLower = sNaN.map asciiLower ∧
      w.length = 3 ∧
      Front.parse E F true bytes =
        .ok (withSign F (bytes.head? != some 45) (F.exponentMask ||| (F.hiddenBitMask >>> 1)))
          suffix.length := C19.special_nan E F bytes h

/-- "infinity" (any case), tried before "inf" -/
theorem C19_special_infinity (E : Env) (F : FloatC) (bytes : List UInt8)
    (h : ciStartsWith (parseSign bytes).2 sInfinity = true) :
    ∃ w suffix, bytes = signPart bytes ++ w ++ suffix ∧
      w.map asciiLower = sInfinity.map asciiLower ∧ w.length = 8 ∧
      Front.parse E F true bytes =
        .ok (withSign F (bytes.head? != some 45) F.exponentMask) suffix.length :=
  C19.special_infinity E F bytes h

/-- "inf" (any case) not followed by "inity" -/
theorem C19_special_inf (E : Env) (F : FloatC) (bytes : List UInt8)
    (h : ciStartsWith (parseSign bytes).2 sInf = true)
    (h' : ciStartsWith (parseSign bytes).2 sInfinity = false) :
    ∃ w suffix, bytes = signPart bytes ++ w ++ suffix ∧ w.map asciiLower = sInf.map asciiLower ∧
      w.length = 3 ∧
      Front.parse E F true bytes =
        .ok (withSign F (bytes.head? != some 45) F.exponentMask) suffix.length :=
  C19.special_inf E F bytes h h'

/-- the literal test is ASCII case-insensitive prefix match -/
theorem C19_literal_match (bs p : List UInt8) (hp : p = sNaN ∨ p = sInfinity ∨ p = sInf) :
    ciStartsWith bs p = true ↔
      p.length ≤ bs.length ∧ (bs.take p.length).map asciiLower = p.map asciiLower := by
  apply C19.ciStartsWith_letters
  rcases hp with rfl | rfl | rfl
  · exact C19.literals_are_letters.1
  · exact C19.literals_are_letters.2.1
  · exact C19.literals_are_letters.2.2

/-- with no literal the `special` variant runs the number body -/
theorem C19_special_no_literal (E : Env) (F : FloatC) (bytes : List UInt8)
    (h1 : ciStartsWith (parseSign bytes).2 sNaN = false)
    (h2 : ciStartsWith (parseSign bytes).2 sInf = false) :
    Front.parse E F true bytes =
      parseBody E F true bytes.length (parseSign bytes).1 (parseSign bytes).2 :=
  C19.special_no_literal E F bytes h1 h2

/-- empty match ⇒ `+0` -/
theorem C19_empty_match {E : Env} {F : FloatC} {bytes : List UInt8} {bits restLen : Nat}
    (h : Front.parse E F true bytes = .ok bits restLen) (hr : restLen = bytes.length) : bits = 0 :=
  C19.empty_match h hr

/-- no literal and nothing consumed ⇒ `.ok 0 bytes.length`, the library is not called -/
theorem C19_empty_match_conv (E : Env) (F : FloatC) (bytes : List UInt8)
    (h1 : ciStartsWith (parseSign bytes).2 sNaN = false)
    (h2 : ciStartsWith (parseSign bytes).2 sInf = false)
    (h3 : (restOf (parseSign bytes).2).length = bytes.length) :
    Front.parse E F true bytes = .ok 0 bytes.length := C19.empty_match_conv E F bytes h1 h2 h3

/-- something consumed and no literal ⇒ both variants agree -/
theorem C19_special_eq_simple (E : Env) (F : FloatC) (bytes : List UInt8)
    (h1 : ciStartsWith (parseSign bytes).2 sNaN = false)
    (h2 : ciStartsWith (parseSign bytes).2 sInf = false)
    (h3 : (restOf (parseSign bytes).2).length ≠ bytes.length) :
    Front.parse E F true bytes = Front.parse E F false bytes :=
  C19.special_eq_simple E F bytes h1 h2 h3

-- ================================================================ non-vacuity
/-- "-0012.500e-3x" in the compact / no_std / stack configuration: by (ii) the value is
    −rne(0012.500 × 10^−3) = −0.0125, one byte ("x") left over -/
example : Front.parse (genEnv ⟨true, false, false⟩) Gen.F64 false (C19.b "-0012.500e-3x") =
    .ok (0x3F8999999999999A + Gen.F64.signMask) 1 := by
  rw [C19_simple _ (Or.inr rfl) _ (by decide +kernel)]
  decide +kernel

/-- the hypotheses of (ii) for the `special` variant are satisfiable, and the empty match is covered -/
example : Front.parse (genEnv ⟨false, true, true⟩) Gen.F32 true (C19.b "x1") = .ok 0 2 := by
  rw [C19_value _ (Or.inl rfl) true _ (by decide +kernel) (Or.inr (by decide +kernel))]
  decide +kernel

/-- an exponent outside `i32`: "1e99999999999" is `+∞` by (ii) + (iii) (true exponent 99999999999,
    handed to the library as `i32::MAX`) -/
example : Front.parse (genEnv ⟨false, true, true⟩) Gen.F64 false (C19.b "1e99999999999") =
      .ok Gen.F64.fmt.infBits 0 ∧
    trueExpOf (parseSign (C19.b "1e99999999999")).2 = 99999999999 ∧
    expOf (parseSign (C19.b "1e99999999999")).2 = 2147483647 := by
  have h3 : trueExpOf (parseSign (C19.b "1e99999999999")).2 = 99999999999 := by decide +kernel
  refine ⟨?_, h3, by decide +kernel⟩
  rw [C19_simple _ (Or.inr rfl) _ (by decide +kernel)]
  have h1 : intOf (parseSign (C19.b "1e99999999999")).2 = [49] := by decide +kernel
  have h2 : fracOf (parseSign (C19.b "1e99999999999")).2 = [] := by decide +kernel
  have h4 : (restOf (parseSign (C19.b "1e99999999999")).2).length = 0 := by decide +kernel
  have h5 : ((C19.b "1e99999999999").head? != some 45) = true := by decide +kernel
  rw [h1, h2, h3, h4, h5]
  have hv : rne Gen.F64.fmt (digitsValue [49] [] 99999999999) = Gen.F64.fmt.infBits := by
    unfold digitsValue
    have : ofDigits ([49] ++ ([] : List UInt8)) = 1 := by decide
    rw [this]
    exact rne_dec_inf (Or.inr rfl) (Nat.le_refl 1) (by simp only [List.length_nil]; omega)
  rw [hv]
  rfl

set_option exponentiation.threshold 512 in
/-- … and "-3e-99999999999" is `−0` (compact configuration) -/
example : Front.parse (genEnv ⟨true, true, false⟩) Gen.F64 false (C19.b "-3e-99999999999") =
      .ok Gen.F64.signMask 0 := by
  rw [C19_simple _ (Or.inr rfl) _ (by decide +kernel)]
  have h1 : intOf (parseSign (C19.b "-3e-99999999999")).2 = [51] := by decide +kernel
  have h2 : fracOf (parseSign (C19.b "-3e-99999999999")).2 = [] := by decide +kernel
  have h3 : trueExpOf (parseSign (C19.b "-3e-99999999999")).2 = -99999999999 := by decide +kernel
  have h4 : (restOf (parseSign (C19.b "-3e-99999999999")).2).length = 0 := by decide +kernel
  have h5 : ((C19.b "-3e-99999999999").head? != some 45) = false := by decide +kernel
  rw [h1, h2, h3, h4, h5]
  have hv : rne Gen.F64.fmt (digitsValue [51] [] (-99999999999)) = 0 := by
    unfold digitsValue
    have : ofDigits ([51] ++ ([] : List UInt8)) = 3 := by decide
    rw [this]
    refine rne_dec_zero (Or.inr rfl) (by simp only [List.length_nil]; omega) ?_
    have hk : 325 ≤ (-(-99999999999 - ((([] : List UInt8).length : Nat) : Int))).toNat := by
      simp only [List.length_nil]; omega
    have h10 : 3 * 10 ^ 324 ≤ 10 ^ 325 := by rw [Nat.pow_succ]; omega
    exact Nat.le_trans h10 (Nat.pow_le_pow_right (by decide) hk)
  rw [hv]
  rfl

end MinLex.C19Final
