/-
  Property C12: big-integer arithmetic is exact and reports overflow instead of wrapping.

  The model `MinLex/Model/Bigint.lean` (mirroring `src/bigint.rs`) refines arithmetic on `Nat`:
  for every operation `op` returning `Option Big`
    * `op … = some r`  →  `toNat r` is the exact result, every limb of `r` is `< B = 2^64`,
                           and `r` fits the storage back-end (`capOk cap r.length`);
    * `op … = none`    →  the back-end is the fixed-capacity stack vector (`cap = some c`) and the
                           result needs more than `c` limbs; for normalised operands this is stated
                           on the value: the exact result is `≥ B^c`, i.e. it does not fit;
    * conversely, if enough limbs are available the operation succeeds.
  All statements are for arbitrary `cap`, arbitrary limb lists with `AllLt`, scalars `< B`.
  Each theorem is followed by an `example` instantiating its hypotheses on concrete data.
-/
import MinLex.Proofs.Bigint
import MinLex.Model.Env
namespace MinLex.C12
open MinLex

/-- A result that is returned always fits: its value is below `B^c` on a stack vector of `c` limbs. -/
theorem fits_of_some {c : Nat} {r : Big} (hr : AllLt r) (hc : capOk (some c) r.length = true) :
    toNat r < B ^ c :=
  Nat.lt_of_lt_of_le (toNat_lt hr) (Bpow_le (capOk_some.mp hc))

-- ================================================================ 1. scalar and small operations

/-- `scalar_add`: low limb and carry flag are the exact sum. -/
theorem scalarAdd_exact {x y : Nat} (hx : x < B) (hy : y < B) :
    (scalarAdd x y).1 + B * (if (scalarAdd x y).2 then 1 else 0) = x + y ∧ (scalarAdd x y).1 < B :=
  scalarAdd_spec hx hy

example : (scalarAdd (B - 1) 2).1 + B * (if (scalarAdd (B - 1) 2).2 then 1 else 0) = (B - 1) + 2 :=
  (scalarAdd_exact (by decide) (by decide)).1

/-- `scalar_mul`: (low, high) limbs are the exact value of `x * y + carry`; no overflow. -/
theorem scalarMul_exact {x y c : Nat} (hx : x < B) (hy : y < B) (hc : c < B) :
    (scalarMul x y c).1 + B * (scalarMul x y c).2 = x * y + c ∧
    (scalarMul x y c).1 < B ∧ (scalarMul x y c).2 < B :=
  scalarMul_spec hx hy hc

example : (scalarMul (B - 1) (B - 1) (B - 1)).1 + B * (scalarMul (B - 1) (B - 1) (B - 1)).2
    = (B - 1) * (B - 1) + (B - 1) :=
  (scalarMul_exact (by decide) (by decide) (by decide)).1

/-- `small_add_from`, documented precondition `start ≤ x.len()`. -/
theorem smallAddFrom_exact {cap : Option Nat} {x r : Big} {y start : Nat} (hx : AllLt x)
    (hy : y < B) (hs : start ≤ x.length) (hcap : capOk cap x.length = true)
    (h : smallAddFrom cap x y start = some r) :
    toNat r = toNat x + y * B ^ start ∧ AllLt r ∧ capOk cap r.length = true := by
  obtain ⟨a, b, c, _⟩ := smallAddFrom_spec hx hy hs hcap h
  exact ⟨a, b, c⟩

example : toNat [0, 0, 1] = toNat [B - 1, B - 1] + 1 * B ^ 0 :=
  (smallAddFrom_exact (cap := some 62) (x := [B - 1, B - 1]) (y := 1) (start := 0)
    (by decide) (by decide) (by decide) (by decide) (by decide)).1

/-- Outside the precondition (`start > x.len()`) the carry is appended at position `x.len()`,
    not at `start`: the result is `5 + (B-1)·B`, not `5 + (B-1)·B³`. -/
example : smallAddFrom none [5] (B - 1) 3 = some [5, B - 1] := by decide

/-- `small_add_from` fails only on the stack back-end, when the carry needs limb `x.length + 1 > c`;
    then the exact result is `≥ B^x.length ≥ B^c`: it does not fit. -/
theorem smallAddFrom_overflow {cap : Option Nat} {x : Big} {y start : Nat} (hx : AllLt x)
    (hy : y < B) (hs : start ≤ x.length) (h : smallAddFrom cap x y start = none) :
    ∃ c, cap = some c ∧ x.length + 1 > c ∧ B ^ x.length ≤ toNat x + y * B ^ start ∧
      B ^ c ≤ toNat x + y * B ^ start := by
  obtain ⟨h1, h2⟩ := (smallAddFrom_none_iff hx hy hs).mp h
  obtain ⟨c, hc, hgt⟩ := capOk_false_iff.mp h1
  have := Bpow_le (show c ≤ x.length by omega)
  exact ⟨c, hc, hgt, h2, by omega⟩

example : smallAddFrom (some 2) [B - 1, B - 1] 1 0 = none := by decide

/-- Converse: it succeeds when one more limb is available or when the result needs no new limb. -/
theorem smallAddFrom_complete {cap : Option Nat} {x : Big} {y start : Nat} (hx : AllLt x)
    (hy : y < B) (hs : start ≤ x.length)
    (h : capOk cap (x.length + 1) = true ∨ toNat x + y * B ^ start < B ^ x.length) :
    ∃ r, smallAddFrom cap x y start = some r := by
  cases hr : smallAddFrom cap x y start with
  | some r => exact ⟨r, rfl⟩
  | none =>
    obtain ⟨h1, h2⟩ := (smallAddFrom_none_iff hx hy hs).mp hr
    rcases h with h | h
    · rw [h] at h1; exact absurd h1 (by simp)
    · omega

example : ∃ r, smallAddFrom (some 2) [B - 1, B - 2] 1 0 = some r :=
  smallAddFrom_complete (by decide) (by decide) (by decide) (Or.inr (by decide))

/-- `small_add` -/
theorem smallAdd_exact {cap : Option Nat} {x r : Big} {y : Nat} (hx : AllLt x) (hy : y < B)
    (hcap : capOk cap x.length = true) (h : smallAdd cap x y = some r) :
    toNat r = toNat x + y ∧ AllLt r ∧ capOk cap r.length = true := by
  have := smallAddFrom_exact hx hy (Nat.zero_le _) hcap h
  simpa using this

example : toNat [1, 1] = toNat [B - 1] + 2 :=
  (smallAdd_exact (cap := some 62) (x := [B - 1]) (y := 2) (by decide) (by decide) (by decide)
    (by decide)).1

theorem smallAdd_overflow {cap : Option Nat} {x : Big} {y : Nat} (hx : AllLt x) (hy : y < B)
    (h : smallAdd cap x y = none) :
    ∃ c, cap = some c ∧ x.length + 1 > c ∧ B ^ x.length ≤ toNat x + y ∧ B ^ c ≤ toNat x + y := by
  have := smallAddFrom_overflow hx hy (Nat.zero_le _) h
  simpa using this

theorem smallAdd_complete {cap : Option Nat} {x : Big} {y : Nat} (hx : AllLt x) (hy : y < B)
    (h : capOk cap (x.length + 1) = true ∨ toNat x + y < B ^ x.length) :
    ∃ r, smallAdd cap x y = some r :=
  smallAddFrom_complete hx hy (Nat.zero_le _) (by simpa using h)

example : smallAdd (some 1) [B - 1] 1 = none := by decide
example : ∃ r, smallAdd none [B - 1] 1 = some r :=
  smallAdd_complete (by decide) (by decide) (Or.inl rfl)

/-- `small_mul` -/
theorem smallMul_exact {cap : Option Nat} {x r : Big} {y : Nat} (hx : AllLt x) (hy : y < B)
    (hcap : capOk cap x.length = true) (h : smallMul cap x y = some r) :
    toNat r = toNat x * y ∧ AllLt r ∧ capOk cap r.length = true := by
  obtain ⟨a, b, c, _⟩ := smallMul_spec hx hy hcap h
  exact ⟨a, b, c⟩

example : toNat [B - 6, B - 1, 5] = toNat [B - 1, B - 1] * 6 :=
  (smallMul_exact (cap := some 62) (x := [B - 1, B - 1]) (y := 6) (by decide) (by decide)
    (by decide) (by decide)).1

theorem smallMul_overflow {cap : Option Nat} {x : Big} {y : Nat} (h : smallMul cap x y = none) :
    ∃ c, cap = some c ∧ x.length + 1 > c ∧ B ^ x.length ≤ toNat x * y ∧ B ^ c ≤ toNat x * y := by
  obtain ⟨h1, h2⟩ := smallMul_none_iff.mp h
  obtain ⟨c, hc, hgt⟩ := capOk_false_iff.mp h1
  have := Bpow_le (show c ≤ x.length by omega)
  exact ⟨c, hc, hgt, h2, by omega⟩

theorem smallMul_complete {cap : Option Nat} {x : Big} {y : Nat}
    (h : capOk cap (x.length + 1) = true ∨ toNat x * y < B ^ x.length) :
    ∃ r, smallMul cap x y = some r := by
  cases hr : smallMul cap x y with
  | some r => exact ⟨r, rfl⟩
  | none =>
    obtain ⟨h1, h2⟩ := smallMul_none_iff.mp hr
    rcases h with h | h
    · rw [h] at h1; exact absurd h1 (by simp)
    · omega

example : smallMul (some 2) [B - 1, B - 1] 6 = none := by decide
example : ∃ r, smallMul (some 2) [B - 1, 1] 6 = some r := smallMul_complete (Or.inr (by decide))

-- ================================================================ 2. large addition

/-- `large_add_from`, any `start` (the buffer is zero-extended as needed). -/
theorem largeAddFrom_exact {cap : Option Nat} {x y r : Big} {start : Nat} (hx : AllLt x)
    (hy : AllLt y) (hcap : capOk cap x.length = true) (h : largeAddFrom cap x y start = some r) :
    toNat r = toNat x + toNat y * B ^ start ∧ AllLt r ∧ capOk cap r.length = true := by
  obtain ⟨a, b, c, _⟩ := largeAddFrom_spec hx hy hcap h
  exact ⟨a, b, c⟩

example : largeAddFrom (some 62) [1, B - 1, B - 1] [B - 1, 1] 1 = some [1, B - 2, 1, 1] := by decide
example : toNat [1, B - 2, 1, 1] = toNat [1, B - 1, B - 1] + toNat [B - 1, 1] * B ^ 1 :=
  (largeAddFrom_exact (cap := some 62) (x := [1, B - 1, B - 1]) (y := [B - 1, 1]) (start := 1)
    (by decide) (by decide) (by decide) (by decide)).1
/-- `start` beyond the end of `x`: zero-extension -/
example : largeAddFrom (some 62) [7] [3] 2 = some [7, 0, 3] := by decide

/-- `large_add_from` fails only on the stack back-end: either the shifted operand `y·B^start`
    already needs more than `c` limbs, or the sum needs limb `L + 1 > c` (`L` = the longer operand)
    and the exact sum is `≥ B^L`. -/
theorem largeAddFrom_overflow {cap : Option Nat} {x y : Big} {start : Nat} (hx : AllLt x)
    (hy : AllLt y) (h : largeAddFrom cap x y start = none) :
    ∃ c, cap = some c ∧
      (y.length + start > c ∨
       (max x.length (y.length + start) + 1 > c ∧
        B ^ (max x.length (y.length + start)) ≤ toNat x + toNat y * B ^ start)) := by
  by_cases hy0 : y = []
  · subst hy0; rw [largeAddFrom_nil] at h; exact absurd h (by simp)
  · rcases (largeAddFrom_none_iff hx hy hy0).mp h with ⟨h1, _⟩ | ⟨h1, h2⟩
    · obtain ⟨c, hc, hgt⟩ := capOk_false_iff.mp h1
      exact ⟨c, hc, Or.inl hgt⟩
    · obtain ⟨c, hc, hgt⟩ := capOk_false_iff.mp h1
      exact ⟨c, hc, Or.inr ⟨hgt, h2⟩⟩

/-- For a normalised `y`, failure means the exact sum does not fit in `c` limbs. -/
theorem largeAddFrom_overflow_normalized {cap : Option Nat} {x y : Big} {start : Nat}
    (hx : AllLt x) (hy : AllLt y) (hny : isNormalized y = true)
    (h : largeAddFrom cap x y start = none) :
    ∃ c, cap = some c ∧ B ^ c ≤ toNat x + toNat y * B ^ start := by
  obtain ⟨c, hc, hcase⟩ := largeAddFrom_overflow hx hy h
  refine ⟨c, hc, ?_⟩
  rcases hcase with h1 | ⟨h1, h2⟩
  · have hy0 : y ≠ [] := by
      intro h0; subst h0; rw [largeAddFrom_nil] at h; exact absurd h (by simp)
    have hge := toNat_ge_of_normalized hny hy0
    have hyl : 0 < y.length := List.length_pos_iff.mpr hy0
    have h3 := Bpow_le (show c ≤ (y.length - 1) + start by omega)
    rw [Nat.pow_add] at h3
    have := Nat.mul_le_mul_right (B ^ start) hge
    omega
  · have := Bpow_le (show c ≤ max x.length (y.length + start) by omega)
    omega

/-- Converse: succeeds when `L + 1` limbs are available. -/
theorem largeAddFrom_complete {cap : Option Nat} {x y : Big} {start : Nat} (hx : AllLt x)
    (hy : AllLt y) (h : capOk cap (max x.length (y.length + start) + 1) = true) :
    ∃ r, largeAddFrom cap x y start = some r := by
  cases hr : largeAddFrom cap x y start with
  | some r => exact ⟨r, rfl⟩
  | none =>
    obtain ⟨c, hc, hcase⟩ := largeAddFrom_overflow hx hy hr
    subst hc
    rw [capOk_some] at h
    rcases hcase with h1 | ⟨h1, _⟩ <;> omega

/-- Converse on the value (normalised `y`): succeeds whenever the exact sum fits. -/
theorem largeAddFrom_complete_fits {c : Nat} {x y : Big} {start : Nat} (hx : AllLt x)
    (hy : AllLt y) (hny : isNormalized y = true)
    (h : toNat x + toNat y * B ^ start < B ^ c) :
    ∃ r, largeAddFrom (some c) x y start = some r := by
  cases hr : largeAddFrom (some c) x y start with
  | some r => exact ⟨r, rfl⟩
  | none =>
    obtain ⟨c', hc, hge⟩ := largeAddFrom_overflow_normalized hx hy hny hr
    simp only [Option.some.injEq] at hc
    subst hc
    omega

example : largeAddFrom (some 3) [1, B - 1, B - 1] [B - 1, 1] 1 = none := by decide
example : ∃ r, largeAddFrom (some 4) [1, B - 1, B - 1] [B - 1, 1] 1 = some r :=
  largeAddFrom_complete_fits (by decide) (by decide) (by decide) (by decide)

/-- `large_add` -/
theorem largeAdd_exact {cap : Option Nat} {x y r : Big} (hx : AllLt x) (hy : AllLt y)
    (hcap : capOk cap x.length = true) (h : largeAdd cap x y = some r) :
    toNat r = toNat x + toNat y ∧ AllLt r ∧ capOk cap r.length = true := by
  have := largeAddFrom_exact hx hy hcap h
  simpa using this

example : toNat [B - 2, 0, 1] = toNat [B - 1] + toNat [B - 1, B - 1] :=
  (largeAdd_exact (cap := some 62) (x := [B - 1]) (y := [B - 1, B - 1]) (by decide) (by decide)
    (by decide) (by decide)).1

theorem largeAdd_overflow {cap : Option Nat} {x y : Big} (hx : AllLt x) (hy : AllLt y)
    (h : largeAdd cap x y = none) :
    ∃ c, cap = some c ∧
      (y.length > c ∨
       (max x.length y.length + 1 > c ∧ B ^ (max x.length y.length) ≤ toNat x + toNat y)) := by
  have := largeAddFrom_overflow hx hy h
  simpa using this

theorem largeAdd_overflow_normalized {cap : Option Nat} {x y : Big} (hx : AllLt x) (hy : AllLt y)
    (hny : isNormalized y = true) (h : largeAdd cap x y = none) :
    ∃ c, cap = some c ∧ B ^ c ≤ toNat x + toNat y := by
  have := largeAddFrom_overflow_normalized hx hy hny h
  simpa using this

theorem largeAdd_complete {cap : Option Nat} {x y : Big} (hx : AllLt x) (hy : AllLt y)
    (h : capOk cap (max x.length y.length + 1) = true) : ∃ r, largeAdd cap x y = some r :=
  largeAddFrom_complete hx hy (by simpa using h)

example : largeAdd (some 2) [B - 1] [B - 1, B - 1] = none := by decide

-- ================================================================ 4. normalize / from_u64

theorem normalize_exact (x : Big) : toNat (normalize x) = toNat x := normalize_toNat x
theorem normalize_normalized (x : Big) : isNormalized (normalize x) = true :=
  normalize_isNormalized x
theorem normalize_limbs {x : Big} (h : AllLt x) : AllLt (normalize x) := normalize_allLt h
theorem normalize_length_le (x : Big) : (normalize x).length ≤ x.length := normalize_length x
theorem normalize_idempotent {x : Big} (h : isNormalized x = true) : normalize x = x :=
  normalize_of_isNormalized h

example : normalize [0, 3, 0, 0] = [0, 3] := by decide
example : normalize [0, 0] = [] := by decide
example : isNormalized [0, 3] = true ∧ normalize [0, 3] = [0, 3] :=
  ⟨by decide, normalize_idempotent (by decide)⟩

/-- `from_u64` (64-bit limbs): exact, normalised, at most one limb. -/
theorem fromU64_exact {v : Nat} (hv : v < B) :
    toNat (fromU64 v) = v ∧ AllLt (fromU64 v) ∧ isNormalized (fromU64 v) = true ∧
    (fromU64 v).length ≤ 1 :=
  fromU64_spec hv

example : fromU64 0 = [] ∧ fromU64 9 = [9] := by decide

-- ================================================================ 5. compare

/-- `compare` on normalised operands is the order of the values. -/
theorem bigCompare_exact {x y : Big} (hx : AllLt x) (hy : AllLt y)
    (nx : isNormalized x = true) (ny : isNormalized y = true) :
    bigCompare x y = compare (toNat x) (toNat y) :=
  bigCompare_spec hx hy nx ny

theorem bigCompare_lt_iff {x y : Big} (hx : AllLt x) (hy : AllLt y)
    (nx : isNormalized x = true) (ny : isNormalized y = true) :
    bigCompare x y = .lt ↔ toNat x < toNat y := by
  rw [bigCompare_exact hx hy nx ny, Nat.compare_eq_lt]

theorem bigCompare_eq_iff {x y : Big} (hx : AllLt x) (hy : AllLt y)
    (nx : isNormalized x = true) (ny : isNormalized y = true) :
    bigCompare x y = .eq ↔ toNat x = toNat y := by
  rw [bigCompare_exact hx hy nx ny, Nat.compare_eq_eq]

theorem bigCompare_gt_iff {x y : Big} (hx : AllLt x) (hy : AllLt y)
    (nx : isNormalized x = true) (ny : isNormalized y = true) :
    bigCompare x y = .gt ↔ toNat x > toNat y := by
  rw [bigCompare_exact hx hy nx ny, Nat.compare_eq_gt]

example : bigCompare [B - 1, 1] [0, 2] = .lt ∧ toNat [B - 1, 1] < toNat [0, 2] := by
  have h := bigCompare_lt_iff (x := [B - 1, 1]) (y := [0, 2]) (by decide) (by decide) (by decide)
    (by decide)
  exact ⟨by decide, h.mp (by decide)⟩

/-- Without normalisation the statement is false: `[1,0]` denotes 1 but compares greater than 2. -/
example : bigCompare [1, 0] [2] = .gt ∧ toNat [1, 0] < toNat [2] := by decide

-- ================================================================ 6. shifts

/-- `shl_bits`, precondition `0 < n < 64`. -/
theorem shlBits_exact {cap : Option Nat} {x r : Big} {n : Nat} (h0 : 0 < n) (hn : n < 64)
    (hx : AllLt x) (hcap : capOk cap x.length = true) (h : shlBits cap x n = some r) :
    toNat r = toNat x * 2 ^ n ∧ AllLt r ∧ capOk cap r.length = true := by
  obtain ⟨a, b, c, _⟩ := shlBits_spec h0 hn hx hcap h
  exact ⟨a, b, c⟩

example : toNat [B - 8, B - 1, 7] = toNat [B - 1, B - 1] * 2 ^ 3 :=
  (shlBits_exact (cap := some 62) (x := [B - 1, B - 1]) (n := 3) (by decide) (by decide)
    (by decide) (by decide) (by decide)).1

theorem shlBits_overflow {cap : Option Nat} {x : Big} {n : Nat} (h0 : 0 < n) (hn : n < 64)
    (hx : AllLt x) (h : shlBits cap x n = none) :
    ∃ c, cap = some c ∧ x.length + 1 > c ∧ B ^ x.length ≤ toNat x * 2 ^ n ∧
      B ^ c ≤ toNat x * 2 ^ n := by
  obtain ⟨h1, h2⟩ := (shlBits_none_iff h0 hn hx).mp h
  obtain ⟨c, hc, hgt⟩ := capOk_false_iff.mp h1
  have := Bpow_le (show c ≤ x.length by omega)
  exact ⟨c, hc, hgt, h2, by omega⟩

theorem shlBits_complete {cap : Option Nat} {x : Big} {n : Nat} (h0 : 0 < n) (hn : n < 64)
    (hx : AllLt x) (h : capOk cap (x.length + 1) = true ∨ toNat x * 2 ^ n < B ^ x.length) :
    ∃ r, shlBits cap x n = some r := by
  cases hr : shlBits cap x n with
  | some r => exact ⟨r, rfl⟩
  | none =>
    obtain ⟨h1, h2⟩ := (shlBits_none_iff h0 hn hx).mp hr
    rcases h with h | h
    · rw [h] at h1; exact absurd h1 (by simp)
    · omega

example : shlBits (some 2) [B - 1, B - 1] 3 = none := by decide
example : ∃ r, shlBits (some 2) [B - 1, 1] 3 = some r :=
  shlBits_complete (by decide) (by decide) (by decide) (Or.inr (by decide))

/-- `shl_limbs` (the Rust precondition `n ≠ 0` is not needed for exactness). -/
theorem shlLimbs_exact {cap : Option Nat} {x r : Big} {n : Nat} (hx : AllLt x)
    (h : shlLimbs cap x n = some r) :
    toNat r = toNat x * B ^ n ∧ AllLt r ∧ capOk cap r.length = true := by
  obtain ⟨a, b, c, _⟩ := shlLimbs_spec hx h
  exact ⟨a, b, c⟩

example : toNat [0, 0, 5, 6] = toNat [5, 6] * B ^ 2 :=
  (shlLimbs_exact (cap := some 62) (x := [5, 6]) (n := 2) (by decide) (by decide)).1

/-- `shl_limbs` fails exactly when `n + x.len()` exceeds the capacity. -/
theorem shlLimbs_overflow_iff {cap : Option Nat} {x : Big} {n : Nat} :
    shlLimbs cap x n = none ↔ ∃ c, cap = some c ∧ n + x.length > c := by
  rw [shlLimbs_none_iff, capOk_false_iff]

/-- for a normalised non-empty `x` the failure is genuine -/
theorem shlLimbs_overflow_normalized {cap : Option Nat} {x : Big} {n : Nat}
    (hnx : isNormalized x = true) (hx0 : x ≠ []) (h : shlLimbs cap x n = none) :
    ∃ c, cap = some c ∧ B ^ c ≤ toNat x * B ^ n := by
  obtain ⟨c, hc, hgt⟩ := shlLimbs_overflow_iff.mp h
  refine ⟨c, hc, ?_⟩
  have hge := toNat_ge_of_normalized hnx hx0
  have hxl : 0 < x.length := List.length_pos_iff.mpr hx0
  have h3 := Bpow_le (show c ≤ (x.length - 1) + n by omega)
  rw [Nat.pow_add] at h3
  have := Nat.mul_le_mul_right (B ^ n) hge
  omega

/-- `shl_limbs` on the empty vector returns the empty vector, but only after the capacity
    check: the check is conservative for zero (`0·B^63` would fit). -/
example : shlLimbs (some 62) [] 5 = some [] := by decide
example : shlLimbs (some 62) [] 63 = none := by decide

/-- `shl`, any `n`. -/
theorem shl_exact {cap : Option Nat} {x r : Big} {n : Nat} (hx : AllLt x)
    (hcap : capOk cap x.length = true) (h : shl cap x n = some r) :
    toNat r = toNat x * 2 ^ n ∧ AllLt r ∧ capOk cap r.length = true :=
  shl_spec hx hcap h

example : toNat [0, 0, B - 8, B - 1, 7] = toNat [B - 1, B - 1] * 2 ^ 131 :=
  (shl_exact (cap := some 62) (x := [B - 1, B - 1]) (n := 131) (by decide) (by decide)
    (by decide)).1

/-- `shl` fails only on the stack back-end when `x.len() + 1 + n / 64` limbs are not available. -/
theorem shl_overflow {cap : Option Nat} {x : Big} {n : Nat} (hx : AllLt x)
    (hcap : capOk cap x.length = true) (h : shl cap x n = none) :
    ∃ c, cap = some c ∧ x.length + 1 + n / 64 > c :=
  capOk_false_iff.mp (shl_none hx hcap h)

/-- for a normalised non-empty `x`, `shl` fails only if `x·2^n ≥ B^c` -/
theorem shl_overflow_normalized {cap : Option Nat} {x : Big} {n : Nat} (hx : AllLt x)
    (hcap : capOk cap x.length = true) (hnx : isNormalized x = true) (hx0 : x ≠ [])
    (h : shl cap x n = none) : ∃ c, cap = some c ∧ B ^ c ≤ toNat x * 2 ^ n :=
  shl_none_topNZ hx hcap (TopNZ_of_normalized hnx hx0) h

theorem shl_complete {cap : Option Nat} {x : Big} {n : Nat} (hx : AllLt x)
    (hcap : capOk cap x.length = true) (h : capOk cap (x.length + 1 + n / 64) = true) :
    ∃ r, shl cap x n = some r := by
  cases hr : shl cap x n with
  | some r => exact ⟨r, rfl⟩
  | none => rw [shl_none hx hcap hr] at h; exact absurd h (by simp)

/-- Converse on the value: a normalised non-empty `x` is shifted successfully iff `x·2^n < B^c`. -/
theorem shl_some_iff_fits {c : Nat} {x : Big} {n : Nat} (hx : AllLt x)
    (hcap : capOk (some c) x.length = true) (hnx : isNormalized x = true) (hx0 : x ≠ []) :
    (∃ r, shl (some c) x n = some r) ↔ toNat x * 2 ^ n < B ^ c := by
  constructor
  · rintro ⟨r, hr⟩
    obtain ⟨a, b, d⟩ := shl_exact hx hcap hr
    rw [← a]; exact fits_of_some b d
  · intro hlt
    cases hr : shl (some c) x n with
    | some r => exact ⟨r, rfl⟩
    | none =>
      obtain ⟨c', hc, hge⟩ := shl_overflow_normalized hx hcap hnx hx0 hr
      simp only [Option.some.injEq] at hc
      subst hc; omega

example : shl (some 4) [B - 1, B - 1] 131 = none := by decide
example : ∃ r, shl (some 5) [B - 1, B - 1] 131 = some r :=
  shl_complete (by decide) (by decide) (by decide)

-- ================================================================ 3. multiplication

/-- `long_mul` for a non-empty second operand: exact product, normalised result. -/
theorem longMul_exact {cap : Option Nat} {x y r : Big} (hx : AllLt x) (hy : AllLt y)
    (hy0 : y ≠ []) (h : longMul cap x y = some r) :
    toNat r = toNat x * toNat y ∧ AllLt r ∧ capOk cap r.length = true ∧
    isNormalized r = true :=
  longMul_spec hx hy hy0 h

example : longMul (some 62) [B - 1, B - 1] [B - 1, B - 1, 0] = some [1, 0, B - 2, B - 1] := by
  decide
example : toNat [1, 0, B - 2, B - 1] = toNat [B - 1, B - 1] * toNat [B - 1, B - 1, 0] :=
  (longMul_exact (cap := some 62) (x := [B - 1, B - 1]) (y := [B - 1, B - 1, 0]) (by decide)
    (by decide) (by decide) (by decide)).1

/-- The "non-zero factors" precondition: with an empty second operand `long_mul` returns the first
    operand (normalised), not zero. -/
theorem longMul_empty {cap : Option Nat} {x : Big} (h : capOk cap x.length = true) :
    longMul cap x [] = some (normalize x) :=
  longMul_nil cap x h

example : longMul none [1, 2] [] = some [1, 2] := by decide

/-- `long_mul` succeeds whenever `x.len() + y.len()` limbs are available … -/
theorem longMul_complete {cap : Option Nat} {x y : Big} (hx : AllLt x) (hy : AllLt y)
    (h : capOk cap (x.length + y.length) = true) : ∃ r, longMul cap x y = some r :=
  longMul_some hx hy h

/-- … so it fails only on the stack back-end with `x.len() + y.len() > c`. -/
theorem longMul_overflow {cap : Option Nat} {x y : Big} (hx : AllLt x) (hy : AllLt y)
    (h : longMul cap x y = none) : ∃ c, cap = some c ∧ x.length + y.length > c := by
  apply capOk_false_iff.mp
  cases hc : capOk cap (x.length + y.length) with
  | false => rfl
  | true =>
    obtain ⟨r, hr⟩ := longMul_complete hx hy hc
    rw [hr] at h; exact absurd h (by simp)

/-- For a normalised non-zero `x` and a non-zero `y`, failure means the exact product does not
    fit: no intermediate result of the schoolbook loop is larger than the final product. -/
theorem longMul_overflow_normalized {cap : Option Nat} {x y : Big} (hx : AllLt x) (hy : AllLt y)
    (hnx : isNormalized x = true) (hx0 : x ≠ []) (hy0 : toNat y ≠ 0)
    (h : longMul cap x y = none) : ∃ c, cap = some c ∧ B ^ c ≤ toNat x * toNat y :=
  longMul_none_topNZ hx hy (TopNZ_of_normalized hnx hx0) (Nat.pos_of_ne_zero hy0) h

/-- On the stack back-end, for normalised non-zero operands: success iff the product fits. -/
theorem longMul_some_iff_fits {c : Nat} {x y : Big} (hx : AllLt x) (hy : AllLt y)
    (hnx : isNormalized x = true) (hx0 : x ≠ []) (hy0 : toNat y ≠ 0) :
    (∃ r, longMul (some c) x y = some r) ↔ toNat x * toNat y < B ^ c := by
  have hyne : y ≠ [] := by intro h0; subst h0; exact hy0 rfl
  constructor
  · rintro ⟨r, hr⟩
    obtain ⟨a, b, d, _⟩ := longMul_exact hx hy hyne hr
    rw [← a]; exact fits_of_some b d
  · intro hlt
    cases hr : longMul (some c) x y with
    | some r => exact ⟨r, rfl⟩
    | none =>
      obtain ⟨c', hc, hge⟩ := longMul_overflow_normalized hx hy hnx hx0 hy0 hr
      simp only [Option.some.injEq] at hc
      subst hc; omega

example : longMul (some 3) [B - 1, B - 1] [B - 1, B - 1] = none := by decide
example : ∃ r, longMul (some 4) [B - 1, B - 1] [B - 1, B - 1] = some r :=
  longMul_complete (by decide) (by decide) (by decide)
example : ∃ r, longMul (some 3) [B - 1, B - 1] [B - 1] = some r :=
  (longMul_some_iff_fits (by decide) (by decide) (by decide) (by decide) (by decide)).mpr
    (by decide)

/-- `large_mul` for a non-empty first operand (the vector being updated). -/
theorem largeMul_exact {cap : Option Nat} {x y r : Big} (hx : AllLt x) (hy : AllLt y)
    (hx0 : x ≠ []) (hcap : capOk cap x.length = true) (h : largeMul cap x y = some r) :
    toNat r = toNat x * toNat y ∧ AllLt r ∧ capOk cap r.length = true :=
  largeMul_spec hx hy hx0 hcap h

example : toNat [1, 0, B - 2, B - 1] = toNat [B - 1, B - 1] * toNat [B - 1, B - 1] :=
  (largeMul_exact (cap := some 62) (x := [B - 1, B - 1]) (y := [B - 1, B - 1]) (by decide)
    (by decide) (by decide) (by decide) (by decide)).1

/-- The "non-zero factors" precondition of `large_mul`: an empty (zero) vector multiplied by a
    multi-limb `y` becomes `y`, not zero; an empty `y` gives zero as expected. -/
example : largeMul none [] [1, 2] = some [1, 2] := by decide
example : largeMul none [] [3] = some [] := by decide
example : largeMul none [1, 2] [] = some [] := by decide

theorem largeMul_complete {cap : Option Nat} {x y : Big} (hx : AllLt x) (hy : AllLt y)
    (h : capOk cap (x.length + y.length) = true) : ∃ r, largeMul cap x y = some r :=
  largeMul_some hx hy h

theorem largeMul_overflow {cap : Option Nat} {x y : Big} (hx : AllLt x) (hy : AllLt y)
    (h : largeMul cap x y = none) : ∃ c, cap = some c ∧ x.length + y.length > c := by
  apply capOk_false_iff.mp
  cases hc : capOk cap (x.length + y.length) with
  | false => rfl
  | true =>
    obtain ⟨r, hr⟩ := largeMul_complete hx hy hc
    rw [hr] at h; exact absurd h (by simp)

theorem largeMul_overflow_normalized {cap : Option Nat} {x y : Big} (hx : AllLt x) (hy : AllLt y)
    (hnx : isNormalized x = true) (hx0 : x ≠ []) (hny : isNormalized y = true) (hy0 : y ≠ [])
    (h : largeMul cap x y = none) : ∃ c, cap = some c ∧ B ^ c ≤ toNat x * toNat y :=
  largeMul_none_topNZ hx hy (TopNZ_of_normalized hnx hx0) (TopNZ_of_normalized hny hy0) h

/-- On the stack back-end, for normalised non-zero operands: success iff the product fits. -/
theorem largeMul_some_iff_fits {c : Nat} {x y : Big} (hx : AllLt x) (hy : AllLt y)
    (hnx : isNormalized x = true) (hx0 : x ≠ []) (hny : isNormalized y = true) (hy0 : y ≠ [])
    (hcap : capOk (some c) x.length = true) :
    (∃ r, largeMul (some c) x y = some r) ↔ toNat x * toNat y < B ^ c := by
  constructor
  · rintro ⟨r, hr⟩
    obtain ⟨a, b, d⟩ := largeMul_exact hx hy hx0 hcap hr
    rw [← a]; exact fits_of_some b d
  · intro hlt
    cases hr : largeMul (some c) x y with
    | some r => exact ⟨r, rfl⟩
    | none =>
      obtain ⟨c', hc, hge⟩ := largeMul_overflow_normalized hx hy hnx hx0 hny hy0 hr
      simp only [Option.some.injEq] at hc
      subst hc; omega

example : largeMul (some 3) [B - 1, B - 1] [B - 1, B - 1] = none := by decide
example : ∃ r, largeMul (some 3) [B - 1, B - 1] [B - 1] = some r :=
  (largeMul_some_iff_fits (by decide) (by decide) (by decide) (by decide) (by decide) (by decide)
    (by decide)).mpr (by decide)

-- ================================================================ 7. powers

/-- The tables regenerated from the compiled crate satisfy what `pow` needs:
    `LARGE_POW5 = 5^135` (normalised limbs `< 2^64`) and `SMALL_INT_POW5[i] = 5^i` for `i < 27`. -/
theorem genPow_tablesOK (compact : Bool) : PowTablesOK (genPow compact) := by
  constructor
  · show toNat Gen.largePow5 = 5 ^ Gen.largePow5Step
    decide +kernel
  · show AllLt Gen.largePow5
    decide +kernel
  · show isNormalized Gen.largePow5 = true
    decide +kernel
  · show ∀ i, i < 27 → Gen.smallIntPow5.getD i 0 = 5 ^ i
    decide +kernel

/-- the hypotheses in the form given in the task statement imply `PowTablesOK` -/
theorem tablesOK_of_facts {T : PowTables} (hstep : T.largePow5Step = 135)
    (hval : toNat T.largePow5 = 5 ^ 135) (hlt : AllLt T.largePow5)
    (hnorm : isNormalized T.largePow5 = true)
    (hsmall : ∀ i, i < 27 → T.smallIntPow5.getD i 0 = 5 ^ i) : PowTablesOK T :=
  ⟨by rw [hval, hstep], hlt, hnorm, hsmall⟩

/-- `bigint::pow`: multiplication by `5^e`, for a non-zero `x`.
    (The tables are consulted only when `T.compact = false`.)
    Named `_partial` because the hypothesis has to be `toNat x ≠ 0`, not merely `x ≠ []`:
    `pow none (genPow false) [0] 270` has value `5^135` (see the examples below). -/
theorem pow_exact_partial {cap : Option Nat} {T : PowTables} (hT : T.compact = false → PowTablesOK T)
    {x r : Big} {e : Nat} (hx : AllLt x) (h0 : toNat x ≠ 0) (hcap : capOk cap x.length = true)
    (h : pow cap T x e = some r) :
    toNat r = toNat x * 5 ^ e ∧ AllLt r ∧ capOk cap r.length = true := by
  obtain ⟨a, b, c, _⟩ := pow_spec hT hx (Or.inl h0) hcap h
  exact ⟨a, b, c⟩

/-- When no large-power step is taken (compact build, or `e` below the step) the result is exact
    for every `x`, zero included. -/
theorem pow_exact_small {cap : Option Nat} {T : PowTables}
    (hT : T.compact = false → PowTablesOK T) {x r : Big} {e : Nat} (hx : AllLt x)
    (hsmall : T.compact = true ∨ e < T.largePow5Step) (hcap : capOk cap x.length = true)
    (h : pow cap T x e = some r) :
    toNat r = toNat x * 5 ^ e ∧ AllLt r ∧ capOk cap r.length = true := by
  obtain ⟨a, b, c, _⟩ := pow_spec hT hx (Or.inr hsmall) hcap h
  exact ⟨a, b, c⟩

/-- What is true on the empty vector (value 0) in a non-compact build when `e ≥ 135`: the first
    `large_mul` (whose precondition "non-zero factors" is violated) replaces the empty vector by
    `LARGE_POW5`, so `pow` returns `5^e`, not `0·5^e = 0`. -/
theorem pow_empty_large' {cap : Option Nat} {T : PowTables} (hT : PowTablesOK T)
    (hcm : T.compact = false) (hlen : T.largePow5.length ≠ 1) (hs : T.largePow5Step ≠ 0)
    {e : Nat} {r : Big} (he : T.largePow5Step ≤ e) (h : pow cap T [] e = some r) :
    toNat r = 5 ^ e ∧ AllLt r ∧ capOk cap r.length = true :=
  pow_empty_large hT hcm hlen hs he h

example (r : Big) (h : pow none (genPow false) [] 200 = some r) : toNat r = 5 ^ 200 :=
  (pow_empty_large' (genPow_tablesOK false) rfl (by decide) (by decide) (by decide) h).1
example (r : Big) (h : pow none (genPow false) [0, 0] 100 = some r) : toNat r = 0 := by
  have := (pow_exact_small (fun _ => genPow_tablesOK false) (x := [0, 0]) (by decide)
    (Or.inr (by decide)) rfl h).1
  simpa [toNat] using this

example : (pow (some 62) (genPow false) [3, 1] 300).isSome = true := by decide +kernel
example (r : Big) (h : pow (some 62) (genPow false) [3, 1] 300 = some r) :
    toNat r = toNat [3, 1] * 5 ^ 300 :=
  (pow_exact_partial (fun _ => genPow_tablesOK false) (by decide) (by decide) (by decide) h).1
example (r : Big) (h : pow (some 62) (genPow true) [3, 1] 300 = some r) :
    toNat r = toNat [3, 1] * 5 ^ 300 :=
  (pow_exact_partial (fun hc => absurd hc (by decide)) (by decide) (by decide) (by decide) h).1

/-- `toNat x ≠ 0` is necessary (the "non-zero factors" precondition of `large_mul`): on the
    empty vector, or on a vector that `long_mul` normalises to empty, a step of the large-power
    loop replaces zero by `5^135`. -/
example : (pow none (genPow false) [] 135).map toNat = some (5 ^ 135) := by decide +kernel
example : (pow none (genPow false) [0] 270).map toNat = some (5 ^ 135) := by decide +kernel
example : pow none (genPow false) [] 134 = some [] := by decide +kernel

/-- For a normalised non-zero `x`, `pow` fails only if `x·5^e ≥ B^c`. -/
theorem pow_overflow_normalized {cap : Option Nat} {T : PowTables}
    (hT : T.compact = false → PowTablesOK T) {x : Big} {e : Nat} (hx : AllLt x)
    (hnx : isNormalized x = true) (hx0 : x ≠ []) (hcap : capOk cap x.length = true)
    (h : pow cap T x e = none) : ∃ c, cap = some c ∧ B ^ c ≤ toNat x * 5 ^ e :=
  pow_none_topNZ hT hx (TopNZ_of_normalized hnx hx0) hcap h

/-- On the stack back-end, for a normalised non-zero `x`: success iff `x·5^e` fits. -/
theorem pow_some_iff_fits {c : Nat} {T : PowTables} (hT : T.compact = false → PowTablesOK T)
    {x : Big} {e : Nat} (hx : AllLt x) (hnx : isNormalized x = true) (hx0 : x ≠ [])
    (hcap : capOk (some c) x.length = true) :
    (∃ r, pow (some c) T x e = some r) ↔ toNat x * 5 ^ e < B ^ c := by
  have h0 : toNat x ≠ 0 := (toNat_pos_of_normalized hnx hx0).ne'
  constructor
  · rintro ⟨r, hr⟩
    obtain ⟨a, b, d⟩ := pow_exact_partial hT hx h0 hcap hr
    rw [← a]; exact fits_of_some b d
  · intro hlt
    cases hr : pow (some c) T x e with
    | some r => exact ⟨r, rfl⟩
    | none =>
      obtain ⟨c', hc, hge⟩ := pow_overflow_normalized hT hx hnx hx0 hcap hr
      simp only [Option.some.injEq] at hc
      subst hc; omega

example : pow (some 11) (genPow false) [3, 1] 300 = none := by decide +kernel

/-- `Bigint::pow(base, exp)` for `base ∈ {2, 5, 10}`. -/
theorem bigintPow_exact_partial {cap : Option Nat} {T : PowTables}
    (hT : T.compact = false → PowTablesOK T) {x r : Big} {base e : Nat}
    (hb : base = 2 ∨ base = 5 ∨ base = 10) (hx : AllLt x) (h0 : toNat x ≠ 0)
    (hcap : capOk cap x.length = true) (h : bigintPow cap T x base e = some r) :
    toNat r = toNat x * base ^ e ∧ AllLt r ∧ capOk cap r.length = true :=
  bigintPow_spec hT hb hx h0 hcap h

example : (bigintPow (some 62) (genPow false) [7] 10 310).isSome = true := by decide +kernel
example (r : Big) (h : bigintPow (some 62) (genPow false) [7] 10 310 = some r) :
    toNat r = toNat [7] * 10 ^ 310 :=
  (bigintPow_exact_partial (fun _ => genPow_tablesOK false) (Or.inr (Or.inr rfl)) (by decide) (by decide)
    (by decide) h).1

theorem bigintPow_overflow_normalized {cap : Option Nat} {T : PowTables}
    (hT : T.compact = false → PowTablesOK T) {x : Big} {base e : Nat}
    (hb : base = 2 ∨ base = 5 ∨ base = 10) (hx : AllLt x) (hnx : isNormalized x = true)
    (hx0 : x ≠ []) (hcap : capOk cap x.length = true) (h : bigintPow cap T x base e = none) :
    ∃ c, cap = some c ∧ B ^ c ≤ toNat x * base ^ e :=
  bigintPow_none_topNZ hT hb hx (TopNZ_of_normalized hnx hx0) hcap h

/-- On the stack back-end, for a normalised non-zero `x`: success iff `x·base^e` fits. -/
theorem bigintPow_some_iff_fits {c : Nat} {T : PowTables}
    (hT : T.compact = false → PowTablesOK T) {x : Big} {base e : Nat}
    (hb : base = 2 ∨ base = 5 ∨ base = 10) (hx : AllLt x) (hnx : isNormalized x = true)
    (hx0 : x ≠ []) (hcap : capOk (some c) x.length = true) :
    (∃ r, bigintPow (some c) T x base e = some r) ↔ toNat x * base ^ e < B ^ c := by
  have h0 : toNat x ≠ 0 := (toNat_pos_of_normalized hnx hx0).ne'
  constructor
  · rintro ⟨r, hr⟩
    obtain ⟨a, b, d⟩ := bigintPow_exact_partial hT hb hx h0 hcap hr
    rw [← a]; exact fits_of_some b d
  · intro hlt
    cases hr : bigintPow (some c) T x base e with
    | some r => exact ⟨r, rfl⟩
    | none =>
      obtain ⟨c', hc, hge⟩ := bigintPow_overflow_normalized hT hb hx hnx hx0 hcap hr
      simp only [Option.some.injEq] at hc
      subst hc; omega

example : bigintPow (some 62) (genPow false) [7] 10 1200 = none := by decide +kernel

-- ================================================================ 8. bit_length / hi64

/-- `bit_length` of a normalised non-zero big integer. -/
theorem bitLength_exact {x : Big} (hx : AllLt x) (hn : isNormalized x = true) (hne : x ≠ []) :
    bitLength x = Nat.log2 (toNat x) + 1 :=
  bitLength_spec hx hn hne

example : bitLength [7, 5] = Nat.log2 (toNat [7, 5]) + 1 ∧ bitLength [7, 5] = 67 :=
  ⟨bitLength_exact (by decide) (by decide) (by decide), by decide +kernel⟩

/-- `hi64` of a normalised non-zero big integer: the top 64 bits (left-aligned) and whether any
    lower bit is set. -/
theorem hi64_exact {x : Big} (hx : AllLt x) (hn : isNormalized x = true) (hne : x ≠ []) :
    (64 ≤ bitLength x →
      (hi64 x).1 = toNat x / 2 ^ (bitLength x - 64) ∧
      (hi64 x).2 = decide (toNat x % 2 ^ (bitLength x - 64) ≠ 0)) ∧
    (bitLength x < 64 →
      (hi64 x).1 = toNat x * 2 ^ (64 - bitLength x) ∧ (hi64 x).2 = false) :=
  hi64_spec hx hn hne

/-- the returned 64-bit mantissa is left-aligned: its top bit is set -/
theorem hi64_normalized {x : Big} (hx : AllLt x) (hn : isNormalized x = true) (hne : x ≠ []) :
    2 ^ 63 ≤ (hi64 x).1 ∧ (hi64 x).1 < 2 ^ 64 :=
  hi64_top_bit hx hn hne

example : hi64 [1, 0, 5] = (5 * 2 ^ 61, true) ∧ bitLength [1, 0, 5] = 131 := by decide +kernel
example : (hi64 [1, 0, 5]).1 = toNat [1, 0, 5] / 2 ^ (bitLength [1, 0, 5] - 64) :=
  ((hi64_exact (x := [1, 0, 5]) (by decide) (by decide) (by decide)).1 (by decide +kernel)).1
example : hi64 [5] = (5 * 2 ^ 61, false) := by decide +kernel

/-- Outside the contract (zero top limb): `hi64 [1, 0]` is `(1, true)`, whereas the value 1 has
    top bits `2^63` and no truncated bits. -/
example : hi64 [1, 0] = (1, true) ∧ isNormalized [1, 0] = false ∧ hi64 [1] = (2 ^ 63, false) := by
  decide +kernel

-- ================================================================ 9. the heap back-end never fails

/-- On the heap back-end (`cap = none`) no operation ever reports overflow, for ALL inputs
    (no `AllLt`, normalisation or table hypotheses needed). -/
theorem heap_total (T : PowTables) (x y : Big) (v n base : Nat) :
    (∃ r, smallAdd none x v = some r) ∧ (∃ r, smallAddFrom none x v n = some r) ∧
    (∃ r, smallMul none x v = some r) ∧
    (∃ r, largeAdd none x y = some r) ∧ (∃ r, largeAddFrom none x y n = some r) ∧
    (∃ r, longMul none x y = some r) ∧ (∃ r, largeMul none x y = some r) ∧
    (∃ r, shlBits none x n = some r) ∧ (∃ r, shlLimbs none x n = some r) ∧
    (∃ r, shl none x n = some r) ∧
    (∃ r, pow none T x n = some r) ∧ (∃ r, bigintPow none T x base n = some r) :=
  ⟨smallAddFrom_heap x v 0, smallAddFrom_heap x v n, smallMul_heap x v,
   largeAddFrom_heap x y 0, largeAddFrom_heap x y n, longMul_heap x y, largeMul_heap x y,
   shlBits_heap x n, shlLimbs_heap x n, shl_heap x n, pow_heap_total T x n,
   bigintPow_heap_total T x base n⟩

end MinLex.C12
