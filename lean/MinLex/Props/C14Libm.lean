/-
  C14 (extension) — the powers of ten the `no_std + compact` build computes on demand with the bundled libm
  are derived from the ALGORITHM (`Libm.powd` / `Libm.powf`, `MinLex/Model/Libm.lean`, a statement-by-statement
  model of `/repo/src/libm.rs`) instead of being read off a run:

    powd(10.0, k as f64) = 10^k exactly for k = 0..22,   powf(10.0, k as f32) = 10^k exactly for k = 0..10,

  and the values the compiled code returned (`Gen.compactLibmPowFastPath64/32`) are the model's values.
  Everything here is a closed finite fact evaluated by the kernel (`decide +kernel`).
-/
import MinLex.Model.Libm
import MinLex.Gen.Tables
namespace MinLex.C14Libm
open MinLex MinLex.Libm

-- ------------------------------------------------------------------ the constants
/-- the decimal literals of `powd`, rounded as the Rust compiler rounds them, next to the bit patterns
    (the hexadecimal comments of the source where it has one; all of them agree) -/
def constTable64 : List (Nat × Nat) :=
  [(D.BP0, 0x3ff0000000000000),
   (D.BP1, 0x3ff8000000000000),
   (D.DP_H0, 0x0),
   (D.DP_H1, 0x3fe2b80340000000),
   (D.DP_L0, 0x0),
   (D.DP_L1, 0x3e4cfdeb43cfd006),
   (D.TWO53, 0x4340000000000000),
   (D.HUGE, 0x7e37e43c8800759c),
   (D.TINY, 0x1a56e1fc2f8f359),
   (D.L1, 0x3fe3333333333303),
   (D.L2, 0x3fdb6db6db6fabff),
   (D.L3, 0x3fd55555518f264d),
   (D.L4, 0x3fd17460a91d4101),
   (D.L5, 0x3fcd864a93c9db65),
   (D.L6, 0x3fca7e284a454eef),
   (D.P1, 0x3fc555555555553e),
   (D.P2, 0xbf66c16c16bebd93),
   (D.P3, 0x3f11566aaf25de2c),
   (D.P4, 0xbebbbd41c5d26bf1),
   (D.P5, 0x3e66376972bea4d0),
   (D.LG2, 0x3fe62e42fefa39ef),
   (D.LG2_H, 0x3fe62e4300000000),
   (D.LG2_L, 0xbe205c610ca86c39),
   (D.OVT, 0x3c971547652b82fe),
   (D.CP, 0x3feec709dc3a03fd),
   (D.CP_H, 0x3feec709e0000000),
   (D.CP_L, 0xbe3e2fe0145b01f5),
   (D.IVLN2, 0x3ff71547652b82fe),
   (D.IVLN2_H, 0x3ff7154760000000),
   (D.IVLN2_L, 0x3e54ae0bf85ddf44)]
def constTable32 : List (Nat × Nat) :=
  [(S.BP0, 0x3f800000),
   (S.BP1, 0x3fc00000),
   (S.DP_H0, 0x0),
   (S.DP_H1, 0x3f15c000),
   (S.DP_L0, 0x0),
   (S.DP_L1, 0x35d1cfdc),
   (S.TWO24, 0x4b800000),
   (S.HUGE, 0x7149f2ca),
   (S.TINY, 0xda24260),
   (S.L1, 0x3f19999a),
   (S.L2, 0x3edb6db7),
   (S.L3, 0x3eaaaaab),
   (S.L4, 0x3e8ba305),
   (S.L5, 0x3e6c3255),
   (S.L6, 0x3e53f142),
   (S.P1, 0x3e2aaaab),
   (S.P2, 0xbb360b61),
   (S.P3, 0x388ab355),
   (S.P4, 0xb5ddea0e),
   (S.P5, 0x3331bb4c),
   (S.LG2, 0x3f317218),
   (S.LG2_H, 0x3f317200),
   (S.LG2_L, 0x35bfbe8c),
   (S.OVT, 0x3338aa3c),
   (S.CP, 0x3f76384f),
   (S.CP_H, 0x3f764000),
   (S.CP_L, 0xb8f623c6),
   (S.IVLN2, 0x3fb8aa3b),
   (S.IVLN2_H, 0x3fb8aa00),
   (S.IVLN2_L, 0x36eca570)]

/-- every f64 constant of `powd` (decimal literal, correctly rounded) is the documented bit pattern -/
theorem powd_consts : constTable64.all (fun p => p.1 == p.2) = true := by decide +kernel
/-- every f32 constant of `powf` (decimal literal, correctly rounded) is the documented bit pattern -/
theorem powf_consts : constTable32.all (fun p => p.1 == p.2) = true := by decide +kernel

-- ------------------------------------------------------------------ the arguments of `pow_fast_path`
/-- `10.0f64` -/
def ten64 : Nat := lit Fmt.f64 100 (-1)
/-- `10.0f32` -/
def ten32 : Nat := lit Fmt.f32 100 (-1)
/-- `k as f64` (the crate casts the `usize` exponent; for k ≤ 22 this is the `i32` cast as well) -/
def kf64 (k : Nat) : Nat := ofI32 Fmt.f64 (k : Int)
/-- `k as f32` -/
def kf32 (k : Nat) : Nat := ofI32 Fmt.f32 (k : Int)
/-- the bit pattern of `10^k` through the specification -/
def pow10Bits (f : Fmt) (k : Nat) : Nat := rne f (ofDec 1 (k : Int))

theorem ten64_bits : ten64 = 0x4024000000000000 := by decide +kernel
theorem ten32_bits : ten32 = 0x41200000 := by decide +kernel

/-- `10^k` is exactly representable: the specification's bit pattern is finite and decodes to `10^k` itself -/
def exactCheck (f : Fmt) (n : Nat) : Bool :=
  (List.range n).all fun k =>
    decide (pow10Bits f k < f.infBits) && decide (Q.eqv (decodeQ f (pow10Bits f k)) ⟨10 ^ k, 1⟩)
theorem exactCheck64 : exactCheck Fmt.f64 23 = true := by decide +kernel
theorem exactCheck32 : exactCheck Fmt.f32 11 = true := by decide +kernel

/-- for k ≤ 22 the f64 bit pattern `rne (10^k)` is a finite number whose exact value is `10^k` -/
theorem pow10_representable64 : ∀ k : Nat, k ≤ 22 →
    pow10Bits Fmt.f64 k < Fmt.f64.infBits ∧ Q.eqv (decodeQ Fmt.f64 (pow10Bits Fmt.f64 k)) ⟨10 ^ k, 1⟩ := by
  intro k hk
  have h := exactCheck64
  unfold exactCheck at h
  rw [List.all_eq_true] at h
  have := h k (List.mem_range.2 (by omega))
  simpa using this
/-- for k ≤ 10 the f32 bit pattern `rne (10^k)` is a finite number whose exact value is `10^k` -/
theorem pow10_representable32 : ∀ k : Nat, k ≤ 10 →
    pow10Bits Fmt.f32 k < Fmt.f32.infBits ∧ Q.eqv (decodeQ Fmt.f32 (pow10Bits Fmt.f32 k)) ⟨10 ^ k, 1⟩ := by
  intro k hk
  have h := exactCheck32
  unfold exactCheck at h
  rw [List.all_eq_true] at h
  have := h k (List.mem_range.2 (by omega))
  simpa using this

-- ------------------------------------------------------------------ the main theorems
def tenCheck64 : Bool := (List.range 23).all fun k => powd ten64 (kf64 k) == some (pow10Bits Fmt.f64 k)
def tenCheck32 : Bool := (List.range 11).all fun k => powf ten32 (kf32 k) == some (pow10Bits Fmt.f32 k)
theorem tenCheck64_true : tenCheck64 = true := by decide +kernel
theorem tenCheck32_true : tenCheck32 = true := by decide +kernel

/-- the modelled `powd(10.0, k as f64)` returns exactly `10^k` for every k ≤ 22 -/
theorem powd_ten_exact : ∀ k : Nat, k ≤ 22 → powd ten64 (kf64 k) = some (pow10Bits Fmt.f64 k) := by
  intro k hk
  have h := tenCheck64_true
  unfold tenCheck64 at h
  rw [List.all_eq_true] at h
  exact eq_of_beq (h k (List.mem_range.2 (by omega)))
example : powd ten64 (kf64 22) = some 0x4480f0cf064dd592 := by decide +kernel

/-- the modelled `powf(10.0, k as f32)` returns exactly `10^k` for every k ≤ 10 -/
theorem powf_ten_exact : ∀ k : Nat, k ≤ 10 → powf ten32 (kf32 k) = some (pow10Bits Fmt.f32 k) := by
  intro k hk
  have h := tenCheck32_true
  unfold tenCheck32 at h
  rw [List.all_eq_true] at h
  exact eq_of_beq (h k (List.mem_range.2 (by omega)))
example : powf ten32 (kf32 10) = some 0x501502f9 := by decide +kernel

-- ------------------------------------------------------------------ link to the regenerated run data
/-- what the compiled `no_std + compact` crate returned IS what the model of the algorithm computes -/
theorem gen_eq_model64 :
    Gen.compactLibmPowFastPath64 = (List.range 23).map (fun k => (powd ten64 (kf64 k)).getD 0) := by
  decide +kernel
theorem gen_eq_model32 :
    Gen.compactLibmPowFastPath32 = (List.range 11).map (fun k => (powf ten32 (kf32 k)).getD 0) := by
  decide +kernel
/-- … and therefore the exact powers of ten -/
theorem gen_eq_pow10_64 : Gen.compactLibmPowFastPath64 = (List.range 23).map (pow10Bits Fmt.f64) := by
  decide +kernel
theorem gen_eq_pow10_32 : Gen.compactLibmPowFastPath32 = (List.range 11).map (pow10Bits Fmt.f32) := by
  decide +kernel

-- ------------------------------------------------------------------ sanity values (compared with the real code)
/-- powd(2, 10) = 1024 -/
example : powd (lit Fmt.f64 2 0) (lit Fmt.f64 10 0) = some (lit Fmt.f64 1024 0) := by decide +kernel
example : powd 0x4000000000000000 0x4024000000000000 = some 0x4090000000000000 := by decide +kernel
/-- powd(3, 5) = 243 -/
example : powd (lit Fmt.f64 3 0) (lit Fmt.f64 5 0) = some (lit Fmt.f64 243 0) := by decide +kernel
example : powd 0x4008000000000000 0x4014000000000000 = some 0x406e600000000000 := by decide +kernel
/-- powd(10, 23): `10^23` is NOT representable; the model returns 0x44b52d02c7e14af6
    (= 4950912855330343670, which happens to be the correctly rounded value) -/
example : powd ten64 (kf64 23) = some 0x44b52d02c7e14af6 := by decide +kernel
example : powd ten64 (kf64 23) = some (pow10Bits Fmt.f64 23) := by decide +kernel

/-- further values, all taken from a run of the REAL `libm.rs` (compiled separately): the three intervals of
    `k`, negative `x` with odd / even / non-integer `y`, subnormal `x`, subnormal and underflowing results,
    overflow, the `|y| > 2^31` branch, `x = ±0, +inf`, `y = -inf, -1, 2, 0.5` (sqrt), NaN arguments.
    Format: `(x bits, y bits, result bits or none for NaN)` -/
def sanityTable64 : List (Nat × Nat × Option Nat) :=
  [(4619567317775286272, 4613937818241073152, some 4644741736004845568),
   (13842939354630062080, 4613937818241073152, some 13868113772859621376),
   (13842939354630062080, 4616189618054758400, some 4657498269910302720),
   (13842939354630062080, 4599075939470750515, none),
   (12345, 4604930618986332160, some 1025097904895430554),
   (4611686018427387904, 13875812553277308928, some 1),
   (4611686018427387904, 13875706120551740211, some 13627334),
   (4611686018427387904, 4652218415073722368, some 9218868437227405312),
   (4611686018427387904, 4652214017027211264, some 9216230289645190092),
   (4611686018427387904, 13875814752300564480, some 0),
   (4611686018427387904, 13875819150347075584, some 0),
   (4607182418804211712, 4787326403894837248, some 9218868437227405312),
   (4607182418791628800, 4755801206503243776, some 4554823816864359836),
   (4609434218613702656, 4755801206503243776, some 9218868437227405312),
   (4602678819172646912, 14145806429570727936, some 9218868437227405312),
   (4607632778762754458, 13838886114965428634, some 4604505702373895959),
   (0, 13837309855095848960, some 9218868437227405312),
   (9223372036854775808, 13837309855095848960, some 18442240474082181120),
   (9218868437227405312, 13836183955189006336, some 0),
   (4599075939470750515, 18442240474082181120, some 9218868437227405312),
   (4621819117588971520, 13830554455654793216, some 4591870180066957722),
   (4607632778762754458, 4611686018427387904, some 4608128174721765213),
   (9221120237041090560, 0, some 4607182418800017408),
   (9221120237041090560, 4609434218613702656, none),
   (4616189618054758400, 4602678819172646912, some 4611686018427387904),
   (4621819117588971520, 4602678819172646912, some 4614303235046005587)]
def sanityTable32 : List (Nat × Nat × Option Nat) :=
  [(1088421888, 1077936128, some 1135312896),
   (3235905536, 1077936128, some 3282796544),
   (1073741824, 1092616192, some 1149239296),
   (1077936128, 1084227584, some 1131610112),
   (1092616192, 1093664768, some 1371161528),
   (1234, 1061158912, some 192387229),
   (1073741824, 3272966144, some 1),
   (1073741824, 3272363213, some 416),
   (1073741824, 1124073472, some 2139095040),
   (1073741824, 1124007936, some 2134181107),
   (1073741824, 3272998912, some 0),
   (1073741824, 3273064448, some 0),
   (1065353224, 1300234240, some 2139095040),
   (1065353208, 1300234240, some 0),
   (1069547520, 1300234240, some 2139095040),
   (1066192077, 3228355789, some 1060367442),
   (1056964608, 1056964608, some 1060439283)]
theorem sanity_values64_a : (sanityTable64.take 12).all (fun p => powd p.1 p.2.1 == p.2.2) = true := by
  decide +kernel
theorem sanity_values64_b : (sanityTable64.drop 12).all (fun p => powd p.1 p.2.1 == p.2.2) = true := by
  decide +kernel
theorem sanity_values64 : sanityTable64.all (fun p => powd p.1 p.2.1 == p.2.2) = true := by
  rw [← List.take_append_drop 12 sanityTable64, List.all_append, sanity_values64_a, sanity_values64_b]
  rfl
theorem sanity_values32 : sanityTable32.all (fun p => powf p.1 p.2.1 == p.2.2) = true := by decide +kernel

end MinLex.C14Libm
