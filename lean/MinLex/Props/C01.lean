/-
  C01 — `parse_float::<f64>` returns the IEEE-754 binary64 round-to-nearest-even of the exact
  decimal value, for every valid input of any length.

  * `C01_noncompact` : FULL theorem for every non-compact configuration (Eisel–Lemire moderate
    stage; std / no_std, alloc / stack vector): no hypothesis.
  * `C01_partial`    : the statement over ALL configurations, under the open Bellerophon contracts
    `Compose.OpenCompact Gen.F64` (only used when `cfg.compact = true`).
  * spec facts that make `rne Fmt.f64` "the IEEE function": the result is never a NaN and never
    carries the sign bit (`≤ 0x7FF0000000000000`), it is `+∞` exactly from `2^1024 − 2^970` on, it is
    `+0` exactly up to `2^-1075`, it is the identity on finite doubles, it is monotone, and a finite
    result is a nearest double (`rne_f64_nearest`), ties going to the even pattern.
-/
import MinLex.Proofs.Compose
namespace MinLex.C01
open MinLex MinLex.Main MinLex.Compose

/-- C01 over all configurations -/
def C01_statement : Prop :=
  ∀ (cfg : Cfg) (int frac : List UInt8) (e : Int), Valid int frac e →
    parseFloat (genEnv cfg) Gen.F64 int frac e = .ok (rne Fmt.f64 (digitsValue int frac e))

/-- C01 over the non-compact configurations -/
def C01_noncompact_statement : Prop :=
  ∀ (cfg : Cfg), cfg.compact = false → ∀ (int frac : List UInt8) (e : Int), Valid int frac e →
    parseFloat (genEnv cfg) Gen.F64 int frac e = .ok (rne Fmt.f64 (digitsValue int frac e))

/-- **C01, non-compact configurations: proved outright.** -/
theorem C01_noncompact : C01_noncompact_statement :=
  fun cfg hc int frac e hv => parseCorrect_noncompact cfg hc (Or.inr rfl) int frac e hv

/-- C01 over all configurations, under the open Bellerophon contracts. -/
theorem C01_partial (h : OpenCompact Gen.F64) : C01_statement :=
  fun cfg int frac e hv => parseCorrect_of_open cfg (Or.inr rfl) h int frac e hv

-- non-vacuity: "1.5", "0.1", a 25-digit input, 2^53+1 (a tie) through the theorem
example : parseFloat (genEnv ⟨false, true, true⟩) Gen.F64 [49] [53] 0 = .ok 0x3FF8000000000000 := by
  rw [C01_noncompact ⟨false, true, true⟩ rfl [49] [53] 0 (by decide)]
  decide +kernel
example : parseFloat (genEnv ⟨false, false, false⟩) Gen.F64 [] [49] 0 = .ok 0x3FB999999999999A := by
  rw [C01_noncompact ⟨false, false, false⟩ rfl [] [49] 0 (by decide)]
  decide +kernel
example : parseFloat (genEnv ⟨false, false, true⟩) Gen.F64
    [57, 48, 48, 55, 49, 57, 57, 50, 53, 52, 55, 52, 48, 57, 57, 51] [] 0 = .ok 0x4340000000000000 := by
  rw [C01_noncompact ⟨false, false, true⟩ rfl _ [] 0 (by decide)]
  decide +kernel

-- ------------------------------------------------------------------ the spec is IEEE binary64 RNE
theorem f64_infBits : Fmt.f64.infBits = 0x7FF0000000000000 := by decide

/-- never a NaN (`> 0x7FF0000000000000`), never the sign bit (`≥ 2^63`) -/
theorem rne_f64_le_inf (v : Q) : rne Fmt.f64 v ≤ 0x7FF0000000000000 ∧ rne Fmt.f64 v < 2^63 := by
  have := RneSpec.rne_le_inf Fmt.f64 v
  rw [f64_infBits] at this
  exact ⟨this, by omega⟩

theorem f64_infThreshold :
    ofDyadic (2^(Fmt.f64.mbits+2) - 1) ((2:Int)^(Fmt.f64.ebits-1) - 1 - Fmt.f64.mbits - 1)
      = ⟨2^1024 - 2^970, 1⟩ := by decide +kernel

theorem f64_zeroThreshold : ofDyadic 1 (Fmt.f64.kmin - 1) = ⟨1, 2^1075⟩ := by decide +kernel

/-- overflow: `+∞` exactly when `v ≥ 2^1024 − 2^970` (the midpoint between `f64::MAX` and `2^1024`;
    the tie goes to infinity) -/
theorem rne_f64_inf_iff {v : Q} (hv : 0 < v.den) :
    rne Fmt.f64 v = 0x7FF0000000000000 ↔ Q.le ⟨2^1024 - 2^970, 1⟩ v := by
  rw [← f64_infBits, RneSpec.rne_inf_iff Fmt.f64 (by decide) hv, f64_infThreshold]

/-- underflow: `+0` exactly when `v ≤ 2^-1075` (half the smallest subnormal; the tie goes to 0) -/
theorem rne_f64_zero_iff {v : Q} (hv : 0 < v.den) :
    rne Fmt.f64 v = 0 ↔ Q.le v ⟨1, 2^1075⟩ := by
  rw [RneSpec.rne_zero_iff Fmt.f64 (by decide) hv, f64_zeroThreshold]

/-- identity on finite doubles -/
theorem rne_f64_decode {b : Nat} (hb : b < 0x7FF0000000000000) : rne Fmt.f64 (decodeQ Fmt.f64 b) = b :=
  RneSpec.rne_decode Fmt.f64 (by rw [f64_infBits]; exact hb)

/-- a finite result is a nearest double: no bit pattern decodes to a value closer to `v` -/
theorem rne_f64_nearest {v : Q} (hv : 0 < v.den) (hfin : rne Fmt.f64 v < 0x7FF0000000000000) (b' : Nat) :
    abs (v.toRat - (decodeQ Fmt.f64 (rne Fmt.f64 v)).toRat) ≤ abs (v.toRat - (decodeQ Fmt.f64 b').toRat) :=
  RneSpec.rne_nearest Fmt.f64 hv (by rw [f64_infBits]; exact hfin) b'

/-- ties go to the even bit pattern -/
theorem rne_f64_tie {v : Q} (hv : 0 < v.den) {b : Nat} (hb : b < 0x7FF0000000000000)
    (h : Q.eqv v (midpoint Fmt.f64 b)) : rne Fmt.f64 v = if b % 2 = 0 then b else b + 1 := by
  have hb' : b < Fmt.f64.infBits := by rw [f64_infBits]; exact hb
  have hmd := midpoint_den_pos Fmt.f64 b
  have hm := midpoint_between Fmt.f64 b
  have h' := (Q.eqv_iff hv hmd).1 h
  have h1 : Q.le (decodeQ Fmt.f64 b) v := by
    rw [Q.le_iff (decodeQ_den_pos _ _) hv, h']; exact hm.1.le
  have h2 : Q.lt v (decodeQ Fmt.f64 (b + 1)) := by
    rw [Q.lt_iff hv (decodeQ_den_pos _ _), h']; exact hm.2
  have := (MinLex.rne_of_between Fmt.f64 hv hb' h1 h2).2.2 h
  rw [RneSpec.decode_parity Fmt.f64 (by decide)] at this
  exact this

example : rne Fmt.f64 ⟨2^53 + 1, 1⟩ = 0x4340000000000000 ∧
    Q.eqv ⟨2^53 + 1, 1⟩ (midpoint Fmt.f64 0x4340000000000000) := by decide +kernel

/-- all of it for the parse result (non-compact configurations): the outcome is `.ok b` with `b`
    a non-NaN, non-negative pattern, `+∞` / `+0` exactly beyond the thresholds -/
theorem C01_result_facts (cfg : Cfg) (hc : cfg.compact = false) (int frac : List UInt8) (e : Int)
    (hv : Valid int frac e) :
    ∃ b, parseFloat (genEnv cfg) Gen.F64 int frac e = .ok b ∧ b ≤ 0x7FF0000000000000 ∧ b < 2^63 ∧
      (b = 0x7FF0000000000000 ↔ Q.le ⟨2^1024 - 2^970, 1⟩ (digitsValue int frac e)) ∧
      (b = 0 ↔ Q.le (digitsValue int frac e) ⟨1, 2^1075⟩) :=
  ⟨_, C01_noncompact cfg hc int frac e hv, (rne_f64_le_inf _).1, (rne_f64_le_inf _).2,
    rne_f64_inf_iff (digitsValue_den_pos ..), rne_f64_zero_iff (digitsValue_den_pos ..)⟩

example : Valid [49] [53] 0 := by decide

end MinLex.C01
