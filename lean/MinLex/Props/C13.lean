/-
  Property C13: the fixed-capacity stack vector (`src/stackvec.rs`, `cap = some 62`) and the heap
  vector (`src/heapvec.rs`, `cap = none`) behave like a length-bounded sequence.

  Part 1 (abstract model `MinLex.Model.Bigint`):
    (a) `C13a_*`  the model state machine `vstep` = the obvious reference machine `rstep` on lists,
                  after every history;
    (b) `C13b_*`  `length ≤ c` is an invariant of every history (stack back-end);
    (c) `C13c_*`  a failing push / extend / resize / tryFrom / pop leaves the contents unchanged, and
                  fails exactly when the bound is exceeded; the heap back-end never fails;
    (d) `C13d_*`  `AllLt` (all limbs `< 2^64`) is preserved;
    (e) `C13e_*`  `compare` / `eq` are the numeric ones FOR NORMALISED operands;
    (f) examples: (e) is false without normalisation (recorded finding, DESIGN 9.3).
  Part 2 (low-level model `MinLex.Model.StackVecLow`, arbitrary initial buffer):
    (g) `C13g_*`  refinement of every operation and every history;
    (h) `C13h_*`  independence of the initial buffer contents (and of every fresh buffer);
    (i) `C13i_*`  independence even if all slots `≥ len` are re-scrambled after every step, i.e.
                  every slot `< len` that is ever observed was written since it last was `≥ len`.
-/
import MinLex.Proofs.Vec

namespace MinLex
namespace C13

-- ================================================================ (a) model = reference sequence

/-- (a) one step of the model is one step of the reference machine on plain lists -/
theorem C13a_step (cap : Option Nat) (x : Big) (op : VOp) : vstep cap x op = rstep cap x op :=
  vstep_eq_rstep cap x op

/-- (a) after ANY history the contents are the reference sequence -/
theorem C13a_history (cap : Option Nat) (x : Big) (ops : List VOp) :
    ops.foldl (fun s op => (vstep cap s op).1) x = ops.foldl (fun s op => (rstep cap s op).1) x :=
  vrun_eq_rrun cap x ops

/-- (a) … and so are the contents and the success flags after every intermediate step -/
theorem C13a_trace (cap : Option Nat) (x : Big) (ops : List VOp) :
    vtrace cap x ops = rtrace cap x ops :=
  vtrace_eq_rtrace cap x ops

/-- (a) the popped value is the last element -/
theorem C13a_pop_value (x : Big) : vpopVal x = x.getLast? := by
  unfold vpopVal vecPop
  cases x.getLast? <;> rfl

example : vrun (some 62) [] [.push 1, .push 2, .pop, .resize 3 7, .mulSmall 3, .extend [0, 0], .normalize]
    = [3, 21, 21] := by decide
example : rrun (some 62) [] [.push 1, .push 2, .pop, .resize 3 7, .mulSmall 3, .extend [0, 0], .normalize]
    = [3, 21, 21] := by decide

-- ================================================================ (b) length invariant

/-- (b) one step preserves `length ≤ c` -/
theorem C13b_step (c : Nat) (hc : 1 ≤ c) (x : Big) (op : VOp) (hx : x.length ≤ c) :
    (vstep (some c) x op).1.length ≤ c :=
  vstep_length_le c hc x op hx

/-- (b) invariant: starting from the empty vector, after ANY history the length is `≤ c` -/
theorem C13b_invariant (c : Nat) (hc : 1 ≤ c) (ops : List VOp) :
    (ops.foldl (fun s op => (vstep (some c) s op).1) []).length ≤ c :=
  vrun_length_le c hc [] ops (Nat.zero_le _)

/-- (b) the same at every intermediate step -/
theorem C13b_trace (c : Nat) (hc : 1 ≤ c) (x : Big) (hx : x.length ≤ c) (ops : List VOp) :
    ∀ p ∈ vtrace (some c) x ops, p.1.length ≤ c := by
  induction ops generalizing x with
  | nil => simp [vtrace]
  | cons op ops ih =>
    intro p hp
    simp only [vtrace, List.mem_cons] at hp
    rcases hp with rfl | hp
    · exact vstep_length_le c hc x op hx
    · exact ih _ (vstep_length_le c hc x op hx) p hp

/-- (b) the stack vector: never more than 62 limbs -/
theorem C13b_stack (ops : List VOp) : (vrun (some 62) [] ops).length ≤ 62 :=
  vrun_length_le 62 (by decide) [] ops (Nat.zero_le _)

/-- `1 ≤ c` is needed: `from_u64` pushes one limb and unwraps (the Rust code has
    `debug_assert!(vec.capacity() >= 2)`) -/
example : ¬ (vrun (some 0) [] [.fromU64 1]).length ≤ 0 := by decide

example : (vrun (some 2) [] [.push 1, .push 2, .push 3, .addSmall 5, .extend [1], .resize 3 0]).length ≤ 2 :=
  C13b_invariant 2 (by decide) _
example : vrun (some 2) [] [.push 1, .push 2, .push 3, .addSmall 5, .extend [1], .resize 3 0] = [6, 2] := by
  decide

-- ================================================================ (c) failure leaves the state alone

/-- the operations whose failure must not touch the contents -/
def VOp.Checked : VOp → Prop
  | .tryFrom _ | .push _ | .pop | .extend _ | .resize _ _ => True
  | _ => False

/-- (c) a failing push / extend / resize / tryFrom / pop returns the state unchanged -/
theorem C13c_fail_unchanged (cap : Option Nat) (x : Big) (op : VOp) (hop : op.Checked)
    (hf : (vstep cap x op).2 = false) : (vstep cap x op).1 = x := by
  rw [vstep_eq_rstep] at hf ⊢
  cases op <;> simp only [VOp.Checked] at hop <;> simp only [rstep] at hf ⊢ <;>
    split at hf <;> simp_all

/-- (c) `try_push` fails exactly when the vector is full -/
theorem C13c_push_fails_iff (cap : Option Nat) (x : Big) (v : Nat) :
    (vstep cap x (.push v)).2 = false ↔ ¬ fits cap (x.length + 1) := by
  rw [vstep_eq_rstep]; simp only [rstep]; split <;> simp_all

theorem C13c_extend_fails_iff (cap : Option Nat) (x s : Big) :
    (vstep cap x (.extend s)).2 = false ↔ ¬ fits cap (x.length + s.length) := by
  rw [vstep_eq_rstep]; simp only [rstep]; split <;> simp_all

theorem C13c_resize_fails_iff (cap : Option Nat) (x : Big) (n v : Nat) :
    (vstep cap x (.resize n v)).2 = false ↔ ¬ fits cap n := by
  rw [vstep_eq_rstep]; simp only [rstep]; split <;> simp_all

/-- (c) `add_small` / `mul_small` fail only if there is a carry limb and the vector is full; the
    limbs are then the in-place updated ones -/
theorem C13c_addSmall_fail (cap : Option Nat) (x : Big) (y : Nat)
    (hf : (vstep cap x (.addSmall y)).2 = false) :
    (vstep cap x (.addSmall y)).1 = (smallAddAux y x).1 ∧ (smallAddAux y x).2 ≠ 0 ∧
      ¬ fits cap (x.length + 1) := by
  rw [vstep_eq_rstep] at hf ⊢
  simp only [rstep] at hf ⊢
  split at hf
  · simp at hf
  · split at hf
    · simp at hf
    · simp_all

theorem C13c_mulSmall_fail (cap : Option Nat) (x : Big) (y : Nat)
    (hf : (vstep cap x (.mulSmall y)).2 = false) :
    (vstep cap x (.mulSmall y)).1 = (smallMulAux y 0 x).1 ∧ (smallMulAux y 0 x).2 ≠ 0 ∧
      ¬ fits cap (x.length + 1) := by
  rw [vstep_eq_rstep] at hf ⊢
  simp only [rstep] at hf ⊢
  split at hf
  · simp at hf
  · split at hf
    · simp at hf
    · simp_all

/-- heap variant: the same machine without the bound — nothing but `pop` on `[]` ever fails -/
theorem C13c_heap_never_fails (x : Big) (op : VOp) (h : op = .pop → x ≠ []) :
    (vstep none x op).2 = true := by
  rw [vstep_eq_rstep]
  cases op <;> simp only [rstep, fits] <;> (try split) <;> simp_all

example : vstep (some 2) [1, 2] (.push 3) = ([1, 2], false) := by decide
example : vstep (some 2) [B - 1, B - 1] (.addSmall 1) = ([0, 0], false) := by decide
example : vstep none [B - 1, B - 1] (.addSmall 1) = ([0, 0, 1], true) := by decide

-- ================================================================ (d) limbs stay limbs

/-- (d) every operation with limb arguments preserves "all limbs `< 2^64`" -/
theorem C13d_step (cap : Option Nat) (x : Big) (op : VOp) (hx : AllLt x) (ho : op.ArgsLt) :
    AllLt (vstep cap x op).1 :=
  vstep_allLt cap x op hx ho

theorem C13d_history (cap : Option Nat) (ops : List VOp) (ho : ∀ op ∈ ops, op.ArgsLt) :
    AllLt (ops.foldl (fun s op => (vstep cap s op).1) []) :=
  vrun_allLt cap [] ops allLt_nil ho

/-- numeric meaning of the shared limb arithmetic (what the carry limb is) -/
theorem C13d_addSmall_value (cap : Option Nat) (x z : Big) (y : Nat)
    (h : smallAdd cap x y = some z) : toNat z = toNat x + y := by
  have hn := smallAddAux_toNat y x
  simp only [smallAdd, smallAddFrom, List.drop_zero, List.take_zero, List.nil_append,
    vecTryPush] at h
  split at h
  · split at h
    · simp only [Option.some.injEq] at h
      rw [← h, toNat_append_single, smallAddAux_length]; linarith
    · simp at h
  · simp only [Option.some.injEq] at h
    simp_all

theorem C13d_mulSmall_value (cap : Option Nat) (x z : Big) (y : Nat)
    (h : smallMul cap x y = some z) : toNat z = toNat x * y := by
  have hn := smallMulAux_toNat y 0 x
  simp only [smallMul, vecTryPush] at h
  split at h
  · split at h
    · simp only [Option.some.injEq] at h
      rw [← h, toNat_append_single, smallMulAux_length]; linarith
    · simp at h
  · simp only [Option.some.injEq] at h
    simp_all

example : AllLt (vrun (some 62) [] [.push (B - 1), .mulSmall (B - 1), .addSmall (B - 1)]) :=
  C13d_history _ _ (by simp [VOp.ArgsLt, B])
example : vrun (some 62) [] [.push (B - 1), .mulSmall (B - 1), .addSmall (B - 1)] = [0, B - 1] := by
  decide

-- ================================================================ (e) comparison (normalised)

/-- (e) `bigint::compare` is numeric comparison for normalised operands -/
theorem C13e_compare (x y : Big) (hx : AllLt x) (hy : AllLt y)
    (nx : isNormalized x = true) (ny : isNormalized y = true) :
    bigCompare x y = compare (toNat x) (toNat y) :=
  bigCompare_eq_compare x y hx hy nx ny

/-- (e) the derived `PartialEq` (`len == len && deref == deref`) is numeric equality for normalised
    operands -/
theorem C13e_eq (x y : Big) (hx : AllLt x) (hy : AllLt y)
    (nx : isNormalized x = true) (ny : isNormalized y = true) :
    (x.length == y.length && x == y) = decide (toNat x = toNat y) := by
  by_cases h : toNat x = toNat y
  · have := toNat_inj x y hx hy nx ny h
    subst this; simp
  · have hne : x ≠ y := fun e => h (by rw [e])
    simp [h, hne]

/-- (e) equally long operands need no normalisation -/
theorem C13e_compare_same_length (x y : Big) (hx : AllLt x) (hy : AllLt y)
    (hl : x.length = y.length) : bigCompare x y = compare (toNat x) (toNat y) := by
  unfold bigCompare
  rw [if_neg (by omega), if_neg (by omega),
    cmpRev_eq_compare _ _ (by simpa using hl) (allLt_reverse hx) (allLt_reverse hy)]
  simp

/-- every vector produced by `normalize` is normalised, so (e) applies to it -/
theorem C13e_normalize_isNormalized (x : Big) : isNormalized (normalize x) = true := by
  rw [normalize_eq_stripZ]
  induction x with
  | nil => rfl
  | cons a xs ih =>
    simp only [stripZ]
    cases hs : stripZ xs with
    | nil =>
      by_cases ha : a = 0
      · simp [ha, isNormalized]
      · simp only [ha, if_false, isNormalized, List.getLast?_singleton]
        split
        · next h => simp at h; exact absurd h ha
        · rfl
    | cons b r =>
      rw [hs] at ih
      simpa [isNormalized, List.getLast?_cons_cons] using ih

example : AllLt [5, 1] ∧ AllLt [7] ∧ isNormalized [5, 1] = true ∧ isNormalized [7] = true ∧
    bigCompare [5, 1] [7] = .gt ∧ toNat [5, 1] > toNat [7] := by decide

-- ================================================================ (f) … and fails otherwise

/-- (f) FINDING (DESIGN 9.3): for un-normalised operands `compare` is NOT numeric comparison … -/
example : bigCompare [1, 0] [2] = .gt ∧ toNat [1, 0] < toNat [2] ∧
    compare (toNat [1, 0]) (toNat [2]) = .lt := by decide

/-- (f) … and `eq` is NOT numeric equality: the last clause of C13 is false of model and code alike
    without normalisation -/
example : ([1, 0] : Big) ≠ [1] ∧ toNat [1, 0] = toNat [1] ∧
    (([1, 0] : Big).length == ([1] : Big).length && ([1, 0] : Big) == [1]) = false := by decide

/-- (f) as a theorem: the un-normalised generalisation of (e) is false -/
theorem C13f_compare_needs_normalized :
    ¬ ∀ x y : Big, AllLt x → AllLt y → bigCompare x y = compare (toNat x) (toNat y) := by
  intro h
  exact absurd (h [1, 0] [2] (by decide) (by decide)) (by decide)

theorem C13f_eq_needs_normalized :
    ¬ ∀ x y : Big, AllLt x → AllLt y →
      (x.length == y.length && x == y) = decide (toNat x = toNat y) := by
  intro h
  exact absurd (h [1, 0] [1] (by decide) (by decide)) (by decide)

-- ================================================================ (g) refinement

/-- (g) every low-level operation, run on ANY buffer, refines the abstract operation -/
theorem C13g_step (g : Nat → Nat) (v : LowVec) (op : VOp) :
    ((lowStep g v op).1.deref, (lowStep g v op).2) = vstep (some 62) v.deref op :=
  lowStep_refines g v op

/-- (g) the primitive operations individually -/
theorem C13g_new (b : Nat → Nat) : (LowVec.new b).deref = [] := deref_new b
theorem C13g_tryPush (v : LowVec) (x : Nat) :
    (v.tryPush x).map LowVec.deref = vecTryPush (some 62) v.deref x := tryPush_refines v x
theorem C13g_pop (v : LowVec) :
    (v.pop).map (fun p => (p.1, p.2.deref)) = vecPop v.deref := pop_refines v
theorem C13g_tryExtend (v : LowVec) (s : List Nat) :
    (v.tryExtend s).map LowVec.deref = vecTryExtend (some 62) v.deref s := tryExtend_refines v s
theorem C13g_tryFrom (b : Nat → Nat) (s : List Nat) :
    (LowVec.tryFrom b s).map LowVec.deref = vecTryFrom (some 62) s := tryFrom_refines b s
theorem C13g_tryResize (v : LowVec) (n x : Nat) :
    (v.tryResize n x).map LowVec.deref = vecTryResize (some 62) v.deref n x :=
  tryResize_refines v n x
theorem C13g_normalize (v : LowVec) : v.normalize.deref = normalize v.deref := deref_normalize v
theorem C13g_fromU64 (b : Nat → Nat) (x : Nat) :
    (LowVec.fromU64 b x).map LowVec.deref = some (fromU64 x) := fromU64_refines b x
theorem C13g_len (v : LowVec) : v.len = v.deref.length := (deref_length v).symm

/-- (c)+(g) at the low level a failing checked operation does not touch the buffer or the length -/
theorem C13g_fail_untouched (g : Nat → Nat) (v : LowVec) (op : VOp) (hop : op.Checked)
    (hf : (lowStep g v op).2 = false) : (lowStep g v op).1 = v := by
  cases op <;> simp only [VOp.Checked] at hop <;> simp only [lowStep] at hf ⊢ <;>
    split at hf <;> simp_all

/-- (g) whole histories: visible contents and flags after every step are those of the abstract
    machine started on `[]`, whatever garbage the buffers contained -/
theorem C13g_history (scramble : Bool) (b : Nat → Nat) (ops : List VOp) (g : Nat → Nat → Nat) :
    (lowRun scramble (LowVec.new b) ops g).deref = vrun (some 62) [] ops := by
  rw [lowRun_refines, deref_new]

theorem C13g_trace (scramble : Bool) (b : Nat → Nat) (ops : List VOp) (g : Nat → Nat → Nat) :
    lowTrace scramble (LowVec.new b) ops g = vtrace (some 62) [] ops := by
  rw [lowTrace_refines, deref_new]

/-- (g) the precondition of `slice::from_raw_parts(ptr, len)` (S14/S15): `len ≤ 62` in every
    reachable low-level state -/
theorem C13g_len_le (scramble : Bool) (b : Nat → Nat) (ops : List VOp) (g : Nat → Nat → Nat) :
    (lowRun scramble (LowVec.new b) ops g).len ≤ 62 := by
  rw [C13g_len, C13g_history]; exact C13b_stack ops

example : (lowRun false (LowVec.new (fun i => 1000 + i))
      [.push 1, .push 2, .pop, .resize 3 7, .mulSmall 3, .extend [0, 0], .normalize]
      (fun k i => 77 * k + i)).deref = [3, 21, 21] := by decide

-- ================================================================ (h) independence

/-- (h) one step: equal visible contents before ⇒ equal visible contents, flag and popped value
    after, whatever the invisible slots and the fresh buffers contain -/
theorem C13h_step (g1 g2 : Nat → Nat) (v1 v2 : LowVec) (op : VOp) (h : v1.deref = v2.deref) :
    (lowStep g1 v1 op).1.deref = (lowStep g2 v2 op).1.deref ∧
    (lowStep g1 v1 op).2 = (lowStep g2 v2 op).2 ∧
    lowPopVal v1 = lowPopVal v2 := by
  have e1 := lowStep_refines g1 v1 op
  have e2 := lowStep_refines g2 v2 op
  rw [h] at e1
  have e := e1.trans e2.symm
  simp only [Prod.mk.injEq] at e
  refine ⟨e.1, e.2, ?_⟩
  rw [lowPopVal_refines, lowPopVal_refines, h]

/-- (h) independence of uninitialised memory: the same history run from two arbitrary initial
    buffers (and two arbitrary streams of fresh-buffer garbage) shows the same contents and the
    same success flags after EVERY step — no observable ever depends on a slot `≥ len` -/
theorem C13h_independent (b1 b2 : Nat → Nat) (g1 g2 : Nat → Nat → Nat) (ops : List VOp) :
    lowTrace false (LowVec.new b1) ops g1 = lowTrace false (LowVec.new b2) ops g2 := by
  rw [C13g_trace, C13g_trace]

theorem C13h_independent_final (b1 b2 : Nat → Nat) (g1 g2 : Nat → Nat → Nat) (ops : List VOp) :
    (lowRun false (LowVec.new b1) ops g1).deref = (lowRun false (LowVec.new b2) ops g2).deref ∧
    (lowRun false (LowVec.new b1) ops g1).len = (lowRun false (LowVec.new b2) ops g2).len := by
  have h : (lowRun false (LowVec.new b1) ops g1).deref = (lowRun false (LowVec.new b2) ops g2).deref := by
    rw [C13g_history, C13g_history]
  exact ⟨h, by rw [C13g_len, C13g_len, h]⟩

/-- the observers `len`, `is_empty`, `hi64`, `compare`, `eq`, `is_normalized` are functions of
    `deref` only (in the Rust code they take `&[Limb]` / go through `Deref`), hence independent too -/
theorem C13h_observers (b1 b2 : Nat → Nat) (g1 g2 : Nat → Nat → Nat) (ops : List VOp) (y : Big) :
    let w1 := lowRun false (LowVec.new b1) ops g1
    let w2 := lowRun false (LowVec.new b2) ops g2
    hi64 w1.deref = hi64 w2.deref ∧ bigCompare w1.deref y = bigCompare w2.deref y ∧
    isNormalized w1.deref = isNormalized w2.deref ∧ lowPopVal w1 = lowPopVal w2 := by
  intro w1 w2
  have h : w1.deref = w2.deref := (C13h_independent_final b1 b2 g1 g2 ops).1
  rw [lowPopVal_refines, lowPopVal_refines, h]
  exact ⟨rfl, rfl, rfl, rfl⟩

example :
    (lowRun false (LowVec.new (fun _ => 0)) [.resize 3 7, .pop, .pop, .resize 3 1] (fun _ _ => 0)).deref
    = (lowRun false (LowVec.new (fun i => 5 * i + 1)) [.resize 3 7, .pop, .pop, .resize 3 1]
        (fun k i => k + i)).deref := by decide

-- ================================================================ (i) written since last ≥ len

/-- (i) Even if an adversary overwrites ALL slots `≥ len` with fresh garbage after every single
    operation (so that a slot that drops out of the vector forgets its value), every history still
    shows the contents and flags of the abstract machine.  Hence every slot `< len` that is ever
    observed was written by an operation since it last was `≥ len`; nothing survives in the dead
    part of the buffer that the code relies on. -/
theorem C13i_scrambled (b : Nat → Nat) (g : Nat → Nat → Nat) (ops : List VOp) :
    lowTrace true (LowVec.new b) ops g = vtrace (some 62) [] ops :=
  C13g_trace true b ops g

/-- (i) stated as independence: scrambled and unscrambled runs from arbitrary buffers agree -/
theorem C13i_independent (b1 b2 : Nat → Nat) (g1 g2 : Nat → Nat → Nat) (ops : List VOp) :
    lowTrace true (LowVec.new b1) ops g1 = lowTrace false (LowVec.new b2) ops g2 := by
  rw [C13g_trace, C13g_trace]

/-- the scrambling really changes the dead slots (the statement is not vacuous) -/
example : (lowRun true (LowVec.new (fun _ => 0)) [.push 5, .pop] (fun _ _ => 9)).buf 0 = 9 ∧
    (lowRun false (LowVec.new (fun _ => 0)) [.push 5, .pop] (fun _ _ => 9)).buf 0 = 5 := by decide

end C13
end MinLex
