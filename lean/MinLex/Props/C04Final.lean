/-
  C04, final form: on valid input `parse_float` never panics and no overflow check / debug assertion of
  a checked build fires (`parseFloatTraps = false`), for ALL eight feature configurations and both
  formats.  No hypothesis is left.

    non-compact   `C04.C04_lemire`, the hand-off fact `−64 ≤ exp` coming from `NoAllOnes.modEst_genEnv_*`
                  (through `Compose.hyps_noncompact`)
    compact       `parseFloatTraps` has no Lemire term; a declined Bellerophon estimate satisfies `EstOK`
                  (`BellerophonSound.modEst_bellerophon`), hence `C04.C04_slowBranch`; a definite
                  Bellerophon answer is `Definite` (`bellerophon_definite`, new here) and packs without
                  tripping `f32::from_bits`'s assertion.
    Bellerophon's own debug assertions (`mul`: top 32 bits non-zero; `error_is_accurate`: `exp ≥ −64`)
    are not part of `parseFloatTraps`; they are re-exported as `C04_bellerophon_asserts`.
-/
import MinLex.Props.Final
namespace MinLex.C04Final
open MinLex MinLex.Main MinLex.Bel MinLex.BellerophonSound

/-- every answer of Bellerophon with a non-negative exponent (i.e. not declined) on a denoting,
    well-shaped `Number` is a definite float: `0 ≤ exp ≤ INFINITE_POWER`, significand below the hidden
    bit (or the subnormal carry), zero significand at infinity -/
theorem bellerophon_definite {F : FloatC} (c : Covered F) (n : Number) (v : Q) (fp : ExtFloat)
    (hd : Denotes n v) (hok : NumOK n) (hb : bellerophon genBel F n = some fp) (hexp : 0 ≤ fp.exp) :
    LemireP.Definite F fp := by
  have h := c.wf
  have hbias := c.bias_le
  rcases bellerophon_cases F n with ⟨_, hr⟩ | ⟨_, _, hr⟩ | ⟨hw, s, l, sFp, lFp, hs, hl, hq, hsf, hlf, hr⟩
  · rw [hr] at hb; cases hb; exact LemireP.definite_zero h
  · rw [hr] at hb; cases hb; exact LemireP.definite_inf h
  · rw [hr] at hb; cases hb
    obtain ⟨_, a1, a2, _, a5, r1, r2, d, _, d2, lo, hi⟩ := main_ctx F hd hok hw hs hl hq hsf hlf
    generalize stage F n (10 ^ s) sFp lFp = st at *
    obtain ⟨⟨M, E⟩, e⟩ := st
    dsimp only at a1 a2 a5 d2 lo hi
    obtain ⟨_, hj⟩ := exp_range a1 a2 a5 d2 lo hi r1 r2
    unfold finish at hexp ⊢
    dsimp only at hexp ⊢
    by_cases c1 : -E + 1 > 65
    · rw [if_pos c1]; exact LemireP.definite_zero h
    rw [if_neg c1] at hexp ⊢
    by_cases c2 : (!errorIsAccurate F e ⟨M, E⟩) = true
    · rw [if_pos c2] at hexp
      dsimp only at hexp
      rw [h.invalid] at hexp
      omega
    rw [if_neg c2]
    by_cases c3 : -E + 1 = 65
    · rw [if_pos c3]; exact LemireP.definite_zero h
    rw [if_neg c3]
    exact Sites.round_nearest_definite h _ ⟨M, E⟩ a2

/-- C04 (checked-build half) for the non-compact configurations: `C04.C04_lemire` with its hand-off
    hypothesis discharged by `NoAllOnes` (via `Compose.hyps_noncompact`) -/
theorem C04_traps_noncompact (cfg : Cfg) (hc : cfg.compact = false) {F : FloatC}
    (hF : F = Gen.F32 ∨ F = Gen.F64) (int frac : List UInt8) (e : Int) (hv : Valid int frac e) :
    parseFloatTraps (genEnv cfg) F int frac e = false := by
  obtain ⟨hd, hok⟩ := Compose.pn_genEnv cfg int frac e hv
  have hH := Compose.hyps_noncompact cfg hc hF
  refine C04.C04_lemire cfg hc hF hv hok.1 (fun hm => ?_) (fun fp hfp hneg => ?_)
  · have := hok.2.1 hm; omega
  · rw [← Compose.moderatePath_noncompact cfg hc] at hfp
    exact (hH.modEst _ _ fp hd hok hfp hneg).2.2.1

/-- C04 (checked-build half) for the compact (Bellerophon) configurations -/
theorem C04_traps_compact (cfg : Cfg) (hc : cfg.compact = true) {F : FloatC}
    (hF : F = Gen.F32 ∨ F = Gen.F64) (int frac : List UInt8) (e : Int) (hv : Valid int frac e) :
    parseFloatTraps (genEnv cfg) F int frac e = false := by
  have hcov : Covered F ∧ F.mantissaSize ≤ 52 := by
    rcases hF with rfl | rfl
    · exact ⟨covered_f32, by decide⟩
    · exact ⟨covered_f64, by decide⟩
  have hinf : 0 ≤ F.infinitePower := by rcases hF with rfl | rfl <;> decide
  obtain ⟨hd, hok⟩ := Compose.pn_genEnv cfg int frac e hv
  rw [C04.parseFloatTraps_eq, C04.C04a_parseNumber hv, Bool.false_or]
  generalize parseNumber int frac e = num at hd hok ⊢
  split
  · rfl
  · have hcfg : (genEnv cfg).cfg.compact = true := hc
    rw [hcfg, Compose.moderatePath_compact cfg hc]
    simp only [if_true, Bool.false_or]
    obtain ⟨fp, hfp⟩ := bellerophon_total F num
    rw [hfp]
    simp only []
    have h19 : (10 : Nat) ^ 19 < 2 ^ 64 := by norm_num
    by_cases hneg : fp.exp < 0
    · rw [if_pos hneg]
      obtain ⟨e1, e2, e3, _⟩ := modEst_bellerophon hcov.1 hcov.2 num _ fp hd hok hfp hneg
      obtain ⟨_, r2, r3⟩ := Compose.bellerophon_range hinf hfp hneg
      exact C04.C04_slowBranch (E := genEnv cfg) (fp1 := ⟨fp.mant, wrapI32 (fp.exp - F.invalidFp)⟩) hF
        (Sites.genPow_tablesLt cfg.compact) (by have := hok.1; omega) (by omega) (by omega) e1 e2 e3
        hv.1 hv.2.1
    · rw [if_neg hneg]
      exact C04.C04c_definite hcov.1.wf
        (bellerophon_definite hcov.1 num _ fp hd hok hfp (by omega))

/-- **C04, checked-build half, every configuration**: no overflow check, no debug assertion -/
theorem C04_traps_all (cfg : Cfg) {F : FloatC} (hF : F = Gen.F32 ∨ F = Gen.F64)
    (int frac : List UInt8) (e : Int) (hv : Valid int frac e) :
    parseFloatTraps (genEnv cfg) F int frac e = false := by
  cases hc : cfg.compact with
  | false => exact C04_traps_noncompact cfg hc hF int frac e hv
  | true => exact C04_traps_compact cfg hc hF int frac e hv

/-- **C04 (final).**  For every feature configuration (std × compact × alloc), f32 and f64, and every
    valid input: the release build returns a value (never panics), and a build with overflow checks and
    debug assertions would not panic either. -/
theorem C04_final (cfg : Cfg) {F : FloatC} (hF : F = Gen.F32 ∨ F = Gen.F64)
    (int frac : List UInt8) (e : Int) (hv : Valid int frac e) :
    parseFloat (genEnv cfg) F int frac e ≠ .panic ∧ parseFloatTraps (genEnv cfg) F int frac e = false :=
  ⟨Final.C04_no_panic cfg hF int frac e hv, C04_traps_all cfg hF int frac e hv⟩

def C04_statement : Prop :=
  ∀ (cfg : Cfg) (F : FloatC), F = Gen.F32 ∨ F = Gen.F64 → ∀ (int frac : List UInt8) (e : Int),
    Valid int frac e →
    parseFloat (genEnv cfg) F int frac e ≠ .panic ∧ parseFloatTraps (genEnv cfg) F int frac e = false

theorem C04 : C04_statement := fun cfg _ hF int frac e hv => C04_final cfg hF int frac e hv

/-- **Bellerophon's internal debug assertions** (not part of `parseFloatTraps`).  On the main path of
    `bellerophon` (non-zero `u64` significand, both table look-ups in range):
    (1) every operand handed to `mul` has non-zero top 32 bits (`debug_assert!(x.mant >> 32 != 0)`):
        the normalised `w`, the small-power entry, the result of the small-power step, the
        large-power entry;
    (2) `error_is_accurate` is never consulted with `exp < −64`
        (`debug_assert!(fp.exp >= -64)`): below `−64` the tail returns zero first. -/
theorem C04_bellerophon_asserts :
    (∀ {num : Number} {s l : Nat} {sFp lFp : ExtFloat},
      num.mantissa ≠ 0 → num.mantissa < 2 ^ 64 → s < 10 → l < 66 →
      genBel.getSmall s = some sFp → genBel.getLarge l = some lFp →
      (belNormalize ⟨num.mantissa, 0⟩).1.mant >>> 32 ≠ 0 ∧ sFp.mant >>> 32 ≠ 0 ∧
      (stage1 num (10 ^ s) sFp).1.mant >>> 32 ≠ 0 ∧ lFp.mant >>> 32 ≠ 0) ∧
    (∀ (F : FloatC) (fp4 : ExtFloat) (e : Nat), fp4.exp < -64 → finish F fp4 e = ⟨0, 0⟩) :=
  ⟨fun hw0 hw64 hs hl hsf hlf => B2_mul_asserts hw0 hw64 hs hl hsf hlf, B2_acc_guard⟩

/-- … and the main path is the only place where `mul` / `error_is_accurate` are reached: every call of
    `bellerophon` is an early return or `finish (stage …)` with in-range indices (`B2_cases`), and the
    significand of a valid input is a `u64` -/
theorem C04_bellerophon_main_path (F : FloatC) {int frac : List UInt8} {e : Int} (hv : Valid int frac e) :
    (parseNumber int frac e).mantissa < 2 ^ 64 ∧
    (((parseNumber int frac e).mantissa = 0 ∨ (parseNumber int frac e).exponent ≤ -351) ∧
        bellerophon genBel F (parseNumber int frac e) = some ⟨0, 0⟩ ∨
     ((parseNumber int frac e).mantissa ≠ 0 ∧ 310 ≤ (parseNumber int frac e).exponent ∧
        bellerophon genBel F (parseNumber int frac e) = some ⟨0, F.infinitePower⟩) ∨
     ((parseNumber int frac e).mantissa ≠ 0 ∧ ∃ (s l : Nat) (sFp lFp : ExtFloat), s < 10 ∧ l < 66 ∧
        (parseNumber int frac e).exponent = (s : Int) + (l : Int) * 10 - 350 ∧
        genBel.getSmall s = some sFp ∧ genBel.getLarge l = some lFp ∧
        bellerophon genBel F (parseNumber int frac e) =
          some (finish F (stage F (parseNumber int frac e) (10 ^ s) sFp lFp).1
            (stage F (parseNumber int frac e) (10 ^ s) sFp lFp).2))) := by
  have hok := Compose.numOK_parseNumber hv
  have h19 : (10 : Nat) ^ 19 < 2 ^ 64 := by norm_num
  exact ⟨by have := hok.1; omega, B2_cases F _⟩

-- ------------------------------------------------------------------ non-vacuity
/-- compact + no_std + stack, f64, the input that exposed the repaired Bellerophon defect (declined
    estimate, big-integer path) -/
example : parseFloat (genEnv ⟨true, false, false⟩) Gen.F64 [49]
      [49, 52, 51, 56, 56, 50, 51, 55, 52, 51, 52, 55, 52, 54, 53, 48, 55, 53, 57, 55, 55, 57, 56, 51, 49] (-306)
      ≠ .panic ∧
    parseFloatTraps (genEnv ⟨true, false, false⟩) Gen.F64 [49]
      [49, 52, 51, 56, 56, 50, 51, 55, 52, 51, 52, 55, 52, 54, 53, 48, 55, 53, 57, 55, 55, 57, 56, 51, 49] (-306)
      = false :=
  C04_final _ (Or.inr rfl) _ _ _ (by decide)

/-- non-compact, f32, an input on which Eisel–Lemire declines -/
example : Valid [49, 56, 51, 52, 51, 52, 52, 48, 51, 48, 57, 56, 55, 52, 49, 57, 49, 56, 56, 55] [] (-59) ∧
    parseFloatTraps (genEnv ⟨false, true, true⟩) Gen.F32
      [49, 56, 51, 52, 51, 52, 52, 48, 51, 48, 57, 56, 55, 52, 49, 57, 49, 56, 56, 55] [] (-59) = false :=
  ⟨by decide, C04_traps_all _ (Or.inl rfl) _ _ _ (by decide)⟩

/-- the trap flag is not constantly false: non-digit bytes raise it -/
example : parseFloatTraps (genEnv ⟨true, false, false⟩) Gen.F64 [47] [] 0 = true := by decide +kernel

end MinLex.C04Final
