/-
  Specification theorems for the digit-accumulation front: `parse_number_fast`, `parse_number`
  (src/parse.rs) and `Number::is_fast_path` / `try_fast_path` (src/number.rs).

  Everything is stated over ALL digit lists (no bound on the lengths beyond `Valid`).
-/
import MinLex.Proofs.ParseNumber
import MinLex.Model.Env
namespace MinLex
open ParseNum

-- ================================================================ 1. digit arithmetic
/-- `c - b'0'` is the digit value, is at most 9, and never underflows on an ASCII digit. -/
theorem digit_arith (c : UInt8) (h : isDigit c = true) :
    digitOf c = digitVal c ∧ digitVal c ≤ 9 ∧ digitTraps c = false :=
  ⟨digitOf_eq h, digitVal_le h, digitTraps_eq h⟩

/-- Wrapping accumulation (`wrapping_mul(10).wrapping_add(d)`) over any digit list is the exact
    accumulation modulo 2^64.  (`m < 2^64` is needed only for `ds = []`, where `accWrap m [] = m`.) -/
theorem accWrap_spec {m : Nat} {ds : List UInt8} (hm : m < 2 ^ 64)
    (hd : ∀ c ∈ ds, isDigit c = true) :
    accWrap m ds = (m * 10 ^ ds.length + ofDigits ds) % 2 ^ 64 :=
  accWrap_eq (by unfold u64Mod; omega) hd

/-- No wrap when the total is below `10^19` (which is below `2^64`). -/
theorem accWrap_exact {m : Nat} {ds : List UInt8} (hd : ∀ c ∈ ds, isDigit c = true)
    (h : m * 10 ^ ds.length + ofDigits ds < 10 ^ 19) :
    accWrap m ds = m * 10 ^ ds.length + ofDigits ds ∧ (10 : Nat) ^ 19 ≤ 2 ^ 64 :=
  ⟨accWrap_nowrap hd (by have := pow19_lt_u64; omega), by norm_num⟩

example : accWrap 12 [51, 52] = 1234 ∧ 12 * 10 ^ 2 + ofDigits [51, 52] < 10 ^ 19 := by decide

/-- `ofDigits` of a digit list of length `n` is below `10^n`; `ofDigits (a ++ b)` splits. -/
theorem ofDigits_facts (a b : List UInt8) (ha : ∀ c ∈ a, isDigit c = true) :
    ofDigits a < 10 ^ a.length ∧ ofDigits (a ++ b) = ofDigits a * 10 ^ b.length + ofDigits b :=
  ⟨ofDigits_lt ha, ofDigits_append a b⟩

-- ================================================================ 2. parse_number
/-- 2(a): at most 19 digits in total: the mantissa is the whole digit string, nothing is dropped. -/
theorem parseNumber_spec_short {int frac : List UInt8} {e : Int} (h : Valid int frac e)
    (hl : int.length + frac.length ≤ 19) :
    (parseNumber int frac e).manyDigits = false ∧
    (parseNumber int frac e).mantissa = ofDigits (int ++ frac) ∧
    (parseNumber int frac e).exponent = satI32 (e - frac.length) ∧
    asI32 frac.length = frac.length := by
  have hs : (sigDigits int frac).length ≤ 19 := by
    have := sigDigits_length_le int frac; omega
  rw [(parseNumber_few_aux h hs).1, ofDigits_sigDigits]
  exact ⟨rfl, rfl, rfl, asI32_small (by have := h.2.2.2.2.1; omega)⟩

example : Valid [49, 50] [48, 51] 5 ∧ [49, 50].length + [48, 51].length ≤ 19 := by decide

/-- `sigDigits int frac` is `int ++ frac` with leading zeros stripped; under `Valid` zeros can only
    be stripped when `int = []`. -/
theorem sigDigits_facts {int frac : List UInt8} {e : Int} (h : Valid int frac e) :
    (int ≠ [] → sigDigits int frac = int ++ frac) ∧
    (int = [] → sigDigits int frac = frac.dropWhile (fun c => c == 48)) ∧
    (∀ c rest, sigDigits int frac = c :: rest → c ≠ 48) ∧
    ofDigits (sigDigits int frac) = ofDigits (int ++ frac) ∧
    (∀ c ∈ sigDigits int frac, isDigit c = true) := by
  refine ⟨?_, ?_, fun c rest hc => dropZeros_head _ c rest hc, ofDigits_sigDigits int frac,
    AllDigits.sigDigits (valid_allInt h) (valid_allFrac h)⟩
  · intro hne
    cases int with
    | nil => exact absurd rfl hne
    | cons c int =>
      have h0 : c ≠ 48 := by intro hc; subst hc; exact h.2.2.1 rfl
      exact sigDigits_cons int frac h0
  · intro hnil; subst hnil; rfl

/-- 2(b), at most 19 significant digits: exact mantissa, exponent `sat(e - |frac|)`. -/
theorem parseNumber_spec_few {int frac : List UInt8} {e : Int} (h : Valid int frac e)
    (hs : (sigDigits int frac).length ≤ 19) :
    (parseNumber int frac e).manyDigits = false ∧
    (parseNumber int frac e).mantissa = ofDigits (sigDigits int frac) ∧
    (parseNumber int frac e).exponent = satI32 (e - frac.length) := by
  rw [(parseNumber_few_aux h hs).1]
  exact ⟨rfl, rfl, rfl⟩

-- 25 digits in total, 6 leading fraction zeros, 19 significant digits
example : Valid [] (List.replicate 6 48 ++ List.replicate 19 55) 0 ∧
    (sigDigits [] (List.replicate 6 48 ++ List.replicate 19 55)).length ≤ 19 := by decide

/-- 2(b), more than 19 significant digits: the mantissa is the first 19 significant digits (so it
    lies in `[10^18, 10^19)`), `many_digits` is set, and the exponent accounts for the dropped
    digits, saturated once. -/
theorem parseNumber_spec_many {int frac : List UInt8} {e : Int} (h : Valid int frac e)
    (hs : 19 < (sigDigits int frac).length) :
    (parseNumber int frac e).manyDigits = true ∧
    (parseNumber int frac e).mantissa = ofDigits ((sigDigits int frac).take 19) ∧
    10 ^ 18 ≤ (parseNumber int frac e).mantissa ∧ (parseNumber int frac e).mantissa < 10 ^ 19 ∧
    (parseNumber int frac e).exponent =
      satI32 (e - frac.length + (((sigDigits int frac).length : Int) - 19)) := by
  have hb := take19_bounds (AllDigits.sigDigits (valid_allInt h) (valid_allFrac h)) hs
    (fun c rest hc => dropZeros_head _ c rest hc)
  rw [(parseNumber_many_aux h hs).1]
  refine ⟨rfl, rfl, hb.1, hb.2, ?_⟩
  show satI32 (trueExp int frac e) = _
  unfold trueExp
  congr 1; omega

example : Valid [49] (List.replicate 6 48 ++ List.replicate 19 55) 0 ∧
    19 < (sigDigits [49] (List.replicate 6 48 ++ List.replicate 19 55)).length := by decide

/-- The exponent before saturation: `e - |frac| + max 0 (|sig| - 19)`. -/
theorem trueExp_eq (int frac : List UInt8) (e : Int) :
    trueExp int frac e = e - frac.length + max 0 (((sigDigits int frac).length : Int) - 19) := by
  unfold trueExp; omega

/-- 2(b) in one formula. -/
theorem parseNumber_spec {int frac : List UInt8} {e : Int} (h : Valid int frac e) :
    parseNumber int frac e =
      ⟨satI32 (trueExp int frac e), ofDigits ((sigDigits int frac).take 19),
        decide (19 < (sigDigits int frac).length)⟩ :=
  parseNumber_closed h

/-- 2(d): a checked build (overflow checks on) never traps in `parse_number` on valid input. -/
theorem parseNumberTraps_valid {int frac : List UInt8} {e : Int} (h : Valid int frac e) :
    parseNumberTraps int frac e = false := by
  by_cases hs : (sigDigits int frac).length ≤ 19
  · exact (parseNumber_few_aux h hs).2
  · exact (parseNumber_many_aux h (by omega)).2

/-- 2(c): the triple denotes the value.  With `x` the unsaturated exponent:
    `mantissa·10^x ≤ value < (mantissa+1)·10^x`, with equality on the left iff all dropped digits
    (those after the first 19 significant ones) are zero. -/
theorem parseNumber_value {int frac : List UInt8} {e : Int} (h : Valid int frac e) :
    let n := parseNumber int frac e
    let x := trueExp int frac e
    Q.le (ofDec n.mantissa x) (digitsValue int frac e) ∧
    Q.lt (digitsValue int frac e) (ofDec (n.mantissa + 1) x) ∧
    (Q.eqv (ofDec n.mantissa x) (digitsValue int frac e) ↔
      ∀ c ∈ (sigDigits int frac).drop 19, c = 48) := by
  intro n x
  have hd := AllDigits.sigDigits (valid_allInt h) (valid_allFrac h)
  have hb := value_bracket hd 19 (e - frac.length)
  have hn : n.mantissa = ofDigits ((sigDigits int frac).take 19) := by
    show (parseNumber int frac e).mantissa = _
    rw [parseNumber_closed h]
  rw [hn]
  unfold digitsValue
  rw [← ofDigits_sigDigits, ← ofDigits_eq_zero_iff (AllDigits.drop 19 hd)]
  exact hb

/-- 2(c) with the exponent actually stored, when the saturation does not trigger. -/
theorem parseNumber_value_unsat {int frac : List UInt8} {e : Int} (h : Valid int frac e)
    (h1 : i32Min ≤ trueExp int frac e) (h2 : trueExp int frac e ≤ i32Max) :
    let n := parseNumber int frac e
    n.exponent = trueExp int frac e ∧
    Q.le (ofDec n.mantissa n.exponent) (digitsValue int frac e) ∧
    Q.lt (digitsValue int frac e) (ofDec (n.mantissa + 1) n.exponent) ∧
    (Q.eqv (ofDec n.mantissa n.exponent) (digitsValue int frac e) ↔
      ∀ c ∈ (sigDigits int frac).drop 19, c = 48) ∧
    (n.manyDigits = false → ofDec n.mantissa n.exponent = digitsValue int frac e ∧
      Q.eqv (ofDec n.mantissa n.exponent) (digitsValue int frac e)) := by
  intro n
  have hx : n.exponent = trueExp int frac e := by
    show (parseNumber int frac e).exponent = _
    rw [parseNumber_closed h]
    show satI32 _ = _
    unfold satI32
    rw [if_neg (by omega), if_neg (by omega)]
  have hv := parseNumber_value h
  simp only at hv
  rw [hx]
  refine ⟨rfl, hv.1, hv.2.1, hv.2.2, ?_⟩
  intro hm
  have hs : (sigDigits int frac).length ≤ 19 := by
    have : n.manyDigits = decide (19 < (sigDigits int frac).length) := by
      show (parseNumber int frac e).manyDigits = _
      rw [parseNumber_closed h]
    rw [this] at hm
    simpa using hm
  have he : ofDec n.mantissa (trueExp int frac e) = digitsValue int frac e := by
    show ofDec (parseNumber int frac e).mantissa _ = _
    rw [(parseNumber_few_aux h hs).1, trueExp_few hs, ofDigits_sigDigits]
    rfl
  exact ⟨he, by rw [he]; rfl⟩

example : Valid [49] (List.replicate 6 48 ++ List.replicate 19 55) 0 ∧
    i32Min ≤ trueExp [49] (List.replicate 6 48 ++ List.replicate 19 55) 0 ∧
    trueExp [49] (List.replicate 6 48 ++ List.replicate 19 55) 0 ≤ i32Max := by decide

-- ================================================================ 3. C10: moving the decimal point
/-- Moving the decimal point one place with a compensating exponent gives the SAME `Number`.
    Only validity of both sides is needed (each result exponent is one saturating operation applied
    to exact operands, so no "no saturation" side condition is necessary). -/
theorem parseNumber_resplit {int frac : List UInt8} {c : UInt8} {e : Int}
    (h1 : Valid (int ++ [c]) frac e) (h2 : Valid int (c :: frac) (e + 1)) :
    parseNumber (int ++ [c]) frac e = parseNumber int (c :: frac) (e + 1) := by
  rw [parseNumber_closed h1, parseNumber_closed h2]
  have hs : sigDigits (int ++ [c]) frac = sigDigits int (c :: frac) := by
    unfold sigDigits; rw [List.append_assoc]; rfl
  have hx : trueExp (int ++ [c]) frac e = trueExp int (c :: frac) (e + 1) := by
    unfold trueExp; rw [hs, List.length_cons]; omega
  rw [hs, hx]

example : Valid ([49, 50] ++ [51]) [52] 7 ∧ Valid [49, 50] (51 :: [52]) (7 + 1) := by decide

-- ================================================================ 4. C07: saturation
/-- Saturation at the bottom: the stored exponent is `i32::MIN`; the exact value and the stored
    `mantissa·10^exponent` are both below `10^t` for every `t ≥ -2^31 + 19`. -/
theorem parseNumber_saturates_low {int frac : List UInt8} {e : Int} (h : Valid int frac e)
    (hx : trueExp int frac e < i32Min) :
    let n := parseNumber int frac e
    n.exponent = i32Min ∧
    ∀ t : Int, i32Min + 19 ≤ t →
      Q.lt (digitsValue int frac e) (ofDec 1 t) ∧ Q.lt (ofDec n.mantissa n.exponent) (ofDec 1 t) := by
  intro n
  have hd := AllDigits.sigDigits (valid_allInt h) (valid_allFrac h)
  have hn : n = ⟨satI32 (trueExp int frac e), ofDigits ((sigDigits int frac).take 19),
      decide (19 < (sigDigits int frac).length)⟩ := parseNumber_closed h
  have hexp : n.exponent = i32Min := by
    rw [hn]; show satI32 _ = _; unfold satI32; rw [if_pos hx]
  refine ⟨hexp, fun t ht => ⟨?_, ?_⟩⟩
  · unfold digitsValue
    rw [← ofDigits_sigDigits]
    apply ofDec_lt_pow (ofDigits_lt hd)
    unfold trueExp at hx
    omega
  · rw [hexp]
    have hm : n.mantissa < 10 ^ 19 := by
      rw [hn]; show ofDigits _ < _
      have h1 := ofDigits_lt (AllDigits.take 19 hd)
      have h2 : (10 : Nat) ^ ((sigDigits int frac).take 19).length ≤ 10 ^ 19 :=
        Nat.pow_le_pow_right (by omega) (by rw [List.length_take]; omega)
      omega
    exact ofDec_lt_pow hm (by omega)

/-- Saturation at the top: it needs more than 19 significant digits; the stored exponent is
    `i32::MAX`, the mantissa is at least `10^18`; the exact value and the stored
    `mantissa·10^exponent` are both at least `10^t` for every `t ≤ 2^31 - 1 + 18`. -/
theorem parseNumber_saturates_high {int frac : List UInt8} {e : Int} (h : Valid int frac e)
    (hx : i32Max < trueExp int frac e) :
    let n := parseNumber int frac e
    n.exponent = i32Max ∧ n.manyDigits = true ∧ 10 ^ 18 ≤ n.mantissa ∧
    ∀ t : Int, t ≤ i32Max + 18 →
      Q.le (ofDec 1 t) (digitsValue int frac e) ∧ Q.le (ofDec 1 t) (ofDec n.mantissa n.exponent) := by
  intro n
  have hd := AllDigits.sigDigits (valid_allInt h) (valid_allFrac h)
  have hs : 19 < (sigDigits int frac).length := by
    by_contra hc
    have := trueExp_few (int := int) (frac := frac) (e := e) (by omega)
    have he := h.2.2.2.2.2.2
    omega
  have hm := parseNumber_spec_many h hs
  have hexp : n.exponent = i32Max := by
    show (parseNumber int frac e).exponent = _
    rw [parseNumber_closed h]; show satI32 _ = _; unfold satI32
    have : i32Min ≤ i32Max := by decide
    rw [if_neg (by omega), if_pos hx]
  refine ⟨hexp, hm.1, hm.2.2.1, fun t ht => ⟨?_, ?_⟩⟩
  · unfold digitsValue
    rw [← ofDigits_sigDigits]
    have hsplit := ofDigits_split (sigDigits int frac) 19
    have hge : 10 ^ (18 + ((sigDigits int frac).length - 19)) ≤ ofDigits (sigDigits int frac) := by
      rw [pow_add, hsplit]
      have := hm.2.2.1
      rw [hm.2.1] at this
      nlinarith [Nat.zero_le (ofDigits ((sigDigits int frac).drop 19)),
        Nat.zero_le (10 ^ ((sigDigits int frac).length - 19))]
    apply ofDec_ge_pow hge
    unfold trueExp at hx
    push_cast
    omega
  · rw [hexp]
    exact ofDec_ge_pow hm.2.2.1 (by push_cast; omega)

/-- C07 as asked: in every saturating case the exact value is below `10^-400` resp. at least
    `10^400`, and the saturated `Number` is on the same side. -/
theorem parseNumber_saturation {int frac : List UInt8} {e : Int} (h : Valid int frac e) :
    let n := parseNumber int frac e
    (trueExp int frac e < i32Min →
      n.exponent = i32Min ∧ n.exponent ≤ -400 - 19 ∧ n.mantissa < 10 ^ 19 ∧
      Q.lt (digitsValue int frac e) (ofDec 1 (-400)) ∧
      Q.lt (ofDec n.mantissa n.exponent) (ofDec 1 (-400))) ∧
    (i32Max < trueExp int frac e →
      n.exponent = i32Max ∧ n.exponent ≥ 400 ∧ 10 ^ 18 ≤ n.mantissa ∧
      Q.le (ofDec 1 400) (digitsValue int frac e) ∧
      Q.le (ofDec 1 400) (ofDec n.mantissa n.exponent)) ∧
    (i32Min ≤ trueExp int frac e → trueExp int frac e ≤ i32Max →
      n.exponent = trueExp int frac e) := by
  intro n
  refine ⟨fun hx => ?_, fun hx => ?_, fun h1 h2 => (parseNumber_value_unsat h h1 h2).1⟩
  · have hl := parseNumber_saturates_low h hx
    simp only at hl
    have ht := hl.2 (-400) (by decide)
    refine ⟨hl.1, ?_, ?_, ht.1, ht.2⟩
    · show (parseNumber int frac e).exponent ≤ _
      rw [hl.1]; decide
    · show (parseNumber int frac e).mantissa < _
      rw [parseNumber_closed h]; show ofDigits _ < _
      have hd := AllDigits.sigDigits (valid_allInt h) (valid_allFrac h)
      have h1 := ofDigits_lt (AllDigits.take 19 hd)
      have h2 : (10 : Nat) ^ ((sigDigits int frac).take 19).length ≤ 10 ^ 19 :=
        Nat.pow_le_pow_right (by omega) (by rw [List.length_take]; omega)
      omega
  · have hh := parseNumber_saturates_high h hx
    simp only at hh
    have ht := hh.2.2.2 400 (by decide)
    refine ⟨hh.1, ?_, hh.2.2.1, ht.1, ht.2⟩
    show (parseNumber int frac e).exponent ≥ _
    rw [hh.1]; decide

-- saturation really happens: 1 fraction digit and `e = i32::MIN`
example : Valid [] [49] i32Min ∧ trueExp [] [49] i32Min < i32Min := by decide
-- top saturation: 21 integer digits and `e = i32::MAX`
example : Valid (List.replicate 21 49) [] i32Max ∧ i32Max < trueExp (List.replicate 21 49) [] i32Max := by
  decide

/-- The stage contract `Hyps.pn` of Props/Main.lean (`Denotes (parseNumber …) (digitsValue …)`,
    written out): the result denotes the exact value — exactly / as a half-open interval when the
    exponent did not saturate, and otherwise both are on the same side of every float range. -/
theorem parseNumber_denotes {int frac : List UInt8} {e : Int} (h : Valid int frac e) :
    let n := parseNumber int frac e
    let v := digitsValue int frac e
    0 < v.den ∧
    ((Q.le (ofDec n.mantissa n.exponent) v ∧
        (if n.manyDigits then Q.lt v (ofDec (n.mantissa + 1) n.exponent)
         else Q.eqv v (ofDec n.mantissa n.exponent)))
     ∨ (n.mantissa = 0 ∧ v.num = 0)
     ∨ (n.exponent ≤ -1000 ∧ Q.lt v (ofDec 1 (-400)))
     ∨ (1000 ≤ n.exponent ∧ 1 ≤ n.mantissa ∧ Q.le (ofDec 1 400) v)) := by
  intro n v
  refine ⟨ofDec_den_pos _ _, ?_⟩
  have hsat := parseNumber_saturation h
  simp only at hsat
  obtain ⟨hlow, hhigh, hmid⟩ := hsat
  by_cases h1 : trueExp int frac e < i32Min
  · have := hlow h1
    refine Or.inr (Or.inr (Or.inl ⟨?_, this.2.2.2.1⟩))
    show (parseNumber int frac e).exponent ≤ _
    rw [this.1]; decide
  · by_cases h2 : i32Max < trueExp int frac e
    · have := hhigh h2
      refine Or.inr (Or.inr (Or.inr ⟨?_, ?_, this.2.2.2.1⟩))
      · show _ ≤ (parseNumber int frac e).exponent
        rw [this.1]; decide
      · show 1 ≤ (parseNumber int frac e).mantissa
        have := this.2.2.1; omega
    · have hu := parseNumber_value_unsat h (by omega) (by omega)
      simp only at hu
      refine Or.inl ⟨hu.2.1, ?_⟩
      cases hmd : (parseNumber int frac e).manyDigits with
      | true => rw [if_pos rfl]; exact hu.2.2.1
      | false =>
        rw [if_neg (by simp)]
        have := (hu.2.2.2.2 hmd).1
        show Q.eqv (digitsValue int frac e) _
        rw [this]; rfl

-- ================================================================ 5. C01: the fast path
/-- What the fast path needs to know about the two tables (to be discharged by the table theorems):
    `pw k` is the float `10^k` exactly for `k ≤ MAX_EXPONENT_FAST_PATH`, `ip k = 10^k` for the
    disguised range, and the two structural inequalities between the exponent constants. -/
structure FastPathTables (F : FloatC) (pw ip : Nat → Nat) : Prop where
  maxExp_nonneg : 0 ≤ F.maxExponentFastPath
  minExp_ge : -F.maxExponentFastPath ≤ F.minExponentFastPath
  pow : ∀ k : Nat, (k : Int) ≤ F.maxExponentFastPath → Q.eqv (decodeQ F.fmt (pw k)) ⟨10 ^ k, 1⟩
  intPow : ∀ k : Nat, (k : Int) ≤ F.maxExponentDisguisedFastPath - F.maxExponentFastPath →
    ip k = 10 ^ k

/-- `u64 as F` is exact on the integers of the fast path. -/
def FromU64Exact (F : FloatC) : Prop :=
  ∀ m ≤ F.maxMantissaFastPath, Q.eqv (decodeQ F.fmt (floatFromU64 F m)) ⟨m, 1⟩

/-- `FromU64Exact` holds for every format with `mbits + 2 ≤ 2^(ebits-1)` (so that `2^(mbits+1)` is
    far from overflow) whose fast-path mantissa bound is at most `2^(mbits+1)`: `rne` of such an
    integer decodes to the integer itself. -/
theorem fromU64Exact_of_fmt {F : FloatC} (hE : F.fmt.mbits + 2 ≤ 2 ^ (F.fmt.ebits - 1))
    (hM : F.maxMantissaFastPath ≤ 2 ^ (F.fmt.mbits + 1)) : FromU64Exact F := by
  intro m hm
  unfold floatFromU64
  exact rne_nat_exact F.fmt hE (Nat.le_trans hm hM)

theorem fromU64Exact_f64 : FromU64Exact Gen.F64 := fromU64Exact_of_fmt (by decide) (by decide)
theorem fromU64Exact_f32 : FromU64Exact Gen.F32 := fromU64Exact_of_fmt (by decide) (by decide)

/-- C01: whenever the fast path answers, the answer is ONE correctly rounded IEEE operation applied
    to the exact value `mantissa × 10^exponent` (normal branch: exact `m` times / divided by exact
    `10^|e|`; disguised branch: exact `m·10^shift` times exact `10^MAX`). -/
theorem tryFastPath_spec {F : FloatC} {pw ip : Nat → Nat} (T : FastPathTables F pw ip)
    (hu : FromU64Exact F) {n : Number} {bits : Nat} (h : tryFastPath F pw ip n = some bits) :
    ∃ v, 0 < v.den ∧ Q.eqv v (ofDec n.mantissa n.exponent) ∧ bits = rne F.fmt v := by
  unfold tryFastPath at h
  by_cases hf : isFastPath F n = true
  · rw [if_pos hf] at h
    unfold isFastPath at hf
    simp only [Bool.and_eq_true, decide_eq_true_eq, Bool.not_eq_true'] at hf
    obtain ⟨⟨⟨hlo, hhi⟩, hm⟩, _⟩ := hf
    have h0 := T.maxExp_nonneg
    have hmin := T.minExp_ge
    simp only at h
    by_cases he : n.exponent ≤ F.maxExponentFastPath
    · rw [if_pos he] at h
      have ha := hu _ hm
      by_cases hneg : n.exponent < 0
      · rw [if_pos hneg] at h
        injection h with h
        have hb := T.pow (-n.exponent).toNat (by omega)
        have hnz := decode_ne_zero_of_eqv (Nat.pow_pos (by omega)) hb
        unfold fdiv at h
        rw [if_neg hnz] at h
        refine ⟨_, divQ_den_pos _ _ hnz, ?_, h.symm⟩
        unfold ofDec
        rw [if_neg (by omega)]
        exact divQ_exact ha hb
      · rw [if_neg hneg] at h
        injection h with h
        have hb := T.pow n.exponent.toNat (by omega)
        unfold fmul at h
        refine ⟨_, mulQ_den_pos _ _, ?_, h.symm⟩
        unfold ofDec
        rw [if_pos (by omega)]
        exact mulQ_exact ha hb
    · rw [if_neg he] at h
      by_cases h1 : n.mantissa * ip (n.exponent - F.maxExponentFastPath).toNat ≥ u64Mod
      · rw [if_pos h1] at h; cases h
      · rw [if_neg h1] at h
        by_cases h2 : n.mantissa * ip (n.exponent - F.maxExponentFastPath).toNat >
            F.maxMantissaFastPath
        · rw [if_pos h2] at h; cases h
        · rw [if_neg h2] at h
          injection h with h
          have hip := T.intPow (n.exponent - F.maxExponentFastPath).toNat (by omega)
          have ha := hu _ (Nat.le_of_not_gt h2)
          have hb := T.pow F.maxExponentFastPath.toNat (by omega)
          unfold fmul at h
          refine ⟨_, mulQ_den_pos _ _, ?_, h.symm⟩
          have hv := mulQ_exact ha hb
          unfold ofDec
          rw [if_pos (by omega)]
          have hsplit : n.exponent.toNat =
              (n.exponent - F.maxExponentFastPath).toNat + F.maxExponentFastPath.toNat := by omega
          rw [hip] at hv
          rw [hip, hsplit, pow_add, ← Nat.mul_assoc]
          exact hv
  · rw [if_neg hf] at h; cases h

/-- The stage contract `Hyps.fast` of Props/Main.lean, given only that `rne` respects `Q.eqv`
    (`rne_congr`, proved in Proofs/Rne.lean; taken as a hypothesis here to keep this file
    independent) and that the fast-path exponent window lies inside `(-1000, 1000)`: if `n` denotes
    `v` (the four-way disjunction of `Main.Denotes`, written out) and the fast path answers `b`,
    then `b = rne v`. -/
theorem tryFastPath_denotes {F : FloatC} {pw ip : Nat → Nat} (T : FastPathTables F pw ip)
    (hu : FromU64Exact F)
    (hcongr : ∀ a b : Q, 0 < a.den → 0 < b.den → Q.eqv a b → rne F.fmt a = rne F.fmt b)
    (hlo : -1000 < F.minExponentFastPath) (hhi : F.maxExponentDisguisedFastPath < 1000)
    {n : Number} {v : Q} {b : Nat}
    (hd : 0 < v.den ∧
      ((Q.le (ofDec n.mantissa n.exponent) v ∧
          (if n.manyDigits then Q.lt v (ofDec (n.mantissa + 1) n.exponent)
           else Q.eqv v (ofDec n.mantissa n.exponent)))
       ∨ (n.mantissa = 0 ∧ v.num = 0)
       ∨ (n.exponent ≤ -1000 ∧ Q.lt v (ofDec 1 (-400)))
       ∨ (1000 ≤ n.exponent ∧ 1 ≤ n.mantissa ∧ Q.le (ofDec 1 400) v)))
    (h : tryFastPath F pw ip n = some b) : b = rne F.fmt v := by
  obtain ⟨v', hv'den, hv', hb⟩ := tryFastPath_spec T hu h
  obtain ⟨hvden, hcases⟩ := hd
  have hfp : isFastPath F n = true := by
    unfold tryFastPath at h
    by_cases hf : isFastPath F n = true
    · exact hf
    · rw [if_neg hf] at h; cases h
  unfold isFastPath at hfp
  simp only [Bool.and_eq_true, decide_eq_true_eq, Bool.not_eq_true'] at hfp
  obtain ⟨⟨⟨he1, he2⟩, _⟩, hmd⟩ := hfp
  have hlden := ofDec_den_pos n.mantissa n.exponent
  rw [hb]
  apply hcongr _ _ hv'den hvden
  rcases hcases with ⟨_, h1⟩ | ⟨hm0, hv0⟩ | ⟨h3, _⟩ | ⟨h4, _⟩
  · rw [hmd] at h1
    simp only [Bool.false_eq_true, if_false] at h1
    unfold Q.eqv at *
    apply Nat.eq_of_mul_eq_mul_right hlden
    calc v'.num * v.den * (ofDec n.mantissa n.exponent).den
        = (v'.num * (ofDec n.mantissa n.exponent).den) * v.den := by ring
      _ = ((ofDec n.mantissa n.exponent).num * v'.den) * v.den := by rw [hv']
      _ = ((ofDec n.mantissa n.exponent).num * v.den) * v'.den := by ring
      _ = (v.num * (ofDec n.mantissa n.exponent).den) * v'.den := by rw [h1]
      _ = v.num * v'.den * (ofDec n.mantissa n.exponent).den := by ring
  · unfold Q.eqv at *
    have hl0 : (ofDec n.mantissa n.exponent).num = 0 := by
      rw [hm0]; unfold ofDec; split <;> simp
    rw [hl0, Nat.zero_mul] at hv'
    have : v'.num = 0 := by
      rcases Nat.mul_eq_zero.mp hv' with h | h
      · exact h
      · omega
    rw [this, hv0]; simp
  · omega
  · omega

/-- finite form of `FastPathTables` -/
theorem fastPathTables_of_fin {F : FloatC} {pw ip : Nat → Nat} (K D : Nat)
    (hK : F.maxExponentFastPath = K)
    (hD : F.maxExponentDisguisedFastPath - F.maxExponentFastPath = D)
    (hmin : -F.maxExponentFastPath ≤ F.minExponentFastPath)
    (h1 : ∀ k < K + 1, Q.eqv (decodeQ F.fmt (pw k)) ⟨10 ^ k, 1⟩)
    (h2 : ∀ k < D + 1, ip k = 10 ^ k) : FastPathTables F pw ip :=
  ⟨by omega, hmin, fun k hk => h1 k (by omega), fun k hk => h2 k (by omega)⟩

/-- The table hypotheses hold for the regenerated f64 tables in EVERY feature configuration
    (look-up tables, std `powi`, bundled libm): finite check. -/
theorem fastPathTables_f64 (cfg : Cfg) :
    FastPathTables Gen.F64 ((genEnv cfg).powFastPath Gen.F64)
      (intPow10 (genEnv cfg).cfg.compact (genEnv cfg).pow.smallIntPow10) := by
  obtain ⟨c, a, s⟩ := cfg
  cases c <;> cases a <;> cases s <;>
    exact fastPathTables_of_fin 22 15 rfl rfl (by decide) (by decide +kernel) (by decide +kernel)

/-- The same for f32. -/
theorem fastPathTables_f32 (cfg : Cfg) :
    FastPathTables Gen.F32 ((genEnv cfg).powFastPath Gen.F32)
      (intPow10 (genEnv cfg).cfg.compact (genEnv cfg).pow.smallIntPow10) := by
  obtain ⟨c, a, s⟩ := cfg
  cases c <;> cases a <;> cases s <;>
    exact fastPathTables_of_fin 10 7 rfl rfl (by decide) (by decide +kernel) (by decide +kernel)

/-- C01 for the regenerated tables, every configuration, f64 and f32, no remaining hypothesis:
    the call made by `parseFloat (genEnv cfg) F` answers only with one correctly rounded
    operation on the exact value. -/
theorem tryFastPath_genEnv (cfg : Cfg) {F : FloatC} (hF : F = Gen.F32 ∨ F = Gen.F64) {n : Number}
    {bits : Nat}
    (h : tryFastPath F ((genEnv cfg).powFastPath F)
      (intPow10 (genEnv cfg).cfg.compact (genEnv cfg).pow.smallIntPow10) n = some bits) :
    ∃ v, 0 < v.den ∧ Q.eqv v (ofDec n.mantissa n.exponent) ∧ bits = rne F.fmt v := by
  rcases hF with rfl | rfl
  · exact tryFastPath_spec (fastPathTables_f32 cfg) fromU64Exact_f32 h
  · exact tryFastPath_spec (fastPathTables_f64 cfg) fromU64Exact_f64 h

/-- `Hyps.fast` for `genEnv cfg`, f32 and f64, every configuration, modulo `rne_congr` only. -/
theorem tryFastPath_denotes_genEnv (cfg : Cfg) {F : FloatC} (hF : F = Gen.F32 ∨ F = Gen.F64)
    (hcongr : ∀ a b : Q, 0 < a.den → 0 < b.den → Q.eqv a b → rne F.fmt a = rne F.fmt b)
    {n : Number} {v : Q} {b : Nat}
    (hd : 0 < v.den ∧
      ((Q.le (ofDec n.mantissa n.exponent) v ∧
          (if n.manyDigits then Q.lt v (ofDec (n.mantissa + 1) n.exponent)
           else Q.eqv v (ofDec n.mantissa n.exponent)))
       ∨ (n.mantissa = 0 ∧ v.num = 0)
       ∨ (n.exponent ≤ -1000 ∧ Q.lt v (ofDec 1 (-400)))
       ∨ (1000 ≤ n.exponent ∧ 1 ≤ n.mantissa ∧ Q.le (ofDec 1 400) v)))
    (h : tryFastPath F ((genEnv cfg).powFastPath F)
      (intPow10 (genEnv cfg).cfg.compact (genEnv cfg).pow.smallIntPow10) n = some b) :
    b = rne F.fmt v := by
  rcases hF with rfl | rfl
  · exact tryFastPath_denotes (fastPathTables_f32 cfg) fromU64Exact_f32 hcongr (by decide)
      (by decide) hd h
  · exact tryFastPath_denotes (fastPathTables_f64 cfg) fromU64Exact_f64 hcongr (by decide)
      (by decide) hd h

-- both branches fire: 123·10^-2 (division), 5·10^30 (disguised)
example : (tryFastPath Gen.F64 ((genEnv ⟨false, true, true⟩).powFastPath Gen.F64)
      (intPow10 false Gen.smallIntPow10) ⟨-2, 123, false⟩).isSome = true ∧
    (tryFastPath Gen.F64 ((genEnv ⟨false, true, true⟩).powFastPath Gen.F64)
      (intPow10 false Gen.smallIntPow10) ⟨30, 5, false⟩).isSome = true := by
  decide +kernel

end MinLex
