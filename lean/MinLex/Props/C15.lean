/-
  Property C15: "no heap allocation unless the `alloc` feature is enabled".

  WHAT IS A THEOREM HERE AND WHAT IS NOT.  An allocator call is not an event of the model: the model
  (`Model/Bigint.lean`) represents a big integer as a `List Nat` and the storage back-end by a capacity
  `Env.cap` — `some 62` for the fixed 62-limb `StackVec`, `none` for `HeapVec` (`Vec<Limb>`).  That
  `some 62` *is* an inline array and `none` *is* a `Vec` is the modelling convention, validated by
  the correspondence check; that a build without `alloc` links no allocator at all is checked by
  compiling the crate `no_std` without `extern crate alloc` and by running the real code under a
  counting global allocator (`evidence/C15.json`).  Neither can be stated about the model.

  What CAN be proved, and is proved below, is everything the run-time check relies on:

  (a) `C15_no_growth` — for every configuration, f32/f64 and every valid input: whenever `parse_float`
      hands over to the big-integer path, the computation on the 62-limb stack vector SUCCEEDS (no
      `try_push` / `try_extend` / `try_resize` / `shl_limbs` capacity check fails), the heap
      computation returns the SAME result and builds the SAME big integers (`slow_cap_mono`: capacity
      only ever turns `some` into `none`), and each of them has at most 62 limbs.  Hence
        – non-`alloc` build: the `StackVec` never overflows (no panic, and of course no allocation);
        – `alloc` build: no `Vec` created by `Vec::with_capacity(62)` ever grows beyond its reserved
          capacity, so NO re-allocation happens and the number of heap allocations is exactly the
          number of vector constructions, which is what the cost model `parseAllocs`
          (`Model/Alloc.lean`) counts and the harness compares with the counting allocator.
  (b) `C15_stack_builds` — `cfg.alloc = false` is exactly "all big-integer operations run with the
      fixed capacity `some 62`" (trivial; it records the convention).
  (c) facts about the cost model: `parseAllocs = 0` exactly when the slow path is not entered
      (`parseAllocs_zero_iff`), `≥ 1` / `≥ 2` in the positive / negative branch, the `pow` term vanishes
      in compact configurations and for exponents below `LARGE_POW5_STEP = 135`.

  Helper lemmas (the `…_cap_mono` chain): `MinLex/Proofs/CapMono.lean`.
-/
import MinLex.Proofs.CapMono
import MinLex.Model.Alloc
import MinLex.Props.Final
import MinLex.Props.C08
namespace MinLex.C15
open MinLex MinLex.Main MinLex.Compose

-- ================================================================ the hand-over

/-- the estimate `parse_float` passes to `slow::slow` (`fp.exp -= F::INVALID_FP`) -/
def handover (F : FloatC) (fp : ExtFloat) : ExtFloat := ⟨fp.mant, wrapI32 (fp.exp - F.invalidFp)⟩

/-- `parse_float` reaches the big-integer path with the (declined) estimate `fp` -/
def SlowEntered (E : Env) (F : FloatC) (int frac : List UInt8) (e : Int) (fp : ExtFloat) : Prop :=
  tryFastPath F (E.powFastPath F) (intPow10 E.cfg.compact E.pow.smallIntPow10) (parseNumber int frac e) = none ∧
  moderatePath E F (parseNumber int frac e) = some fp ∧ fp.exp < 0

/-- all seven stage contracts, for EVERY configuration (compact ones through `BellerophonSound`) -/
theorem hyps_all (cfg : Cfg) {F : FloatC} (hF : F = Gen.F32 ∨ F = Gen.F64) : Hyps (genEnv cfg) F := by
  cases hc : cfg.compact with
  | false => exact hyps_noncompact cfg hc hF
  | true =>
    rcases hF with rfl | rfl
    · exact hyps_compact cfg hc (Or.inl rfl) BellerophonSound.openCompact_f32
    · exact hyps_compact cfg hc (Or.inr rfl) BellerophonSound.openCompact_f64

/-- the moderate stage hands over only a non-zero significand with `−400 ≤ q ≤ 400` and an estimate
    satisfying the hand-off contract `EstOK` -/
theorem C15_handover_contract (cfg : Cfg) {F : FloatC} (hF : F = Gen.F32 ∨ F = Gen.F64)
    {int frac : List UInt8} {e : Int} (hv : Valid int frac e) {fp : ExtFloat}
    (hmp : moderatePath (genEnv cfg) F (parseNumber int frac e) = some fp) (hneg : fp.exp < 0) :
    (parseNumber int frac e).mantissa ≠ 0 ∧ -400 ≤ (parseNumber int frac e).exponent ∧
    (parseNumber int frac e).exponent ≤ 400 ∧ EstOK F (handover F fp) (digitsValue int frac e) := by
  have h := hyps_all cfg hF
  obtain ⟨hd, hok⟩ := h.pn int frac e hv
  obtain ⟨hm0, hlo, hhi⟩ := h.modRange _ fp hok hmp hneg
  exact ⟨hm0, hlo, hhi, h.modEst _ _ fp hd hok hmp hneg⟩

-- ================================================================ (a) no vector grows beyond 62 limbs

/-- capacity monotonicity, re-exported: whatever `slow` computes with a bounded vector, it computes
    with the unbounded one — ARBITRARY bytes, numbers, estimates, tables, capacities -/
theorem C15_slow_cap_mono {c : Nat} {T : PowTables} {F : FloatC} {num : Number} {fp : ExtFloat}
    {int frac : List UInt8} {r : ExtFloat} (h : slow (some c) T F num fp int frac = some r) :
    slow none T F num fp int frac = some r := CapMono.slow_cap_mono h

/-- **C15 (a).**  Every configuration `cfg`, `F ∈ {f32, f64}`, every valid input: on every hand-over
    to the big-integer path
      1. the computation on the 62-limb stack vector succeeds, with some result `r` and the recorded big
         integers `l` (mantissa, its power, `theor_digits` before / after scaling, the operands of
         `compare`);
      2. the computation on the heap vector returns the same `r` and builds the same `l`;
      3. so does the computation of the configuration at hand, whichever back-end it uses;
      4. every one of these big integers has at most 62 limbs of 64 bits (value `< 2^3968`).
    Since every growth of a vector (`try_push`, `try_extend`, `try_resize`, `shl_limbs`) is guarded in
    the model by `capOk (some 62) new_len`, success of run 1 means that no vector — temporaries of
    `long_mul` included — is ever longer than 62 limbs, and by the `cap_mono` chain run 2 performs the
    same operations on the same values.  Consequently an `alloc` build never re-allocates a
    `Vec::with_capacity(62)`, and a non-`alloc` build never overflows its `StackVec`.  (It also closes
    the one place where the heap model is coarser than the code: `HeapVec`'s `shl_limbs` compares
    `n + len` with `Vec::capacity() ≥ 62`, which `shlLimbs none` does not model — run 1 shows
    `n + len ≤ 62` at every such call.) -/
theorem C15_no_growth (cfg : Cfg) {F : FloatC} (hF : F = Gen.F32 ∨ F = Gen.F64)
    {int frac : List UInt8} {e : Int} (hv : Valid int frac e) {fp : ExtFloat}
    (hmp : moderatePath (genEnv cfg) F (parseNumber int frac e) = some fp) (hneg : fp.exp < 0) :
    ∃ (r : ExtFloat) (l : List Big),
      Sites.slowI (some 62) (genPow cfg.compact) F (parseNumber int frac e) (handover F fp) int frac = some (r, l) ∧
      Sites.slowI none (genPow cfg.compact) F (parseNumber int frac e) (handover F fp) int frac = some (r, l) ∧
      slow (some 62) (genPow cfg.compact) F (parseNumber int frac e) (handover F fp) int frac = some r ∧
      slow none (genPow cfg.compact) F (parseNumber int frac e) (handover F fp) int frac = some r ∧
      slow (genEnv cfg).cap (genEnv cfg).pow F (parseNumber int frac e) (handover F fp) int frac = some r ∧
      l ≠ [] ∧ ∀ x ∈ l, x.length ≤ 62 ∧ AllLt x ∧ toNat x < B ^ 62 := by
  obtain ⟨hm0, hlo, hhi, hest⟩ := C15_handover_contract cfg hF hv hmp hneg
  -- the same configuration with the stack back-end
  have hfit := SlowPath.slow_fits_of_range ⟨cfg.compact, false, cfg.std⟩ hF hv hm0 hlo hhi hest
  unfold SlowPath.Fits at hfit
  have hstack : ∃ r, slow (some 62) (genPow cfg.compact) F (parseNumber int frac e) (handover F fp) int frac
      = some r := by
    cases hr : slow (some 62) (genPow cfg.compact) F (parseNumber int frac e) (handover F fp) int frac with
    | none =>
      have : slow (genEnv ⟨cfg.compact, false, cfg.std⟩).cap (genEnv ⟨cfg.compact, false, cfg.std⟩).pow F
          (parseNumber int frac e) (handover F fp) int frac = none := hr
      rw [this] at hfit; simp at hfit
    | some r => exact ⟨r, rfl⟩
  obtain ⟨r, hr⟩ := hstack
  obtain ⟨l, hl, hne, hall⟩ := C08.C08_slow_capacity ⟨cfg.compact, false, cfg.std⟩ F
    (parseNumber int frac e) (handover F fp) int frac r hr
  have hl' : Sites.slowI (some 62) (genPow cfg.compact) F (parseNumber int frac e) (handover F fp) int frac
      = some (r, l) := hl
  have hheap := CapMono.slow_cap_mono hr
  refine ⟨r, l, hl', CapMono.slowI_cap_mono hl', hr, hheap, ?_, hne, fun x hx => ?_⟩
  · cases ha : cfg.alloc with
    | true =>
      have : (genEnv cfg).cap = none := by unfold Env.cap genEnv; simp [ha]
      rw [this]; exact hheap
    | false =>
      have : (genEnv cfg).cap = some 62 := by unfold Env.cap genEnv; simp [ha]
      rw [this]; exact hr
  · obtain ⟨_, h2, h3⟩ := hall x hx
    exact ⟨(h3 rfl).1, h2, (h3 rfl).2⟩

/-- the same, phrased for a whole call: on valid input `parse_float` of an `alloc` build and of the
    corresponding stack build take the same path and return the same bits (also `C05.C05_stack_heap`) -/
theorem C15_stack_eq_heap (compact std : Bool) {F : FloatC} (hF : F = Gen.F32 ∨ F = Gen.F64)
    (int frac : List UInt8) (e : Int) (hv : Valid int frac e) :
    parseFloat (genEnv ⟨compact, false, std⟩) F int frac e = parseFloat (genEnv ⟨compact, true, std⟩) F int frac e := by
  rw [Final.MAIN_all _ hF int frac e hv, Final.MAIN_all _ hF int frac e hv]

/-- non-`alloc` build: the `StackVec` never fails on valid input (`Final.C04_no_panic`) -/
theorem C15_stack_never_fails (cfg : Cfg) (_ha : cfg.alloc = false) {F : FloatC}
    (hF : F = Gen.F32 ∨ F = Gen.F64) (int frac : List UInt8) (e : Int) (hv : Valid int frac e) :
    parseFloat (genEnv cfg) F int frac e ≠ .panic := Final.C04_no_panic cfg hF int frac e hv

-- non-vacuity: a hand-over in the non-compact configuration (20 digits, `e = −330`; Lemire declines)
def exA : List UInt8 := [57, 52, 57, 53, 55, 56, 52, 49, 55, 49, 51, 54, 53, 57, 52, 52, 55, 54, 53, 49]

example : Valid exA [] (-330) := by decide
example : ∃ fp, moderatePath (genEnv ⟨false, true, true⟩) Gen.F64 (parseNumber exA [] (-330)) = some fp ∧
    fp.exp < 0 := by
  have h : ((moderatePath (genEnv ⟨false, true, true⟩) Gen.F64 (parseNumber exA [] (-330))).map
      fun fp => decide (fp.exp < 0)) = some true := by decide +kernel
  cases hm : moderatePath (genEnv ⟨false, true, true⟩) Gen.F64 (parseNumber exA [] (-330)) with
  | none => rw [hm] at h; simp at h
  | some fp => rw [hm] at h; exact ⟨fp, rfl, by simpa using h⟩
/-- on this input the recorded big integers (mantissa, `theor_digits` before / after `pow(5, 349)`, the
    two operands of `compare`) have 2, 1, 13, 13, 13 limbs — far below 62 — on the stack and on the heap -/
example : ((Sites.slowI (some 62) (genPow false) Gen.F64 (parseNumber exA [] (-330))
      (handover Gen.F64 ((moderatePath (genEnv ⟨false, true, true⟩) Gen.F64 (parseNumber exA [] (-330))).getD ⟨0, 0⟩))
      exA []).map fun p => p.2.map List.length) = some [2, 1, 13, 13, 13] ∧
    ((Sites.slowI none (genPow false) Gen.F64 (parseNumber exA [] (-330))
      (handover Gen.F64 ((moderatePath (genEnv ⟨false, true, true⟩) Gen.F64 (parseNumber exA [] (-330))).getD ⟨0, 0⟩))
      exA []).map fun p => p.2.map List.length) = some [2, 1, 13, 13, 13] := by decide +kernel

/-- the capacity matters outside the hand-over window: with `q = −1000` the stack run fails while the
    heap run succeeds (`SlowPath`, example (3)), so `C15_no_growth` really uses `−400 ≤ q ≤ 400` -/
example :
    let fr : List UInt8 := List.replicate 231 48 ++ List.replicate 769 49
    slow (some 62) (genPow false) Gen.F64 (parseNumber [] fr (-750)) ⟨2 ^ 63, -64⟩ [] fr = none ∧
    (slow none (genPow false) Gen.F64 (parseNumber [] fr (-750)) ⟨2 ^ 63, -64⟩ [] fr).isSome = true :=
  ⟨by decide +kernel, by decide +kernel⟩

-- ================================================================ (b) the modelling convention

/-- **C15 (b).**  A build without the `alloc` feature runs every big-integer operation with the fixed
    capacity `some 62`, and only such a build does.  In the model this is the whole content of "uses
    `StackVec`": `some 62` stands for `[MaybeUninit<Limb>; 62]` inside the `Bigint` value (no allocator
    involved), `none` for `Vec<Limb>`.  "Performs no heap allocation" is therefore NOT a statement about
    the model but about this convention; it is covered at run time (counting allocator = 0 in every
    non-`alloc` configuration, and the `no_std` build has no allocator to call). -/
theorem C15_stack_builds (cfg : Cfg) : (genEnv cfg).cap = some 62 ↔ cfg.alloc = false := by
  unfold Env.cap genEnv
  cases cfg.alloc <;> simp

theorem C15_heap_builds (cfg : Cfg) : (genEnv cfg).cap = none ↔ cfg.alloc = true := by
  unfold Env.cap genEnv
  cases cfg.alloc <;> simp

/-- the cost model is only consulted for `alloc` builds; for the others the harness expects 0
    (`Main.lean`: `if !E.cfg.alloc then " allocs 0" else … parseAllocs …`) -/
def expectedAllocs (cfg : Cfg) (F : FloatC) (int frac : List UInt8) (e : Int) : Nat :=
  if cfg.alloc then parseAllocs (genEnv cfg) F int frac e else 0

theorem expectedAllocs_stack (cfg : Cfg) (ha : cfg.alloc = false) (F : FloatC) (int frac : List UInt8)
    (e : Int) : expectedAllocs cfg F int frac e = 0 := by
  unfold expectedAllocs; rw [ha]; rfl

-- ================================================================ (c) facts about the cost model

/-- no allocation when the fast path answers -/
theorem parseAllocs_fast {E : Env} {F : FloatC} {int frac : List UInt8} {e : Int} {v : Nat}
    (h : tryFastPath F (E.powFastPath F) (intPow10 E.cfg.compact E.pow.smallIntPow10)
      (parseNumber int frac e) = some v) : parseAllocs E F int frac e = 0 := by
  unfold parseAllocs
  simp only []
  rw [h]

/-- no allocation when the moderate path answers (or panics) -/
theorem parseAllocs_moderate {E : Env} {F : FloatC} {int frac : List UInt8} {e : Int}
    (h : ∀ fp, moderatePath E F (parseNumber int frac e) = some fp → 0 ≤ fp.exp) :
    parseAllocs E F int frac e = 0 := by
  unfold parseAllocs
  simp only []
  split
  · rfl
  · split
    · rfl
    · rename_i fp hfp
      rw [if_pos (h fp hfp)]

/-- the slow path, `parse_mantissa` failing (never on the heap, see `parseAllocs_slow_valid`) -/
theorem parseAllocs_slow_none {E : Env} {F : FloatC} {int frac : List UInt8} {e : Int} {fp : ExtFloat}
    (h : SlowEntered E F int frac e fp) (hpm : parseMantissa none E.pow int frac F.maxDigits = none) :
    parseAllocs E F int frac e = 1 := by
  obtain ⟨h1, h2, h3⟩ := h
  unfold parseAllocs
  simp only []
  rw [h1]; simp only []
  rw [h2]; simp only []
  rw [if_neg (by omega), hpm]

/-- the slow path, positive branch (`positive_digit_comp`): `Bigint::new()` in `parse_mantissa`, plus
    the temporaries of the `LARGE_POW5` multiplications -/
theorem parseAllocs_slow_pos {E : Env} {F : FloatC} {int frac : List UInt8} {e : Int} {fp : ExtFloat}
    (h : SlowEntered E F int frac e fp) {bigmant : Big} {digits : Nat}
    (hpm : parseMantissa none E.pow int frac F.maxDigits = some (bigmant, digits))
    (hx : 0 ≤ wrapI32 (scientificExponent (parseNumber int frac e) + 1 - asI32 digits)) :
    parseAllocs E F int frac e = 1 + powAllocs E.pow
      ((wrapI32 (scientificExponent (parseNumber int frac e) + 1 - asI32 digits)).toNat + 1) bigmant
      (wrapI32 (scientificExponent (parseNumber int frac e) + 1 - asI32 digits)).toNat := by
  obtain ⟨h1, h2, h3⟩ := h
  unfold parseAllocs
  simp only []
  rw [h1]; simp only []
  rw [h2]; simp only []
  rw [if_neg (by omega), hpm]
  simp only []
  rw [if_pos hx]

/-- the slow path, negative branch (`negative_digit_comp`): additionally `Bigint::from_u64` -/
theorem parseAllocs_slow_neg {E : Env} {F : FloatC} {int frac : List UInt8} {e : Int} {fp : ExtFloat}
    (h : SlowEntered E F int frac e fp) {bigmant : Big} {digits : Nat}
    (hpm : parseMantissa none E.pow int frac F.maxDigits = some (bigmant, digits))
    (hx : wrapI32 (scientificExponent (parseNumber int frac e) + 1 - asI32 digits) < 0) :
    parseAllocs E F int frac e = 2 + powAllocs E.pow
      ((-wrapI32 (scientificExponent (parseNumber int frac e) + 1 - asI32 digits)).toNat + 1)
      (fromU64 (fbh F (extendedToFloat F (round F roundDown (handover F fp)))).mant)
      (-wrapI32 (scientificExponent (parseNumber int frac e) + 1 - asI32 digits)).toNat := by
  obtain ⟨h1, h2, h3⟩ := h
  unfold parseAllocs
  simp only []
  rw [h1]; simp only []
  rw [h2]; simp only []
  rw [if_neg (by omega), hpm]
  simp only []
  rw [if_neg (by omega)]
  unfold handover
  omega

/-- at least one allocation on the slow path … -/
theorem parseAllocs_slow_ge_one {E : Env} {F : FloatC} {int frac : List UInt8} {e : Int} {fp : ExtFloat}
    (h : SlowEntered E F int frac e fp) : 1 ≤ parseAllocs E F int frac e := by
  cases hpm : parseMantissa none E.pow int frac F.maxDigits with
  | none => rw [parseAllocs_slow_none h hpm]
  | some p =>
    obtain ⟨bigmant, digits⟩ := p
    by_cases hx : 0 ≤ wrapI32 (scientificExponent (parseNumber int frac e) + 1 - asI32 digits)
    · rw [parseAllocs_slow_pos h hpm hx]; omega
    · rw [parseAllocs_slow_neg h hpm (by omega)]; omega

/-- … and at least two in the negative branch -/
theorem parseAllocs_slow_neg_ge_two {E : Env} {F : FloatC} {int frac : List UInt8} {e : Int} {fp : ExtFloat}
    (h : SlowEntered E F int frac e fp) {bigmant : Big} {digits : Nat}
    (hpm : parseMantissa none E.pow int frac F.maxDigits = some (bigmant, digits))
    (hx : wrapI32 (scientificExponent (parseNumber int frac e) + 1 - asI32 digits) < 0) :
    2 ≤ parseAllocs E F int frac e := by
  rw [parseAllocs_slow_neg h hpm hx]; omega

/-- **the cost model is 0 exactly when the big-integer path is not entered** (any environment, ANY
    bytes): fast path, definite moderate answer and moderate panic allocate nothing -/
theorem parseAllocs_zero_iff (E : Env) (F : FloatC) (int frac : List UInt8) (e : Int) :
    parseAllocs E F int frac e = 0 ↔ ¬ ∃ fp, SlowEntered E F int frac e fp := by
  constructor
  · rintro h0 ⟨fp, hs⟩
    have := parseAllocs_slow_ge_one hs
    omega
  · intro hn
    cases h1 : tryFastPath F (E.powFastPath F) (intPow10 E.cfg.compact E.pow.smallIntPow10)
        (parseNumber int frac e) with
    | some v => exact parseAllocs_fast h1
    | none =>
      apply parseAllocs_moderate
      intro fp hfp
      by_cases hneg : fp.exp < 0
      · exact absurd ⟨fp, h1, hfp, hneg⟩ hn
      · omega

/-- the `pow` term: compact builds have no `LARGE_POW5` (only `small_mul`s, which never allocate) -/
theorem powAllocs_compact {T : PowTables} (hc : T.compact = true) (fuel : Nat) (x : Big) (e : Nat) :
    powAllocs T fuel x e = 0 := by
  cases fuel with
  | zero => rfl
  | succ n => unfold powAllocs; simp [hc]

/-- the `pow` term: no large step below `LARGE_POW5_STEP` -/
theorem powAllocs_small {T : PowTables} {e : Nat} (he : e < T.largePow5Step) (fuel : Nat) (x : Big) :
    powAllocs T fuel x e = 0 := by
  cases fuel with
  | zero => rfl
  | succ n =>
    unfold powAllocs
    have : decide (e ≥ T.largePow5Step) = false := by simp; omega
    simp [this]

/-- with the generated tables: `LARGE_POW5_STEP = 135` -/
theorem powAllocs_gen_lt_135 (compact : Bool) {e : Nat} (he : e < 135) (fuel : Nat) (x : Big) :
    powAllocs (genPow compact) fuel x e = 0 :=
  powAllocs_small (T := genPow compact) (by show e < Gen.largePow5Step; exact he) fuel x

theorem powAllocs_gen_compact (fuel : Nat) (x : Big) (e : Nat) : powAllocs (genPow true) fuel x e = 0 :=
  powAllocs_compact rfl fuel x e

/-- on valid input in a generated environment `parse_mantissa` on the heap always returns, so the
    slow-path cost is `1 + pow term` or `2 + pow term` — never the `none` branch of the model -/
theorem parseAllocs_slow_valid (cfg : Cfg) {F : FloatC} (hF : F = Gen.F32 ∨ F = Gen.F64)
    {int frac : List UInt8} {e : Int} (hv : Valid int frac e) :
    ∃ bigmant digits, parseMantissa none (genEnv cfg).pow int frac F.maxDigits = some (bigmant, digits) := by
  have hmd : 1 ≤ F.maxDigits := by rcases hF with rfl | rfl <;> decide
  obtain ⟨r, count, h, _⟩ := SlowPath.parseMantissa_spec (T := genPow cfg.compact)
    (SlowPath.pow10OK_genPow cfg.compact) hmd hv.1 hv.2.1 hv.2.2.1
  exact ⟨r, count, h⟩

/-- **compact `alloc` builds allocate at most twice per call** (ANY bytes): `Bigint::new()` and, in the
    negative branch, `Bigint::from_u64` -/
theorem parseAllocs_compact_le_two (cfg : Cfg) (hc : cfg.compact = true) (F : FloatC)
    (int frac : List UInt8) (e : Int) : parseAllocs (genEnv cfg) F int frac e ≤ 2 := by
  by_cases hs : ∃ fp, SlowEntered (genEnv cfg) F int frac e fp
  · obtain ⟨fp, hs⟩ := hs
    have hT : (genEnv cfg).pow.compact = true := hc
    cases hpm : parseMantissa none (genEnv cfg).pow int frac F.maxDigits with
    | none => rw [parseAllocs_slow_none hs hpm]; omega
    | some p =>
      obtain ⟨bigmant, digits⟩ := p
      by_cases hx : 0 ≤ wrapI32 (scientificExponent (parseNumber int frac e) + 1 - asI32 digits)
      · rw [parseAllocs_slow_pos hs hpm hx, powAllocs_compact hT]; omega
      · rw [parseAllocs_slow_neg hs hpm (by omega), powAllocs_compact hT]
  · rw [(parseAllocs_zero_iff _ _ _ _ _).mpr hs]; omega

-- ---------------------------------------------------------------- non-vacuity of (c)
/-- a 29-digit integer times `10^150` next to a rounding boundary (positive branch, one `LARGE_POW5`
    step on a 2-limb operand) and the 22-digit `(2^53+1)·2^20 + 1` (positive branch, no large step) -/
def exD : List UInt8 := [54, 52, 56, 51, 54, 49, 56, 48, 55, 54, 51, 57, 52, 51, 50, 52, 55, 50, 54, 53,
  53, 53, 56, 48, 55, 56, 53, 54, 57]
def exX : List UInt8 := [57, 52, 52, 52, 55, 51, 50, 57, 54, 53, 55, 51, 57, 50, 57, 49, 52, 55, 53, 57, 54, 57]
/-- `9007199254740993.0000000000000000000001` (negative branch, `pow(5, 22)`) -/
def exH : List UInt8 := [57, 48, 48, 55, 49, 57, 57, 50, 53, 52, 55, 52, 48, 57, 57, 51]

example : Valid exD [] 150 ∧ Valid exX [] 0 ∧ Valid exH (List.replicate 21 48 ++ [49]) 0 := by decide

example :
    parseAllocs (genEnv ⟨false, true, true⟩) Gen.F64 [49] [] 0 = 0 ∧                       -- fast path
    parseAllocs (genEnv ⟨false, true, true⟩) Gen.F64 [49, 50, 51, 52, 53, 54, 55] [] (-5) = 0 ∧
    parseAllocs (genEnv ⟨false, true, true⟩) Gen.F64 exX [] 0 = 1 ∧                         -- positive
    parseAllocs (genEnv ⟨false, true, true⟩) Gen.F64 exD [] 150 = 3 ∧                       -- 1 + (1 + 1)
    parseAllocs (genEnv ⟨true, true, true⟩) Gen.F64 exD [] 150 = 1 ∧                        -- compact
    parseAllocs (genEnv ⟨false, true, true⟩) Gen.F64 exH (List.replicate 21 48 ++ [49]) 0 = 2 ∧  -- negative
    parseAllocs (genEnv ⟨false, true, true⟩) Gen.F64 exA [] (-330) = 9 ∧                    -- 2 + pow term 7
    parseAllocs (genEnv ⟨false, true, true⟩) Gen.F32 exX [] 0 = 0 := by
  decide +kernel

example : ∃ fp, SlowEntered (genEnv ⟨false, true, true⟩) Gen.F64 exA [] (-330) fp :=
  Classical.byContradiction fun hn => by
    have h0 := (parseAllocs_zero_iff (genEnv ⟨false, true, true⟩) Gen.F64 exA [] (-330)).mpr hn
    have h9 : parseAllocs (genEnv ⟨false, true, true⟩) Gen.F64 exA [] (-330) = 9 := by decide +kernel
    omega

end MinLex.C15
