/-
  C06 — inputs of ANY length are rounded correctly: digits beyond the 19 kept in the `Number`,
  beyond the 768/112 digits the big-integer path reads, after hundreds of zeros, … all count.

  * `C06_noncompact` : FULL theorem (non-compact configurations): no bound on the lengths of the
    integer and fraction digit strings other than `Valid` (`< 2^31 − 1` each).
  * `C06_partial`    : all configurations, under `OpenCompact F`.
  * consequences, as facts about `rne` / `digitsValue` only (no contract needed):
    (i)  `C06_append_zeros_value / _rne`: any number of appended fraction zeros changes nothing;
    (ii) `C06_above_mid / C06_below_mid / C06_on_mid`: around a midpoint between two finite floats
         the result is decided by the comparison with the midpoint only — however small the
         difference;  `C06_sticky_value`: a non-zero digit after ARBITRARILY many zeros makes the
         value strictly larger, hence (`C06_sticky_rne`) an exact tie plus such a digit rounds up.
  * and their parse-level forms for the non-compact configurations
    (`C06_append_zeros_parse`, `C06_sticky_parse`).
-/
import MinLex.Proofs.Compose
namespace MinLex.C06
open MinLex MinLex.Main MinLex.Compose

def C06_statement (E : Env) (F : FloatC) : Prop :=
  ∀ (int frac : List UInt8) (e : Int), Valid int frac e →
    parseFloat E F int frac e = .ok (rne F.fmt (digitsValue int frac e))

/-- **C06 for the non-compact configurations: proved outright**, for digit strings of any length. -/
theorem C06_noncompact (cfg : Cfg) (hc : cfg.compact = false) {F : FloatC}
    (hF : F = Gen.F32 ∨ F = Gen.F64) : C06_statement (genEnv cfg) F :=
  parseCorrect_noncompact cfg hc hF

/-- C06 over all configurations, under the open Bellerophon contracts. -/
theorem C06_partial (cfg : Cfg) {F : FloatC} (hF : F = Gen.F32 ∨ F = Gen.F64) (h : OpenCompact F) :
    C06_statement (genEnv cfg) F :=
  parseCorrect_of_open cfg hF h

/-- an 803-digit input: `1.` followed by 800 zeros and `25`; and `9007199254740993` (`2^53 + 1`, an
    exact tie) followed by 800 zeros and a `1`, which must round UP -/
example : parseFloat (genEnv ⟨false, false, false⟩) Gen.F64 [49] (List.replicate 800 48 ++ [50, 53]) 0
      = .ok 0x3FF0000000000000 ∧
    parseFloat (genEnv ⟨false, false, false⟩) Gen.F64
      [57, 48, 48, 55, 49, 57, 57, 50, 53, 52, 55, 52, 48, 57, 57, 51] (List.replicate 800 48 ++ [49]) 0
      = .ok 0x4340000000000001 := by
  rw [C06_noncompact ⟨false, false, false⟩ rfl (Or.inr rfl) _ _ _ (by decide +kernel),
    C06_noncompact ⟨false, false, false⟩ rfl (Or.inr rfl) _ _ _ (by decide +kernel)]
  decide +kernel

-- ------------------------------------------------------------------ (i) trailing zeros
/-- (i) appended fraction zeros do not change the value -/
theorem C06_append_zeros_value (int frac : List UInt8) (e : Int) (k : Nat) :
    Q.eqv (digitsValue int (frac ++ List.replicate k 48) e) (digitsValue int frac e) :=
  digitsValue_append_zeros int frac e k

/-- (i) … nor the rounded result -/
theorem C06_append_zeros_rne (f : Fmt) (int frac : List UInt8) (e : Int) (k : Nat) :
    rne f (digitsValue int (frac ++ List.replicate k 48) e) = rne f (digitsValue int frac e) :=
  rne_digitsValue_append_zeros f int frac e k

/-- (i) … nor the parse result (the two inputs may take different paths through the parser) -/
theorem C06_append_zeros_parse (cfg : Cfg) (hc : cfg.compact = false) {F : FloatC}
    (hF : F = Gen.F32 ∨ F = Gen.F64) (int frac : List UInt8) (e : Int) (k : Nat)
    (h1 : Valid int frac e) (h2 : Valid int (frac ++ List.replicate k 48) e) :
    parseFloat (genEnv cfg) F int (frac ++ List.replicate k 48) e = parseFloat (genEnv cfg) F int frac e := by
  rw [C06_noncompact cfg hc hF _ _ _ h1, C06_noncompact cfg hc hF _ _ _ h2,
    C06_append_zeros_rne]

example : Valid [49] [53] 0 ∧ Valid [49] ([53] ++ List.replicate 1000 48) 0 := by decide +kernel

-- ------------------------------------------------------------------ (ii) around a midpoint
/-- (ii) strictly above the midpoint between the finite floats `b` and `b+1` (and not above `b+1`):
    the result is `b+1`, however small the excess -/
theorem C06_above_mid (f : Fmt) {v : Q} (hv : 0 < v.den) {b : Nat} (hb : b + 1 < f.infBits)
    (h1 : Q.lt (midpoint f b) v) (h2 : Q.le v (decodeQ f (b + 1))) : rne f v = b + 1 :=
  rne_above_mid f hv hb h1 h2

/-- (ii) strictly below the midpoint (and not below `b`): the result is `b` -/
theorem C06_below_mid (f : Fmt) {v : Q} (hv : 0 < v.den) {b : Nat} (hb : b < f.infBits)
    (h1 : Q.le (decodeQ f b) v) (h2 : Q.lt v (midpoint f b)) : rne f v = b :=
  rne_below_mid f hv hb h1 h2

/-- (ii) exactly on the midpoint: the even pattern -/
theorem C06_on_mid (f : Fmt) (hM : 1 ≤ f.mbits) {v : Q} (hv : 0 < v.den) {b : Nat} (hb : b < f.infBits)
    (h : Q.eqv v (midpoint f b)) : rne f v = if b % 2 = 0 then b else b + 1 :=
  rne_on_mid f hM hv hb h

/-- (ii) a non-zero digit after arbitrarily many zeros gives a strictly larger value -/
theorem C06_sticky_value (int frac : List UInt8) (e : Int) (k : Nat) {c : UInt8}
    (hd : isDigit c = true) (h0 : c ≠ 48) :
    Q.lt (digitsValue int frac e) (digitsValue int (frac ++ List.replicate k 48 ++ [c]) e) :=
  digitsValue_sticky_lt int frac e k hd h0

/-- (ii) if `int.frac × 10^e` is EXACTLY the midpoint between the finite floats `b` and `b+1`, the
    same digits followed by `k` zeros and one non-zero digit round to `b+1` — for every `k` —
    as long as the new value has not passed `b+1` itself. -/
theorem C06_sticky_rne (f : Fmt) {int frac : List UInt8} {e : Int} {b : Nat} (hb : b + 1 < f.infBits)
    (hmid : Q.eqv (digitsValue int frac e) (midpoint f b)) (k : Nat) {c : UInt8}
    (hd : isDigit c = true) (h0 : c ≠ 48)
    (hle : Q.le (digitsValue int (frac ++ List.replicate k 48 ++ [c]) e) (decodeQ f (b + 1))) :
    rne f (digitsValue int (frac ++ List.replicate k 48 ++ [c]) e) = b + 1 := by
  have hv := MinLex.digitsValue_den_pos int (frac ++ List.replicate k 48 ++ [c]) e
  have hv0 := MinLex.digitsValue_den_pos int frac e
  have hmd := midpoint_den_pos f b
  refine rne_above_mid f hv hb ?_ hle
  rw [Q.lt_iff hmd hv, ← (Q.eqv_iff hv0 hmd).1 hmid, ← Q.lt_iff hv0 hv]
  exact digitsValue_sticky_lt int frac e k hd h0

/-- (ii) at parse level (non-compact configurations): the tie itself goes to the even pattern, the
    tie followed by zeros likewise, the tie followed by zeros and a non-zero digit goes up. -/
theorem C06_sticky_parse (cfg : Cfg) (hc : cfg.compact = false) {F : FloatC}
    (hF : F = Gen.F32 ∨ F = Gen.F64) {int frac : List UInt8} {e : Int} {b : Nat}
    (hb : b + 1 < F.fmt.infBits)
    (hmid : Q.eqv (digitsValue int frac e) (midpoint F.fmt b)) (k : Nat) {c : UInt8}
    (hd : isDigit c = true) (h0 : c ≠ 48)
    (h1 : Valid int frac e) (h2 : Valid int (frac ++ List.replicate k 48) e)
    (h3 : Valid int (frac ++ List.replicate k 48 ++ [c]) e)
    (hle : Q.le (digitsValue int (frac ++ List.replicate k 48 ++ [c]) e) (decodeQ F.fmt (b + 1))) :
    parseFloat (genEnv cfg) F int frac e = .ok (if b % 2 = 0 then b else b + 1) ∧
    parseFloat (genEnv cfg) F int (frac ++ List.replicate k 48) e = .ok (if b % 2 = 0 then b else b + 1) ∧
    parseFloat (genEnv cfg) F int (frac ++ List.replicate k 48 ++ [c]) e = .ok (b + 1) := by
  have hM : 1 ≤ F.fmt.mbits := by rcases hF with rfl | rfl <;> decide
  have ht := rne_on_mid F.fmt hM (MinLex.digitsValue_den_pos int frac e) (by omega) hmid
  refine ⟨?_, ?_, ?_⟩
  · rw [C06_noncompact cfg hc hF _ _ _ h1, ht]
  · rw [C06_noncompact cfg hc hF _ _ _ h2, C06_append_zeros_rne, ht]
  · rw [C06_noncompact cfg hc hF _ _ _ h3, C06_sticky_rne F.fmt hb hmid k hd h0 hle]

/-- non-vacuity of `C06_sticky_parse`: `2^53 + 1 = 9007199254740993` is the midpoint of
    `0x4340000000000000`; 300 zeros and a `7` after the point -/
example : (0x4340000000000000 : Nat) + 1 < Gen.F64.fmt.infBits ∧
    Q.eqv (digitsValue [57, 48, 48, 55, 49, 57, 57, 50, 53, 52, 55, 52, 48, 57, 57, 51] [] 0)
      (midpoint Gen.F64.fmt 0x4340000000000000) ∧
    isDigit 55 = true ∧ (55 : UInt8) ≠ 48 ∧
    Valid [57, 48, 48, 55, 49, 57, 57, 50, 53, 52, 55, 52, 48, 57, 57, 51] [] 0 ∧
    Valid [57, 48, 48, 55, 49, 57, 57, 50, 53, 52, 55, 52, 48, 57, 57, 51] ([] ++ List.replicate 300 48) 0 ∧
    Valid [57, 48, 48, 55, 49, 57, 57, 50, 53, 52, 55, 52, 48, 57, 57, 51]
      ([] ++ List.replicate 300 48 ++ [55]) 0 ∧
    Q.le (digitsValue [57, 48, 48, 55, 49, 57, 57, 50, 53, 52, 55, 52, 48, 57, 57, 51]
      ([] ++ List.replicate 300 48 ++ [55]) 0) (decodeQ Gen.F64.fmt (0x4340000000000000 + 1)) := by
  decide +kernel

end MinLex.C06
