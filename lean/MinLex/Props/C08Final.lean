/-
  Property C08, final form: ONE statement about the WHOLE parser.

  `parseFloatLog E F int frac e` (Proofs/SitesAll) is `parseFloat` with every unchecked constant-table
  read replaced by a logging primitive; it returns the outcome and the list of `Access`es
  (`site`, `index` handed to `get_unchecked`, `bound` = length of the table read) in program order:

     S1 / S2 / S4   `F::pow_fast_path(k)`          `SMALL_F32_POW10` (16) / `SMALL_F64_POW10` (32)
     S3             `int_pow_fast_path(k, Ten)`    `SMALL_INT_POW10` (20)        number.rs
     S5 / S6        `int_pow_fast_path(k, Ten)`    `SMALL_INT_POW10` (20)        slow.rs `add_temporary!(@end)`
     S7             `int_pow_fast_path(k, Five)`   `SMALL_INT_POW5`  (28)        bigint.rs `pow`, reached from
                                                    `positive_digit_comp` (`pow(10, …)`) and
                                                    `negative_digit_comp` (`pow(5, …)`)

  (compact builds call `powf` / `u64::pow` instead and read no table: the log is empty there.)

   (1) `C08_final_faithful`   the instrumentation does not change the outcome          (any `E`, any bytes)
   (2) `C08_final`            every logged access has `index < bound`                   (all 8 cfgs, f32/f64,
                              ARBITRARY bytes, every `e : Int`, a fortiori every `i32`)
       `C08_final_ranges`     … with the per-site ranges (`≤ 22`, `≤ 10`, `1 … 15`, `1 … 19`, `1 … 26`)
       `C08_final_compact`    … and the log is `[]` in compact builds
       `C08_final_complete`   the log is complete: the outcome depends on the tables only through the
                              slots logged in that run (`C08_final_scrubbed`: junk everywhere else)
   (3) `C08_vectors_final`    the vector half (S8 – S17) collected in one conjunction
   (4) `C08_outcome`          the outcome is `.panic` or `.ok bits` with `bits < 2^width`
       `C08_whole_parser`     (1) + (2) + (4) in one statement
  No theorem here uses `Valid`.
-/
import MinLex.Proofs.SitesAll
import MinLex.Props.C08
import MinLex.Props.C04
namespace MinLex.C08Final
open MinLex MinLex.Sites MinLex.SitesAll

-- ================================================================ (1) faithfulness

/-- (1) the instrumented parser computes the outcome of `parse_float` — for every environment (in
    particular the generated one of each configuration), every format record, ALL byte lists -/
theorem C08_final_faithful (E : Env) (F : FloatC) (int frac : List UInt8) (e : Int) :
    (parseFloatLog E F int frac e).1 = parseFloat E F int frac e :=
  parseFloatLog_fst E F int frac e

/-- (1) as requested, for the generated environments -/
theorem C08_final_faithful_gen (cfg : Cfg) (F : FloatC) (int frac : List UInt8) (e : Int) :
    (parseFloatLog (genEnv cfg) F int frac e).1 = parseFloat (genEnv cfg) F int frac e :=
  parseFloatLog_fst (genEnv cfg) F int frac e

/-- the logging primitive for `F::pow_fast_path` is, in the generated environment of a non-compact
    build, literally the logged read of `SMALL_F32_POW10` / `SMALL_F64_POW10`; the other two
    primitives (`intPow10Log`, `intPow5Log`) are logged `getD`s by definition -/
theorem C08_final_reads_are_reads (cfg : Cfg) (hc : cfg.compact = false) (site : SiteId) (k : Nat) :
    powFastPathLog (genEnv cfg) Gen.F32 site k = (Gen.smallF32Pow10.getD k 0, [⟨site, k, Gen.smallF32Pow10.length⟩]) ∧
    powFastPathLog (genEnv cfg) Gen.F64 site k = (Gen.smallF64Pow10.getD k 0, [⟨site, k, Gen.smallF64Pow10.length⟩]) ∧
    (∀ tbl, intPow10Log site false tbl k = (tbl.getD k 0, [⟨site, k, tbl.length⟩])) ∧
    (∀ tbl, intPow5Log false tbl k = (tbl.getD k 0, [⟨.S7, k, tbl.length⟩])) :=
  ⟨genEnv_powFastPathLog cfg hc Gen.F32 site k, genEnv_powFastPathLog cfg hc Gen.F64 site k,
   fun _ => rfl, fun _ => rfl⟩

-- ================================================================ (2) every logged access is in bounds

/-- the recorded bounds are the lengths of the regenerated tables -/
theorem bounds_gen (cfg : Cfg) :
    (floatTable Gen.F32).length = Gen.smallF32Pow10.length ∧ (floatTable Gen.F64).length = Gen.smallF64Pow10.length ∧
    (genEnv cfg).pow.smallIntPow10.length = Gen.smallIntPow10.length ∧
    (genEnv cfg).pow.smallIntPow5.length = Gen.smallIntPow5.length := ⟨rfl, rfl, rfl, rfl⟩

/-- the static range of a site, with the constants of the two formats and the generated tables:
    the index is below the bound -/
theorem good_lt (cfg : Cfg) {F : FloatC} (hF : F = Gen.F32 ∨ F = Gen.F64) {a : Access}
    (h : a.Good (genEnv cfg).pow F) : a.index < a.bound := by
  have hl := table_lengths
  have h10 : (genEnv cfg).pow.smallIntPow10.length = 20 := hl.2.2.1
  have h5 : (genEnv cfg).pow.smallIntPow5.length = 28 := hl.2.2.2.1
  have ht32 : (floatTable Gen.F32).length = 16 := hl.2.1
  have ht64 : (floatTable Gen.F64).length = 32 := hl.1
  unfold Access.Good at h
  rcases hF with rfl | rfl
  · have hc := consts_F32
    split at h <;> omega
  · have hc := consts_F64
    split at h <;> omega

/-- **C08 (whole parser).**  For every configuration, both formats, ALL `int frac : List UInt8`
    (arbitrary bytes — no `Valid`) and every exponent `e` (every `Int`, a fortiori every `i32`):
    every unchecked table read performed by `parse_float` hands `get_unchecked` an index below the
    length of the table it reads. -/
theorem C08_final (cfg : Cfg) (F : FloatC) (hF : F = Gen.F32 ∨ F = Gen.F64) (int frac : List UInt8) (e : Int) :
    ∀ a ∈ (parseFloatLog (genEnv cfg) F int frac e).2, a.index < a.bound :=
  fun a ha => good_lt cfg hF (parseFloatLog_good (genEnv cfg) F int frac e a ha)

/-- the statement exactly as specified (exponent restricted to `i32`) -/
theorem C08_final_i32 (cfg : Cfg) (F : FloatC) (hF : F = Gen.F32 ∨ F = Gen.F64) (int frac : List UInt8) (e : Int)
    (_h1 : i32Min ≤ e) (_h2 : e ≤ i32Max) :
    ∀ a ∈ (parseFloatLog (genEnv cfg) F int frac e).2, a.index < a.bound :=
  C08_final cfg F hF int frac e

/-- (2, detailed) the range and the recorded bound per site, f64 -/
theorem C08_final_ranges_f64 (cfg : Cfg) (int frac : List UInt8) (e : Int) :
    ∀ a ∈ (parseFloatLog (genEnv cfg) Gen.F64 int frac e).2,
      match a.site with
      | .S1 | .S2 => a.index ≤ 22 ∧ a.bound = Gen.smallF64Pow10.length
      | .S4 => a.index = 22 ∧ a.bound = Gen.smallF64Pow10.length
      | .S3 => 1 ≤ a.index ∧ a.index ≤ 15 ∧ a.bound = Gen.smallIntPow10.length
      | .S5S6 => 1 ≤ a.index ∧ a.index ≤ 19 ∧ a.bound = Gen.smallIntPow10.length
      | .S7 => 1 ≤ a.index ∧ a.index ≤ 26 ∧ a.bound = Gen.smallIntPow5.length := by
  intro a ha
  have h := parseFloatLog_good (genEnv cfg) Gen.F64 int frac e a ha
  have hc := consts_F64
  unfold Access.Good at h
  rw [hc.1, hc.2.1, hc.2.2] at h
  split <;> rename_i hs <;> simp only [hs] at h <;> exact h

/-- (2, detailed) the range and the recorded bound per site, f32 -/
theorem C08_final_ranges_f32 (cfg : Cfg) (int frac : List UInt8) (e : Int) :
    ∀ a ∈ (parseFloatLog (genEnv cfg) Gen.F32 int frac e).2,
      match a.site with
      | .S1 | .S2 => a.index ≤ 10 ∧ a.bound = Gen.smallF32Pow10.length
      | .S4 => a.index = 10 ∧ a.bound = Gen.smallF32Pow10.length
      | .S3 => 1 ≤ a.index ∧ a.index ≤ 7 ∧ a.bound = Gen.smallIntPow10.length
      | .S5S6 => 1 ≤ a.index ∧ a.index ≤ 19 ∧ a.bound = Gen.smallIntPow10.length
      | .S7 => 1 ≤ a.index ∧ a.index ≤ 26 ∧ a.bound = Gen.smallIntPow5.length := by
  intro a ha
  have h := parseFloatLog_good (genEnv cfg) Gen.F32 int frac e a ha
  have hc := consts_F32
  unfold Access.Good at h
  rw [hc.1, hc.2.1, hc.2.2] at h
  split <;> rename_i hs <;> simp only [hs] at h <;> exact h

/-- the table lengths as compiled -/
theorem C08_final_lengths :
    Gen.smallF64Pow10.length = 32 ∧ Gen.smallF32Pow10.length = 16 ∧
    Gen.smallIntPow10.length = 20 ∧ Gen.smallIntPow5.length = 28 :=
  ⟨table_lengths.1, table_lengths.2.1, table_lengths.2.2.1, table_lengths.2.2.2.1⟩

/-- compact builds (`powf`, `u64::pow`) perform none of these reads -/
theorem C08_final_compact (cfg : Cfg) (hc : cfg.compact = true) (F : FloatC) (int frac : List UInt8) (e : Int) :
    (parseFloatLog (genEnv cfg) F int frac e).2 = [] :=
  parseFloatLog_compact (genEnv cfg) F int frac e hc hc

-- ================================================================ non-vacuity of (2)

/-- garbage bytes `FF 00 39`: the wrapped "mantissa" is 22789 and the fast path multiplies by
    `SMALL_F64_POW10[0]`; with exponent 30 the disguised fast path reads `SMALL_INT_POW10[8]` and
    `SMALL_F64_POW10[22]`; f32 with exponent −3 divides by `SMALL_F32_POW10[3]` -/
example :
    (parseFloatLog (genEnv ⟨false, false, true⟩) Gen.F64 [0xFF, 0x00, 0x39] [] 0).2 = [⟨.S2, 0, 32⟩] ∧
    (parseFloatLog (genEnv ⟨false, false, true⟩) Gen.F64 [0xFF, 0x00, 0x39] [] 30).2 =
      [⟨.S3, 8, 20⟩, ⟨.S4, 22, 32⟩] ∧
    (parseFloatLog (genEnv ⟨false, true, false⟩) Gen.F32 [0xFF, 0x00, 0x39] [] (-3)).2 = [⟨.S1, 3, 16⟩] := by
  decide +kernel

/-- a long garbage input (6 garbage bytes, 40 zeros, one more garbage byte; exponent 15) that Lemire
    declines: `parse_mantissa` flushes 9 digits through `SMALL_INT_POW10[9]` (S5/S6) and
    `negative_digit_comp`'s `pow(5, …)` ends with `SMALL_INT_POW5[26]` (S7), the largest index possible -/
example :
    (parseFloatLog (genEnv ⟨false, false, true⟩) Gen.F64 [0xFF, 0x00, 0x39, 0x2E, 0x65, 0x80]
      (List.replicate 40 0x30 ++ [0xFE]) 15).2 = [⟨.S5S6, 9, 20⟩, ⟨.S7, 26, 28⟩] := by
  decide +kernel

/-- a long digit input reaching S5/S6 and S7 (`negative_digit_comp`), and one reaching S7 through
    `positive_digit_comp`'s `pow(10, …)` -/
example :
    (parseFloatLog (genEnv ⟨false, false, true⟩) Gen.F64
      [57, 52, 57, 53, 55, 56, 52, 49, 55, 49, 51, 54, 53, 57, 52, 52, 55, 54, 53, 49] [] (-330)).2 =
      [⟨.S5S6, 1, 20⟩, ⟨.S7, 6, 28⟩] ∧
    (parseFloatLog (genEnv ⟨false, false, true⟩) Gen.F64
      [57, 48, 48, 55, 49, 57, 57, 50, 53, 52, 55, 52, 48, 57, 57, 51]
      (List.replicate 21 48 ++ [49]) 0).2 = [⟨.S7, 22, 28⟩] := by
  decide +kernel

/-- the same long input in a compact build: no table is read -/
example : (parseFloatLog (genEnv ⟨true, false, true⟩) Gen.F64 [0xFF, 0x00, 0x39, 0x2E, 0x65, 0x80]
      (List.replicate 40 0x30 ++ [0xFE]) 15).2 = [] :=
  C08_final_compact _ rfl _ _ _ _

-- ================================================================ (2') the log is complete

/-- **completeness of the log.**  In a non-compact configuration, for ALL bytes: the outcome of
    `parse_float` is the same in ANY environment `E'` that agrees with the generated one on the checked
    data and on the table slots recorded in the log of THIS run — whatever `E'` holds in every other
    slot of the three unchecked tables (in particular past their ends).  So `parseFloatLog` misses no
    read the outcome depends on; together with `C08_final` (all logged reads are in bounds): the
    outcome is a function of in-bounds table slots only. -/
theorem C08_final_complete (cfg : Cfg) (hnc : cfg.compact = false) (F : FloatC) (E' : Env)
    (int frac : List UInt8) (e : Int)
    (hcfg : E'.cfg = cfg) (hlem : E'.lem = genLemire) (hbel : E'.bel = genBel)
    (hT : AgreeLog (genEnv cfg).pow E'.pow (parseFloatLog (genEnv cfg) F int frac e).2)
    (hpw : AgreePw (genEnv cfg) E' F (parseFloatLog (genEnv cfg) F int frac e).2) :
    parseFloat (genEnv cfg) F int frac e = parseFloat E' F int frac e :=
  parseFloat_congrLog (genEnv cfg) E' F int frac e hcfg.symm hlem.symm hbel.symm hnc hT hpw

/-- … instantiated: overwrite EVERY slot of `SMALL_INT_POW5`, `SMALL_INT_POW10` and of the
    `pow_fast_path` table that does not occur in the log of the run with junk (`scrubEnv`): the outcome
    does not change -/
theorem C08_final_scrubbed (cfg : Cfg) (hnc : cfg.compact = false) (F : FloatC) (int frac : List UInt8) (e : Int) :
    parseFloat (genEnv cfg) F int frac e =
      parseFloat (scrubEnv cfg (parseFloatLog (genEnv cfg) F int frac e).2) F int frac e :=
  C08_final_complete cfg hnc F _ int frac e rfl rfl rfl (scrubEnv_agreeLog cfg _) (scrubEnv_agreePw cfg F _)

/-- non-vacuity: for the long garbage input above only `SMALL_INT_POW10[9]` and `SMALL_INT_POW5[26]`
    survive the scrubbing; everything else really is junk -/
example :
    let l := (parseFloatLog (genEnv ⟨false, false, true⟩) Gen.F64 [0xFF, 0x00, 0x39, 0x2E, 0x65, 0x80]
      (List.replicate 40 0x30 ++ [0xFE]) 15).2
    (scrubEnv ⟨false, false, true⟩ l).pow.smallIntPow10.getD 9 0 = 1000000000 ∧
    (scrubEnv ⟨false, false, true⟩ l).pow.smallIntPow10.getD 8 0 = 777 ∧
    (scrubEnv ⟨false, false, true⟩ l).pow.smallIntPow5.getD 26 0 = 5 ^ 26 ∧
    (scrubEnv ⟨false, false, true⟩ l).pow.smallIntPow5.getD 25 0 = 31337 ∧
    (scrubEnv ⟨false, false, true⟩ l).powFastPath Gen.F64 0 = 424242 := by
  decide +kernel

-- ================================================================ (3) the vector half, in one place

/-- **C08 (vectors).**  Every big integer the slow path builds lives in a `StackVec` (62 slots) or a
    `Vec`; it is produced by the vector primitives (S9 – S17) and `shl_limbs` (S8).  Collected here, with
    the exact statements of the theorems of Props/C13 and Props/C08:

    (a) `C13g_len_le`: in every reachable low-level state (any history of operations from `new()`, on
        ANY initial buffer, dead slots optionally re-scrambled after every step) `len ≤ 62` — the
        precondition of `set_len` / `from_raw_parts`, so only slots `< 62` are ever exposed;
    (b) `C13g_history`: and the visible contents are those of the bounded-sequence model;
    (c) `C13h_independent`: the trace of visible contents / success flags does not depend on the initial
        buffer nor on the garbage in fresh buffers — no unwritten slot is ever read into an observable;
    (d) `C13i_scrambled`: … even if every dead slot is overwritten after every single operation;
    (e) `C08_shlLimbs_bounds`: the raw-pointer `shl_limbs` touches only slots `< n + len` and `< 62`,
        reads only initialised slots (`< len`), and touches nothing when the capacity guard fails;
    (f) `C08_shlLimbs_refines`: it refines the abstract `shlLimbs (some 62)`;
    (g) `C08_shlLimbs_written`: the new length is `≤ 62` and every slot below it was written (by the move
        or the zero fill) before `set_len` exposes it;
    (h) `C08_slow_capacity`: for ARBITRARY bytes, in every configuration, every big integer of a successful
        slow-path run (mantissa, its power, `theor_digits` before/after scaling, both operands of
        `compare`) fits the back-end, has `u64` limbs, and on the stack back-end has `≤ 62` limbs. -/
theorem C08_vectors_final :
    (∀ (scramble : Bool) (b : Nat → Nat) (ops : List C13.VOp) (g : Nat → Nat → Nat),
      (C13.lowRun scramble (LowVec.new b) ops g).len ≤ 62) ∧
    (∀ (scramble : Bool) (b : Nat → Nat) (ops : List C13.VOp) (g : Nat → Nat → Nat),
      (C13.lowRun scramble (LowVec.new b) ops g).deref = C13.vrun (some 62) [] ops) ∧
    (∀ (b1 b2 : Nat → Nat) (g1 g2 : Nat → Nat → Nat) (ops : List C13.VOp),
      C13.lowTrace false (LowVec.new b1) ops g1 = C13.lowTrace false (LowVec.new b2) ops g2) ∧
    (∀ (b : Nat → Nat) (g : Nat → Nat → Nat) (ops : List C13.VOp),
      C13.lowTrace true (LowVec.new b) ops g = C13.vtrace (some 62) [] ops) ∧
    (∀ (v : LowVec) (n : Nat),
      (∀ a ∈ (LowVec.shlLimbsLog v n).2, a.slot < n + v.len ∧ a.slot < 62) ∧
      (∀ i, LowVec.Access.read i ∈ (LowVec.shlLimbsLog v n).2 → i < v.len) ∧
      (LowVec.shlLimbs v n = none → (LowVec.shlLimbsLog v n).2 = [])) ∧
    (∀ (v : LowVec) (n : Nat),
      (LowVec.shlLimbs v n).map LowVec.deref = MinLex.shlLimbs (some 62) v.deref n) ∧
    (∀ (v w : LowVec) (n : Nat), LowVec.shlLimbs v n = some w →
      w.len ≤ 62 ∧ (v.len ≠ 0 → w.len = n + v.len) ∧ (v.len = 0 → w = v) ∧
      (v.len ≠ 0 → ∀ i, i < w.len → LowVec.Access.write i ∈ (LowVec.shlLimbsLog v n).2)) ∧
    (∀ (cfg : Cfg) (F : FloatC) (num : Number) (fp : ExtFloat) (int frac : List UInt8) (r : ExtFloat),
      slow (genEnv cfg).cap (genEnv cfg).pow F num fp int frac = some r →
      ∃ l, slowI (genEnv cfg).cap (genEnv cfg).pow F num fp int frac = some (r, l) ∧ l ≠ [] ∧
        ∀ x ∈ l, capOk (genEnv cfg).cap x.length = true ∧ AllLt x ∧
          (cfg.alloc = false → x.length ≤ 62 ∧ toNat x < B ^ 62)) :=
  ⟨C13.C13g_len_le, C13.C13g_history, C13.C13h_independent, C13.C13i_scrambled,
   C08.C08_shlLimbs_bounds, C08.C08_shlLimbs_refines, C08.C08_shlLimbs_written, C08.C08_slow_capacity⟩

/-- non-vacuity of (3): a slow-path run on the stack back-end with garbage bytes as digits, the lengths
    of the big integers it builds; `shl_limbs` reaching exactly the capacity -/
example : (slowI (some 62) (genPow false) Gen.F64 ⟨-30, 12345, true⟩ ⟨2^63, -10⟩ [201, 7, 99] [250]).map
      (fun p => p.2.map List.length) = some [1, 1, 2, 17, 2] ∧
    (LowVec.shlLimbs ⟨fun i => 100 + i, 3⟩ 59).map (·.len) = some 62 ∧
    LowVec.shlLimbs ⟨fun i => 100 + i, 3⟩ 60 = none := by
  decide +kernel

-- ================================================================ (4) the outcome

theorem infBits_lt_width {F : FloatC} (hF : F = Gen.F32 ∨ F = Gen.F64) : F.fmt.infBits < 2 ^ F.width := by
  rcases hF with rfl | rfl <;> decide

/-- **C08 (outcome).**  For ALL bytes the model of `parse_float` either panics (a safe unwind: a failed
    `unwrap` of a capacity check) or returns a value that is a bit pattern of the format. -/
theorem C08_outcome (cfg : Cfg) (F : FloatC) (hF : F = Gen.F32 ∨ F = Gen.F64) (int frac : List UInt8) (e : Int) :
    (∃ bits, parseFloat (genEnv cfg) F int frac e = .ok bits ∧ bits < 2 ^ F.width) ∨
    parseFloat (genEnv cfg) F int frac e = .panic := by
  cases h : parseFloat (genEnv cfg) F int frac e with
  | ok b => exact Or.inl ⟨b, rfl, parseFloat_bits (genEnv cfg) F (infBits_lt_width hF) int frac e b h⟩
  | panic => exact Or.inr rfl

/-- (4, sharper where available) a fast-path result is at most the pattern of `+∞`, and so is every
    slow-path result (`C04c_slow`: it is *definite*) — for ARBITRARY bytes -/
theorem C08_outcome_le_inf (cfg : Cfg) (F : FloatC) (hF : F = Gen.F32 ∨ F = Gen.F64) :
    (∀ (pw ip : Nat → Nat) (n : Number) (v : Nat), tryFastPath F pw ip n = some v → v ≤ F.fmt.infBits) ∧
    (∀ (num : Number) (fp : ExtFloat), fp.mant < 2 ^ 64 → ∀ (int frac : List UInt8) (r : ExtFloat),
      slow (genEnv cfg).cap (genEnv cfg).pow F num fp int frac = some r →
      extendedToFloat F r ≤ F.fmt.infBits ∧ extendedToFloatTraps F r = false) := by
  have hWF : F.WF := by rcases hF with rfl | rfl; exact F32_WF; exact F64_WF
  refine ⟨tryFastPath_le_inf F, fun num fp hm int frac r h => ?_⟩
  have hd := C04.C04c_slow hWF (genPow_tablesLt cfg.compact) hm h
  exact ⟨(LemireArith.definite_bits hWF hd.1).2.1, hd.2⟩

example : parseFloat (genEnv ⟨false, false, true⟩) Gen.F64 [0xFF, 0x00, 0x39] [] 0 = .ok 4671993406577180672 ∧
    (4671993406577180672 : Nat) < 2 ^ Gen.F64.width := by decide +kernel

-- ================================================================ everything about the whole parser

/-- **C08, whole parser, one statement.**  For every configuration, both formats, ALL byte lists and
    every exponent, running the instrumented parser gives
    (1) the outcome of `parse_float`,
    (2) a log of unchecked table reads all of which are in bounds (empty in compact builds),
    (4) an outcome that is `.panic` or `.ok bits` with `bits < 2^width`. -/
theorem C08_whole_parser (cfg : Cfg) (F : FloatC) (hF : F = Gen.F32 ∨ F = Gen.F64) (int frac : List UInt8)
    (e : Int) :
    (parseFloatLog (genEnv cfg) F int frac e).1 = parseFloat (genEnv cfg) F int frac e ∧
    (∀ a ∈ (parseFloatLog (genEnv cfg) F int frac e).2, a.index < a.bound) ∧
    (cfg.compact = true → (parseFloatLog (genEnv cfg) F int frac e).2 = []) ∧
    ((∃ bits, parseFloat (genEnv cfg) F int frac e = .ok bits ∧ bits < 2 ^ F.width) ∨
      parseFloat (genEnv cfg) F int frac e = .panic) :=
  ⟨C08_final_faithful_gen cfg F int frac e, C08_final cfg F hF int frac e,
   fun hc => C08_final_compact cfg hc F int frac e, C08_outcome cfg F hF int frac e⟩

end MinLex.C08Final
