def hello := "world"
