/-
  The limb-width-parametric model (`MinLex/Model/BigintW.lean`, `Model/ParseW.lean`) at `w = 64`
  IS the 64-bit model (`Model/Bigint.lean`, `Model/Slow.lean`, `Model/Parse.lean`), definition by
  definition.
-/
import MinLex.Model.ParseW
namespace MinLex.W.At64
open MinLex

theorem Bw64 : Bw 64 = B := by unfold Bw B; rfl

theorem toNatW64 : toNatW 64 = toNat := by
  funext x
  induction x with
  | nil => rfl
  | cons a xs ih => simp only [toNatW, toNat, ih, Bw64]

theorem AllLtW64 (x : Big) : AllLtW 64 x ↔ AllLt x := by
  unfold AllLtW AllLt; rw [Bw64]

theorem stackLimbs64 : stackLimbs 64 = 62 := by decide

theorem capW64 (a : Bool) : capW 64 a = (if a then none else some 62) := by
  unfold capW; rw [stackLimbs64]

-- ---------------------------------------------------------------- scalar / small
theorem scalarAdd64 : scalarAdd 64 = MinLex.scalarAdd := by
  funext x y; simp only [scalarAdd, MinLex.scalarAdd, Bw64]

theorem scalarMul64 : scalarMul 64 = MinLex.scalarMul := by
  funext x y c; simp only [scalarMul, MinLex.scalarMul, Bw64]

theorem fromU64_64 : fromU64 64 = MinLex.fromU64 := by
  funext v; simp [fromU64, MinLex.fromU64]

theorem smallAddAux64 : smallAddAux 64 = MinLex.smallAddAux := by
  funext c xs
  induction xs generalizing c with
  | nil => rfl
  | cons a xs ih => simp only [smallAddAux, MinLex.smallAddAux, ih, Bw64]

theorem smallAddFrom64 : smallAddFrom 64 = MinLex.smallAddFrom := by
  funext cap x y s; simp only [smallAddFrom, MinLex.smallAddFrom, smallAddAux64]

theorem smallAdd64 : smallAdd 64 = MinLex.smallAdd := by
  funext cap x y; simp only [smallAdd, MinLex.smallAdd, smallAddFrom64]

theorem smallMulAux64 : smallMulAux 64 = MinLex.smallMulAux := by
  funext y c xs
  induction xs generalizing c with
  | nil => rfl
  | cons a xs ih => simp only [smallMulAux, MinLex.smallMulAux, ih, Bw64]

theorem smallMul64 : smallMul 64 = MinLex.smallMul := by
  funext cap x y; simp only [smallMul, MinLex.smallMul, smallMulAux64]

-- ---------------------------------------------------------------- large
theorem largeAddAux64 : largeAddAux 64 = MinLex.largeAddAux := by
  funext xs ys c
  induction xs generalizing ys c with
  | nil => cases ys <;> simp [largeAddAux, MinLex.largeAddAux]
  | cons a xs ih =>
    cases ys with
    | nil => simp [largeAddAux, MinLex.largeAddAux]
    | cons b ys => simp only [largeAddAux, MinLex.largeAddAux, ih, Bw64]

theorem largeAddFrom64 : largeAddFrom 64 = MinLex.largeAddFrom := by
  funext cap x y s
  simp only [largeAddFrom, MinLex.largeAddFrom, largeAddAux64, smallAddFrom64]
  rfl

theorem largeAdd64 : largeAdd 64 = MinLex.largeAdd := by
  funext cap x y; simp only [largeAdd, MinLex.largeAdd, largeAddFrom64]

theorem longMulLoop64 : longMulLoop 64 = MinLex.longMulLoop := by
  funext cap x ys i z
  induction ys generalizing i z with
  | nil => rfl
  | cons a ys ih =>
    simp only [longMulLoop, MinLex.longMulLoop, smallMul64, largeAddFrom64, ih]
    rfl

theorem longMul64 : longMul 64 = MinLex.longMul := by
  funext cap x y
  simp only [longMul, MinLex.longMul, smallMul64, longMulLoop64]
  rfl

theorem largeMul64 : largeMul 64 = MinLex.largeMul := by
  funext cap x y
  simp only [largeMul, MinLex.largeMul, smallMul64, longMul64]
  rfl

-- ---------------------------------------------------------------- shifts
theorem shlL64 : shlL 64 = shl64 := by
  funext x n; simp only [shlL, shl64, Bw64]

theorem shrL64 : shrL 64 = shr64 := by
  funext x n; simp only [shrL, shr64]

theorem shlBitsAux64 : shlBitsAux 64 = MinLex.shlBitsAux := by
  funext n p xs
  induction xs generalizing p with
  | nil => rfl
  | cons a xs ih => simp only [shlBitsAux, MinLex.shlBitsAux, ih, shlL64, shrL64]

theorem shlBits64 : shlBits 64 = MinLex.shlBits := by
  funext cap x n; simp only [shlBits, MinLex.shlBits, shlBitsAux64, shrL64]

theorem shl64' : shl 64 = MinLex.shl := by
  funext cap x n; simp only [shl, MinLex.shl, shlBits64]; rfl

theorem clzL64 : clzL 64 = clz64 := by
  funext v; simp [clzL, clz64]

theorem leadingZeros64 : leadingZeros 64 = MinLex.leadingZeros := by
  funext x; simp only [leadingZeros, MinLex.leadingZeros, clzL64]; rfl

theorem bitLength64 : bitLength 64 = MinLex.bitLength := by
  funext x; simp only [bitLength, MinLex.bitLength, leadingZeros64]

theorem hi64_64 : hi64 64 = MinLex.hi64 := by
  funext x; simp [hi64]

-- ---------------------------------------------------------------- powers
/-- the `as Limb` casts of the small-power look-ups are the identity on 64-bit limbs when the
    table entries are `u64`s (always true for the compact build, where they are computed `% 2^64`) -/
def PowLt (T : PowTables) : Prop :=
  (∀ e, intPow5 T.compact T.smallIntPow5 e < B) ∧ (∀ e, intPow10 T.compact T.smallIntPow10 e < B)

theorem getD_lt_of_all {l : List Nat} {b : Nat} (h : ∀ x ∈ l, x < b) (hb : 0 < b) (e : Nat) :
    l.getD e 0 < b := by
  rw [List.getD_eq_getElem?_getD]
  cases he : l[e]? with
  | none => simpa using hb
  | some v => simpa using h v (List.mem_of_getElem? he)

theorem powLt_genPow (c : Bool) : PowLt (genPow c) := by
  have h5 : ∀ x ∈ Gen.smallIntPow5, x < B := by decide +kernel
  have h10 : ∀ x ∈ Gen.smallIntPow10, x < B := by decide +kernel
  have hB : 0 < B := by decide
  constructor <;> intro e
  · unfold intPow5 genPow
    split
    · exact Nat.mod_lt _ hB
    · exact getD_lt_of_all h5 hB e
  · unfold intPow10 genPow
    split
    · exact Nat.mod_lt _ hB
    · exact getD_lt_of_all h10 hB e

theorem powStep64 : powStep 64 = 27 := by decide

theorem powLargeLoop64 : powLargeLoop 64 = MinLex.powLargeLoop := by
  funext cap T fuel x e
  induction fuel generalizing x e with
  | zero => rfl
  | succ n ih =>
    simp only [powLargeLoop, MinLex.powLargeLoop, largeMul64, ih]
    rfl

theorem powSmallLoop64 : powSmallLoop 64 = MinLex.powSmallLoop := by
  funext cap fuel x e
  induction fuel generalizing x e with
  | zero => rfl
  | succ n ih =>
    simp only [powSmallLoop, MinLex.powSmallLoop, smallMul64, ih, powStep64]
    rfl

theorem pow64 {T : PowTables} (hT : PowLt T) (cap : Option Nat) (x : Big) (e : Nat) :
    pow 64 cap T x e = MinLex.pow cap T x e := by
  have h : ∀ e2, intPow5 T.compact T.smallIntPow5 e2 % Bw 64 = intPow5 T.compact T.smallIntPow5 e2 :=
    fun e2 => Nat.mod_eq_of_lt (by rw [Bw64]; exact hT.1 e2)
  simp only [pow, MinLex.pow, powLargeLoop64, powSmallLoop64, smallMul64, h]
  rfl

theorem bigintPow64 {T : PowTables} (hT : PowLt T) (cap : Option Nat) (x : Big) (b e : Nat) :
    bigintPow 64 cap T x b e = MinLex.bigintPow cap T x b e := by
  simp only [bigintPow, MinLex.bigintPow, pow64 hT, shl64']
  rfl

-- ---------------------------------------------------------------- slow.rs
theorem pmStep64 : pmStep 64 = MinLex.pmStep := by decide
theorem pmMaxNative64 : pmMaxNative 64 = MinLex.pmMaxNative := by decide

/-- the parametric model does not track the checked-build `trap` flag -/
def clr (s : PM) : PM := { s with trap := false }

def clrOut : PMOut → PMOut
  | .exhausted s => .exhausted (clr s)
  | .full s rest => .full (clr s) rest

theorem pmMulAdd64 : pmMulAdd 64 = MinLex.pmMulAdd := by
  funext cap r p v
  simp only [pmMulAdd, MinLex.pmMulAdd, smallMul64, smallAdd64]
  rfl

theorem addDigit64 (s : PM) (c : UInt8) : addDigit 64 (clr s) c = clr (s.addDigit c) := by
  have : u64Mod = Bw 64 := by decide
  simp only [addDigit, PM.addDigit, clr, this]

theorem flushMax64 (cap : Option Nat) (s : PM) : flushMax 64 cap (clr s) = clr (s.flushMax cap) := by
  simp only [flushMax, PM.flushMax, clr, pmMulAdd64, pmMaxNative64]

theorem flushEnd64 {T : PowTables} (hT : PowLt T) (cap : Option Nat) (s : PM) :
    flushEnd 64 cap T (clr s) = clr (s.flushEnd cap T) := by
  have h : ∀ e2, intPow10 T.compact T.smallIntPow10 e2 % Bw 64 = intPow10 T.compact T.smallIntPow10 e2 :=
    fun e2 => Nat.mod_eq_of_lt (by rw [Bw64]; exact hT.2 e2)
  unfold flushEnd PM.flushEnd
  simp only [clr, pmMulAdd64, h]
  split <;> rfl

theorem roundUpNonzero64 (cap : Option Nat) (s : PM) (rest : List UInt8) :
    roundUpNonzero 64 cap (clr s) rest = (s.roundUpNonzero cap rest).map clr := by
  unfold roundUpNonzero PM.roundUpNonzero
  simp only [clr, pmMulAdd64]
  split <;> rfl

theorem pmLoop64 {T : PowTables} (hT : PowLt T) (cap : Option Nat) (md : Nat) :
    ∀ (ds : List UInt8) (s : PM), pmLoop 64 cap T md ds (clr s) = clrOut (MinLex.pmLoop cap T md ds s) := by
  intro ds
  induction ds with
  | nil =>
    intro s
    rw [pmLoop.eq_1, MinLex.pmLoop.eq_1]
    show (if s.count ≥ md then _ else _) = _
    split
    · rw [flushEnd64 hT]; rfl
    · rfl
  | cons c rest ih =>
    intro s
    rw [pmLoop.eq_2, MinLex.pmLoop.eq_2]
    show (if s.count ≥ md then _ else _) = _
    split
    · rw [flushEnd64 hT]; rfl
    · simp only [addDigit64, pmStep64]
      show (if (s.addDigit c).count ≥ md then _ else
        if (s.addDigit c).counter ≥ MinLex.pmStep then _ else _) = _
      split
      · rw [flushEnd64 hT]; rfl
      · split
        · rw [flushMax64, ih]
        · rw [ih]

theorem pmSkipZeros64 : ∀ (frac : List UInt8) (s : PM),
    pmSkipZeros 64 frac (clr s) = (clr (MinLex.pmSkipZeros frac s).1, (MinLex.pmSkipZeros frac s).2) := by
  intro frac
  induction frac with
  | nil => intro s; rfl
  | cons c rest ih =>
    intro s
    unfold pmSkipZeros MinLex.pmSkipZeros
    split
    · rw [addDigit64]
    · exact ih s

theorem clr_result (s : PM) : (clr s).result = s.result := rfl
theorem clr_count (s : PM) : (clr s).count = s.count := rfl

/-- `parse_mantissa`: the same state as the 64-bit model up to the `trap` field -/
theorem parseMantissaPM64 {T : PowTables} (hT : PowLt T) (cap : Option Nat) (int frac : List UInt8)
    (md : Nat) : parseMantissaPM 64 cap T int frac md = clr (MinLex.parseMantissaPM cap T int frac md) := by
  unfold parseMantissaPM MinLex.parseMantissaPM
  simp only []
  have key := pmLoop64 hT cap md int ⟨0, 0, 0, some [], false⟩
  change pmLoop 64 cap T md int ⟨0, 0, 0, some [], false⟩ = _ at key
  rw [key]
  generalize MinLex.pmLoop cap T md int ⟨0, 0, 0, some [], false⟩ = out
  cases out with
  | full s rest =>
    simp only [clrOut, roundUpNonzero64]
    generalize s.roundUpNonzero cap rest = o1
    cases o1 with
    | some s' => rfl
    | none =>
      simp only [Option.map]
      generalize s.roundUpNonzero cap frac = o2
      cases o2 <;> rfl
  | exhausted s =>
    simp only [clrOut, clr_count]
    by_cases hc : s.count = 0
    · simp only [hc, if_true, pmSkipZeros64, pmLoop64 hT]
      generalize MinLex.pmLoop cap T md (MinLex.pmSkipZeros frac s).2 (MinLex.pmSkipZeros frac s).1 = out2
      cases out2 with
      | full s2 rest =>
        simp only [clrOut, roundUpNonzero64]
        generalize s2.roundUpNonzero cap rest = o1
        cases o1 <;> rfl
      | exhausted s2 => simp only [clrOut, flushEnd64 hT]
    · simp only [hc, if_false, pmLoop64 hT]
      generalize MinLex.pmLoop cap T md frac s = out2
      cases out2 with
      | full s2 rest =>
        simp only [clrOut, roundUpNonzero64]
        generalize s2.roundUpNonzero cap rest = o1
        cases o1 <;> rfl
      | exhausted s2 => simp only [clrOut, flushEnd64 hT]

theorem parseMantissaPM64_fields {T : PowTables} (hT : PowLt T) (cap : Option Nat)
    (int frac : List UInt8) (md : Nat) :
    (parseMantissaPM 64 cap T int frac md).result = (MinLex.parseMantissaPM cap T int frac md).result ∧
    (parseMantissaPM 64 cap T int frac md).count = (MinLex.parseMantissaPM cap T int frac md).count ∧
    (parseMantissaPM 64 cap T int frac md).counter = (MinLex.parseMantissaPM cap T int frac md).counter ∧
    (parseMantissaPM 64 cap T int frac md).value = (MinLex.parseMantissaPM cap T int frac md).value := by
  rw [parseMantissaPM64 hT]; exact ⟨rfl, rfl, rfl, rfl⟩

theorem parseMantissa64 {T : PowTables} (hT : PowLt T) (cap : Option Nat) (int frac : List UInt8)
    (md : Nat) : parseMantissa 64 cap T int frac md = MinLex.parseMantissa cap T int frac md := by
  unfold parseMantissa MinLex.parseMantissa
  simp only [parseMantissaPM64 hT, clr_result, clr_count]
  rfl

theorem positiveDigitComp64 {T : PowTables} (hT : PowLt T) (cap : Option Nat) (F : FloatC) (bm : Big)
    (e : Int) : positiveDigitComp 64 cap T F bm e = MinLex.positiveDigitComp cap T F bm e := by
  unfold positiveDigitComp MinLex.positiveDigitComp
  simp only [bigintPow64 hT, hi64_64, bitLength64]
  rfl

theorem negativeDigitComp64 {T : PowTables} (hT : PowLt T) (cap : Option Nat) (F : FloatC) (bm : Big)
    (fp : ExtFloat) (e : Int) :
    negativeDigitComp 64 cap T F bm fp e = MinLex.negativeDigitComp cap T F bm fp e := by
  unfold negativeDigitComp MinLex.negativeDigitComp
  simp only [bigintPow64 hT, fromU64_64]
  rfl

theorem slow64 {T : PowTables} (hT : PowLt T) (cap : Option Nat) (F : FloatC) (num : Number)
    (fp : ExtFloat) (int frac : List UInt8) :
    slow 64 cap T F num fp int frac = MinLex.slow cap T F num fp int frac := by
  unfold slow MinLex.slow
  simp only [parseMantissa64 hT, positiveDigitComp64 hT, negativeDigitComp64 hT]
  rfl

theorem genPowW64 : genPowW 64 = genPow := by
  funext c; simp [genPowW]

theorem capW64_env (E : Env) : capW 64 E.cfg.alloc = E.cap := by
  rw [capW64]; rfl

/-- `parse_float` of the parametric model at `w = 64` is the 64-bit model, for every environment
    whose small-power tables hold `u64`s — in particular for the regenerated `genEnv cfg`. -/
theorem parseFloat64_of_powLt {E : Env} (hE : PowLt E.pow) (hpow : genPow E.cfg.compact = E.pow) (F : FloatC)
    (int frac : List UInt8) (e : Int) : parseFloat 64 E F int frac e = MinLex.parseFloat E F int frac e := by
  unfold parseFloat MinLex.parseFloat
  simp only [genPowW64, hpow, slow64 hE, capW64_env]
  rfl

theorem parseFloat64 (cfg : Cfg) : parseFloat 64 (genEnv cfg) = MinLex.parseFloat (genEnv cfg) := by
  funext F int frac e
  exact parseFloat64_of_powLt (powLt_genPow cfg.compact) rfl F int frac e

-- ---------------------------------------------------------------- for the regenerated tables
theorem pow64_genPow (c : Bool) (cap : Option Nat) (x : Big) (e : Nat) :
    pow 64 cap (genPow c) x e = MinLex.pow cap (genPow c) x e := by
  exact pow64 (powLt_genPow c) cap x e

theorem bigintPow64_genPow (c : Bool) (cap : Option Nat) (x : Big) (b e : Nat) :
    bigintPow 64 cap (genPow c) x b e = MinLex.bigintPow cap (genPow c) x b e := by
  exact bigintPow64 (powLt_genPow c) cap x b e

theorem parseMantissa64_genPow (c : Bool) (cap : Option Nat) (int frac : List UInt8) (md : Nat) :
    parseMantissa 64 cap (genPow c) int frac md = MinLex.parseMantissa cap (genPow c) int frac md := by
  exact parseMantissa64 (powLt_genPow c) cap int frac md

theorem slow64_genPow (c : Bool) (cap : Option Nat) : slow 64 cap (genPow c) = MinLex.slow cap (genPow c) := by
  funext F num fp int frac; exact slow64 (powLt_genPow c) cap F num fp int frac

/-- `PowLt` cannot be dropped: the parametric model casts the looked-up small power `as Limb`
    (`% 2^w`), the 64-bit model does not; they differ on a (non-generated) table holding an entry
    `≥ 2^64`.  For the regenerated tables (`powLt_genPow`) there is no difference. -/
example : pow 64 none ⟨false, [1, B + 5], [], [], 0⟩ [1] 1 = some [5] ∧
    MinLex.pow none ⟨false, [1, B + 5], [], [], 0⟩ [1] 1 = some [5, 1] := by decide

-- non-vacuity: the two models side by side on a slow-path input ("0.1", estimate of `Props/SlowPath`)
example : slow 64 (capW 64 false) (genPowW 64 false) Gen.F64 (parseNumber [] [49] 0)
      ⟨0xCCCCCCCCCCCCCCCC, 1008⟩ [] [49] =
    MinLex.slow (some 62) (genPow false) Gen.F64 (parseNumber [] [49] 0)
      ⟨0xCCCCCCCCCCCCCCCC, 1008⟩ [] [49] := by
  rw [genPowW64, capW64]; exact slow64 (powLt_genPow false) _ _ _ _ _ _

end MinLex.W.At64
