/-
  Helper lemmas for the digit-accumulation front (`parse_number`, `try_fast_path`).
-/
import Mathlib.Tactic.Ring
import Mathlib.Tactic.Linarith
import MinLex.Model.Parse
namespace MinLex.ParseNum

-- ---------------------------------------------------------------- digits
/-- all bytes of a list are ASCII digits -/
def AllDigits (ds : List UInt8) : Prop := ∀ c ∈ ds, isDigit c = true

theorem AllDigits.nil : AllDigits [] := by intro c h; cases h

theorem AllDigits.cons_iff {c : UInt8} {ds : List UInt8} :
    AllDigits (c :: ds) ↔ isDigit c = true ∧ AllDigits ds := by
  unfold AllDigits; simp

theorem AllDigits.append_iff {a b : List UInt8} :
    AllDigits (a ++ b) ↔ AllDigits a ∧ AllDigits b := by
  unfold AllDigits; simp only [List.mem_append]
  constructor
  · intro h; exact ⟨fun c hc => h c (Or.inl hc), fun c hc => h c (Or.inr hc)⟩
  · rintro ⟨h1, h2⟩ c (hc | hc)
    · exact h1 c hc
    · exact h2 c hc

theorem isDigit_bounds {c : UInt8} (h : isDigit c = true) : 48 ≤ c.toNat ∧ c.toNat ≤ 57 := by
  unfold isDigit at h
  simp only [Bool.and_eq_true, decide_eq_true_eq] at h
  exact h

theorem digitOf_eq {c : UInt8} (h : isDigit c = true) : digitOf c = digitVal c := by
  have hb := isDigit_bounds h
  unfold digitOf digitVal
  have h48 : (48 : UInt8) ≤ c := by
    rw [UInt8.le_iff_toNat_le]; exact hb.1
  rw [UInt8.toNat_sub_of_le _ _ h48]; rfl

theorem digitVal_le {c : UInt8} (h : isDigit c = true) : digitVal c ≤ 9 := by
  have hb := isDigit_bounds h
  unfold digitVal; omega

theorem digitTraps_eq {c : UInt8} (h : isDigit c = true) : digitTraps c = false := by
  have hb := isDigit_bounds h
  unfold digitTraps; simp only [decide_eq_false_iff_not]; omega

theorem digitVal_eq_zero_iff {c : UInt8} (h : isDigit c = true) : digitVal c = 0 ↔ c = 48 := by
  have hb := isDigit_bounds h
  unfold digitVal
  constructor
  · intro h0
    apply UInt8.toNat_inj.mp
    show c.toNat = 48
    omega
  · intro hc; subst hc; rfl

-- ---------------------------------------------------------------- ofDigits
theorem foldl_digits (m : Nat) (ds : List UInt8) :
    ds.foldl (fun acc c => acc * 10 + digitVal c) m = m * 10 ^ ds.length + ofDigits ds := by
  unfold ofDigits
  induction ds generalizing m with
  | nil => simp
  | cons c ds ih =>
    simp only [List.foldl_cons, List.length_cons]
    rw [ih (m * 10 + digitVal c), ih (0 * 10 + digitVal c)]
    ring

theorem ofDigits_nil : ofDigits [] = 0 := rfl

theorem ofDigits_cons (c : UInt8) (ds : List UInt8) :
    ofDigits (c :: ds) = digitVal c * 10 ^ ds.length + ofDigits ds := by
  have := foldl_digits (0 * 10 + digitVal c) ds
  unfold ofDigits at *
  simp only [List.foldl_cons]
  rw [this]; ring

theorem ofDigits_append (a b : List UInt8) :
    ofDigits (a ++ b) = ofDigits a * 10 ^ b.length + ofDigits b := by
  have := foldl_digits (ofDigits a) b
  unfold ofDigits at *
  rw [List.foldl_append, this]

theorem ofDigits_lt {ds : List UInt8} (h : AllDigits ds) : ofDigits ds < 10 ^ ds.length := by
  induction ds with
  | nil => simp [ofDigits]
  | cons c ds ih =>
    rw [AllDigits.cons_iff] at h
    have h1 := digitVal_le h.1
    have h2 := ih h.2
    rw [ofDigits_cons, List.length_cons, pow_succ]
    nlinarith

theorem pow19_lt_u64 : 10 ^ 19 < u64Mod := by unfold u64Mod; norm_num

-- ---------------------------------------------------------------- accWrap
theorem accWrap_nil (m : Nat) : accWrap m [] = m := rfl

theorem accWrap_cons (m : Nat) (c : UInt8) (ds : List UInt8) :
    accWrap m (c :: ds) = accWrap ((m * 10 % u64Mod + digitOf c) % u64Mod) ds := rfl

theorem accWrap_append (m : Nat) (a b : List UInt8) :
    accWrap (accWrap m a) b = accWrap m (a ++ b) := by
  unfold accWrap; rw [List.foldl_append]

theorem u64Mod_pos : 0 < u64Mod := by unfold u64Mod; omega

/-- wrapping accumulation = exact accumulation modulo 2^64 -/
theorem accWrap_eq {m : Nat} {ds : List UInt8} (hm : m < u64Mod) (hd : AllDigits ds) :
    accWrap m ds = (m * 10 ^ ds.length + ofDigits ds) % u64Mod := by
  induction ds generalizing m with
  | nil => simp [accWrap_nil, ofDigits_nil, Nat.mod_eq_of_lt hm]
  | cons c ds ih =>
    rw [AllDigits.cons_iff] at hd
    rw [accWrap_cons, ih (Nat.mod_lt _ u64Mod_pos) hd.2, digitOf_eq hd.1, ofDigits_cons,
      Nat.mod_add_mod, Nat.add_mod, Nat.mod_mul_mod, ← Nat.add_mod, List.length_cons]
    congr 1; ring

/-- no wrap when the total fits -/
theorem accWrap_nowrap {m : Nat} {ds : List UInt8} (hd : AllDigits ds)
    (h : m * 10 ^ ds.length + ofDigits ds < u64Mod) :
    accWrap m ds = m * 10 ^ ds.length + ofDigits ds := by
  have hm : m < u64Mod := by
    have : 1 ≤ 10 ^ ds.length := Nat.one_le_pow _ _ (by omega)
    nlinarith
  rw [accWrap_eq hm hd, Nat.mod_eq_of_lt h]

theorem accWrap_zero_short {ds : List UInt8} (hd : AllDigits ds) (hl : ds.length ≤ 19) :
    accWrap 0 ds = ofDigits ds := by
  have h1 := ofDigits_lt hd
  have h2 : 10 ^ ds.length ≤ 10 ^ 19 := Nat.pow_le_pow_right (by omega) hl
  have h3 := pow19_lt_u64
  rw [accWrap_nowrap hd] <;> omega

-- ---------------------------------------------------------------- i32 helpers
theorem asI32_small {n : Nat} (h : n < 2147483648) : asI32 n = (n : Int) := by
  unfold asI32 wrapI32
  simp only
  have : ((n : Int)) % 4294967296 = n := by omega
  rw [this]; simp only [ite_eq_left_iff]; omega

theorem intoI32_small {n : Nat} (h : n < 2147483648) : intoI32 n = (n : Int) := by
  unfold intoI32 i32Max
  simp only [ite_eq_right_iff]; omega

-- ---------------------------------------------------------------- accStep
theorem accStep_eq {m : Nat} {c : UInt8} (hc : isDigit c = true)
    (h : m * 10 + digitVal c < u64Mod) : accStep m c = (m * 10 + digitVal c, false) := by
  unfold accStep
  simp only [digitOf_eq hc, digitTraps_eq hc]
  have h1 : m * 10 < u64Mod := by omega
  rw [Nat.mod_eq_of_lt h1, Nat.mod_eq_of_lt h]
  simp only [Bool.false_or, ge_iff_le, Prod.mk.injEq, true_and, Bool.or_eq_false_iff,
    decide_eq_false_iff_not]
  omega

theorem accStep_inv {m count : Nat} {c : UInt8} (hc : isDigit c = true) (hm : m < 10 ^ count)
    (hk : count < 19) :
    accStep m c = (m * 10 + digitVal c, false) ∧ m * 10 + digitVal c < 10 ^ (count + 1) := by
  have hd := digitVal_le hc
  have h1 : m * 10 + digitVal c < 10 ^ (count + 1) := by rw [pow_succ]; omega
  have h2 : 10 ^ (count + 1) ≤ 10 ^ 19 := Nat.pow_le_pow_right (by omega) (by omega)
  have h3 := pow19_lt_u64
  exact ⟨accStep_eq hc (by omega), h1⟩

-- ---------------------------------------------------------------- the integer loop
theorem pnIntLoop_few (e : Int) : ∀ (ds : List UInt8) (count m : Nat) (tr : Bool),
    AllDigits ds → m < 10 ^ count → count + ds.length ≤ 19 →
    pnIntLoop e ds count m tr = .inr (count + ds.length, m * 10 ^ ds.length + ofDigits ds, tr) := by
  intro ds
  induction ds with
  | nil => intro count m tr _ _ _; simp [pnIntLoop, ofDigits_nil]
  | cons c ds ih =>
    intro count m tr hd hm hl
    rw [AllDigits.cons_iff] at hd
    rw [List.length_cons] at hl
    obtain ⟨hs, hm'⟩ := accStep_inv hd.1 hm (by omega)
    unfold pnIntLoop
    rw [if_neg (by omega)]
    simp only [hs, Bool.or_false]
    rw [ih (count + 1) _ tr hd.2 hm' (by omega), ofDigits_cons, List.length_cons]
    congr 2
    · omega
    · congr 1; ring

theorem pnIntLoop_many (e : Int) : ∀ (ds : List UInt8) (count m : Nat) (tr : Bool),
    AllDigits ds → m < 10 ^ count → count ≤ 19 → 19 < count + ds.length →
    pnIntLoop e ds count m tr =
      .inl ⟨⟨satI32 (e + intoI32 (count + ds.length - 19)),
             m * 10 ^ (19 - count) + ofDigits (ds.take (19 - count)), true⟩, tr⟩ := by
  intro ds
  induction ds with
  | nil => intro count m tr _ _ h1 h2; simp at h2; omega
  | cons c ds ih =>
    intro count m tr hd hm hc hl
    rw [AllDigits.cons_iff] at hd
    rw [List.length_cons] at hl
    unfold pnIntLoop
    by_cases h19 : count = 19
    · subst h19
      rw [if_pos rfl]
      simp only [Nat.sub_self, List.take_zero, ofDigits_nil, pow_zero, List.length_cons,
        Nat.mul_one, Nat.add_zero]
      have e0 : 19 + (ds.length + 1) - 19 = 1 + ds.length := by omega
      rw [e0]
    · obtain ⟨hs, hm'⟩ := accStep_inv hd.1 hm (by omega)
      rw [if_neg (by omega)]
      simp only [hs, Bool.or_false]
      rw [ih (count + 1) _ tr hd.2 hm' (by omega) (by omega)]
      have e1 : 19 - count = (19 - (count + 1)) + 1 := by omega
      rw [e1, List.take_succ_cons, ofDigits_cons, List.length_cons]
      have e2 : (List.take (19 - (count + 1)) ds).length = 19 - (count + 1) := by
        rw [List.length_take]; omega
      rw [e2]
      have e3 : count + 1 + ds.length - 19 = count + (ds.length + 1) - 19 := by omega
      have e4 : (m * 10 + digitVal c) * 10 ^ (19 - (count + 1)) +
          ofDigits (List.take (19 - (count + 1)) ds) =
          m * 10 ^ (19 - (count + 1) + 1) + (digitVal c * 10 ^ (19 - (count + 1)) +
          ofDigits (List.take (19 - (count + 1)) ds)) := by ring
      rw [e3, e4]

-- ---------------------------------------------------------------- the fraction loop
theorem pnFracLoop_few (e : Int) : ∀ (ds : List UInt8) (fc count m : Nat) (tr : Bool),
    AllDigits ds → m < 10 ^ count → count + ds.length ≤ 19 →
    pnFracLoop e ds fc count m tr =
      ⟨⟨satI32 (e - asI32 (fc + ds.length)), m * 10 ^ ds.length + ofDigits ds, false⟩, tr⟩ := by
  intro ds
  induction ds with
  | nil => intro fc count m tr _ _ _; simp [pnFracLoop, ofDigits_nil]
  | cons c ds ih =>
    intro fc count m tr hd hm hl
    rw [AllDigits.cons_iff] at hd
    rw [List.length_cons] at hl
    obtain ⟨hs, hm'⟩ := accStep_inv hd.1 hm (by omega)
    unfold pnFracLoop
    rw [if_neg (by omega)]
    simp only [hs, Bool.or_false]
    rw [ih (fc + 1) (count + 1) _ tr hd.2 hm' (by omega), ofDigits_cons, List.length_cons]
    have e3 : fc + 1 + ds.length = fc + (ds.length + 1) := by omega
    have e4 : (m * 10 + digitVal c) * 10 ^ ds.length + ofDigits ds =
        m * 10 ^ (ds.length + 1) + (digitVal c * 10 ^ ds.length + ofDigits ds) := by ring
    rw [e3, e4]

theorem pnFracLoop_many (e : Int) : ∀ (ds : List UInt8) (fc count m : Nat) (tr : Bool),
    AllDigits ds → m < 10 ^ count → count ≤ 19 → 19 < count + ds.length →
    pnFracLoop e ds fc count m tr =
      ⟨⟨satI32 (e - (asI32 (fc + (19 - count) + 1) - 1)),
        m * 10 ^ (19 - count) + ofDigits (ds.take (19 - count)), true⟩, tr⟩ := by
  intro ds
  induction ds with
  | nil => intro fc count m tr _ _ h1 h2; simp at h2; omega
  | cons c ds ih =>
    intro fc count m tr hd hm hc hl
    rw [AllDigits.cons_iff] at hd
    rw [List.length_cons] at hl
    unfold pnFracLoop
    by_cases h19 : count = 19
    · subst h19
      rw [if_pos rfl]
      simp only [Nat.sub_self, List.take_zero, ofDigits_nil, pow_zero, Nat.mul_one, Nat.add_zero]
    · obtain ⟨hs, hm'⟩ := accStep_inv hd.1 hm (by omega)
      rw [if_neg (by omega)]
      simp only [hs, Bool.or_false]
      rw [ih (fc + 1) (count + 1) _ tr hd.2 hm' (by omega) (by omega)]
      have e1 : 19 - count = (19 - (count + 1)) + 1 := by omega
      rw [e1, List.take_succ_cons, ofDigits_cons]
      have e2 : (List.take (19 - (count + 1)) ds).length = 19 - (count + 1) := by
        rw [List.length_take]; omega
      rw [e2]
      have e3 : fc + 1 + (19 - (count + 1)) + 1 = fc + (19 - (count + 1) + 1) + 1 := by omega
      have e4 : (m * 10 + digitVal c) * 10 ^ (19 - (count + 1)) +
          ofDigits (List.take (19 - (count + 1)) ds) =
          m * 10 ^ (19 - (count + 1) + 1) + (digitVal c * 10 ^ (19 - (count + 1)) +
          ofDigits (List.take (19 - (count + 1)) ds)) := by ring
      rw [e3, e4]

-- ---------------------------------------------------------------- significant digits
/-- `int ++ frac` with the leading zeros stripped -/
def sigDigits (int frac : List UInt8) : List UInt8 := (int ++ frac).dropWhile (fun c => c == 48)

theorem ofDigits_dropZeros (l : List UInt8) :
    ofDigits (l.dropWhile (fun c => c == 48)) = ofDigits l := by
  induction l with
  | nil => rfl
  | cons c l ih =>
    by_cases hc : c = 48
    · subst hc
      rw [List.dropWhile_cons_of_pos (by simp), ih, ofDigits_cons]
      simp [digitVal]
    · rw [List.dropWhile_cons_of_neg (by simpa using hc)]

theorem AllDigits.dropWhile {l : List UInt8} (p : UInt8 → Bool) (h : AllDigits l) :
    AllDigits (l.dropWhile p) := by
  intro c hc
  exact h c ((List.dropWhile_sublist p).subset hc)

theorem AllDigits.take {l : List UInt8} (n : Nat) (h : AllDigits l) : AllDigits (l.take n) := by
  intro c hc
  exact h c (List.mem_of_mem_take hc)

theorem AllDigits.drop {l : List UInt8} (n : Nat) (h : AllDigits l) : AllDigits (l.drop n) := by
  intro c hc
  exact h c (List.mem_of_mem_drop hc)

/-- a digit list with non-zero head is at least `10^(length-1)` -/
theorem ofDigits_ge {c : UInt8} {ds : List UInt8} (hc : isDigit c = true) (h0 : c ≠ 48) :
    10 ^ ds.length ≤ ofDigits (c :: ds) := by
  have h1 : digitVal c ≠ 0 := fun h => h0 ((digitVal_eq_zero_iff hc).mp h)
  have h2 : 1 ≤ digitVal c := Nat.one_le_iff_ne_zero.mpr h1
  rw [ofDigits_cons]
  nlinarith [Nat.zero_le (ofDigits ds), Nat.zero_le (10 ^ ds.length)]

-- ---------------------------------------------------------------- skipping zeros
/-- skip leading fraction zeros, then run the fraction loop -/
def fracZ (e : Int) (frac : List UInt8) (fc : Nat) (tr : Bool) : PN :=
  let r := pnSkipZeros frac fc 0 tr
  pnFracLoop e r.2.2.2.2 r.1 r.2.1 r.2.2.1 r.2.2.2.1

theorem fracZ_nil (e : Int) (fc : Nat) (tr : Bool) :
    fracZ e [] fc tr = ⟨⟨satI32 (e - asI32 fc), 0, false⟩, tr⟩ := by
  simp [fracZ, pnSkipZeros, pnFracLoop]

theorem fracZ_zero (e : Int) (rest : List UInt8) (fc : Nat) (tr : Bool) :
    fracZ e (48 :: rest) fc tr = fracZ e rest (fc + 1) tr := by
  simp [fracZ, pnSkipZeros]

theorem fracZ_nonzero (e : Int) {c : UInt8} (rest : List UInt8) (fc : Nat) (tr : Bool)
    (hc : isDigit c = true) (h0 : c ≠ 48) :
    fracZ e (c :: rest) fc tr = pnFracLoop e rest (fc + 1) 1 (digitVal c) tr := by
  have hd := digitVal_le hc
  have hs : accStep 0 c = (0 * 10 + digitVal c, false) :=
    accStep_eq hc (by unfold u64Mod; omega)
  have hne : (c != 48) = true := by simpa using h0
  simp only [fracZ, pnSkipZeros, hne, if_true, hs, Bool.or_false, Nat.zero_mul, Nat.zero_add]

theorem fracZ_few (e : Int) : ∀ (frac : List UInt8) (fc : Nat) (tr : Bool), AllDigits frac →
    (frac.dropWhile (fun c => c == 48)).length ≤ 19 →
    fracZ e frac fc tr =
      ⟨⟨satI32 (e - asI32 (fc + frac.length)),
        ofDigits (frac.dropWhile (fun c => c == 48)), false⟩, tr⟩ := by
  intro frac
  induction frac with
  | nil => intro fc tr _ _; simp [fracZ_nil, ofDigits_nil]
  | cons c rest ih =>
    intro fc tr hd hl
    rw [AllDigits.cons_iff] at hd
    by_cases hc : c = 48
    · subst hc
      rw [List.dropWhile_cons_of_pos (by simp)] at hl ⊢
      rw [fracZ_zero, ih (fc + 1) tr hd.2 hl, List.length_cons]
      have e3 : fc + 1 + rest.length = fc + (rest.length + 1) := by omega
      rw [e3]
    · rw [List.dropWhile_cons_of_neg (by simpa using hc)] at hl ⊢
      rw [List.length_cons] at hl
      have hm : digitVal c < 10 ^ 1 := by have := digitVal_le hd.1; omega
      rw [fracZ_nonzero e rest fc tr hd.1 hc,
        pnFracLoop_few e rest (fc + 1) 1 _ tr hd.2 hm (by omega), ofDigits_cons, List.length_cons]
      have e3 : fc + 1 + rest.length = fc + (rest.length + 1) := by omega
      rw [e3]

theorem fracZ_many (e : Int) : ∀ (frac : List UInt8) (fc : Nat) (tr : Bool), AllDigits frac →
    19 < (frac.dropWhile (fun c => c == 48)).length →
    fracZ e frac fc tr =
      ⟨⟨satI32 (e - (asI32 (fc + (frac.length -
            (frac.dropWhile (fun c => c == 48)).length) + 19 + 1) - 1)),
        ofDigits ((frac.dropWhile (fun c => c == 48)).take 19), true⟩, tr⟩ := by
  intro frac
  induction frac with
  | nil => intro fc tr _ h; simp at h
  | cons c rest ih =>
    intro fc tr hd hl
    rw [AllDigits.cons_iff] at hd
    by_cases hc : c = 48
    · subst hc
      rw [List.dropWhile_cons_of_pos (by simp)] at hl ⊢
      rw [fracZ_zero, ih (fc + 1) tr hd.2 hl, List.length_cons]
      have hle := (List.dropWhile_sublist (l := rest) (fun c => c == 48)).length_le
      have e3 : fc + 1 + (rest.length - (rest.dropWhile (fun c => c == 48)).length) =
          fc + (rest.length + 1 - (rest.dropWhile (fun c => c == 48)).length) := by omega
      rw [e3]
    · rw [List.dropWhile_cons_of_neg (by simpa using hc)] at hl ⊢
      rw [List.length_cons] at hl
      have hm : digitVal c < 10 ^ 1 := by have := digitVal_le hd.1; omega
      rw [fracZ_nonzero e rest fc tr hd.1 hc,
        pnFracLoop_many e rest (fc + 1) 1 _ tr hd.2 hm (by omega) (by omega)]
      have e1 : (19 : Nat) = 18 + 1 := rfl
      have e2 : (List.take 18 rest).length = 18 := by rw [List.length_take]; omega
      have e3 : fc + 1 + (19 - 1) + 1 = fc + ((c :: rest).length - (c :: rest).length) + 19 + 1 := by
        omega
      rw [e3]
      conv => rhs; rw [e1, List.take_succ_cons, ofDigits_cons, e2]

-- ---------------------------------------------------------------- parse_number, closed form
theorem sigDigits_nil (frac : List UInt8) :
    sigDigits [] frac = frac.dropWhile (fun c => c == 48) := rfl

theorem sigDigits_cons {c : UInt8} (int frac : List UInt8) (h0 : c ≠ 48) :
    sigDigits (c :: int) frac = c :: int ++ frac := by
  unfold sigDigits
  rw [List.cons_append, List.dropWhile_cons_of_neg (by simpa using h0)]

theorem sigDigits_length_le (int frac : List UInt8) :
    (sigDigits int frac).length ≤ int.length + frac.length := by
  have := (List.dropWhile_sublist (l := int ++ frac) (fun c => c == 48)).length_le
  rw [List.length_append] at this
  exact this

theorem ofDigits_sigDigits (int frac : List UInt8) :
    ofDigits (sigDigits int frac) = ofDigits (int ++ frac) := ofDigits_dropZeros _

theorem AllDigits.sigDigits {int frac : List UInt8} (hi : AllDigits int) (hf : AllDigits frac) :
    AllDigits (sigDigits int frac) :=
  AllDigits.dropWhile _ (AllDigits.append_iff.mpr ⟨hi, hf⟩)

theorem parseNumberSlow_nil (frac : List UInt8) (e : Int) :
    parseNumberSlow [] frac e = fracZ e frac 0 false := rfl

/-- the exponent of the result before saturation -/
def trueExp (int frac : List UInt8) (e : Int) : Int :=
  e - frac.length + (((sigDigits int frac).length - 19 : Nat) : Int)

theorem parseNumberSlow_few {int frac : List UInt8} {e : Int} (h : Valid int frac e)
    (hs : (sigDigits int frac).length ≤ 19) :
    parseNumberSlow int frac e =
      ⟨⟨satI32 (e - frac.length), ofDigits (sigDigits int frac), false⟩, false⟩ := by
  obtain ⟨hi, hf, hh, hil, hfl, _, _⟩ := h
  cases int with
  | nil =>
    rw [sigDigits_nil] at hs ⊢
    rw [parseNumberSlow_nil, fracZ_few e frac 0 false hf hs, Nat.zero_add,
      asI32_small (by omega)]
  | cons c int =>
    have h0 : c ≠ 48 := by intro hc; subst hc; simp at hh
    rw [sigDigits_cons int frac h0] at hs ⊢
    simp only [List.length_cons, List.length_append] at hs
    have hl : 0 + (c :: int).length ≤ 19 := by simp only [List.length_cons]; omega
    unfold parseNumberSlow
    rw [pnIntLoop_few e (c :: int) 0 0 false hi (by norm_num) hl]
    have hne : ¬ (0 + (c :: int).length = 0) := by simp
    simp only [hne, if_false]
    have hm := ofDigits_lt (ds := c :: int) hi
    rw [pnFracLoop_few e frac 0 _ _ false hf (by simpa using hm)
      (by simp only [List.length_cons]; omega)]
    rw [Nat.zero_add, asI32_small (by omega), Nat.zero_mul, Nat.zero_add,
      ofDigits_append]

theorem parseNumberSlow_many {int frac : List UInt8} {e : Int} (h : Valid int frac e)
    (hs : 19 < (sigDigits int frac).length) :
    parseNumberSlow int frac e =
      ⟨⟨satI32 (trueExp int frac e), ofDigits ((sigDigits int frac).take 19), true⟩, false⟩ := by
  obtain ⟨hi, hf, hh, hil, hfl, _, _⟩ := h
  unfold trueExp
  cases int with
  | nil =>
    rw [sigDigits_nil] at hs ⊢
    have hle := (List.dropWhile_sublist (l := frac) (fun c => c == 48)).length_le
    rw [parseNumberSlow_nil, fracZ_many e frac 0 false hf hs, Nat.zero_add,
      asI32_small (by omega)]
    have e3 : e - (((frac.length - (frac.dropWhile (fun c => c == 48)).length + 19 + 1 : Nat) : Int)
        - 1) = e - frac.length + (((frac.dropWhile (fun c => c == 48)).length - 19 : Nat) : Int) := by
      omega
    rw [e3]
  | cons c int =>
    have h0 : c ≠ 48 := by intro hc; subst hc; simp at hh
    rw [sigDigits_cons int frac h0] at hs ⊢
    have hpos : 0 < (c :: int).length := by simp
    generalize c :: int = I at *
    rw [List.length_append] at hs ⊢
    unfold parseNumberSlow
    by_cases hl : I.length ≤ 19
    · rw [pnIntLoop_few e I 0 0 false hi (by norm_num) (by omega)]
      have hne : ¬ (0 + I.length = 0) := by omega
      simp only [hne, if_false]
      have hm := ofDigits_lt hi
      rw [pnFracLoop_many e frac 0 _ _ false hf (by simpa using hm) (by omega) (by omega)]
      rw [Nat.zero_add, asI32_small (by omega), Nat.zero_mul, Nat.zero_add, Nat.zero_add,
        List.take_append, List.take_of_length_le hl, ofDigits_append, List.length_take,
        Nat.min_eq_left (by omega)]
      have e3 : e - (((19 - I.length + 1 : Nat) : Int) - 1) =
          e - frac.length + ((I.length + frac.length - 19 : Nat) : Int) := by omega
      rw [e3]
    · rw [pnIntLoop_many e I 0 0 false hi (by norm_num) (by omega) (by omega)]
      simp only
      rw [Nat.zero_add, intoI32_small (by omega), Nat.zero_mul, Nat.zero_add, Nat.sub_zero,
        List.take_append_of_le_length (by omega)]
      have e3 : e + ((I.length - 19 : Nat) : Int) =
          e - frac.length + ((I.length + frac.length - 19 : Nat) : Int) := by omega
      rw [e3]

theorem parseNumberFast_short {int frac : List UInt8} {e : Int} (hi : AllDigits int)
    (hf : AllDigits frac) (hl : int.length + frac.length ≤ 19) :
    parseNumberFast int frac e =
      some ⟨satI32 (e - frac.length), ofDigits (int ++ frac), false⟩ := by
  unfold parseNumberFast
  simp only [hl, if_true]
  rw [accWrap_append, accWrap_zero_short (AllDigits.append_iff.mpr ⟨hi, hf⟩)
    (by rw [List.length_append]; exact hl), asI32_small (by omega)]

theorem parseNumberFast_long {int frac : List UInt8} {e : Int}
    (hl : ¬ int.length + frac.length ≤ 19) : parseNumberFast int frac e = none := by
  unfold parseNumberFast
  simp only [hl, if_false]

theorem parseNumberFastTraps_valid {int frac : List UInt8} (hi : AllDigits int)
    (hf : AllDigits frac) : parseNumberFastTraps int frac = false := by
  unfold parseNumberFastTraps
  rw [List.any_eq_false]
  intro c hc
  rw [digitTraps_eq (AllDigits.append_iff.mpr ⟨hi, hf⟩ c hc)]
  simp

-- ---------------------------------------------------------------- parse_number, assembled
theorem dropZeros_head (l : List UInt8) (c : UInt8) (rest : List UInt8)
    (h : l.dropWhile (fun c => c == 48) = c :: rest) : c ≠ 48 := by
  induction l with
  | nil => simp at h
  | cons a l ih =>
    by_cases ha : a = 48
    · subst ha
      rw [List.dropWhile_cons_of_pos (by simp)] at h
      exact ih h
    · rw [List.dropWhile_cons_of_neg (by simpa using ha)] at h
      injection h with h1 _
      exact h1 ▸ ha

theorem take19_bounds {sig : List UInt8} (hd : AllDigits sig) (hl : 19 < sig.length)
    (hh : ∀ c rest, sig = c :: rest → c ≠ 48) :
    10 ^ 18 ≤ ofDigits (sig.take 19) ∧ ofDigits (sig.take 19) < 10 ^ 19 := by
  constructor
  · cases sig with
    | nil => simp at hl
    | cons c rest =>
      rw [List.length_cons] at hl
      rw [AllDigits.cons_iff] at hd
      have e1 : (19 : Nat) = 18 + 1 := rfl
      rw [e1, List.take_succ_cons]
      have := ofDigits_ge (ds := rest.take 18) hd.1 (hh c rest rfl)
      rw [List.length_take, Nat.min_eq_left (by omega)] at this
      exact this
  · have := ofDigits_lt (AllDigits.take 19 hd)
    rw [List.length_take, Nat.min_eq_left (by omega)] at this
    exact this

instance (int frac : List UInt8) (e : Int) : Decidable (Valid int frac e) := by
  unfold Valid; infer_instance

theorem valid_allInt {int frac : List UInt8} {e : Int} (h : Valid int frac e) : AllDigits int := h.1
theorem valid_allFrac {int frac : List UInt8} {e : Int} (h : Valid int frac e) : AllDigits frac :=
  h.2.1

theorem parseNumber_few_aux {int frac : List UInt8} {e : Int} (h : Valid int frac e)
    (hs : (sigDigits int frac).length ≤ 19) :
    parseNumber int frac e = ⟨satI32 (e - frac.length), ofDigits (sigDigits int frac), false⟩ ∧
    parseNumberTraps int frac e = false := by
  unfold parseNumber parseNumberTraps
  rw [parseNumberFastTraps_valid (valid_allInt h) (valid_allFrac h)]
  by_cases hl : int.length + frac.length ≤ 19
  · rw [parseNumberFast_short (valid_allInt h) (valid_allFrac h) hl, ofDigits_sigDigits]
    simp
  · rw [parseNumberFast_long hl, parseNumberSlow_few h hs]
    simp

theorem parseNumber_many_aux {int frac : List UInt8} {e : Int} (h : Valid int frac e)
    (hs : 19 < (sigDigits int frac).length) :
    parseNumber int frac e =
      ⟨satI32 (trueExp int frac e), ofDigits ((sigDigits int frac).take 19), true⟩ ∧
    parseNumberTraps int frac e = false := by
  unfold parseNumber parseNumberTraps
  rw [parseNumberFastTraps_valid (valid_allInt h) (valid_allFrac h)]
  have hl : ¬ int.length + frac.length ≤ 19 := by
    have := sigDigits_length_le int frac; omega
  rw [parseNumberFast_long hl, parseNumberSlow_many h hs]
  simp

-- ---------------------------------------------------------------- scaled fractions
/-- `m * b^j` as a fraction; `ofDec` and `ofDyadic` are the instances `b = 10`, `b = 2` -/
def scaled (b m : Nat) (j : Int) : Q :=
  if j ≥ 0 then ⟨m * b ^ j.toNat, 1⟩ else ⟨m, b ^ (-j).toNat⟩

theorem ofDec_eq_scaled (m : Nat) (j : Int) : ofDec m j = scaled 10 m j := rfl
theorem ofDyadic_eq_scaled (m : Nat) (j : Int) : ofDyadic m j = scaled 2 m j := rfl

theorem scaled_den_pos {b : Nat} (hb : 0 < b) (m : Nat) (j : Int) : 0 < (scaled b m j).den := by
  unfold scaled
  split
  · exact Nat.one_pos
  · exact Nat.pow_pos hb

theorem scaled_spec {b : Nat} (m : Nat) {j : Int} (N : Nat) (h : 0 ≤ j + N) :
    (scaled b m j).num * b ^ N = m * b ^ (j + N).toNat * (scaled b m j).den := by
  unfold scaled
  split
  · have e1 : (j + N).toNat = j.toNat + N := by omega
    simp only [e1, pow_add]; ring
  · have e1 : N = (j + N).toNat + (-j).toNat := by omega
    have e2 : b ^ N = b ^ (j + N).toNat * b ^ (-j).toNat := by rw [← pow_add, ← e1]
    simp only [e2]; ring

theorem scaled_cmp {b : Nat} (hb : 0 < b) (a c : Nat) {x y : Int} (N : Nat) (hx : 0 ≤ x + N)
    (hy : 0 ≤ y + N) :
    ∃ K, 0 < K ∧
      (scaled b a x).num * (scaled b c y).den * b ^ N = a * b ^ (x + N).toNat * K ∧
      (scaled b c y).num * (scaled b a x).den * b ^ N = c * b ^ (y + N).toNat * K := by
  refine ⟨(scaled b a x).den * (scaled b c y).den,
    Nat.mul_pos (scaled_den_pos hb a x) (scaled_den_pos hb c y), ?_, ?_⟩
  · rw [Nat.mul_right_comm, scaled_spec a N hx]; ring
  · rw [Nat.mul_right_comm, scaled_spec c N hy]; ring

theorem scaled_le_iff {b : Nat} (hb : 0 < b) (a c : Nat) {x y : Int} (N : Nat) (hx : 0 ≤ x + N)
    (hy : 0 ≤ y + N) :
    Q.le (scaled b a x) (scaled b c y) ↔ a * b ^ (x + N).toNat ≤ c * b ^ (y + N).toNat := by
  obtain ⟨K, hK, h1, h2⟩ := scaled_cmp hb a c N hx hy
  unfold Q.le
  rw [← Nat.mul_le_mul_right_iff (Nat.pow_pos hb : 0 < b ^ N), h1, h2,
    Nat.mul_le_mul_right_iff hK]

theorem scaled_lt_iff {b : Nat} (hb : 0 < b) (a c : Nat) {x y : Int} (N : Nat) (hx : 0 ≤ x + N)
    (hy : 0 ≤ y + N) :
    Q.lt (scaled b a x) (scaled b c y) ↔ a * b ^ (x + N).toNat < c * b ^ (y + N).toNat := by
  obtain ⟨K, hK, h1, h2⟩ := scaled_cmp hb a c N hx hy
  unfold Q.lt
  rw [← Nat.mul_lt_mul_right (Nat.pow_pos hb : 0 < b ^ N), h1, h2, Nat.mul_lt_mul_right hK]

theorem scaled_eqv_iff {b : Nat} (hb : 0 < b) (a c : Nat) {x y : Int} (N : Nat) (hx : 0 ≤ x + N)
    (hy : 0 ≤ y + N) :
    Q.eqv (scaled b a x) (scaled b c y) ↔ a * b ^ (x + N).toNat = c * b ^ (y + N).toNat := by
  obtain ⟨K, hK, h1, h2⟩ := scaled_cmp hb a c N hx hy
  unfold Q.eqv
  rw [← Nat.mul_right_cancel_iff (Nat.pow_pos hb : 0 < b ^ N), h1, h2,
    Nat.mul_right_cancel_iff hK]

/-- `M < 10^a` and `x + a ≤ y` give `M·10^x < 10^y` -/
theorem ofDec_lt_pow {M a : Nat} {x y : Int} (hM : M < 10 ^ a) (h : x + a ≤ y) :
    Q.lt (ofDec M x) (ofDec 1 y) := by
  rw [ofDec_eq_scaled, ofDec_eq_scaled,
    scaled_lt_iff (by omega) M 1 ((-x).toNat + (-y).toNat) (by omega) (by omega)]
  generalize hp : (x + ((-x).toNat + (-y).toNat : Nat)).toNat = p
  generalize hq : (y + ((-x).toNat + (-y).toNat : Nat)).toNat = q
  have hpq : a + p ≤ q := by omega
  have h1 : M * 10 ^ p < 10 ^ a * 10 ^ p := (Nat.mul_lt_mul_right (Nat.pow_pos (by omega))).mpr hM
  have h2 : 10 ^ (a + p) ≤ 10 ^ q := Nat.pow_le_pow_right (by omega) hpq
  rw [pow_add] at h2
  omega

/-- `10^a ≤ M` and `y ≤ x + a` give `10^y ≤ M·10^x` -/
theorem ofDec_ge_pow {M a : Nat} {x y : Int} (hM : 10 ^ a ≤ M) (h : y ≤ x + a) :
    Q.le (ofDec 1 y) (ofDec M x) := by
  rw [ofDec_eq_scaled, ofDec_eq_scaled,
    scaled_le_iff (by omega) 1 M ((-x).toNat + (-y).toNat) (by omega) (by omega)]
  generalize hp : (x + ((-x).toNat + (-y).toNat : Nat)).toNat = p
  generalize hq : (y + ((-x).toNat + (-y).toNat : Nat)).toNat = q
  have hpq : q ≤ a + p := by omega
  have h1 : 10 ^ a * 10 ^ p ≤ M * 10 ^ p := Nat.mul_le_mul_right _ hM
  have h2 : 10 ^ q ≤ 10 ^ (a + p) := Nat.pow_le_pow_right (by omega) hpq
  rw [pow_add] at h2
  omega

-- ---------------------------------------------------------------- the value denoted by the result
theorem trueExp_few {int frac : List UInt8} {e : Int} (hs : (sigDigits int frac).length ≤ 19) :
    trueExp int frac e = e - frac.length := by
  unfold trueExp; omega

/-- one closed form for both cases -/
theorem parseNumber_closed {int frac : List UInt8} {e : Int} (h : Valid int frac e) :
    parseNumber int frac e =
      ⟨satI32 (trueExp int frac e), ofDigits ((sigDigits int frac).take 19),
        decide (19 < (sigDigits int frac).length)⟩ := by
  by_cases hs : (sigDigits int frac).length ≤ 19
  · rw [(parseNumber_few_aux h hs).1, trueExp_few hs, List.take_of_length_le hs]
    have : ¬ 19 < (sigDigits int frac).length := by omega
    simp [this]
  · have hs' : 19 < (sigDigits int frac).length := by omega
    rw [(parseNumber_many_aux h hs').1]
    simp [hs']

theorem ofDigits_split (sig : List UInt8) (n : Nat) :
    ofDigits sig = ofDigits (sig.take n) * 10 ^ (sig.length - n) + ofDigits (sig.drop n) := by
  conv => lhs; rw [← List.take_append_drop n sig]
  rw [ofDigits_append, List.length_drop]

theorem value_bracket {sig : List UInt8} (hd : AllDigits sig) (n : Nat) (y : Int) :
    Q.le (ofDec (ofDigits (sig.take n)) (y + ((sig.length - n : Nat) : Int))) (ofDec (ofDigits sig) y) ∧
    Q.lt (ofDec (ofDigits sig) y) (ofDec (ofDigits (sig.take n) + 1) (y + ((sig.length - n : Nat) : Int))) ∧
    (Q.eqv (ofDec (ofDigits (sig.take n)) (y + ((sig.length - n : Nat) : Int))) (ofDec (ofDigits sig) y)
      ↔ ofDigits (sig.drop n) = 0) := by
  have hR := ofDigits_lt (AllDigits.drop n hd)
  rw [List.length_drop] at hR
  have hsplit := ofDigits_split sig n
  generalize ofDigits (sig.take n) = M at *
  generalize ofDigits (sig.drop n) = R at *
  generalize ofDigits sig = D at *
  generalize sig.length - n = k at *
  simp only [ofDec_eq_scaled]
  have hx : 0 ≤ y + (k : Int) + ((-y).toNat : Nat) := by omega
  have hy : 0 ≤ y + ((-y).toNat : Nat) := by omega
  rw [scaled_le_iff (by omega) M D (-y).toNat hx hy, scaled_lt_iff (by omega) D (M + 1) (-y).toNat hy hx,
    scaled_eqv_iff (by omega) M D (-y).toNat hx hy]
  have e1 : (y + (k : Int) + ((-y).toNat : Nat)).toNat = k + (y + ((-y).toNat : Nat)).toNat := by omega
  rw [e1, pow_add]
  have hP : 0 < 10 ^ (y + ((-y).toNat : Nat)).toNat := Nat.pow_pos (by omega)
  generalize 10 ^ (y + ((-y).toNat : Nat)).toNat = P at *
  subst hsplit
  refine ⟨?_, ?_, ?_⟩
  · nlinarith [Nat.zero_le (R * P)]
  · have : (M * 10 ^ k + R) * P < (M + 1) * 10 ^ k * P := by
      apply (Nat.mul_lt_mul_right hP).mpr; nlinarith
    calc (M * 10 ^ k + R) * P < (M + 1) * 10 ^ k * P := this
      _ = (M + 1) * (10 ^ k * P) := by ring
  · rw [← Nat.mul_assoc, Nat.mul_right_cancel_iff hP]
    omega

theorem ofDigits_eq_zero_iff {ds : List UInt8} (hd : AllDigits ds) :
    ofDigits ds = 0 ↔ ∀ c ∈ ds, c = 48 := by
  induction ds with
  | nil => simp [ofDigits_nil]
  | cons c ds ih =>
    rw [AllDigits.cons_iff] at hd
    rw [ofDigits_cons]
    have hp : 0 < 10 ^ ds.length := Nat.pow_pos (by omega)
    constructor
    · intro h
      have h1 : digitVal c * 10 ^ ds.length = 0 := by omega
      have h2 : ofDigits ds = 0 := by omega
      have h3 : digitVal c = 0 := by
        rcases Nat.mul_eq_zero.mp h1 with h | h
        · exact h
        · omega
      intro x hx
      rcases List.mem_cons.mp hx with hx | hx
      · rw [hx]; exact (digitVal_eq_zero_iff hd.1).mp h3
      · exact (ih hd.2).mp h2 x hx
    · intro h
      have h1 : digitVal c = 0 := (digitVal_eq_zero_iff hd.1).mpr (h c (List.mem_cons_self))
      have h2 : ofDigits ds = 0 := (ih hd.2).mpr (fun x hx => h x (List.mem_cons_of_mem _ hx))
      rw [h1, h2]; simp

-- ---------------------------------------------------------------- exact product / quotient
theorem ofDyadic_den_pos (m : Nat) (j : Int) : 0 < (ofDyadic m j).den :=
  scaled_den_pos (b := 2) (by omega) m j

theorem ofDyadic_zero_num (j : Int) : (ofDyadic 0 j).num = 0 := by
  unfold ofDyadic; split <;> simp

/-- `mulQ` is the exact product of the two dyadic values -/
theorem mulQ_spec (a b : Nat × Int) :
    (mulQ a b).num * ((ofDyadic a.1 a.2).den * (ofDyadic b.1 b.2).den) =
      (ofDyadic a.1 a.2).num * (ofDyadic b.1 b.2).num * (mulQ a b).den := by
  obtain ⟨a1, a2⟩ := a
  obtain ⟨b1, b2⟩ := b
  unfold mulQ
  simp only [ofDyadic_eq_scaled]
  have hP := scaled_spec (b := 2) (a1 * b1) (j := a2 + b2) ((-a2).toNat + (-b2).toNat) (by omega)
  have hA := scaled_spec (b := 2) a1 (j := a2) (-a2).toNat (by omega)
  have hB := scaled_spec (b := 2) b1 (j := b2) (-b2).toNat (by omega)
  have hs : (a2 + b2 + (((-a2).toNat + (-b2).toNat : Nat) : Int)).toNat =
      (a2 + ((-a2).toNat : Nat)).toNat + (b2 + ((-b2).toNat : Nat)).toNat := by omega
  rw [hs] at hP
  generalize (a2 + ((-a2).toNat : Nat)).toNat = s1 at *
  generalize (b2 + ((-b2).toNat : Nat)).toNat = s2 at *
  generalize (-a2).toNat = N1 at *
  generalize (-b2).toNat = N2 at *
  generalize scaled 2 (a1 * b1) (a2 + b2) = P at *
  generalize scaled 2 a1 a2 = A at *
  generalize scaled 2 b1 b2 = B at *
  apply Nat.eq_of_mul_eq_mul_right (Nat.pow_pos (by omega) : 0 < 2 ^ (N1 + N2))
  calc P.num * (A.den * B.den) * 2 ^ (N1 + N2)
      = (P.num * 2 ^ (N1 + N2)) * (A.den * B.den) := by ring
    _ = (a1 * b1 * 2 ^ (s1 + s2) * P.den) * (A.den * B.den) := by rw [hP]
    _ = (a1 * 2 ^ s1 * A.den) * (b1 * 2 ^ s2 * B.den) * P.den := by rw [pow_add]; ring
    _ = (A.num * 2 ^ N1) * (B.num * 2 ^ N2) * P.den := by rw [hA, hB]
    _ = A.num * B.num * P.den * 2 ^ (N1 + N2) := by rw [pow_add]; ring

/-- `divQ` is the exact quotient of the two dyadic values -/
theorem divQ_spec (a b : Nat × Int) :
    (divQ a b).num * ((ofDyadic b.1 b.2).num * (ofDyadic a.1 a.2).den) =
      (ofDyadic a.1 a.2).num * (ofDyadic b.1 b.2).den * (divQ a b).den := by
  obtain ⟨a1, a2⟩ := a
  obtain ⟨b1, b2⟩ := b
  simp only [ofDyadic_eq_scaled]
  have hA := scaled_spec (b := 2) a1 (j := a2) ((-a2).toNat + (-b2).toNat) (by omega)
  have hB := scaled_spec (b := 2) b1 (j := b2) ((-a2).toNat + (-b2).toNat) (by omega)
  generalize hN : (-a2).toNat + (-b2).toNat = N at *
  apply Nat.eq_of_mul_eq_mul_right (Nat.pow_pos (by omega) : 0 < 2 ^ N)
  unfold divQ
  simp only
  split
  · rename_i hj
    have hs : (a2 + (N : Int)).toNat = (a2 - b2).toNat + (b2 + (N : Int)).toNat := by omega
    rw [hs, pow_add] at hA
    generalize (a2 - b2).toNat = j at *
    generalize (b2 + (N : Int)).toNat = sb at *
    generalize scaled 2 a1 a2 = A at *
    generalize scaled 2 b1 b2 = B at *
    simp only
    calc a1 * 2 ^ j * (B.num * A.den) * 2 ^ N
        = a1 * 2 ^ j * A.den * (B.num * 2 ^ N) := by ring
      _ = a1 * 2 ^ j * A.den * (b1 * 2 ^ sb * B.den) := by rw [hB]
      _ = (a1 * (2 ^ j * 2 ^ sb) * A.den) * B.den * b1 := by ring
      _ = (A.num * 2 ^ N) * B.den * b1 := by rw [hA]
      _ = A.num * B.den * b1 * 2 ^ N := by ring
  · rename_i hj
    have hs : (b2 + (N : Int)).toNat = (-(a2 - b2)).toNat + (a2 + (N : Int)).toNat := by omega
    rw [hs, pow_add] at hB
    generalize (-(a2 - b2)).toNat = j at *
    generalize (a2 + (N : Int)).toNat = sa at *
    generalize scaled 2 a1 a2 = A at *
    generalize scaled 2 b1 b2 = B at *
    simp only
    calc a1 * (B.num * A.den) * 2 ^ N
        = a1 * A.den * (B.num * 2 ^ N) := by ring
      _ = a1 * A.den * (b1 * (2 ^ j * 2 ^ sa) * B.den) := by rw [hB]
      _ = (a1 * 2 ^ sa * A.den) * B.den * (b1 * 2 ^ j) := by ring
      _ = (A.num * 2 ^ N) * B.den * (b1 * 2 ^ j) := by rw [hA]
      _ = A.num * B.den * (b1 * 2 ^ j) * 2 ^ N := by ring

theorem mulQ_exact {f : Fmt} {a b x y : Nat} (ha : Q.eqv (decodeQ f a) ⟨x, 1⟩)
    (hb : Q.eqv (decodeQ f b) ⟨y, 1⟩) :
    Q.eqv (mulQ (decode f a) (decode f b)) ⟨x * y, 1⟩ := by
  have hs := mulQ_spec (decode f a) (decode f b)
  unfold Q.eqv decodeQ at *
  simp only [Nat.mul_one] at *
  have dA := ofDyadic_den_pos (decode f a).1 (decode f a).2
  have dB := ofDyadic_den_pos (decode f b).1 (decode f b).2
  rw [ha, hb] at hs
  apply Nat.eq_of_mul_eq_mul_right (Nat.mul_pos dA dB)
  rw [hs]; ring

theorem divQ_exact {f : Fmt} {a b x y : Nat} (ha : Q.eqv (decodeQ f a) ⟨x, 1⟩)
    (hb : Q.eqv (decodeQ f b) ⟨y, 1⟩) :
    Q.eqv (divQ (decode f a) (decode f b)) ⟨x, y⟩ := by
  have hs := divQ_spec (decode f a) (decode f b)
  unfold Q.eqv decodeQ at *
  simp only [Nat.mul_one] at *
  have dA := ofDyadic_den_pos (decode f a).1 (decode f a).2
  have dB := ofDyadic_den_pos (decode f b).1 (decode f b).2
  rw [ha, hb] at hs
  apply Nat.eq_of_mul_eq_mul_right (Nat.mul_pos dA dB)
  calc (divQ (decode f a) (decode f b)).num * y *
        ((ofDyadic (decode f a).1 (decode f a).2).den * (ofDyadic (decode f b).1 (decode f b).2).den)
      = (divQ (decode f a) (decode f b)).num *
        (y * (ofDyadic (decode f b).1 (decode f b).2).den * (ofDyadic (decode f a).1 (decode f a).2).den) := by
        ring
    _ = _ := by rw [hs]; ring

theorem decode_ne_zero_of_eqv {f : Fmt} {b y : Nat} (hy : 0 < y)
    (hb : Q.eqv (decodeQ f b) ⟨y, 1⟩) : (decode f b).1 ≠ 0 := by
  intro h0
  unfold Q.eqv decodeQ at hb
  simp only [h0, ofDyadic_zero_num] at hb
  have dB := ofDyadic_den_pos 0 (decode f b).2
  have := Nat.mul_pos hy dB
  omega

theorem mulQ_den_pos (a b : Nat × Int) : 0 < (mulQ a b).den := ofDyadic_den_pos _ _

theorem divQ_den_pos (a b : Nat × Int) (hb : b.1 ≠ 0) : 0 < (divQ a b).den := by
  unfold divQ
  simp only
  split
  · exact Nat.pos_of_ne_zero hb
  · exact Nat.mul_pos (Nat.pos_of_ne_zero hb) (Nat.pow_pos (by omega))

theorem ofDec_den_pos (m : Nat) (j : Int) : 0 < (ofDec m j).den :=
  scaled_den_pos (b := 10) (by omega) m j

-- ---------------------------------------------------------------- `u64 as float` is exact on small integers
theorem flog2_nat {m : Nat} (hm : m ≠ 0) : flog2 m 1 = (Nat.log2 m : Int) := by
  have h1 : Nat.log2 1 = 0 := by decide
  have hlo := Nat.log2_self_le hm
  have hhi := Nat.lt_log2_self (n := m)
  unfold flog2
  simp only [h1, Nat.cast_zero, sub_zero]
  have g1 : geP2 m 1 ((Nat.log2 m : Int) + 1) = false := by
    unfold geP2
    rw [if_pos (by omega)]
    have : ((Nat.log2 m : Int) + 1).toNat = Nat.log2 m + 1 := by omega
    rw [this]; simp only [Nat.one_mul, ge_iff_le, decide_eq_false_iff_not]; omega
  have g2 : geP2 m 1 (Nat.log2 m : Int) = true := by
    unfold geP2
    rw [if_pos (by omega)]
    have : ((Nat.log2 m : Int)).toNat = Nat.log2 m := by omega
    rw [this]; simp only [Nat.one_mul, ge_iff_le, decide_eq_true_eq]; exact hlo
  rw [g1, g2]; simp

theorem rhe_one (A : Nat) : rhe A 1 = A := by
  unfold rhe
  simp only [Nat.div_one, Nat.mod_one]
  rw [if_neg (by omega)]

theorem rhe_two_mul (X : Nat) : rhe (2 * X) 2 = X := by
  unfold rhe
  have h1 : 2 * X / 2 = X := by omega
  have h2 : 2 * X % 2 = 0 := by omega
  simp only [h1, h2]
  rw [if_neg (by omega)]

theorem decode_assemble (f : Fmt) {mant : Nat} (E : Nat) (h1 : 2 ^ f.mbits ≤ mant)
    (h2 : mant < 2 ^ (f.mbits + 1)) :
    decode f (mant + E * 2 ^ f.mbits) = (mant, f.kmin + E) := by
  unfold decode
  rw [pow_succ] at h2
  have hX : 0 < 2 ^ f.mbits := Nat.pow_pos (by omega)
  have hd : mant / 2 ^ f.mbits = 1 := Nat.div_eq_of_lt_le (by omega) (by omega)
  have hm : mant % 2 ^ f.mbits = mant - 2 ^ f.mbits := by
    have := Nat.div_add_mod mant (2 ^ f.mbits)
    rw [hd] at this; omega
  simp only [Nat.add_mul_div_right _ _ hX, Nat.add_mul_mod_self_right, hd, hm]
  rw [if_neg (by omega)]
  congr 1
  · omega
  · push_cast; omega

/-- assembling the result of `rne` on an integer whose ulp exponent is `L - mbits` -/
theorem rne_nat_assemble (f : Fmt) (hE : f.mbits + 2 ≤ 2 ^ (f.ebits - 1)) {m L mant : Nat}
    (hm : m ≠ 0) (hL : L ≤ f.mbits + 1)
    (hk : ulpExp f ⟨m, 1⟩ = (L : Int) - f.mbits)
    (hmant : rhe (scaleP2 ⟨m, 1⟩ ((L : Int) - f.mbits)).1 (scaleP2 ⟨m, 1⟩ ((L : Int) - f.mbits)).2 = mant)
    (h1 : 2 ^ f.mbits ≤ mant) (h2 : mant < 2 ^ (f.mbits + 1)) :
    decode f (rne f ⟨m, 1⟩) = (mant, (L : Int) - f.mbits) := by
  unfold rne
  rw [if_neg hm]
  simp only [hk, hmant]
  have hkmin : f.kmin = 2 - ((2 ^ (f.ebits - 1) : Nat) : Int) - f.mbits := by
    unfold Fmt.kmin; push_cast; rfl
  generalize hP : 2 ^ (f.ebits - 1) = P at *
  have heb : f.ebits = (f.ebits - 1) + 1 := by
    rcases Nat.eq_zero_or_pos f.ebits with h0 | h0
    · rw [h0] at hP; simp at hP; omega
    · omega
  have hinf : f.infBits = (2 * P - 1) * 2 ^ f.mbits := by
    have e2 : 2 ^ f.ebits = 2 ^ (f.ebits - 1 + 1) := by rw [← heb]
    unfold Fmt.infBits; rw [e2, pow_succ, hP, Nat.mul_comm P 2]
  have hEq : ((L : Int) - f.mbits - f.kmin).toNat = L + P - 2 := by omega
  rw [hEq, hinf]
  have hX : 0 < 2 ^ f.mbits := Nat.pow_pos (by omega)
  rw [pow_succ] at h2
  have hle : mant + (L + P - 2) * 2 ^ f.mbits ≤ (2 * P - 1) * 2 ^ f.mbits := by
    have e1 : 2 * P - 1 = (L + P - 2) + 2 + (P - L - 1) := by omega
    rw [e1, Nat.add_mul, Nat.add_mul]
    have := Nat.zero_le ((P - L - 1) * 2 ^ f.mbits)
    omega
  rw [Nat.min_eq_left hle, decode_assemble f _ h1 (by rw [pow_succ]; exact h2), hkmin]
  congr 1
  omega

theorem ulpExp_nat (f : Fmt) (hE : f.mbits + 2 ≤ 2 ^ (f.ebits - 1)) {m : Nat} (hm : m ≠ 0) :
    ulpExp f ⟨m, 1⟩ = (Nat.log2 m : Int) - f.mbits := by
  unfold ulpExp
  simp only [flog2_nat hm]
  have hkmin : f.kmin = 2 - ((2 ^ (f.ebits - 1) : Nat) : Int) - f.mbits := by
    unfold Fmt.kmin; push_cast; rfl
  rw [hkmin]
  generalize 2 ^ (f.ebits - 1) = P at *
  omega

/-- `rne` of an integer `m ≤ 2^(mbits+1)` decodes to exactly `m` -/
theorem rne_nat_exact (f : Fmt) (hE : f.mbits + 2 ≤ 2 ^ (f.ebits - 1)) {m : Nat}
    (hm : m ≤ 2 ^ (f.mbits + 1)) : Q.eqv (decodeQ f (rne f ⟨m, 1⟩)) ⟨m, 1⟩ := by
  by_cases h0 : m = 0
  · subst h0
    have : rne f ⟨0, 1⟩ = 0 := by unfold rne; simp
    rw [this]
    unfold decodeQ decode
    simp only [Nat.zero_div, Nat.zero_mod, if_true]
    unfold Q.eqv
    rw [ofDyadic_zero_num]; simp
  · have hlo := Nat.log2_self_le h0
    have hhi := Nat.lt_log2_self (n := m)
    have hL : Nat.log2 m ≤ f.mbits + 1 := by
      have : 2 ^ Nat.log2 m ≤ 2 ^ (f.mbits + 1) := Nat.le_trans hlo hm
      exact (Nat.pow_le_pow_iff_right (by omega)).mp this
    have hk := ulpExp_nat f hE h0
    generalize Nat.log2 m = L at *
    unfold decodeQ
    by_cases hc : L < f.mbits
    · -- shift left
      have hs : scaleP2 ⟨m, 1⟩ ((L : Int) - f.mbits) = (m * 2 ^ (f.mbits - L), 1) := by
        unfold scaleP2
        rw [if_neg (by omega)]
        have : (-((L : Int) - f.mbits)).toNat = f.mbits - L := by omega
        rw [this]
      have hsplit : f.mbits = L + (f.mbits - L) := by omega
      have e1 : 2 ^ f.mbits = 2 ^ L * 2 ^ (f.mbits - L) := by rw [← pow_add, ← hsplit]
      have hY : 0 < 2 ^ (f.mbits - L) := Nat.pow_pos (by omega)
      rw [rne_nat_assemble f hE (mant := m * 2 ^ (f.mbits - L)) h0 hL hk (by rw [hs]; exact rhe_one _)
        (by rw [e1]; exact Nat.mul_le_mul_right _ hlo)
        (by rw [pow_succ, e1, Nat.mul_right_comm, ← pow_succ]
            exact (Nat.mul_lt_mul_right hY).mpr hhi)]
      unfold ofDyadic Q.eqv
      simp only
      rw [if_neg (by omega)]
      have : (-((L : Int) - f.mbits)).toNat = f.mbits - L := by omega
      simp only [this, Nat.mul_one]
    · by_cases hc2 : L = f.mbits
      · have ht : ((L : Int) - f.mbits).toNat = 0 := by omega
        have hs : scaleP2 ⟨m, 1⟩ ((L : Int) - f.mbits) = (m, 1) := by
          unfold scaleP2
          rw [if_pos (by omega), ht]
          simp
        rw [hc2] at hlo hhi
        rw [rne_nat_assemble f hE (mant := m) h0 hL hk (by rw [hs]; exact rhe_one _) hlo hhi]
        unfold ofDyadic Q.eqv
        simp only
        rw [if_pos (by omega)]
        simp only [ht, pow_zero, Nat.mul_one]
      · have hL1 : L = f.mbits + 1 := by omega
        rw [hL1] at hlo
        have hmeq : m = 2 ^ (f.mbits + 1) := Nat.le_antisymm hm hlo
        have ht : ((L : Int) - f.mbits).toNat = 1 := by omega
        have hs : scaleP2 ⟨m, 1⟩ ((L : Int) - f.mbits) = (2 * 2 ^ f.mbits, 2) := by
          unfold scaleP2
          rw [if_pos (by omega), ht, hmeq, pow_succ]
          simp only [pow_one, Nat.one_mul, Prod.mk.injEq, and_true]
          ring
        rw [rne_nat_assemble f hE (mant := 2 ^ f.mbits) h0 hL hk (by rw [hs]; exact rhe_two_mul _)
          (Nat.le_refl _) (by rw [pow_succ]; have := Nat.pow_pos (a := 2) (n := f.mbits) (by omega); omega)]
        unfold ofDyadic Q.eqv
        simp only
        rw [if_pos (by omega)]
        simp only [ht, Nat.mul_one, hmeq, pow_succ, pow_zero, Nat.one_mul]

end MinLex.ParseNum
