/-
  Soundness of the Eisel–Lemire stage (C11), helper lemmas.

  1. spec side: `rne` from a bracket of the scaled value that carries one extra bit (`rne_of_halfbits`)
  2. what `(lo, hi) = productCore …` knows about the 192-bit product `w·T` (`ProdFacts`)
  3. the exact scaled product `z = w·5^q·2^(-128-rowExp q) = w·G/(2^128·E)` against `hi`
     (`z_lower`, `z_upper1/2`, `z_bracket`)
  4. exact ties: when `z` is an integer (`tie_*`), window of exponents, the `lo ≤ 1` test
-/
import MinLex.Props.LemireArith
import MinLex.Props.C18
import Mathlib.Data.Nat.Prime.Basic
namespace MinLex.LemireSound
open MinLex MinLex.LemireP

/-! ## 1. spec side: `rne` from the "half-bit" bracket of the scaled value -/

/-- `rhe A B` from a bracket `m ≤ 2·A/B < m + 1` of twice the quotient -/
theorem rhe_of_twice {A B m r : Nat} (hB : 0 < B)
    (h1 : (m:ℚ) ≤ 2 * ((A:ℚ)/B)) (h2 : 2 * ((A:ℚ)/B) < m + 1)
    (he : m % 2 = 0 → r = m / 2)
    (ho : m % 2 = 1 → 2 * ((A:ℚ)/B) ≠ m → r = m / 2 + 1)
    (ht : m % 2 = 1 → 2 * ((A:ℚ)/B) = m → r = if (m/2) % 2 = 0 then m/2 else m/2 + 1) :
    rhe A B = r := by
  have hB' : (0:ℚ) < B := by exact_mod_cast hB
  have e2 : 2 * ((A:ℚ)/B) = ((2 * A : Nat) : ℚ) / B := by push_cast; ring
  rw [e2] at h1 h2 ho ht
  rw [le_div_iff₀ hB'] at h1
  rw [div_lt_iff₀ hB'] at h2
  have n1 : m * B ≤ 2 * A := by exact_mod_cast h1
  have n2 : 2 * A < (m + 1) * B := by exact_mod_cast h2
  have hne : ((2 * A : Nat) : ℚ) / B = m ↔ 2 * A = m * B := by
    rw [div_eq_iff hB'.ne']
    exact_mod_cast Iff.rfl
  obtain ⟨c1, c2, c3⟩ := rhe_cases A hB
  generalize hn : m / 2 = n at *
  rcases Nat.mod_two_eq_zero_or_one m with hm | hm
  · have hmn : m = 2 * n := by omega
    subst hmn
    have e1 : 2 * n * B = 2 * (n * B) := Nat.mul_assoc ..
    have e3 : (2 * n + 1) * B = 2 * (n * B) + B := by rw [Nat.add_mul, Nat.one_mul, e1]
    have hq : A / B = n := by
      apply Nat.div_eq_of_lt_le
      · omega
      · rw [Nat.add_mul, Nat.one_mul]; omega
    rw [he hm, ← hq]
    apply c1
    rw [hq]; exact n2
  · have hmn : m = 2 * n + 1 := by omega
    subst hmn
    have e1 : 2 * n * B = 2 * (n * B) := Nat.mul_assoc ..
    have e3 : (2 * n + 1) * B = 2 * (n * B) + B := by rw [Nat.add_mul, Nat.one_mul, e1]
    have e4 : (2 * n + 1 + 1) * B = 2 * (n * B) + 2 * B := by
      rw [Nat.add_mul, Nat.one_mul, e3]; omega
    have hq : A / B = n := by
      apply Nat.div_eq_of_lt_le
      · omega
      · rw [Nat.add_mul, Nat.one_mul]; omega
    by_cases htie : 2 * A = (2 * n + 1) * B
    · rw [ht hm (hne.2 htie), ← hq]
      apply c3
      rw [hq]; exact htie
    · rw [ho hm (fun h => htie (hne.1 h)), ← hq]
      apply c2
      rw [hq]; omega

theorem two_zpow_pred (k : Int) : (2:ℚ)^k = 2 * (2:ℚ)^(k-1) := by
  have : k = 1 + (k - 1) := by omega
  conv_lhs => rw [this, zpow_add₀ (by norm_num : (2:ℚ) ≠ 0), zpow_one]

/-- the ulp exponent from bounds on the scaled value -/
theorem ulpExp_of_scaled (f : Fmt) {v : Q} (hv : 0 < v.den) (hn : v.num ≠ 0) {k : Int} (hk : f.kmin ≤ k)
    (hX1 : v.toRat / (2:ℚ)^k < ((2^(f.mbits+1) : Nat) : ℚ))
    (hc : k = f.kmin ∨ ((2^f.mbits : Nat) : ℚ) ≤ v.toRat / (2:ℚ)^k) :
    ulpExp f v = k := by
  obtain ⟨g1, g2⟩ := flog2_spec_rat (Nat.pos_of_ne_zero hn) hv
  have hp := two_zpow_pos k
  rw [div_lt_iff₀ hp] at hX1
  have e1 : (((2^(f.mbits+1) : Nat) : ℚ)) * (2:ℚ)^k = (2:ℚ)^((((f.mbits : Nat) : Int) + k) + 1) := by
    rw [zpow_add₀ (by norm_num), zpow_add₀ (by norm_num), zpow_natCast]; push_cast; ring
  rw [e1] at hX1
  have l1 : flog2 v.num v.den ≤ (f.mbits : Int) + k := two_zpow_lt_imp g1 hX1
  unfold ulpExp
  rcases hc with hc | hc
  · omega
  · rw [le_div_iff₀ hp] at hc
    have e2 : (((2^f.mbits : Nat) : ℚ)) * (2:ℚ)^k = (2:ℚ)^(((f.mbits : Nat) : Int) + k) := by
      rw [zpow_add₀ (by norm_num), zpow_natCast]; push_cast; ring
    rw [e2] at hc
    have l2 : (f.mbits : Int) + k ≤ flog2 v.num v.den := two_zpow_lt_imp hc g2
    omega

/-- **spec side of the rounding step**: if `m ≤ v / 2^(k-1) < m + 1` (`m` carries one bit more than
    the significand at ulp exponent `k`), then `rne` is `r` placed at exponent `k`, where `r` is `m/2`
    rounded: down for even `m`, up for odd `m` unless `v / 2^(k-1) = m` exactly (tie → even). -/
theorem rne_of_halfbits (f : Fmt) {v : Q} (hv : 0 < v.den) (hn : v.num ≠ 0) {k : Int} (hk : f.kmin ≤ k)
    {m r : Nat}
    (h1 : (m:ℚ) ≤ v.toRat / (2:ℚ)^(k-1)) (h2 : v.toRat / (2:ℚ)^(k-1) < m + 1)
    (hm2 : m < 2^(f.mbits+2)) (hc : k = f.kmin ∨ 2^(f.mbits+1) ≤ m)
    (he : m % 2 = 0 → r = m / 2)
    (ho : m % 2 = 1 → v.toRat / (2:ℚ)^(k-1) ≠ m → r = m / 2 + 1)
    (ht : m % 2 = 1 → v.toRat / (2:ℚ)^(k-1) = m → r = if (m/2) % 2 = 0 then m/2 else m/2 + 1) :
    rne f v = min (r + (k - f.kmin).toNat * 2^f.mbits) f.infBits := by
  have hp := two_zpow_pos (k-1)
  have hX : v.toRat / (2:ℚ)^k = (v.toRat / (2:ℚ)^(k-1)) / 2 := by
    rw [two_zpow_pred k]; field_simp
  have hY : 2 * (v.toRat / (2:ℚ)^k) = v.toRat / (2:ℚ)^(k-1) := by rw [hX]; ring
  have hu : ulpExp f v = k := by
    apply ulpExp_of_scaled f hv hn hk
    · rw [hX]
      have : ((m:ℚ) + 1) ≤ ((2^(f.mbits+2) : Nat) : ℚ) := by exact_mod_cast hm2
      have e : ((2^(f.mbits+2) : Nat) : ℚ) = 2 * ((2^(f.mbits+1) : Nat) : ℚ) := by
        push_cast; ring
      linarith
    · rcases hc with hc | hc
      · exact Or.inl hc
      · right
        rw [hX]
        have : ((2^(f.mbits+1) : Nat) : ℚ) ≤ (m:ℚ) := by exact_mod_cast hc
        have e : ((2^(f.mbits+1) : Nat) : ℚ) = 2 * ((2^f.mbits : Nat) : ℚ) := by
          push_cast; ring
        linarith
  rw [rne_of_num_ne f hn, hu]
  have hB := scaleP2_den_pos hv k
  have hs := scaleP2_rat hv k
  congr 2
  apply rhe_of_twice hB
  · rw [hs, hY]; exact h1
  · rw [hs, hY]; exact h2
  · exact he
  · rw [hs, hY]; exact ho
  · rw [hs, hY]; exact ht


/-! ## 2. what the product `(lo, hi)` knows about `w·T` -/

/-- facts about `(lo, hi) = productCore w hi5 lo5 (ms+3)` used below (`T = hi5·2^64 + lo5`) -/
structure ProdFacts (ms w hi5 lo5 lo hi : Nat) (tk : Bool) : Prop where
  lo_lt : lo < 2^64
  hi_lt : hi < 2^64
  p1 : (hi * 2^64 + lo) * 2^64 ≤ w * (hi5 * 2^64 + lo5)
  p2 : w * (hi5 * 2^64 + lo5 + 1) < (hi + 2) * 2^128
  p3 : tk = true → w * (hi5 * 2^64 + lo5) < (hi * 2^64 + lo + 1) * 2^64
  p4 : tk = false → hi % 2^(61 - ms) ≠ 2^(61 - ms) - 1
  p5 : tk = false → hi * 2^64 + lo = w * hi5
  p6 : lo5 = 0 → hi * 2^64 + lo = w * hi5

theorem prodFacts {ms w hi5 lo5 : Nat} (hms : ms + 3 < 64) (hw : w < 2^64) (hhi5 : hi5 < 2^64)
    (hlo5 : lo5 < 2^64) :
    ProdFacts ms w hi5 lo5 (productCore w hi5 lo5 (ms+3)).1 (productCore w hi5 lo5 (ms+3)).2
      (secondTaken w hi5 (ms+3)) := by
  have hlt := productCore_lt (lo5 := lo5) (p := ms+3) hw hhi5
  obtain ⟨c1, c2, c3⟩ := productCore_bracket (hi5 := hi5) (p := ms+3) hw hlo5
  have e : w * (hi5 * 2^64 + lo5) = w * lo5 + w * hi5 * 2^64 := by ring
  cases ht : secondTaken w hi5 (ms+3)
  · have hnt := productCore_not_taken (lo5 := lo5) ht
    have hdm := Nat.div_add_mod (w * hi5) (2^64)
    have hsec := (secondTaken_iff (w := w) (hi5 := hi5) (p := ms+3) (by omega)).not.mp (by rw [ht]; simp)
    have e2 : 64 - (ms + 3) = 61 - ms := by omega
    rw [e2] at hsec
    have h1 : (productCore w hi5 lo5 (ms+3)).1 = w * hi5 % 2^64 := by rw [hnt]
    have h2 : (productCore w hi5 lo5 (ms+3)).2 = w * hi5 / 2^64 := by rw [hnt]
    generalize (productCore w hi5 lo5 (ms+3)).1 = lo at *
    generalize (productCore w hi5 lo5 (ms+3)).2 = hi at *
    subst h1 h2
    have hsum : w * hi5 / 2^64 * 2^64 + w * hi5 % 2^64 = w * hi5 := by omega
    refine ⟨hlt.1, hlt.2, ?_, c2, (by intro h; cases h), fun _ => hsec, fun _ => hsum, fun _ => hsum⟩
    rw [hsum, e]; clear c1 c2 c3 hsec hdm hsum hlt e; omega
  · have hfl := productCore_taken_floor (hi5 := hi5) (p := ms+3) hw hlo5 ht
    have htk := productCore_taken (lo5 := lo5) hw hlo5 ht
    have hdm := Nat.div_add_mod (w * (hi5 * 2^64 + lo5)) (2^64)
    have hml := Nat.mod_lt (w * (hi5 * 2^64 + lo5)) (by decide : 0 < 2^64)
    generalize (productCore w hi5 lo5 (ms+3)).1 = lo at *
    generalize (productCore w hi5 lo5 (ms+3)).2 = hi at *
    refine ⟨hlt.1, hlt.2, ?_, c2, ?_, (by intro h; cases h), (by intro h; cases h), ?_⟩
    · rw [hfl]; clear c1 c2 c3 htk hlt e hfl; omega
    · intro _; rw [hfl]; clear c1 c2 c3 htk hlt e hfl; omega
    · intro h0
      rw [h0] at htk; simpa using htk


/-! ## 3. the exact scaled product `z = w·G / (2^128·E)` against `hi` -/

/-- the row `T` of `q` against `5^q·2^(-rowExp q) = G / E` -/
structure RowFacts (q : Int) (T G E : Nat) : Prop where
  Epos : 0 < E
  r_lo : (q < -27 ∨ 0 ≤ q) → T * E ≤ G
  r_lo' : -27 ≤ q → q < 0 → T * E ≤ G + E ∧ E < 2^63 ∧ 2^128 ∣ G
  r_hi : G < (T + 1) * E
  r_mid : -27 ≤ q → q ≤ 55 → G ≤ T * E
  r_ex : 0 ≤ q → q ≤ 55 → E = 1

section
variable {ms w hi5 lo5 lo hi : Nat} {tk : Bool} {q : Int} {G E : Nat}

theorem ProdFacts.c1 (pf : ProdFacts ms w hi5 lo5 lo hi tk) : hi * 2^128 ≤ w * (hi5 * 2^64 + lo5) := by
  have := pf.p1
  have e : (hi * 2^64 + lo) * 2^64 = hi * 2^128 + lo * 2^64 := by ring
  linarith

/-- lower bound: `hi ≤ z` -/
theorem z_lower (pf : ProdFacts ms w hi5 lo5 lo hi tk) (rf : RowFacts q (hi5 * 2^64 + lo5) G E)
    (hw : w < 2^64) : hi * 2^128 * E ≤ w * G := by
  have c1 := pf.c1
  rcases Int.lt_or_le q (-27) with hq | hq
  · exact chain_le c1 (rf.r_lo (Or.inl hq))
  rcases Int.lt_or_le q 0 with hq0 | hq0
  · obtain ⟨a, b, ⟨G', hG⟩⟩ := rf.r_lo' hq hq0
    subst hG
    have l1 : hi * 2^128 * E ≤ w * (2^128 * G' + E) := chain_le c1 a
    have l2 : w * E < 2^64 * 2^63 := Nat.mul_lt_mul'' hw b
    by_contra hcon
    have hlt : w * G' * 2^128 < hi * E * 2^128 := by
      have e1 : w * (2^128 * G') = w * G' * 2^128 := by ring
      have e2 : hi * 2^128 * E = hi * E * 2^128 := by ring
      rw [← e1, ← e2]; omega
    have h3 : w * G' < hi * E := Nat.lt_of_mul_lt_mul_right hlt
    have e3 : w * (2^128 * G' + E) = w * G' * 2^128 + w * E := by ring
    have e4 : hi * 2^128 * E = hi * E * 2^128 := by ring
    rw [e3, e4] at l1
    generalize w * G' = A at *
    generalize hi * E = B at *
    generalize w * E = C at *
    have : (A + 1) * 2^128 ≤ B * 2^128 := Nat.mul_le_mul_right _ h3
    linarith
  · exact chain_le c1 (rf.r_lo (Or.inr hq0))

/-- upper bound without the second product: `z < hi + 2` -/
theorem z_upper2 (pf : ProdFacts ms w hi5 lo5 lo hi tk) (rf : RowFacts q (hi5 * 2^64 + lo5) G E) :
    w * G < (hi + 2) * 2^128 * E :=
  chain_lt pf.p2 (Nat.le_of_lt rf.r_hi) rf.Epos

/-- upper bound with the second product, unless the all-ones bail-out applies: `z < hi + 1` -/
theorem z_upper1 (pf : ProdFacts ms w hi5 lo5 lo hi tk) (rf : RowFacts q (hi5 * 2^64 + lo5) G E)
    (hw : w < 2^64) (htk : tk = true) (hnb : ¬ (lo = u64Max ∧ ¬ (q ≥ -27 ∧ q ≤ 55))) :
    w * G < (hi + 1) * 2^128 * E := by
  have p3 := pf.p3 htk
  have hlo := pf.lo_lt
  by_cases hin : q ≥ -27 ∧ q ≤ 55
  · have hm := rf.r_mid hin.1 hin.2
    have l1 : w * (hi5 * 2^64 + lo5) < (hi + 1) * 2^128 := by
      have e : (hi * 2^64 + lo + 1) * 2^64 = hi * 2^128 + (lo + 1) * 2^64 := by ring
      have : (lo + 1) * 2^64 ≤ 2^64 * 2^64 := Nat.mul_le_mul_right _ hlo
      linarith
    calc w * G ≤ w * ((hi5 * 2^64 + lo5) * E) := Nat.mul_le_mul_left _ hm
      _ = w * (hi5 * 2^64 + lo5) * E := (Nat.mul_assoc ..).symm
      _ < (hi + 1) * 2^128 * E := Nat.mul_lt_mul_of_pos_right l1 rf.Epos
  · have hl : lo ≠ u64Max := fun h => hnb ⟨h, hin⟩
    unfold u64Max at hl
    have l1 : w * (hi5 * 2^64 + lo5 + 1) < (hi + 1) * 2^128 := by
      rw [Nat.mul_add, Nat.mul_one]
      have e : (hi * 2^64 + lo + 1) * 2^64 = hi * 2^128 + (lo + 1) * 2^64 := by ring
      have : (lo + 2) * 2^64 ≤ 2^64 * 2^64 := Nat.mul_le_mul_right _ (by omega)
      linarith
    exact chain_lt l1 (Nat.le_of_lt rf.r_hi) rf.Epos

end

/-- numerator of `5^q · 2^(-rowExp q)` -/
def rowG (q : Int) : Nat := 5^q.toNat * 2^(-rowExp q).toNat
/-- denominator of `5^q · 2^(-rowExp q)` -/
def rowE (q : Int) : Nat := 5^(-q).toNat * 2^(rowExp q).toNat

theorem rowExp_neg_le {q : Int} (h1 : -342 ≤ q) (h0 : q < 0) : rowExp q ≤ -130 := by
  unfold rowExp; rw [power_eq (by omega) (by omega)]; omega

theorem rowExp_nonneg_ge {q : Int} (h0 : 0 ≤ q) (h2 : q ≤ 308) : -127 ≤ rowExp q := by
  unfold rowExp; rw [power_eq (by omega) (by omega)]; omega

theorem rowE_pos (q : Int) : 0 < rowE q :=
  Nat.mul_pos (Nat.pow_pos (by decide)) (Nat.pow_pos (by decide))

theorem rowFacts_aux {q : Int} (h1 : -342 ≤ q) (h2 : q ≤ 308) {T : Nat}
    (u1 : 56 ≤ q → 0 < rowExp q ∧ T * 2^(rowExp q).toNat ≤ 5^q.toNat ∧
        5^q.toNat < (T + 1) * 2^(rowExp q).toNat)
    (u2 : 0 ≤ q → q ≤ 55 → rowExp q ≤ 0 ∧ T = 5^q.toNat * 2^(-rowExp q).toNat)
    (u3 : q < -27 → rowExp q < 0 ∧ T * 5^(-q).toNat ≤ 2^(-rowExp q).toNat ∧
        2^(-rowExp q).toNat < (T + 1) * 5^(-q).toNat)
    (u4 : -27 ≤ q → q < 0 → rowExp q < 0 ∧ (T - 1) * 5^(-q).toNat ≤ 2^(-rowExp q).toNat ∧
        2^(-rowExp q).toNat < T * 5^(-q).toNat) :
    RowFacts q T (rowG q) (rowE q) := by
  rcases Int.lt_or_le q (-27) with hq | hq
  · obtain ⟨hs, a, b⟩ := u3 hq
    have eG : rowG q = 2^(-rowExp q).toNat := by
      unfold rowG; rw [show q.toNat = 0 by omega]; simp
    have eE : rowE q = 5^(-q).toNat := by
      unfold rowE; rw [show (rowExp q).toNat = 0 by omega]; simp
    rw [eG, eE]
    exact ⟨Nat.pow_pos (by decide), fun _ => a, fun h => by omega, b, fun h => by omega, fun h => by omega⟩
  rcases Int.lt_or_le q 0 with hq0 | hq0
  · obtain ⟨hs, a, b⟩ := u4 hq hq0
    have eG : rowG q = 2^(-rowExp q).toNat := by
      unfold rowG; rw [show q.toNat = 0 by omega]; simp
    have eE : rowE q = 5^(-q).toNat := by
      unfold rowE; rw [show (rowExp q).toNat = 0 by omega]; simp
    rw [eG, eE]
    have hE : 0 < 5^(-q).toNat := Nat.pow_pos (by decide)
    have hT : 1 ≤ T := by
      rcases Nat.eq_zero_or_pos T with h0 | h0
      · rw [h0, Nat.zero_mul] at b; exact absurd b (Nat.not_lt_zero _)
      · exact h0
    have hsub : (T - 1) * 5^(-q).toNat + 5^(-q).toNat = T * 5^(-q).toNat := by
      rw [← Nat.add_one_mul]; congr 1; omega
    have hE63 : 5^(-q).toNat < 2^63 :=
      Nat.lt_of_le_of_lt (Nat.pow_le_pow_right (by decide) (show (-q).toNat ≤ 27 by omega)) (by decide)
    have hdvd : 2^128 ∣ 2^(-rowExp q).toNat :=
      Nat.pow_dvd_pow 2 (by have := rowExp_neg_le h1 hq0; omega)
    refine ⟨hE, fun h => by omega, fun _ _ => ⟨by omega, hE63, hdvd⟩, ?_, fun _ _ => Nat.le_of_lt b,
      fun h => by omega⟩
    calc 2^(-rowExp q).toNat < T * 5^(-q).toNat := b
      _ ≤ (T + 1) * 5^(-q).toNat := Nat.mul_le_mul_right _ (Nat.le_succ _)
  rcases Int.lt_or_le q 56 with hq5 | hq5
  · obtain ⟨hs, a⟩ := u2 hq0 (by omega)
    have eE : rowE q = 1 := by
      unfold rowE
      rw [show (rowExp q).toNat = 0 by omega, show (-q).toNat = 0 by omega]; rfl
    have eG : rowG q = T := by unfold rowG; exact a.symm
    rw [eG, eE]
    exact ⟨Nat.one_pos, fun _ => by omega, fun _ h => by omega, by omega, fun _ _ => by omega, fun _ _ => rfl⟩
  · obtain ⟨hs, a, b⟩ := u1 hq5
    have eG : rowG q = 5^q.toNat := by
      unfold rowG; rw [show (-rowExp q).toNat = 0 by omega]; simp
    have eE : rowE q = 2^(rowExp q).toNat := by
      unfold rowE; rw [show (-q).toNat = 0 by omega]; simp
    rw [eG, eE]
    exact ⟨Nat.pow_pos (by decide), fun _ => a, fun _ h => by omega, b, fun _ h => by omega, fun _ h => by omega⟩

theorem rowFacts {q : Int} (h1 : -342 ≤ q) (h2 : q ≤ 308) {hi5 lo5 : Nat}
    (hok : rowOk (hi5, lo5) q = true) : RowFacts q (hi5 * 2^64 + lo5) (rowG q) (rowE q) := by
  obtain ⟨u1, u2, u3, u4⟩ := rowOk_unpack' h1 h2 hok
  exact rowFacts_aux h1 h2 u1 u2 u3 u4


theorem pow_sub_one_mod {a t : Nat} (hat : a ≤ t) : (2^t - 1) % 2^a = 2^a - 1 := by
  have hp : 2^t = 2^a * 2^(t - a) := by rw [← Nat.pow_add]; congr 1; omega
  have h1 : 0 < 2^(t-a) := Nat.two_pow_pos _
  have h2 : 0 < 2^a := Nat.two_pow_pos _
  have e : 2^t - 1 = 2^a * (2^(t-a) - 1) + (2^a - 1) := by
    rw [hp, Nat.mul_sub_one]
    have : 2^a ≤ 2^a * 2^(t-a) := Nat.le_mul_of_pos_right _ h1
    omega
  rw [e, Nat.mul_add_mod, Nat.mod_eq_of_lt (by omega)]

/-- one more than `hi` does not reach the next multiple of `2^t` … -/
theorem succ_le_next (hi t : Nat) : hi + 1 ≤ (hi / 2^t + 1) * 2^t := by
  have := Nat.div_add_mod hi (2^t)
  have := Nat.mod_lt hi (Nat.two_pow_pos t)
  rw [Nat.add_mul, Nat.one_mul, Nat.mul_comm]; omega

/-- … and neither does two more, unless the low `a ≤ t` bits of `hi` are all ones -/
theorem succ2_le_next {hi a t : Nat} (hat : a ≤ t) (h : hi % 2^a ≠ 2^a - 1) :
    hi + 2 ≤ (hi / 2^t + 1) * 2^t := by
  have h1 := Nat.div_add_mod hi (2^t)
  have h2 := Nat.mod_lt hi (Nat.two_pow_pos t)
  have hne : hi % 2^t ≠ 2^t - 1 := by
    intro he
    apply h
    rw [← Nat.mod_mod_of_dvd hi (Nat.pow_dvd_pow 2 hat), he, pow_sub_one_mod hat]
  rw [Nat.add_mul, Nat.one_mul, Nat.mul_comm]; omega



section
variable {ms w hi5 lo5 lo hi : Nat} {tk : Bool} {q : Int} {G E : Nat}

/-- **the bracket**: cutting `hi` at any bit position `t ≥ 61 − ms` gives the right floor of
    `z / 2^t`, where `z = w·G / (2^128·E)` is the exact scaled product -/
theorem z_bracket (pf : ProdFacts ms w hi5 lo5 lo hi tk) (rf : RowFacts q (hi5 * 2^64 + lo5) G E)
    (hw : w < 2^64) (hnb : ¬ (lo = u64Max ∧ ¬ (q ≥ -27 ∧ q ≤ 55))) {t : Nat} (ht : 61 - ms ≤ t) :
    hi / 2^t * (2^t * 2^128 * E) ≤ w * G ∧ w * G < (hi / 2^t + 1) * (2^t * 2^128 * E) := by
  constructor
  · have l1 := z_lower pf rf hw
    have l2 : hi / 2^t * 2^t ≤ hi := Nat.div_mul_le_self _ _
    calc hi / 2^t * (2^t * 2^128 * E) = hi / 2^t * 2^t * 2^128 * E := by ring
      _ ≤ hi * 2^128 * E := Nat.mul_le_mul_right _ (Nat.mul_le_mul_right _ l2)
      _ ≤ w * G := l1
  · have e : (hi / 2^t + 1) * (2^t * 2^128 * E) = (hi / 2^t + 1) * 2^t * 2^128 * E := by ring
    rw [e]
    cases htk : tk
    · have u := z_upper2 pf rf
      have l2 := succ2_le_next ht (pf.p4 htk)
      exact Nat.lt_of_lt_of_le u (Nat.mul_le_mul_right _ (Nat.mul_le_mul_right _ l2))
    · have u := z_upper1 pf rf hw htk hnb
      have l2 := succ_le_next hi t
      exact Nat.lt_of_lt_of_le u (Nat.mul_le_mul_right _ (Nat.mul_le_mul_right _ l2))

/-! ## 4. exact ties -/

/-- rows `0 ≤ q ≤ 27` (`lo5 = 0`, `hi5` even): the product is exact, `z = hi + lo/2^64`, `lo` even -/
theorem tie_exact (pf : ProdFacts ms w hi5 lo5 lo hi tk) (rf : RowFacts q (hi5 * 2^64 + lo5) G E)
    (h0 : 0 ≤ q) (h55 : q ≤ 55) (hlo5 : lo5 = 0) (heven : hi5 % 2 = 0) :
    lo % 2 = 0 ∧ ∀ H, w * G = H * 2^128 * E ↔ hi = H ∧ lo = 0 := by
  have p6 := pf.p6 hlo5
  have hlo := pf.lo_lt
  have hE := rf.r_ex h0 h55
  have hG : G = (hi5 * 2^64 + lo5) * E := Nat.le_antisymm (rf.r_mid (by omega) h55) (rf.r_lo (Or.inr h0))
  subst hlo5
  rw [hE] at hG
  constructor
  · obtain ⟨c, hc⟩ : ∃ c, hi5 = 2 * c := ⟨hi5 / 2, by omega⟩
    have : w * hi5 = 2 * (w * c) := by rw [hc]; ring
    omega
  · intro H
    have e1 : w * G = (hi * 2^64 + lo) * 2^64 := by rw [hG, p6]; ring
    have e2 : H * 2^128 * E = (H * 2^64) * 2^64 := by rw [hE]; ring
    rw [e1, e2]
    constructor
    · intro h
      have := Nat.eq_of_mul_eq_mul_right (by decide : 0 < 2^64) h
      omega
    · rintro ⟨rfl, rfl⟩; rw [Nat.add_zero]

/-- rows `−27 ≤ q < 0`: if `z` is the integer `hi` then `lo = 0` -/
theorem tie_neg_lo (pf : ProdFacts ms w hi5 lo5 lo hi tk) (rf : RowFacts q (hi5 * 2^64 + lo5) G E)
    (hw : w < 2^64) (h27 : -27 ≤ q) (h0 : q < 0) (hz : w * G = hi * 2^128 * E) : lo = 0 := by
  obtain ⟨a, _, _⟩ := rf.r_lo' h27 h0
  have hE := rf.Epos
  have p1 := pf.p1
  -- (hi·2^128 + lo·2^64)·E ≤ w·T·E ≤ w·G + w·E = hi·2^128·E + w·E
  have l1 : (hi * 2^64 + lo) * 2^64 * E ≤ w * (G + E) := chain_le p1 a
  rw [Nat.mul_add, hz] at l1
  have e : (hi * 2^64 + lo) * 2^64 * E = hi * 2^128 * E + lo * 2^64 * E := by ring
  rw [e] at l1
  have l2 : lo * 2^64 * E ≤ w * E := Nat.le_of_add_le_add_left l1
  have l3 : lo * 2^64 ≤ w := Nat.le_of_mul_le_mul_right l2 hE
  omega

/-- rows `−27 ≤ q < 0`, second product taken, `lo ≤ 1`: then `z` is the integer `hi` -/
theorem tie_neg_taken (pf : ProdFacts ms w hi5 lo5 lo hi tk) (rf : RowFacts q (hi5 * 2^64 + lo5) G E)
    (hw : w < 2^64) (h27 : -27 ≤ q) (h0 : q < 0) (htk : tk = true) (hlo : lo ≤ 1) :
    w * G = hi * 2^128 * E := by
  obtain ⟨_, hE63, ⟨G', hG⟩⟩ := rf.r_lo' h27 h0
  have hE := rf.Epos
  have l1 := z_lower pf rf hw
  have p3 := pf.p3 htk
  have hm := rf.r_mid h27 (by omega)
  have l2 : w * G < (hi * 2^64 + lo + 1) * 2^64 * E :=
    calc w * G ≤ w * ((hi5 * 2^64 + lo5) * E) := Nat.mul_le_mul_left _ hm
      _ = w * (hi5 * 2^64 + lo5) * E := (Nat.mul_assoc ..).symm
      _ < (hi * 2^64 + lo + 1) * 2^64 * E := Nat.mul_lt_mul_of_pos_right p3 hE
  subst hG
  have e1 : w * (2^128 * G') = w * G' * 2^128 := by ring
  have e2 : hi * 2^128 * E = hi * E * 2^128 := by ring
  rw [e1, e2] at l1 ⊢
  rw [e1] at l2
  have l1' : hi * E ≤ w * G' := Nat.le_of_mul_le_mul_right l1 (by decide)
  have l3 : (hi * 2^64 + lo + 1) * 2^64 * E ≤ hi * E * 2^128 + 2^65 * E := by
    have : (hi * 2^64 + lo + 1) * 2^64 * E = hi * E * 2^128 + (lo + 1) * 2^64 * E := by ring
    rw [this]
    have : (lo + 1) * 2^64 ≤ 2^65 :=
      Nat.le_trans (Nat.mul_le_mul_right _ (show lo + 1 ≤ 2 by omega)) (by norm_num)
    have := Nat.mul_le_mul_right E this
    linarith
  have l4 : 2^65 * E < 2^128 := by
    have : 2^65 * E < 2^65 * 2^63 := Nat.mul_lt_mul_of_pos_left hE63 (by decide)
    exact this
  have l5 : w * G' * 2^128 < (hi * E + 1) * 2^128 := by
    rw [Nat.add_mul, Nat.one_mul]; linarith
  have l6 : w * G' < hi * E + 1 := Nat.lt_of_mul_lt_mul_right l5
  have : w * G' = hi * E := by omega
  rw [this]

end

theorem coprime_five_two_pow (n k : Nat) : Nat.Coprime (5^n) (2^k) :=
  Nat.Coprime.pow n k (by decide)

theorem coprime_odd_two_pow {M : Nat} (hM : M % 2 = 1) (k : Nat) : Nat.Coprime M (2^k) :=
  Nat.Coprime.pow_right k (Nat.Coprime.symm ((Nat.Prime.coprime_iff_not_dvd Nat.prime_two).2 (by omega)))

/-- `q ≥ 0`: if `z = M·2^sh` is an integer then `5^q ∣ M` -/
theorem tie_window_hi {q : Int} (h0 : 0 ≤ q) {w M sh : Nat}
    (hz : w * rowG q = M * 2^sh * 2^128 * rowE q) : 5^q.toNat ∣ M := by
  unfold rowG rowE at hz
  rw [show (-q).toNat = 0 by omega, Nat.pow_zero, Nat.one_mul] at hz
  have e : M * 2^sh * 2^128 * 2^(rowExp q).toNat = M * 2^(sh + 128 + (rowExp q).toNat) := by
    rw [Nat.pow_add, Nat.pow_add]; ring
  rw [e] at hz
  apply Nat.Coprime.dvd_of_dvd_mul_right (coprime_five_two_pow _ (sh + 128 + (rowExp q).toNat))
  rw [← hz]
  exact ⟨w * 2^(-rowExp q).toNat, by ring⟩

/-- `q < 0`: if `z = M·2^sh` is an integer with `M` odd then `M·5^-q ≤ w` -/
theorem tie_window_lo {q : Int} (h0 : q < 0) {w M sh : Nat} (hw : 0 < w) (hM : M % 2 = 1)
    (hz : w * rowG q = M * 2^sh * 2^128 * rowE q) : M * 5^(-q).toNat ≤ w := by
  unfold rowG rowE at hz
  rw [show q.toNat = 0 by omega, Nat.pow_zero, Nat.one_mul] at hz
  apply Nat.le_of_dvd hw
  have hc : Nat.Coprime (M * 5^(-q).toNat) (2^(-rowExp q).toNat) :=
    Nat.Coprime.mul_left (coprime_odd_two_pow hM _) (coprime_five_two_pow _ _)
  apply Nat.Coprime.dvd_of_dvd_mul_right hc
  rw [hz]
  exact ⟨2^sh * 2^128 * 2^(rowExp q).toNat, by ring⟩

/-- `q ≤ −28`: `z` is never an integer -/
theorem no_int_small {q : Int} (h28 : q ≤ -28) {w H : Nat} (hw0 : 0 < w) (hw : w < 2^64)
    (hz : w * rowG q = H * rowE q) : False := by
  unfold rowG rowE at hz
  rw [show q.toNat = 0 by omega, Nat.pow_zero, Nat.one_mul] at hz
  have hd : 5^(-q).toNat ∣ w := by
    apply Nat.Coprime.dvd_of_dvd_mul_right (coprime_five_two_pow _ (-rowExp q).toNat)
    rw [hz]
    exact ⟨H * 2^(rowExp q).toNat, by ring⟩
  have h1 := Nat.le_of_dvd hw0 hd
  have h2 : 5^28 ≤ 5^(-q).toNat := Nat.pow_le_pow_right (by decide) (by omega)
  have h3 : 2^64 < 5^28 := by decide
  omega


/-! ### finite facts about single rows -/

/-- 2-adic bookkeeping: if `2^(64+a) ∣ x·y` and `2^(a+1) ∤ y` then `2^64 ∣ x` -/
theorem two_adic : ∀ (a : Nat) {x y : Nat}, 2^(64 + a) ∣ x * y → ¬ 2^(a+1) ∣ y → 2^64 ∣ x
  | 0, x, y, h, hn => by
    have hy : y % 2 = 1 := by
      rcases Nat.mod_two_eq_zero_or_one y with h0 | h1
      · exact absurd (Nat.dvd_of_mod_eq_zero h0) (by simpa using hn)
      · exact h1
    exact Nat.Coprime.dvd_of_dvd_mul_right (coprime_odd_two_pow hy 64).symm h
  | a+1, x, y, h, hn => by
    rcases Nat.mod_two_eq_zero_or_one y with h0 | h1
    · obtain ⟨y', rfl⟩ := Nat.dvd_of_mod_eq_zero h0
      have e1 : x * (2 * y') = 2 * (x * y') := by ring
      have e2 : 2^(64 + (a+1)) = 2 * 2^(64 + a) := by rw [← Nat.add_assoc, Nat.pow_succ, Nat.mul_comm]
      rw [e1, e2] at h
      have h' := Nat.dvd_of_mul_dvd_mul_left (by decide : 0 < 2) h
      apply two_adic a h'
      intro hd
      apply hn
      rw [Nat.pow_succ, Nat.mul_comm]
      exact Nat.mul_dvd_mul_left 2 hd
    · have := Nat.Coprime.dvd_of_dvd_mul_right (coprime_odd_two_pow h1 (64 + (a+1))).symm h
      exact Nat.dvd_trans (Nat.pow_dvd_pow 2 (by omega)) this

/-- inverse of an odd `a` modulo `2^64` (Newton iteration) -/
def inv64 (a : Nat) : Nat :=
  let step (x : Nat) := x * (2^64 + 2 - a * x % 2^64) % 2^64
  step (step (step (step (step (step a)))))

theorem inv64_lt (a : Nat) : inv64 a < 2^64 := by
  unfold inv64; exact Nat.mod_lt _ (by decide)

theorem inv_unique {w i a : Nat} (hw : w < 2^64) (hi : i < 2^64) (h1 : w * a % 2^64 = 1)
    (h2 : i * a % 2^64 = 1) : w = i := by
  have e1 : w * (i * a) % 2^64 = w := by
    rw [← Nat.mul_mod_mod, h2, Nat.mul_one, Nat.mod_eq_of_lt hw]
  have e2 : i * (w * a) % 2^64 = i := by
    rw [← Nat.mul_mod_mod, h1, Nat.mul_one, Nat.mod_eq_of_lt hi]
  have : w * (i * a) = i * (w * a) := by ring
  rw [this] at e1
  omega

/-- Boolean check on the high word `hi5` of a rounded-up row `q < 0` in the tie window: the first
    product alone cannot look like a tie (`lo ≤ 1`, low `61 − ms` bits of `hi` zero) -/
def negTieRowOk (ms hi5 : Nat) : Bool :=
  if hi5 % 2 = 0 then decide (hi5 % 2^(62 - ms) ≠ 0)
  else decide (inv64 hi5 * hi5 % 2^64 = 1) &&
    (decide (inv64 hi5 < 2^63) || decide (inv64 hi5 * hi5 / 2^64 % 2^(61 - ms) ≠ 0))

theorem negTie_sound {ms hi5 w hi lo : Nat} (hms : ms ≤ 61) (hok : negTieRowOk ms hi5 = true)
    (hw63 : 2^63 ≤ w) (hw : w < 2^64) (hprod : hi * 2^64 + lo = w * hi5) (hlo : lo ≤ 1)
    (hz : hi % 2^(61 - ms) = 0) : False := by
  obtain ⟨hh, hhe⟩ := Nat.dvd_of_mod_eq_zero hz
  have hzero : lo = 0 → ¬ 2^(61 - ms + 1) ∣ hi5 → False := by
    intro h0 hnd
    have hd : 2^(64 + (61 - ms)) ∣ w * hi5 := by
      rw [← hprod, h0, Nat.add_zero, hhe, Nat.pow_add]
      exact ⟨hh, by ring⟩
    have := Nat.le_of_dvd (by omega) (two_adic _ hd hnd)
    omega
  unfold negTieRowOk at hok
  split at hok
  · rename_i hev
    have hnd : ¬ 2^(61 - ms + 1) ∣ hi5 := by
      intro hd
      have := Nat.mod_eq_zero_of_dvd hd
      rw [show 61 - ms + 1 = 62 - ms by omega] at this
      simp [this] at hok
    apply hzero _ hnd
    obtain ⟨c, hc⟩ : ∃ c, hi5 = 2 * c := ⟨hi5 / 2, by omega⟩
    have : w * hi5 = 2 * (w * c) := by rw [hc]; ring
    omega
  · rename_i hodd
    simp only [Bool.and_eq_true, Bool.or_eq_true, decide_eq_true_eq] at hok
    obtain ⟨hinv, hchk⟩ := hok
    rcases Nat.eq_zero_or_pos lo with h0 | h1
    · apply hzero h0
      intro hd
      have : 2 ∣ hi5 := Nat.dvd_trans (Dvd.intro_left (2^(61 - ms)) (by rw [Nat.pow_succ])) hd
      omega
    · have hl1 : lo = 1 := by omega
      subst hl1
      have hm : w * hi5 % 2^64 = 1 := by rw [← hprod]; omega
      have hwi := inv_unique hw (inv64_lt hi5) hm hinv
      rw [← hwi] at hchk
      have hq : w * hi5 / 2^64 = hi := by rw [← hprod]; omega
      rw [hq] at hchk
      omega



/-! ### finite facts about the table -/

/-- the row of `q` -/
def rowAt (q : Int) : Nat × Nat := Gen.powerOfFive128.getD (q + 342).toNat (0, 0)

theorem rowAt_eq {q : Int} {hi5 lo5 : Nat} (h1 : -342 ≤ q)
    (hrow : genLemire.powerOfFive128[(q - genLemire.smallestPowerOfFive).toNat]? = some (hi5, lo5)) :
    rowAt q = (hi5, lo5) := by
  rw [genLemire_smallest] at hrow
  have e : (q - -342).toNat = (q + 342).toNat := by omega
  rw [e] at hrow
  unfold rowAt
  rw [List.getD_eq_getElem?_getD]
  have : Gen.powerOfFive128[(q + 342).toNat]? = some (hi5, lo5) := hrow
  rw [this]; rfl

/-- rows `0 ≤ q ≤ 27`: `5^q < 2^64`, the low word is zero and the high word is even -/
def smallRowP (q : Int) : Bool := (rowAt q).2 == 0 && (rowAt q).1 % 2 == 0

theorem smallRows_check : rangeGo smallRowP 28 0 = true := by decide +kernel

theorem smallRow {q : Int} (h0 : 0 ≤ q) (h27 : q ≤ 27) : (rowAt q).2 = 0 ∧ (rowAt q).1 % 2 = 0 := by
  have := rangeGo_int smallRowP 28 0 smallRows_check q h0 (by omega)
  unfold smallRowP at this
  simpa using this

def negTieP (ms : Nat) (q : Int) : Bool := negTieRowOk ms (rowAt q).1

theorem negTie_f64 : rangeGo (negTieP 52) 4 (-4) = true := by decide +kernel
theorem negTie_f32 : rangeGo (negTieP 23) 17 (-17) = true := by decide +kernel


/-- what the tie logic needs from the format constants -/
structure TieWin (ms : Nat) (lo hi : Int) : Prop where
  ms_le : ms ≤ 60
  lo_ge : -27 ≤ lo
  lo_le : lo ≤ 0
  hi_ge : 0 ≤ hi
  hi_le : hi ≤ 27
  win_hi : 2^(ms + 2) ≤ 5^(hi + 1).toNat
  win_lo : 2^(63 - ms) ≤ 5^(1 - lo).toNat
  negtie : rangeGo (negTieP ms) (-lo).toNat lo = true

section
variable {ms w hi5 lo5 lo hi : Nat} {tk : Bool} {q : Int} {rlo rhi : Int}

/-- **the tie test is exact**: for the `(ms+2)`-bit `M = hi >> sh` (`sh ≥ 61 − ms`), the condition of
    `compute_float` holds iff `M ≡ 1 (mod 4)` and the exact scaled product `z` equals `M·2^sh` -/
theorem tie_iff (tw : TieWin ms rlo rhi) (pf : ProdFacts ms w hi5 lo5 lo hi tk)
    (rf : RowFacts q (hi5 * 2^64 + lo5) (rowG q) (rowE q)) (hrow : rowAt q = (hi5, lo5))
    (hw63 : 2^63 ≤ w) (hw : w < 2^64) {sh : Nat} (hsh : 61 - ms ≤ sh)
    (hM1 : 2^(ms+1) ≤ hi / 2^sh) (hM2 : hi / 2^sh < 2^(ms+2)) :
    (lo ≤ 1 ∧ q ≥ rlo ∧ q ≤ rhi ∧ (hi / 2^sh) % 4 = 1 ∧ hi / 2^sh * 2^sh = hi) ↔
    ((hi / 2^sh) % 4 = 1 ∧ w * rowG q = hi / 2^sh * (2^sh * 2^128 * rowE q)) := by
  have hE := rf.Epos
  have hml : hi / 2^sh * 2^sh ≤ hi := Nat.div_mul_le_self _ _
  have eB : ∀ H, H * (2^sh * 2^128 * rowE q) = H * 2^sh * 2^128 * rowE q := fun H => by ring
  constructor
  · rintro ⟨hlo, hq1, hq2, hm4, hMhi⟩
    refine ⟨hm4, ?_⟩
    rw [eB, hMhi]
    rcases Int.lt_or_le q 0 with hq0 | hq0
    · cases htk : tk
      · exfalso
        have hok : negTieRowOk ms hi5 = true := by
          have := rangeGo_int (negTieP ms) _ _ tw.negtie q hq1 (by have := tw.lo_le; omega)
          unfold negTieP at this; rw [hrow] at this; exact this
        apply negTie_sound (by have := tw.ms_le; omega) hok hw63 hw (pf.p5 htk) hlo
        apply Nat.mod_eq_zero_of_dvd
        rw [← hMhi]
        exact Dvd.dvd.mul_left (Nat.pow_dvd_pow 2 hsh) _
      · exact tie_neg_taken pf rf hw (by have := tw.lo_ge; omega) hq0 htk hlo
    · have hs := smallRow hq0 (by have := tw.hi_le; omega)
      rw [hrow] at hs
      obtain ⟨ev, hb⟩ := tie_exact pf rf hq0 (by have := tw.hi_le; omega) hs.1 hs.2
      exact (hb hi).2 ⟨rfl, by omega⟩
  · rintro ⟨hm4, hz⟩
    have hz' := hz
    rw [eB] at hz
    have hMhi : hi / 2^sh * 2^sh = hi := by
      apply Nat.le_antisymm hml
      have l1 := z_lower pf rf hw
      rw [hz] at l1
      have : hi * (2^128 * rowE q) ≤ hi / 2^sh * 2^sh * (2^128 * rowE q) := by
        rw [← Nat.mul_assoc, ← Nat.mul_assoc]; exact l1
      exact Nat.le_of_mul_le_mul_right this (Nat.mul_pos (by decide) hE)
    have hodd : (hi / 2^sh) % 2 = 1 := by omega
    rcases Int.lt_or_le q 0 with hq0 | hq0
    · have hwin := tie_window_lo hq0 (by omega) hodd hz
      have hm : (-q).toNat < (1 - rlo).toNat := by
        apply (Nat.pow_lt_pow_iff_right (by decide : 1 < 5)).1
        refine Nat.lt_of_lt_of_le ?_ tw.win_lo
        have h1 : 2^(ms+1) * 5^(-q).toNat ≤ hi / 2^sh * 5^(-q).toNat := Nat.mul_le_mul_right _ hM1
        have h2 : 2^(ms+1) * 5^(-q).toNat < 2^(ms+1) * 2^(63 - ms) := by
          rw [← Nat.pow_add, show ms + 1 + (63 - ms) = 64 by have := tw.ms_le; omega]; omega
        exact Nat.lt_of_mul_lt_mul_left h2
      have hq1 : rlo ≤ q := by omega
      have hz2 : w * rowG q = hi * 2^128 * rowE q := by rw [hz, hMhi]
      have hl0 := tie_neg_lo pf rf hw (by have := tw.lo_ge; omega) hq0 hz2
      exact ⟨by omega, hq1, by have := tw.hi_ge; omega, hm4, hMhi⟩
    · have hwin := tie_window_hi hq0 hz
      have hle := Nat.le_of_dvd (by have := Nat.two_pow_pos (ms+1); omega) hwin
      have hm : q.toNat < (rhi + 1).toNat := by
        apply (Nat.pow_lt_pow_iff_right (by decide : 1 < 5)).1
        exact Nat.lt_of_lt_of_le (Nat.lt_of_le_of_lt hle hM2) tw.win_hi
      have hq2 : q ≤ rhi := by omega
      have hs := smallRow hq0 (by have := tw.hi_le; omega)
      rw [hrow] at hs
      obtain ⟨ev, hb⟩ := tie_exact pf rf hq0 (by have := tw.hi_le; omega) hs.1 hs.2
      have := (hb (hi / 2^sh * 2^sh)).1 hz
      exact ⟨by omega, by have := tw.lo_le; omega, hq2, hm4, hMhi⟩

end

/-! ## 5. from the integer bracket to `rne` -/

theorem zpow_toNat_div (c : ℚ) (a : Int) :
    (c^a.toNat : ℚ) / c^(-a).toNat = c^a := by
  rcases Int.lt_or_le a 0 with h | h
  · obtain ⟨n, hn⟩ := Int.eq_ofNat_of_zero_le (show 0 ≤ -a by omega)
    have ha : a = -(n:Int) := by omega
    subst ha
    rw [show (-(n:Int)).toNat = 0 by omega, show (-(-(n:Int))).toNat = n by omega]
    rw [pow_zero, zpow_neg, zpow_natCast, one_div]
  · obtain ⟨n, rfl⟩ := Int.eq_ofNat_of_zero_le h
    rw [show (-(n:Int)).toNat = 0 by omega, Int.toNat_natCast, pow_zero, div_one, zpow_natCast]

/-- `G / E = 5^q · 2^(-rowExp q)` -/
theorem rowG_div_rowE (q : Int) :
    ((rowG q : Nat) : ℚ) / ((rowE q : Nat) : ℚ) = (5:ℚ)^q * (2:ℚ)^(-rowExp q) := by
  unfold rowG rowE
  push_cast
  rw [mul_div_mul_comm, zpow_toNat_div 5 q]
  have := zpow_toNat_div 2 (-rowExp q)
  rw [neg_neg] at this
  rw [this]

/-- the value `w·10^q`, scaled by `2^-(g+t)` with `g = power q − 62 − lz`, is the exact product
    `z / 2^t = w'·G / (2^t·2^128·E)` -/
theorem value_scaled (w : Nat) (q : Int) (lz t : Nat) :
    (ofDec w q).toRat / (2:ℚ)^(power q - 62 - lz + t) =
      ((w * 2^lz * rowG q : Nat) : ℚ) / ((2^t * 2^128 * rowE q : Nat) : ℚ) := by
  have hE : ((rowE q : Nat) : ℚ) ≠ 0 := by exact_mod_cast (rowE_pos q).ne'
  have h2 : (2:ℚ) ≠ 0 := by norm_num
  rw [ofDec_toRat]
  have e10 : (10:ℚ)^q = (5:ℚ)^q * (2:ℚ)^q := by rw [← mul_zpow]; norm_num
  have eR : ((w * 2^lz * rowG q : Nat) : ℚ) / ((2^t * 2^128 * rowE q : Nat) : ℚ) =
      (w:ℚ) * (((rowG q : Nat) : ℚ) / ((rowE q : Nat) : ℚ)) *
        ((2:ℚ)^(lz:Int) * (2:ℚ)^(-(t:Int)) * (2:ℚ)^(-(128:Int))) := by
    push_cast
    rw [zpow_neg, zpow_neg, zpow_natCast, zpow_natCast]
    have : ((2:ℚ)^(128:Int)) = (2:ℚ)^(128:Nat) := by norm_num
    rw [this]
    field_simp
    norm_num
  rw [eR, rowG_div_rowE, e10, div_eq_mul_inv, ← zpow_neg]
  have key : (2:ℚ)^q * (2:ℚ)^(-(power q - 62 - lz + t)) =
      (2:ℚ)^(-rowExp q) * ((2:ℚ)^(lz:Int) * (2:ℚ)^(-(t:Int)) * (2:ℚ)^(-(128:Int))) := by
    rw [← zpow_add₀ h2, ← zpow_add₀ h2, ← zpow_add₀ h2, ← zpow_add₀ h2]
    congr 1
    unfold rowExp; omega
  calc (w:ℚ) * ((5:ℚ)^q * (2:ℚ)^q) * (2:ℚ)^(-(power q - 62 - lz + t))
      = (w:ℚ) * (5:ℚ)^q * ((2:ℚ)^q * (2:ℚ)^(-(power q - 62 - lz + t))) := by ring
    _ = (w:ℚ) * (5:ℚ)^q * ((2:ℚ)^(-rowExp q) * ((2:ℚ)^(lz:Int) * (2:ℚ)^(-(t:Int)) * (2:ℚ)^(-(128:Int)))) := by
        rw [key]
    _ = _ := by ring

/-- integer form of `rne_of_halfbits`: the scaled value is a quotient `N / B` of naturals -/
theorem rne_of_halfbits_nat (f : Fmt) {v : Q} (hv : 0 < v.den) (hn : v.num ≠ 0) {k : Int}
    (hk : f.kmin ≤ k) {m r N B : Nat} (hB : 0 < B)
    (hY : v.toRat / (2:ℚ)^(k-1) = (N:ℚ) / (B:ℚ))
    (h1 : m * B ≤ N) (h2 : N < (m + 1) * B)
    (hm2 : m < 2^(f.mbits+2)) (hc : k = f.kmin ∨ 2^(f.mbits+1) ≤ m)
    (he : m % 2 = 0 → r = m / 2)
    (ho : m % 2 = 1 → N ≠ m * B → r = m / 2 + 1)
    (ht : m % 2 = 1 → N = m * B → r = if (m/2) % 2 = 0 then m/2 else m/2 + 1) :
    rne f v = min (r + (k - f.kmin).toNat * 2^f.mbits) f.infBits := by
  have hB' : (0:ℚ) < B := by exact_mod_cast hB
  have heq : (N:ℚ) / (B:ℚ) = m ↔ N = m * B := by
    rw [div_eq_iff hB'.ne']; exact_mod_cast Iff.rfl
  apply rne_of_halfbits f hv hn hk (m := m) (r := r)
  · rw [hY, le_div_iff₀ hB']; exact_mod_cast h1
  · rw [hY, div_lt_iff₀ hB']; exact_mod_cast h2
  · exact hm2
  · exact hc
  · exact he
  · rw [hY]; exact fun a b => ho a (fun h => b (heq.2 h))
  · rw [hY]; exact fun a b => ht a (heq.1 b)



/-! ## 6. code side: packing the rounded significand -/

/-- the tail of the normal branch of `compute_float`, from the rounded `(ms+1)`-bit significand `r` -/
def normalPack (F : FloatC) (r : Nat) (power2 : Int) : ExtFloat :=
  let (m3, p3) := if r ≥ 2 * 2^F.mantissaSize then (2^F.mantissaSize, power2 + 1) else (r, power2)
  let m4 := if m3 / 2^F.mantissaSize % 2 = 1 then m3 - 2^F.mantissaSize else m3
  if p3 ≥ F.infinitePower then ⟨0, F.infinitePower⟩ else ⟨m4, p3⟩

theorem normalOut_eq (F : FloatC) (q : Int) (lo hi mantissa sh : Nat) (power2 : Int) :
    normalOut F q lo hi mantissa sh power2 =
      normalPack F
        (((if lo ≤ 1 ∧ q ≥ F.minExponentRoundToEven ∧ q ≤ F.maxExponentRoundToEven
            ∧ mantissa % 4 = 1 ∧ (mantissa <<< sh) % u64Mod = hi
          then mantissa - mantissa % 2 else mantissa) +
          (if lo ≤ 1 ∧ q ≥ F.minExponentRoundToEven ∧ q ≤ F.maxExponentRoundToEven
            ∧ mantissa % 4 = 1 ∧ (mantissa <<< sh) % u64Mod = hi
          then mantissa - mantissa % 2 else mantissa) % 2) >>> 1) power2 := rfl

theorem normalPack_bits {F : FloatC} (h : F.WF) {r : Nat} {power2 : Int}
    (hr1 : 2^F.mantissaSize ≤ r) (hr2 : r ≤ 2 * 2^F.mantissaSize) (hp : 0 < power2) :
    extendedToFloat F (normalPack F r power2) =
      min (r + (power2 - 1).toNat * 2^F.mantissaSize) F.fmt.infBits := by
  have hX : 0 < 2^F.mantissaSize := Nat.two_pow_pos _
  have hinf := infPower_ge h
  have hinfn := WF.infPower_nat h
  have hib : F.fmt.infBits = (2^F.ebits - 1) * 2^F.mantissaSize := rfl
  obtain ⟨p, rfl⟩ := Int.eq_ofNat_of_zero_le (Int.le_of_lt hp)
  have hp' : 1 ≤ p := by omega
  have epm : ((p:Int) - 1).toNat = p - 1 := by omega
  rw [epm, hib]
  generalize hI : 2^F.ebits - 1 = I at *
  have hI3 : 3 ≤ I := by omega
  have hsplit : (p - 1) * 2^F.mantissaSize + 2^F.mantissaSize = p * 2^F.mantissaSize := by
    rw [← Nat.add_one_mul]; congr 1; omega
  have hinfdef : Definite F ⟨0, F.infinitePower⟩ := definite_inf h
  have hinfbits : extendedToFloat F ⟨0, F.infinitePower⟩ = I * 2^F.mantissaSize := by
    rw [(extendedToFloat_definite h hinfdef).1]; simp only []
    rw [if_pos hX, hinfn, Int.toNat_natCast, Nat.add_zero]
  unfold normalPack
  by_cases hc : r ≥ 2 * 2^F.mantissaSize
  · have hr : r = 2 * 2^F.mantissaSize := by omega
    rw [if_pos hc]; simp only []
    have e : 2^F.mantissaSize / 2^F.mantissaSize % 2 = 1 := by rw [Nat.div_self hX]
    rw [if_pos e, Nat.sub_self]
    have etot : r + (p - 1) * 2^F.mantissaSize = (p + 1) * 2^F.mantissaSize := by
      rw [hr, Nat.add_mul]; omega
    rw [etot]
    by_cases hov : (p:Int) + 1 ≥ F.infinitePower
    · rw [if_pos hov, hinfbits]
      have : I ≤ p + 1 := by omega
      exact (Nat.min_eq_right (Nat.mul_le_mul_right _ this)).symm
    · rw [if_neg hov]
      have hd : Definite F ⟨0, (p:Int) + 1⟩ :=
        ⟨by simp only []; omega, by simp only []; omega, fun hh => by simp only [] at hh; omega, Or.inl hX⟩
      rw [(extendedToFloat_definite h hd).1]; simp only []
      rw [if_pos hX, show ((p:Int) + 1).toNat = p + 1 by omega, Nat.add_zero]
      have : p + 1 ≤ I := by omega
      exact (Nat.min_eq_left (Nat.mul_le_mul_right _ this)).symm
  · rw [if_neg hc]; simp only []
    have hdiv : r / 2^F.mantissaSize = 1 := Nat.div_eq_of_lt_le (by omega) (by omega)
    rw [hdiv, if_pos (show 1 % 2 = 1 from rfl)]
    have etot : r + (p - 1) * 2^F.mantissaSize = p * 2^F.mantissaSize + (r - 2^F.mantissaSize) := by omega
    rw [etot]
    by_cases hov : (p:Int) ≥ F.infinitePower
    · rw [if_pos hov, hinfbits]
      have : I ≤ p := by omega
      have := Nat.mul_le_mul_right (2^F.mantissaSize) this
      exact (Nat.min_eq_right (by omega)).symm
    · rw [if_neg hov]
      have hlt : r - 2^F.mantissaSize < 2^F.mantissaSize := by omega
      have hd : Definite F ⟨r - 2^F.mantissaSize, (p:Int)⟩ :=
        ⟨by simp only []; omega, by simp only []; omega, fun hh => by simp only [] at hh; omega, Or.inl hlt⟩
      rw [(extendedToFloat_definite h hd).1]; simp only []
      rw [if_pos hlt, Int.toNat_natCast]
      have : p + 1 ≤ I := by omega
      have := Nat.mul_le_mul_right (2^F.mantissaSize) this
      rw [Nat.add_mul, Nat.one_mul] at this
      exact (Nat.min_eq_left (by omega)).symm

/-- the subnormal branch as a bit pattern -/
theorem subnormalOut_bits {F : FloatC} (h : F.WF) {mantissa k : Nat}
    (hm : mantissa < 2^(F.mantissaSize+2)) (hk : 1 ≤ k) :
    extendedToFloat F (subnormalOut F mantissa k) =
      (mantissa / 2^k + mantissa / 2^k % 2) / 2 := by
  have hd := subnormalOut_shape h hm hk
  rw [(extendedToFloat_definite h hd).1]
  unfold subnormalOut at hd ⊢
  simp only [Nat.shiftRight_eq_div_pow, Nat.pow_one] at hd ⊢
  generalize (mantissa / 2^k + mantissa / 2^k % 2) / 2 = m3 at *
  obtain ⟨_, _, _, hm3⟩ := hd
  simp only [] at hm3
  split
  · rename_i hlt
    rw [if_neg (by omega)]; simp
  · rcases hm3 with hlt | ⟨he, _⟩
    · omega
    · exact he.symm



/-- everything the soundness proof needs from the format constants (all finite, checked for
    `Gen.F32` / `Gen.F64` by evaluation) -/
structure LemSnd (F : FloatC) : Prop where
  lem : LemF F
  tw : TieWin F.mantissaSize F.minExponentRoundToEven F.maxExponentRoundToEven
  minExp_le : F.minimumExponent ≤ -100
  sm_neg : F.smallestPowerOfTen ≤ 0
  lg_nonneg : 0 ≤ F.largestPowerOfTen
  small_ok : 2^(64 + F.exponentBias).toNat ≤ 10^(1 - F.smallestPowerOfTen).toNat
  large_ok : 2^(F.exponentBias + 1 - F.mantissaSize).toNat ≤ 10^(F.largestPowerOfTen + 1).toNat

theorem ofDec_num_ne {w : Nat} (hw0 : 0 < w) (q : Int) : (ofDec w q).num ≠ 0 := by
  unfold ofDec
  split
  · exact (Nat.mul_pos hw0 (Nat.pow_pos (by decide))).ne'
  · exact hw0.ne'

theorem WF.minExp_eq {F : FloatC} (h : F.WF) : F.minimumExponent = F.mantissaSize - F.exponentBias := by
  rw [h.minExp, h.bias]; omega

section
variable {F : FloatC}

/-- spec side of the normal branch -/
theorem normal_spec (hS : LemSnd F) {q : Int} {w : Nat} (hw0 : 0 < w) (hw : w < 2^64)
    {hi5 lo5 lo hi : Nat} {tk : Bool}
    (pf : ProdFacts F.mantissaSize (w * 2^(clz64 w)) hi5 lo5 lo hi tk)
    (rf : RowFacts q (hi5 * 2^64 + lo5) (rowG q) (rowE q)) (hrow : rowAt q = (hi5, lo5))
    (hnb : ¬ (lo = u64Max ∧ ¬ (q ≥ -27 ∧ q ≤ 55)))
    (hhi1 : 2^62 ≤ hi) {u sh : Nat} (hu : u = hi / 9223372036854775808)
    (hsh : sh = u + 64 - F.mantissaSize - 3)
    (hp : 0 < power q + u - clz64 w - F.minimumExponent) :
    rne F.fmt (ofDec w q) =
      min ((((if lo ≤ 1 ∧ q ≥ F.minExponentRoundToEven ∧ q ≤ F.maxExponentRoundToEven
              ∧ hi / 2^sh % 4 = 1 ∧ hi / 2^sh * 2^sh % u64Mod = hi
            then hi / 2^sh - hi / 2^sh % 2 else hi / 2^sh) +
            (if lo ≤ 1 ∧ q ≥ F.minExponentRoundToEven ∧ q ≤ F.maxExponentRoundToEven
              ∧ hi / 2^sh % 4 = 1 ∧ hi / 2^sh * 2^sh % u64Mod = hi
            then hi / 2^sh - hi / 2^sh % 2 else hi / 2^sh) % 2) / 2) +
          (power q + u - clz64 w - F.minimumExponent - 1).toNat * 2^F.mantissaSize) F.fmt.infBits := by
  have hwf := hS.lem.wf
  have hms := hS.tw.ms_le
  have hn := norm_bounds hw0 hw
  have hhi2 := pf.hi_lt
  have hu1 : u ≤ 1 := by rw [hu]; omega
  have hM1 : 2^(F.mantissaSize+1) ≤ hi / 2^sh := by
    have := mantissa_ge (ms := F.mantissaSize) (by omega) hhi1 hhi2
    rw [Nat.shiftRight_eq_div_pow, ← hu, ← hsh] at this; exact this
  have hM2 : hi / 2^sh < 2^(F.mantissaSize+2) := by
    have := mantissa_lt (ms := F.mantissaSize) (by omega) hhi2
    rw [Nat.shiftRight_eq_div_pow, ← hu, ← hsh] at this; exact this
  have hsh61 : 61 - F.mantissaSize ≤ sh := by omega
  have hml : hi / 2^sh * 2^sh ≤ hi := Nat.div_mul_le_self _ _
  have hmod : hi / 2^sh * 2^sh % u64Mod = hi / 2^sh * 2^sh := by
    unfold u64Mod; exact Nat.mod_eq_of_lt (by omega)
  rw [hmod]
  have hti := tie_iff hS.tw pf rf hrow hn.1 hn.2 hsh61 hM1 hM2
  obtain ⟨b1, b2⟩ := z_bracket pf rf hn.2 hnb hsh61
  have hkmin := hwf.kmin_eq
  have hminE := WF.minExp_eq hwf
  generalize hM : hi / 2^sh = M at *
  have hB : 0 < 2^sh * 2^128 * rowE q :=
    Nat.mul_pos (Nat.mul_pos (Nat.two_pow_pos _) (by decide)) (rowE_pos q)
  have hk : F.fmt.kmin ≤ power q + u - clz64 w - F.mantissaSize := by omega
  have hY := value_scaled w q (clz64 w) sh
  have ek : power q - 62 - (clz64 w : Int) + (sh : Int) = power q + u - clz64 w - F.mantissaSize - 1 := by
    omega
  rw [ek] at hY
  have hmb : F.fmt.mbits = F.mantissaSize := rfl
  have key := rne_of_halfbits_nat F.fmt (ofDec_den_pos w q) (ofDec_num_ne hw0 q) hk hB hY b1 b2
    (r := ((if lo ≤ 1 ∧ q ≥ F.minExponentRoundToEven ∧ q ≤ F.maxExponentRoundToEven
              ∧ M % 4 = 1 ∧ M * 2^sh = hi then M - M % 2 else M) +
           (if lo ≤ 1 ∧ q ≥ F.minExponentRoundToEven ∧ q ≤ F.maxExponentRoundToEven
              ∧ M % 4 = 1 ∧ M * 2^sh = hi then M - M % 2 else M) % 2) / 2)
    (by rw [hmb]; exact hM2) (Or.inr (by rw [hmb]; exact hM1))
    (by
      intro hev
      have : ¬ (lo ≤ 1 ∧ q ≥ F.minExponentRoundToEven ∧ q ≤ F.maxExponentRoundToEven
              ∧ M % 4 = 1 ∧ M * 2^sh = hi) := fun hcc => by have := (hti.1 hcc).1; omega
      rw [if_neg this]; omega)
    (by
      intro hod hne
      have : ¬ (lo ≤ 1 ∧ q ≥ F.minExponentRoundToEven ∧ q ≤ F.maxExponentRoundToEven
              ∧ M % 4 = 1 ∧ M * 2^sh = hi) := fun hcc => hne (hti.1 hcc).2
      rw [if_neg this]; omega)
    (by
      intro hod heq
      by_cases h4 : M % 4 = 1
      · have : (lo ≤ 1 ∧ q ≥ F.minExponentRoundToEven ∧ q ≤ F.maxExponentRoundToEven
              ∧ M % 4 = 1 ∧ M * 2^sh = hi) := hti.2 ⟨h4, heq⟩
        rw [if_pos this, if_pos (by omega)]; omega
      · have : ¬ (lo ≤ 1 ∧ q ≥ F.minExponentRoundToEven ∧ q ≤ F.maxExponentRoundToEven
              ∧ M % 4 = 1 ∧ M * 2^sh = hi) := fun hcc => h4 (hti.1 hcc).1
        rw [if_neg this, if_neg (by omega)]; omega)
  rw [key, hmb]
  congr 2
  congr 1
  omega

/-- spec side of the subnormal branch (`power2 ≤ 0`; also covers the early `return fp_zero`) -/
theorem subnormal_spec (hS : LemSnd F) {q : Int} {w : Nat} (hw0 : 0 < w) (hw : w < 2^64)
    (h1 : -342 ≤ q) (h2 : q ≤ 308) {hi5 lo5 lo hi : Nat} {tk : Bool}
    (pf : ProdFacts F.mantissaSize (w * 2^(clz64 w)) hi5 lo5 lo hi tk)
    (rf : RowFacts q (hi5 * 2^64 + lo5) (rowG q) (rowE q))
    (hnb : ¬ (lo = u64Max ∧ ¬ (q ≥ -27 ∧ q ≤ 55)))
    {u sh : Nat} (hu : u = hi / 9223372036854775808)
    (hsh : sh = u + 64 - F.mantissaSize - 3)
    (hp : power q + u - clz64 w - F.minimumExponent ≤ 0) {j : Nat}
    (hj : (j : Int) = -(power q + u - clz64 w - F.minimumExponent) + 1) :
    rne F.fmt (ofDec w q) = (hi / 2^sh / 2^j + hi / 2^sh / 2^j % 2) / 2 := by
  have hwf := hS.lem.wf
  have hms := hS.tw.ms_le
  have hn := norm_bounds hw0 hw
  have hhi2 := pf.hi_lt
  have hu1 : u ≤ 1 := by rw [hu]; omega
  have hj1 : 1 ≤ j := by omega
  have hM2 : hi / 2^sh < 2^(F.mantissaSize+2) := by
    have := mantissa_lt (ms := F.mantissaSize) (by omega) hhi2
    rw [Nat.shiftRight_eq_div_pow, ← hu, ← hsh] at this; exact this
  have ediv : hi / 2^sh / 2^j = hi / 2^(sh + j) := by rw [Nat.div_div_eq_div_mul, ← Nat.pow_add]
  have hm1 : hi / 2^(sh + j) < 2^(F.mantissaSize+1) := by
    rw [← ediv]
    have h2j : 2 ≤ 2^j := by
      calc 2 = 2^1 := rfl
        _ ≤ 2^j := Nat.pow_le_pow_right (by decide) hj1
    have : hi / 2^sh / 2^j ≤ hi / 2^sh / 2 := Nat.div_le_div_left h2j (by decide)
    rw [Nat.pow_succ] at hM2 ⊢
    omega
  rw [ediv]
  have hsh61 : 61 - F.mantissaSize ≤ sh + j := by omega
  obtain ⟨b1, b2⟩ := z_bracket pf rf hn.2 hnb hsh61
  have hkmin := hwf.kmin_eq
  have hminE := WF.minExp_eq hwf
  have hq28 : q ≤ -28 := by
    have := hS.minExp_le
    have hlz := clz64_le hw0 hw
    rw [power_eq (by omega) (by omega)] at hp
    omega
  generalize hM : hi / 2^(sh + j) = m at *
  have hB : 0 < 2^(sh + j) * 2^128 * rowE q :=
    Nat.mul_pos (Nat.mul_pos (Nat.two_pow_pos _) (by decide)) (rowE_pos q)
  have hY := value_scaled w q (clz64 w) (sh + j)
  have ek : power q - 62 - (clz64 w : Int) + ((sh + j : Nat) : Int) = F.fmt.kmin - 1 := by
    push_cast; omega
  rw [ek] at hY
  have hmb : F.fmt.mbits = F.mantissaSize := rfl
  have key := rne_of_halfbits_nat F.fmt (ofDec_den_pos w q) (ofDec_num_ne hw0 q) (Int.le_refl _) hB hY b1 b2
    (r := (m + m % 2) / 2)
    (by rw [hmb, Nat.pow_succ]; rw [Nat.pow_succ] at hm1; omega) (Or.inl rfl)
    (by intro hev; omega)
    (by intro hod _; omega)
    (by
      intro _ heq
      exfalso
      apply no_int_small hq28 (Nat.lt_of_lt_of_le (by decide) hn.1) hn.2 (H := m * 2^(sh + j) * 2^128)
      rw [heq]; ring)
  rw [key, hmb]
  have hr : (m + m % 2) / 2 ≤ 2^F.mantissaSize := by rw [Nat.pow_succ] at hm1; omega
  have hI : 2^F.mantissaSize ≤ F.fmt.infBits := by
    have hE4 : 2^2 ≤ 2^F.ebits := Nat.pow_le_pow_right (by decide) hwf.eb_ge
    show 2^F.mantissaSize ≤ (2^F.ebits - 1) * 2^F.mantissaSize
    exact Nat.le_mul_of_pos_left _ (by omega)
  simp only [Int.sub_self, Int.toNat_zero, Nat.zero_mul, Nat.add_zero]
  omega

end

end MinLex.LemireSound
